/-
  SH.Lemmas.PromLexAllSteps — the per-token-class lexical theorems lifted to the whole lexer state machine
  (SH.Model.PromLexAll.lexStep): for every kind of token the printer writes — durations (after `[` and elsewhere), numbers,
  %q strings (outside and inside braces), words, label names, blanks, brackets with their mode switches, parentheses with the
  depth counter, braces, comma, `@`, operators, match operators — one step of the lexer on the printed text of the token
  followed by `rest` yields exactly that token, the right successor state, and `rest`. `lex_range_suffix` composes three of
  them across the `[` … `]` mode.
-/
import SH.Model.PromLexAll
import SH.Lemmas.PromLexNum
import SH.Lemmas.PromLexStr
set_option linter.unusedSimpArgs false
namespace SH.PromLex.Steps
open SH.PromLex SH.PromLex.Num

/-- the state of the lexer between tokens, outside braces and not right after `[` -/
def plain (st : LexState) : Prop := st.wantDur = false ∧ st.brace = false

theorem drop_append_length (a b : List Nat) : (a ++ b).drop a.length = b := by simp

/-- a duration the printer wrote, right after `[` (lexDuration) -/
theorem step_dur_bracket (st : LexState) (hst : st.wantDur = true) (n : Nat) (rest : List Nat) (hr : headAlnum rest = false) :
    lexStep (printSeconds n ++ rest) st = .tok "DURATION" (printSeconds n).length rest { st with wantDur := false } := by
  simp only [lexStep, hst, if_true, (lex_printSeconds n rest hr).2, drop_append_length]

/-- lexStatements hands a text that starts with a digit to lexNumberOrDuration -/
theorem statements_digit (c : Nat) (t : List Nat) (st : LexState) (hc : isDigitB c = true) :
    stepStatements (c :: t) st = stepNum (c :: t) st := by
  simp only [isDigitB, Bool.and_eq_true, decide_eq_true_eq] at hc
  have a1 : c ≠ 35 := by omega
  have a2 : c ≠ 44 := by omega
  have a3 : isSpaceB c = false := by simp [isSpaceB]; omega
  have a4 : c ≠ 42 := by omega
  have a5 : c ≠ 47 := by omega
  have a6 : c ≠ 37 := by omega
  have a7 : c ≠ 43 := by omega
  have a8 : c ≠ 45 := by omega
  have a9 : c ≠ 94 := by omega
  have a10 : c ≠ 61 := by omega
  have a11 : c ≠ 33 := by omega
  have a12 : c ≠ 60 := by omega
  have a13 : c ≠ 62 := by omega
  have hd : isDigitB c = true := by simp [isDigitB]; omega
  simp only [stepStatements, a1, a2, a3, a4, a5, a6, a7, a8, a9, a10, a11, a12, a13, if_false, hd, Bool.true_or, if_true,
    Bool.false_eq_true]

/-- lexStatements hands a text that starts with `"` to lexString -/
theorem statements_dq (t : List Nat) (st : LexState) : stepStatements (cDq :: t) st = stepString (cDq :: t) st := by
  simp [stepStatements, cDq, isSpaceB, isDigitB]

/-- lexStatements hands a text that starts with a letter, `_` or `:` to lexKeywordOrIdentifier (outside brackets) -/
theorem statements_word (c : Nat) (t : List Nat) (st : LexState) (hc : (isAlphaB c || c == 58) = true) (hb : st.bracket = false) :
    stepStatements (c :: t) st =
      .tok (wordName (lexWord (c :: t)).1) (lexWord (c :: t)).1.length (lexWord (c :: t)).2 st := by
  have hrange : c = 95 ∨ (97 ≤ c ∧ c ≤ 122) ∨ (65 ≤ c ∧ c ≤ 90) ∨ c = 58 := by
    simp [isAlphaB] at hc; omega
  have a1 : c ≠ 35 := by omega
  have a2 : c ≠ 44 := by omega
  have a3 : isSpaceB c = false := by simp [isSpaceB]; omega
  have a4 : c ≠ 42 := by omega
  have a5 : c ≠ 47 := by omega
  have a6 : c ≠ 37 := by omega
  have a7 : c ≠ 43 := by omega
  have a8 : c ≠ 45 := by omega
  have a9 : c ≠ 94 := by omega
  have a10 : c ≠ 61 := by omega
  have a11 : c ≠ 33 := by omega
  have a12 : c ≠ 60 := by omega
  have a13 : c ≠ 62 := by omega
  have a14 : isDigitB c = false := by simp [isDigitB]; omega
  have a15 : (c == 46) = false := by simp; omega
  have a16 : ¬ (c = cDq ∨ c = cSq ∨ c = cBt) := by simp [cDq, cSq, cBt]; omega
  simp only [stepStatements, a1, a2, a3, a4, a5, a6, a7, a8, a9, a10, a11, a12, a13, a14, a15, a16, if_false, hc, if_true, hb,
    Bool.false_or, Bool.false_and, Bool.not_false, Bool.false_eq_true]

/-- a duration the printer wrote, elsewhere (after `offset`, after `:` or `,` inside brackets): lexNumberOrDuration -/
theorem step_dur (st : LexState) (hst : plain st) (n : Nat) (rest : List Nat) (hr : headAlnum rest = false) :
    lexStep (printSeconds n ++ rest) st = .tok "DURATION" (printSeconds n).length rest st := by
  obtain ⟨_, hd, hne⟩ := natDigits_spec n
  obtain ⟨d0, ds, hds⟩ := List.exists_cons_of_ne_nil hne
  have hform : printSeconds n ++ rest = d0 :: (ds ++ 115 :: rest) := by simp [printSeconds, hds]
  simp only [lexStep, hst.1, hst.2, Bool.false_eq_true, if_false]
  rw [hform, statements_digit d0 _ st (hd d0 (by simp [hds])), ← hform]
  simp only [stepNum, (lex_printSeconds n rest hr).1, drop_append_length]

/-- a number the printer wrote -/
theorem step_num (st : LexState) (hst : plain st) (sh : NumShape) (hok : sh.ok = true) (rest : List Nat)
    (hr : numFollow rest = true) :
    lexStep (sh.render ++ rest) st = .tok "NUMBER" sh.render.length rest st := by
  have hs := scanNumber_shape sh hok rest hr
  have hl : lexNumOrDur (sh.render ++ rest) = .num sh.render.length := by
    simp only [lexNumOrDur, hs, if_true, List.length_append]; congr 1; omega
  obtain ⟨int, frac, exp⟩ := sh
  have hok' := hok
  simp only [NumShape.ok, Bool.and_eq_true, Bool.not_eq_true', List.all_eq_true] at hok'
  obtain ⟨d0, X, rfl⟩ := List.exists_cons_of_ne_nil (by intro h; subst h; simp at hok' : int ≠ [])
  have hd0 : isDigitB d0 = true := hok'.1.1.2 d0 (by simp)
  have hform : ∃ T, NumShape.render ⟨d0 :: X, frac, exp⟩ ++ rest = d0 :: T :=
    ⟨X ++ (fracToks frac ++ (expToks exp ++ rest)), by simp [NumShape.render]⟩
  obtain ⟨T, hT⟩ := hform
  simp only [lexStep, hst.1, hst.2, Bool.false_eq_true, if_false]
  rw [hT, statements_digit d0 T st hd0, ← hT]
  simp only [stepNum, hl, drop_append_length]

/-- a string the printer wrote with %q, outside braces -/
theorem step_string (st : LexState) (hst : plain st) (items : List QItem) (hok : ∀ i ∈ items, i.ok = true) (rest : List Nat) :
    lexStep (cDq :: (renderQ items ++ cDq :: rest)) st = .tok "STRING" ((renderQ items).length + 2) rest st := by
  simp only [lexStep, hst.1, hst.2, Bool.false_eq_true, if_false, statements_dq, stepString,
    SH.PromLex.Str.lexStringTok_quoted items hok rest]
  simp

/-- … and as a matcher value inside braces -/
theorem step_string_braces (st : LexState) (hw : st.wantDur = false) (hb : st.brace = true) (items : List QItem)
    (hok : ∀ i ∈ items, i.ok = true) (rest : List Nat) :
    lexStep (cDq :: (renderQ items ++ cDq :: rest)) st = .tok "STRING" ((renderQ items).length + 2) rest st := by
  have : stepBraces (cDq :: (renderQ items ++ cDq :: rest)) st = stepString (cDq :: (renderQ items ++ cDq :: rest)) st := by
    simp [stepBraces, cDq, isSpaceB, isAlnumB, isAlphaB, isDigitB]
  simp only [lexStep, hw, hb, Bool.false_eq_true, if_false, if_true, this, stepString,
    SH.PromLex.Str.lexStringTok_quoted items hok rest]
  simp

/-- a word (identifier, metric identifier, keyword, `Inf`, `NaN`) followed by something that does not continue it -/
theorem step_word (st : LexState) (hst : plain st) (hb : st.bracket = false) (c : Nat) (w rest : List Nat)
    (hc : (isAlphaB c || c == 58) = true) (hw : ∀ x ∈ w, isWordB x = true) (hr : ∀ x t, rest = x :: t → isWordB x = false) :
    lexStep (c :: w ++ rest) st = .tok (wordName (c :: w)) (w.length + 1) rest st := by
  have hcw : isWordB c = true := by
    simp only [isWordB, isAlnumB, Bool.or_eq_true] at hc ⊢
    rcases hc with hc | hc
    · exact Or.inl (Or.inl hc)
    · exact Or.inr hc
  have hl := lexWord_run (c :: w) rest (by intro x hx; simp at hx; rcases hx with rfl | hx; exact hcw; exact hw x hx) hr
  simp only [lexStep, hst.1, hst.2, Bool.false_eq_true, if_false]
  rw [show c :: w ++ rest = c :: (w ++ rest) from rfl, statements_word c _ st hc hb]
  rw [show c :: (w ++ rest) = (c :: w) ++ rest from rfl, hl]
  simp

/-- blanks between tokens are skipped, in either mode -/
theorem step_blank (st : LexState) (hw : st.wantDur = false) (rest : List Nat) :
    lexStep (32 :: rest) st = .skip (rest.dropWhile isSpaceB) st := by
  cases hb : st.brace <;> simp [lexStep, hw, hb, stepBraces, stepStatements, isSpaceB]

/-- `[` switches to lexDuration for the next token -/
theorem step_lbracket (st : LexState) (hst : plain st) (hb : st.bracket = false) (rest : List Nat) :
    lexStep (91 :: rest) st = .tok "LEFT_BRACKET" 1 (rest.dropWhile isSpaceB)
      { st with gotColon := false, bracket := true, wantDur := true } := by
  simp [lexStep, hst.1, hst.2, stepStatements, isSpaceB, isDigitB, isAlphaB, cDq, cSq, cBt, hb]

theorem step_rbracket (st : LexState) (hst : plain st) (hb : st.bracket = true) (rest : List Nat) :
    lexStep (93 :: rest) st = .tok "RIGHT_BRACKET" 1 rest { st with bracket := false } := by
  simp [lexStep, hst.1, hst.2, stepStatements, isSpaceB, isDigitB, isAlphaB, cDq, cSq, cBt, hb]

/-- `:` inside brackets (once) -/
theorem step_colon (st : LexState) (hst : plain st) (hb : st.bracket = true) (hg : st.gotColon = false) (rest : List Nat) :
    lexStep (58 :: rest) st = .tok "COLON" 1 rest { st with gotColon := true } := by
  simp [lexStep, hst.1, hst.2, stepStatements, isSpaceB, isDigitB, isAlphaB, cDq, cSq, cBt, hb, hg]

theorem step_lparen (st : LexState) (hst : plain st) (rest : List Nat) :
    lexStep (40 :: rest) st = .tok "LEFT_PAREN" 1 rest { st with depth := st.depth + 1 } := by
  simp [lexStep, hst.1, hst.2, stepStatements, isSpaceB, isDigitB, isAlphaB, cDq, cSq, cBt]

theorem step_rparen (st : LexState) (hst : plain st) (hd : st.depth ≠ 0) (rest : List Nat) :
    lexStep (41 :: rest) st = .tok "RIGHT_PAREN" 1 rest { st with depth := st.depth - 1 } := by
  simp [lexStep, hst.1, hst.2, stepStatements, isSpaceB, isDigitB, isAlphaB, cDq, cSq, cBt, hd]

theorem step_lbrace (st : LexState) (hst : plain st) (rest : List Nat) :
    lexStep (123 :: rest) st = .tok "LEFT_BRACE" 1 rest { st with brace := true } := by
  simp [lexStep, hst.1, hst.2, stepStatements, isSpaceB, isDigitB, isAlphaB, cDq, cSq, cBt]

theorem step_rbrace (st : LexState) (hw : st.wantDur = false) (hb : st.brace = true) (rest : List Nat) :
    lexStep (125 :: rest) st = .tok "RIGHT_BRACE" 1 rest { st with brace := false } := by
  simp [lexStep, hw, hb, stepBraces, isSpaceB, isAlnumB, isDigitB, isAlphaB, cDq, cSq, cBt]

theorem step_comma (st : LexState) (hw : st.wantDur = false) (rest : List Nat) :
    lexStep (44 :: rest) st = .tok "COMMA" 1 rest st := by
  cases hb : st.brace <;> simp [lexStep, hw, hb, stepBraces, stepStatements, isSpaceB, isAlnumB, isDigitB, isAlphaB]

theorem step_at (st : LexState) (hst : plain st) (rest : List Nat) : lexStep (64 :: rest) st = .tok "AT" 1 rest st := by
  simp [lexStep, hst.1, hst.2, stepStatements, isSpaceB, isDigitB, isAlphaB, cDq, cSq, cBt]

/-- the one-character operators `+ - * / % ^` -/
theorem step_op1 (st : LexState) (hst : plain st) (rest : List Nat) :
    lexStep (43 :: rest) st = .tok "ADD" 1 rest st ∧ lexStep (45 :: rest) st = .tok "SUB" 1 rest st ∧
    lexStep (42 :: rest) st = .tok "MUL" 1 rest st ∧ lexStep (47 :: rest) st = .tok "DIV" 1 rest st ∧
    lexStep (37 :: rest) st = .tok "MOD" 1 rest st ∧ lexStep (94 :: rest) st = .tok "POW" 1 rest st := by
  simp [lexStep, hst.1, hst.2, stepStatements, isSpaceB]

/-- the comparison operators as the printer writes them (always followed by a blank) -/
theorem step_cmp (st : LexState) (hst : plain st) (rest : List Nat) :
    lexStep (61 :: 61 :: rest) st = .tok "EQLC" 2 rest st ∧ lexStep (33 :: 61 :: rest) st = .tok "NEQ" 2 rest st ∧
    lexStep (60 :: 61 :: rest) st = .tok "LTE" 2 rest st ∧ lexStep (62 :: 61 :: rest) st = .tok "GTE" 2 rest st ∧
    lexStep (60 :: 32 :: rest) st = .tok "LSS" 1 (32 :: rest) st ∧ lexStep (62 :: 32 :: rest) st = .tok "GTR" 1 (32 :: rest) st := by
  simp [lexStep, hst.1, hst.2, stepStatements, isSpaceB]

/-- the match operators inside braces, followed by the `"` of the value -/
theorem step_matchop (st : LexState) (hw : st.wantDur = false) (hb : st.brace = true) (rest : List Nat) :
    lexStep (61 :: cDq :: rest) st = .tok "EQL" 1 (cDq :: rest) st ∧ lexStep (33 :: 61 :: rest) st = .tok "NEQ" 2 rest st ∧
    lexStep (61 :: 126 :: rest) st = .tok "EQL_REGEX" 2 rest st ∧ lexStep (33 :: 126 :: rest) st = .tok "NEQ_REGEX" 2 rest st := by
  simp [lexStep, hw, hb, stepBraces, isSpaceB, isAlnumB, isAlphaB, isDigitB, cDq, cSq, cBt]

/-- a label name inside braces -/
theorem step_lname (st : LexState) (hw : st.wantDur = false) (hb : st.brace = true) (c : Nat) (w rest : List Nat)
    (hc : isAlnumB c = true) (hws : ∀ x ∈ w, isAlnumB x = true) (hr : ∀ x t, rest = x :: t → isAlnumB x = false) :
    lexStep (c :: w ++ rest) st = .tok "IDENTIFIER" (w.length + 1) rest st := by
  have hall : ∀ x ∈ c :: w, isAlnumB x = true := by intro x hx; simp at hx; rcases hx with rfl | hx; exact hc; exact hws x hx
  have htw : (c :: w ++ rest).takeWhile isAlnumB = c :: w := by
    cases rest with
    | nil => simpa using takeWhile_all isAlnumB (c :: w) hall
    | cons x t => exact takeWhile_run isAlnumB (c :: w) x t hall (hr x t rfl)
  have hdw : (c :: w ++ rest).dropWhile isAlnumB = rest := by
    cases rest with
    | nil => simpa using dropWhile_all isAlnumB (c :: w) hall
    | cons x t => exact dropWhile_run isAlnumB (c :: w) x t hall (hr x t rfl)
  have hne : c ≠ 35 ∧ isSpaceB c = false := by
    simp [isAlnumB, isAlphaB, isDigitB] at hc
    constructor
    · omega
    · simp [isSpaceB]; omega
  simp only [lexStep, hw, hb, Bool.false_eq_true, if_false, if_true]
  rw [show c :: w ++ rest = c :: (w ++ rest) from rfl]
  simp only [stepBraces, hne.1, hne.2, if_false, hc, if_true, Bool.false_eq_true]
  rw [show c :: (w ++ rest) = c :: w ++ rest from rfl, htw, hdw]
  simp

theorem dropWhile_space_digit (c : Nat) (t : List Nat) (hc : isDigitB c = true) : (c :: t).dropWhile isSpaceB = c :: t := by
  have : isSpaceB c = false := by simp [isDigitB] at hc; simp [isSpaceB]; omega
  simp [List.dropWhile, this]

/-- composition across the bracket mode: the range `[<n>s]` the printer writes after a selector is lexed to
    LEFT_BRACKET DURATION RIGHT_BRACKET and the lexer is back in the state it started from -/
theorem lex_range_suffix (f : Nat) (st : LexState) (hst : plain st) (hb : st.bracket = false) (hg : st.gotColon = false)
    (n : Nat) (rest : List Nat) :
    lexLoop (f + 3) (91 :: (printSeconds n ++ 93 :: rest)) st =
      (⟨"LEFT_BRACKET", 1⟩ :: ⟨"DURATION", (printSeconds n).length⟩ :: ⟨"RIGHT_BRACKET", 1⟩ :: (lexLoop f rest st).1,
       (lexLoop f rest st).2) := by
  obtain ⟨_, hd, hne⟩ := natDigits_spec n
  obtain ⟨d0, ds, hds⟩ := List.exists_cons_of_ne_nil hne
  have hform : printSeconds n ++ 93 :: rest = d0 :: (ds ++ 115 :: 93 :: rest) := by simp [printSeconds, hds]
  have hsp : (printSeconds n ++ 93 :: rest).dropWhile isSpaceB = printSeconds n ++ 93 :: rest := by
    rw [hform]; exact dropWhile_space_digit d0 _ (hd d0 (by simp [hds]))
  have h1 := step_lbracket st hst hb (printSeconds n ++ 93 :: rest)
  rw [hsp] at h1
  have h2 := step_dur_bracket { st with gotColon := false, bracket := true, wantDur := true } rfl n (93 :: rest) (by simp [headAlnum, isAlnumB, isAlphaB, isDigitB])
  have h3 := step_rbracket { st with gotColon := false, bracket := true, wantDur := false } ⟨rfl, hst.2⟩ rfl rest
  have hback : ({ st with gotColon := false, bracket := false, wantDur := false } : LexState) = st := by
    obtain ⟨b, k, g, d, w⟩ := st
    simp only [plain] at hst
    simp at hb hg
    simp [hst.1, hb, hg]
  rw [show f + 3 = (f + 2) + 1 from rfl, lexLoop, h1]
  simp only []
  rw [show f + 2 = (f + 1) + 1 from rfl, lexLoop, h2]
  simp only []
  rw [lexLoop, h3]
  simp only [hback]

end SH.PromLex.Steps
