/-
  SH.Lemmas.BinlogWriter — the writer-loop state machine: well-formedness of `rotatePos` w.r.t. the append buffer, byte
  accounting of `writeBuffer`, monotonicity of the synced prefix.  Used by `commit_le_fsynced` in Props/C18.
-/
import SH.Lemmas.BinlogRot
open SH.Binlog
namespace SH.C18

/-- `rotatePos` is well formed for a buffer of length `len` when writing starts at `prev`: every rotation position has the
    36 bytes of ROTATE_TO in front of it (after `prev`) and the 36 bytes of ROTATE_FROM behind it -/
def WF (len : Nat) : Nat → List Nat → Prop
  | prev, [] => prev ≤ len
  | prev, p :: ps => prev + 36 ≤ p ∧ p + 36 ≤ len ∧ WF len (p + 36) ps

theorem WF_mono {len len' : Nat} (hl : len ≤ len') : ∀ {prev : Nat} {ps : List Nat}, WF len prev ps → WF len' prev ps
  | _, [], h => Nat.le_trans h hl
  | _, _ :: _, ⟨a, b, c⟩ => ⟨a, Nat.le_trans b hl, WF_mono hl c⟩

theorem WF_snoc {len len' q : Nat} (h1 : len + 36 ≤ q) (h2 : q + 36 ≤ len') :
    ∀ {prev : Nat} {ps : List Nat}, WF len prev ps → WF len' prev (ps ++ [q])
  | _, [], h => by simp only [List.nil_append, WF]; simp only [WF] at h; omega
  | _, _ :: _, ⟨a, b, c⟩ => ⟨a, by omega, WF_snoc h1 h2 c⟩

/-- the writer state accounts for its buffer: `offsetGlobal = X + len(buff)` (X = bytes already handed to the files) -/
def Winv (X : Nat) (w : WS) : Prop := w.offG = X + w.buff.length ∧ WF w.buff.length 0 w.rotPos

theorem appendLev_winv (cfg : Cfg) {X : Nat} {w : WS} (d : Bytes) (h : Winv X w) : Winv X (appendLev cfg w d) := by
  refine ⟨?_, ?_⟩
  · simp only [appendLev, List.length_append]; have := h.1; omega
  · exact WF_mono (by simp [appendLev]) h.2

theorem putCrc_winv (cfg : Cfg) {X : Nat} {w : WS} (body : Bytes) (ts : Nat) (h : Winv X w) : Winv X (putCrc cfg w body ts) := by
  simp only [putCrc]
  split
  · exact appendLev_winv cfg _ (appendLev_winv cfg body h)
  · exact appendLev_winv cfg body h

theorem addRotate_winv (cfg : Cfg) {X : Nat} {w : WS} (ts h1 h2 : Nat) (h : Winv X w) : Winv X (addRotate cfg w ts h1 h2) := by
  have p36 : pad4 36 = 36 := by decide
  refine ⟨?_, ?_⟩
  · simp only [addRotate, appendLev, List.length_append, padded_length, encRotTo_length, encRotFrom_length, p36]
    have := h.1; omega
  · simp only [addRotate, appendLev, List.length_append, padded_length, encRotTo_length, encRotFrom_length, p36]
    exact WF_snoc (len := w.buff.length) (by omega) (by omega) h.2

theorem putLev_winv (cfg : Cfg) {X : Nat} {w : WS} (inOff : Int) (body : Bytes) (asap : Bool) (ts h1 h2 : Nat) (h : Winv X w) :
    Winv X (putLev cfg w inOff body asap ts h1 h2).1 := by
  unfold putLev
  split
  · exact h
  · split
    · exact h
    · simp only []
      split
      · exact putCrc_winv cfg body ts h
      · simp only [putBody]
        have hr : Winv X (if needRotate cfg (putCrc cfg w body ts) = true then addRotate cfg (putCrc cfg w body ts) ts h1 h2
            else putCrc cfg w body ts) := by
          split
          · exact addRotate_winv cfg ts h1 h2 (putCrc_winv cfg body ts h)
          · exact putCrc_winv cfg body ts h
        split
        · exact hr
        · exact hr

/-! ### writeBuffer -/

theorem slice_length (b : Bytes) (i j : Nat) (hj : j ≤ b.length) : (slice b i j).length = j - i := by
  simp [slice]; omega

theorem writeBuffer_written (buff : Bytes) : ∀ (ps : List Nat) (l : LS) (prev : Nat), WF buff.length prev ps →
    writtenEnd (writeBuffer l buff prev ps) = writtenEnd l + (buff.length - prev)
  | [], l, prev, _ => by simp [writeBuffer, writtenEnd, FileS.write]; omega
  | p :: ps, l, prev, ⟨a, b, c⟩ => by
    simp only [writeBuffer, levRotateSize]
    rw [writeBuffer_written buff ps _ _ c]
    simp only [writtenEnd, rotateFS, FileS.write, FileS.sync, List.map_cons, List.sum_cons, List.length_append, levRotateSize]
    rw [slice_length _ _ _ (by omega), slice_length _ _ _ (by omega), slice_length _ _ _ (by omega)]
    omega

/-- every file's synced prefix is inside the file -/
def SyncedLe (l : LS) : Prop := l.cur.synced ≤ l.cur.data.length

theorem writeBuffer_synced (buff : Bytes) : ∀ (ps : List Nat) (l : LS) (prev : Nat), SyncedLe l →
    syncedEnd l ≤ syncedEnd (writeBuffer l buff prev ps) ∧ SyncedLe (writeBuffer l buff prev ps)
  | [], l, prev, h => by
    simp only [writeBuffer, syncedEnd, SyncedLe, FileS.write, List.length_append] at *
    omega
  | p :: ps, l, prev, h => by
    simp only [writeBuffer]
    have ih := writeBuffer_synced buff ps
      (rotateFS { l with cur := l.cur.write (slice buff prev (p - levRotateSize)) } (slice buff (p - levRotateSize) p)
        (slice buff p (p + levRotateSize))) (p + levRotateSize) (by simp [SyncedLe, rotateFS])
    refine ⟨Nat.le_trans ?_ ih.1, ih.2⟩
    simp only [syncedEnd, rotateFS, FileS.write, FileS.sync, List.map_cons, List.sum_cons, List.length_append, SyncedLe] at *
    omega

end SH.C18
