/-
  SH.Lemmas.UniqueTrie — the bit trie of SH.Model.Unique as a finite set (helper lemmas for Props/C04, Part 3):
  keys (abstraction to Finset ℕ), membership, insert, size = card, thin = filter by divisibility, toList.
-/
import SH.Model.Unique
import Mathlib.Data.Finset.Card
import Mathlib.Data.Finset.Image
import Mathlib.Tactic.Ring
namespace SH.C04
open SH.Unique



/-- the set of values stored in a trie with `d` bits left -/
def keys : Nat → Trie → Finset ℕ
  | _, .nil => ∅
  | 0, .node h _ _ => if h then {0} else ∅
  | d + 1, .node _ z o => (keys d z).image (fun y => 2 * y) ∪ (keys d o).image (fun y => 2 * y + 1)

theorem keys_nil (d : Nat) : keys d .nil = ∅ := by cases d <;> rfl

theorem keys_succ (d : Nat) (t : Trie) :
    keys (d + 1) t = (keys d t.zc).image (fun y => 2 * y) ∪ (keys d t.oc).image (fun y => 2 * y + 1) := by
  cases t with
  | nil => simp [keys, Trie.zc, Trie.oc, keys_nil]
  | node h z o => simp [keys, Trie.zc, Trie.oc]

theorem keys_zero (t : Trie) : keys 0 t = if t.hr then {0} else ∅ := by
  cases t with
  | nil => simp [keys, Trie.hr]
  | node h z o => cases h <;> simp [keys, Trie.hr]

theorem mem_keys_succ (d : Nat) (t : Trie) (x : Nat) :
    x ∈ keys (d + 1) t ↔ (x % 2 = 0 ∧ x / 2 ∈ keys d t.zc) ∨ (x % 2 = 1 ∧ x / 2 ∈ keys d t.oc) := by
  rw [keys_succ]
  simp only [Finset.mem_union, Finset.mem_image]
  constructor
  · rintro (⟨y, hy, rfl⟩ | ⟨y, hy, rfl⟩)
    · left; refine ⟨by omega, ?_⟩; have : 2 * y / 2 = y := by omega
      rw [this]; exact hy
    · right; refine ⟨by omega, ?_⟩; have : (2 * y + 1) / 2 = y := by omega
      rw [this]; exact hy
  · rintro (⟨h, hy⟩ | ⟨h, hy⟩)
    · left; exact ⟨x / 2, hy, by omega⟩
    · right; exact ⟨x / 2, hy, by omega⟩

theorem keys_lt (d : Nat) : ∀ (t : Trie) (x : Nat), x ∈ keys d t → x < 2 ^ d := by
  induction d with
  | zero => intro t x h; rw [keys_zero] at h; split at h <;> simp at h; omega
  | succ d ih =>
    intro t x h
    rw [mem_keys_succ] at h
    rw [Nat.pow_succ]
    rcases h with ⟨_, h⟩ | ⟨_, h⟩
    · have := ih _ _ h; omega
    · have := ih _ _ h; omega

theorem mem_iff (d : Nat) : ∀ (t : Trie) (x : Nat), x < 2 ^ d → (t.mem d x = true ↔ x ∈ keys d t) := by
  induction d with
  | zero =>
    intro t x hx
    have : x = 0 := by simp at hx; omega
    subst this
    rw [keys_zero]; simp only [Trie.mem]
    split <;> simp_all
  | succ d ih =>
    intro t x hx
    rw [mem_keys_succ]
    simp only [Trie.mem]
    rw [Nat.pow_succ] at hx
    split
    · rename_i h; rw [ih _ _ (by omega)]; constructor
      · intro hh; left; exact ⟨h, hh⟩
      · rintro (⟨_, hh⟩ | ⟨h', _⟩); exact hh; omega
    · rename_i h; rw [ih _ _ (by omega)]; constructor
      · intro hh; right; exact ⟨by omega, hh⟩
      · rintro (⟨h', _⟩ | ⟨_, hh⟩); omega; exact hh

theorem keys_insert (d : Nat) : ∀ (t : Trie) (x : Nat), x < 2 ^ d → keys d (t.insert d x) = insert x (keys d t) := by
  induction d with
  | zero =>
    intro t x hx
    have : x = 0 := by simp at hx; omega
    subst this
    rw [keys_zero t]
    simp only [Trie.insert, keys]
    cases t.hr <;> simp
  | succ d ih =>
    intro t x hx
    rw [Nat.pow_succ] at hx
    ext y
    rw [Finset.mem_insert, mem_keys_succ, mem_keys_succ]
    simp only [Trie.insert]
    split
    · rename_i h
      simp only [Trie.zc, Trie.oc]
      rw [ih _ _ (by omega), Finset.mem_insert]
      constructor
      · rintro (⟨a, b | b⟩ | c)
        · left; omega
        · right; left; exact ⟨a, b⟩
        · right; right; exact c
      · rintro (rfl | ⟨a, b⟩ | c)
        · left; exact ⟨h, Or.inl rfl⟩
        · left; exact ⟨a, Or.inr b⟩
        · right; exact c
    · rename_i h
      simp only [Trie.zc, Trie.oc]
      rw [ih _ _ (by omega), Finset.mem_insert]
      constructor
      · rintro (c | ⟨a, b | b⟩)
        · right; left; exact c
        · left; omega
        · right; right; exact ⟨a, b⟩
      · rintro (rfl | c | ⟨a, b⟩)
        · right; exact ⟨by omega, Or.inl rfl⟩
        · left; exact c
        · right; exact ⟨a, Or.inr b⟩

theorem size_nil (d : Nat) : Trie.size d .nil = 0 := by cases d <;> rfl

theorem size_eq (d : Nat) : ∀ (t : Trie), t.size d = (keys d t).card := by
  induction d with
  | zero =>
    intro t; cases t with
    | nil => simp [Trie.size, keys]
    | node h z o => simp only [Trie.size, keys]; split <;> simp
  | succ d ih =>
    intro t; cases t with
    | nil => simp [Trie.size, keys]
    | node h z o =>
      simp only [Trie.size, keys]
      rw [Finset.card_union_of_disjoint, Finset.card_image_of_injective, Finset.card_image_of_injective, ih, ih]
      · intro a b h; simp only at h; omega
      · intro a b h; simp only at h; omega
      · rw [Finset.disjoint_left]
        intro a ha hb
        simp only [Finset.mem_image] at ha hb
        obtain ⟨y, _, rfl⟩ := ha
        obtain ⟨z, _, hz⟩ := hb
        omega

/-- the values divisible by 2^k -/
def fil (k : Nat) (U : Finset ℕ) : Finset ℕ := U.filter (fun y => y % 2 ^ k = 0)

theorem mem_fil (k : Nat) (U : Finset ℕ) (y : Nat) : y ∈ fil k U ↔ y ∈ U ∧ y % 2 ^ k = 0 := by
  simp [fil]

theorem keys_thin (d : Nat) : ∀ (k : Nat) (t : Trie), keys d (t.thin d k) = fil k (keys d t) := by
  induction d with
  | zero =>
    intro k t
    ext y
    rw [mem_fil]
    cases k with
    | zero => simp [Trie.thin, Nat.mod_one]
    | succ k =>
      cases t with
      | nil => simp [Trie.thin, keys]
      | node h z o =>
        simp only [Trie.thin]
        constructor
        · intro hy; refine ⟨hy, ?_⟩
          have := keys_lt 0 _ _ hy
          have : y = 0 := by simp at this; omega
          subst this; simp
        · intro hy; exact hy.1
  | succ d ih =>
    intro k t
    ext y
    rw [mem_fil]
    cases k with
    | zero => simp [Trie.thin, Nat.mod_one]
    | succ k =>
      cases t with
      | nil => simp [Trie.thin, keys]
      | node h z o =>
        simp only [Trie.thin]
        rw [mem_keys_succ, mem_keys_succ]
        simp only [Trie.zc, Trie.oc, keys_nil, Finset.notMem_empty, and_false, or_false]
        rw [ih, mem_fil]
        have hp : (2:ℕ) ^ (k + 1) = 2 * 2 ^ k := by rw [Nat.pow_succ]; ring
        constructor
        · rintro ⟨h0, hz, hm⟩
          refine ⟨Or.inl ⟨h0, hz⟩, ?_⟩
          have : y = 2 * (y / 2) := by omega
          rw [this, hp, Nat.mul_mod_mul_left, hm]
        · rintro ⟨(⟨h0, hz⟩ | ⟨h1, _⟩), hm⟩
          · refine ⟨h0, hz, ?_⟩
            have : y = 2 * (y / 2) := by omega
            rw [this, hp, Nat.mul_mod_mul_left] at hm
            omega
          · exfalso
            have : y % 2 = 0 := by
              have h2 : 2 ∣ 2 ^ (k + 1) := ⟨2 ^ k, hp⟩
              have := Nat.mod_mod_of_dvd y h2
              omega
            omega

theorem mem_toList (d : Nat) : ∀ (t : Trie) (x : Nat), x ∈ t.toList d ↔ x ∈ keys d t := by
  induction d with
  | zero =>
    intro t x; cases t with
    | nil => simp [Trie.toList, keys]
    | node h z o => simp only [Trie.toList, keys]; split <;> simp
  | succ d ih =>
    intro t x; cases t with
    | nil => simp [Trie.toList, keys]
    | node h z o =>
      simp only [Trie.toList, keys, List.mem_append, List.mem_map, Finset.mem_union, Finset.mem_image, ih]

end SH.C04
