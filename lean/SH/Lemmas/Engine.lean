/-
  SH.Lemmas.Engine — helper lemmas for property C17 (list facts, the invariant of SH.Model.Engine and its
  preservation by every step). The property theorems themselves are in SH/Props/C17.lean.
-/
import SH.Model.Engine
namespace SH.Engine

/-! list lemmas -/
theorem evIds_append (a b : List Rec) : evIds (a ++ b) = evIds a ++ evIds b := by simp [evIds]
theorem upTo_append (c : Nat) (a b : List Rec) : upTo c (a ++ b) = upTo c a ++ upTo c b := by simp [upTo]
theorem above_append (c : Nat) (a b : List Rec) : above c (a ++ b) = above c a ++ above c b := by simp [above]
theorem total_append (a b : List Rec) : total (a ++ b) = total a + total b := by simp [total]
theorem total_nil : total [] = 0 := rfl
theorem total_cons (r : Rec) (l : List Rec) : total (r :: l) = r.ln + total l := by simp [total]
theorem flat_append (a b : List QItem) : flat (a ++ b) = flat a ++ flat b := by simp [flat]
theorem flat_nil : flat [] = [] := rfl
theorem flat_cons (a : QItem) (b : List QItem) : flat (a :: b) = itemRecs a ++ flat b := by simp [flat]
theorem evsUpTo_append (a b : List Rec) (c : Nat) : evsUpTo (a ++ b) c = evsUpTo a c ++ evsUpTo b c := by
  simp [evsUpTo, upTo_append, evIds_append]

theorem upTo_eq_nil (c : Nat) (l : List Rec) (h : ∀ r ∈ l, c < r.eo) : upTo c l = [] := by
  simp only [upTo, List.filter_eq_nil_iff]
  intro r hr; have := h r hr; simp; omega

theorem upTo_eq_self (c : Nat) (l : List Rec) (h : ∀ r ∈ l, r.eo ≤ c) : upTo c l = l := by
  simp only [upTo, List.filter_eq_self]
  intro r hr; have := h r hr; simp; omega

theorem evsUpTo_nil_of_above (c : Nat) (l : List Rec) (h : ∀ r ∈ l, c < r.eo) : evsUpTo l c = [] := by
  simp [evsUpTo, upTo_eq_nil c l h, evIds]

/-- if every event of `l` ends at or before `off`, the prefix up to `off` holds all events of `l` -/
theorem evsUpTo_eq_evIds (l : List Rec) (off : Nat) (h : ∀ r ∈ l, r.isEv = true → r.eo ≤ off) :
    evsUpTo l off = evIds l := by
  simp only [evsUpTo, evIds, upTo, List.filter_filter]
  congr 1
  apply List.filter_congr
  intro r hr
  by_cases he : r.isEv = true
  · have := h r hr he; simp [he, this]
  · simp [he]

theorem mem_evIds {l : List Rec} {id : Nat} : id ∈ evIds l ↔ ∃ r ∈ l, r.isEv = true ∧ r.id = id := by
  simp [evIds]; constructor
  · rintro ⟨r, ⟨h1, h2⟩, h3⟩; exact ⟨r, h1, h2, h3⟩
  · rintro ⟨r, h1, h2, h3⟩; exact ⟨r, ⟨h1, h2⟩, h3⟩

theorem mem_upTo {l : List Rec} {c : Nat} {r : Rec} : r ∈ upTo c l ↔ r ∈ l ∧ r.eo ≤ c := by simp [upTo]
theorem mem_above {l : List Rec} {c : Nat} {r : Rec} : r ∈ above c l ↔ r ∈ l ∧ c < r.eo := by simp [above]

theorem evIds_upTo_upTo (l : List Rec) (c : Nat) : evIds (upTo c l) = evsUpTo l c := rfl


theorem plen_pos (l : Nat) : 0 < plen l := by
  unfold plen pad4; omega

theorem mkRecs_bounds : ∀ (l : List (Bool × Nat × Nat)) (p : Nat), (∀ x ∈ l, 0 < x.2.2) →
    ∀ r ∈ mkRecs p l, p < r.eo ∧ r.eo ≤ p + total (mkRecs p l) := by
  intro l
  induction l with
  | nil => intro p _ r hr; simp [mkRecs] at hr
  | cons a t ih =>
    intro p hpos r hr
    obtain ⟨e, id, ln⟩ := a
    have hln : 0 < ln := hpos (e, id, ln) (List.mem_cons_self ..)
    simp only [mkRecs, List.mem_cons] at hr
    simp only [mkRecs, total_cons]
    rcases hr with rfl | hr
    · simp; omega
    · have := ih (p + ln) (fun x hx => hpos x (List.mem_cons_of_mem _ hx)) r hr
      omega

/-- ids contributed by queued items when they are flushed (bodies insert their events, skips insert nothing) -/
def itemIds : QItem → List Nat
  | .body rs => evIds rs
  | .skip _ => []
def itemsIds (aq : List QItem) : List Nat := aq.flatMap itemIds

theorem itemsIds_eq (aq : List QItem) (h : ∀ r, QItem.skip r ∈ aq → r.isEv = false) : itemsIds aq = evIds (flat aq) := by
  induction aq with
  | nil => rfl
  | cons a t ih =>
    have iht := ih (fun r hr => h r (List.mem_cons_of_mem _ hr))
    cases a with
    | body rs => simp [itemsIds, flat, itemIds, itemRecs, evIds_append] at iht ⊢; exact iht
    | skip r =>
      have := h r (List.mem_cons_self ..)
      simp [itemsIds, flat, itemIds, itemRecs, evIds_append] at iht ⊢
      simp [evIds, this]; exact iht

/-- closed form of `applyAllChanges` -/
def flushed (s : St) (aq : List QItem) : St :=
  { s with tx := ⟨s.tx.rows ++ itemsIds aq, if aq = [] then s.tx.off else s.dbo + total (flat aq)⟩,
           dbo := s.dbo + total (flat aq), done := s.done ++ flat aq }

theorem foldl_flush : ∀ (aq : List QItem) (s : St), aq.foldl flushItem s = flushed s aq := by
  intro aq
  induction aq with
  | nil => intro s; simp [flushed, itemsIds, flat, total]
  | cons a t ih =>
    intro s
    rw [List.foldl_cons, ih]
    cases a with
    | body rs =>
      by_cases ht : t = []
      · subst ht; simp [flushed, flushItem, applyDirect, itemsIds, itemIds, flat, itemRecs, total]
      · simp [flushed, flushItem, applyDirect, itemsIds, itemIds, flat, itemRecs, total_append, ht, Nat.add_assoc]
    | skip r =>
      by_cases ht : t = []
      · subst ht; simp [flushed, flushItem, skipDirect, itemsIds, itemIds, flat, itemRecs, total]
      · simp [flushed, flushItem, skipDirect, itemsIds, itemIds, flat, itemRecs, total_append, total, ht, Nat.add_assoc]


/-! ### the invariant -/

def allR (done : List Rec) (aq : List QItem) (rest : List Rec) : List Rec := done ++ flat aq ++ rest
def rpos (dbo : Nat) (aq : List QItem) : Nat := dbo + total (flat aq)

/-- the invariant, over the components of the state it talks about (so that updates of other fields are `id`) -/
structure InvC (com tx : DB) (dbo : Nat) (done rest : List Rec) (len dur ci : Nat) (waitQ : List Waiter)
    (ackedW : List Nat) (q : Bool) (aq : List QItem) : Prop where
  i1 : com.rows = evsUpTo done com.off
  i2 : tx.rows = evIds done
  i3 : ∀ r ∈ done, r.isEv = true → r.eo ≤ tx.off
  i6a : com.off ≤ tx.off
  i6b : tx.off ≤ dbo
  i7a : com.off ≤ dur
  i7b : ci ≤ dur
  dl : dur ≤ len
  rpl : rpos dbo aq ≤ len
  ql : ∀ r ∈ flat aq, dbo < r.eo ∧ r.eo ≤ rpos dbo aq
  qs : ∀ r, QItem.skip r ∈ aq → r.isEv = false
  rl : ∀ r ∈ rest, rpos dbo aq < r.eo
  ln : ∀ r ∈ allR done aq rest, r.eo ≤ len
  q0 : q = false → aq = []
  ack : ∀ id ∈ ackedW, ∃ r ∈ allR done aq rest, r.isEv = true ∧ r.id = id ∧ r.eo ≤ dur
  wq : ∀ w ∈ waitQ, w.rd = false → ∃ r ∈ done, r.isEv = true ∧ r.id = w.tag ∧ r.eo ≤ w.off

def Inv0 (s : St) : Prop := InvC s.com s.tx s.dbo s.done s.rest s.len s.dur s.ci s.waitQ s.ackedW s.q s.aq
def Inv (s : St) : Prop := Inv0 s ∧ (s.q = true → s.ci < s.dbo)

theorem allRecs_eq (s : St) : allRecs s = allR s.done s.aq s.rest := rfl
theorem rp_eq (s : St) : rp s = rpos s.dbo s.aq := rfl

theorem inv_init (w r : Bool) : Inv (init w r [] 0) := by
  refine ⟨?_, by simp [init]⟩
  constructor <;> simp [init, evsUpTo, upTo, evIds, rpos, flat, total, allR]

/-- COMMIT of the write transaction, allowed once its offset is covered by the durable binlog prefix -/
theorem inv0_comTx {s : St} (h : Inv0 s) (hd : s.tx.off ≤ s.dur) :
    InvC s.tx s.tx s.dbo s.done s.rest s.len s.dur s.ci s.waitQ s.ackedW s.q s.aq := by
  obtain ⟨i1, i2, i3, i6a, i6b, i7a, i7b, dl, rpl, ql, qs, rl, ln, q0, ack, wq⟩ := h
  exact ⟨by rw [i2, evsUpTo_eq_evIds _ _ i3], i2, i3, Nat.le_refl _, i6b, hd, i7b, dl, rpl, ql, qs, rl, ln, q0, ack, wq⟩


theorem mem_allR {done rest : List Rec} {aq : List QItem} {r : Rec} :
    r ∈ allR done aq rest ↔ r ∈ done ∨ r ∈ flat aq ∨ r ∈ rest := by
  simp [allR, or_assoc]

theorem mem_allR_flush {done rest : List Rec} {aq : List QItem} {r : Rec} :
    r ∈ allR (done ++ flat aq) [] rest ↔ r ∈ allR done aq rest := by
  simp only [allR, flat_nil, List.append_nil]

/-- flushing the apply queue (queued payloads applied, queued skips skipped, in order) -/
theorem flushQ_inv {s : St} (h : Inv0 s) : Inv (flushQ s) := by
  obtain ⟨i1, i2, i3, i6a, i6b, i7a, i7b, dl, rpl, ql, qs, rl, ln, q0, ack, wq⟩ := h
  refine ⟨?_, by simp [flushQ]⟩
  simp only [Inv0, flushQ, foldl_flush, flushed]
  constructor
  · -- i1
    show s.com.rows = evsUpTo (s.done ++ flat s.aq) s.com.off
    rw [evsUpTo_append, evsUpTo_nil_of_above _ (flat s.aq) (fun r hr => by have := (ql r hr).1; omega)]
    simpa using i1
  · show s.tx.rows ++ itemsIds s.aq = evIds (s.done ++ flat s.aq)
    rw [evIds_append, itemsIds_eq _ qs, i2]
  · intro r hr hev
    show r.eo ≤ if s.aq = [] then s.tx.off else s.dbo + total (flat s.aq)
    rcases List.mem_append.1 hr with hr | hr
    · have := i3 r hr hev
      split <;> omega
    · have h2 := (ql r hr).2
      have : s.aq ≠ [] := by intro e; rw [e] at hr; simp [flat] at hr
      simp only [this, if_false]; simpa [rpos] using h2
  · show s.com.off ≤ if s.aq = [] then s.tx.off else s.dbo + total (flat s.aq)
    split <;> omega
  · show (if s.aq = [] then s.tx.off else s.dbo + total (flat s.aq)) ≤ s.dbo + total (flat s.aq)
    split <;> omega
  · exact i7a
  · exact i7b
  · exact dl
  · simpa [rpos, flat, total] using rpl
  · intro r hr; simp [flat] at hr
  · intro r hr; simp at hr
  · intro r hr; have := rl r hr; simpa [rpos, flat, total] using this
  · intro r hr
    exact ln r (mem_allR_flush.1 hr)
  · intro _; rfl
  · intro id hid
    obtain ⟨r, hr, h1, h2, h3⟩ := ack id hid
    exact ⟨r, mem_allR_flush.2 hr, h1, h2, h3⟩
  · intro w hw hrd
    obtain ⟨r, hr, h⟩ := wq w hw hrd
    exact ⟨r, List.mem_append_left _ hr, h⟩


theorem inv0_dur {s : St} (h : Inv0 s) (k : Nat) (hk : k ≤ s.len) : Inv0 (announce s k) := by
  obtain ⟨i1, i2, i3, i6a, i6b, i7a, i7b, dl, rpl, ql, qs, rl, ln, q0, ack, wq⟩ := h
  refine ⟨i1, i2, i3, i6a, i6b, ?_, ?_, ?_, rpl, ql, qs, rl, ln, q0, ?_, wq⟩
  · show s.com.off ≤ max s.dur k; omega
  · show s.ci ≤ max s.dur k; omega
  · show max s.dur k ≤ s.len; omega
  · intro id hid
    obtain ⟨r, hr, h1, h2, h3⟩ := ack id hid
    exact ⟨r, hr, h1, h2, by show r.eo ≤ max s.dur k; omega⟩

theorem notify_inv0 {s : St} (h : Inv0 s) (k : Nat) (hk : k ≤ s.dur) : Inv0 (notify s k) := by
  obtain ⟨i1, i2, i3, i6a, i6b, i7a, i7b, dl, rpl, ql, qs, rl, ln, q0, ack, wq⟩ := h
  refine ⟨i1, i2, i3, i6a, i6b, i7a, hk, dl, rpl, ql, qs, rl, ln, q0, ?_, ?_⟩
  · intro id hid
    simp only [notify, List.mem_append, List.mem_map, List.mem_filter] at hid
    rcases hid with hid | ⟨w, ⟨hw, hrd⟩, rfl⟩
    · exact ack id hid
    · have hmem : w ∈ s.waitQ := (List.takeWhile_sublist _).subset hw
      have hrel := List.all_eq_true.1 (List.all_takeWhile (l := s.waitQ) (p := relOK k)) w hw
      have hrd' : w.rd = false := by simpa using hrd
      obtain ⟨r, hr, h1, h2, h3⟩ := wq w hmem hrd'
      have : w.off ≤ k := by simpa [relOK, hrd'] using hrel
      exact ⟨r, mem_allR.2 (Or.inl hr), h1, h2, by show r.eo ≤ s.dur; omega⟩
  · intro w hw hrd
    exact wq w ((List.dropWhile_sublist _).subset hw) hrd

theorem commitStep_inv {s : St} (h : Inv s) (k : Nat) (hk : k ≤ s.len) : Inv (commitStep s k) := by
  obtain ⟨h0, h1⟩ := h
  have hd := inv0_dur h0 k hk
  unfold commitStep
  by_cases hs : k < s.ci
  · simp only [hs, if_true]; exact ⟨hd, h1⟩
  · simp only [hs, if_false]
    have hn : Inv0 (notify (announce s k) k) := notify_inv0 hd k (by show k ≤ max s.dur k; omega)
    by_cases hdc : delayedCommit s k = true
    · simp only [hdc, if_true]
      apply flushQ_inv
      have hle : s.dbo ≤ k := by simp [delayedCommit] at hdc; exact hdc.2
      have := inv0_comTx hn (by show s.tx.off ≤ max s.dur k; have := h0.i6b; omega)
      exact this
    · simp only [hdc]
      have hq : s.q = true → k < s.dbo := by
        intro hq; simp [delayedCommit, hq] at hdc; exact hdc
      by_cases hp : parkedCommit s k = true
      · simp only [hp, if_true]
        have hle : s.dbo ≤ k := by simp [parkedCommit] at hp; exact hp.2
        refine ⟨inv0_comTx hn (by show s.tx.off ≤ max s.dur k; have := h0.i6b; omega), hq⟩
      · simp only [hp]
        exact ⟨hn, hq⟩


/-- records handed over by the reader are parked in the apply queue -/
theorem enqueue_inv0 {s : St} (h : Inv0 s) (recs rest' : List Rec) (it : QItem) (n : Nat)
    (hsplit : s.rest = recs ++ rest') (hit : itemRecs it = recs) (hskip : ∀ r, it = .skip r → r.isEv = false)
    (hrecs : ∀ r ∈ recs, rp s < r.eo ∧ r.eo ≤ rp s + total recs)
    (hrest : ∀ r ∈ rest', rp s + total recs < r.eo) (hlen : rp s + total recs ≤ s.len) :
    Inv0 (enqueue { s with rest := rest' } it n) := by
  obtain ⟨i1, i2, i3, i6a, i6b, i7a, i7b, dl, rpl, ql, qs, rl, ln, q0, ack, wq⟩ := h
  have hrp : rpos s.dbo (s.aq ++ [it]) = rp s + total recs := by
    simp [rpos, rp, flat_append, total_append, flat_cons, flat_nil, hit, Nat.add_assoc]
  have hmem : ∀ r, r ∈ allR s.done (s.aq ++ [it]) rest' ↔ r ∈ allR s.done s.aq s.rest := by
    intro r
    simp only [mem_allR, flat_append, flat_cons, flat_nil, hit, hsplit, List.mem_append, List.append_nil]
    constructor
    · rintro (h | (h | h) | h)
      · exact Or.inl h
      · exact Or.inr (Or.inl h)
      · exact Or.inr (Or.inr (Or.inl h))
      · exact Or.inr (Or.inr (Or.inr h))
    · rintro (h | h | h | h)
      · exact Or.inl h
      · exact Or.inr (Or.inl (Or.inl h))
      · exact Or.inr (Or.inl (Or.inr h))
      · exact Or.inr (Or.inr h)
  refine ⟨i1, i2, i3, i6a, i6b, i7a, i7b, dl, ?_, ?_, ?_, ?_, ?_, ?_, ?_, wq⟩
  · show rpos s.dbo (s.aq ++ [it]) ≤ s.len; omega
  · intro r hr
    show s.dbo < r.eo ∧ r.eo ≤ rpos s.dbo (s.aq ++ [it])
    rw [hrp]
    have hr' : r ∈ flat (s.aq ++ [it]) := hr
    simp only [flat_append, flat_cons, flat_nil, hit, List.mem_append, List.append_nil] at hr'
    rcases hr' with hr | hr
    · have := ql r hr; simp only [rp] at *; simp only [rpos] at this; omega
    · have := hrecs r hr; simp only [rp] at *; omega
  · intro r hr
    simp only [enqueue, List.mem_append, List.mem_singleton] at hr
    rcases hr with hr | hr
    · exact qs r hr
    · exact hskip r hr.symm
  · intro r hr
    show rpos s.dbo (s.aq ++ [it]) < r.eo
    rw [hrp]; exact hrest r hr
  · intro r hr; exact ln r ((hmem r).1 hr)
  · intro hq; simp [enqueue] at hq
  · intro id hid
    obtain ⟨r, hr, h⟩ := ack id hid
    exact ⟨r, (hmem r).2 hr, h⟩

/-- records handed over by the reader are applied at once (apply queue empty) -/
theorem direct_inv0 {s : St} (h : Inv0 s) (recs rest' : List Rec) (haq : s.aq = [])
    (hsplit : s.rest = recs ++ rest')
    (hrecs : ∀ r ∈ recs, rp s < r.eo ∧ r.eo ≤ rp s + total recs)
    (hrest : ∀ r ∈ rest', rp s + total recs < r.eo) (hlen : rp s + total recs ≤ s.len) :
    Inv0 (applyDirect { s with rest := rest' } recs) := by
  obtain ⟨i1, i2, i3, i6a, i6b, i7a, i7b, dl, rpl, ql, qs, rl, ln, q0, ack, wq⟩ := h
  have hrp : rp s = s.dbo := by simp [rp, haq, flat_nil, total_nil]
  rw [hrp] at hrecs hrest hlen
  have hmem : ∀ r, r ∈ allR (s.done ++ recs) s.aq rest' ↔ r ∈ allR s.done s.aq s.rest := by
    intro r
    simp only [mem_allR, haq, flat_nil, hsplit, List.mem_append, List.not_mem_nil, false_or]
    constructor
    · rintro ((h | h) | h)
      · exact Or.inl h
      · exact Or.inr (Or.inl h)
      · exact Or.inr (Or.inr h)
    · rintro (h | h | h)
      · exact Or.inl (Or.inl h)
      · exact Or.inl (Or.inr h)
      · exact Or.inr h
  refine ⟨?_, ?_, ?_, ?_, ?_, i7a, i7b, dl, ?_, ?_, qs, ?_, ?_, q0, ?_, ?_⟩
  · show s.com.rows = evsUpTo (s.done ++ recs) s.com.off
    rw [evsUpTo_append, evsUpTo_nil_of_above _ recs (fun r hr => by have := (hrecs r hr).1; omega)]
    simpa using i1
  · show s.tx.rows ++ evIds recs = evIds (s.done ++ recs)
    rw [evIds_append, i2]
  · intro r hr hev
    show r.eo ≤ s.dbo + total recs
    rcases List.mem_append.1 hr with hr | hr
    · have := i3 r hr hev; omega
    · exact (hrecs r hr).2
  · show s.com.off ≤ s.dbo + total recs; omega
  · show s.dbo + total recs ≤ s.dbo + total recs; omega
  · show rpos (s.dbo + total recs) s.aq ≤ s.len
    simp [rpos, haq, flat_nil, total_nil]; exact hlen
  · intro r hr
    have hr' : r ∈ flat s.aq := hr
    rw [haq] at hr'; simp [flat] at hr'
  · intro r hr
    show rpos (s.dbo + total recs) s.aq < r.eo
    simp [rpos, haq, flat_nil, total_nil]; exact hrest r hr
  · intro r hr; exact ln r ((hmem r).1 hr)
  · intro id hid
    obtain ⟨r, hr, h⟩ := ack id hid
    exact ⟨r, (hmem r).2 hr, h⟩
  · intro w hw hrd
    obtain ⟨r, hr, h⟩ := wq w hw hrd
    exact ⟨r, List.mem_append_left _ hr, h⟩

theorem skipDirect_eq (s : St) (r : Rec) (h : r.isEv = false) : skipDirect s r = applyDirect s [r] := by
  simp [skipDirect, applyDirect, evIds, total, h]


theorem readerOK_spec {s : St} {n : Nat} (h : readerOK s n = true) :
    (∀ r ∈ s.rest.take n, rp s < r.eo ∧ r.eo ≤ rp s + total (s.rest.take n)) ∧
    (∀ r ∈ s.rest.drop n, rp s + total (s.rest.take n) < r.eo) ∧
    rp s + total (s.rest.take n) ≤ s.len := by
  simp only [readerOK, recsOK, restOK, Bool.and_eq_true, List.all_eq_true, decide_eq_true_eq] at h
  exact ⟨h.1.1, h.1.2, h.2⟩

theorem direct_aq_nil {s : St} (h : Inv s) (hq : queueCond s = false) : s.aq = [] ∧ s.q = false := by
  obtain ⟨h0, h1⟩ := h
  cases hqq : s.q with
  | false => exact ⟨h0.q0 hqq, rfl⟩
  | true =>
    have := h1 hqq
    simp [queueCond, hqq, this] at hq

theorem deliverApply_inv {s : St} (h : Inv s) (n : Nat) : Inv (deliverApply s n).1 := by
  unfold deliverApply
  by_cases hb : badApply s n = true
  · simp only [hb, if_true]; exact h
  · simp only [hb]
    by_cases hr : readerOK s n = true
    · simp only [hr, Bool.not_true]
      obtain ⟨h1, h2, h3⟩ := readerOK_spec hr
      have hsplit : s.rest = s.rest.take n ++ s.rest.drop n := (List.take_append_drop n s.rest).symm
      by_cases hq : queueCond s = true
      · simp only [hq, if_true]
        refine ⟨enqueue_inv0 h.1 _ _ _ _ hsplit rfl (by intro r hr; cases hr) h1 h2 h3, ?_⟩
        intro _
        simp [queueCond] at hq
        exact hq.2
      · have hq' : queueCond s = false := by simpa using hq
        simp only [hq', Bool.false_eq_true, if_false]
        obtain ⟨haq, hqf⟩ := direct_aq_nil h hq'
        refine ⟨direct_inv0 h.1 _ _ haq hsplit h1 h2 h3, ?_⟩
        intro hqt
        have : s.q = true := hqt
        rw [hqf] at this; cases this
    · have : readerOK s n = false := by simpa using hr
      simp only [this, Bool.not_false, if_true]; exact h

theorem deliverBuf_inv {s : St} (h : Inv s) (m : Nat) : Inv (deliverBuf s m).1 := by
  unfold deliverBuf
  by_cases hb : badBuf s m = true
  · simp only [hb, if_true]; exact h
  · simp only [hb]
    by_cases hr : readerOK s (fitCount m s.rest) = true
    · simp only [hr, Bool.not_true]
      obtain ⟨h1, h2, h3⟩ := readerOK_spec hr
      have hsplit : s.rest = s.rest.take (fitCount m s.rest) ++ s.rest.drop (fitCount m s.rest) :=
        (List.take_append_drop _ s.rest).symm
      by_cases hq : queueCond s = true
      · simp only [hq, if_true]
        refine ⟨enqueue_inv0 h.1 _ _ _ _ hsplit rfl (by intro r hr; cases hr) h1 h2 h3, ?_⟩
        intro _
        simp [queueCond] at hq
        exact hq.2
      · have hq' : queueCond s = false := by simpa using hq
        simp only [hq', Bool.false_eq_true, if_false]
        obtain ⟨haq, hqf⟩ := direct_aq_nil h hq'
        refine ⟨direct_inv0 h.1 _ _ haq hsplit h1 h2 h3, ?_⟩
        intro hqt
        have : s.q = true := hqt
        rw [hqf] at this; cases this
    · have : readerOK s (fitCount m s.rest) = false := by simpa using hr
      simp only [this, Bool.not_false, if_true]; exact h

theorem deliverSkip_inv {s : St} (h : Inv s) (n : Nat) : Inv (deliverSkip s n).1 := by
  unfold deliverSkip
  by_cases hb : badSkip s n = true
  · simp only [hb, if_true]; exact h
  · simp only [hb]
    by_cases hr : readerOK s 1 = true
    · simp only [hr, Bool.not_true]
      obtain ⟨h1, h2, h3⟩ := readerOK_spec hr
      cases hrest : s.rest with
      | nil => simp [badSkip, hrest] at hb
      | cons r t =>
        have hev : r.isEv = false := by
          simp [badSkip, hrest] at hb; exact hb.1.1.1.1
        simp only [hrest, List.take_succ_cons, List.take_zero, List.drop_succ_cons, List.drop_zero] at h1 h2 h3
        simp only [List.headD_cons, List.drop_succ_cons, List.drop_zero]
        by_cases hq : s.q = true
        · simp only [hq, if_true]
          refine ⟨enqueue_inv0 h.1 [r] t (.skip r) n (by simp [hrest]) rfl (by intro r' hr'; cases hr'; exact hev) h1 h2 h3, ?_⟩
          intro _
          exact h.2 hq
        · have hqf : s.q = false := by simpa using hq
          rw [if_neg hq, skipDirect_eq _ _ hev]
          refine ⟨direct_inv0 h.1 [r] t (h.1.q0 hqf) (by simp [hrest]) h1 h2 h3, ?_⟩
          intro hqt
          have : s.q = true := hqt
          rw [hqf] at this; cases this
    · have : readerOK s 1 = false := by simpa using hr
      simp only [this, Bool.not_false, if_true]; exact h


def newRecs (s : St) (id ln extra : Nat) : List Rec :=
  [⟨true, id, plen ln, s.dbo + plen ln⟩] ++ svcRec extra (s.dbo + plen ln + extra)

theorem newRecs_spec (s : St) (id ln extra : Nat) :
    (∀ r ∈ newRecs s id ln extra, s.dbo < r.eo ∧ r.eo ≤ s.dbo + plen ln + extra ∧ (r.isEv = true → r.eo ≤ s.dbo + plen ln)) ∧
    evIds (newRecs s id ln extra) = [id] := by
  have hp := plen_pos ln
  by_cases he : extra = 0
  · subst he
    simp [newRecs, svcRec, evIds]; omega
  · simp [newRecs, svcRec, he, evIds]
    constructor <;> omega

theorem writeOK_done (s : St) (id ln extra : Nat) : (writeOK s id ln extra).done = s.done ++ newRecs s id ln extra := by
  simp [writeOK, newRecs]

theorem writeOK_inv0 {s : St} (h : Inv0 s) (hc : s.dbo = s.len) (id ln extra : Nat) : Inv0 (writeOK s id ln extra) := by
  obtain ⟨i1, i2, i3, i6a, i6b, i7a, i7b, dl, rpl, ql, qs, rl, ln_, q0, ack, wq⟩ := h
  obtain ⟨hn, hids⟩ := newRecs_spec s id ln extra
  have hflat : flat s.aq = [] := by
    apply List.eq_nil_iff_forall_not_mem.2
    intro r hr
    have h1 := (ql r hr).1
    have h2 := ln_ r (mem_allR.2 (Or.inr (Or.inl hr)))
    omega
  have hrest : s.rest = [] := by
    apply List.eq_nil_iff_forall_not_mem.2
    intro r hr
    have h1 := rl r hr
    have h2 := ln_ r (mem_allR.2 (Or.inr (Or.inr hr)))
    simp only [rpos] at h1; omega
  have hdone : (writeOK s id ln extra).done = s.done ++ newRecs s id ln extra := writeOK_done ..
  have hmem : ∀ r, r ∈ allR (s.done ++ newRecs s id ln extra) s.aq s.rest ↔ r ∈ allR s.done s.aq s.rest ∨ r ∈ newRecs s id ln extra := by
    intro r; simp only [mem_allR, List.mem_append]
    constructor
    · rintro ((h | h) | h | h)
      · exact Or.inl (Or.inl h)
      · exact Or.inr h
      · exact Or.inl (Or.inr (Or.inl h))
      · exact Or.inl (Or.inr (Or.inr h))
    · rintro ((h | h | h) | h)
      · exact Or.inl (Or.inl h)
      · exact Or.inr (Or.inl h)
      · exact Or.inr (Or.inr h)
      · exact Or.inl (Or.inr h)
  unfold Inv0
  rw [hdone]
  refine ⟨?_, ?_, ?_, ?_, ?_, i7a, i7b, ?_, ?_, ?_, qs, ?_, ?_, q0, ?_, ?_⟩
  · show s.com.rows = evsUpTo (s.done ++ newRecs s id ln extra) s.com.off
    rw [evsUpTo_append, evsUpTo_nil_of_above _ (newRecs s id ln extra) (fun r hr => by have := (hn r hr).1; omega)]
    simpa using i1
  · show s.tx.rows ++ [id] = evIds (s.done ++ newRecs s id ln extra)
    rw [evIds_append, hids, i2]
  · intro r hr hev
    show r.eo ≤ s.dbo + plen ln
    rcases List.mem_append.1 hr with hr | hr
    · have := i3 r hr hev; omega
    · exact (hn r hr).2.2 hev
  · show s.com.off ≤ s.dbo + plen ln; omega
  · show s.dbo + plen ln ≤ s.dbo + plen ln + extra; omega
  · show s.dur ≤ s.dbo + plen ln + extra; omega
  · show rpos (s.dbo + plen ln + extra) s.aq ≤ s.dbo + plen ln + extra
    simp [rpos, hflat, total_nil]
  · intro r hr
    have hr' : r ∈ flat s.aq := hr
    rw [hflat] at hr'; cases hr'
  · intro r hr
    have hr' : r ∈ s.rest := hr
    rw [hrest] at hr'; cases hr'
  · intro r hr
    show r.eo ≤ s.dbo + plen ln + extra
    rcases (hmem r).1 hr with hr | hr
    · have := ln_ r hr; omega
    · exact (hn r hr).2.1
  · intro id' hid
    obtain ⟨r, hr, h⟩ := ack id' hid
    exact ⟨r, (hmem r).2 (Or.inl hr), h⟩
  · intro w hw hrd
    obtain ⟨r, hr, h⟩ := wq w hw hrd
    exact ⟨r, List.mem_append_left _ hr, h⟩

theorem writeOK_rec_mem (s : St) (id ln extra : Nat) :
    (⟨true, id, plen ln, s.dbo + plen ln⟩ : Rec) ∈ (writeOK s id ln extra).done := by
  simp [writeOK]

theorem park_inv0 {s : St} (h : Inv0 s) (id off : Nat) (rd : Bool)
    (hw : rd = false → ∃ r ∈ s.done, r.isEv = true ∧ r.id = id ∧ r.eo ≤ off) : Inv0 (park s id off rd) := by
  obtain ⟨i1, i2, i3, i6a, i6b, i7a, i7b, dl, rpl, ql, qs, rl, ln_, q0, ack, wq⟩ := h
  refine ⟨i1, i2, i3, i6a, i6b, i7a, i7b, dl, rpl, ql, qs, rl, ln_, q0, ack, ?_⟩
  intro w hw' hrd
  simp only [park, List.mem_append, List.mem_singleton] at hw'
  rcases hw' with hw' | rfl
  · exact wq w hw' hrd
  · exact hw hrd

theorem ackNow_inv0 {s : St} (h : Inv0 s) (id : Nat) (w : Bool)
    (hw : w = true → ∃ r ∈ allRecs s, r.isEv = true ∧ r.id = id ∧ r.eo ≤ s.dur) : Inv0 (ackNow s id w) := by
  obtain ⟨i1, i2, i3, i6a, i6b, i7a, i7b, dl, rpl, ql, qs, rl, ln_, q0, ack, wq⟩ := h
  refine ⟨i1, i2, i3, i6a, i6b, i7a, i7b, dl, rpl, ql, qs, rl, ln_, q0, ?_, wq⟩
  intro id' hid
  cases w with
  | false => exact ack id' hid
  | true =>
    simp only [ackNow, if_true, List.mem_append, List.mem_singleton] at hid
    rcases hid with hid | rfl
    · exact ack id' hid
    · exact hw rfl


theorem canWrite_spec {s : St} (h : canWrite s = true) : s.dbo = s.len := by
  simp [canWrite] at h; exact h.1.1.2

theorem doWrite_inv {s : St} (h : Inv s) (id ln extra : Nat) : Inv (doWrite s id ln extra).1 := by
  unfold doWrite
  by_cases hc : canWrite s = true
  · simp only [hc, Bool.not_true, Bool.false_eq_true, if_false]
    have hlen := canWrite_spec hc
    have h1 := writeOK_inv0 h.1 hlen id ln extra
    have hq1 : ∀ t : St, t.q = (writeOK s id ln extra).q → t.ci = (writeOK s id ln extra).ci →
        t.dbo = (writeOK s id ln extra).dbo → (t.q = true → t.ci < t.dbo) := by
      intro t e1 e2 e3 hq
      rw [e2, e3]; rw [e1] at hq
      have := h.2 hq
      show s.ci < s.dbo + plen ln + extra
      omega
    have hrec := writeOK_rec_mem s id ln extra
    by_cases hw : s.wait = true
    · simp only [hw, if_true]
      by_cases hci : s.dbo + plen ln ≤ s.ci
      · simp only [hci, if_true]
        refine ⟨ackNow_inv0 h1 id true ?_, hq1 _ rfl rfl rfl⟩
        intro _
        refine ⟨_, mem_allR.2 (Or.inl hrec), rfl, rfl, ?_⟩
        have := h.1.i7b
        show s.dbo + plen ln ≤ s.dur
        omega
      · simp only [hci, if_false]
        refine ⟨park_inv0 h1 id _ false ?_, hq1 _ rfl rfl rfl⟩
        intro _
        exact ⟨_, hrec, rfl, rfl, Nat.le_refl _⟩
    · simp only [hw, Bool.false_eq_true, if_false]
      exact ⟨ackNow_inv0 h1 id false (by intro h; cases h), hq1 _ rfl rfl rfl⟩
  · have : canWrite s = false := by simpa using hc
    simp only [this, Bool.not_false, if_true]; exact h

theorem doRead_inv {s : St} (h : Inv s) (id : Nat) : Inv (doRead s id).1 := by
  unfold doRead
  split
  · exact ⟨park_inv0 h.1 id _ true (by intro h; cases h), h.2⟩
  · exact ⟨ackNow_inv0 h.1 id false (by intro h; cases h), h.2⟩

theorem doOp_inv {s : St} (h : Inv s) (id ln extra : Nat) (k : Kind) : Inv (doOp s id ln extra k).1 := by
  unfold doOp
  split
  · exact h
  · cases k <;> simp only
    · exact doWrite_inv h id ln extra
    all_goals first | exact h | exact doRead_inv h id

theorem comTx_inv {s : St} (h : Inv s) (hd : s.tx.off ≤ s.dur) : Inv { s with com := s.tx } :=
  ⟨inv0_comTx h.1 hd, h.2⟩

theorem doNow_inv {s : St} (h : Inv s) (id ln extra : Nat) : Inv (doNow s id ln extra).1 := by
  unfold doNow
  split
  · exact h
  · by_cases hc : canWrite s = true
    · simp only [hc, Bool.not_true, Bool.false_eq_true, if_false]
      have hlen := canWrite_spec hc
      have h1 := writeOK_inv0 h.1 hlen id ln extra
      have hrec := writeOK_rec_mem s id ln extra
      have hq1 : (writeOK s id ln extra).q = true → (writeOK s id ln extra).ci < (writeOK s id ln extra).dbo := by
        intro hq
        have := h.2 hq
        show s.ci < s.dbo + plen ln + extra
        omega
      split
      · exact ⟨ackNow_inv0 h1 id false (by intro h; cases h), hq1⟩
      · have hp : Inv (park (writeOK s id ln extra) id (s.dbo + plen ln) false) :=
          ⟨park_inv0 h1 id _ false (fun _ => ⟨_, hrec, rfl, rfl, Nat.le_refl _⟩), hq1⟩
        have hcs := commitStep_inv hp (s.dbo + plen ln + extra) (Nat.le_refl _)
        split
        · rename_i hle
          exact comTx_inv hcs (Nat.le_trans hle hcs.1.i7b)
        · exact hcs
    · have : canWrite s = false := by simpa using hc
      simp only [this, Bool.not_false, if_true]; exact h

theorem txStep_inv {s : St} (h : Inv s) : Inv (txStep s).1 := by
  unfold txStep
  split
  · exact h
  · split
    · exact h
    · split
      · rename_i hle
        exact comTx_inv h (by have := h.1.i6b; have := h.1.i7b; omega)
      · exact h

theorem closeTail_inv {s1 : St} (h1 : Inv s1) :
    Inv (if s1.dbo ≤ s1.ci then ({ s1 with com := s1.tx, closed := true }, "ok") else ({ s1 with closed := true }, "err")).1 := by
  split
  · rename_i hle
    exact comTx_inv h1 (by have := h1.1.i6b; have := h1.1.i7b; omega)
  · exact h1

theorem closeStep_inv {s : St} (h : Inv s) : Inv (closeStep s).1 := by
  unfold closeStep
  split
  · exact h
  · have h1 : Inv (if s.repl then s else commitStep s s.len) := by
      split
      · exact h
      · exact commitStep_inv h s.len (Nat.le_refl _)
    exact closeTail_inv h1

theorem readyStep_inv {s : St} (h : Inv s) : Inv (readyStep s) := by
  unfold readyStep
  split
  · exact flushQ_inv h.1
  · exact h


theorem upTo_upTo (c : Nat) (l : List Rec) : upTo c (upTo c l) = upTo c l := by
  simp [upTo, List.filter_filter]

/-- records of the old process that survive a crash which keeps the binlog up to `d` -/
theorem mem_crash_allRecs {s : St} (h : Inv0 s) (d : Nat) (r : Rec) (hr : r ∈ allRecs s) (hd : r.eo ≤ d) :
    r ∈ allRecs (crashStep s d) := by
  show r ∈ allR (upTo s.com.off s.done) [] (upTo d (above s.com.off s.done ++ flat s.aq ++ s.rest))
  rw [allRecs_eq, mem_allR] at hr
  rw [mem_allR]
  rcases hr with hr | hr | hr
  · by_cases hc : r.eo ≤ s.com.off
    · exact Or.inl (mem_upTo.2 ⟨hr, hc⟩)
    · refine Or.inr (Or.inr (mem_upTo.2 ⟨?_, hd⟩))
      simp only [List.mem_append]
      exact Or.inl (Or.inl (mem_above.2 ⟨hr, by omega⟩))
  · refine Or.inr (Or.inr (mem_upTo.2 ⟨?_, hd⟩))
    simp only [List.mem_append]; exact Or.inl (Or.inr hr)
  · refine Or.inr (Or.inr (mem_upTo.2 ⟨?_, hd⟩))
    simp only [List.mem_append]; exact Or.inr hr

theorem crashStep_inv {s : St} (h : Inv s) (d : Nat) (hd : s.dur ≤ d) : Inv (crashStep s d) := by
  obtain ⟨h0, _⟩ := h
  have hmem := fun r hr hle => mem_crash_allRecs h0 d r hr hle
  obtain ⟨i1, i2, i3, i6a, i6b, i7a, i7b, dl, rpl, ql, qs, rl, ln_, q0, ack, wq⟩ := h0
  refine ⟨?_, by intro hq; cases hq⟩
  have hrp : rpos s.com.off [] = s.com.off := by simp [rpos, flat_nil, total_nil]
  refine ⟨?_, ?_, ?_, Nat.le_refl _, Nat.le_refl _, i7a, Nat.zero_le _, hd, ?_, ?_, ?_, ?_, ?_, fun _ => rfl, ?_, ?_⟩
  · show s.com.rows = evsUpTo (upTo s.com.off s.done) s.com.off
    simp only [evsUpTo, upTo_upTo]; exact i1
  · exact i1
  · intro r hr _
    exact (mem_upTo.1 hr).2
  · show rpos s.com.off [] ≤ d
    rw [hrp]; omega
  · intro r hr; cases hr
  · intro r hr; cases hr
  · intro r hr
    show rpos s.com.off [] < r.eo
    rw [hrp]
    have hr' := (mem_upTo.1 hr).1
    simp only [List.mem_append] at hr'
    rcases hr' with (hr' | hr') | hr'
    · exact (mem_above.1 hr').2
    · have := (ql r hr').1; omega
    · have := rl r hr'; simp only [rpos] at this; omega
  · intro r hr
    show r.eo ≤ d
    rw [mem_allR] at hr
    rcases hr with hr | hr | hr
    · have := (mem_upTo.1 hr).2; omega
    · cases hr
    · exact (mem_upTo.1 hr).2
  · intro id hid
    obtain ⟨r, hr, h1, h2, h3⟩ := ack id hid
    exact ⟨r, hmem r hr (by omega), h1, h2, h3⟩
  · intro w hw; cases hw

theorem appendStep_inv {s : St} (h : Inv s) (l : List (Bool × Nat × Nat)) (hl : ∀ x ∈ l, 0 < x.2.2) :
    Inv (appendStep s l) := by
  obtain ⟨h0, h1⟩ := h
  obtain ⟨i1, i2, i3, i6a, i6b, i7a, i7b, dl, rpl, ql, qs, rl, ln_, q0, ack, wq⟩ := h0
  have hb := mkRecs_bounds l s.len hl
  have hmem : ∀ r, r ∈ allR s.done s.aq (s.rest ++ mkRecs s.len l) ↔ r ∈ allR s.done s.aq s.rest ∨ r ∈ mkRecs s.len l := by
    intro r; simp only [mem_allR, List.mem_append]
    constructor
    · rintro (h | h | h | h)
      · exact Or.inl (Or.inl h)
      · exact Or.inl (Or.inr (Or.inl h))
      · exact Or.inl (Or.inr (Or.inr h))
      · exact Or.inr h
    · rintro ((h | h | h) | h)
      · exact Or.inl h
      · exact Or.inr (Or.inl h)
      · exact Or.inr (Or.inr (Or.inl h))
      · exact Or.inr (Or.inr (Or.inr h))
  refine ⟨⟨i1, i2, i3, i6a, i6b, i7a, i7b, ?_, ?_, ql, qs, ?_, ?_, q0, ?_, wq⟩, h1⟩
  · show s.dur ≤ s.len + total (mkRecs s.len l); omega
  · show rpos s.dbo s.aq ≤ s.len + total (mkRecs s.len l); omega
  · intro r hr
    show rpos s.dbo s.aq < r.eo
    rcases List.mem_append.1 hr with hr | hr
    · exact rl r hr
    · have := (hb r hr).1; omega
  · intro r hr
    show r.eo ≤ s.len + total (mkRecs s.len l)
    rcases (hmem r).1 hr with hr | hr
    · have := ln_ r hr; omega
    · exact (hb r hr).2
  · intro id hid
    obtain ⟨r, hr, h⟩ := ack id hid
    exact ⟨r, (hmem r).2 (Or.inl hr), h⟩

theorem step_inv {s : St} (h : Inv s) (op : Op) : Inv (step s op).1 := by
  cases op with
  | doOp id ln extra k => exact doOp_inv h id ln extra k
  | doNow id ln extra => exact doNow_inv h id ln extra
  | commit k =>
    simp only [step]
    split
    · exact h
    · rename_i hc
      simp only [Bool.or_eq_true, decide_eq_true_eq, not_or, Nat.not_lt] at hc
      exact commitStep_inv h k hc.2
  | tx => exact txStep_inv h
  | dApply n => exact deliverApply_inv h n
  | dSkip n => exact deliverSkip_inv h n
  | dApplyBuf m => exact deliverBuf_inv h m
  | view => exact h
  | append l =>
    simp only [step]
    split
    · exact h
    · rename_i hc
      simp only [Bool.or_eq_true, Bool.not_eq_true', not_or, Bool.not_eq_false, List.all_eq_true, decide_eq_true_eq] at hc
      exact appendStep_inv h l hc.2
  | hold b => exact h
  | close => exact closeStep_inv h
  | crash d torn =>
    simp only [step]
    split
    · exact h
    · rename_i hc
      have hc' : crashOK s d = true := by simpa using hc
      simp only [crashOK, Bool.and_eq_true, decide_eq_true_eq] at hc'
      have hi := crashStep_inv h d hc'.1.1
      split
      · exact hi   -- tornStep differs from crashStep only in `closed` and `down`, which the invariant does not mention
      · exact hi
  | ready => exact readyStep_inv h

theorem run_inv : ∀ (ops : List Op) (s : St), Inv s → Inv (run s ops) := by
  intro ops
  induction ops with
  | nil => intro s h; exact h
  | cons op t ih => intro s h; exact ih _ (step_inv h op)


end SH.Engine
