/-
  SH.Lemmas.IngestAgg — how the row update functions of SH.Model.Ingest (MultiValue.ApplyValues / ApplyUnique /
  AddCounterHost) act on the aggregates other than count and sum: min, max, sum of squares, unique set, TDigest flag.
  Helper development for SH.Props.C12.
-/
import SH.Model.Ingest
import Mathlib.Tactic.Ring
import Mathlib.Tactic.FieldSimp
import Mathlib.Tactic.Linarith
import Mathlib.Algebra.Order.Field.Rat

namespace SH.Ingest

/-- one step of the running minimum kept in (ValueSet, ValueMin): `if !set || v < min { min = v }; set = true` -/
def minStep (s : Bool × Rat) (v : Rat) : Bool × Rat := (true, if !s.1 || decide (v < s.2) then v else s.2)
/-- one step of the running maximum kept in (ValueSet, ValueMax) -/
def maxStep (s : Bool × Rat) (v : Rat) : Bool × Rat := (true, if !s.1 || decide (s.2 < v) then v else s.2)

/-- Σ value²·weight -/
def wsq (vals : List (Rat × Rat)) : Rat := (vals.map (fun p => p.1 * p.1 * p.2)).sum

theorem minStep_assoc (s : Bool × Rat) (v m : Rat) : minStep (minStep s v) m = minStep s (minStep (true, v) m).2 := by
  obtain ⟨b, x⟩ := s
  cases b <;> simp only [minStep, Bool.not_true, Bool.not_false, Bool.false_or, Bool.true_or, if_true, decide_eq_true_eq] <;>
    split_ifs <;> first | rfl | (exfalso; linarith)

theorem maxStep_assoc (s : Bool × Rat) (v m : Rat) : maxStep (maxStep s v) m = maxStep s (maxStep (true, v) m).2 := by
  obtain ⟨b, x⟩ := s
  cases b <;> simp only [maxStep, Bool.not_true, Bool.not_false, Bool.false_or, Bool.true_or, if_true, decide_eq_true_eq] <;>
    split_ifs <;> first | rfl | (exfalso; linarith)

/-- folding a non-empty list into a running minimum = one step with the list's own minimum -/
theorem foldl_minStep (vals : List Rat) (hne : vals ≠ []) (s : Bool × Rat) :
    vals.foldl minStep s = minStep s (vals.foldl minStep (false, 0)).2 := by
  induction vals generalizing s with
  | nil => exact absurd rfl hne
  | cons v r ih =>
    cases r with
    | nil => simp [minStep]
    | cons w r' =>
      have i1 := ih (by simp) (minStep s v)
      have i2 := ih (by simp) (minStep (false, 0) v)
      simp only [List.foldl_cons] at i1 i2 ⊢
      rw [i1, i2]
      have : minStep (false, 0) v = (true, v) := by simp [minStep]
      rw [this]
      exact minStep_assoc s v _

theorem foldl_maxStep (vals : List Rat) (hne : vals ≠ []) (s : Bool × Rat) :
    vals.foldl maxStep s = maxStep s (vals.foldl maxStep (false, 0)).2 := by
  induction vals generalizing s with
  | nil => exact absurd rfl hne
  | cons v r ih =>
    cases r with
    | nil => simp [maxStep]
    | cons w r' =>
      have i1 := ih (by simp) (maxStep s v)
      have i2 := ih (by simp) (maxStep (false, 0) v)
      simp only [List.foldl_cons] at i1 i2 ⊢
      rw [i1, i2]
      have : maxStep (false, 0) v = (true, v) := by simp [maxStep]
      rw [this]
      exact maxStep_assoc s v _

theorem foldl_minStep_set (vals : List Rat) (s : Bool × Rat) : (vals.foldl minStep s).1 = (s.1 || !vals.isEmpty) := by
  induction vals generalizing s with
  | nil => simp
  | cons v r ih => rw [List.foldl_cons, ih]; simp [minStep]

/-- all aggregates of a fold of addOnly, in terms of the running min/max and the weighted sums -/
theorem foldl_addOnly_fields (vals : List (Rat × Rat)) (a : MV) :
    let r := vals.foldl (fun a p => addOnly a p.1 p.2) a
    (r.set, r.min) = (vals.map (·.1)).foldl minStep (a.set, a.min) ∧
    (r.set, r.max) = (vals.map (·.1)).foldl maxStep (a.set, a.max) ∧
    r.sq = a.sq + wsq vals ∧ r.uniq = a.uniq ∧ r.td = a.td ∧ r.cnt = a.cnt := by
  induction vals generalizing a with
  | nil => simp [wsq]
  | cons p ps ih =>
    obtain ⟨h1, h2, h3, h4, h5, h6⟩ := ih (addOnly a p.1 p.2)
    simp only [List.foldl_cons, List.map_cons]
    refine ⟨?_, ?_, ?_, ?_, ?_, ?_⟩
    · rw [h1]; simp [addOnly, minStep]
    · rw [h2]; simp [addOnly, maxStep]
    · rw [h3]; simp [addOnly, wsq]; ring
    · rw [h4]; rfl
    · rw [h5]; rfl
    · rw [h6]; rfl

/-- the common core of MultiValue.ApplyValues and ApplyUnique: merge the scaled temporary into the row -/
def mergeVals (vals : List (Rat × Rat)) (count total : Rat) (mv : MV) : MV :=
  mvMerge mv (scale count total (tmpOf count vals))

theorem addCount_fields (c : Rat) (mv : MV) :
    (addCount c mv).set = mv.set ∧ (addCount c mv).min = mv.min ∧ (addCount c mv).max = mv.max ∧
    (addCount c mv).sq = mv.sq ∧ (addCount c mv).uniq = mv.uniq ∧ (addCount c mv).td = mv.td ∧ (addCount c mv).sum = mv.sum := by
  unfold addCount; split <;> [skip; split] <;> simp

/-- **min, max, sum of squares, unique set and TDigest flag after merging a non-empty value list.** -/
theorem mergeVals_fields (vals : List (Rat × Rat)) (count total : Rat) (mv : MV) (hne : vals ≠ []) (ht : total ≠ 0) :
    let r := mergeVals vals count total mv
    (r.set, r.min) = (vals.map (·.1)).foldl minStep (mv.set, mv.min) ∧
    (r.set, r.max) = (vals.map (·.1)).foldl maxStep (mv.set, mv.max) ∧
    r.sq = mv.sq + wsq vals * count / total ∧ r.uniq = mv.uniq ∧ r.td = mv.td := by
  intro r
  obtain ⟨t1, t2, t3, _, _, _⟩ := foldl_addOnly_fields vals { cnt := count }
  have hmap : vals.map (·.1) ≠ [] := by cases vals with
    | nil => exact absurd rfl hne
    | cons _ _ => simp
  have tset : (tmpOf count vals).set = true := by
    have := congrArg Prod.fst t1
    simp only [tmpOf] at this ⊢
    rw [this, foldl_minStep_set]
    cases vals with
    | nil => exact absurd rfl hne
    | cons _ _ => simp
  have ssq : (scale count total (tmpOf count vals)).sq = wsq vals * count / total := by
    unfold scale
    have h0 : (tmpOf count vals).sq = wsq vals := by simpa [tmpOf] using t3
    by_cases h : count = total
    · subst h; simp [h0]; field_simp
    · simp [h, h0]
  have sset : (scale count total (tmpOf count vals)).set = true := by unfold scale; split <;> simpa using tset
  have smin : (scale count total (tmpOf count vals)).min = (tmpOf count vals).min := by unfold scale; split <;> rfl
  have smax : (scale count total (tmpOf count vals)).max = (tmpOf count vals).max := by unfold scale; split <;> rfl
  obtain ⟨a1, a2, a3, a4, a5, a6, _⟩ := addCount_fields (scale count total (tmpOf count vals)).cnt mv
  have hr : r = mvMerge mv (scale count total (tmpOf count vals)) := rfl
  unfold mvMerge at hr
  simp only [sset, Bool.not_true, Bool.false_eq_true, if_false] at hr
  refine ⟨?_, ?_, ?_, ?_, ?_⟩
  · rw [foldl_minStep _ hmap]
    have : ((vals.map (·.1)).foldl minStep (false, 0)).2 = (tmpOf count vals).min := by
      have := congrArg Prod.snd t1; simp only [tmpOf] at this ⊢; exact this.symm
    rw [this, hr]; simp [minStep, a1, a2, smin]
  · rw [foldl_maxStep _ hmap]
    have : ((vals.map (·.1)).foldl maxStep (false, 0)).2 = (tmpOf count vals).max := by
      have := congrArg Prod.snd t2; simp only [tmpOf] at this ⊢; exact this.symm
    rw [this, hr]; simp [maxStep, a1, a3, smax]
  · rw [hr]; simp [a4, ssq]
  · rw [hr]; simp [a5]
  · rw [hr]; simp [a6]

theorem mem_insertUniq (u : List Int) (v x : Int) : x ∈ insertUniq u v ↔ x = v ∨ x ∈ u := by
  unfold insertUniq
  by_cases h : v ∈ u
  · simp only [List.contains_iff_mem, h, if_true]
    constructor
    · exact Or.inr
    · rintro (h1 | h1)
      · rw [h1]; exact h
      · exact h1
  · simp [List.contains_iff_mem, h]

theorem nodup_insertUniq (u : List Int) (v : Int) (h : u.Nodup) : (insertUniq u v).Nodup := by
  unfold insertUniq
  by_cases hc : v ∈ u
  · simp only [List.contains_iff_mem, hc, if_true]; exact h
  · simp only [List.contains_iff_mem, hc, if_false]; exact List.nodup_cons.2 ⟨hc, h⟩

theorem mem_foldl_insertUniq (l u : List Int) (x : Int) : x ∈ l.foldl insertUniq u ↔ x ∈ u ∨ x ∈ l := by
  induction l generalizing u with
  | nil => simp
  | cons v r ih =>
    rw [List.foldl_cons, ih, mem_insertUniq, List.mem_cons]
    constructor
    · rintro ((h1 | h1) | h1)
      · exact Or.inr (Or.inl h1)
      · exact Or.inl h1
      · exact Or.inr (Or.inr h1)
    · rintro (h1 | h1 | h1)
      · exact Or.inl (Or.inr h1)
      · exact Or.inl (Or.inl h1)
      · exact Or.inr h1

theorem nodup_foldl_insertUniq (l u : List Int) (h : u.Nodup) : (l.foldl insertUniq u).Nodup := by
  induction l generalizing u with
  | nil => exact h
  | cons v r ih => rw [List.foldl_cons]; exact ih _ (nodup_insertUniq u v h)

end SH.Ingest
