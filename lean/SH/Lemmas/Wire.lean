/-
  SH.Lemmas.Wire — helper lemmas for Props/C13: little-endian integers, TL strings/vectors, generic item readers.
-/
import SH.Model.Wire
namespace SH.Wire

theorem le_length (n v : Nat) : (le n v).length = n := by
  induction n generalizing v with
  | zero => rfl
  | succ n ih => simp [le, ih]

theorem rdLE_le (n v : Nat) : rdLE (le n v) = v % 256 ^ n := by
  induction n generalizing v with
  | zero => simp [le, rdLE, Nat.mod_one]
  | succ n ih =>
    simp only [le, rdLE, ih]
    rw [Nat.pow_succ, Nat.mul_comm (256 ^ n) 256, Nat.mod_mul]

theorem rdLE_le_of_lt {n v : Nat} (h : v < 256 ^ n) : rdLE (le n v) = v := by
  rw [rdLE_le, Nat.mod_eq_of_lt h]

theorem take_le_append (n v : Nat) (r : Bytes) : (le n v ++ r).take n = le n v := by
  rw [List.take_append_of_le_length (by simp [le_length])]; simp [List.take_of_length_le, le_length]

theorem drop_le_append (n v : Nat) (r : Bytes) : (le n v ++ r).drop n = r := by
  have := le_length n v
  rw [List.drop_append_of_le_length (by omega)]; simp [List.drop_of_length_le, this]

theorem zeros_length (n : Nat) : (zeros n).length = n := by simp [zeros]

theorem tlNat_enc {v : Nat} (h : v < 2 ^ 32) (r : Bytes) : tlNat (le 4 v ++ r) = .ok (v, r) := by
  unfold tlNat
  have hl : ¬ (le 4 v ++ r).length < 4 := by simp [le_length]
  rw [if_neg hl, take_le_append, drop_le_append, rdLE_le_of_lt (by simpa using h)]

theorem tlLong_enc {v : Nat} (h : v < 2 ^ 64) (r : Bytes) : tlLong (le 8 v ++ r) = .ok (v, r) := by
  unfold tlLong
  have hl : ¬ (le 8 v ++ r).length < 8 := by simp [le_length]
  rw [if_neg hl, take_le_append, drop_le_append, rdLE_le_of_lt (by simpa using h)]

theorem tlStrTail_enc (s r : Bytes) (p : Nat) :
    tlStrTail (s ++ zeros (tlPadLen p) ++ r) s.length p = .ok (s, r) := by
  unfold tlStrTail
  have h1 : ¬ (s ++ zeros (tlPadLen p) ++ r).length < s.length := by simp
  have h2 : ¬ (s ++ zeros (tlPadLen p) ++ r).length < s.length + tlPadLen p := by simp [zeros_length]
  rw [if_neg h1, if_neg h2]
  have h3 : (s ++ zeros (tlPadLen p) ++ r).drop s.length = zeros (tlPadLen p) ++ r := by
    rw [List.append_assoc, List.drop_left]
  have h4 : (zeros (tlPadLen p) ++ r).take (tlPadLen p) = zeros (tlPadLen p) := by
    rw [List.take_append_of_le_length (by simp [zeros_length])]; simp [List.take_of_length_le, zeros_length]
  have h5 : (zeros (tlPadLen p)).all (· == 0) = true := by simp [zeros]
  rw [h3, h4, h5, if_pos rfl]
  have h6 : (s ++ zeros (tlPadLen p) ++ r).take s.length = s := by
    rw [List.append_assoc, List.take_left]
  have h7 : (s ++ zeros (tlPadLen p) ++ r).drop (s.length + tlPadLen p) = r := by
    have : s.length + tlPadLen p = (s ++ zeros (tlPadLen p)).length := by simp [zeros_length]
    rw [this, List.drop_left]
  rw [h6, h7]

theorem tlString_enc (s r : Bytes) (h : s.length < 2 ^ 56) : tlString (tlEncString s ++ r) = .ok (s, r) := by
  unfold tlEncString
  by_cases h1 : s.length ≤ 253
  · rw [if_pos h1]
    show tlString (s.length :: (s ++ zeros (tlPadLen (s.length + 1)) ++ r)) = _
    unfold tlString
    simp only [if_pos h1]
    exact tlStrTail_enc s r _
  · rw [if_neg h1]
    by_cases h2 : s.length ≤ 2 ^ 24 - 1
    · rw [if_pos h2]
      show tlString (254 :: (le 3 s.length ++ (s ++ zeros (tlPadLen s.length) ++ r))) = _
      have hv : rdLE (le 3 s.length) = s.length := rdLE_le_of_lt (by simp; omega)
      have hl : ¬ (le 3 s.length ++ (s ++ zeros (tlPadLen s.length) ++ r)).length < 3 := by simp [le_length]
      simp only [tlString]
      rw [if_neg (by decide), if_pos trivial, if_neg hl, take_le_append, hv, if_neg h1, drop_le_append]
      exact tlStrTail_enc s r _
    · rw [if_neg h2]
      show tlString (255 :: (le 7 s.length ++ (s ++ zeros (tlPadLen s.length) ++ r))) = _
      have hv : rdLE (le 7 s.length) = s.length := rdLE_le_of_lt (by simpa using h)
      have hl : ¬ (le 7 s.length ++ (s ++ zeros (tlPadLen s.length) ++ r)).length < 7 := by simp [le_length]
      simp only [tlString]
      rw [if_neg (by decide), if_neg (by decide), if_neg hl, take_le_append, hv, if_neg h2, drop_le_append]
      exact tlStrTail_enc s r _

theorem catMap_cons {α : Type} (f : α → Bytes) (x : α) (xs : List α) : catMap f (x :: xs) = f x ++ catMap f xs := rfl

theorem catMap_length_ge {α : Type} (f : α → Bytes) (k : Nat) (xs : List α) (h : ∀ x ∈ xs, k ≤ (f x).length) :
    k * xs.length ≤ (catMap f xs).length := by
  induction xs with
  | nil => simp [catMap]
  | cons x xs ih =>
    have h1 := h x (by simp)
    have h2 := ih (fun y hy => h y (by simp [hy]))
    simp only [catMap, List.length_cons, List.length_append]
    rw [Nat.mul_succ]; omega

theorem readN_catMap {α : Type} (dec : Bytes → R α) (enc : α → Bytes) (xs : List α)
    (h : ∀ x ∈ xs, ∀ r, dec (enc x ++ r) = .ok (x, r)) (r : Bytes) :
    readN dec xs.length (catMap enc xs ++ r) = .ok (xs, r) := by
  induction xs with
  | nil => simp [readN, catMap]
  | cons x xs ih =>
    simp only [List.length_cons, catMap, List.append_assoc, readN]
    rw [h x (by simp)]
    simp only []
    rw [ih (fun y hy => h y (by simp [hy]))]

theorem tlVec_enc {α : Type} (dec : Bytes → R α) (enc : α → Bytes) (xs : List α) (hn : xs.length < 2 ^ 32)
    (h : ∀ x ∈ xs, ∀ r, dec (enc x ++ r) = .ok (x, r)) (h4 : ∀ x ∈ xs, 4 ≤ (enc x).length) (r : Bytes) :
    tlVec dec (tlEncVec enc xs ++ r) = .ok (xs, r) := by
  unfold tlVec tlEncVec
  rw [List.append_assoc, tlNat_enc hn]
  simp only []
  have := catMap_length_ge enc 4 xs h4
  have hl : ¬ (catMap enc xs ++ r).length < xs.length * 4 := by simp; omega
  rw [if_neg hl, readN_catMap dec enc xs h]

theorem tlOpt_enc {α : Type} (c : Bool) (dec : Bytes → R α) (enc : Bytes) (x dflt : α) (r : Bytes)
    (h1 : c = true → dec (enc ++ r) = .ok (x, r)) (h2 : c = false → x = dflt) :
    tlOpt c dec dflt ((if c then enc else []) ++ r) = .ok (x, r) := by
  cases c with
  | true => simp [tlOpt, h1]
  | false => simp [tlOpt, h2]

theorem tlEncString_length_ge (s : Bytes) : 4 ≤ (tlEncString s).length := by
  unfold tlEncString tlPadLen
  split
  · simp [zeros_length]; omega
  · split <;> simp [le_length, zeros_length] <;> omega

theorem tlTag_enc (t : Bytes × Bytes) (h1 : t.1.length < 2 ^ 56) (h2 : t.2.length < 2 ^ 56) (r : Bytes) :
    tlTag (tlEncString t.1 ++ tlEncString t.2 ++ r) = .ok (t, r) := by
  unfold tlTag
  rw [List.append_assoc, tlString_enc _ _ h1]
  simp only []
  rw [tlString_enc _ _ h2]

theorem tlPair_enc (p : Nat × Nat) (h1 : p.1 < 2 ^ 64) (h2 : p.2 < 2 ^ 64) (r : Bytes) :
    tlPair (le 8 p.1 ++ le 8 p.2 ++ r) = .ok (p, r) := by
  unfold tlPair
  rw [List.append_assoc, tlLong_enc h1]
  simp only []
  rw [tlLong_enc h2]

/-- a metric that a client can express in every format: sizes fit the length fields, numbers fit their width,
    optional fields that are absent from the mask hold their zero value -/
structure Metric.WF (m : Metric) : Prop where
  mask : m.mask < 2 ^ 32
  name : m.name.length < 2 ^ 32
  tagsLen : m.tags.length < 2 ^ 32
  tags : ∀ t ∈ m.tags, t.1.length < 2 ^ 32 ∧ t.2.length < 2 ^ 32
  counter : m.counter < 2 ^ 64
  counter0 : hasBit m.mask 0 = false → m.counter = 0
  ts : m.ts < 2 ^ 32
  ts0 : hasBit m.mask 4 = false → m.ts = 0
  valueLen : m.value.length < 2 ^ 32
  value : ∀ x ∈ m.value, x < 2 ^ 64
  value0 : hasBit m.mask 1 = false → m.value = []
  uniqueLen : m.unique.length < 2 ^ 32
  unique : ∀ x ∈ m.unique, x < 2 ^ 64
  unique0 : hasBit m.mask 2 = false → m.unique = []
  histLen : m.hist.length < 2 ^ 32
  hist : ∀ h ∈ m.hist, h.1 < 2 ^ 64 ∧ h.2 < 2 ^ 64
  hist0 : hasBit m.mask 3 = false → m.hist = []

theorem tlMetric_enc (m : Metric) (w : m.WF) (r : Bytes) : tlMetric (tlEncMetric m ++ r) = .ok (m, r) := by
  unfold tlMetric tlEncMetric
  simp only [List.append_assoc]
  rw [tlNat_enc w.mask]
  simp only [bind, Except.bind]
  rw [tlString_enc _ _ (by have := w.name; omega)]
  simp only []
  rw [tlVec_enc tlTag (fun t => tlEncString t.1 ++ tlEncString t.2) m.tags w.tagsLen
    (fun t ht r => tlTag_enc t (by have := (w.tags t ht).1; omega) (by have := (w.tags t ht).2; omega) r)
    (fun t _ => by have := tlEncString_length_ge t.1; simp; omega)]
  simp only []
  rw [tlOpt_enc (hasBit m.mask 0) tlLong (le 8 m.counter) m.counter 0 _ (fun _ => tlLong_enc w.counter _) w.counter0]
  simp only []
  rw [tlOpt_enc (hasBit m.mask 4) tlNat (le 4 m.ts) m.ts 0 _ (fun _ => tlNat_enc w.ts _) w.ts0]
  simp only []
  rw [tlOpt_enc (hasBit m.mask 1) (tlVec tlLong) (tlEncVec (le 8) m.value) m.value [] _
    (fun _ => tlVec_enc tlLong (le 8) m.value w.valueLen (fun x hx r => tlLong_enc (w.value x hx) r) (fun x _ => by simp [le_length]) _) w.value0]
  simp only []
  rw [tlOpt_enc (hasBit m.mask 2) (tlVec tlLong) (tlEncVec (le 8) m.unique) m.unique [] _
    (fun _ => tlVec_enc tlLong (le 8) m.unique w.uniqueLen (fun x hx r => tlLong_enc (w.unique x hx) r) (fun x _ => by simp [le_length]) _) w.unique0]
  simp only []
  rw [tlOpt_enc (hasBit m.mask 3) (tlVec tlPair) (tlEncVec (fun h => le 8 h.1 ++ le 8 h.2) m.hist) m.hist [] r
    (fun _ => tlVec_enc tlPair (fun h => le 8 h.1 ++ le 8 h.2) m.hist w.histLen
      (fun h hh r => tlPair_enc h (w.hist h hh).1 (w.hist h hh).2 r) (fun x _ => by simp [le_length]) _) w.hist0]
  rfl

/-! ## readers only ever return a shorter rest (used for termination and the allocation bound) -/

/-- a reader only ever returns a (not longer) rest -/
def Mono {α : Type} (f : Bytes → R α) : Prop := ∀ b x r, f b = .ok (x, r) → r.length ≤ b.length
def Strict {α : Type} (f : Bytes → R α) : Prop := ∀ b x r, f b = .ok (x, r) → r.length < b.length

theorem Strict.mono {α : Type} {f : Bytes → R α} (h : Strict f) : Mono f := fun b x r e => Nat.le_of_lt (h b x r e)

theorem mpMapHdr_strict : Strict mpMapHdr := by
  intro b x r h
  unfold mpMapHdr at h
  split at h
  · simp at h
  · repeat' split at h
    all_goals simp at h
    all_goals (obtain ⟨_, rfl⟩ := h; simp; try omega)

theorem mpArrHdr_strict : Strict mpArrHdr := by
  intro b x r h
  unfold mpArrHdr at h
  split at h
  · simp at h
  · repeat' split at h
    all_goals simp at h
    all_goals (obtain ⟨_, rfl⟩ := h; simp; try omega)

theorem mpLenPayload_mono (n : Nat) : Mono (mpLenPayload n) := by
  intro b x r h
  unfold mpLenPayload at h
  repeat' split at h
  all_goals simp at h
  obtain ⟨_, rfl⟩ := h; simp; try omega

theorem mpStr_strict : Strict mpStr := by
  intro b x r h
  unfold mpStr at h
  split at h
  · simp at h
  · repeat' split at h
    all_goals (try simp at h)
    · obtain ⟨_, rfl⟩ := h; simp; omega
    all_goals (have := mpLenPayload_mono _ _ _ _ h; simp; omega)

theorem mpBin_strict : Strict mpBin := by
  intro b x r h
  unfold mpBin at h
  split at h
  · simp at h
  · repeat' split at h
    all_goals (try simp at h)
    all_goals (have := mpLenPayload_mono _ _ _ _ h; simp; omega)

theorem mpKey_strict : Strict mpKey := by
  intro b x r h
  unfold mpKey at h
  split at h
  · rename_i y hy; cases h; exact mpStr_strict _ _ _ hy
  · split at h
    · exact mpBin_strict _ _ _ h
    · simp at h
  · simp at h

theorem mpF64_strict : Strict mpF64 := by
  intro b x r h
  unfold mpF64 at h
  split at h
  · simp at h
  · repeat' split at h
    all_goals simp at h
    all_goals (obtain ⟨_, rfl⟩ := h; simp; try omega)

theorem mpFixed_mono (n : Nat) (g : Nat → Except Err Nat) : Mono (fun r => mpFixed n r g) := by
  intro b x r h
  simp only [mpFixed] at h
  repeat' split at h
  all_goals simp at h
  obtain ⟨_, rfl⟩ := h; simp

theorem mpU64_strict : Strict mpU64 := by
  intro b x r h
  unfold mpU64 at h
  split at h
  · simp at h
  · repeat' split at h
    all_goals (try simp at h)
    · obtain ⟨_, rfl⟩ := h; simp
    all_goals (have := mpFixed_mono _ _ _ _ _ h; simp; omega)

theorem mpU32_strict : Strict mpU32 := by
  intro b x r h
  unfold mpU32 at h
  split at h
  · simp at h
  · rename_i v r' hv
    split at h
    · simp at h
    · cases h; exact mpU64_strict _ _ _ hv

theorem mpI64_strict : Strict mpI64 := by
  intro b x r h
  unfold mpI64 at h
  split at h
  · simp at h
  · repeat' split at h
    all_goals (try simp at h)
    · obtain ⟨_, rfl⟩ := h; simp
    · obtain ⟨_, rfl⟩ := h; simp
    all_goals (have := mpFixed_mono _ _ _ _ _ h; simp; omega)

def MpSpec.pos : MpSpec → Bool
  | .fixed s _ => decide (1 ≤ s)
  | .ext s _ => decide (1 ≤ s)
  | .cont s _ _ => decide (1 ≤ s)
  | .invalid => true

set_option maxRecDepth 100000 in
theorem mpSpec_pos : ∀ l, l < 256 → (mpSpec l).pos = true := by decide

theorem mpGetSize_pos (b : Bytes) (sz asz : Nat) (h : mpGetSize b = .ok (sz, asz)) : 1 ≤ sz := by
  cases b with
  | nil => simp [mpGetSize] at h
  | cons lead r =>
    have hp := mpSpec_pos (lead % 256) (Nat.mod_lt _ (by decide))
    simp only [mpGetSize] at h
    cases hs : mpSpec (lead % 256) with
    | fixed s n => rw [hs] at h hp; simp [MpSpec.pos] at hp; simp at h; omega
    | ext s k => rw [hs] at h hp; simp [MpSpec.pos] at hp; simp at h; split at h <;> simp at h; omega
    | cont s k m => rw [hs] at h hp; simp [MpSpec.pos] at hp; simp at h; split at h <;> simp at h; omega
    | invalid => rw [hs] at h; simp at h

theorem mpGetSize_ne_fuel (b : Bytes) : mpGetSize b ≠ .error .fuel := by
  intro h
  cases b with
  | nil => simp [mpGetSize] at h
  | cons lead r =>
    simp only [mpGetSize] at h
    cases hs : mpSpec (lead % 256) <;> rw [hs] at h <;> simp at h <;> (try (split at h <;> simp at h))
theorem mpSkipN_mono : ∀ (f c : Nat) (b : Bytes) (d : Nat) (r : Bytes), mpSkipN f c b d = .ok r → r.length ≤ b.length := by
  intro f
  induction f with
  | zero =>
    intro c b d r h
    cases c with
    | zero => simp [mpSkipN] at h; subst h; exact Nat.le_refl _
    | succ c => simp [mpSkipN] at h
  | succ f ih =>
    intro c b d r h
    cases c with
    | zero => simp [mpSkipN] at h; subst h; exact Nat.le_refl _
    | succ c =>
      simp only [mpSkipN] at h
      split at h
      · simp at h
      · split at h
        · simp at h
        · split at h
          · simp at h
          · split at h
            · simp at h
            · rename_i b' hb'
              have h1 := ih _ _ _ _ hb'
              have h2 := ih _ _ _ _ h
              simp at h1; omega

/-- with more fuel than bytes the skip never runs out of fuel: every object takes at least one byte -/
theorem mpSkipN_fuel : ∀ (f c : Nat) (b : Bytes) (d : Nat), b.length < f → mpSkipN f c b d ≠ .error .fuel := by
  intro f
  induction f with
  | zero => intro c b d h; omega
  | succ f ih =>
    intro c b d hf
    cases c with
    | zero => simp [mpSkipN]
    | succ c =>
      simp only [mpSkipN]
      split
      · simp
      · split
        · rename_i e he
          intro h; cases h
          exact mpGetSize_ne_fuel _ he
        · rename_i sz asz hs
          have hp := mpGetSize_pos _ _ _ hs
          split
          · simp
          · rename_i hlen
            have hd : (b.drop sz).length < f := by simp; omega
            split
            · rename_i e he
              intro h; cases h
              exact ih _ _ _ hd he
            · rename_i b' hb'
              have := mpSkipN_mono _ _ _ _ _ hb'
              exact ih _ _ _ (by omega)

theorem readN_mono {α : Type} (f : Bytes → R α) (hf : Mono f) : ∀ n, Mono (readN f n) := by
  intro n
  induction n with
  | zero => intro b x r h; simp [readN] at h; obtain ⟨_, rfl⟩ := h; exact Nat.le_refl _
  | succ n ih =>
    intro b x r h
    simp only [readN] at h
    split at h
    · simp at h
    · rename_i y r1 h1
      split at h
      · simp at h
      · rename_i ys r2 h2
        simp at h; obtain ⟨_, rfl⟩ := h
        have := hf _ _ _ h1; have := ih _ _ _ h2; omega

theorem mpTag_mono : Mono mpTag := by
  intro b x r h
  unfold mpTag at h
  split at h
  · simp at h
  · rename_i k r1 h1
    split at h
    · simp at h
    · rename_i v r2 h2
      simp at h; obtain ⟨_, rfl⟩ := h
      have := mpStr_strict _ _ _ h1; have := mpStr_strict _ _ _ h2; omega

theorem mpBucket_mono : Mono mpBucket := by
  intro b x r h
  unfold mpBucket at h
  split at h
  · simp at h
  · rename_i n r0 h0
    split at h
    · simp at h
    · split at h
      · simp at h
      · rename_i a r1 h1
        split at h
        · simp at h
        · rename_i c r2 h2
          simp at h; obtain ⟨_, rfl⟩ := h
          have := mpArrHdr_strict _ _ _ h0; have := mpF64_strict _ _ _ h1; have := mpF64_strict _ _ _ h2; omega

theorem mapR_ok {α β : Type} (x : R α) (f : α → β) (y : β) (r : Bytes) (h : mapR x f = .ok (y, r)) :
    ∃ a, x = .ok (a, r) ∧ y = f a := by
  cases x with
  | error e => simp [mapR] at h
  | ok p =>
    obtain ⟨a, r'⟩ := p
    simp [mapR] at h
    obtain ⟨rfl, rfl⟩ := h
    exact ⟨a, rfl, rfl⟩

/-- the fix: a collection header is accepted only if it promises no more elements than bytes are left -/
theorem mpColl_ok (v : Variant) (isMap : Bool) (b : Bytes) (n : Nat) (r : Bytes) (h : mpColl v isMap b = .ok (n, r)) :
    r.length < b.length ∧ (v.boundAlloc = true → n ≤ r.length) := by
  unfold mpColl at h
  split at h
  · simp at h
  · rename_i n' r' h'
    split at h
    · rename_i hc
      simp at h; obtain ⟨rfl, rfl⟩ := h
      constructor
      · cases isMap
        · exact mpArrHdr_strict _ _ _ h'
        · exact mpMapHdr_strict _ _ _ h'
      · intro hb; simp [mpCheckLen, hb] at hc; exact hc
    · simp at h

/-! ## MessagePack: allocation requests are bounded by the input (fixed variant) -/

/-- the decoder asked `make` for at most as many elements as the input has bytes, and returns a shorter rest -/
def MPR.Good {α : Type} (x : MPR α) (b : Bytes) : Prop :=
  x.alloc ≤ b.length ∧ ∀ y r, x.res = .ok (y, r) → r.length ≤ b.length

theorem MPR.good_of_res {α : Type} (res : R α) (b : Bytes) (h : ∀ y r, res = .ok (y, r) → r.length ≤ b.length) :
    MPR.Good ⟨0, res⟩ b := ⟨Nat.zero_le _, h⟩

theorem mapR_mono {α β : Type} (x : R α) (f : α → β) (b : Bytes) (h : ∀ y r, x = .ok (y, r) → r.length ≤ b.length) :
    ∀ y r, mapR x f = .ok (y, r) → r.length ≤ b.length := by
  intro y r e
  obtain ⟨a, ha, _⟩ := mapR_ok x f y r e
  exact h a r ha

theorem mpCollField_good {α : Type} (v : Variant) (hv : v.boundAlloc = true) (isMap : Bool) (item : Bytes → R α)
    (hi : Mono item) (b : Bytes) (upd : List α → Metric) : (mpCollField v isMap item b upd).Good b := by
  unfold mpCollField
  split
  · exact ⟨Nat.zero_le _, by intro y r h; simp at h⟩
  · rename_i n r hc
    obtain ⟨h1, h2⟩ := mpColl_ok v isMap b n r hc
    refine ⟨by have := h2 hv; simp; omega, ?_⟩
    apply mapR_mono
    intro y r' h
    have := readN_mono item hi n _ _ _ h
    omega

theorem mpSkip_mono (b r : Bytes) (h : mpSkip b = .ok r) : r.length ≤ b.length := mpSkipN_mono _ _ _ _ _ h

theorem mpField_good (v : Variant) (hv : v.boundAlloc = true) (m : Metric) (key b : Bytes) : (mpField v m key b).Good b := by
  unfold mpField
  split
  · exact MPR.good_of_res _ _ (mapR_mono _ _ _ (fun y r h => mpStr_strict.mono _ _ _ h))
  split
  · exact mpCollField_good v hv _ _ mpTag_mono _ _
  split
  · exact MPR.good_of_res _ _ (mapR_mono _ _ _ (fun y r h => mpF64_strict.mono _ _ _ h))
  split
  · exact MPR.good_of_res _ _ (mapR_mono _ _ _ (fun y r h => mpU32_strict.mono _ _ _ h))
  split
  · exact mpCollField_good v hv _ _ mpF64_strict.mono _ _
  split
  · exact mpCollField_good v hv _ _ mpI64_strict.mono _ _
  split
  · exact mpCollField_good v hv _ _ mpBucket_mono _ _
  · apply MPR.good_of_res
    intro y r h
    split at h
    · simp at h
    · rename_i r' hs; simp at h; obtain ⟨_, rfl⟩ := h; exact mpSkip_mono _ _ hs

theorem mpFields_good (v : Variant) (hv : v.boundAlloc = true) : ∀ (n : Nat) (m : Metric) (b : Bytes), (mpFields v n m b).Good b := by
  intro n
  induction n with
  | zero => intro m b; exact ⟨Nat.zero_le _, by intro y r h; simp [mpFields] at h; obtain ⟨_, rfl⟩ := h; exact Nat.le_refl _⟩
  | succ n ih =>
    intro m b
    simp only [mpFields]
    split
    · exact ⟨Nat.zero_le _, by intro y r h; simp at h⟩
    · rename_i k r hk
      have hks := mpKey_strict _ _ _ hk
      have hf := mpField_good v hv m k r
      split
      · rename_i a e he
        rw [he] at hf
        exact ⟨by have := hf.1; simp at this; simp; omega, by intro y r h; simp at h⟩
      · rename_i a m' r' he
        rw [he] at hf
        have hr' : r'.length ≤ r.length := hf.2 m' r' rfl
        have ht := ih m' r'
        refine ⟨?_, ?_⟩
        · have := hf.1; have := ht.1; simp at *; omega
        · intro y r2 h; have := ht.2 y r2 h; omega

theorem mpMetric_good (v : Variant) (hv : v.boundAlloc = true) (b : Bytes) : (mpMetric v b).Good b := by
  unfold mpMetric
  split
  · exact ⟨Nat.zero_le _, by intro y r h; simp at h⟩
  · rename_i n r hh
    have hs := mpMapHdr_strict _ _ _ hh
    have := mpFields_good v hv n {} r
    exact ⟨by have := this.1; omega, fun y r' h => by have := this.2 y r' h; omega⟩

theorem mpMetrics_good (v : Variant) (hv : v.boundAlloc = true) : ∀ (n : Nat) (b : Bytes), (mpMetrics v n b).Good b := by
  intro n
  induction n with
  | zero => intro b; exact ⟨Nat.zero_le _, by intro y r h; simp [mpMetrics] at h; obtain ⟨_, rfl⟩ := h; exact Nat.le_refl _⟩
  | succ n ih =>
    intro b
    simp only [mpMetrics]
    have hm := mpMetric_good v hv b
    split
    · rename_i a e he
      rw [he] at hm
      exact ⟨by have := hm.1; simpa using this, by intro y r h; simp at h⟩
    · rename_i a m r he
      rw [he] at hm
      have hr : r.length ≤ b.length := hm.2 m r rfl
      have ht := ih r
      refine ⟨by have := hm.1; have := ht.1; simp at *; omega, ?_⟩
      apply mapR_mono
      intro y r2 h; have := ht.2 y r2 h; omega

theorem mpBatchFields_good (v : Variant) (hv : v.boundAlloc = true) :
    ∀ (n : Nat) (ms : List Metric) (b : Bytes), (mpBatchFields v n ms b).Good b := by
  intro n
  induction n with
  | zero => intro ms b; exact ⟨Nat.zero_le _, by intro y r h; simp [mpBatchFields] at h; obtain ⟨_, rfl⟩ := h; exact Nat.le_refl _⟩
  | succ n ih =>
    intro ms b
    simp only [mpBatchFields]
    split
    · exact ⟨Nat.zero_le _, by intro y r h; simp at h⟩
    · rename_i k r hk
      have hks := mpKey_strict _ _ _ hk
      split
      · split
        · exact ⟨Nat.zero_le _, by intro y r h; simp at h⟩
        · rename_i cnt r1 hc
          obtain ⟨h1, h2⟩ := mpColl_ok v false r cnt r1 hc
          have h2 := h2 hv
          have hm := mpMetrics_good v hv cnt r1
          split
          · rename_i a e he
            rw [he] at hm
            exact ⟨by have := hm.1; simp at *; omega, by intro y r h; simp at h⟩
          · rename_i a ms' r2 he
            rw [he] at hm
            have hr2 : r2.length ≤ r1.length := hm.2 ms' r2 rfl
            have ht := ih ms' r2
            refine ⟨by have := hm.1; have := ht.1; simp at *; omega, ?_⟩
            intro y r3 h; have := ht.2 y r3 h; omega
      · split
        · exact ⟨Nat.zero_le _, by intro y r h; simp at h⟩
        · rename_i r1 hs
          have := mpSkip_mono _ _ hs
          have ht := ih ms r1
          exact ⟨by have := ht.1; omega, fun y r3 h => by have := ht.2 y r3 h; omega⟩

/-- every element count the MessagePack decoder allocates for is bounded by the packet length, and a
    successful read consumes at least the header byte -/
theorem mpBatch_good (v : Variant) (hv : v.boundAlloc = true) (b : Bytes) :
    (mpBatch v b).alloc ≤ b.length ∧ ∀ y r, (mpBatch v b).res = .ok (y, r) → r.length < b.length := by
  unfold mpBatch
  split
  · exact ⟨Nat.zero_le _, by intro y r h; simp at h⟩
  · rename_i n r hh
    have hs := mpMapHdr_strict _ _ _ hh
    have := mpBatchFields_good v hv n [] r
    exact ⟨by have := this.1; omega, fun y r' h => by have := this.2 y r' h; omega⟩

/-! ## TL batch round trip, loop helpers -/

theorem tlEncMetric_length_ge (m : Metric) : 4 ≤ (tlEncMetric m).length := by
  unfold tlEncMetric
  simp only [List.length_append, le_length]; omega

theorem tlBatch_enc (ms : List Metric) (hn : ms.length < 2 ^ 32) (hw : ∀ m ∈ ms, m.WF) (r : Bytes) :
    tlBatch (tlEncBatch ms ++ r) = .ok (ms, r) := by
  unfold tlBatch tlEncBatch
  simp only [List.append_assoc]
  have hl : ¬ (le 4 tlBatchTag ++ (le 4 0 ++ (tlEncVec tlEncMetric ms ++ r))).length < 4 := by simp [le_length]
  rw [if_neg hl, take_le_append, drop_le_append, rdLE_le_of_lt (by decide)]
  simp only [ne_eq, not_true_eq_false, if_false]
  rw [tlNat_enc (by decide)]
  simp only []
  exact tlVec_enc tlMetric tlEncMetric ms hn (fun m hm r => tlMetric_enc m (hw m hm) r) (fun m _ => tlEncMetric_length_ge m) r

theorem batchLoop_one (dec : Bytes → MPR (List Metric)) (fmt : Fmt) (pkt : Bytes) (ms : List Metric) (a n : Nat)
    (hne : pkt ≠ []) (h : dec pkt = ⟨a, .ok (ms, [])⟩) :
    batchLoop dec fmt (n + 2) pkt [] 0 = { fmt := fmt, delivered := ms, alloc := max 0 a } := by
  simp [batchLoop, hne, h]

theorem detect_tlEnc (ms : List Metric) : detect (tlEncBatch ms) = .tl := by
  have h : (tlEncBatch ms).take 4 = tlPrefix := by
    unfold tlEncBatch; rw [List.append_assoc, take_le_append]; decide
  have hne : tlEncBatch ms ≠ [] := by
    intro h0; rw [h0] at h; exact absurd h (by decide)
  simp [detect, hne, h]

theorem batchLoop_alloc (dec : Bytes → MPR (List Metric)) (fmt : Fmt) (L : Nat)
    (hd : ∀ b, (dec b).alloc ≤ b.length ∧ ∀ y r, (dec b).res = .ok (y, r) → r.length < b.length) :
    ∀ (f : Nat) (pkt : Bytes) (acc : List Metric) (a : Nat), a ≤ L → pkt.length ≤ L →
      (batchLoop dec fmt f pkt acc a).alloc ≤ L := by
  intro f
  induction f with
  | zero => intro pkt acc a ha _; simpa [batchLoop] using ha
  | succ f ih =>
    intro pkt acc a ha hp
    simp only [batchLoop]
    split
    · simpa using ha
    · have h := hd pkt
      split
      · rename_i a' e he
        rw [he] at h
        have := h.1; simp at this; simp; omega
      · rename_i a' ms rest he
        rw [he] at h
        have h1 := h.1; simp at h1
        have h2 := h.2 ms rest rfl
        exact ih rest _ _ (by omega) (by omega)

/-- the loop `for len(pkt) > 0` itself never runs out of fuel when every successful read consumes input:
    a `fuel` error can only have been handed up by the decoder -/
theorem batchLoop_fuel (dec : Bytes → MPR (List Metric)) (fmt : Fmt)
    (hd : ∀ b y r, (dec b).res = .ok (y, r) → r.length < b.length)
    (hn : ∀ b, (dec b).res ≠ .error .fuel) :
    ∀ (f : Nat) (pkt : Bytes) (acc : List Metric) (a : Nat), pkt.length < f →
      (batchLoop dec fmt f pkt acc a).err ≠ some .fuel := by
  intro f
  induction f with
  | zero => intro pkt acc a h; omega
  | succ f ih =>
    intro pkt acc a hp
    simp only [batchLoop]
    split
    · simp
    · split
      · rename_i a' e he
        have := hn pkt; rw [he] at this
        simp; intro h; subst h; exact this rfl
      · rename_i a' ms rest he
        have := hd pkt ms rest (by rw [he])
        exact ih rest _ _ (by omega)

theorem batchLoop_fmt (dec : Bytes → MPR (List Metric)) (fmt : Fmt) :
    ∀ (f : Nat) (pkt : Bytes) (acc : List Metric) (a : Nat), (batchLoop dec fmt f pkt acc a).fmt = fmt := by
  intro f
  induction f with
  | zero => intro pkt acc a; rfl
  | succ f ih =>
    intro pkt acc a
    simp only [batchLoop]
    split
    · rfl
    · split
      · rfl
      · exact ih _ _ _

theorem batchLoop_alloc_zero (dec : Bytes → MPR (List Metric)) (fmt : Fmt) (hd : ∀ b, (dec b).alloc = 0) :
    ∀ (f : Nat) (pkt : Bytes) (acc : List Metric), (batchLoop dec fmt f pkt acc 0).alloc = 0 := by
  intro f
  induction f with
  | zero => intro pkt acc; rfl
  | succ f ih =>
    intro pkt acc
    simp only [batchLoop]
    split
    · rfl
    · have h := hd pkt
      split
      · rename_i a' e he; rw [he] at h; simp at h; simp [h]
      · rename_i a' ms rest he; rw [he] at h; simp at h; subst h; exact ih _ _

/-- the loop `for len(pkt) > 0` itself never runs out of fuel when every successful read consumes input:
    a `fuel` error can only have been handed up by the decoder -/
theorem batchLoop_fuel_origin (dec : Bytes → MPR (List Metric)) (fmt : Fmt)
    (hd : ∀ b y r, (dec b).res = .ok (y, r) → r.length < b.length) :
    ∀ (f : Nat) (pkt : Bytes) (acc : List Metric) (a : Nat), pkt.length < f →
      (batchLoop dec fmt f pkt acc a).err = some .fuel → ∃ b, (dec b).res = .error .fuel := by
  intro f
  induction f with
  | zero => intro pkt acc a h; omega
  | succ f ih =>
    intro pkt acc a hp
    simp only [batchLoop]
    split
    · simp
    · split
      · rename_i a' e he
        intro h; simp at h; subst h
        exact ⟨pkt, by rw [he]⟩
      · rename_i a' ms rest he
        have := hd pkt ms rest (by rw [he])
        exact ih rest _ _ (by omega)

/-! ## TCP framing: the splitter is resumable, so the chunking of the stream does not matter -/

/-- canonical fuel -/
def S (m : Nat) (b : Bytes) : List Bytes × Bytes × Bool := splitF m (b.length + 1) b

theorem deframe_eq_S (m : Nat) (b : Bytes) : deframe m b = S m b := rfl

theorem splitF_fuel (m : Nat) : ∀ (f g : Nat) (b : Bytes), b.length < f → b.length < g → splitF m f b = splitF m g b := by
  intro f
  induction f with
  | zero => intro g b h; omega
  | succ f ih =>
    intro g b hf hg
    cases g with
    | zero => omega
    | succ g =>
      simp only [splitF]
      split
      · rfl
      · split
        · rfl
        · split
          · rfl
          · rename_i h1 h2 h3
            have hl : (b.drop (4 + rdLE (b.take 4))).length < b.length := by simp; omega
            rw [ih g _ (by omega) (by omega)]

/-- one step of the frame splitter -/
theorem S_unfold (m : Nat) (b : Bytes) :
    S m b = if b.length < 4 then ([], b, false)
      else if rdLE (b.take 4) > m then ([], b, true)
      else if b.length < 4 + rdLE (b.take 4) then ([], b, false)
      else ((b.drop 4).take (rdLE (b.take 4)) :: (S m (b.drop (4 + rdLE (b.take 4)))).1,
            (S m (b.drop (4 + rdLE (b.take 4)))).2.1, (S m (b.drop (4 + rdLE (b.take 4)))).2.2) := by
  have e : S m b = splitF m (b.length + 1) b := rfl
  rw [e]
  simp only [splitF]
  split
  · rfl
  · split
    · rfl
    · split
      · rfl
      · have hl : (b.drop (4 + rdLE (b.take 4))).length < b.length := by simp; omega
        rw [splitF_fuel m b.length ((b.drop (4 + rdLE (b.take 4))).length + 1) _ hl (Nat.lt_succ_self _)]
        rfl


theorem take_append_ge {α : Type} (a b : List α) (n : Nat) (h : n ≤ a.length) : (a ++ b).take n = a.take n := by
  rw [List.take_append_of_le_length h]

theorem drop_append_ge {α : Type} (a b : List α) (n : Nat) (h : n ≤ a.length) : (a ++ b).drop n = a.drop n ++ b := by
  rw [List.drop_append_of_le_length h]

/-- the splitter can be resumed: splitting `a ++ b` = splitting `a`, then going on with (rest of a) ++ b -/
theorem S_resume (m : Nat) : ∀ (n : Nat) (a b : Bytes), a.length ≤ n → (S m a).2.2 = false →
    S m (a ++ b) = ((S m a).1 ++ (S m ((S m a).2.1 ++ b)).1, (S m ((S m a).2.1 ++ b)).2.1, (S m ((S m a).2.1 ++ b)).2.2) := by
  intro n
  induction n with
  | zero =>
    intro a b h _
    have : a = [] := List.eq_nil_of_length_eq_zero (by omega)
    subst this
    rw [S_unfold m []]; simp
  | succ n ih =>
    intro a b hn hflag
    rw [S_unfold m a] at hflag ⊢
    split at hflag
    · rename_i h1; simp [h1]
    · rename_i h1
      split at hflag
      · simp at hflag
      · rename_i h2
        split at hflag
        · rename_i h3; simp [h1, h2, h3]
        · rename_i h3
          simp only [h1, h2, h3, if_false]
          have h4 : 4 ≤ a.length := by omega
          have hlen : 4 + rdLE (a.take 4) ≤ a.length := by omega
          have hd : (a.drop (4 + rdLE (a.take 4))).length ≤ n := by simp; omega
          have ih' := ih (a.drop (4 + rdLE (a.take 4))) b hd hflag
          rw [S_unfold m (a ++ b)]
          have t4 : (a ++ b).take 4 = a.take 4 := take_append_ge a b 4 h4
          have e1 : ¬ (a ++ b).length < 4 := by simp; omega
          have e3 : ¬ (a ++ b).length < 4 + rdLE (a.take 4) := by simp; omega
          rw [t4]
          simp only [e1, h2, e3, if_false]
          rw [drop_append_ge a b _ hlen, ih']
          have body : ((a ++ b).drop 4).take (rdLE (a.take 4)) = (a.drop 4).take (rdLE (a.take 4)) := by
            rw [drop_append_ge a b 4 h4, take_append_ge _ _ _ (by simp; omega)]
          rw [body]
          simp

/-- a framing error stays: bytes that arrive later change neither the frames delivered before it nor the verdict -/
theorem S_error_persists (m : Nat) : ∀ (n : Nat) (a b : Bytes), a.length ≤ n → (S m a).2.2 = true →
    (S m (a ++ b)).1 = (S m a).1 ∧ (S m (a ++ b)).2.2 = true := by
  intro n
  induction n with
  | zero =>
    intro a b h hf
    have : a = [] := List.eq_nil_of_length_eq_zero (by omega)
    subst this
    rw [S_unfold m []] at hf; simp at hf
  | succ n ih =>
    intro a b hn hflag
    rw [S_unfold m a] at hflag ⊢
    split at hflag
    · simp at hflag
    · rename_i h1
      have h4 : 4 ≤ a.length := by omega
      have t4 : (a ++ b).take 4 = a.take 4 := take_append_ge a b 4 h4
      have e1 : ¬ (a ++ b).length < 4 := by simp; omega
      split at hflag
      · rename_i h2
        rw [S_unfold m (a ++ b), t4]
        have e1' : ¬ (a.length + b.length < 4) := by omega
        simp [e1', h1, h2]
      · rename_i h2
        split at hflag
        · simp at hflag
        · rename_i h3
          have hlen : 4 + rdLE (a.take 4) ≤ a.length := by omega
          have hd : (a.drop (4 + rdLE (a.take 4))).length ≤ n := by simp; omega
          have ih' := ih (a.drop (4 + rdLE (a.take 4))) b hd hflag
          have e3 : ¬ (a ++ b).length < 4 + rdLE (a.take 4) := by simp; omega
          rw [S_unfold m (a ++ b), t4]
          simp only [e1, h1, h2, h3, e3, if_false]
          rw [drop_append_ge a b _ hlen]
          have body : ((a ++ b).drop 4).take (rdLE (a.take 4)) = (a.drop 4).take (rdLE (a.take 4)) := by
            rw [drop_append_ge a b 4 h4, take_append_ge _ _ _ (by simp; omega)]
          rw [body, ih'.1, ih'.2]
          simp

/-- what the splitter leaves behind is an incomplete frame: shorter than header + largest body -/
theorem S_rest_short (m : Nat) : ∀ (n : Nat) (a : Bytes), a.length ≤ n → (S m a).2.2 = false → (S m a).2.1.length < 4 + m := by
  intro n
  induction n with
  | zero =>
    intro a h _
    have : a = [] := List.eq_nil_of_length_eq_zero (by omega)
    subst this
    rw [S_unfold m []]; simp; omega
  | succ n ih =>
    intro a hn hflag
    rw [S_unfold m a] at hflag ⊢
    split at hflag
    · rename_i h1; simp [h1]; omega
    · rename_i h1
      split at hflag
      · simp at hflag
      · rename_i h2
        split at hflag
        · rename_i h3; simp [h1, h2, h3]; omega
        · rename_i h3
          simp only [h1, h2, h3, if_false]
          exact ih _ (by simp; omega) hflag


/-- `c` is the connection state after the receiver has been offered the stream prefix `p` -/
@[reducible] def After (m : Nat) (c : Conn) (p : Bytes) : Prop :=
  c.frames = (S m p).1 ∧ ((S m p).2.2 = false → c.ending = none ∧ c.buf = (S m p).2.1) ∧
    ((S m p).2.2 = true → c.ending = some .framing)

theorem recv_after (m bufSize : Nat) (hb : m + 4 ≤ bufSize) :
    ∀ (fuel : Nat) (c : Conn) (avail p : Bytes), avail.length < fuel → After m c p →
      After m (recv m bufSize fuel c avail) (p ++ avail) := by
  intro fuel
  induction fuel with
  | zero => intro c avail p h; omega
  | succ f ih =>
    intro c avail p hf hA
    obtain ⟨hfr, hok, herr⟩ := hA
    simp only [recv]
    cases hflag : (S m p).2.2 with
    | true =>
      have he := herr hflag
      have hs : c.ending.isSome = true := by rw [he]; rfl
      rw [if_pos hs]
      obtain ⟨p1, p2⟩ := S_error_persists m p.length p avail (Nat.le_refl _) hflag
      refine ⟨?_, ?_, fun _ => he⟩
      · rw [hfr, p1]
      · intro h; rw [p2] at h; cases h
    | false =>
      obtain ⟨hnone, hbuf⟩ := hok hflag
      have hs : ¬ (c.ending.isSome = true) := by rw [hnone]; simp
      rw [if_neg hs]
      by_cases ha : avail = []
      · rw [if_pos ha]; subst ha; rw [List.append_nil]
        refine ⟨hfr, fun _ => ⟨hnone, hbuf⟩, ?_⟩
        intro h; rw [hflag] at h; cases h
      · rw [if_neg ha]
        have hshort := S_rest_short m p.length p (Nat.le_refl _) hflag
        rw [← hbuf] at hshort
        have hfree : ¬ (bufSize - c.buf.length = 0) := by omega
        rw [if_neg hfree]
        have hres := S_resume m p.length p (avail.take (bufSize - c.buf.length)) (Nat.le_refl _) hflag
        rw [← hbuf, ← hfr] at hres
        have hS : splitF m ((c.buf ++ avail.take (bufSize - c.buf.length)).length + 1) (c.buf ++ avail.take (bufSize - c.buf.length))
            = S m (c.buf ++ avail.take (bufSize - c.buf.length)) := rfl
        simp only [hS]
        have hsplit : p ++ avail = (p ++ avail.take (bufSize - c.buf.length)) ++ avail.drop (bufSize - c.buf.length) := by
          rw [List.append_assoc, List.take_append_drop]
        cases hf2 : (S m (c.buf ++ avail.take (bufSize - c.buf.length))).2.2 with
        | true =>
          simp only [if_true]
          have hflag' : (S m (p ++ avail.take (bufSize - c.buf.length))).2.2 = true := by rw [hres]; exact hf2
          obtain ⟨p1, p2⟩ := S_error_persists m _ (p ++ avail.take (bufSize - c.buf.length)) (avail.drop (bufSize - c.buf.length)) (Nat.le_refl _) hflag'
          rw [hsplit]
          refine ⟨?_, ?_, fun _ => rfl⟩
          · rw [p1, hres]
          · intro h; rw [p2] at h; cases h
        | false =>
          simp only [Bool.false_eq_true, if_false]
          rw [hsplit]
          apply ih
          · have : avail.length ≠ 0 := by intro h; exact ha (List.eq_nil_of_length_eq_zero h)
            simp; omega
          · refine ⟨?_, ?_, ?_⟩
            · rw [hres]
            · intro _; exact ⟨hnone, by rw [hres]⟩
            · intro h; rw [hres] at h; simp only [] at h; rw [hf2] at h; cases h

theorem foldl_after (m bufSize : Nat) (hb : m + 4 ≤ bufSize) :
    ∀ (chunks : List Bytes) (c : Conn) (p : Bytes), After m c p →
      After m (chunks.foldl (fun c ch => recv m bufSize (ch.length + 1) c ch) c) (p ++ chunks.flatten) := by
  intro chunks
  induction chunks with
  | nil => intro c p h; simpa using h
  | cons ch chs ih =>
    intro c p h
    simp only [List.foldl_cons, List.flatten_cons]
    rw [← List.append_assoc]
    exact ih _ _ (recv_after m bufSize hb _ c ch p (Nat.lt_succ_self _) h)

theorem after_init (m : Nat) : After m {} [] := by
  rw [After, S_unfold m []]; simp


theorem S_frames (m : Nat) (bodies : List Bytes) (hm : ∀ b ∈ bodies, b.length ≤ m) (h32 : ∀ b ∈ bodies, b.length < 2 ^ 32) :
    S m (catMap frame bodies) = (bodies, [], false) := by
  induction bodies with
  | nil => rw [S_unfold]; simp [catMap]
  | cons b bs ih =>
    have hb := hm b (by simp)
    have hb32 := h32 b (by simp)
    have ih' := ih (fun x hx => hm x (by simp [hx])) (fun x hx => h32 x (by simp [hx]))
    rw [S_unfold]
    simp only [catMap, frame, List.append_assoc]
    have t4 : (le 4 b.length ++ (b ++ catMap frame bs)).take 4 = le 4 b.length := take_le_append 4 _ _
    have hv : rdLE (le 4 b.length) = b.length := rdLE_le_of_lt (by simpa using hb32)
    have e1 : ¬ (le 4 b.length ++ (b ++ catMap frame bs)).length < 4 := by simp [le_length]
    have e3 : ¬ (le 4 b.length ++ (b ++ catMap frame bs)).length < 4 + b.length := by simp [le_length]
    have e2 : ¬ b.length > m := by omega
    rw [t4, hv]
    simp only [e1, e2, e3, if_false]
    have d4 : (le 4 b.length ++ (b ++ catMap frame bs)).drop 4 = b ++ catMap frame bs := drop_le_append 4 _ _
    have dn : (le 4 b.length ++ (b ++ catMap frame bs)).drop (4 + b.length) = catMap frame bs := by
      rw [← List.drop_drop, d4, List.drop_left]
    rw [d4, dn, List.take_left]
    rw [ih']

end SH.Wire
