/-
  SH.Lemmas.Wire — helper lemmas for Props/C13: little-endian integers, TL strings/vectors, generic item readers.
-/
import SH.Model.Wire
namespace SH.Wire

theorem le_length (n v : Nat) : (le n v).length = n := by
  induction n generalizing v with
  | zero => rfl
  | succ n ih => simp [le, ih]

theorem rdLE_le (n v : Nat) : rdLE (le n v) = v % 256 ^ n := by
  induction n generalizing v with
  | zero => simp [le, rdLE, Nat.mod_one]
  | succ n ih =>
    simp only [le, rdLE, ih]
    rw [Nat.pow_succ, Nat.mul_comm (256 ^ n) 256, Nat.mod_mul]

theorem rdLE_le_of_lt {n v : Nat} (h : v < 256 ^ n) : rdLE (le n v) = v := by
  rw [rdLE_le, Nat.mod_eq_of_lt h]

theorem take_le_append (n v : Nat) (r : Bytes) : (le n v ++ r).take n = le n v := by
  rw [List.take_append_of_le_length (by simp [le_length])]; simp [List.take_of_length_le, le_length]

theorem drop_le_append (n v : Nat) (r : Bytes) : (le n v ++ r).drop n = r := by
  have := le_length n v
  rw [List.drop_append_of_le_length (by omega)]; simp [List.drop_of_length_le, this]

theorem zeros_length (n : Nat) : (zeros n).length = n := by simp [zeros]

theorem tlNat_enc {v : Nat} (h : v < 2 ^ 32) (r : Bytes) : tlNat (le 4 v ++ r) = .ok (v, r) := by
  unfold tlNat
  have hl : ¬ (le 4 v ++ r).length < 4 := by simp [le_length]
  rw [if_neg hl, take_le_append, drop_le_append, rdLE_le_of_lt (by simpa using h)]

theorem tlLong_enc {v : Nat} (h : v < 2 ^ 64) (r : Bytes) : tlLong (le 8 v ++ r) = .ok (v, r) := by
  unfold tlLong
  have hl : ¬ (le 8 v ++ r).length < 8 := by simp [le_length]
  rw [if_neg hl, take_le_append, drop_le_append, rdLE_le_of_lt (by simpa using h)]

theorem tlStrTail_enc (s r : Bytes) (p : Nat) :
    tlStrTail (s ++ zeros (tlPadLen p) ++ r) s.length p = .ok (s, r) := by
  unfold tlStrTail
  have h1 : ¬ (s ++ zeros (tlPadLen p) ++ r).length < s.length := by simp
  have h2 : ¬ (s ++ zeros (tlPadLen p) ++ r).length < s.length + tlPadLen p := by simp [zeros_length]
  rw [if_neg h1, if_neg h2]
  have h3 : (s ++ zeros (tlPadLen p) ++ r).drop s.length = zeros (tlPadLen p) ++ r := by
    rw [List.append_assoc, List.drop_left]
  have h4 : (zeros (tlPadLen p) ++ r).take (tlPadLen p) = zeros (tlPadLen p) := by
    rw [List.take_append_of_le_length (by simp [zeros_length])]; simp [List.take_of_length_le, zeros_length]
  have h5 : (zeros (tlPadLen p)).all (· == 0) = true := by simp [zeros]
  rw [h3, h4, h5, if_pos rfl]
  have h6 : (s ++ zeros (tlPadLen p) ++ r).take s.length = s := by
    rw [List.append_assoc, List.take_left]
  have h7 : (s ++ zeros (tlPadLen p) ++ r).drop (s.length + tlPadLen p) = r := by
    have : s.length + tlPadLen p = (s ++ zeros (tlPadLen p)).length := by simp [zeros_length]
    rw [this, List.drop_left]
  rw [h6, h7]

theorem tlString_enc (s r : Bytes) (h : s.length < 2 ^ 56) : tlString (tlEncString s ++ r) = .ok (s, r) := by
  unfold tlEncString
  by_cases h1 : s.length ≤ 253
  · rw [if_pos h1]
    show tlString (s.length :: (s ++ zeros (tlPadLen (s.length + 1)) ++ r)) = _
    unfold tlString
    simp only [if_pos h1]
    exact tlStrTail_enc s r _
  · rw [if_neg h1]
    by_cases h2 : s.length ≤ 2 ^ 24 - 1
    · rw [if_pos h2]
      show tlString (254 :: (le 3 s.length ++ (s ++ zeros (tlPadLen s.length) ++ r))) = _
      have hv : rdLE (le 3 s.length) = s.length := rdLE_le_of_lt (by simp; omega)
      have hl : ¬ (le 3 s.length ++ (s ++ zeros (tlPadLen s.length) ++ r)).length < 3 := by simp [le_length]
      simp only [tlString]
      rw [if_neg (by decide), if_pos trivial, if_neg hl, take_le_append, hv, if_neg h1, drop_le_append]
      exact tlStrTail_enc s r _
    · rw [if_neg h2]
      show tlString (255 :: (le 7 s.length ++ (s ++ zeros (tlPadLen s.length) ++ r))) = _
      have hv : rdLE (le 7 s.length) = s.length := rdLE_le_of_lt (by simpa using h)
      have hl : ¬ (le 7 s.length ++ (s ++ zeros (tlPadLen s.length) ++ r)).length < 7 := by simp [le_length]
      simp only [tlString]
      rw [if_neg (by decide), if_neg (by decide), if_neg hl, take_le_append, hv, if_neg h2, drop_le_append]
      exact tlStrTail_enc s r _

theorem catMap_cons {α : Type} (f : α → Bytes) (x : α) (xs : List α) : catMap f (x :: xs) = f x ++ catMap f xs := rfl

theorem catMap_length_ge {α : Type} (f : α → Bytes) (k : Nat) (xs : List α) (h : ∀ x ∈ xs, k ≤ (f x).length) :
    k * xs.length ≤ (catMap f xs).length := by
  induction xs with
  | nil => simp [catMap]
  | cons x xs ih =>
    have h1 := h x (by simp)
    have h2 := ih (fun y hy => h y (by simp [hy]))
    simp only [catMap, List.length_cons, List.length_append]
    rw [Nat.mul_succ]; omega

theorem readN_catMap {α : Type} (dec : Bytes → R α) (enc : α → Bytes) (xs : List α)
    (h : ∀ x ∈ xs, ∀ r, dec (enc x ++ r) = .ok (x, r)) (r : Bytes) :
    readN dec xs.length (catMap enc xs ++ r) = .ok (xs, r) := by
  induction xs with
  | nil => simp [readN, catMap]
  | cons x xs ih =>
    simp only [List.length_cons, catMap, List.append_assoc, readN]
    rw [h x (by simp)]
    simp only []
    rw [ih (fun y hy => h y (by simp [hy]))]

theorem tlVec_enc {α : Type} (dec : Bytes → R α) (enc : α → Bytes) (xs : List α) (hn : xs.length < 2 ^ 32)
    (h : ∀ x ∈ xs, ∀ r, dec (enc x ++ r) = .ok (x, r)) (h4 : ∀ x ∈ xs, 4 ≤ (enc x).length) (r : Bytes) :
    tlVec dec (tlEncVec enc xs ++ r) = .ok (xs, r) := by
  unfold tlVec tlEncVec
  rw [List.append_assoc, tlNat_enc hn]
  simp only []
  have := catMap_length_ge enc 4 xs h4
  have hl : ¬ (catMap enc xs ++ r).length < xs.length * 4 := by simp; omega
  rw [if_neg hl, readN_catMap dec enc xs h]

theorem tlOpt_enc {α : Type} (c : Bool) (dec : Bytes → R α) (enc : Bytes) (x dflt : α) (r : Bytes)
    (h1 : c = true → dec (enc ++ r) = .ok (x, r)) (h2 : c = false → x = dflt) :
    tlOpt c dec dflt ((if c then enc else []) ++ r) = .ok (x, r) := by
  cases c with
  | true => simp [tlOpt, h1]
  | false => simp [tlOpt, h2]

theorem tlEncString_length_ge (s : Bytes) : 4 ≤ (tlEncString s).length := by
  unfold tlEncString tlPadLen
  split
  · simp [zeros_length]; omega
  · split <;> simp [le_length, zeros_length] <;> omega

theorem tlTag_enc (t : Bytes × Bytes) (h1 : t.1.length < 2 ^ 56) (h2 : t.2.length < 2 ^ 56) (r : Bytes) :
    tlTag (tlEncString t.1 ++ tlEncString t.2 ++ r) = .ok (t, r) := by
  unfold tlTag
  rw [List.append_assoc, tlString_enc _ _ h1]
  simp only []
  rw [tlString_enc _ _ h2]

theorem tlPair_enc (p : Nat × Nat) (h1 : p.1 < 2 ^ 64) (h2 : p.2 < 2 ^ 64) (r : Bytes) :
    tlPair (le 8 p.1 ++ le 8 p.2 ++ r) = .ok (p, r) := by
  unfold tlPair
  rw [List.append_assoc, tlLong_enc h1]
  simp only []
  rw [tlLong_enc h2]

/-- a metric that a client can express in every format: sizes fit the length fields, numbers fit their width,
    optional fields that are absent from the mask hold their zero value -/
structure Metric.WF (m : Metric) : Prop where
  mask : m.mask < 2 ^ 32
  name : m.name.length < 2 ^ 32
  tagsLen : m.tags.length < 2 ^ 32
  tags : ∀ t ∈ m.tags, t.1.length < 2 ^ 32 ∧ t.2.length < 2 ^ 32
  counter : m.counter < 2 ^ 64
  counter0 : hasBit m.mask 0 = false → m.counter = 0
  ts : m.ts < 2 ^ 32
  ts0 : hasBit m.mask 4 = false → m.ts = 0
  valueLen : m.value.length < 2 ^ 32
  value : ∀ x ∈ m.value, x < 2 ^ 64
  value0 : hasBit m.mask 1 = false → m.value = []
  uniqueLen : m.unique.length < 2 ^ 32
  unique : ∀ x ∈ m.unique, x < 2 ^ 64
  unique0 : hasBit m.mask 2 = false → m.unique = []
  histLen : m.hist.length < 2 ^ 32
  hist : ∀ h ∈ m.hist, h.1 < 2 ^ 64 ∧ h.2 < 2 ^ 64
  hist0 : hasBit m.mask 3 = false → m.hist = []

theorem tlMetric_enc (m : Metric) (w : m.WF) (r : Bytes) : tlMetric (tlEncMetric m ++ r) = .ok (m, r) := by
  unfold tlMetric tlEncMetric
  simp only [List.append_assoc]
  rw [tlNat_enc w.mask]
  simp only [bind, Except.bind]
  rw [tlString_enc _ _ (by have := w.name; omega)]
  simp only []
  rw [tlVec_enc tlTag (fun t => tlEncString t.1 ++ tlEncString t.2) m.tags w.tagsLen
    (fun t ht r => tlTag_enc t (by have := (w.tags t ht).1; omega) (by have := (w.tags t ht).2; omega) r)
    (fun t _ => by have := tlEncString_length_ge t.1; simp; omega)]
  simp only []
  rw [tlOpt_enc (hasBit m.mask 0) tlLong (le 8 m.counter) m.counter 0 _ (fun _ => tlLong_enc w.counter _) w.counter0]
  simp only []
  rw [tlOpt_enc (hasBit m.mask 4) tlNat (le 4 m.ts) m.ts 0 _ (fun _ => tlNat_enc w.ts _) w.ts0]
  simp only []
  rw [tlOpt_enc (hasBit m.mask 1) (tlVec tlLong) (tlEncVec (le 8) m.value) m.value [] _
    (fun _ => tlVec_enc tlLong (le 8) m.value w.valueLen (fun x hx r => tlLong_enc (w.value x hx) r) (fun x _ => by simp [le_length]) _) w.value0]
  simp only []
  rw [tlOpt_enc (hasBit m.mask 2) (tlVec tlLong) (tlEncVec (le 8) m.unique) m.unique [] _
    (fun _ => tlVec_enc tlLong (le 8) m.unique w.uniqueLen (fun x hx r => tlLong_enc (w.unique x hx) r) (fun x _ => by simp [le_length]) _) w.unique0]
  simp only []
  rw [tlOpt_enc (hasBit m.mask 3) (tlVec tlPair) (tlEncVec (fun h => le 8 h.1 ++ le 8 h.2) m.hist) m.hist [] r
    (fun _ => tlVec_enc tlPair (fun h => le 8 h.1 ++ le 8 h.2) m.hist w.histLen
      (fun h hh r => tlPair_enc h (w.hist h hh).1 (w.hist h hh).2 r) (fun x _ => by simp [le_length]) _) w.hist0]
  rfl

/-! ## readers only ever return a shorter rest (used for termination and the allocation bound) -/

/-- a reader only ever returns a (not longer) rest -/
def Mono {α : Type} (f : Bytes → R α) : Prop := ∀ b x r, f b = .ok (x, r) → r.length ≤ b.length
def Strict {α : Type} (f : Bytes → R α) : Prop := ∀ b x r, f b = .ok (x, r) → r.length < b.length

theorem Strict.mono {α : Type} {f : Bytes → R α} (h : Strict f) : Mono f := fun b x r e => Nat.le_of_lt (h b x r e)

theorem mpMapHdr_strict : Strict mpMapHdr := by
  intro b x r h
  unfold mpMapHdr at h
  split at h
  · simp at h
  · repeat' split at h
    all_goals simp at h
    all_goals (obtain ⟨_, rfl⟩ := h; simp; try omega)

theorem mpArrHdr_strict : Strict mpArrHdr := by
  intro b x r h
  unfold mpArrHdr at h
  split at h
  · simp at h
  · repeat' split at h
    all_goals simp at h
    all_goals (obtain ⟨_, rfl⟩ := h; simp; try omega)

theorem mpLenPayload_mono (n : Nat) : Mono (mpLenPayload n) := by
  intro b x r h
  unfold mpLenPayload at h
  repeat' split at h
  all_goals simp at h
  obtain ⟨_, rfl⟩ := h; simp; try omega

theorem mpStr_strict : Strict mpStr := by
  intro b x r h
  unfold mpStr at h
  split at h
  · simp at h
  · repeat' split at h
    all_goals (try simp at h)
    · obtain ⟨_, rfl⟩ := h; simp; omega
    all_goals (have := mpLenPayload_mono _ _ _ _ h; simp; omega)

theorem mpBin_strict : Strict mpBin := by
  intro b x r h
  unfold mpBin at h
  split at h
  · simp at h
  · repeat' split at h
    all_goals (try simp at h)
    all_goals (have := mpLenPayload_mono _ _ _ _ h; simp; omega)

theorem mpKey_strict : Strict mpKey := by
  intro b x r h
  unfold mpKey at h
  split at h
  · rename_i y hy; cases h; exact mpStr_strict _ _ _ hy
  · split at h
    · exact mpBin_strict _ _ _ h
    · simp at h
  · simp at h

theorem mpF64_strict : Strict mpF64 := by
  intro b x r h
  unfold mpF64 at h
  split at h
  · simp at h
  · repeat' split at h
    all_goals simp at h
    all_goals (obtain ⟨_, rfl⟩ := h; simp; try omega)

theorem mpFixed_mono (n : Nat) (g : Nat → Except Err Nat) : Mono (fun r => mpFixed n r g) := by
  intro b x r h
  simp only [mpFixed] at h
  repeat' split at h
  all_goals simp at h
  obtain ⟨_, rfl⟩ := h; simp

theorem mpU64_strict : Strict mpU64 := by
  intro b x r h
  unfold mpU64 at h
  split at h
  · simp at h
  · repeat' split at h
    all_goals (try simp at h)
    · obtain ⟨_, rfl⟩ := h; simp
    all_goals (have := mpFixed_mono _ _ _ _ _ h; simp; omega)

theorem mpU32_strict : Strict mpU32 := by
  intro b x r h
  unfold mpU32 at h
  split at h
  · simp at h
  · rename_i v r' hv
    split at h
    · simp at h
    · cases h; exact mpU64_strict _ _ _ hv

theorem mpI64_strict : Strict mpI64 := by
  intro b x r h
  unfold mpI64 at h
  split at h
  · simp at h
  · repeat' split at h
    all_goals (try simp at h)
    · obtain ⟨_, rfl⟩ := h; simp
    · obtain ⟨_, rfl⟩ := h; simp
    all_goals (have := mpFixed_mono _ _ _ _ _ h; simp; omega)

def MpSpec.pos : MpSpec → Bool
  | .fixed s _ => decide (1 ≤ s)
  | .ext s _ => decide (1 ≤ s)
  | .cont s _ _ => decide (1 ≤ s)
  | .invalid => true

set_option maxRecDepth 100000 in
theorem mpSpec_pos : ∀ l, l < 256 → (mpSpec l).pos = true := by decide

theorem mpGetSize_pos (b : Bytes) (sz asz : Nat) (h : mpGetSize b = .ok (sz, asz)) : 1 ≤ sz := by
  cases b with
  | nil => simp [mpGetSize] at h
  | cons lead r =>
    have hp := mpSpec_pos (lead % 256) (Nat.mod_lt _ (by decide))
    simp only [mpGetSize] at h
    cases hs : mpSpec (lead % 256) with
    | fixed s n => rw [hs] at h hp; simp [MpSpec.pos] at hp; simp at h; omega
    | ext s k => rw [hs] at h hp; simp [MpSpec.pos] at hp; simp at h; split at h <;> simp at h; omega
    | cont s k m => rw [hs] at h hp; simp [MpSpec.pos] at hp; simp at h; split at h <;> simp at h; omega
    | invalid => rw [hs] at h; simp at h

theorem mpGetSize_ne_fuel (b : Bytes) : mpGetSize b ≠ .error .fuel := by
  intro h
  cases b with
  | nil => simp [mpGetSize] at h
  | cons lead r =>
    simp only [mpGetSize] at h
    cases hs : mpSpec (lead % 256) <;> rw [hs] at h <;> simp at h <;> (try (split at h <;> simp at h))
theorem mpSkipN_mono : ∀ (f c : Nat) (b : Bytes) (d : Nat) (r : Bytes), mpSkipN f c b d = .ok r → r.length ≤ b.length := by
  intro f
  induction f with
  | zero =>
    intro c b d r h
    cases c with
    | zero => simp [mpSkipN] at h; subst h; exact Nat.le_refl _
    | succ c => simp [mpSkipN] at h
  | succ f ih =>
    intro c b d r h
    cases c with
    | zero => simp [mpSkipN] at h; subst h; exact Nat.le_refl _
    | succ c =>
      simp only [mpSkipN] at h
      split at h
      · simp at h
      · split at h
        · simp at h
        · split at h
          · simp at h
          · split at h
            · simp at h
            · rename_i b' hb'
              have h1 := ih _ _ _ _ hb'
              have h2 := ih _ _ _ _ h
              simp at h1; omega

/-- with more fuel than bytes the skip never runs out of fuel: every object takes at least one byte -/
theorem mpSkipN_fuel : ∀ (f c : Nat) (b : Bytes) (d : Nat), b.length < f → mpSkipN f c b d ≠ .error .fuel := by
  intro f
  induction f with
  | zero => intro c b d h; omega
  | succ f ih =>
    intro c b d hf
    cases c with
    | zero => simp [mpSkipN]
    | succ c =>
      simp only [mpSkipN]
      split
      · simp
      · split
        · rename_i e he
          intro h; cases h
          exact mpGetSize_ne_fuel _ he
        · rename_i sz asz hs
          have hp := mpGetSize_pos _ _ _ hs
          split
          · simp
          · rename_i hlen
            have hd : (b.drop sz).length < f := by simp; omega
            split
            · rename_i e he
              intro h; cases h
              exact ih _ _ _ hd he
            · rename_i b' hb'
              have := mpSkipN_mono _ _ _ _ _ hb'
              exact ih _ _ _ (by omega)

theorem readN_mono {α : Type} (f : Bytes → R α) (hf : Mono f) : ∀ n, Mono (readN f n) := by
  intro n
  induction n with
  | zero => intro b x r h; simp [readN] at h; obtain ⟨_, rfl⟩ := h; exact Nat.le_refl _
  | succ n ih =>
    intro b x r h
    simp only [readN] at h
    split at h
    · simp at h
    · rename_i y r1 h1
      split at h
      · simp at h
      · rename_i ys r2 h2
        simp at h; obtain ⟨_, rfl⟩ := h
        have := hf _ _ _ h1; have := ih _ _ _ h2; omega

theorem mpTag_mono : Mono mpTag := by
  intro b x r h
  unfold mpTag at h
  split at h
  · simp at h
  · rename_i k r1 h1
    split at h
    · simp at h
    · rename_i v r2 h2
      simp at h; obtain ⟨_, rfl⟩ := h
      have := mpStr_strict _ _ _ h1; have := mpStr_strict _ _ _ h2; omega

theorem mpBucket_mono : Mono mpBucket := by
  intro b x r h
  unfold mpBucket at h
  split at h
  · simp at h
  · rename_i n r0 h0
    split at h
    · simp at h
    · split at h
      · simp at h
      · rename_i a r1 h1
        split at h
        · simp at h
        · rename_i c r2 h2
          simp at h; obtain ⟨_, rfl⟩ := h
          have := mpArrHdr_strict _ _ _ h0; have := mpF64_strict _ _ _ h1; have := mpF64_strict _ _ _ h2; omega

theorem mapR_ok {α β : Type} (x : R α) (f : α → β) (y : β) (r : Bytes) (h : mapR x f = .ok (y, r)) :
    ∃ a, x = .ok (a, r) ∧ y = f a := by
  cases x with
  | error e => simp [mapR] at h
  | ok p =>
    obtain ⟨a, r'⟩ := p
    simp [mapR] at h
    obtain ⟨rfl, rfl⟩ := h
    exact ⟨a, rfl, rfl⟩

/-- the fix: a collection header is accepted only if it promises no more elements than bytes are left -/
theorem mpColl_ok (v : Variant) (isMap : Bool) (b : Bytes) (n : Nat) (r : Bytes) (h : mpColl v isMap b = .ok (n, r)) :
    r.length < b.length ∧ (v.boundAlloc = true → n ≤ r.length) := by
  unfold mpColl at h
  split at h
  · simp at h
  · rename_i n' r' h'
    split at h
    · rename_i hc
      simp at h; obtain ⟨rfl, rfl⟩ := h
      constructor
      · cases isMap
        · exact mpArrHdr_strict _ _ _ h'
        · exact mpMapHdr_strict _ _ _ h'
      · intro hb; simp [mpCheckLen, hb] at hc; exact hc
    · simp at h

/-! ## MessagePack: allocation requests are bounded by the input (fixed variant) -/

/-- the decoder asked `make` for at most as many elements as the input has bytes, and returns a shorter rest -/
def MPR.Good {α : Type} (x : MPR α) (b : Bytes) : Prop :=
  x.alloc ≤ b.length ∧ ∀ y r, x.res = .ok (y, r) → r.length ≤ b.length

theorem MPR.good_of_res {α : Type} (res : R α) (b : Bytes) (h : ∀ y r, res = .ok (y, r) → r.length ≤ b.length) :
    MPR.Good ⟨0, res⟩ b := ⟨Nat.zero_le _, h⟩

theorem mapR_mono {α β : Type} (x : R α) (f : α → β) (b : Bytes) (h : ∀ y r, x = .ok (y, r) → r.length ≤ b.length) :
    ∀ y r, mapR x f = .ok (y, r) → r.length ≤ b.length := by
  intro y r e
  obtain ⟨a, ha, _⟩ := mapR_ok x f y r e
  exact h a r ha

theorem mpCollField_good {α : Type} (v : Variant) (hv : v.boundAlloc = true) (isMap : Bool) (item : Bytes → R α)
    (hi : Mono item) (b : Bytes) (upd : List α → Metric) : (mpCollField v isMap item b upd).Good b := by
  unfold mpCollField
  split
  · exact ⟨Nat.zero_le _, by intro y r h; simp at h⟩
  · rename_i n r hc
    obtain ⟨h1, h2⟩ := mpColl_ok v isMap b n r hc
    refine ⟨by have := h2 hv; simp; omega, ?_⟩
    apply mapR_mono
    intro y r' h
    have := readN_mono item hi n _ _ _ h
    omega

theorem mpSkip_mono (b r : Bytes) (h : mpSkip b = .ok r) : r.length ≤ b.length := mpSkipN_mono _ _ _ _ _ h

theorem mpField_good (v : Variant) (hv : v.boundAlloc = true) (m : Metric) (key b : Bytes) : (mpField v m key b).Good b := by
  unfold mpField
  split
  · exact MPR.good_of_res _ _ (mapR_mono _ _ _ (fun y r h => mpStr_strict.mono _ _ _ h))
  split
  · exact mpCollField_good v hv _ _ mpTag_mono _ _
  split
  · exact MPR.good_of_res _ _ (mapR_mono _ _ _ (fun y r h => mpF64_strict.mono _ _ _ h))
  split
  · exact MPR.good_of_res _ _ (mapR_mono _ _ _ (fun y r h => mpU32_strict.mono _ _ _ h))
  split
  · exact mpCollField_good v hv _ _ mpF64_strict.mono _ _
  split
  · exact mpCollField_good v hv _ _ mpI64_strict.mono _ _
  split
  · exact mpCollField_good v hv _ _ mpBucket_mono _ _
  · apply MPR.good_of_res
    intro y r h
    split at h
    · simp at h
    · rename_i r' hs; simp at h; obtain ⟨_, rfl⟩ := h; exact mpSkip_mono _ _ hs

theorem mpFields_good (v : Variant) (hv : v.boundAlloc = true) : ∀ (n : Nat) (m : Metric) (b : Bytes), (mpFields v n m b).Good b := by
  intro n
  induction n with
  | zero => intro m b; exact ⟨Nat.zero_le _, by intro y r h; simp [mpFields] at h; obtain ⟨_, rfl⟩ := h; exact Nat.le_refl _⟩
  | succ n ih =>
    intro m b
    simp only [mpFields]
    split
    · exact ⟨Nat.zero_le _, by intro y r h; simp at h⟩
    · rename_i k r hk
      have hks := mpKey_strict _ _ _ hk
      have hf := mpField_good v hv m k r
      split
      · rename_i a e he
        rw [he] at hf
        exact ⟨by have := hf.1; simp at this; simp; omega, by intro y r h; simp at h⟩
      · rename_i a m' r' he
        rw [he] at hf
        have hr' : r'.length ≤ r.length := hf.2 m' r' rfl
        have ht := ih m' r'
        refine ⟨?_, ?_⟩
        · have := hf.1; have := ht.1; simp at *; omega
        · intro y r2 h; have := ht.2 y r2 h; omega

theorem mpMetric_good (v : Variant) (hv : v.boundAlloc = true) (b : Bytes) : (mpMetric v b).Good b := by
  unfold mpMetric
  split
  · exact ⟨Nat.zero_le _, by intro y r h; simp at h⟩
  · rename_i n r hh
    have hs := mpMapHdr_strict _ _ _ hh
    have := mpFields_good v hv n {} r
    exact ⟨by have := this.1; omega, fun y r' h => by have := this.2 y r' h; omega⟩

theorem mpMetrics_good (v : Variant) (hv : v.boundAlloc = true) : ∀ (n : Nat) (b : Bytes), (mpMetrics v n b).Good b := by
  intro n
  induction n with
  | zero => intro b; exact ⟨Nat.zero_le _, by intro y r h; simp [mpMetrics] at h; obtain ⟨_, rfl⟩ := h; exact Nat.le_refl _⟩
  | succ n ih =>
    intro b
    simp only [mpMetrics]
    have hm := mpMetric_good v hv b
    split
    · rename_i a e he
      rw [he] at hm
      exact ⟨by have := hm.1; simpa using this, by intro y r h; simp at h⟩
    · rename_i a m r he
      rw [he] at hm
      have hr : r.length ≤ b.length := hm.2 m r rfl
      have ht := ih r
      refine ⟨by have := hm.1; have := ht.1; simp at *; omega, ?_⟩
      apply mapR_mono
      intro y r2 h; have := ht.2 y r2 h; omega

theorem mpBatchFields_good (v : Variant) (hv : v.boundAlloc = true) :
    ∀ (n : Nat) (ms : List Metric) (b : Bytes), (mpBatchFields v n ms b).Good b := by
  intro n
  induction n with
  | zero => intro ms b; exact ⟨Nat.zero_le _, by intro y r h; simp [mpBatchFields] at h; obtain ⟨_, rfl⟩ := h; exact Nat.le_refl _⟩
  | succ n ih =>
    intro ms b
    simp only [mpBatchFields]
    split
    · exact ⟨Nat.zero_le _, by intro y r h; simp at h⟩
    · rename_i k r hk
      have hks := mpKey_strict _ _ _ hk
      split
      · split
        · exact ⟨Nat.zero_le _, by intro y r h; simp at h⟩
        · rename_i cnt r1 hc
          obtain ⟨h1, h2⟩ := mpColl_ok v false r cnt r1 hc
          have h2 := h2 hv
          have hm := mpMetrics_good v hv cnt r1
          split
          · rename_i a e he
            rw [he] at hm
            exact ⟨by have := hm.1; simp at *; omega, by intro y r h; simp at h⟩
          · rename_i a ms' r2 he
            rw [he] at hm
            have hr2 : r2.length ≤ r1.length := hm.2 ms' r2 rfl
            have ht := ih ms' r2
            refine ⟨by have := hm.1; have := ht.1; simp at *; omega, ?_⟩
            intro y r3 h; have := ht.2 y r3 h; omega
      · split
        · exact ⟨Nat.zero_le _, by intro y r h; simp at h⟩
        · rename_i r1 hs
          have := mpSkip_mono _ _ hs
          have ht := ih ms r1
          exact ⟨by have := ht.1; omega, fun y r3 h => by have := ht.2 y r3 h; omega⟩

/-- every element count the MessagePack decoder allocates for is bounded by the packet length, and a
    successful read consumes at least the header byte -/
theorem mpBatch_good (v : Variant) (hv : v.boundAlloc = true) (b : Bytes) :
    (mpBatch v b).alloc ≤ b.length ∧ ∀ y r, (mpBatch v b).res = .ok (y, r) → r.length < b.length := by
  unfold mpBatch
  split
  · exact ⟨Nat.zero_le _, by intro y r h; simp at h⟩
  · rename_i n r hh
    have hs := mpMapHdr_strict _ _ _ hh
    have := mpBatchFields_good v hv n [] r
    exact ⟨by have := this.1; omega, fun y r' h => by have := this.2 y r' h; omega⟩

/-! ## TL batch round trip, loop helpers -/

theorem tlEncMetric_length_ge (m : Metric) : 4 ≤ (tlEncMetric m).length := by
  unfold tlEncMetric
  simp only [List.length_append, le_length]; omega

theorem tlBatch_enc (ms : List Metric) (hn : ms.length < 2 ^ 32) (hw : ∀ m ∈ ms, m.WF) (r : Bytes) :
    tlBatch (tlEncBatch ms ++ r) = .ok (ms, r) := by
  unfold tlBatch tlEncBatch
  simp only [List.append_assoc]
  have hl : ¬ (le 4 tlBatchTag ++ (le 4 0 ++ (tlEncVec tlEncMetric ms ++ r))).length < 4 := by simp [le_length]
  rw [if_neg hl, take_le_append, drop_le_append, rdLE_le_of_lt (by decide)]
  simp only [ne_eq, not_true_eq_false, if_false]
  rw [tlNat_enc (by decide)]
  simp only []
  exact tlVec_enc tlMetric tlEncMetric ms hn (fun m hm r => tlMetric_enc m (hw m hm) r) (fun m _ => tlEncMetric_length_ge m) r

theorem batchLoop_one (dec : Bytes → MPR (List Metric)) (fmt : Fmt) (pkt : Bytes) (ms : List Metric) (a n : Nat)
    (hne : pkt ≠ []) (h : dec pkt = ⟨a, .ok (ms, [])⟩) :
    batchLoop dec fmt (n + 2) pkt [] 0 = { fmt := fmt, delivered := ms, alloc := max 0 a } := by
  simp [batchLoop, hne, h]

theorem detect_tlEnc (ms : List Metric) : detect (tlEncBatch ms) = .tl := by
  have h : (tlEncBatch ms).take 4 = tlPrefix := by
    unfold tlEncBatch; rw [List.append_assoc, take_le_append]; decide
  have hne : tlEncBatch ms ≠ [] := by
    intro h0; rw [h0] at h; exact absurd h (by decide)
  simp [detect, hne, h]

theorem batchLoop_alloc (dec : Bytes → MPR (List Metric)) (fmt : Fmt) (L : Nat)
    (hd : ∀ b, (dec b).alloc ≤ b.length ∧ ∀ y r, (dec b).res = .ok (y, r) → r.length < b.length) :
    ∀ (f : Nat) (pkt : Bytes) (acc : List Metric) (a : Nat), a ≤ L → pkt.length ≤ L →
      (batchLoop dec fmt f pkt acc a).alloc ≤ L := by
  intro f
  induction f with
  | zero => intro pkt acc a ha _; simpa [batchLoop] using ha
  | succ f ih =>
    intro pkt acc a ha hp
    simp only [batchLoop]
    split
    · simpa using ha
    · have h := hd pkt
      split
      · rename_i a' e he
        rw [he] at h
        have := h.1; simp at this; simp; omega
      · rename_i a' ms rest he
        rw [he] at h
        have h1 := h.1; simp at h1
        have h2 := h.2 ms rest rfl
        exact ih rest _ _ (by omega) (by omega)

/-- the loop `for len(pkt) > 0` itself never runs out of fuel when every successful read consumes input:
    a `fuel` error can only have been handed up by the decoder -/
theorem batchLoop_fuel (dec : Bytes → MPR (List Metric)) (fmt : Fmt)
    (hd : ∀ b y r, (dec b).res = .ok (y, r) → r.length < b.length)
    (hn : ∀ b, (dec b).res ≠ .error .fuel) :
    ∀ (f : Nat) (pkt : Bytes) (acc : List Metric) (a : Nat), pkt.length < f →
      (batchLoop dec fmt f pkt acc a).err ≠ some .fuel := by
  intro f
  induction f with
  | zero => intro pkt acc a h; omega
  | succ f ih =>
    intro pkt acc a hp
    simp only [batchLoop]
    split
    · simp
    · split
      · rename_i a' e he
        have := hn pkt; rw [he] at this
        simp; intro h; subst h; exact this rfl
      · rename_i a' ms rest he
        have := hd pkt ms rest (by rw [he])
        exact ih rest _ _ (by omega)

theorem batchLoop_fmt (dec : Bytes → MPR (List Metric)) (fmt : Fmt) :
    ∀ (f : Nat) (pkt : Bytes) (acc : List Metric) (a : Nat), (batchLoop dec fmt f pkt acc a).fmt = fmt := by
  intro f
  induction f with
  | zero => intro pkt acc a; rfl
  | succ f ih =>
    intro pkt acc a
    simp only [batchLoop]
    split
    · rfl
    · split
      · rfl
      · exact ih _ _ _

theorem batchLoop_alloc_zero (dec : Bytes → MPR (List Metric)) (fmt : Fmt) (hd : ∀ b, (dec b).alloc = 0) :
    ∀ (f : Nat) (pkt : Bytes) (acc : List Metric), (batchLoop dec fmt f pkt acc 0).alloc = 0 := by
  intro f
  induction f with
  | zero => intro pkt acc; rfl
  | succ f ih =>
    intro pkt acc
    simp only [batchLoop]
    split
    · rfl
    · have h := hd pkt
      split
      · rename_i a' e he; rw [he] at h; simp at h; simp [h]
      · rename_i a' ms rest he; rw [he] at h; simp at h; subst h; exact ih _ _

/-- the loop `for len(pkt) > 0` itself never runs out of fuel when every successful read consumes input:
    a `fuel` error can only have been handed up by the decoder -/
theorem batchLoop_fuel_origin (dec : Bytes → MPR (List Metric)) (fmt : Fmt)
    (hd : ∀ b y r, (dec b).res = .ok (y, r) → r.length < b.length) :
    ∀ (f : Nat) (pkt : Bytes) (acc : List Metric) (a : Nat), pkt.length < f →
      (batchLoop dec fmt f pkt acc a).err = some .fuel → ∃ b, (dec b).res = .error .fuel := by
  intro f
  induction f with
  | zero => intro pkt acc a h; omega
  | succ f ih =>
    intro pkt acc a hp
    simp only [batchLoop]
    split
    · simp
    · split
      · rename_i a' e he
        intro h; simp at h; subst h
        exact ⟨pkt, by rw [he]⟩
      · rename_i a' ms rest he
        have := hd pkt ms rest (by rw [he])
        exact ih rest _ _ (by omega)

end SH.Wire
