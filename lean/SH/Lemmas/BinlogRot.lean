/-
  SH.Lemmas.BinlogRot — reader steps stated on a position/crc/rest view of the state (`At`), without the 50 MB
  "big uncommitted tail" side condition, for every record kind the writer produces; used by the rotation, truncation and
  resume theorems of Props/C18.
-/
import SH.Lemmas.Binlog
open SH.Binlog
namespace SH.C18

/-! ### the big-tail commit does not interfere -/

theorem bigTail_pre (s : RS) : bigTail (preCommit s) = false := by
  unfold preCommit
  by_cases h : bigTail s = true
  · simp only [h, if_true]
    unfold RS.commit
    split
    · rename_i hc; simp [bigTail, hc, uncommittedMax]
    · simp [bigTail, uncommittedMax]
  · have h' : bigTail s = false := by simpa using h
    rw [if_neg h]; exact h'

theorem preCommit_idem (s : RS) : preCommit (preCommit s) = preCommit s := by
  generalize hq : preCommit s = q
  have hb : bigTail q = false := hq ▸ bigTail_pre s
  unfold preCommit; simp [hb]

theorem readStep_pre (cfg : Cfg) (s : RS) : readStep cfg s = readStep cfg (preCommit s) := by
  simp only [readStep, preCommit_idem]

/-- the reader is at global position `pos` with running checksum `crc`, `rest` is what remains of the file, the engine's own
    offset agrees, and `slack` is what `readFile` computed (all consumptions are multiples of 4) -/
structure At (s : RS) (pos : Nat) (crc : UInt32) (rest : Bytes) : Prop where
  hpos : s.pos = (pos : Int)
  hcrc : s.crc = crc
  hrest : s.rest = rest
  hoff : s.eng.off = (pos : Int)
  hdk : s.dk = false
  hslack : s.slack = rest.length % 4

theorem At.pre {s : RS} {p : Nat} {c : UInt32} {r : Bytes} (h : At s p c r) : At (preCommit s) p c r :=
  ⟨by simpa using h.hpos, by simpa using h.hcrc, by simpa using h.hrest, by simpa using h.hoff, by simpa using h.hdk,
   by simpa using h.hslack⟩

/-- event record -/
theorem step_event (cfg : Cfg) (hm : cfg.evMagic < 4294967296) (hsvc : cfg.evMagic ∉ serviceMagics) (s : RS) (p : Nat) (c : UInt32)
    (b R : Bytes) (hb : b.length < 4294967296) (h : At s p c (padded (encEvent cfg.evMagic b) ++ R)) :
    ∃ s', readStep cfg s = .cont s' ∧ At s' (p + pad4 (8 + b.length)) (cfg.upd c (padded (encEvent cfg.evMagic b))) R ∧
      s'.eng.evs = ((p : Int), encEvent cfg.evMagic b) :: s.eng.evs := by
  have hp := h.pre
  have hsl : (preCommit s).slack ≤ R.length := by
    rw [hp.hslack]; simp only [List.length_append, padded_length, encEvent_length]
    have := pad4_mod (8 + b.length); omega
  have st := readStep_event cfg (preCommit s) b R hm (kindOf_user hsvc) hb hp.hrest hp.hdk (by rw [hp.hoff, hp.hpos]) (bigTail_pre s) hsl
  refine ⟨_, by rw [readStep_pre]; exact st, ⟨?_, ?_, rfl, ?_, rfl, ?_⟩, ?_⟩
  · simp [afterEvent, h.hpos]
  · simp [afterEvent, h.hcrc]
  · simp [afterEvent, h.hoff]
  · simp only [afterEvent, pre_slack, h.hslack, List.length_append, padded_length, encEvent_length]
    have := pad4_mod (8 + b.length); omega
  · simp [afterEvent, h.hoff]

/-- crc record carrying the running checksum -/
theorem step_crc (cfg : Cfg) (s : RS) (p : Nat) (c : UInt32) (ts q : Nat) (R : Bytes) (hts : ts < 4294967296)
    (h : At s p c (encCrc ts q c ++ R)) :
    ∃ s', readStep cfg s = .cont s' ∧ At s' (p + 20) (cfg.upd c (encCrc ts q c)) R ∧ s'.eng.evs = s.eng.evs := by
  have hp := h.pre
  have st := readStep_crcRec cfg (preCommit s) ts q R hts (by rw [hp.hrest, hp.hcrc]) (by rw [hp.hoff, hp.hpos]) (bigTail_pre s)
  refine ⟨_, by rw [readStep_pre]; exact st, ⟨?_, ?_, rfl, ?_, rfl, ?_⟩, ?_⟩
  · simp [afterCrc, h.hpos]
  · simp [afterCrc, h.hcrc]
  · simp [afterCrc, h.hoff]
  · simp only [afterCrc, pre_slack, h.hslack, List.length_append, encCrc_length]; omega
  · simp [afterCrc]


@[simp] theorem encRotTo_length (ts np : Nat) (c : UInt32) (a b : Nat) : (encRotTo ts np c a b).length = 36 := by simp [encRotTo]
@[simp] theorem encRotFrom_length (ts np : Nat) (c : UInt32) (a b : Nat) : (encRotFrom ts np c a b).length = 36 := by simp [encRotFrom]

theorem rd32_rotTo (ts np : Nat) (c : UInt32) (a b : Nat) (R : Bytes) : rd32 (encRotTo ts np c a b ++ R) = magicRotTo := by
  simp only [encRotTo, List.append_assoc]; exact rd32_le32 _ (by decide) _

theorem rd32_rotFrom (ts np : Nat) (c : UInt32) (a b : Nat) (R : Bytes) : rd32 (encRotFrom ts np c a b ++ R) = magicRotFrom := by
  simp only [encRotFrom, List.append_assoc]; exact rd32_le32 _ (by decide) _

theorem rd64_le64 (x : Nat) (h : x < 18446744073709551616) (t : Bytes) : rd64 (le64 x ++ t) = x := by
  unfold rd64 le64
  have h1 : rd32 (le32 (x % 4294967296) ++ le32 (x / 4294967296 % 4294967296) ++ t) = x % 4294967296 := by
    rw [List.append_assoc]; exact rd32_le32 _ (by omega) _
  have h2 : rd32 ((le32 (x % 4294967296) ++ le32 (x / 4294967296 % 4294967296) ++ t).drop 4) = x / 4294967296 % 4294967296 := by
    have : (le32 (x % 4294967296) ++ le32 (x / 4294967296 % 4294967296) ++ t).drop 4 = le32 (x / 4294967296 % 4294967296) ++ t := by
      simp [le32]
    rw [this]; exact rd32_le32 _ (by omega) _
  rw [h1, h2]; omega

/-- what `scanHeader` makes of a file that starts with a ROTATE_FROM record -/
def hdrOf (d : Bytes) : Hdr :=
  { pos := s64 (rd64 (d.drop 8)), crc := UInt32.ofNat (rd32 (d.drop 16)), ts := rd32 (d.drop 4), curHash := rd64 (d.drop 28), data := d }

theorem hdrOf_rotFrom (ts np : Nat) (c : UInt32) (a b : Nat) (R : Bytes) (hnp : np < 9223372036854775808) :
    (hdrOf (encRotFrom ts np c a b ++ R)).pos = (np : Int) ∧ (hdrOf (encRotFrom ts np c a b ++ R)).crc = c ∧
    (hdrOf (encRotFrom ts np c a b ++ R)).data = encRotFrom ts np c a b ++ R := by
  refine ⟨?_, ?_, rfl⟩
  · simp only [hdrOf, encRotFrom, List.append_assoc]
    have : (le32 magicRotFrom ++ (le32 ts ++ (le64 np ++ (le32 c.toNat ++ (le64 a ++ (le64 b ++ R)))))).drop 8
        = le64 np ++ (le32 c.toNat ++ (le64 a ++ (le64 b ++ R))) := by simp [le32]
    rw [this, rd64_le64 _ (by omega)]
    simp [s64, hnp]
  · simp only [hdrOf, encRotFrom, List.append_assoc]
    have : (le32 magicRotFrom ++ (le32 ts ++ (le64 np ++ (le32 c.toNat ++ (le64 a ++ (le64 b ++ R)))))).drop 16
        = le32 c.toNat ++ (le64 a ++ (le64 b ++ R)) := by simp [le32, le64]
    rw [this, rd32_le32 _ (UInt32.toNat_lt c)]
    simp

theorem scanHeader_rotFrom (cfg : Cfg) (ts np : Nat) (c : UInt32) (a b : Nat) (R : Bytes) :
    scanHeader cfg (encRotFrom ts np c a b ++ R) = .ok (hdrOf (encRotFrom ts np c a b ++ R)) := by
  have h4 : atLeast (encRotFrom ts np c a b ++ R) 4 = true := by rw [atLeast_iff]; simp; omega
  have h36 : atLeast (encRotFrom ts np c a b ++ R) levRotateSize = true := by rw [atLeast_iff]; simp [levRotateSize]
  have hne : (encRotFrom ts np c a b ++ R).isEmpty = false := by simp [encRotFrom, le32]
  have hm1 : magicRotFrom ≠ magicStart := by decide
  simp [scanHeader, hne, h4, h36, rd32_rotFrom, hm1, hdrOf]

/-- ROTATE_TO: the file is finished, Skip was called, position and checksum stay in front of the record -/
theorem step_rotTo (cfg : Cfg) (s : RS) (p : Nat) (c : UInt32) (ts np : Nat) (c' : UInt32) (a b : Nat) (R : Bytes)
    (h : At s p c (encRotTo ts np c' a b ++ R)) :
    ∃ s', readStep cfg s = .rotated s' ∧ s'.eng.off = ((p + 36 : Nat) : Int) ∧ s'.eng.evs = s.eng.evs ∧ s'.pos = (p : Int) ∧ s'.crc = c := by
  have hp := h.pre
  have h4 : atLeast (preCommit s).rest 4 = true := by rw [atLeast_iff, hp.hrest]; simp; omega
  have h36 : atLeast (preCommit s).rest levRotateSize = true := by rw [atLeast_iff, hp.hrest]; simp [levRotateSize]
  have hk : kindOf (rd32 (preCommit s).rest) = .rotTo := by rw [hp.hrest, rd32_rotTo]; decide
  have hoff : (preCommit s).eng.off + (levRotateSize : Nat) = (preCommit s).pos + (levRotateSize : Nat) := by rw [hp.hoff, hp.hpos]
  refine ⟨{ preCommit s with eng := { (preCommit s).eng with off := (preCommit s).eng.off + levRotateSize }, dk := false }, ?_, ?_, ?_, ?_, ?_⟩
  · simp only [readStep, h4, Bool.not_true, Bool.false_eq_true, if_false, hk, stepKind, stepRotTo, h36, if_true]
    simp [h.hoff, h.hpos]
  · simp [h.hoff, levRotateSize]
  · simp
  · simpa using h.hpos
  · simpa using h.hcrc

/-- ROTATE_FROM at the head of a file -/
theorem step_rotFrom (cfg : Cfg) (s : RS) (p : Nat) (c : UInt32) (ts np : Nat) (c' : UInt32) (a b : Nat) (R : Bytes)
    (h : At s p c (encRotFrom ts np c' a b ++ R)) :
    ∃ s', readStep cfg s = .cont s' ∧ At s' (p + 36) (cfg.upd c (encRotFrom ts np c' a b)) R ∧ s'.eng.evs = s.eng.evs := by
  have hp := h.pre
  have h4 : atLeast (preCommit s).rest 4 = true := by rw [atLeast_iff, hp.hrest]; simp; omega
  have h36 : atLeast (preCommit s).rest levRotateSize = true := by rw [atLeast_iff, hp.hrest]; simp [levRotateSize]
  have hk : kindOf (rd32 (preCommit s).rest) = .rotFrom := by rw [hp.hrest, rd32_rotFrom]; decide
  have t1 : (preCommit s).rest.take 36 = encRotFrom ts np c' a b := by rw [hp.hrest]; exact List.take_left' (by simp)
  have t2 : (preCommit s).rest.drop 36 = R := by rw [hp.hrest]; exact List.drop_left' (by simp)
  let e1 : Eng := { (preCommit s).eng with off := (preCommit s).pos + (36 : Nat) }
  let s1 : RS := { preCommit s with ts := rd32 ((preCommit s).rest.drop 4), dk := false, eng := e1 }
  refine ⟨RS.advance cfg s1 36, ?_, ?_, ?_⟩
  · have h36' : atLeast (preCommit s).rest 36 = true := h36
    have hoffeq : (preCommit s).eng.off + ((36 : Nat) : Int) = (preCommit s).pos + ((36 : Nat) : Int) := by rw [hp.hoff, hp.hpos]
    simp only [readStep, h4, Bool.not_true, Bool.false_eq_true, if_false, hk, stepKind, stepRotFrom, levRotateSize, h36', if_true,
      skipLev, ne_eq, hoffeq, not_true_eq_false]
    rfl
  · refine ⟨?_, ?_, ?_, ?_, rfl, ?_⟩
    · simp [s1, RS.advance, h.hpos]
    · simp only [s1, RS.advance, t1, hp.hcrc]
    · simp only [s1, RS.advance, t2]
    · simp [s1, e1, RS.advance, h.hpos]
    · simp only [s1, RS.advance, pre_slack, h.hslack, List.length_append, encRotFrom_length]; omega
  · simp [s1, e1, RS.advance]

end SH.C18
