/-
  SH.Lemmas.DiskCacheBytes — byte-level facts about the record format of internal/agent/disk_cache.go
  (first round of C09; moved here unchanged so that SH.Lemmas.DiskCacheInv can build on them).
-/
import SH.Model.DiskCache

namespace SH.C09
open SH.DiskCache

theorem le_length (k n : Nat) : (le k n).length = k := by
  induction k generalizing n with
  | zero => rfl
  | succ k ih => simp [le, ih]

theorem unle_le (k n : Nat) (h : n < 256 ^ k) : unle (le k n) = n := by
  induction k generalizing n with
  | zero => simp at h; subst h; rfl
  | succ k ih =>
    have h2 : n / 256 < 256 ^ k := by
      rw [Nat.pow_succ] at h
      exact Nat.div_lt_of_lt_mul (by rw [Nat.mul_comm]; exact h)
    simp only [le, unle, ih _ h2]
    have : (UInt8.ofNat (n % 256)).toNat = n % 256 := by
      simp
    rw [this]; omega

theorem unle_take_append (k n : Nat) (rest : Bytes) (h : n < 256 ^ k) : unle ((le k n ++ rest).take k) = n := by
  have : (le k n ++ rest).take k = le k n := by
    rw [List.take_append_of_le_length (by simp [le_length])]
    rw [List.take_of_length_le (by simp [le_length])]
  rw [this, unle_le k n h]


theorem drop_le_append (k n : Nat) (rest : Bytes) : (le k n ++ rest).drop k = rest := by
  have := le_length k n
  exact List.drop_left' this

theorem encHeader_length (m t sz c : Nat) : (encHeader m t sz c).length = 20 := by
  simp [encHeader, le_length]

theorem parseHdr_enc (m t sz c : Nat)
    (hm : m < 2 ^ 32) (ht : t < 2 ^ 32) (hs : sz < 2 ^ 64) (hc : c < 2 ^ 32) :
    parseHdr (encHeader m t sz c) = some ⟨m, t, sz, c⟩ := by
  have p32 : (2:Nat) ^ 32 = 256 ^ 4 := by decide
  have p64 : (2:Nat) ^ 64 = 256 ^ 8 := by decide
  rw [p32] at hm ht hc; rw [p64] at hs
  unfold parseHdr
  rw [if_neg (by simp [encHeader_length, headerSize])]
  have d4 : (encHeader m t sz c).drop 4 = le 4 t ++ (le 8 sz ++ le 4 c) := drop_le_append 4 m _
  have d8 : (encHeader m t sz c).drop 8 = le 8 sz ++ le 4 c := by
    rw [show (8:Nat) = 4 + 4 from rfl, ← List.drop_drop, d4, drop_le_append]
  have d16 : (encHeader m t sz c).drop 16 = le 4 c := by
    rw [show (16:Nat) = 8 + 8 from rfl, ← List.drop_drop, d8, drop_le_append]
  rw [d4, d8, d16]
  have e0 : unle ((encHeader m t sz c).take 4) = m := unle_take_append 4 m _ hm
  have e3 : unle ((le 4 c).take 4) = c := by
    have := unle_take_append 4 c [] hc
    simpa using this
  rw [e0, unle_take_append 4 t _ ht, unle_take_append 8 sz _ hs, e3]

theorem readHdr_at (pre rest : Bytes) (m t sz c : Nat)
    (hm : m < 2 ^ 32) (ht : t < 2 ^ 32) (hs : sz < 2 ^ 64) (hc : c < 2 ^ 32) :
    readHdr (pre ++ (encHeader m t sz c ++ rest)) pre.length = some ⟨m, t, sz, c⟩ := by
  have e1 : ((pre ++ (encHeader m t sz c ++ rest)).drop pre.length).take headerSize = encHeader m t sz c := by
    rw [List.drop_left]
    rw [List.take_append_of_le_length (by simp [encHeader_length, headerSize])]
    rw [List.take_of_length_le (by simp [encHeader_length, headerSize])]
  unfold readHdr
  rw [e1, parseHdr_enc m t sz c hm ht hs hc]


/-! ### records on disk -/

structure Rec where
  deleted : Bool
  time : Nat
  body : Bytes
deriving DecidableEq, Repr

def Rec.magic (r : Rec) : Nat := if r.deleted then magicDeleted else magicGood
def hdrOf (cfg : Cfg) (r : Rec) : Hdr := ⟨r.magic, r.time, r.body.length, cfg.crc r.body⟩
def encRec (cfg : Cfg) (r : Rec) : Bytes := encHeader r.magic r.time r.body.length (cfg.crc r.body) ++ r.body
def encAll (cfg : Cfg) : List Rec → Bytes
  | [] => []
  | r :: rs => encRec cfg r ++ encAll cfg rs
def RecWF (cfg : Cfg) (r : Rec) : Prop := r.time < 2 ^ 32 ∧ r.body.length ≤ maxChunkSize ∧ cfg.crc r.body < 2 ^ 32

instance (cfg : Cfg) (r : Rec) : Decidable (RecWF cfg r) := by unfold RecWF; infer_instance

theorem encRec_length (cfg : Cfg) (r : Rec) : (encRec cfg r).length = headerSize + r.body.length := by
  simp [encRec, encHeader_length, headerSize]

theorem magic_lt (r : Rec) : r.magic < 2 ^ 32 := by
  unfold Rec.magic; split <;> decide

theorem isDeleted_good (cfg : Cfg) : isDeletedMagic cfg magicGood = false := by
  unfold isDeletedMagic; cases cfg.tornEraseOk <;> decide

theorem isDeleted_deleted (cfg : Cfg) : isDeletedMagic cfg magicDeleted = true := by
  unfold isDeletedMagic; cases cfg.tornEraseOk <;> decide

/-- one loop iteration at a record boundary: a deleted record is skipped, a good one is returned with exactly
    the header fields that were written, and the cursor lands on the next boundary -/
theorem look_at_rec (cfg : Cfg) (pre rest : Bytes) (r : Rec) (size : Nat) (hw : RecWF cfg r)
    (hsz : pre.length + (headerSize + r.body.length) ≤ size) :
    look cfg (pre ++ (encRec cfg r ++ rest)) size pre.length =
      if r.deleted then .skip (pre.length + headerSize + r.body.length)
      else .good (hdrOf cfg r) (pre.length + headerSize + r.body.length) := by
  obtain ⟨ht, hb, hc⟩ := hw
  have hs64 : r.body.length < 2 ^ 64 := by
    have : maxChunkSize < 2 ^ 64 := by decide
    omega
  unfold look
  have e : pre ++ (encRec cfg r ++ rest) = pre ++ (encHeader r.magic r.time r.body.length (cfg.crc r.body) ++ (r.body ++ rest)) := by
    simp [encRec]
  rw [e, readHdr_at pre _ _ _ _ _ (magic_lt r) ht hs64 hc]
  have hbad : badChunk ⟨r.magic, r.time, r.body.length, cfg.crc r.body⟩ size pre.length = false := by
    simp [badChunk]; omega
  simp only [hbad]
  cases hd : r.deleted
  · simp [Rec.magic, hd, isDeleted_good, hdrOf]
  · simp [Rec.magic, hd, isDeleted_deleted]

/-- a strict, non-empty prefix of a record at the end of the file stops the scan (short header or chunk beyond the file) -/
theorem look_torn (cfg : Cfg) (pre : Bytes) (r : Rec) (k : Nat) (hw : RecWF cfg r)
    (hk : k < headerSize + r.body.length) :
    look cfg (pre ++ (encRec cfg r).take k) (pre ++ (encRec cfg r).take k).length pre.length = .stop := by
  obtain ⟨ht, hb, hc⟩ := hw
  have hs64 : r.body.length < 2 ^ 64 := by
    have : maxChunkSize < 2 ^ 64 := by decide
    omega
  unfold look
  by_cases h20 : k < headerSize
  · have : readHdr (pre ++ (encRec cfg r).take k) pre.length = none := by
      unfold readHdr parseHdr
      rw [List.drop_left]
      have : ((encRec cfg r).take k).length < headerSize := by
        simp [List.length_take]; omega
      rw [if_pos (by simp [List.length_take] at this ⊢; omega)]
    rw [this]
  · have hk20 : headerSize ≤ k := by omega
    have e : (encRec cfg r).take k = encHeader r.magic r.time r.body.length (cfg.crc r.body) ++ r.body.take (k - headerSize) := by
      unfold encRec
      rw [List.take_append, encHeader_length]
      rw [List.take_of_length_le (by simp [encHeader_length, headerSize] at hk20 ⊢; omega)]
      rfl
    rw [e, readHdr_at pre _ _ _ _ _ (magic_lt r) ht hs64 hc]
    have hbad : badChunk ⟨r.magic, r.time, r.body.length, cfg.crc r.body⟩
        (pre ++ (encHeader r.magic r.time r.body.length (cfg.crc r.body) ++ r.body.take (k - headerSize))).length pre.length = true := by
      simp [badChunk, encHeader_length, List.length_take, headerSize] at hk hk20 ⊢
      omega
    simp only [hbad, if_true]


/-- the decisions of the `ReadNextTailSecond` loop on one file, as a pure function: positions and headers of the
    seconds it hands out, from `pos` on (`fuel` = loop iterations) -/
def scan (cfg : Cfg) : Nat → Bytes → Nat → Nat → List (Nat × Hdr)
  | 0, _, _, _ => []
  | fuel + 1, f, size, pos =>
    if pos ≥ size then []
    else match look cfg f size pos with
      | .stop => []
      | .skip nx => scan cfg fuel f size nx
      | .good h nx => (pos, h) :: scan cfg fuel f size nx

/-- what has to come back: the records that are not erased, with their positions, in write order -/
def goodList (cfg : Cfg) : Nat → List Rec → List (Nat × Hdr)
  | _, [] => []
  | off, r :: rs =>
    (if r.deleted then [] else [(off, hdrOf cfg r)]) ++ goodList cfg (off + headerSize + r.body.length) rs

theorem scan_succ (cfg : Cfg) (fuel : Nat) (f : Bytes) (size pos : Nat) :
    scan cfg (fuel + 1) f size pos =
      if pos ≥ size then []
      else match look cfg f size pos with
        | .stop => []
        | .skip nx => scan cfg fuel f size nx
        | .good h nx => (pos, h) :: scan cfg fuel f size nx := rfl

theorem encAll_length_cons (cfg : Cfg) (r : Rec) (rs : List Rec) :
    (encAll cfg (r :: rs)).length = headerSize + r.body.length + (encAll cfg rs).length := by
  simp [encAll, encRec_length]

theorem scan_records (cfg : Cfg) (rs : List Rec) : ∀ (pre tl : Bytes) (e size : Nat),
    (∀ r ∈ rs, RecWF cfg r) → pre.length + (encAll cfg rs).length ≤ size →
    scan cfg (rs.length + e) (pre ++ (encAll cfg rs ++ tl)) size pre.length =
      goodList cfg pre.length rs ++ scan cfg e (pre ++ (encAll cfg rs ++ tl)) size (pre.length + (encAll cfg rs).length) := by
  induction rs with
  | nil => intro pre tl e size _ _; simp [goodList, encAll]
  | cons r rs ih =>
    intro pre tl e size hw hsz
    have hr : RecWF cfg r := hw r (by simp)
    have hrs : ∀ q ∈ rs, RecWF cfg q := fun q hq => hw q (by simp [hq])
    rw [encAll_length_cons] at hsz
    have e1 : pre ++ (encAll cfg (r :: rs) ++ tl) = pre ++ (encRec cfg r ++ (encAll cfg rs ++ tl)) := by
      simp [encAll]
    have e2 : pre ++ (encAll cfg (r :: rs) ++ tl) = (pre ++ encRec cfg r) ++ (encAll cfg rs ++ tl) := by
      simp [encAll]
    have hl : (pre ++ encRec cfg r).length = pre.length + headerSize + r.body.length := by
      simp [encRec_length]; omega
    have hlook := look_at_rec cfg pre (encAll cfg rs ++ tl) r size hr (by omega)
    have ih' := ih (pre ++ encRec cfg r) tl e size hrs (by rw [hl]; omega)
    rw [hl] at ih'
    have hfuel : (r :: rs).length + e = (rs.length + e) + 1 := by simp; omega
    rw [hfuel]
    rw [scan_succ]
    rw [if_neg (by simp [headerSize] at hsz ⊢; omega)]
    rw [e1, hlook, ← e1, e2]
    cases hd : r.deleted
    · simp only [Bool.false_eq_true, if_false]
      rw [ih', goodList, encAll_length_cons]
      simp [hd, Nat.add_assoc]
    · simp only [if_true]
      rw [ih', goodList, encAll_length_cons]
      simp [hd, Nat.add_assoc]

/-- `scan_records` (C09, "re-reads exactly the seconds that were put and not erased, in write order"): scanning a file that
    is a sequence of well-formed records hands out exactly the non-erased ones, in order, with the written header fields. -/
theorem reread_after_restart_partial (cfg : Cfg) (rs : List Rec) (hw : ∀ r ∈ rs, RecWF cfg r) :
    scan cfg (rs.length + 1) (encAll cfg rs) (encAll cfg rs).length 0 = goodList cfg 0 rs := by
  have h := scan_records cfg rs [] [] 1 (encAll cfg rs).length hw (by simp)
  simp only [List.nil_append, List.append_nil, List.length_nil, Nat.zero_add] at h
  rw [h]
  simp [scan]

/-- `torn_tail` at byte level (C09, "a crash that tears the last write at any byte … only a second whose write was torn may
    be missing"): if the last record is cut at ANY byte offset `k` (0 ≤ k < its length) the scan returns exactly what it returns
    without that record — nothing else is lost, nothing spurious appears. -/
theorem torn_tail_partial (cfg : Cfg) (rs : List Rec) (r : Rec) (k : Nat) (hw : ∀ q ∈ rs, RecWF cfg q) (hr : RecWF cfg r)
    (hk : k < headerSize + r.body.length) :
    scan cfg (rs.length + 1) (encAll cfg rs ++ (encRec cfg r).take k) (encAll cfg rs ++ (encRec cfg r).take k).length 0
      = goodList cfg 0 rs := by
  have h := scan_records cfg rs [] ((encRec cfg r).take k) 1 (encAll cfg rs ++ (encRec cfg r).take k).length hw (by simp)
  simp only [List.nil_append, List.length_nil, Nat.zero_add] at h
  rw [h]
  have : scan cfg 1 (encAll cfg rs ++ (encRec cfg r).take k) (encAll cfg rs ++ (encRec cfg r).take k).length (encAll cfg rs).length = [] := by
    unfold scan
    by_cases hz : (encAll cfg rs).length ≥ (encAll cfg rs ++ (encRec cfg r).take k).length
    · rw [if_pos hz]
    · rw [if_neg hz, look_torn cfg (encAll cfg rs) r k hr hk]
  rw [this]; simp


/-! ### erase = overwrite the magic -/

/-- `eraseBucket` writes 4 bytes at the record's position: the record becomes a deleted record with the same
    length, every other byte of the file is untouched. -/
theorem erase_bytes (cfg : Cfg) (pre rest : Bytes) (r : Rec) :
    writeAt (pre ++ (encRec cfg r ++ rest)) pre.length (le 4 magicDeleted) =
      pre ++ (encRec cfg { r with deleted := true } ++ rest) := by
  unfold writeAt
  have h0 : pre.length - (pre ++ (encRec cfg r ++ rest)).length = 0 := by simp
  simp only [h0, List.replicate_zero, List.append_nil, le_length]
  rw [List.take_left, ← List.drop_drop, List.drop_left]
  have e : (encRec cfg r ++ rest).drop 4 = (le 4 r.time ++ (le 8 r.body.length ++ le 4 (cfg.crc r.body))) ++ r.body ++ rest := by
    have : encRec cfg r ++ rest = le 4 r.magic ++ ((le 4 r.time ++ (le 8 r.body.length ++ le 4 (cfg.crc r.body))) ++ r.body ++ rest) := by
      simp [encRec, encHeader]
    rw [this, drop_le_append]
  rw [e]
  simp [encRec, encHeader, Rec.magic]

/-- erasing record `r` inside a file of records yields the file of the same records with `r` marked deleted -/
theorem erase_encAll (cfg : Cfg) (rs1 rs2 : List Rec) (r : Rec) :
    writeAt (encAll cfg (rs1 ++ r :: rs2)) (encAll cfg rs1).length (le 4 magicDeleted) =
      encAll cfg (rs1 ++ { r with deleted := true } :: rs2) := by
  have app : ∀ (a b : List Rec), encAll cfg (a ++ b) = encAll cfg a ++ encAll cfg b := by
    intro a b
    induction a with
    | nil => simp [encAll]
    | cons x a ih => simp [encAll, ih]
  rw [app, app]
  simp only [encAll]
  exact erase_bytes cfg (encAll cfg rs1) (encAll cfg rs2) r

/-! ### GetBucket checks time, length and crc -/

/-- C09 "never returns … corrupted data", in the only form that is true (DESIGN §4.7): `GetBucket` hands out bytes `d`
    only for a known id with the requested time, and only if `d` are the bytes now on disk at the bucket's position,
    of the recorded length, whose crc equals the crc stored when the second was written / re-read. -/
theorem get_ok_checked (cfg : Cfg) (s s' : Shard) (id t : Nat) (d : Bytes) (h : DiskCache.get cfg s id t = (s', .ok d)) :
    ∃ b, findB s.known id = some b ∧ b.time = t ∧ d = readBody (fileBytes s.disk b.file) b ∧
      d.length = b.size ∧ cfg.crc d = b.crc ∧ s' = s := by
  unfold DiskCache.get at h
  split at h
  · simp at h
  · rename_i b hb
    refine ⟨b, hb, ?_⟩
    split at h
    · simp at h
    · rename_i ht
      dsimp only at h
      split at h
      · simp at h
      · rename_i hl
        split at h
        · simp at h
        · rename_i hc
          simp only [Prod.mk.injEq, GetRes.ok.injEq] at h
          obtain ⟨h1, h2⟩ := h
          subst h2
          refine ⟨by simpa using ht, rfl, ?_, by simpa using hc, h1.symm⟩
          have : (readBody (fileBytes s.disk b.file) b).length ≤ b.size := by
            simp [readBody, List.length_take]; omega
          omega


/-! ### the model's ReadNextTailSecond loop follows `scan` -/

theorem findO_name (os : List OFile) (name : Nat) (f : OFile) (h : findO os name = some f) : f.name = name := by
  unfold findO at h
  have := List.find?_some h
  simpa using this

theorem findO_mapO (os : List OFile) (name : Nat) (g : OFile → OFile) (f : OFile)
    (hg : ∀ x, (g x).name = x.name) (h : findO os name = some f) :
    findO (mapO os name g) name = some (g f) := by
  induction os with
  | nil => simp [findO] at h
  | cons a os ih =>
    unfold findO at h ih ⊢
    simp only [mapO, List.map_cons, List.find?_cons] at h ih ⊢
    by_cases ha : a.name == name
    · simp only [ha, if_true] at h ⊢
      have : (g a).name == name := by rw [hg]; exact ha
      simp only [this]
      simp at h; rw [h]
    · have ha' : (a.name == name) = false := Bool.eq_false_iff.mpr ha
      simp only [ha', Bool.false_eq_true, if_false] at h ⊢
      exact ih h

/-- The model's loop hands out the first element of `scan`: started on a reading file at its cursor, `readLoop` returns
    the first good record that `scan` finds from there — its time, a fresh id — and registers a bucket holding exactly
    that record's position, size and crc; the directory is untouched and the cursor sits behind the record. -/
theorem readLoop_head (cfg : Cfg) : ∀ (fuel : Nat) (s : Shard) (name : Nat) (f : OFile) (p : Nat) (h : Hdr) (rest : List (Nat × Hdr)),
    s.reading = some name → findO s.ofiles name = some f →
    scan cfg fuel (fileBytes s.disk name) f.size f.nextPos = (p, h) :: rest →
    ∃ s', readLoop cfg fuel s = (s', .got h.time (s.lastID + 1)) ∧
      s'.known = { id := s.lastID + 1, file := name, pos := p, time := h.time, size := h.size, crc := h.crc } :: s.known ∧
      s'.lastID = s.lastID + 1 ∧ s'.disk = s.disk ∧ s'.reading = some name ∧ s'.waiting = s.waiting ∧
      findO s'.ofiles name = some { f with nextPos := p + headerSize + h.size, refCount := f.refCount + 1 } := by
  intro fuel
  induction fuel with
  | zero => intro s name f p h rest _ _ hs; simp [scan] at hs
  | succ fuel ih =>
    intro s name f p h rest hr hf hs
    rw [scan_succ] at hs
    have hname := findO_name _ _ _ hf
    by_cases hge : f.nextPos ≥ f.size
    · rw [if_pos hge] at hs; simp at hs
    · rw [if_neg hge] at hs
      unfold readLoop
      simp only [hr, hf, if_neg hge]
      cases hl : look cfg (fileBytes s.disk name) f.size f.nextPos with
      | stop => simp [hl] at hs
      | skip nx =>
        simp only [hl] at hs ⊢
        have hf' : findO (setNextPos s name nx).ofiles name = some { f with nextPos := nx } :=
          findO_mapO s.ofiles name _ f (fun _ => rfl) hf
        obtain ⟨s', h1, h2, h3, h4, h5, h6, h7⟩ := ih (setNextPos s name nx) name { f with nextPos := nx } p h rest hr hf' hs
        exact ⟨s', h1, h2, h3, h4, h5, h6, h7⟩
      | good h0 nx =>
        simp only [hl] at hs ⊢
        simp only [List.cons.injEq, Prod.mk.injEq] at hs
        obtain ⟨⟨hp, hh⟩, _⟩ := hs
        subst hh
        have hnx : nx = p + headerSize + h0.size := by
          unfold look at hl
          split at hl
          · simp at hl
          · split at hl
            · simp at hl
            · split at hl
              · simp at hl
              · split at hl
                · simp at hl
                · simp at hl
                  obtain ⟨e1, e2⟩ := hl
                  subst e1
                  omega
        refine ⟨register s f h0 nx, rfl, ?_, rfl, rfl, hr, rfl, ?_⟩
        · simp [register, hname, hp]
        · have := findO_mapO s.ofiles name (fun g => { g with refCount := g.refCount + 1, nextPos := nx }) f (fun _ => rfl) hf
          simp only [register, hname]
          rw [this, hnx, hname]


/-! ### a crash that tears an erase (4-byte overwrite of the magic) -/

/-- the magic read back after the first `k` bytes of the erase reached the disk -/
def tornMagic (k : Nat) : Nat := unle ((le 4 magicDeleted).take k ++ (le 4 magicGood).drop k)

/-- 0,1,2 bytes: the record is still good (the erase did not happen); 4 bytes: erased; 3 bytes: a third magic -/
theorem torn_erase_magic :
    tornMagic 0 = magicGood ∧ tornMagic 1 = magicGood ∧ tornMagic 2 = magicGood ∧
    tornMagic 3 = magicTornDeleted ∧ tornMagic 4 = magicDeleted := by decide

/-- one loop iteration at a boundary where a header with an arbitrary magic `m` sits -/
theorem look_at_magic (cfg : Cfg) (pre body rest : Bytes) (m t c : Nat) (size : Nat)
    (hm : m < 2 ^ 32) (ht : t < 2 ^ 32) (hc : c < 2 ^ 32) (hb : body.length ≤ maxChunkSize)
    (hsz : pre.length + (headerSize + body.length) ≤ size) :
    look cfg (pre ++ (encHeader m t body.length c ++ (body ++ rest))) size pre.length =
      if isDeletedMagic cfg m then .skip (pre.length + headerSize + body.length)
      else if m != magicGood then .stop
      else .good ⟨m, t, body.length, c⟩ (pre.length + headerSize + body.length) := by
  have hs64 : body.length < 2 ^ 64 := by
    have : maxChunkSize < 2 ^ 64 := by decide
    omega
  unfold look
  rw [readHdr_at pre _ _ _ _ _ hm ht hs64 hc]
  have hbad : badChunk ⟨m, t, body.length, c⟩ size pre.length = false := by
    simp [badChunk]; omega
  simp only [hbad]
  simp

/-- THE CODE AS IT IS (`tornEraseOk = false`): the magic left by an erase torn after 3 bytes is "unknown", the scan of the
    file stops there — every later second of that file is not re-read although it was put, not erased and not torn. -/
theorem torn_erase3_stops (cfg : Cfg) (hv : cfg.tornEraseOk = false) (pre body rest : Bytes) (t c size : Nat)
    (ht : t < 2 ^ 32) (hc : c < 2 ^ 32) (hb : body.length ≤ maxChunkSize)
    (hsz : pre.length + (headerSize + body.length) ≤ size) :
    look cfg (pre ++ (encHeader magicTornDeleted t body.length c ++ (body ++ rest))) size pre.length = .stop := by
  rw [look_at_magic cfg pre body rest magicTornDeleted t c size (by decide) ht hc hb hsz]
  have h1 : isDeletedMagic cfg magicTornDeleted = false := by
    unfold isDeletedMagic; rw [hv]; decide
  have h2 : (magicTornDeleted != magicGood) = true := by decide
  simp [h1, h2]

/-- WITH THE PROPOSED FIX (`tornEraseOk = true`): that record is skipped like an erased one, the scan goes on -/
theorem torn_erase3_skipped_when_fixed (cfg : Cfg) (hv : cfg.tornEraseOk = true) (pre body rest : Bytes) (t c size : Nat)
    (ht : t < 2 ^ 32) (hc : c < 2 ^ 32) (hb : body.length ≤ maxChunkSize)
    (hsz : pre.length + (headerSize + body.length) ≤ size) :
    look cfg (pre ++ (encHeader magicTornDeleted t body.length c ++ (body ++ rest))) size pre.length =
      .skip (pre.length + headerSize + body.length) := by
  rw [look_at_magic cfg pre body rest magicTornDeleted t c size (by decide) ht hc hb hsz]
  have h1 : isDeletedMagic cfg magicTornDeleted = true := by
    unfold isDeletedMagic; rw [hv]; decide
  simp [h1]

/-! ### witnesses (non-vacuity; the defect of the unchanged code on a concrete directory) -/

def cfg0 : Cfg := { crc := fun b => b.length, tornEraseOk := false }
def cfgFixed : Cfg := { crc := fun b => b.length, tornEraseOk := true }
def rA : Rec := { deleted := false, time := 15, body := [1, 2] }
def rB : Rec := { deleted := true, time := 16, body := [] }
def rC : Rec := { deleted := false, time := 17, body := [9] }

example : ∀ r ∈ [rA, rB, rC], RecWF cfg0 r := by decide
example : scan cfg0 4 (encAll cfg0 [rA, rB, rC]) 63 0 = [(0, hdrOf cfg0 rA), (42, hdrOf cfg0 rC)] := by decide
-- every tear offset of the last record, concretely: the first record survives, nothing else appears
example : ∀ k < 21, scan cfg0 4 (encAll cfg0 [rA, rB] ++ (encRec cfg0 rC).take k) (42 + k) 0 = [(0, hdrOf cfg0 rA)] := by decide

/-- the full claim "only a second whose write was torn may be missing" is FALSE of the unchanged code when the torn write
    is an erase: erase of rA torn after 3 bytes; rC (put, not erased, not torn) is not re-read. -/
theorem torn_erase3_loses_later_second :
    scan cfg0 4 (writeAt (encAll cfg0 [rA, rC]) 0 ((le 4 magicDeleted).take 3)) 43 0 = [] ∧
    goodList cfg0 0 [{ rA with deleted := true }, rC] = [(22, hdrOf cfg0 rC)] := by decide

/-- same directory, reader with the fix: rC is re-read -/
theorem torn_erase3_fixed_keeps_later_second :
    scan cfgFixed 4 (writeAt (encAll cfgFixed [rA, rC]) 0 ((le 4 magicDeleted).take 3)) 43 0 = [(22, hdrOf cfgFixed rC)] := by decide

-- hypotheses of `readLoop_head` are satisfiable: a restarted shard that has opened its only file
def sDemo : Shard :=
  openNext (restart { disk := [{ name := 5, bytes := encAll cfg0 [rB, rC] }] }) { name := 5, size := 41 } []
example : sDemo.reading = some 5 ∧ findO sDemo.ofiles 5 = some { name := 5, nextPos := 0, size := 41, refCount := 1 } ∧
    scan cfg0 3 (fileBytes sDemo.disk 5) 41 0 = [(20, hdrOf cfg0 rC)] := by decide
example : (readLoop cfg0 3 sDemo).2 = .got 17 1 := by decide
-- GetBucket on the demo shard returns the body that was put
example : (DiskCache.get cfg0 (readLoop cfg0 3 sDemo).1 1 17).2 = .ok [9] := by decide


/-! ### accounting right after a restart -/

/-- "Reported total and unsent sizes match the files on disk" at the moment the cache is (re)started -/
theorem restart_accounting (s : Shard) :
    (restart s).total = sumSizes s.disk ∧ unsent (restart s) = sumSizes s.disk ∧ (restart s).known = [] := by
  simp [restart, unsent, readingRest]

example : sumSizes (restart { disk := [{ name := 5, bytes := encAll cfg0 [rB, rC] }] }).disk = 41 := by decide

end SH.C09
