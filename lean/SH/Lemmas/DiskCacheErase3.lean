import SH.Lemmas.DiskCacheDrop

namespace SH.C09
open SH.DiskCache

/-! ### EraseBucket: the invariant and the live sequence -/

def liveErase (k : Nat) (l : List LiveE) : List LiveE := l.filter (fun e => e.1 != some k)

theorem liveRecs_erase (cfg : Cfg) (k : Nat) (rs : List ARec) (hwf : ∀ q ∈ rs, q.id ≠ none → q.dead cfg = false) :
    liveRecs cfg (rs.map (eraseRec k)) = liveErase k (liveRecs cfg rs) := by
  induction rs with
  | nil => rfl
  | cons q rs ih =>
    have ih' := ih (fun x hx => hwf x (by simp [hx]))
    simp only [liveRecs, liveErase, List.map_cons, List.filter_cons] at ih' ⊢
    unfold eraseRec
    by_cases hq : q.id = some k
    · have hd : q.dead cfg = false := hwf q (by simp) (by rw [hq]; simp)
      have hde : ARec.dead cfg q.erased = true := isDeleted_deleted cfg
      simp only [hq, if_true, hde, hd, Bool.not_true, Bool.false_eq_true, if_false, Bool.not_false, List.map_cons, List.filter_cons]
      simp only [bne_self_eq_false, Bool.false_eq_true, if_false]
      exact ih'
    · simp only [hq, if_false]
      cases hd : q.dead cfg
      · simp only [Bool.not_false, if_true, List.map_cons, List.filter_cons]
        have : ((q.id, q.time, q.body).1 != some k) = true := by simp [hq]
        rw [this]; simp only [if_true]; exact congrArg ((q.id, q.time, q.body) :: ·) ih'
      · simp only [Bool.not_true, Bool.false_eq_true, if_false]; exact ih'

theorem flatMap_congr' {α β} (l : List α) (g1 g2 : α → List β) (h : ∀ x ∈ l, g1 x = g2 x) : l.flatMap g1 = l.flatMap g2 := by
  induction l with
  | nil => rfl
  | cons x l ih => simp [List.flatMap_cons, h x (by simp), ih (fun y hy => h y (by simp [hy]))]

theorem Abs.live_erase (cfg : Cfg) (a : Abs) (k : Nat) (hwf : ∀ f ∈ a.files, ∀ q ∈ f.recs, q.id ≠ none → q.dead cfg = false) :
    (a.eraseA k).live cfg = liveErase k (a.live cfg) := by
  unfold Abs.live
  rw [Abs.files_erase, List.flatMap_map]
  unfold liveErase
  rw [List.filter_flatMap]
  apply flatMap_congr'
  intro f hf
  exact liveRecs_erase cfg k f.recs (hwf f hf)

theorem rec_id_bucket (cfg : Cfg) (g : AFile) (q : ARec) (k : Nat) (hq : q ∈ g.recs) (hid : q.id = some k) :
    ∃ x ∈ fbuckets cfg g, x.id = k := by
  obtain ⟨p1, p2, hp⟩ := List.append_of_mem hq
  exact ⟨_, by unfold fbuckets; rw [hp]; exact bucketsAt_mem cfg g.name 0 p1 p2 q k hid, rfl⟩

theorem live_filter_files (cfg : Cfg) (n k : Nat) : ∀ (l : List AFile),
    (∀ g ∈ l, g.name ≠ n → liveErase k (fLive cfg g) = fLive cfg g) →
    (∀ g ∈ l, g.name = n → liveErase k (fLive cfg g) = []) →
    (l.filter (fun f => f.name != n)).flatMap (fLive cfg) = liveErase k (l.flatMap (fLive cfg)) := by
  intro l
  induction l with
  | nil => intro _ _; rfl
  | cons g l ih =>
    intro h1 h2
    have ih' := ih (fun x hx => h1 x (by simp [hx])) (fun x hx => h2 x (by simp [hx]))
    unfold liveErase at ih' h1 h2 ⊢
    by_cases hg : g.name = n
    · simp [List.filter_cons, hg, List.flatMap_cons, List.filter_append, h2 g (by simp) hg, ih']
    · simp [List.filter_cons, hg, List.flatMap_cons, List.filter_append, h1 g (by simp) hg, ih']


theorem live_entry_rec (cfg : Cfg) (g : AFile) (e : LiveE) (he : e ∈ fLive cfg g) :
    ∃ q ∈ g.recs, q.dead cfg = false ∧ e = (q.id, q.time, q.body) := by
  simp only [fLive, liveRecs, List.mem_map, List.mem_filter] at he
  obtain ⟨q, ⟨hq, hd⟩, rfl⟩ := he
  exact ⟨q, hq, by simpa using hd, rfl⟩

theorem liveErase_id_of (cfg : Cfg) (g : AFile) (k : Nat) (h : ∀ x ∈ fbuckets cfg g, x.id ≠ k) :
    liveErase k (fLive cfg g) = fLive cfg g := by
  apply filter_id_of
  intro e he
  obtain ⟨q, hq, _, rfl⟩ := live_entry_rec cfg g e he
  simp only [bne_iff_ne, ne_eq]
  intro hid
  obtain ⟨x, hx, hxk⟩ := rec_id_bucket cfg g q k hq hid
  exact h x hx hxk

theorem inv_erase_drop (cfg : Cfg) (s : Shard) (a : Abs) (b : Bucket) (o : OFile) (inv : Inv cfg s a)
    (hb : b ∈ a.buckets cfg) (ho : findO s.ofiles b.file = some o) (hz : o.refCount - 1 = 0) :
    ∃ a', Inv cfg (eraseKnown s b) a' ∧ a'.live cfg = liveErase b.id (a.live cfg) ∧ a'.lastID = a.lastID := by
  obtain ⟨f, hf, r1, r, r2, hrec, hrid, hbeq, hU2, hU1⟩ := inv.erase_ctx hb
  have hbf : b.file = f.name := by rw [hbeq]
  have hbp : b.pos = recsLen r1 := by rw [hbeq]
  have hbs : b.size = r.body.length := by rw [hbeq]
  rw [hbf] at ho
  have hinj : ∀ g ∈ a.files, g.name = f.name → g = f := fun g hg h => inv.name_inj hg hf h
  have hof := inv.ofiles f.name
  rw [ho] at hof
  obtain ⟨_, g0, hg0, hg0n, horc, _, hosz, _⟩ := hof
  have := hinj g0 hg0 hg0n; subst this
  have hbin : b ∈ fbuckets cfg g0 := by
    unfold fbuckets; rw [hrec, hbeq]
    have := bucketsAt_mem cfg g0.name 0 r1 r2 r b.id hrid
    simpa using this
  have hidc : idc g0.recs = (fbuckets cfg g0).length := idc_eq_len cfg g0.name 0 g0.recs
  have hlenpos : 0 < (fbuckets cfg g0).length := List.length_pos_of_mem hbin
  have hrefs1 : a.refs g0 = 1 := by omega
  have hidc1 : (fbuckets cfg g0).length = 1 ∧ a.rname ≠ some g0.name ∧ a.wname ≠ some g0.name := by
    unfold Abs.refs at hrefs1
    refine ⟨?_, ?_, ?_⟩
    · split at hrefs1 <;> split at hrefs1 <;> omega
    · intro h; rw [if_pos h] at hrefs1; split at hrefs1 <;> omega
    · intro h; rw [if_pos h] at hrefs1; split at hrefs1 <;> omega
  have hfb : fbuckets cfg g0 = [b] := by
    cases hl : fbuckets cfg g0 with
    | nil => rw [hl] at hbin; simp at hbin
    | cons x xs =>
      rw [hl] at hbin hidc1
      have : xs = [] := by
        have := hidc1.1; simp at this; exact this
      subst this; simp at hbin; rw [hbin]
  have hpn : g0 ∈ a.pre ++ a.new := by
    have := hf
    simp only [Abs.files, List.mem_append] at this ⊢
    rcases this with h | h | h | h
    · exact Or.inl h
    · exfalso
      unfold Abs.curL at h
      split at h
      · rename_i g j hc
        simp at h; subst h
        exact hidc1.2.1 (by simp [Abs.rname, hc])
      · simp at h
    · exfalso
      have := inv.waitIds g0 h r (by rw [hrec]; simp)
      rw [hrid] at this; simp at this
    · exact Or.inr h
  have hs : eraseKnown s b =
      { s with
        disk := (mapDisk s.disk g0.name (fun x => writeAt x (recsLen r1) (le 4 magicDeleted))).filter (fun g => g.name != g0.name)
        ofiles := s.ofiles.filter (fun g => g.name != g0.name)
        total := s.total - o.size
        knownSize := s.knownSize - (r.body.length + headerSize)
        known := s.known.filter (fun c => c.id != b.id) } := by
    simp [eraseKnown, unref, hbf, hbp, hbs, ho, hz]
  have hcore := inv_drop_core cfg s (eraseKnown s b) a g0 false b.id inv hpn (by simpa using hidc1.2.2)
    (by intro x hx; rw [hfb] at hx; simp at hx; rw [hx])
    (by
      intro g hg hgf x hx hxk
      obtain ⟨p1, q, p2, h1, h2, _⟩ := mem_bucketsAt cfg g.name x 0 g.recs hx
      exact hU1 g hg hgf q (by rw [h1]; simp) (by rw [h2, hxk]))
    (by rw [hs]; simp only; rw [mapDisk_filter])
    (by rw [hs]) (by rw [hs])
    (by rw [hs])
    (by rw [hs])
    (by rw [hs, hfb]; simp [bsize, hbs])
    (by rw [hs]) (by rw [hs]; simp) (by rw [hs]) (by rw [hs])
    (by rw [hs]; simp only; rw [hosz])
  refine ⟨_, hcore, ?_, rfl⟩
  -- the live sequence
  have hcurne : ∀ g j, a.cur = some (g, j) → g.name ≠ g0.name := by
    intro g j hc hn
    exact hidc1.2.1 (by simp [Abs.rname, hc, hn])
  have hwaitne : ∀ g ∈ a.wait, g.name ≠ g0.name := by
    intro g hg hn
    have := hinj g (by simp [Abs.files, hg]) hn; subst this
    have := inv.waitIds g hg r (by rw [hrec]; simp)
    rw [hrid] at this; simp at this
  unfold Abs.live
  rw [Abs.files_drop { a with writing := a.writing && !false } g0.name hcurne hwaitne]
  show (a.files.filter (fun f => f.name != g0.name)).flatMap (fLive cfg) = _
  apply live_filter_files
  · intro g hg hgn
    apply liveErase_id_of
    intro x hx hxk
    obtain ⟨p1, q, p2, h1, h2, _⟩ := mem_bucketsAt cfg g.name x 0 g.recs hx
    exact hU1 g hg (fun e => hgn (by rw [e])) q (by rw [h1]; simp) (by rw [h2, hxk])
  · intro g hg hgn
    have := hinj g hg hgn; subst this
    unfold liveErase
    rw [List.filter_eq_nil_iff]
    intro e he
    obtain ⟨q, hq, hqd, rfl⟩ := live_entry_rec cfg g e he
    -- q is read (g is in pre or new), not dead, so it has an id, which must be b.id
    have hur : unread cfg q = false := by
      rcases List.mem_append.mp hpn with h | h
      · exact inv.preRead g h q hq
      · exact inv.newRead g h q hq
    simp [unread, hqd, hasId] at hur
    cases hid : q.id with
    | none => rw [hid] at hur; simp at hur
    | some j =>
      obtain ⟨x, hx, hxj⟩ := rec_id_bucket cfg g q j hq hid
      rw [hfb] at hx; simp at hx; subst hx
      simp [hxj]


/-- EraseBucket refines "remove the second with this id from the live sequence" (a no-op for an unknown id) -/
theorem inv_erase (cfg : Cfg) (s : Shard) (a : Abs) (inv : Inv cfg s a) (id : Nat) :
    ∃ a', Inv cfg (erase s id) a' ∧ a'.live cfg = liveErase id (a.live cfg) ∧ a'.lastID = a.lastID := by
  unfold erase
  cases hfb : findB s.known id with
  | none =>
    refine ⟨a, inv, ?_, rfl⟩
    symm
    unfold Abs.live liveErase
    rw [List.filter_flatMap]
    have : ∀ g ∈ a.files, (fLive cfg g).filter (fun e => e.1 != some id) = fLive cfg g := by
      intro g hg
      apply liveErase_id_of
      intro x hx hxk
      have hxb : x ∈ a.buckets cfg := List.mem_flatMap.mpr ⟨g, hg, hx⟩
      have := inv.findB_of_mem hxb
      rw [hxk, hfb] at this; simp at this
    exact flatMap_congr' _ _ _ this
  | some b =>
    obtain ⟨hbk, hbid⟩ := findB_some hfb
    have hb := (inv.known b).mp hbk
    obtain ⟨f, hf, r1, r, r2, hrec, hrid, hbeq, _, _⟩ := inv.erase_ctx hb
    have hbf : b.file = f.name := by rw [hbeq]
    have hidcpos : 0 < idc f.recs := by
      rw [hrec]; simp [idc, List.filter_cons, hasId, hrid]; omega
    have hof := inv.ofiles f.name
    cases hfo : findO s.ofiles f.name with
    | none =>
      rw [hfo] at hof
      have := hof f hf rfl
      have h2 := Abs.refs_nonneg a f
      unfold Abs.refs at this
      split at this <;> split at this <;> omega
    | some o =>
      simp only
      subst hbid
      by_cases hz : o.refCount - 1 = 0
      · exact inv_erase_drop cfg s a b o inv hb (by rw [hbf]; exact hfo) hz
      · refine ⟨_, inv_erase_keep cfg s a b o inv hb (by rw [hbf]; exact hfo) hz, ?_, rfl⟩
        apply Abs.live_erase
        intro g hg q hq hqid
        exact ((inv.wf g hg).1 q hq).2.2.2.2.2 hqid

end SH.C09
