/-
  SH.Lemmas.PromLexStr — the string-literal lexer on `%q` bodies (moved here from SH.Props.C28 so that the whole-lexer step
  lemmas can use it; SH.Props.C28 restates the theorems under their original names).
-/
import SH.Model.PromLex
set_option linter.unusedSimpArgs false
namespace SH.PromLex.Str
open SH.PromLex

theorem renderQ_cons (i : QItem) (is : List QItem) : renderQ (i :: is) = i.render ++ renderQ is := by
  simp [renderQ]

theorem digitsVal2 (d1 d2 : Nat) (h1 : isHex d1 = true) (h2 : isHex d2 = true) : ∃ x, digitsVal 16 [d1, d2] = some x := by
  simp only [isHex, decide_eq_true_eq] at h1 h2
  simp [digitsVal, h1, h2]

/-- the lexer scans a `%q` body up to exactly its closing quote -/
theorem lexString_renderQ (items : List QItem) (hok : ∀ i ∈ items, i.ok = true) (rest : List Nat) :
    lexString cDq (renderQ items ++ cDq :: rest) = some (renderQ items, rest) := by
  induction items with
  | nil => simp only [renderQ, List.flatMap_nil, List.nil_append]; unfold lexString; simp [cDq, cBackslash, cNl]
  | cons i is ih =>
    have ih' := ih (fun j hj => hok j (by simp [hj]))
    have hi := hok i (by simp)
    rw [renderQ_cons]
    cases i with
    | plain c =>
      simp only [QItem.ok, Bool.and_eq_true, bne_iff_ne, ne_eq] at hi
      simp only [QItem.render, List.cons_append, List.nil_append]; unfold lexString
      simp [hi.1.1, hi.1.2, hi.2, ih']
    | short c =>
      simp only [QItem.ok] at hi
      simp only [QItem.render, List.cons_append, List.nil_append]; unfold lexString
      simp [hi, ih']
    | hex2 d1 d2 =>
      simp only [QItem.ok, Bool.and_eq_true] at hi
      obtain ⟨x, hx⟩ := digitsVal2 d1 d2 hi.1 hi.2
      have hs : isShortEsc cDq 120 = false := by decide
      simp only [QItem.render, List.cons_append, List.nil_append]; unfold lexString
      simp [hs, hx, ih']
    | u4 d1 d2 d3 d4 =>
      simp only [QItem.ok] at hi
      have hs : isShortEsc cDq 117 = false := by decide
      cases hx : digitsVal 16 [d1, d2, d3, d4] with
      | none => simp [hx] at hi
      | some x =>
        simp only [hx] at hi
        simp only [QItem.render, List.cons_append, List.nil_append]; unfold lexString
        simp [hs, hx, hi, ih']
    | u8 d1 d2 d3 d4 d5 d6 d7 d8 =>
      simp only [QItem.ok] at hi
      have hs : isShortEsc cDq 85 = false := by decide
      cases hx : digitsVal 16 [d1, d2, d3, d4, d5, d6, d7, d8] with
      | none => simp [hx] at hi
      | some x =>
        simp only [hx] at hi
        simp only [QItem.render, List.cons_append, List.nil_append]; unfold lexString
        simp [hs, hx, hi, ih']


/-- the STRING token the lexer cuts from printed text `"…"` followed by anything is the printed literal itself -/
theorem lexStringTok_quoted (items : List QItem) (hok : ∀ i ∈ items, i.ok = true) (rest : List Nat) :
    lexStringTok (cDq :: (renderQ items ++ cDq :: rest)) = some (cDq :: renderQ items ++ [cDq], rest) := by
  simp [lexStringTok, lexString_renderQ items hok rest]

end SH.PromLex.Str
