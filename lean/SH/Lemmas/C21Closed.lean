/-
  SH.Lemmas.C21Closed — C21, second round, target 1: the closed theorem.

  (a) Tight reduction form for damaged chunk files: for ANY byte string `b` not longer than a saved file, the reader returns
      a prefix of the saved chunks unless `b` itself `PassesFrom`: `b` agrees with the saved file on the first j chunks,
      does not continue with the saved chunk j, and the bytes that DO follow are accepted by the reader (structural checks
      and H(previous hash ‖ bytes read) = stored bytes).  The witness is the damaged file itself — unlike `HashCoincidence`
      of the first round, which any well-formed alternative chunk satisfies (see `hashCoincidence_trivial`).
  (b) A ghost-augmented run (state, image of the last file this cache saved) and the invariant `GInv`:
      exact accounting, every cached (string, value) was added, entries are well formed, the image is a well-formed encoding
      of entries that were added, and the file on disk is no longer than the image.
  (c) `closed_run`: the invariant holds after ANY legal op sequence, where legality asks only what the Go types give
      (uint32 times, int32 values, strings that fit into a chunk), that Save enumerates the map, and that every restart reads
      bytes that are not longer than the file on disk and do not `PassesFrom` the last saved image.
-/
import SH.Lemmas.C21Base

namespace SH.C21
open SH.Chunked hiding St
open SH.MapCache

/-! ## (a) arbitrary damage, tight reduction -/

/-- `b` = the first `j` saved chunks (chain starting at `prev`) ‖ `rest'`, where `rest'` does not start with the saved chunk
    `j` and yet the reader accepts a chunk from `rest'` -/
def PassesFrom (H : Bytes → Bytes) (magic : Nat) (prev : Bytes) (bodies : List Bytes) (b : Bytes) : Prop :=
  ∃ (j : Nat) (hj : j < bodies.length) (rest' : Bytes),
    b = encodeAll H magic prev (bodies.take j) ++ rest' ∧
    ¬ encChunk H magic (chain H magic prev (bodies.take j)) bodies[j] <+: rest' ∧
    ∃ body stored r, readNext H magic (chain H magic prev (bodies.take j)) rest' = .chunk body stored r

theorem passesFrom_cons {H : Bytes → Bytes} {magic : Nat} {prev body : Bytes} {bs : List Bytes} {b' : Bytes}
    (h : PassesFrom H magic (H (hashInput magic prev body)) bs b') :
    PassesFrom H magic prev (body :: bs) (encChunk H magic prev body ++ b') := by
  obtain ⟨j, hj, rest', h1, h2, h3⟩ := h
  refine ⟨j + 1, by simp; omega, rest', ?_, ?_, ?_⟩
  · simp only [List.take_succ_cons, encodeAll, List.append_assoc]; rw [h1]
  · simpa [chain] using h2
  · simpa [chain] using h3

/-- C21 (chunk files, tight reduction form, ARBITRARY damage): whatever bytes `b` (no longer than the saved file) the reader
    is given — truncated anywhere, any bytes changed, any combination, repeatedly — it returns a prefix of the saved chunks,
    or `b` itself passes the hash check on bytes that are not the saved chunk. -/
theorem damaged_prefix_or_passes {H : Bytes → Bytes} {magic : Nat} (P : Params H magic) (bodies : List Bytes)
    (hb : ∀ x ∈ bodies, x.length ≤ chunkSize) (prev b : Bytes)
    (hl : b.length ≤ (encodeAll H magic prev bodies).length) :
    (∃ k, k ≤ bodies.length ∧ (readAll H magic prev b).1 = bodies.take k) ∨ PassesFrom H magic prev bodies b := by
  induction bodies generalizing prev b with
  | nil =>
    left
    have : b = [] := by simpa [encodeAll] using hl
    subst this
    exact ⟨0, by simp, by simp [readAll_nil]⟩
  | cons body bs ih =>
    have hb0 : body.length ≤ chunkSize := hb body (by simp)
    have hbs : ∀ x ∈ bs, x.length ≤ chunkSize := fun x hx => hb x (by simp [hx])
    by_cases hp : encChunk H magic prev body <+: b
    · obtain ⟨b', rfl⟩ := hp
      have hl' : b'.length ≤ (encodeAll H magic (H (hashInput magic prev body)) bs).length := by
        simp only [encodeAll, List.length_append] at hl; omega
      rw [readAll_chunk (readNext_encChunk P prev body b' hb0)]
      rcases ih hbs (H (hashInput magic prev body)) b' hl' with ⟨k, hk, h⟩ | h
      · left; exact ⟨k + 1, by simp; omega, by simp [h]⟩
      · right; exact passesFrom_cons h
    · cases hr : readNext H magic prev b with
      | eof => left; exact ⟨0, by simp, by rw [readAll_eof hr]; simp⟩
      | err e => left; exact ⟨0, by simp, by rw [readAll_err hr]; simp⟩
      | chunk body' stored r =>
        right
        exact ⟨0, by simp, b, by simp [encodeAll], by simpa [chain] using hp, by simpa [chain] using ⟨body', stored, r, hr⟩⟩

/-- the first-round escape clause `HashCoincidence` is satisfied by ANY hash function as soon as one chunk is saved
    (take a different, correctly hashed chunk): it does not name the damaged bytes.  `PassesFrom` does. -/
theorem hashCoincidence_trivial {H : Bytes → Bytes} {magic : Nat} (P : Params H magic) (body : Bytes) (bs : List Bytes)
    (hb : body.length + 1 ≤ chunkSize) : HashCoincidence H magic (body :: bs) := by
  refine ⟨0, by simp, encChunk H magic zeroHash (0 :: body), ?_, ?_⟩
  · have h := readNext_encChunk P zeroHash (0 :: body) [] (by simpa using hb)
    have := (accepts_iff H magic zeroHash (encChunk H magic zeroHash (0 :: body) ++ [])).mp ⟨_, _, _, h⟩
    simpa [chain] using this.2.2.2.2.2
  · intro heq
    simp only [List.take_zero, chain, List.getElem_cons_zero] at heq
    have hx : bodySize (encChunk H magic zeroHash (0 :: body)) = body.length + 1 := by
      simpa using bodySize_encChunk (H := H) (magic := magic) zeroHash (0 :: body) [] (by simpa using hb)
    have hy : bodySize (encChunk H magic zeroHash body) = body.length := by
      simpa using bodySize_encChunk (H := H) (magic := magic) zeroHash body [] (by omega)
    have hpre := List.prefix_iff_eq_take.mp (part_stored_prefix (encChunk H magic zeroHash (0 :: body)))
    rw [heq] at hpre
    have hlen := encChunk_length H magic zeroHash body P.hlen
    have := congrArg bodySize hpre
    rw [bodySize_take _ _ (by omega), hx, hy] at this
    omega


/-! ## (b) entry-wise invariants and what each operation leaves alone -/

/-- every cached entry (string, value, access time) satisfies `R` -/
def AllEnt (R : Bytes × Entry → Prop) (s : St) : Prop := ∀ p ∈ s.cache, R p

theorem ent_addItem {R : Bytes × Entry → Prop} {s : St} {k : Bytes} {v : Int} {ts : Nat} (h : AllEnt R s)
    (hr : R (k, { val := v, ts := ts })) : AllEnt R (addItem s k v ts) := by
  intro p hp
  rcases mem_put hp with hp | hp
  · subst hp; exact hr
  · exact h p hp

theorem ent_removeItem {R : Bytes × Entry → Prop} {s : St} (k : Bytes) (ts : Nat) (h : AllEnt R s) :
    AllEnt R (removeItem s k ts) := fun p hp => h p (mem_erase hp).1

theorem ent_getValue {R : Bytes × Entry → Prop} {s : St} (ts : Nat) (k : Bytes) (h : AllEnt R s)
    (hr : ∀ e, (k, e) ∈ s.cache → R (k, { e with ts := ts })) : AllEnt R (getValue s ts k).1 := by
  unfold getValue
  split
  · exact h
  · rename_i e he
    split
    · exact h
    · intro p hp
      rcases mem_put hp with hp | hp
      · subst hp; exact hr e (find_some_mem he)
      · exact h p hp

theorem ent_addAll {R : Bytes × Entry → Prop} (v : Variant) (now : Nat) (s : St) (ps : List Pair) (h : AllEnt R s)
    (hr : ∀ p ∈ ps, R (p.1, { val := p.2, ts := now })) : AllEnt R (addAll v now s ps) := by
  induction ps generalizing s with
  | nil => exact h
  | cons p ps ih =>
    have hr' : ∀ q ∈ ps, R (q.1, { val := q.2, ts := now }) := fun q hq => hr q (List.mem_cons_of_mem _ hq)
    simp only [addAll]
    split
    · exact ih s h hr'
    · exact ih _ (ent_addItem h (hr p (by simp))) hr'

theorem ent_addFit {R : Bytes × Entry → Prop} (v : Variant) (now : Nat) (s : St) (ps : List Pair) (h : AllEnt R s)
    (hr : ∀ p ∈ ps, R (p.1, { val := p.2, ts := now })) : AllEnt R (addFit v now s ps) := by
  induction ps generalizing s with
  | nil => exact h
  | cons p ps ih =>
    have hr' : ∀ q ∈ ps, R (q.1, { val := q.2, ts := now }) := fun q hq => hr q (List.mem_cons_of_mem _ hq)
    simp only [addFit]
    split
    · exact ih s h hr'
    · split
      · exact h
      · exact ih _ (ent_addItem h (hr p (by simp))) hr'

theorem ent_evict {R : Bytes × Entry → Prop} (now : Nat) (ns : Int) (s : St) (ks : List Bytes) (h : AllEnt R s) :
    AllEnt R (evict now ns s ks) := by
  induction ks generalizing s with
  | nil => exact h
  | cons k ks ih =>
    simp only [evict]
    split
    · exact ih s h
    · split
      · exact h
      · split
        · exact h
        · exact ih _ (ent_removeItem _ _ h)

theorem ent_removeVisited {R : Bytes × Entry → Prop} (now : Nat) (s : St) (ks : List Bytes) (h : AllEnt R s) :
    AllEnt R (removeVisited now s ks) := by
  induction ks generalizing s with
  | nil => exact h
  | cons k ks ih =>
    simp only [removeVisited]
    split
    · exact ih s h
    · split
      · exact ih _ (ent_removeItem _ _ h)
      · exact ih s h

theorem ent_addValues {R : Bytes × Entry → Prop} (v : Variant) (s : St) (now : Nat) (pairs : List Pair) (cands : List Bytes)
    (h : AllEnt R s) (hr : ∀ p ∈ pairs, R (p.1, { val := p.2, ts := now })) : AllEnt R (addValues v s now pairs cands) := by
  have hps : ∀ p ∈ pairs.filter (acceptable s), R (p.1, { val := p.2, ts := now }) :=
    fun p hp => hr p (List.mem_filter.mp hp).1
  unfold addValues
  simp only
  split
  · exact h
  · split
    · exact ent_addAll v now s _ h hps
    · exact ent_addFit v now _ _ (ent_evict _ _ _ _ h) hps

theorem ent_foldl_loadInsert {R : Bytes × Entry → Prop} (items : Cache) (s : St) (h : AllEnt R s)
    (hr : ∀ it ∈ items, R it) : AllEnt R (items.foldl loadInsert s) := by
  induction items generalizing s with
  | nil => exact h
  | cons it items ih =>
    apply ih _ _ (fun x hx => hr x (List.mem_cons_of_mem _ hx))
    intro p hp
    unfold loadInsert at hp
    split at hp
    · exact h p hp
    · rcases mem_put hp with hp | hp
      · subst hp; exact hr _ (by simp)
      · exact h p hp

/-! the chunked storage is touched by Save and by a restart only -/

theorem store_addAll (v : Variant) (now : Nat) (s : St) (ps : List Pair) : (addAll v now s ps).store = s.store := by
  induction ps generalizing s with
  | nil => rfl
  | cons p ps ih => simp only [addAll]; split <;> simp [ih, addItem]

theorem store_addFit (v : Variant) (now : Nat) (s : St) (ps : List Pair) : (addFit v now s ps).store = s.store := by
  induction ps generalizing s with
  | nil => rfl
  | cons p ps ih =>
    simp only [addFit]
    split
    · exact ih s
    · split
      · rfl
      · simp [ih, addItem]

theorem store_evict (now : Nat) (ns : Int) (s : St) (ks : List Bytes) : (evict now ns s ks).store = s.store := by
  induction ks generalizing s with
  | nil => rfl
  | cons k ks ih =>
    simp only [evict]
    split
    · exact ih s
    · split
      · rfl
      · split
        · rfl
        · simp [ih, removeItem]

theorem store_removeVisited (now : Nat) (s : St) (ks : List Bytes) : (removeVisited now s ks).store = s.store := by
  induction ks generalizing s with
  | nil => rfl
  | cons k ks ih =>
    simp only [removeVisited]
    split
    · exact ih s
    · split
      · simp [ih, removeItem]
      · exact ih s

theorem store_addValues (v : Variant) (s : St) (now : Nat) (pairs : List Pair) (cands : List Bytes) :
    (addValues v s now pairs cands).store = s.store := by
  unfold addValues
  simp only
  split
  · rfl
  · split
    · simp [store_addAll]
    · simp [store_addFit, store_evict]

theorem store_getValue (s : St) (ts : Nat) (k : Bytes) : (getValue s ts k).1.store = s.store := by
  unfold getValue
  split
  · rfl
  · split <;> rfl

theorem store_foldl_loadInsert (items : Cache) (s : St) : (items.foldl loadInsert s).store = s.store := by
  induction items generalizing s with
  | nil => rfl
  | cons it items ih =>
    simp only [List.foldl_cons, ih]
    unfold loadInsert
    split <;> rfl


/-! ## (c) the ghost run and the closed theorem -/

/-- a well-formed entry that fits into half a chunk (chunked_storage2.go: "each individual item must be < chunkSize/2") -/
structure WFE (it : Bytes × Entry) : Prop where
  wf : WFItem it
  small : (encItem it).length ≤ halfChunk

theorem tlString_length_le (k : Bytes) : (tlString k).length ≤ k.length + 11 := by
  unfold tlString
  have := paddingLen_lt k.length
  have := paddingLen_lt (k.length + 1)
  simp only
  split
  · simp; omega
  · split <;> (simp [le_length]; omega)

theorem encItem_length (it : Bytes × Entry) : (encItem it).length = (tlString it.1).length + 8 := by
  simp [encItem, le_length]

/-- what the Go types and the documented item limit give -/
theorem wfe_of_bounds (k : Bytes) (v : Int) (ts : Nat) (hk : k.length ≤ 500000) (h1 : -2147483648 ≤ v)
    (h2 : v < 2147483648) (h3 : ts < 4294967296) : WFE (k, { val := v, ts := ts }) := by
  refine ⟨⟨by simp; omega, h1, h2, h3⟩, ?_⟩
  rw [encItem_length, halfChunk_val]
  have := tlString_length_le k
  simp only at this ⊢
  omega

theorem wfe_set_ts {k : Bytes} {e : Entry} (h : WFE (k, e)) (ts : Nat) (h3 : ts < 4294967296) :
    WFE (k, { e with ts := ts }) := by
  refine ⟨⟨h.wf.klen, h.wf.vlo, h.wf.vhi, h3⟩, ?_⟩
  have := h.small
  rw [encItem_length] at this ⊢
  exact this

/-- the invariant: `img` is the last file image this cache wrote with Save (empty before the first Save) -/
structure GInv (H : Bytes → Bytes) (A : List Pair) (s : St) (img : Bytes) : Prop where
  exact : Exact s
  good : AllGood (GoodVal A) s
  wf : AllEnt WFE s
  image : ∃ gs : List Cache, SavedAs H img gs ∧ ∀ g ∈ gs, ∀ it ∈ g, GoodVal A it.1 it.2.val ∧ WFE it
  len : s.store.file.length ≤ img.length

/-- legality of one operation in a ghost state: only what the Go types give, that Save enumerates the map, and that a restart
    reads bytes no longer than the file on disk which do not pass the hash check while differing from the saved image -/
def OpLegal (H : Bytes → Bytes) (s : St) (img : Bytes) : Op → Prop
  | .add now pairs _ =>
    now < 4294967296 ∧ ∀ p ∈ pairs, p.1.length ≤ 500000 ∧ -2147483648 ≤ p.2 ∧ p.2 < 2147483648
  | .get ts _ => ts < 4294967296
  | .save order => order.Perm s.cache
  | .reload dmg _ =>
    (dmg s.store.file).length ≤ s.store.file.length ∧
    ¬ PassesFrom H magicMappings zeroHash (readAll H magicMappings zeroHash img).1 (dmg s.store.file)
  | _ => True

def newImg (H : Bytes → Bytes) (s : St) (img : Bytes) : Op → Bytes
  | .save order => if dirty s then (save H s order).1.store.file else img
  | _ => img

def Legal (H : Bytes → Bytes) : St → Bytes → List Op → Prop
  | _, _, [] => True
  | s, img, op :: ops => OpLegal H s img op ∧ Legal H (step H .fixed s op) (newImg H s img op) ops

/-- the image after a run -/
def runImg (H : Bytes → Bytes) : St → Bytes → List Op → Bytes
  | _, img, [] => img
  | s, img, op :: ops => runImg H (step H .fixed s op) (newImg H s img op) ops

theorem savedAs_bodies {H : Bytes → Bytes} {img : Bytes} {gs : List Cache} (hs : SavedAs H img gs) :
    (readAll H magicMappings zeroHash img).1 = gs.map encGroup := by
  have hb : ∀ b ∈ gs.map encGroup, b.length ≤ chunkSize := by
    intro b hb; obtain ⟨g, hg, rfl⟩ := List.mem_map.mp hb; exact hs.small g hg
  have := read_write_roundtrip (mappings_params hs.hlen) (gs.map encGroup) hb
  rw [← hs.file_eq] at this
  rw [this]

/-- a restart from ANY bytes that are not longer than the image and do not pass while damaged loads whole saved entries only -/
theorem loadNew_damaged {H : Bytes → Bytes} {img : Bytes} {gs : List Cache} (hs : SavedAs H img gs) (b : Bytes) (m : Int)
    (hl : b.length ≤ img.length)
    (hnp : ¬ PassesFrom H magicMappings zeroHash (readAll H magicMappings zeroHash img).1 b) :
    ∃ k, k ≤ gs.length ∧ (loadNew H b m).1 = (gs.take k).flatten.foldl loadInsert (fresh b m) := by
  have P := mappings_params hs.hlen
  have hb : ∀ x ∈ gs.map encGroup, x.length ≤ chunkSize := by
    intro x hx; obtain ⟨g, hg, rfl⟩ := List.mem_map.mp hx; exact hs.small g hg
  rw [savedAs_bodies hs] at hnp
  have hl' : b.length ≤ (encodeAll H magicMappings zeroHash (gs.map encGroup)).length := by rw [← hs.file_eq]; exact hl
  rcases damaged_prefix_or_passes P (gs.map encGroup) hb zeroHash b hl' with ⟨k, hk, h⟩ | h
  · refine ⟨k, by simpa using hk, ?_⟩
    rw [← List.map_take] at h
    rw [loadNew_eq, h, loadChunks_groups _ _ (fun g hg => hs.nonempty g (List.mem_of_mem_take hg))
      (fun g hg => hs.wf g (List.mem_of_mem_take hg))]
  · exact absurd h hnp

theorem ginv_step {H : Bytes → Bytes} (hH : ∀ x, (H x).length = 16) (A : List Pair) (s : St) (img : Bytes) (op : Op)
    (h : GInv H A s img) (hl : OpLegal H s img op)
    (hA : ∀ now pairs cands, op = .add now pairs cands → ∀ p ∈ pairs, p ∈ A) :
    GInv H A (step H .fixed s op) (newImg H s img op) := by
  cases op with
  | add now pairs cands =>
    refine ⟨exact_step H s _ h.exact, ?_, ?_, h.image, ?_⟩
    · exact good_addValues .fixed s now pairs cands h.good (fun p hp h1 h2 => ⟨h1, h2, hA now pairs cands rfl p hp⟩)
    · exact ent_addValues .fixed s now pairs cands h.wf
        (fun p hp => wfe_of_bounds p.1 p.2 now (hl.2 p hp).1 (hl.2 p hp).2.1 (hl.2 p hp).2.2 hl.1)
    · simp only [step, newImg, store_addValues]; exact h.len
  | get ts k =>
    refine ⟨exact_step H s _ h.exact, good_getValue ts k h.good, ?_, h.image, ?_⟩
    · exact ent_getValue ts k h.wf (fun e he => wfe_set_ts (h.wf _ he) ts hl)
    · simp only [step, newImg, store_getValue]; exact h.len
  | ttl now visited =>
    refine ⟨exact_step H s _ h.exact, good_removeVisited now s visited h.good, ent_removeVisited now s visited h.wf, h.image, ?_⟩
    simp only [step, newImg, removeByTTL, store_removeVisited]; exact h.len
  | setSizeTTL a b => exact ⟨exact_step H s _ h.exact, h.good, h.wf, h.image, h.len⟩
  | stats => exact ⟨exact_step H s _ h.exact, h.good, h.wf, h.image, h.len⟩
  | save order =>
    have hc := save_cache H s order
    by_cases hd : dirty s = true
    · have hperm : order.Perm s.cache := hl
      obtain ⟨gs, hflat, hs⟩ := save_writes_encoding hH s order hd
        (fun it hi => (h.wf it (hperm.mem_iff.mp hi)).wf) (fun it hi => (h.wf it (hperm.mem_iff.mp hi)).small)
      refine ⟨exact_step H s _ h.exact, ?_, ?_, ?_, ?_⟩
      · intro p hp; simp only [step] at hp; rw [hc.1] at hp; exact h.good p hp
      · intro p hp; simp only [step] at hp; rw [hc.1] at hp; exact h.wf p hp
      · simp only [newImg, hd, if_true]
        refine ⟨gs, hs, ?_⟩
        intro g hg it hi
        have : it ∈ s.cache := hperm.mem_iff.mp (by rw [← hflat]; exact List.mem_flatten.mpr ⟨g, hg, hi⟩)
        exact ⟨h.good it this, h.wf it this⟩
      · simp only [step, newImg, hd, if_true]; exact Nat.le_refl _
    · have hs : (save H s order).1 = s := by unfold save; simp [hd]
      simp only [step, newImg, hd, hs]
      exact h
  | reload dmg m =>
    obtain ⟨gs, hs, hq⟩ := h.image
    obtain ⟨k, _, hk⟩ := loadNew_damaged hs (dmg s.store.file) m (Nat.le_trans hl.1 h.len) hl.2
    have hitems : ∀ it ∈ (gs.take k).flatten, GoodVal A it.1 it.2.val ∧ WFE it := by
      intro it hit
      obtain ⟨g, hg, hig⟩ := List.mem_flatten.mp hit
      exact hq g (List.mem_of_mem_take hg) it hig
    refine ⟨exact_step H s _ h.exact, ?_, ?_, ⟨gs, hs, hq⟩, ?_⟩
    · simp only [step]; rw [hk]
      exact good_foldl_loadInsert _ _ (by intro p hp; simp [fresh] at hp) (fun it hit => (hitems it hit).1)
    · simp only [step]; rw [hk]
      exact ent_foldl_loadInsert _ _ (by intro p hp; simp [fresh] at hp) (fun it hit => (hitems it hit).2)
    · simp only [step, newImg]; rw [hk, store_foldl_loadInsert]
      simp only [fresh, Chunked.new]
      exact Nat.le_trans hl.1 h.len

theorem ginv_run {H : Bytes → Bytes} (hH : ∀ x, (H x).length = 16) (A : List Pair) (ops : List Op) (s : St) (img : Bytes)
    (h : GInv H A s img) (hl : Legal H s img ops) (hA : ∀ p ∈ added ops, p ∈ A) :
    GInv H A (run H .fixed s ops) (runImg H s img ops) := by
  induction ops generalizing s img with
  | nil => exact h
  | cons op ops ih =>
    have hs := ginv_step hH A s img op h hl.1
      (by intro now pairs cands he p hp; subst he; exact hA p (by simp [added, hp]))
    have := ih _ _ hs hl.2 (by intro p hp; apply hA; cases op <;> simp [added, hp])
    simpa [run, runImg] using this

theorem ginv_init (H : Bytes → Bytes) (hH : ∀ x, (H x).length = 16) (A : List Pair) (m t : Int) : GInv H A (init m t) [] :=
  ⟨exact_empty _ _ _, by intro p hp; simp [init] at hp, by intro p hp; simp [init] at hp,
    ⟨[], ⟨hH, by simp [encodeAll], by simp, by simp, by simp⟩, by simp⟩, by simp [init, Chunked.new]⟩

/-- C21, THE CLOSED THEOREM.  Start with an empty cache over an empty file and run ANY sequence of AddValues / GetValue /
    RemoveByTTL / SetSizeTTL / Stats / Save / restart operations — any eviction candidates, visit orders and write orders,
    any number of restarts, each from a file that was damaged in any way that does not make it longer (cut at any offset, any
    bytes changed, repeatedly, with or without Saves in between) — where the only things assumed are the ranges of the Go
    types, that Save enumerates the map, and that no restart reads damaged bytes which pass the hash check (`PassesFrom`,
    the tight reduction form; it is never true for a pure truncation of the image, see `truncation_never_passes`).
    Then: accounting is exact, every cached entry is a (string, value) pair that was given to AddValues for exactly that
    string, with a non-empty string and a non-marker value (so GetValue can return nothing else), and the file on disk is
    a no-longer image of something this cache saved whose entries all were added. -/
theorem closed_run {H : Bytes → Bytes} (hH : ∀ x, (H x).length = 16) (m t : Int) (ops : List Op)
    (hl : Legal H (init m t) [] ops) :
    GInv H (added ops) (run H .fixed (init m t) ops) (runImg H (init m t) [] ops) :=
  ginv_run hH _ ops _ _ (ginv_init H hH _ m t) hl (fun _ hp => hp)

/-- the property sentence about GetValue, closed form -/
theorem closed_get {H : Bytes → Bytes} (hH : ∀ x, (H x).length = 16) (m t : Int) (ops : List Op)
    (hl : Legal H (init m t) [] ops) (ts : Nat) (k : Bytes) (x : Int)
    (hg : (getValue (run H .fixed (init m t) ops) ts k).2 = some x) :
    k ≠ [] ∧ x ≠ 0 ∧ x ≠ markerFlood ∧ x ≠ markerNotExist ∧ (k, x) ∈ added ops := by
  obtain ⟨e, he, hx⟩ := getValue_result hg
  have := (closed_run hH m t ops hl).good (k, e) (find_some_mem he)
  subst hx
  obtain ⟨h1, h2, h3⟩ := this
  simp only [isMarker, Bool.or_eq_false_iff, beq_eq_false_iff_ne] at h2
  exact ⟨h1, h2.1.1, h2.1.2, h2.2, h3⟩

/-- size clause in closed form: on every legal history, every operation other than a resize or a restart leaves
    `sumSize ≤ max maxSize (sumSize before)` (in particular AddValues), and the sums are never negative -/
theorem closed_size {H : Bytes → Bytes} (hH : ∀ x, (H x).length = 16) (m t : Int) (ops : List Op) (op : Op)
    (hl : Legal H (init m t) [] (ops ++ [op])) (hp : op.plain) :
    (run H .fixed (init m t) (ops ++ [op])).sumSize ≤
        max (run H .fixed (init m t) ops).maxSize (run H .fixed (init m t) ops).sumSize ∧
      0 ≤ (run H .fixed (init m t) (ops ++ [op])).sumSize ∧ 0 ≤ (run H .fixed (init m t) (ops ++ [op])).sumTS := by
  have h := (closed_run hH m t _ hl).exact
  refine ⟨?_, by rw [h.size]; exact (totals_nonneg _).1, by rw [h.ts]; exact (totals_nonneg _).2⟩
  simp only [run, List.foldl_append, List.foldl_cons, List.foldl_nil]
  exact (step_size_bound H .fixed _ op hp).1


/-! ## truncation never passes: the closed theorem without any hash hypothesis for cut files -/

theorem encodeAll_append (H : Bytes → Bytes) (m : Nat) (prev : Bytes) (xs ys : List Bytes) :
    encodeAll H m prev (xs ++ ys) = encodeAll H m prev xs ++ encodeAll H m (chain H m prev xs) ys := by
  induction xs generalizing prev with
  | nil => simp [encodeAll, chain]
  | cons x xs ih => simp [encodeAll, chain, ih]

theorem truncation_never_passes {H : Bytes → Bytes} {magic : Nat} (P : Params H magic) (bodies : List Bytes)
    (hb : ∀ x ∈ bodies, x.length ≤ chunkSize) (prev : Bytes) (n : Nat) :
    ¬ PassesFrom H magic prev bodies ((encodeAll H magic prev bodies).take n) := by
  rintro ⟨j, hj, rest', h1, h2, body, stored, r, h3⟩
  have hsplit : bodies = bodies.take j ++ (bodies[j] :: bodies.drop (j + 1)) := by
    rw [← List.drop_eq_getElem_cons hj, List.take_append_drop]
  have henc : encodeAll H magic prev bodies
      = encodeAll H magic prev (bodies.take j) ++
          (encChunk H magic (chain H magic prev (bodies.take j)) bodies[j] ++
            encodeAll H magic (H (hashInput magic (chain H magic prev (bodies.take j)) bodies[j])) (bodies.drop (j + 1))) := by
    conv => lhs; rw [hsplit]
    rw [encodeAll_append]; simp [encodeAll]
  have hne : rest' ≠ [] := by
    intro h; subst h; simp [readNext] at h3
  rw [henc, List.take_append] at h1
  have hlen := congrArg List.length h1
  simp only [List.length_append, List.length_take] at hlen
  have hL : (encodeAll H magic prev (bodies.take j)).length ≤ n := by
    by_cases hc : (encodeAll H magic prev (bodies.take j)).length ≤ n
    · exact hc
    · exfalso
      have : n - (encodeAll H magic prev (bodies.take j)).length = 0 := by omega
      rw [this] at hlen
      have : rest'.length = 0 := by simp at hlen; omega
      exact hne (List.length_eq_zero_iff.mp this)
  rw [List.take_of_length_le hL] at h1
  have hr : rest' = (encChunk H magic (chain H magic prev (bodies.take j)) bodies[j] ++
      encodeAll H magic (H (hashInput magic (chain H magic prev (bodies.take j)) bodies[j])) (bodies.drop (j + 1))).take
        (n - (encodeAll H magic prev (bodies.take j)).length) := (List.append_cancel_left h1).symm
  by_cases hc : (encChunk H magic (chain H magic prev (bodies.take j)) bodies[j]).length
      ≤ n - (encodeAll H magic prev (bodies.take j)).length
  · apply h2
    rw [hr, List.take_append, List.take_of_length_le hc]
    exact List.prefix_append _ _
  · have hlt : n - (encodeAll H magic prev (bodies.take j)).length
        < (encChunk H magic (chain H magic prev (bodies.take j)) bodies[j]).length := by omega
    rw [List.take_append_of_le_length (by omega)] at hr
    have := (readAll_strict_prefix P (chain H magic prev (bodies.take j)) (chain H magic prev (bodies.take j)) bodies[j]
      (hb _ (List.getElem_mem hj)) _ hlt).1
    rw [← hr, readAll_chunk h3] at this
    simp at this

theorem store_loadItems (s : St) (body : Bytes) : (loadItems s body).1.store = s.store := by
  fun_induction loadItems s body with
  | case1 s body hb => rfl
  | case2 s body hb e he => rfl
  | case3 s body hb it rest he ih =>
    rw [ih]; unfold loadInsert; split <;> rfl

theorem store_loadRest (H : Bytes → Bytes) (s : St) (prev rest : Bytes) : (loadRest H s prev rest).1.store = s.store := by
  fun_induction loadRest H s prev rest with
  | case1 s prev rest hr => rfl
  | case2 s prev rest e hr => rfl
  | case3 s prev rest body stored rest' hr hb => rfl
  | case4 s prev rest body stored rest' hr hb r hsome => exact store_loadItems s body
  | case5 s prev rest body stored rest' hr hb r hnone ih => rw [ih]; exact store_loadItems s body

/-- after a restart the file on disk is the file that was read -/
theorem file_loadNew (H : Bytes → Bytes) (file : Bytes) (m : Int) : (loadNew H file m).1.store.file = file := by
  unfold loadNew; rw [store_loadRest]; rfl

/-- only cuts: every restart reads the file on disk cut at some offset -/
def TruncLegal (H : Bytes → Bytes) : St → List Op → Prop
  | _, [] => True
  | s, op :: ops =>
    (match op with
     | .add now pairs _ => now < 4294967296 ∧ ∀ p ∈ pairs, p.1.length ≤ 500000 ∧ -2147483648 ≤ p.2 ∧ p.2 < 2147483648
     | .get ts _ => ts < 4294967296
     | .save order => order.Perm s.cache
     | .reload dmg _ => ∃ n, ∀ f, dmg f = f.take n
     | _ => True) ∧ TruncLegal H (step H .fixed s op) ops

/-- cuts are always legal: the hash hypothesis of `Legal` is a theorem for them -/
theorem truncLegal_legal {H : Bytes → Bytes} (hH : ∀ x, (H x).length = 16) (A : List Pair) (ops : List Op) (s : St) (img : Bytes)
    (h : GInv H A s img) (hf : ∃ n0, s.store.file = img.take n0) (hl : TruncLegal H s ops) (hA : ∀ p ∈ added ops, p ∈ A) :
    Legal H s img ops := by
  induction ops generalizing s img with
  | nil => trivial
  | cons op ops ih =>
    obtain ⟨n0, hn0⟩ := hf
    have hleg : OpLegal H s img op := by
      cases op with
      | add now pairs cands => exact hl.1
      | get ts k => exact hl.1
      | ttl now visited => trivial
      | setSizeTTL a b => trivial
      | stats => trivial
      | save order => exact hl.1
      | reload dmg m =>
        obtain ⟨n, hn⟩ := hl.1
        obtain ⟨gs, hs, _⟩ := h.image
        have hb : ∀ x ∈ gs.map encGroup, x.length ≤ chunkSize := by
          intro x hx; obtain ⟨g, hg, rfl⟩ := List.mem_map.mp hx; exact hs.small g hg
        refine ⟨by rw [hn, List.length_take]; exact Nat.min_le_right _ _, ?_⟩
        rw [hn, hn0, List.take_take, savedAs_bodies hs]
        have := truncation_never_passes (mappings_params hs.hlen) (gs.map encGroup) hb zeroHash (min n n0)
        rw [← hs.file_eq] at this
        exact this
    have hs := ginv_step hH A s img op h hleg
      (by intro now pairs cands he p hp; subst he; exact hA p (by simp [added, hp]))
    have hf' : ∃ n1, (step H .fixed s op).store.file = (newImg H s img op).take n1 := by
      cases op with
      | add now pairs cands => exact ⟨n0, by simp only [step, newImg, store_addValues]; exact hn0⟩
      | get ts k => exact ⟨n0, by simp only [step, newImg, store_getValue]; exact hn0⟩
      | ttl now visited => exact ⟨n0, by simp only [step, newImg, removeByTTL, store_removeVisited]; exact hn0⟩
      | setSizeTTL a b => exact ⟨n0, hn0⟩
      | stats => exact ⟨n0, hn0⟩
      | save order =>
        by_cases hd : dirty s = true
        · exact ⟨(save H s order).1.store.file.length, by simp [step, newImg, hd]⟩
        · have hsame : (save H s order).1 = s := by unfold save; simp [hd]
          exact ⟨n0, by simp only [step, newImg, hd, hsame]; simpa using hn0⟩
      | reload dmg m =>
        obtain ⟨n, hn⟩ := hl.1
        exact ⟨min n n0, by simp only [step, newImg, file_loadNew]; rw [hn, hn0, List.take_take]⟩
    exact ⟨hleg, ih _ _ hs hf' hl.2 (by intro p hp; apply hA; cases op <;> simp [added, hp])⟩

/-- C21, closed theorem for crashes that only CUT the file (the `fsync`-less reality of this cache): no hypothesis about
    the hash function at all (any H with 16-byte results).  Any interleaving of add / get / TTL eviction / resize / stats / Save
    and restarts from the current file cut at any offset, any number of times. -/
theorem closed_run_truncations {H : Bytes → Bytes} (hH : ∀ x, (H x).length = 16) (m t : Int) (ops : List Op)
    (hl : TruncLegal H (init m t) ops) :
    GInv H (added ops) (run H .fixed (init m t) ops) (runImg H (init m t) [] ops) :=
  closed_run hH m t ops
    (truncLegal_legal hH _ ops _ _ (ginv_init H hH _ m t) ⟨0, by simp [init, Chunked.new]⟩ hl (fun _ hp => hp))

/-! ### non-vacuity: a legal history with two Saves and two restarts from cut files -/

def demoOps : List Op :=
  [.add 10 [([97], 1), ([98, 99], 5)] [], .get 12 [97], .save [([97], { val := 1, ts := 12 }), ([98, 99], { val := 5, ts := 10 })],
   .reload (fun f => f.take 30) 1000, .add 20 [([100], 9)] [], .reload (fun f => f.take 7) 50]

theorem demo_legal : TruncLegal toyH (init 1000 0) demoOps := by
  exact ⟨⟨by decide, by decide⟩, by decide, by decide, ⟨30, fun _ => rfl⟩, ⟨by decide, by decide⟩, ⟨7, fun _ => rfl⟩, trivial⟩

/-- non-vacuity of `closed_run`: its hypothesis `Legal` holds for the demo history -/
example : Legal toyH (init 1000 0) [] demoOps :=
  truncLegal_legal toy_params.hlen _ demoOps _ _ (ginv_init toyH toy_params.hlen _ 1000 0) ⟨0, by simp [init, Chunked.new]⟩
    demo_legal (fun _ hp => hp)

example : GInv toyH (added demoOps) (run toyH .fixed (init 1000 0) demoOps) (runImg toyH (init 1000 0) [] demoOps) :=
  closed_run_truncations toy_params.hlen 1000 0 demoOps demo_legal

end SH.C21
