/-
  SH.Lemmas.DiskCacheTorn — restart + drain of an arbitrary well-formed directory, and the torn last put at history level.
-/
import SH.Lemmas.DiskCacheSizes

namespace SH.C09
open SH.DiskCache

/-! ### a crash tearing the last put, at history level -/

theorem live_clear_files (cfg : Cfg) (L : List AFile) :
    (L.map clearIds).flatMap (fLive cfg) = clearLive (L.flatMap (fLive cfg)) := by
  rw [List.flatMap_map, clearLive, List.map_flatMap]
  apply flatMap_congr'
  intro g _
  exact liveRecs_clear cfg g.recs

/-- a directory that is the rendering of a well-formed layout: restart + drain returns its live seconds in order -/
theorem drain_layout (cfg : Cfg) (L : List AFile) (clock : Nat) (s : Shard)
    (hn : (L.map (·.name)).Pairwise (· < ·)) (hlt : ∀ f ∈ L, f.name < clock)
    (hwf : ∀ f ∈ L, (∀ r ∈ f.recs, r.WF cfg) ∧ TailStop f.tl)
    (hd : s.disk = L.map (AFile.render cfg)) (hc : s.clock = clock) (n : Nat)
    (hlen : (L.flatMap (fLive cfg)).length < n) :
    (drain cfg n (restart s)).2 = outs 0 (clearLive (L.flatMap (fLive cfg))) := by
  have inv := inv_fresh cfg (L.map clearIds) clock s
    (by rw [List.map_map]; exact hn)
    (by intro f hf; obtain ⟨g, hg, rfl⟩ := List.mem_map.mp hf; exact hlt g hg)
    (by intro f hf; obtain ⟨g, hg, rfl⟩ := List.mem_map.mp hf; exact clearIds_wf cfg g (hwf g hg))
    (by
      intro f hf r hr
      obtain ⟨g, hg, rfl⟩ := List.mem_map.mp hf
      simp only [clearIds, List.mem_map] at hr
      obtain ⟨q, _, rfl⟩ := hr; rfl)
    (by
      rw [hd, List.map_map]
      apply List.map_congr_left
      intro g _; exact (render_clear cfg g).symm)
    hc
  have hl : ({ wait := L.map clearIds, clock := clock } : Abs).live cfg = clearLive (L.flatMap (fLive cfg)) := by
    simp only [Abs.live, Abs.files, Abs.curL, List.nil_append, List.append_nil]
    exact live_clear_files cfg L
  have hnone : ∀ e ∈ ({ wait := L.map clearIds, clock := clock } : Abs).live cfg, e.1 = none := by
    intro e he; rw [hl] at he
    simp only [clearLive, List.mem_map] at he
    obtain ⟨_, _, rfl⟩ := he; rfl
  obtain ⟨h1, _⟩ := drain_spec cfg _ [] n _ _ inv (by simp) (by simp) hnone (by rw [hl]; simpa [clearLive] using hlen)
  rw [h1, hl]

theorem mapDisk_last (cfg : Cfg) (F0 : List AFile) (f : AFile) (g : Bytes → Bytes) (hne : ∀ x ∈ F0, x.name ≠ f.name) :
    mapDisk ((F0 ++ [f]).map (AFile.render cfg)) f.name g = F0.map (AFile.render cfg) ++ [⟨f.name, g (f.bytes cfg)⟩] := by
  rw [List.map_append]
  have e : mapDisk (F0.map (AFile.render cfg) ++ [f].map (AFile.render cfg)) f.name g =
      mapDisk (F0.map (AFile.render cfg)) f.name g ++ mapDisk ([f].map (AFile.render cfg)) f.name g := by
    simp [mapDisk]
  rw [e, mapDisk_id_of_ne _ _ _ (by
    intro x hx; obtain ⟨y, hy, rfl⟩ := List.mem_map.mp hx; exact hne y hy)]
  simp [mapDisk, AFile.render]


/-- C09 `torn_tail` at history level: after ANY history, if the crash tears the last put `n` bytes before its end — for every
    `n` from 1 to the whole record (header and body) — then restart + drain returns exactly what the history WITHOUT that put
    holds: only the torn second is missing, nothing else is lost and nothing spurious is returned. -/
theorem torn_tail_history (cfg : Cfg) (hcrc : ∀ b, cfg.crc b < 2 ^ 32) (ops : List Op) (hok : ∀ op ∈ ops, OpOk op)
    (t : Nat) (d : Bytes) (r : Bool) (hput : OpOk (.put t d r)) (n : Nat) (hn0 : 0 < n) (hn : n ≤ headerSize + d.length) :
    (drain cfg ((absRun {} ops).live.length + 1) (restart (tearNewest (run cfg {} (ops ++ [.put t d r])) n))).2 =
      outs 0 (clearLive (absRun {} ops).live) := by
  obtain ⟨a0, inv0, h0⟩ := run_refines cfg hcrc ops {} {} (inv_init cfg) hok
  have h00 : (⟨Abs.live cfg {}, ({} : Abs).lastID⟩ : AbsH) = {} := rfl
  rw [h00] at h0
  have hl0 : a0.live cfg = (absRun {} ops).live := congrArg AbsH.live h0
  have hrun : run cfg {} (ops ++ [.put t d r]) = (put cfg (run cfg {} ops) t d r).1 := by
    simp [run, List.foldl_append, step]
  rw [hrun]
  obtain ⟨a1, inv1, hl1, _, _, F0, f, hsh, htl⟩ := inv_put cfg _ a0 inv0 t d r hput.1 hput.2 (hcrc d)
  obtain ⟨pr, hpr⟩ : ∃ pr : ARec, pr = ⟨magicGood, t, d, some (a0.lastID + 1)⟩ := ⟨_, rfl⟩
  rw [← hpr] at hsh
  obtain ⟨s1, hs1⟩ : ∃ s1, s1 = (put cfg (run cfg {} ops) t d r).1 := ⟨_, rfl⟩
  rw [← hs1] at inv1 ⊢
  have hprlen : pr.len = headerSize + d.length := by rw [hpr]; rfl
  have hprd : pr.dead cfg = false := by rw [hpr]; exact isDeleted_good cfg
  let f' := f.setRecs (f.recs ++ [pr])
  have hdisk : s1.disk = (F0 ++ [f']).map (AFile.render cfg) := by rw [inv1.disk, hsh]
  have hF0ne : ∀ x ∈ F0, x.name ≠ f'.name := by
    have hnd := pairwise_lt_ne inv1.names
    rw [hsh, List.map_append, List.nodup_append] at hnd
    intro x hx
    exact hnd.2.2 x.name (List.mem_map.mpr ⟨x, hx, rfl⟩) f'.name (by simp [f'])
  have hbytes' : f'.bytes cfg = encRecs cfg f.recs ++ pr.enc cfg := by
    simp [f', AFile.bytes, AFile.setRecs, encRecs_append, encRecs, htl]
  let ft : AFile := ⟨f.name, f.recs, (pr.enc cfg).take (pr.len - n)⟩
  have htake : (f'.bytes cfg).take ((f'.bytes cfg).length - n) = ft.bytes cfg := by
    rw [hbytes', List.length_append, encRecs_length, ARec.enc_length, List.take_append, encRecs_length]
    have e1 : recsLen f.recs + pr.len - n - recsLen f.recs = pr.len - n := by omega
    rw [e1, List.take_of_length_le (by rw [encRecs_length]; omega)]
    rfl
  have htear : (tearNewest s1 n).disk = (F0 ++ [ft]).map (AFile.render cfg) := by
    unfold tearNewest
    have hlast : s1.disk.getLast? = some (f'.render cfg) := by rw [hdisk]; simp
    rw [hlast]
    simp only
    rw [hdisk]
    have := mapDisk_last cfg F0 f' (fun b => b.take (b.length - n)) hF0ne
    simp only [AFile.render] at this ⊢
    rw [this, htake]
    simp [AFile.render, ft, f', AFile.setRecs]
  have hclock : (tearNewest s1 n).clock = a1.clock := by
    unfold tearNewest; split <;> exact inv1.clock
  have hnames : ((F0 ++ [ft]).map (·.name)).Pairwise (· < ·) := by
    have := inv1.names; rw [hsh] at this
    simpa [ft, AFile.setRecs] using this
  have hmemf' : f' ∈ a1.files := by rw [hsh]; simp [f']
  have hlt : ∀ g ∈ F0 ++ [ft], g.name < a1.clock := by
    intro g hg
    rcases List.mem_append.mp hg with h | h
    · exact inv1.namesLt g (by rw [hsh]; simp [h])
    · simp at h; subst h; exact inv1.namesLt f' hmemf'
  have hwf : ∀ g ∈ F0 ++ [ft], (∀ q ∈ g.recs, q.WF cfg) ∧ TailStop g.tl := by
    intro g hg
    rcases List.mem_append.mp hg with h | h
    · exact inv1.wf g (by rw [hsh]; simp [h])
    · simp at h; subst h
      obtain ⟨w1, _⟩ := inv1.wf f' hmemf'
      refine ⟨fun q hq => w1 q (by simp [f', AFile.setRecs]; exact Or.inl hq), ?_⟩
      by_cases hk : pr.len - n = 0
      · left; simp [ft, hk]
      · right
        refine ⟨magicGood, t, cfg.crc d, pr.len - n, d, by decide, hput.1, hcrc d, hput.2, by omega, by omega, ?_⟩
        simp [ft, hpr, ARec.enc]
  have hlive : (F0 ++ [ft]).flatMap (fLive cfg) = (absRun {} ops).live := by
    have h1 : a1.live cfg = (F0.flatMap (fLive cfg) ++ liveRecs cfg f.recs) ++ [(some (a0.lastID + 1), t, d)] := by
      unfold Abs.live; rw [hsh]
      simp only [List.flatMap_append, List.flatMap_cons, List.flatMap_nil, List.append_nil, fLive, AFile.setRecs]
      rw [liveRecs_append]
      have : liveRecs cfg [pr] = [(some (a0.lastID + 1), t, d)] := by
        simp [liveRecs, hprd]; rw [hpr]; simp
      rw [this, List.append_assoc]
    rw [hl1] at h1
    have := List.append_cancel_right h1
    rw [← hl0, this]
    simp [fLive, ft]
  have := drain_layout cfg (F0 ++ [ft]) a1.clock (tearNewest s1 n) hnames hlt hwf htear hclock
    ((absRun {} ops).live.length + 1) (by rw [hlive]; omega)
  rw [this, hlive]

end SH.C09
