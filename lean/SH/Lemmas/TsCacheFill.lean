/-
  SH.Lemmas.TsCacheFill — every slot of a successful request's range is filled (property C23, helper development).

  Coverage invariant: for a request that has seen no error, every index of its range `[ls, le)` is either already
  filled in its buffer, or lies in a chunk the request is loading itself, or in the range of an awaiter it has
  registered.  Cached chunk data always consists of `K` filled slots, buffers are long enough for what is written
  into them.  With the message bookkeeping of SH.Lemmas.TsCacheWait (a finished request has no load in flight and
  no awaiter left) a successful request has its whole range filled.
-/
import SH.Lemmas.TsCacheWait
namespace SH.TsCache.Fill
open SH.TsCache SH.TsCache.Place SH.TsCache.Wait

/-! ### lists -/

def Filled (d : List Slot) (i : Nat) : Prop := ∃ c, d[i]? = some (some c)

/-- every slot present is filled -/
def Full (d : List Slot) : Prop := ∀ (i : Nat) (x : Slot), d[i]? = some x → x ≠ none

theorem length_setRange {α} (dst src : List α) (p : Nat) : (setRange dst p src).length = dst.length := by
  simp only [setRange, List.length_append, List.length_take, List.length_drop]
  omega

theorem length_slice {α} (l : List α) (a b : Nat) : (slice l a b).length = min (b - a) (l.length - a) := by
  simp [slice, List.length_take, List.length_drop]

theorem full_slice {d : List Slot} (h : Full d) (a b : Nat) : Full (slice d a b) := by
  intro i x hx
  exact h _ x (getElem?_slice_some _ _ _ _ _ hx).2

theorem filled_of_full {d : List Slot} (h : Full d) (i : Nat) (hi : i < d.length) : Filled d i := by
  have : d[i]? = some d[i] := List.getElem?_eq_getElem hi
  cases hx : d[i] with
  | none => exact absurd hx (h i _ this)
  | some c => exact ⟨c, by rw [this, hx]⟩

theorem filled_setRange_keep {dst src : List Slot} {p i : Nat} (hs : Full src) (h : Filled dst i) :
    Filled (setRange dst p src) i := by
  obtain ⟨c, hc⟩ := h
  have hi : i < dst.length := (List.getElem?_eq_some_iff.mp hc).1
  rw [Filled, getElem?_setRange_eq]
  split
  · exact ⟨c, hc⟩
  · split
    · rename_i h1 h2
      exact filled_of_full hs (i - p) (by omega)
    · exact ⟨c, hc⟩

theorem filled_setRange_new {dst src : List Slot} {p i : Nat} (hs : Full src) (h1 : p ≤ i) (h2 : i < p + src.length)
    (h3 : i < dst.length) : Filled (setRange dst p src) i := by
  rw [Filled, getElem?_setRange_eq]
  have : ¬ i < p := by omega
  simp only [this, if_false, h2, h3, and_self, if_true]
  exact filled_of_full hs (i - p) (by omega)

theorem full_stub (cfg : Cfg) (key ver load tick : Nat) (fromSec : Int) (n : Nat) :
    Full (stubCells cfg key ver load tick fromSec n) ∧ (stubCells cfg key ver load tick fromSec n).length = n := by
  refine ⟨?_, by simp [stubCells]⟩
  intro i x hx
  simp only [stubCells, List.getElem?_map] at hx
  cases hr : (List.range n)[i]? with
  | none => simp [hr] at hx
  | some j => simp only [hr, Option.map_some, Option.some.injEq] at hx; subst hx; simp


/-! ### the invariant -/

/-- cached chunk data always consists of `K` filled slots -/
def CDok (K : Nat) (c : Chunk) : Prop := ∀ d, c.data = some d → d.length = K ∧ Full d

/-- index `i` of loader `id` is in the range of an awaiter it registered -/
def AwCov (cs : List Chunk) (id i : Nat) : Prop :=
  ∃ cid, ∃ a ∈ (getChunk cs cid).awaiters, a.req = id ∧ a.ls ≤ i ∧ i < a.le

/-- index `i` lies in a chunk the loader is loading itself -/
def OwnCov (K : Nat) (l : Loader) (i : Nat) : Prop :=
  l.loadPending = true ∧ ∃ v ∈ l.chunks, v.pos ≤ i ∧ i < v.pos + K

/-- the awaiter's range fits the loader's buffer (length `n`) and the chunk -/
def AwFit (K n : Nat) (a : Awaiter) : Prop := a.le ≤ n ∧ (a.ls < a.le → a.off + (a.le - a.ls) ≤ K)

def Cov (K : Nat) (cs : List Chunk) (l : Loader) : Prop :=
  l.gotErr = false → ∀ i, l.ls ≤ i → i < l.le → Filled l.data i ∨ OwnCov K l i ∨ AwCov cs l.id i

structure RInv (s : St) : Prop where
  cd : ∀ cid, CDok s.cfg.K (getChunk s.chunks cid)
  ln : ∀ l ∈ s.loaders, l.le ≤ l.data.length ∧ ∀ v ∈ l.chunks, v.pos + s.cfg.K ≤ l.data.length
  af : ∀ cid, ∀ a ∈ (getChunk s.chunks cid).awaiters, ∀ l ∈ s.loaders, l.id = a.req → AwFit s.cfg.K l.data.length a
  cov : ∀ l ∈ s.loaders, Cov s.cfg.K s.chunks l

theorem awCount_pos_of_mem (id : Nat) (cs : List Chunk) (cid : Nat) (a : Awaiter) (ha : a ∈ (getChunk cs cid).awaiters)
    (hr : a.req = id) : 0 < awCount id cs := by
  have h1 := awC_le_awCount id cs cid
  have : 0 < (getChunk cs cid).awaiters.countP (fun a => a.req == id) :=
    List.countP_pos_iff.mpr ⟨a, ha, by simpa using hr⟩
  simp only [awC] at h1
  omega

/-- a request that returned without error has every slot of its range filled -/
theorem complete_of (s : St) (hr : RInv s) (hw : WInv s) (l : Loader) (hl : l ∈ s.loaders) (hf : l.finished = true)
    (he : l.gotErr = false) (i : Nat) (h1 : l.ls ≤ i) (h2 : i < l.le) : Filled l.data i := by
  obtain ⟨hz, hp⟩ := (hw.w1 l hl).2 hf
  rcases hr.cov l hl he i h1 h2 with h | h | h
  · exact h
  · have := h.1; rw [hp] at this; cases this
  · obtain ⟨cid, a, ha, e, _⟩ := h
    have := awCount_pos_of_mem l.id s.chunks cid a ha e
    omega

/-- operations that leave the loaders alone and only drop cached data keep the invariant -/
theorem RInv_frame (s s' : St) (h : RInv s) (hcfg : s'.cfg = s.cfg) (hl : s'.loaders = s.loaders)
    (hc : ∀ j, (getChunk s'.chunks j).awaiters = (getChunk s.chunks j).awaiters ∧
      ((getChunk s'.chunks j).data = (getChunk s.chunks j).data ∨ (getChunk s'.chunks j).data = none)) : RInv s' := by
  refine ⟨?_, ?_, ?_, ?_⟩
  · intro cid d hd
    rw [hcfg]
    rcases (hc cid).2 with e | e
    · rw [e] at hd; exact h.cd cid d hd
    · rw [e] at hd; cases hd
  · rw [hl, hcfg]; exact h.ln
  · intro cid a ha l hl'
    rw [(hc cid).1] at ha
    rw [hl] at hl'
    rw [hcfg]
    exact h.af cid a ha l hl'
  · intro l hl' he i h1 h2
    rw [hl] at hl'
    rw [hcfg]
    rcases h.cov l hl' he i h1 h2 with x | x | x
    · exact Or.inl x
    · exact Or.inr (Or.inl x)
    · obtain ⟨cid, a, ha, r⟩ := x
      exact Or.inr (Or.inr ⟨cid, a, by rw [(hc cid).1]; exact ha, r⟩)


/-! ### delivery to awaiters -/

/-- everything about a loader except its buffer contents, error flag, message count and finished flag -/
def SameShape (x y : Loader) : Prop :=
  y.id = x.id ∧ y.ls = x.ls ∧ y.le = x.le ∧ y.chunks = x.chunks ∧ y.loadPending = x.loadPending ∧ y.data.length = x.data.length

theorem SameShape.refl (x : Loader) : SameShape x x := ⟨rfl, rfl, rfl, rfl, rfl, rfl⟩
theorem SameShape.trans {x y z : Loader} (a : SameShape x y) (b : SameShape y z) : SameShape x z :=
  ⟨b.1.trans a.1, b.2.1.trans a.2.1, b.2.2.1.trans a.2.2.1, b.2.2.2.1.trans a.2.2.2.1, b.2.2.2.2.1.trans a.2.2.2.2.1,
    b.2.2.2.2.2.trans a.2.2.2.2.2⟩

theorem deliver_cases (ok : Bool) (cd : List Slot) (a : Awaiter) (x : Loader) :
    SameShape x (deliver ok cd a x) ∧
    ((deliver ok cd a x).data = x.data ∧ ((deliver ok cd a x).gotErr = false → x.gotErr = false) ∧
        (x.id = a.req → (deliver ok cd a x).gotErr = false → ok = true) ∨
     (ok = true ∧ x.id = a.req ∧ (deliver ok cd a x).gotErr = x.gotErr ∧
        (deliver ok cd a x).data = setRange x.data a.ls (slice cd a.off (a.off + (a.le - a.ls))))) := by
  by_cases hid : x.id = a.req
  · have hb : (x.id != a.req) = false := by simp [hid]
    cases ok
    · refine ⟨?_, Or.inl ⟨?_, ?_, ?_⟩⟩ <;>
        simp only [deliver, hb, Bool.false_eq_true, if_false, Bool.not_false, Bool.or_true] <;> split <;>
        first | exact ⟨rfl, rfl, rfl, rfl, rfl, rfl⟩ | rfl | (intro h; cases h) | (intro _ h; cases h)
    · refine ⟨?_, Or.inr ⟨rfl, hid, ?_, ?_⟩⟩ <;>
        simp only [deliver, hb, Bool.false_eq_true, if_false, if_true, Bool.not_true, Bool.or_false] <;> split <;>
        first | exact ⟨rfl, rfl, rfl, rfl, rfl, by simp [length_setRange]⟩ | rfl
  · rw [deliver_other ok cd a x hid]
    exact ⟨SameShape.refl x, Or.inl ⟨rfl, fun h => h, fun h => absurd h hid⟩⟩

/-- all awaiters `as` of one chunk delivered to loader `x` -/
def deliverAll (ok : Bool) (cd : List Slot) (as : List Awaiter) (x : Loader) : Loader :=
  as.foldl (fun x a => deliver ok cd a x) x

theorem foldl_map_deliver (ok : Bool) (cd : List Slot) (as : List Awaiter) (ls : List Loader) :
    as.foldl (fun ls a => ls.map (deliver ok cd a)) ls = ls.map (deliverAll ok cd as) := by
  induction as generalizing ls with
  | nil =>
    have : deliverAll ok cd [] = id := by funext x; rfl
    simp [this]
  | cons a as ih =>
    simp only [List.foldl_cons, ih, List.map_map, deliverAll]
    rfl

theorem deliverAll_spec (ok : Bool) (cd : List Slot) (K : Nat) (hcd : ok = true → cd.length = K ∧ Full cd)
    (as : List Awaiter) (x : Loader) :
    SameShape x (deliverAll ok cd as x) ∧
    ((deliverAll ok cd as x).gotErr = false → x.gotErr = false) ∧
    (∀ i, Filled x.data i → Filled (deliverAll ok cd as x).data i) ∧
    (∀ a ∈ as, a.req = x.id → AwFit K x.data.length a → (deliverAll ok cd as x).gotErr = false →
      ∀ i, a.ls ≤ i → i < a.le → Filled (deliverAll ok cd as x).data i) := by
  induction as generalizing x with
  | nil => exact ⟨SameShape.refl x, fun h => h, fun _ h => h, fun a ha => by cases ha⟩
  | cons a0 as ih =>
    obtain ⟨sh0, c0⟩ := deliver_cases ok cd a0 x
    obtain ⟨sh1, g1, f1, r1⟩ := ih (deliver ok cd a0 x)
    have hstep : ∀ i, Filled x.data i → Filled (deliver ok cd a0 x).data i := by
      intro i hi
      rcases c0 with ⟨e, _, _⟩ | ⟨hok, _, _, e⟩
      · rw [e]; exact hi
      · rw [e]; exact filled_setRange_keep (full_slice (hcd hok).2 _ _) hi
    have hg0 : (deliver ok cd a0 x).gotErr = false → x.gotErr = false := by
      intro h
      rcases c0 with ⟨_, g, _⟩ | ⟨_, _, g, _⟩
      · exact g h
      · rw [g] at h; exact h
    refine ⟨sh0.trans sh1, fun h => hg0 (g1 h), fun i hi => f1 i (hstep i hi), ?_⟩
    intro a ha hreq hfit herr i h1 h2
    simp only [List.mem_cons] at ha
    rcases ha with rfl | ha
    · apply f1
      have hmid := g1 herr
      rcases c0 with ⟨_, _, g⟩ | ⟨hok, _, _, e⟩
      · have := g hreq.symm hmid
        -- ok = true but the first alternative says data unchanged: only possible when ok = false
        cases ok with
        | true =>
          -- deliver with ok = true and matching id always takes the second alternative; derive it directly
          have hb : (x.id != a.req) = false := by simp [hreq]
          have e : (deliver true cd a x).data = setRange x.data a.ls (slice cd a.off (a.off + (a.le - a.ls))) := by
            simp only [deliver, hb, Bool.false_eq_true, if_false, if_true]; split <;> rfl
          rw [e]
          obtain ⟨q1, q3⟩ := hfit
          have q3 := q3 (by omega)
          exact filled_setRange_new (full_slice (hcd rfl).2 _ _) h1
            (by rw [length_slice, (hcd rfl).1]; omega) (by omega)
        | false => cases this
      · rw [e]
        obtain ⟨q1, q3⟩ := hfit
        have q3 := q3 (by omega)
        exact filled_setRange_new (full_slice (hcd hok).2 _ _) h1
          (by rw [length_slice, (hcd hok).1]; omega) (by omega)
    · exact r1 a ha (by rw [sh0.1]; exact hreq) (by rw [sh0.2.2.2.2.2]; exact hfit) herr i h1 h2


/-! ### a load finishes -/

structure FR (K : Nat) (cells : List Slot) (base : Nat) (fs : FinSt) (rest : List LChunk) : Prop where
  cd : ∀ cid, CDok K (getChunk fs.chunks cid)
  ln : ∀ x ∈ fs.loaders, x.le ≤ x.data.length ∧ ∀ v ∈ x.chunks, v.pos + K ≤ x.data.length
  af : ∀ cid, ∀ a ∈ (getChunk fs.chunks cid).awaiters, ∀ x ∈ fs.loaders, x.id = a.req → AwFit K x.data.length a
  cov : ∀ x ∈ fs.loaders, Cov K fs.chunks x
  pos : base ≤ fs.start ∧ (fs.start - base) + rest.length * K = cells.length

theorem publish_data (ok : Bool) (cd : List Slot) (bytes : Int) (c : Chunk) :
    (publish ok cd bytes c).data = c.data ∨ (ok = true ∧ (publish ok cd bytes c).data = some cd) := by
  cases hd : c.detached <;> cases ok <;> simp [publish, hd]

theorem aw_after_publish (ok : Bool) (cd : List Slot) (bytes : Int) (i j : Nat) (cs : List Chunk) (a : Awaiter)
    (h : a ∈ (getChunk (modAt (publish ok cd bytes) i cs) j).awaiters) : j ≠ i ∧ a ∈ (getChunk cs j).awaiters := by
  by_cases e : j = i
  · subst e
    rw [getChunk_modAt_eq] at h
    split at h
    · rw [(publish_facts _ _ _ _).1] at h; cases h
    · simp [noChunk] at h
  · rw [getChunk_modAt_ne _ _ _ _ e] at h; exact ⟨e, h⟩

theorem finChunk_R (cfg : Cfg) (ok : Bool) (data cells : List Slot) (base : Nat) (hcells : ok = true → Full cells)
    (fs : FinSt) (v : LChunk) (rest : List LChunk) (h : FR cfg.K cells base fs (v :: rest)) :
    FR cfg.K cells base (finChunk cfg ok data cells base fs v) rest := by
  obtain ⟨hp1, hp2⟩ := h.pos
  simp only [List.length_cons, Nat.add_mul, Nat.one_mul] at hp2
  have hcd : ok = true → (if ok = true then slice cells (fs.start - base) (fs.start + cfg.K - base)
      else slice data fs.start (fs.start + cfg.K)).length = cfg.K ∧
      Full (if ok = true then slice cells (fs.start - base) (fs.start + cfg.K - base) else slice data fs.start (fs.start + cfg.K)) := by
    intro hok
    simp only [hok, if_true]
    exact ⟨by rw [length_slice]; omega, full_slice (hcells hok) _ _⟩
  have hl : (finChunk cfg ok data cells base fs v).loaders = fs.loaders.map (deliverAll ok
      (if ok = true then slice cells (fs.start - base) (fs.start + cfg.K - base) else slice data fs.start (fs.start + cfg.K))
      (getChunk fs.chunks v.cid).awaiters) := by
    simp only [finChunk]; exact foldl_map_deliver _ _ _ _
  refine ⟨?_, ?_, ?_, ?_, ?_⟩
  · intro cid d hd
    simp only [finChunk] at hd
    by_cases e : cid = v.cid
    · subst e
      rw [getChunk_modAt_eq] at hd
      split at hd
      · rcases publish_data ok _ _ (getChunk fs.chunks v.cid) with e1 | ⟨hok, e1⟩
        · rw [e1] at hd; exact h.cd v.cid d hd
        · rw [e1] at hd
          simp only [Option.some.injEq] at hd
          subst hd
          exact hcd hok
      · simp [noChunk] at hd
    · rw [getChunk_modAt_ne _ _ _ _ e] at hd; exact h.cd cid d hd
  · intro y hy
    rw [hl] at hy
    simp only [List.mem_map] at hy
    obtain ⟨x, hx, rfl⟩ := hy
    obtain ⟨sh, _⟩ := deliverAll_spec ok _ cfg.K hcd (getChunk fs.chunks v.cid).awaiters x
    obtain ⟨l1, l2⟩ := h.ln x hx
    rw [sh.2.2.1, sh.2.2.2.2.2, sh.2.2.2.1]
    exact ⟨l1, l2⟩
  · intro cid a ha y hy hid
    rw [hl] at hy
    simp only [List.mem_map] at hy
    obtain ⟨x, hx, rfl⟩ := hy
    obtain ⟨sh, _⟩ := deliverAll_spec ok _ cfg.K hcd (getChunk fs.chunks v.cid).awaiters x
    simp only [finChunk] at ha
    obtain ⟨_, ha'⟩ := aw_after_publish _ _ _ _ _ _ _ ha
    rw [sh.2.2.2.2.2]
    exact h.af cid a ha' x hx (by rw [← sh.1]; exact hid)
  · intro y hy
    rw [hl] at hy
    simp only [List.mem_map] at hy
    obtain ⟨x, hx, rfl⟩ := hy
    obtain ⟨sh, g1, f1, r1⟩ := deliverAll_spec ok _ cfg.K hcd (getChunk fs.chunks v.cid).awaiters x
    intro herr i h1 h2
    rw [sh.2.1] at h1
    rw [sh.2.2.1] at h2
    rcases h.cov x hx (g1 herr) i h1 h2 with c | c | c
    · exact Or.inl (f1 i c)
    · exact Or.inr (Or.inl ⟨by rw [sh.2.2.2.2.1]; exact c.1, by rw [sh.2.2.2.1]; exact c.2⟩)
    · obtain ⟨cid, a, ha, e, q1, q2⟩ := c
      by_cases ec : cid = v.cid
      · subst ec
        exact Or.inl (r1 a ha e (h.af v.cid a ha x hx e.symm) herr i q1 q2)
      · refine Or.inr (Or.inr ⟨cid, a, ?_, by rw [sh.1]; exact e, q1, q2⟩)
        simp only [finChunk]
        rw [getChunk_modAt_ne _ _ _ _ ec]; exact ha
  · simp only [finChunk]
    exact ⟨by omega, by omega⟩

theorem foldl_finChunk_R (cfg : Cfg) (ok : Bool) (data cells : List Slot) (base : Nat) (hcells : ok = true → Full cells)
    (vs : List LChunk) (fs : FinSt) (h : FR cfg.K cells base fs vs) :
    FR cfg.K cells base (vs.foldl (finChunk cfg ok data cells base) fs) [] := by
  induction vs generalizing fs with
  | nil => exact h
  | cons v vs ih => simp only [List.foldl_cons]; exact ih _ (finChunk_R cfg ok data cells base hcells fs v vs h)


theorem ownMessage_shape (ok : Bool) (data : List Slot) (x : Loader) :
    (ownMessage ok data x).id = x.id ∧ (ownMessage ok data x).ls = x.ls ∧ (ownMessage ok data x).le = x.le ∧
    (ownMessage ok data x).chunks = x.chunks ∧ (ownMessage ok data x).data = data ∧
    (ownMessage ok data x).gotErr = (x.gotErr || !ok) ∧ (ownMessage ok data x).loadPending = false := by
  simp only [ownMessage]; split <;> exact ⟨rfl, rfl, rfl, rfl, rfl, rfl, rfl⟩

theorem Prog_mem {K b : Nat} {vs : List LChunk} (h : Prog K b vs) (v : LChunk) (hv : v ∈ vs) :
    ∃ k, k < vs.length ∧ v.pos = b + k * K := by
  obtain ⟨k, hk, e⟩ := List.mem_iff_getElem.mp hv
  exact ⟨k, hk, h k v (by rw [List.getElem?_eq_getElem hk, e])⟩

theorem finPre_R (s : St) (l : Loader) (first : LChunk) (rest : List LChunk) (ok : Bool) (ver : Nat)
    (hl : l ∈ s.loaders) (hch : l.chunks = first :: rest) (hp : PInv s) (h : RInv s) : RInv (finPre s l first ok ver) := by
  unfold finPre
  simp only []
  generalize hcells : stubCells s.cfg l.key ver l.id s.tick ((getChunk s.chunks first.cid).start / nsec)
      (l.chunks.length * s.cfg.K) = cells
  have hfull : Full cells ∧ cells.length = l.chunks.length * s.cfg.K := by rw [← hcells]; exact full_stub ..
  generalize hdata : (if ok = true then setRange l.data first.pos cells else l.data) = data
  have hdlen : data.length = l.data.length := by rw [← hdata]; split <;> simp [length_setRange]
  obtain ⟨base', hprog⟩ := hp.pg l hl
  have hb0 : first.pos = base' := by rw [hch] at hprog; exact (Prog_tail hprog).1
  rw [← hb0] at hprog
  have hF0 : FR s.cfg.K cells first.pos
      { chunks := s.chunks, loaders := s.loaders.map (fun x => if x.id == l.id then ownMessage ok data x else x),
        dsize := 0, start := first.pos } l.chunks := by
    refine ⟨h.cd, ?_, ?_, ?_, ⟨Nat.le_refl _, by simp only [Nat.sub_self, Nat.zero_add]; exact hfull.2.symm⟩⟩
    · intro y hy
      simp only [List.mem_map] at hy
      obtain ⟨x, hx, rfl⟩ := hy
      split
      · rename_i he
        have hxl : x = l := nodup_id_eq _ hp.nd x l hx hl (by simpa using he)
        obtain ⟨_, _, e3, e4, e5, _, _⟩ := ownMessage_shape ok data x
        rw [e3, e4, e5, hdlen, hxl]
        exact h.ln l hl
      · exact h.ln x hx
    · intro cid a ha y hy hid
      simp only [List.mem_map] at hy
      obtain ⟨x, hx, rfl⟩ := hy
      by_cases he : (x.id == l.id) = true
      · have hxl : x = l := nodup_id_eq _ hp.nd x l hx hl (by simpa using he)
        obtain ⟨e1, _, _, _, e5, _, _⟩ := ownMessage_shape ok data x
        simp only [he, if_true] at hid ⊢
        rw [e5, hdlen]
        rw [e1, hxl] at hid
        exact h.af cid a ha l hl hid
      · simp only [he, if_false] at hid ⊢
        exact h.af cid a ha x hx hid
    · intro y hy
      simp only [List.mem_map] at hy
      obtain ⟨x, hx, rfl⟩ := hy
      split
      · rename_i he
        have hxl : x = l := nodup_id_eq _ hp.nd x l hx hl (by simpa using he)
        subst hxl
        obtain ⟨e1, e2, e3, e4, e5, e6, e7⟩ := ownMessage_shape ok data x
        intro herr i h1 h2
        rw [e6] at herr
        have hok : ok = true := by cases ok <;> simp_all
        have hge : x.gotErr = false := by cases hg : x.gotErr <;> simp_all
        rw [e2] at h1; rw [e3] at h2
        have hd : data = setRange x.data first.pos cells := by rw [← hdata]; simp [hok]
        rcases h.cov x hx hge i h1 h2 with c | c | c
        · left; rw [e5, hd]; exact filled_setRange_keep hfull.1 c
        · left
          obtain ⟨_, v, hv, q1, q2⟩ := c
          obtain ⟨k, hk, ek⟩ := Prog_mem hprog v hv
          have hlen := (h.ln x hx).2 v hv
          rw [e5, hd]
          apply filled_setRange_new hfull.1
          · omega
          · rw [hfull.2]
            have : (k + 1) * s.cfg.K ≤ x.chunks.length * s.cfg.K := Nat.mul_le_mul_right _ hk
            rw [Nat.add_mul, Nat.one_mul] at this
            omega
          · omega
        · right; right
          obtain ⟨cid, a, ha, e, q⟩ := c
          exact ⟨cid, a, ha, by rw [e1]; exact e, q⟩
      · exact h.cov x hx
  have hres := foldl_finChunk_R s.cfg ok data cells first.pos (fun _ => hfull.1) l.chunks _ hF0
  exact ⟨hres.cd, hres.ln, hres.af, hres.cov⟩


/-! ### trimming, invalidation -/

theorem RU_pointwise (t : Int) (cids : List Nat) (cs : List Chunk) (hnd : cids.Nodup) (j : Nat) :
    (getChunk (removeUnusedGo t 0 0 cids cs).2.1 j).awaiters = (getChunk cs j).awaiters ∧
    ((getChunk (removeUnusedGo t 0 0 cids cs).2.1 j).data = (getChunk cs j).data ∨
      (getChunk (removeUnusedGo t 0 0 cids cs).2.1 j).data = none) := by
  obtain ⟨_, _, rc⟩ := RU_spec t 0 0 cids cs hnd
  rcases rc j with e | ⟨_, _, e⟩
  · rw [e]; exact ⟨rfl, Or.inl rfl⟩
  · rw [e]; exact ⟨rfl, Or.inr rfl⟩

theorem trimChunks_R (s : St) (key : Nat) (t : Int) (hw : WInv s) (h : RInv s) : RInv (trimChunks s key t) := by
  unfold trimChunks
  split
  · exact h
  · rename_i b hf
    exact RInv_frame s _ h rfl rfl (fun j => RU_pointwise t b.cids s.chunks (hw.pb b (findBucket_some _ _ _ hf).1).1 j)

theorem removeBucket_R (s : St) (key : Nat) (hw : WInv s) (h : RInv s) : RInv (removeBucket s key) := by
  unfold removeBucket
  split
  · exact h
  · rename_i b hf
    exact RInv_frame s _ h rfl rfl (fun j => RU_pointwise intMax b.cids s.chunks (hw.pb b (findBucket_some _ _ _ hf).1).1 j)

def Tri (s : St) : Prop := Both s ∧ RInv s

theorem removeBucket_T (s : St) (key : Nat) (h : Tri s) : Tri (removeBucket s key) :=
  ⟨removeBucket_B s key h.1, removeBucket_R s key h.1.2 h.2⟩

theorem resetAll_T (s : St) (h : Tri s) : Tri (resetAll s) := by
  have key : ∀ (ks : List Nat) (s : St), Tri s → Tri (ks.foldl removeBucket s) := by
    intro ks
    induction ks with
    | nil => intro s h; exact h
    | cons k ks ih => intro s h; exact ih _ (removeBucket_T s k h)
  exact key _ s h

theorem reduce_T (t : Int) (fuel : Nat) (s : St) (h : Tri s) : Tri (reduce t fuel s) := by
  induction fuel generalizing s with
  | zero => exact h
  | succ n ih =>
    simp only [reduce]
    split
    · exact h
    · split
      · exact removeBucket_T _ _ h
      · exact ih _ (removeBucket_T _ _ h)

theorem trimPass_T (t : Int) (s : St) (h : Tri s) : Tri (trimPass t s) := by
  unfold trimPass; split
  · exact reduce_T _ _ _ h
  · exact h

theorem afterUpdate_T (t : Int) (s : St) (h : Tri s) : Tri (afterUpdate t s) := by
  unfold afterUpdate; split
  · exact trimPass_T _ _ h
  · exact h

theorem opInv_pointwise (s : St) (secs : List Int) (now : Int) (j : Nat) :
    (getChunk (opInv s secs now).chunks j).awaiters = (getChunk s.chunks j).awaiters ∧
    (getChunk (opInv s secs now).chunks j).data = (getChunk s.chunks j).data := by
  have walk : ∀ (fuel : Nat) (ts : List Int) (is : List Nat) (cs : List Chunk) (j : Nat),
      (getChunk (invWalkF now s.tick fuel ts is cs) j).awaiters = (getChunk cs j).awaiters ∧
      (getChunk (invWalkF now s.tick fuel ts is cs) j).data = (getChunk cs j).data := by
    intro fuel
    induction fuel with
    | zero => intro ts is cs j; simp [invWalkF]
    | succ n ih =>
      intro ts is cs j
      cases ts with
      | nil => simp [invWalkF]
      | cons t ts =>
        cases is with
        | nil => simp [invWalkF]
        | cons i is =>
          simp only [invWalkF]
          split
          · exact ih _ _ _ _
          · split
            · exact ih _ _ _ _
            · obtain ⟨b1, b2⟩ := ih ts is (modAt (invalidateChunk now s.tick) i cs) j
              rcases getChunk_modAt (invalidateChunk now s.tick) i j cs with e | ⟨_, e⟩
              · rw [b1, b2, e]; exact ⟨rfl, rfl⟩
              · rw [b1, b2, e]; exact ⟨rfl, rfl⟩
  have key : ∀ (bs : List Bucket) (cs : List Chunk) (times : List Int) (j : Nat),
      (getChunk (bs.foldl (invBucket now s.tick times) cs) j).awaiters = (getChunk cs j).awaiters ∧
      (getChunk (bs.foldl (invBucket now s.tick times) cs) j).data = (getChunk cs j).data := by
    intro bs
    induction bs with
    | nil => intro cs times j; exact ⟨rfl, rfl⟩
    | cons b bs ih =>
      intro cs times j
      simp only [List.foldl_cons]
      obtain ⟨c1, c2⟩ := ih (invBucket now s.tick times cs b) times j
      have hb : (getChunk (invBucket now s.tick times cs b) j).awaiters = (getChunk cs j).awaiters ∧
          (getChunk (invBucket now s.tick times cs b) j).data = (getChunk cs j).data := by
        unfold invBucket
        split
        · exact ⟨rfl, rfl⟩
        · exact walk _ _ _ _ _
      exact ⟨c1.trans hb.1, c2.trans hb.2⟩
  exact key _ _ _ j

theorem opInv_R (s : St) (secs : List Int) (now : Int) (h : RInv s) : RInv (opInv s secs now) :=
  RInv_frame s _ h rfl rfl (fun j => ⟨(opInv_pointwise s secs now j).1, Or.inl (opInv_pointwise s secs now j).2⟩)


/-! ### request begin (`init`) -/

/-- how `init` of loader `id` (buffer length `N`) may change the chunk store: data untouched, awaiters only added,
    and every added awaiter belongs to `id` and fits -/
structure Ext (id K N : Nat) (cs cs' : List Chunk) : Prop where
  len : cs.length ≤ cs'.length
  data : ∀ j, (getChunk cs' j).data = (getChunk cs j).data
  sup : ∀ j a, a ∈ (getChunk cs j).awaiters → a ∈ (getChunk cs' j).awaiters
  new : ∀ j a, a ∈ (getChunk cs' j).awaiters → a ∈ (getChunk cs j).awaiters ∨ (a.req = id ∧ AwFit K N a)

theorem Ext.refl (id K N : Nat) (cs : List Chunk) : Ext id K N cs cs :=
  ⟨Nat.le_refl _, fun _ => rfl, fun _ _ h => h, fun _ _ h => Or.inl h⟩

theorem Ext.trans {id K N : Nat} {a b c : List Chunk} (h1 : Ext id K N a b) (h2 : Ext id K N b c) : Ext id K N a c := by
  refine ⟨Nat.le_trans h1.len h2.len, fun j => (h2.data j).trans (h1.data j), fun j x hx => h2.sup j x (h1.sup j x hx), ?_⟩
  intro j x hx
  rcases h2.new j x hx with h | h
  · exact h1.new j x h
  · exact Or.inr h

theorem Ext_same {id K N : Nat} (f : Chunk → Chunk) (hf : ∀ c, (f c).data = c.data ∧ (f c).awaiters = c.awaiters) (i : Nat)
    (cs : List Chunk) : Ext id K N cs (modAt f i cs) := by
  have hg : ∀ j, (getChunk (modAt f i cs) j).data = (getChunk cs j).data ∧
      (getChunk (modAt f i cs) j).awaiters = (getChunk cs j).awaiters := by
    intro j
    rcases getChunk_modAt f i j cs with e | ⟨_, e⟩
    · rw [e]; exact ⟨rfl, rfl⟩
    · rw [e]; exact hf _
  exact ⟨by rw [length_modAt]; exact Nat.le_refl _, fun j => (hg j).1, fun j a h => by rw [(hg j).2]; exact h,
    fun j a h => by rw [(hg j).2] at h; exact Or.inl h⟩

theorem Ext_await {id K N : Nat} (a : Awaiter) (i : Nat) (cs : List Chunk) (ha : a.req = id ∧ AwFit K N a) :
    Ext id K N cs (modAt (fun c => { c with awaiters := c.awaiters ++ [a] }) i cs) := by
  refine ⟨by rw [length_modAt]; exact Nat.le_refl _, ?_, ?_, ?_⟩
  · intro j
    rcases getChunk_modAt (fun c => { c with awaiters := c.awaiters ++ [a] }) i j cs with e | ⟨_, e⟩
    · rw [e]
    · rw [e]
  · intro j x hx
    rcases getChunk_modAt (fun c => { c with awaiters := c.awaiters ++ [a] }) i j cs with e | ⟨_, e⟩
    · rw [e]; exact hx
    · rw [e]; exact List.mem_append_left _ hx
  · intro j x hx
    rcases getChunk_modAt (fun c => { c with awaiters := c.awaiters ++ [a] }) i j cs with e | ⟨_, e⟩
    · rw [e] at hx; exact Or.inl hx
    · rw [e] at hx
      simp only [List.mem_append, List.mem_singleton] at hx
      rcases hx with hx | rfl
      · exact Or.inl hx
      · exact Or.inr ha

theorem Ext_append {id K N : Nat} (cs : List Chunk) (x : Chunk) (hx : x.data = none ∧ x.awaiters = []) :
    Ext id K N cs (cs ++ [x]) := by
  have key : ∀ j, getChunk (cs ++ [x]) j = getChunk cs j ∨
      ((getChunk (cs ++ [x]) j).data = none ∧ (getChunk (cs ++ [x]) j).awaiters = [] ∧ getChunk cs j = noChunk) := by
    intro j
    by_cases h1 : j < cs.length
    · left; exact getChunk_append_lt cs x j h1
    · right
      by_cases h2 : j = cs.length
      · subst h2; rw [getChunk_append_len]; exact ⟨hx.1, hx.2, getChunk_ge _ _ (Nat.le_refl _)⟩
      · rw [getChunk_ge _ j (by simp; omega)]; exact ⟨rfl, rfl, getChunk_ge _ _ (by omega)⟩
  refine ⟨by simp, ?_, ?_, ?_⟩
  · intro j
    rcases key j with e | ⟨e1, _, e3⟩
    · rw [e]
    · rw [e1, e3]; rfl
  · intro j a ha
    rcases key j with e | ⟨_, _, e3⟩
    · rw [e]; exact ha
    · rw [e3] at ha; simp [noChunk] at ha
  · intro j a ha
    rcases key j with e | ⟨_, e2, _⟩
    · rw [e] at ha; exact Or.inl ha
    · rw [e2] at ha; cases ha


/-- a chunk still waiting for its copy/await decision -/
def PendOK (K N ler : Nat) (cs : List Chunk) (v : LChunk) : Prop :=
  v.cid < cs.length ∧ v.pos ≤ v.ls ∧ v.le ≤ v.pos + K ∧ v.le ≤ ler ∧ v.pos + K ≤ N ∧
  (v.wait = false → (getChunk cs v.cid).data ≠ none)

theorem PendOK_ext {id K N ler : Nat} {cs cs' : List Chunk} {v : LChunk} (h : Ext id K N cs cs') (hv : PendOK K N ler cs v) :
    PendOK K N ler cs' v :=
  ⟨Nat.lt_of_lt_of_le hv.1 h.len, hv.2.1, hv.2.2.1, hv.2.2.2.1, hv.2.2.2.2.1, fun hw => by rw [h.data]; exact hv.2.2.2.2.2 hw⟩

def ICov (K id lsr ler : Nat) (s : InitSt) (rem : List LChunk) (p : Nat) : Prop :=
  ∀ i, lsr ≤ i → i < ler → i < p * K →
    Filled s.l.data i ∨ (∃ v ∈ s.l.chunks, v.pos ≤ i ∧ i < v.pos + K) ∨ AwCov s.chunks id i ∨ (∃ v ∈ rem, v.ls ≤ i ∧ i < v.le)

structure IR (id K N lsr ler : Nat) (cs0 : List Chunk) (s : InitSt) (rem : List LChunk) (p : Nat) : Prop where
  sh : s.l.id = id ∧ s.l.data.length = N
  ext : Ext id K N cs0 s.chunks
  own : ∀ v ∈ s.l.chunks, v.pos + K ≤ N
  pnd : ∀ v ∈ rem, PendOK K N ler s.chunks v
  cov : ICov K id lsr ler s rem p

theorem AwCov_ext {id K N : Nat} {cs cs' : List Chunk} {x i : Nat} (h : Ext id K N cs cs') (hc : AwCov cs x i) : AwCov cs' x i := by
  obtain ⟨cid, a, ha, r⟩ := hc
  exact ⟨cid, a, h.sup cid a ha, r⟩

theorem awaitCopyOne_IR {id K N lsr ler : Nat} {cs0 : List Chunk} (hN : ler ≤ N) (hcd : ∀ cid, CDok K (getChunk cs0 cid))
    (s : InitSt) (v : LChunk) (rest : List LChunk) (p : Nat) (h : IR id K N lsr ler cs0 s (v :: rest) p) :
    IR id K N lsr ler cs0 (awaitCopyOne s v) rest p ∧ (awaitCopyOne s v).l.chunks = s.l.chunks ∧
      (awaitCopyOne s v).cids = s.cids := by
  obtain ⟨pv1, pv2, pv3, pv4, pv5, pv6⟩ := h.pnd v (List.mem_cons_self ..)
  unfold awaitCopyOne
  split
  · -- await
    have hfit : AwFit K N { req := s.l.id, ls := v.ls, le := v.le, off := v.ls - v.pos } :=
      ⟨by simp only []; omega, fun hlt => by simp only [] at hlt ⊢; omega⟩
    have hext : Ext id K N s.chunks (awaitChunk s v).chunks := by
      simp only [awaitChunk]; exact Ext_await _ _ _ ⟨h.sh.1, hfit⟩
    refine ⟨⟨h.sh, h.ext.trans hext, h.own, fun w hw => PendOK_ext hext (h.pnd w (List.mem_cons_of_mem _ hw)), ?_⟩, rfl, rfl⟩
    intro i h1 h2 h3
    rcases h.cov i h1 h2 h3 with c | c | c | c
    · exact Or.inl c
    · exact Or.inr (Or.inl c)
    · exact Or.inr (Or.inr (Or.inl (AwCov_ext hext c)))
    · obtain ⟨w, hw, q1, q2⟩ := c
      simp only [List.mem_cons] at hw
      rcases hw with rfl | hw
      · refine Or.inr (Or.inr (Or.inl ⟨w.cid, { req := s.l.id, ls := w.ls, le := w.le, off := w.ls - w.pos }, ?_, h.sh.1, q1, q2⟩))
        simp only [awaitChunk]
        rw [getChunk_modAt_eq]
        simp only [pv1, if_true, List.mem_append, List.mem_singleton, or_true]
      · exact Or.inr (Or.inr (Or.inr ⟨w, hw, q1, q2⟩))
  · -- copy
    rename_i hwait
    have hwf : v.wait = false := by simpa using hwait
    unfold copyChunk
    split
    · rename_i hnone; exact absurd hnone (pv6 hwf)
    · rename_i d hd
      have hd0 : (getChunk cs0 v.cid).data = some d := by rw [← h.ext.data]; exact hd
      obtain ⟨dl, df⟩ := hcd v.cid d hd0
      refine ⟨⟨⟨h.sh.1, by simp only [length_setRange]; exact h.sh.2⟩, h.ext, h.own,
        fun w hw => h.pnd w (List.mem_cons_of_mem _ hw), ?_⟩, rfl, rfl⟩
      intro i h1 h2 h3
      rcases h.cov i h1 h2 h3 with c | c | c | c
      · exact Or.inl (filled_setRange_keep (full_slice df _ _) c)
      · exact Or.inr (Or.inl c)
      · exact Or.inr (Or.inr (Or.inl c))
      · obtain ⟨w, hw, q1, q2⟩ := c
        simp only [List.mem_cons] at hw
        rcases hw with rfl | hw
        · left
          apply filled_setRange_new (full_slice df _ _) q1
          · rw [length_slice, dl]; omega
          · rw [h.sh.2]; omega
        · exact Or.inr (Or.inr (Or.inr ⟨w, hw, q1, q2⟩))


theorem awaitCopy_IR {id K N lsr ler : Nat} {cs0 : List Chunk} (hN : ler ≤ N) (hcd : ∀ cid, CDok K (getChunk cs0 cid))
    (s : InitSt) (p : Nat) (h : IR id K N lsr ler cs0 s s.pend p) :
    IR id K N lsr ler cs0 (awaitCopy s) [] p ∧ (awaitCopy s).l.chunks = s.l.chunks ∧ (awaitCopy s).cids = s.cids ∧
      (awaitCopy s).pend = [] := by
  have key : ∀ (vs : List LChunk) (s : InitSt), IR id K N lsr ler cs0 s vs p →
      IR id K N lsr ler cs0 (vs.foldl awaitCopyOne s) [] p ∧ (vs.foldl awaitCopyOne s).l.chunks = s.l.chunks ∧
      (vs.foldl awaitCopyOne s).cids = s.cids := by
    intro vs
    induction vs with
    | nil => intro s h; exact ⟨h, rfl, rfl⟩
    | cons v vs ih =>
      intro s h
      obtain ⟨a, b, c⟩ := awaitCopyOne_IR hN hcd s v vs p h
      obtain ⟨a', b', c'⟩ := ih _ a
      simp only [List.foldl_cons]
      exact ⟨a', b'.trans b, c'.trans c⟩
  obtain ⟨a, b, c⟩ := key s.pend s h
  exact ⟨⟨a.sh, a.ext, a.own, a.pnd, a.cov⟩, b, c, rfl⟩

theorem adoptPend_IR {id K N lsr ler : Nat} {cs0 : List Chunk} (now : Int) (s : InitSt) (p : Nat)
    (h : IR id K N lsr ler cs0 s s.pend p) :
    IR id K N lsr ler cs0 (adoptPend now s) [] p ∧ (adoptPend now s).cids = s.cids ∧ (adoptPend now s).pend = [] := by
  have key : ∀ (vs : List LChunk) (s : InitSt), IR id K N lsr ler cs0 s vs p →
      IR id K N lsr ler cs0 (vs.foldl (adoptOne now) s) [] p ∧ (vs.foldl (adoptOne now) s).cids = s.cids := by
    intro vs
    induction vs with
    | nil => intro s h; exact ⟨h, rfl⟩
    | cons v vs ih =>
      intro s h
      obtain ⟨pv1, pv2, pv3, pv4, pv5, pv6⟩ := h.pnd v (List.mem_cons_self ..)
      have hext : Ext id K N s.chunks (adoptOne now s v).chunks := by
        simp only [adoptOne]; exact Ext_same (startLoad now) (fun _ => ⟨rfl, rfl⟩) _ _
      have h1 : IR id K N lsr ler cs0 (adoptOne now s v) vs p := by
        refine ⟨h.sh, h.ext.trans hext, ?_, fun w hw => PendOK_ext hext (h.pnd w (List.mem_cons_of_mem _ hw)), ?_⟩
        · intro w hw
          simp only [adoptOne, List.mem_append, List.mem_singleton] at hw
          rcases hw with hw | rfl
          · exact h.own w hw
          · exact pv5
        · intro i h1 h2 h3
          rcases h.cov i h1 h2 h3 with c | c | c | c
          · exact Or.inl c
          · obtain ⟨w, hw, q⟩ := c
            exact Or.inr (Or.inl ⟨w, by simp only [adoptOne, List.mem_append]; exact Or.inl hw, q⟩)
          · exact Or.inr (Or.inr (Or.inl (AwCov_ext hext c)))
          · obtain ⟨w, hw, q1, q2⟩ := c
            simp only [List.mem_cons] at hw
            rcases hw with rfl | hw
            · exact Or.inr (Or.inl ⟨w, by simp [adoptOne], by omega, by omega⟩)
            · exact Or.inr (Or.inr (Or.inr ⟨w, hw, q1, q2⟩))
      obtain ⟨a, b⟩ := ih _ h1
      simp only [List.foldl_cons]
      exact ⟨a, b⟩
  obtain ⟨a, b⟩ := key s.pend s h
  exact ⟨⟨a.sh, a.ext, a.own, a.pnd, a.cov⟩, b, rfl⟩

def Geo (a b : InitSt) : Prop := b.l.ls = a.l.ls ∧ b.l.le = a.l.le

theorem foldl_Geo {α} (f : InitSt → α → InitSt) (hf : ∀ s a, Geo s (f s a)) (l : List α) (s : InitSt) : Geo s (l.foldl f s) := by
  induction l generalizing s with
  | nil => exact ⟨rfl, rfl⟩
  | cons a l ih =>
    simp only [List.foldl_cons]
    exact ⟨(ih _).1.trans (hf s a).1, (ih _).2.trans (hf s a).2⟩

theorem awaitCopy_Geo (s : InitSt) : Geo s (awaitCopy s) := by
  apply foldl_Geo
  intro s v
  unfold awaitCopyOne awaitChunk copyChunk
  split
  · exact ⟨rfl, rfl⟩
  · split <;> exact ⟨rfl, rfl⟩

theorem adoptPend_Geo (now : Int) (s : InitSt) : Geo s (adoptPend now s) :=
  foldl_Geo (adoptOne now) (fun _ _ => ⟨rfl, rfl⟩) s.pend s

theorem maybeAdd_IR {id K N lsr ler : Nat} {cs0 : List Chunk} (cfg : Cfg) (hK : cfg.K = K) (hN : ler ≤ N)
    (hcd : ∀ cid, CDok K (getChunk cs0 cid)) (now : Int) (s : InitSt) (cid p : Nat)
    (hls : s.l.ls = lsr ∧ s.l.le = ler) (hcid : cid < s.chunks.length) (hp : (p + 1) * K ≤ N)
    (h : IR id K N lsr ler cs0 s s.pend p) :
    IR id K N lsr ler cs0 (maybeAdd cfg now s cid (p * cfg.K)) (maybeAdd cfg now s cid (p * cfg.K)).pend (p + 1) ∧
      (maybeAdd cfg now s cid (p * cfg.K)).cids = s.cids ∧
      ((maybeAdd cfg now s cid (p * cfg.K)).l.ls = lsr ∧ (maybeAdd cfg now s cid (p * cfg.K)).l.le = ler) := by
  subst hK
  have hp' : p * cfg.K + cfg.K ≤ N := by rw [Nat.add_mul, Nat.one_mul] at hp; exact hp
  unfold maybeAdd
  simp only []
  split
  · have key : ∀ s2 : InitSt, IR id cfg.K N lsr ler cs0 s2 [] p → s2.pend = [] → s2.cids = s.cids →
        (s2.l.ls = lsr ∧ s2.l.le = ler) →
        IR id cfg.K N lsr ler cs0
          { s2 with chunks := modAt (touch now) cid (modAt (startLoad now) cid s2.chunks),
                    l := { s2.l with chunks := s2.l.chunks ++ [mkLChunk cfg s.l (getChunk s.chunks cid) cid (p * cfg.K) now] } }
          s2.pend (p + 1) := by
      intro s2 h2 hpd hc hl2
      have hext : Ext id cfg.K N s2.chunks (modAt (touch now) cid (modAt (startLoad now) cid s2.chunks)) :=
        (Ext_same (startLoad now) (fun _ => ⟨rfl, rfl⟩) _ _).trans (Ext_same (touch now) (fun _ => ⟨rfl, rfl⟩) _ _)
      refine ⟨h2.sh, h2.ext.trans hext, ?_, (by rw [hpd]; intro w hw; cases hw), ?_⟩
      · intro w hw
        simp only [List.mem_append, List.mem_singleton] at hw
        rcases hw with hw | rfl
        · exact h2.own w hw
        · simp only [mkLChunk]; exact hp'
      · intro i h1 h2' h3
        by_cases hi : i < p * cfg.K
        · rcases h2.cov i h1 h2' hi with c | c | c | c
          · exact Or.inl c
          · obtain ⟨w, hw, q⟩ := c
            exact Or.inr (Or.inl ⟨w, List.mem_append_left _ hw, q⟩)
          · exact Or.inr (Or.inr (Or.inl (AwCov_ext hext c)))
          · obtain ⟨w, hw, _⟩ := c; cases hw
        · refine Or.inr (Or.inl ⟨_, List.mem_append_right _ (List.mem_singleton.mpr rfl), ?_, ?_⟩)
          · simp only [mkLChunk]; omega
          · simp only [mkLChunk]; rw [Nat.add_mul, Nat.one_mul] at h3; exact h3
    split
    · obtain ⟨a, _, c, d⟩ := awaitCopy_IR hN hcd s p h
      have hl2 : (awaitCopy s).l.ls = lsr ∧ (awaitCopy s).l.le = ler :=
        ⟨(awaitCopy_Geo s).1.trans hls.1, (awaitCopy_Geo s).2.trans hls.2⟩
      exact ⟨key _ a d c hl2, c, hl2⟩
    · obtain ⟨a, c, d⟩ := adoptPend_IR now s p h
      have hl2 : (adoptPend now s).l.ls = lsr ∧ (adoptPend now s).l.le = ler :=
        ⟨(adoptPend_Geo now s).1.trans hls.1, (adoptPend_Geo now s).2.trans hls.2⟩
      exact ⟨key _ a d c hl2, c, hl2⟩
  · rename_i hnl
    have hext : Ext id cfg.K N s.chunks (modAt (touch now) cid s.chunks) := Ext_same (touch now) (fun _ => ⟨rfl, rfl⟩) _ _
    refine ⟨⟨h.sh, h.ext.trans hext, h.own, ?_, ?_⟩, rfl, hls⟩
    · intro w hw
      simp only [List.mem_append, List.mem_singleton] at hw
      rcases hw with hw | rfl
      · exact PendOK_ext hext (h.pnd w hw)
      · refine ⟨by rw [length_modAt]; exact hcid, by simp only [mkLChunk]; omega, by simp only [mkLChunk]; omega,
          by simp only [mkLChunk, hls.2]; omega, by simp only [mkLChunk]; exact hp', ?_⟩
        intro hw
        simp only [mkLChunk] at hw ⊢
        rw [hext.data]
        intro hnone
        have : wantWait (getChunk s.chunks cid) s.l.force now s.l.stale = true := by
          simp [wantWait, needFull, hnone]
        rw [this] at hw; cases hw
    · intro i h1 h2 h3
      by_cases hi : i < p * cfg.K
      · rcases h.cov i h1 h2 hi with c | c | c | c
        · exact Or.inl c
        · exact Or.inr (Or.inl c)
        · exact Or.inr (Or.inr (Or.inl (AwCov_ext hext c)))
        · obtain ⟨w, hw, q⟩ := c
          exact Or.inr (Or.inr (Or.inr ⟨w, List.mem_append_left _ hw, q⟩))
      · refine Or.inr (Or.inr (Or.inr ⟨_, List.mem_append_right _ (List.mem_singleton.mpr rfl), ?_, ?_⟩))
        · simp only [mkLChunk, hls.1]; omega
        · simp only [mkLChunk, hls.2]; rw [Nat.add_mul, Nat.one_mul] at h3; omega


theorem maybeAdd_len (cfg : Cfg) (now : Int) (s : InitSt) (cid pos : Nat) :
    (maybeAdd cfg now s cid pos).chunks.length = s.chunks.length := by
  have h1 : ∀ (vs : List LChunk) (s : InitSt), (vs.foldl awaitCopyOne s).chunks.length = s.chunks.length := by
    intro vs
    induction vs with
    | nil => intro s; rfl
    | cons v vs ih =>
      intro s
      simp only [List.foldl_cons, ih]
      unfold awaitCopyOne awaitChunk copyChunk
      split
      · simp only [length_modAt]
      · split <;> rfl
  have h2 : ∀ (vs : List LChunk) (s : InitSt), (vs.foldl (adoptOne now) s).chunks.length = s.chunks.length := by
    intro vs
    induction vs with
    | nil => intro s; rfl
    | cons v vs ih => intro s; simp only [List.foldl_cons, ih, adoptOne, length_modAt]
  unfold maybeAdd
  simp only []
  split
  · split
    · simp only [length_modAt, awaitCopy, h1]
    · simp only [length_modAt, adoptPend, h2]
  · simp only [length_modAt]

structure VR (id K N lsr ler : Nat) (cs0 : List Chunk) (s : InitSt) (p : Nat) : Prop where
  ir : IR id K N lsr ler cs0 s s.pend p
  geo : s.l.ls = lsr ∧ s.l.le = ler
  cv : ∀ cid ∈ s.cids, cid < s.chunks.length

theorem visit_VR {id K N lsr ler : Nat} {cs0 : List Chunk} (cfg : Cfg) (hK : cfg.K = K) (hN : ler ≤ N)
    (hcd : ∀ cid, CDok K (getChunk cs0 cid)) (now : Int) (s : InitSt) (p : Nat) (hp : (p + 1) * K ≤ N)
    (h : VR id K N lsr ler cs0 s p) : VR id K N lsr ler cs0 (visit cfg now s p) (p + 1) := by
  unfold visit
  simp only []
  split
  · rename_i cid hf
    obtain ⟨hm, _⟩ := findCid_some _ _ _ _ hf
    obtain ⟨a, b, c⟩ := maybeAdd_IR cfg hK hN hcd now s cid p h.geo (h.cv cid hm) hp h.ir
    exact ⟨a, c, by rw [b, maybeAdd_len]; exact h.cv⟩
  · have hext : Ext id K N s.chunks (s.chunks ++ [newChunk s.l.key (s.l.timeStart + p * cfg.dur) cfg.dur]) :=
      Ext_append _ _ ⟨rfl, rfl⟩
    have h1 : IR id K N lsr ler cs0
        { s with chunks := s.chunks ++ [newChunk s.l.key (s.l.timeStart + p * cfg.dur) cfg.dur], fresh := s.fresh + 1 }
        s.pend p := by
      refine ⟨h.ir.sh, h.ir.ext.trans hext, h.ir.own, fun w hw => PendOK_ext hext (h.ir.pnd w hw), ?_⟩
      intro i q1 q2 q3
      rcases h.ir.cov i q1 q2 q3 with c | c | c | c
      · exact Or.inl c
      · exact Or.inr (Or.inl c)
      · exact Or.inr (Or.inr (Or.inl (AwCov_ext hext c)))
      · exact Or.inr (Or.inr (Or.inr c))
    obtain ⟨a, b, c⟩ := maybeAdd_IR cfg hK hN hcd now
      { s with chunks := s.chunks ++ [newChunk s.l.key (s.l.timeStart + p * cfg.dur) cfg.dur], fresh := s.fresh + 1 }
      s.chunks.length p h.geo
      (by show s.chunks.length < (s.chunks ++ [newChunk s.l.key (s.l.timeStart + p * cfg.dur) cfg.dur]).length; simp) hp h1
    refine ⟨⟨a.sh, a.ext, a.own, a.pnd, a.cov⟩, c, ?_⟩
    intro x hx
    simp only [maybeAdd_len, List.length_append, List.length_singleton]
    rcases mem_insertCid _ _ _ _ _ hx with rfl | hx
    · omega
    · rw [b] at hx; have := h.cv x hx; omega

theorem initLoader_R {id K N lsr ler : Nat} (cfg : Cfg) (hK : cfg.K = K) (now : Int) (cs : List Chunk) (cids : List Nat)
    (l : Loader) (n : Nat) (hN : N = n * K) (hle : ler ≤ N) (hcd : ∀ cid, CDok K (getChunk cs cid))
    (hl : l.id = id ∧ l.data.length = N ∧ l.ls = lsr ∧ l.le = ler ∧ l.chunks = [])
    (hcv : ∀ cid ∈ cids, cid < cs.length) :
    IR id K N lsr ler cs (initLoader cfg now cs cids l n) [] n ∧
      ((initLoader cfg now cs cids l n).l.ls = lsr ∧ (initLoader cfg now cs cids l n).l.le = ler) := by
  have key : ∀ m, m ≤ n → VR id K N lsr ler cs
      ((List.range m).foldl (visit cfg now) { chunks := cs, cids := cids, l := l, pend := [], fresh := 0 }) m := by
    intro m
    induction m with
    | zero =>
      intro _
      refine ⟨⟨⟨hl.1, hl.2.1⟩, Ext.refl _ _ _ _, (by intro v hv; simp [hl.2.2.2.2] at hv), (by intro v hv; cases hv), ?_⟩,
        ⟨hl.2.2.1, hl.2.2.2.1⟩, hcv⟩
      intro i _ _ h3; simp at h3
    | succ m ih =>
      intro hm
      rw [List.range_succ, List.foldl_append]
      apply visit_VR cfg hK hle hcd now _ m _ (ih (by omega))
      rw [hN]; exact Nat.mul_le_mul_right _ hm
  have hv := key n (Nat.le_refl _)
  obtain ⟨a, _, _, _⟩ := awaitCopy_IR hle hcd _ n hv.ir
  unfold initLoader
  exact ⟨a, (awaitCopy_Geo _).1.trans hv.geo.1, (awaitCopy_Geo _).2.trans hv.geo.2⟩


theorem runLoader_shape (l : Loader) :
    (runLoader l).ls = l.ls ∧ (runLoader l).le = l.le ∧ (runLoader l).data = l.data ∧ (runLoader l).gotErr = l.gotErr := by
  unfold runLoader
  simp only []
  split <;> split <;> exact ⟨rfl, rfl, rfl, rfl⟩

theorem getPre_R (s : St) (key : Nat) (play now : Int) (l0 : Loader) (n : Nat)
    (fresh : ∀ l ∈ s.loaders, l.id ≠ l0.id)
    (hl0 : l0.chunks = [] ∧ l0.data.length = n * s.cfg.K ∧ l0.le ≤ n * s.cfg.K)
    (hp : PInv s) (h : RInv s) : RInv (getPre s key play now l0 n) := by
  have hcv : ∀ b ∈ s.buckets, ∀ cid ∈ b.cids, cid < s.chunks.length := by
    intro b hb cid hc
    exact (hp.ci.bk (b.key, b.cids) (by simp only [bksOf, List.mem_map]; exact ⟨b, hb, rfl⟩) cid hc).1
  have noold : ∀ j, ∀ a ∈ (getChunk s.chunks j).awaiters, a.req ≠ l0.id := by
    intro j a ha he
    obtain ⟨⟨g, hg, e⟩, _⟩ := hp.ci.aw j a ha
    simp only [List.mem_map] at hg
    obtain ⟨l, hl, rfl⟩ := hg
    exact fresh l hl (e.trans he)
  have fin : ∀ (cids : List Nat) (bs' : List Bucket) (info' : Info) (bad' : Bool), (∀ cid ∈ cids, cid < s.chunks.length) →
      RInv { s with chunks := (initLoader s.cfg now s.chunks cids l0 n).chunks, buckets := bs',
                    loaders := s.loaders ++ [runLoader (initLoader s.cfg now s.chunks cids l0 n).l], info := info', bad := bad' } := by
    intro cids bs' info' bad' hc
    obtain ⟨ir, geo⟩ := initLoader_R (id := l0.id) (K := s.cfg.K) (N := n * s.cfg.K) (lsr := l0.ls) (ler := l0.le)
      s.cfg rfl now s.chunks cids l0 n rfl hl0.2.2 h.cd ⟨rfl, hl0.2.1, rfl, rfl, hl0.1⟩ hc
    obtain ⟨r1, r2, r3, r4⟩ := runLoader_shape (initLoader s.cfg now s.chunks cids l0 n).l
    obtain ⟨f1, f2, f3, _, _⟩ := runLoader_facts (initLoader s.cfg now s.chunks cids l0 n).l
    refine ⟨?_, ?_, ?_, ?_⟩
    · intro cid d hd
      simp only [] at hd
      rw [ir.ext.data] at hd
      exact h.cd cid d hd
    · intro l hl
      simp only [List.mem_append, List.mem_singleton] at hl
      rcases hl with hl | rfl
      · exact h.ln l hl
      · rw [r2, r3, f2, geo.2, ir.sh.2]
        exact ⟨hl0.2.2, ir.own⟩
    · intro cid a ha l hl hid
      simp only [List.mem_append, List.mem_singleton] at hl
      rcases ir.ext.new cid a ha with hold | ⟨hreq, hfit⟩
      · rcases hl with hl | rfl
        · exact h.af cid a hold l hl hid
        · exact absurd ((hid.symm.trans f1).trans ir.sh.1) (noold cid a hold)
      · rcases hl with hl | rfl
        · exact absurd (hid.trans hreq) (fresh l hl)
        · rw [r3, ir.sh.2]; exact hfit
    · intro l hl
      simp only [List.mem_append, List.mem_singleton] at hl
      rcases hl with hl | rfl
      · intro he i h1 h2
        rcases h.cov l hl he i h1 h2 with c | c | c
        · exact Or.inl c
        · exact Or.inr (Or.inl c)
        · exact Or.inr (Or.inr (AwCov_ext ir.ext c))
      · intro _ i h1 h2
        rw [r1, geo.1] at h1
        rw [r2, geo.2] at h2
        rcases ir.cov i h1 h2 (by omega) with c | c | c | c
        · left; rw [r3]; exact c
        · right; left
          obtain ⟨v, hv, q⟩ := c
          refine ⟨?_, v, by rw [f2]; exact hv, q⟩
          rw [f3]
          cases he : (initLoader s.cfg now s.chunks cids l0 n).l.chunks with
          | nil => rw [he] at hv; cases hv
          | cons _ _ => simp
        · right; right; rw [f1, ir.sh.1]; exact c
        · obtain ⟨v, hv, _⟩ := c; cases hv
  unfold getPre
  cases hfb : findBucket key s.buckets with
  | none => simp only [if_true]; exact fin [] _ _ _ (fun _ h => by cases h)
  | some bk =>
    simp only [Bool.false_eq_true, if_false]
    exact fin bk.cids _ _ _ (hcv bk (findBucket_some _ _ _ hfb).1)


/-! ### the trace -/

/-- the requested range fits the buffer `init` allocates (`chunkCount` chunks of `K` slots from the first chunk) -/
def ReqFits (cfg : Cfg) (f t : Int) : Prop :=
  ((f * nsec - chunkStartOf cfg (f * nsec)) / (cfg.step * nsec)).toNat + ((t - f) / cfg.step).toNat ≤
    chunkCount cfg (chunkStartOf cfg (f * nsec)) (t * nsec) * cfg.K

instance (cfg : Cfg) (f t : Int) : Decidable (ReqFits cfg f t) := by unfold ReqFits; infer_instance

def opFits (s : St) : Op → Prop
  | .get _ _ _ _ f t _ => (t - f) % s.cfg.step = 0 → ReqFits s.cfg f t
  | _ => True

instance (s : St) (op : Op) : Decidable (opFits s op) := by cases op <;> simp only [opFits] <;> infer_instance

theorem opGet_T (s : St) (id key : Nat) (play : Int) (force : Bool) (f t now : Int) (wf : WF s.cfg)
    (fresh : ∀ l ∈ s.loaders, l.id ≠ id) (hfit : (t - f) % s.cfg.step = 0 → ReqFits s.cfg f t) (h : Tri s) :
    Tri (opGet s id key play force f t now).1 := by
  have hB := opGet_B s id key play force f t now wf fresh h.1
  rw [opGet_eq] at hB ⊢
  split
  · exact h
  · split
    · exact h
    · rename_i h1 h2
      simp only [h1, h2, if_false, Bool.false_eq_true] at hB
      rw [getCore_fst] at hB ⊢
      apply afterUpdate_T
      refine ⟨⟨getPre_P s key play now _ _ wf fresh rfl rfl (OkData_replicate _ _ _ _) h.1.1,
        getPre_W s key play now _ _ fresh ⟨rfl, rfl, rfl, rfl⟩ h.1.1 h.1.2⟩, ?_⟩
      apply getPre_R s key play now _ _ fresh _ h.1.1 h.2
      refine ⟨rfl, by simp [mkLoader0], ?_⟩
      have hdiv : (t - f) % s.cfg.step = 0 := by simpa using h1
      simpa [mkLoader0, ReqFits] using hfit hdiv

theorem opFin_T (s s' : St) (id : Nat) (ok : Bool) (ver : Nat) (now : Int) (h : Tri s)
    (hs : opFin s id ok ver now = some s') : Tri s' := by
  unfold opFin at hs
  split at hs
  · cases hs
  · rename_i l hf
    split at hs
    · cases hs
    · rename_i hpn
      split at hs
      · cases hs
      · rename_i first rest hch
        injection hs with hs
        subst hs
        rw [finApply_eq]
        apply afterUpdate_T
        have hl := (findLoader_some _ _ _ hf).1
        exact ⟨finPre_B s l first rest ok ver hl hch (by simpa using hpn) h.1, finPre_R s l first rest ok ver hl hch h.1.1 h.2⟩

def opGood (s : St) (op : Op) : Prop := opFresh s op ∧ opFits s op

/-- request ids are fresh and every requested range fits its buffer -/
def GoodOps : St → List Op → Prop
  | _, [] => True
  | s, op :: ops => opGood s op ∧ GoodOps (step s op) ops

instance goodOpsDec : (s : St) → (ops : List Op) → Decidable (GoodOps s ops)
  | _, [] => isTrue trivial
  | s, op :: ops => @instDecidableAnd _ _ (by unfold opGood; infer_instance) (goodOpsDec (step s op) ops)

theorem apply_T (s : St) (op : Op) (wf : WF s.cfg) (hg : opGood s op) (h : Tri s) : Tri (apply s op) := by
  cases op with
  | get id key play force f t now => exact opGet_T _ _ _ _ _ _ _ _ wf hg.1 hg.2 h
  | fin id ok ver now =>
    simp only [apply]
    cases hfin : opFin s id ok ver now with
    | none => exact h
    | some s' => exact opFin_T _ _ _ _ _ _ h hfin
  | inv secs now => exact ⟨⟨opInv_P _ _ _ h.1.1, opInv_W _ _ _ h.1.2⟩, opInv_R _ _ _ h.2⟩
  | trimChunks key t now =>
    exact afterUpdate_T _ _ ⟨⟨trimChunks_P _ _ _ h.1.1, trimChunks_W _ _ _ h.1.1 h.1.2⟩, trimChunks_R _ _ _ h.1.2 h.2⟩
  | rmBucket key now => exact afterUpdate_T _ _ (removeBucket_T _ _ h)
  | reset now => exact afterUpdate_T _ _ (resetAll_T _ h)
  | limits m so now =>
    have h0 : Tri { s with maxSize := normMax m, soft := normSoft m so } :=
      ⟨⟨⟨h.1.1.ci, h.1.1.pl, h.1.1.pg, h.1.1.nd⟩, WInv_congr _ _ h.1.2 rfl rfl rfl⟩, ⟨h.2.cd, h.2.ln, h.2.af, h.2.cov⟩⟩
    simp only [apply, opLimits]
    split
    · exact h
    · exact trimPass_T _ _ h0
  | shutdown now =>
    have h0 : Tri { s with down := true, maxSize := 0, soft := 0 } :=
      ⟨⟨⟨h.1.1.ci, h.1.1.pl, h.1.1.pg, h.1.1.nd⟩, WInv_congr _ _ h.1.2 rfl rfl rfl⟩, ⟨h.2.cd, h.2.ln, h.2.af, h.2.cov⟩⟩
    exact reduce_T _ _ _ h0

theorem step_T (s : St) (op : Op) (wf : WF s.cfg) (hg : opGood s op) (h : Tri s) : Tri (step s op) := by
  have h0 : Tri { s with tick := s.tick + 1 } :=
    ⟨⟨⟨h.1.1.ci, h.1.1.pl, h.1.1.pg, h.1.1.nd⟩, WInv_congr _ _ h.1.2 rfl rfl rfl⟩, ⟨h.2.cd, h.2.ln, h.2.af, h.2.cov⟩⟩
  have hg0 : opGood { s with tick := s.tick + 1 } op := by cases op <;> exact hg
  have := apply_T { s with tick := s.tick + 1 } op wf hg0 h0
  exact ⟨⟨⟨this.1.1.ci, this.1.1.pl, this.1.1.pg, this.1.1.nd⟩, WInv_congr _ _ this.1.2 rfl rfl rfl⟩,
    ⟨this.2.cd, this.2.ln, this.2.af, this.2.cov⟩⟩

theorem run_T (ops : List Op) (s : St) (wf : WF s.cfg) (hg : GoodOps s ops) (h : Tri s) : Tri (run s ops) := by
  induction ops generalizing s with
  | nil => exact h
  | cons op ops ih => exact ih (step s op) (by rw [step_cfg]; exact wf) hg.2 (step_T s op wf hg.1 h)

theorem Tri_init (cfg : Cfg) : Tri (init cfg) := by
  refine ⟨Both_init cfg, ?_, ?_, ?_, ?_⟩
  · intro cid d hd; simp [init, getChunk, noChunk] at hd
  · intro l hl; simp [init] at hl
  · intro cid a ha; simp [init, getChunk, noChunk] at ha
  · intro l hl; simp [init] at hl

/-- after any sequence of good operations, a request that returned without error has every slot of `[ls, le)` filled -/
theorem complete_all (cfg : Cfg) (wf : WF cfg) (ops : List Op) (hg : GoodOps (init cfg) ops) :
    ∀ l ∈ (run (init cfg) ops).loaders, l.finished = true → l.gotErr = false →
      ∀ i, l.ls ≤ i → i < l.le → ∃ c, l.data[i]? = some (some c) := by
  have h := run_T ops (init cfg) wf hg (Tri_init cfg)
  intro l hl hf he i h1 h2
  exact complete_of _ h.2 h.1.2 l hl hf he i h1 h2

/-- the ceiling in `chunkCount`: a request with `from ≤ to` whose length is a multiple of the step fits the buffer -/
theorem reqFits_of_le (cfg : Cfg) (wf : WF cfg) (hs : 0 < cfg.step) (hK : 0 < cfg.K) (f t : Int) (hft : f ≤ t)
    (hdiv : (t - f) % cfg.step = 0) : ReqFits cfg f t := by
  have hn : (0 : Int) < nsec := by decide
  have hT : 0 < cfg.step * nsec := Int.mul_pos hs hn
  have hD : cfg.dur = (cfg.K : Int) * (cfg.step * nsec) := by rw [wf, Int.mul_assoc]
  have hDpos : 0 < cfg.dur := by rw [hD]; exact Int.mul_pos (by omega) hT
  unfold ReqFits chunkCount chunkStartOf
  generalize hF : f * nsec = F
  generalize hfirst : F / cfg.dur * cfg.dur = first
  have h1 : first ≤ F := by rw [← hfirst]; exact Int.ediv_mul_le F (Int.ne_of_gt hDpos)
  have ha : 0 ≤ F - first := by omega
  have hq1 : 0 ≤ (F - first) / (cfg.step * nsec) := Int.ediv_nonneg ha (Int.le_of_lt hT)
  have hq2 : (F - first) / (cfg.step * nsec) * (cfg.step * nsec) ≤ F - first := Int.ediv_mul_le _ (Int.ne_of_gt hT)
  have hm0 : 0 ≤ (t - f) / cfg.step := Int.ediv_nonneg (by omega) (Int.le_of_lt hs)
  have hm1 : (t - f) / cfg.step * cfg.step = t - f := Int.ediv_mul_cancel (Int.dvd_of_emod_eq_zero hdiv)
  have hsm : (t - f) * nsec = t * nsec - f * nsec := Int.sub_mul _ _ _
  have hb : t * nsec - first = (F - first) + (t - f) * nsec := by omega
  have htf : 0 ≤ (t - f) * nsec := Int.mul_nonneg (by omega) (Int.le_of_lt hn)
  have hq3 : t * nsec - first ≤ (t * nsec - first + cfg.dur - 1) / cfg.dur * cfg.dur := by
    have := Int.lt_ediv_add_one_mul_self (t * nsec - first + cfg.dur - 1) hDpos
    rw [Int.add_mul, Int.one_mul] at this
    omega
  have hq4 : 0 ≤ (t * nsec - first + cfg.dur - 1) / cfg.dur := Int.ediv_nonneg (by omega) (Int.le_of_lt hDpos)
  -- everything to Int
  have key : (F - first) / (cfg.step * nsec) + (t - f) / cfg.step ≤ (t * nsec - first + cfg.dur - 1) / cfg.dur * cfg.K := by
    apply Int.le_of_mul_le_mul_right _ hT
    have e1 : ((F - first) / (cfg.step * nsec) + (t - f) / cfg.step) * (cfg.step * nsec) =
        (F - first) / (cfg.step * nsec) * (cfg.step * nsec) + (t - f) * nsec := by
      have e0 : (t - f) / cfg.step * (cfg.step * nsec) = (t - f) * nsec := by rw [← Int.mul_assoc, hm1]
      rw [Int.add_mul, e0]
    have e2 : (t * nsec - first + cfg.dur - 1) / cfg.dur * ↑cfg.K * (cfg.step * nsec) =
        (t * nsec - first + cfg.dur - 1) / cfg.dur * cfg.dur := by
      rw [Int.mul_assoc, ← hD]
    rw [e1, e2]
    omega
  have c1 : (((F - first) / (cfg.step * nsec)).toNat : Int) = (F - first) / (cfg.step * nsec) := Int.toNat_of_nonneg hq1
  have c2 : ((((t - f) / cfg.step).toNat : Nat) : Int) = (t - f) / cfg.step := Int.toNat_of_nonneg hm0
  have c3 : ((((t * nsec - first + cfg.dur - 1) / cfg.dur).toNat : Nat) : Int) = (t * nsec - first + cfg.dur - 1) / cfg.dur :=
    Int.toNat_of_nonneg hq4
  have : ((((F - first) / (cfg.step * nsec)).toNat + ((t - f) / cfg.step).toNat : Nat) : Int) ≤
      (((((t * nsec - first + cfg.dur - 1) / cfg.dur).toNat * cfg.K : Nat)) : Int) := by
    rw [Int.natCast_add, Int.natCast_mul, c1, c2, c3]; exact key
  exact Int.ofNat_le.mp this


def opLe : Op → Prop
  | .get _ _ _ _ f t _ => f ≤ t
  | _ => True

instance (op : Op) : Decidable (opLe op) := by cases op <;> simp only [opLe] <;> infer_instance

/-- request ids are fresh and every request has `from ≤ to` -/
def NiceOps : St → List Op → Prop
  | _, [] => True
  | s, op :: ops => (opFresh s op ∧ opLe op) ∧ NiceOps (step s op) ops

instance niceOpsDec : (s : St) → (ops : List Op) → Decidable (NiceOps s ops)
  | _, [] => isTrue trivial
  | s, op :: ops => @instDecidableAnd _ _ (by infer_instance) (niceOpsDec (step s op) ops)

theorem nice_good (ops : List Op) (s : St) (wf : WF s.cfg) (hs : 0 < s.cfg.step) (hK : 0 < s.cfg.K)
    (h : NiceOps s ops) : GoodOps s ops := by
  induction ops generalizing s with
  | nil => trivial
  | cons op ops ih =>
    refine ⟨⟨h.1.1, ?_⟩, ih _ (by rw [step_cfg]; exact wf) (by rw [step_cfg]; exact hs) (by rw [step_cfg]; exact hK) h.2⟩
    cases op with
    | get id key play force f t now => exact fun hd => reqFits_of_le s.cfg wf hs hK f t h.1.2 hd
    | _ => trivial

end SH.TsCache.Fill
