/-
  SH.Lemmas.C21Writer — C21, second round, target 3: the write side of ChunkedStorage2 under injected write failures,
  as a refinement theorem over ALL op lists.

  Abstract writer state: the list `done` of chunk bodies that are on disk before the write offset, the pending body, and the
  sticky error flag.  `astep` is the list-level meaning of ResetToStartOfFile / StartWriteChunk / FinishItem / finishChunk /
  FinishWriteChunk where every call may be told that WriteAt fails.  `Refines` ties the real (modelled) storage object to
  it: the first `offset` bytes of the file are exactly the encoding of `done`, `hash` is the chain hash of `done`.
-/
import SH.Lemmas.C21Base

namespace SH.C21
open SH.Chunked

inductive WOp
  | reset
  | start (magic : Nat)
  /-- append `b` to the chunk, then FinishItem; `fail` = WriteAt returns an error if it is called -/
  | item (b : Bytes) (fail : Bool)
  /-- append `b`, then finishChunk directly -/
  | flush (b : Bytes) (fail : Bool)
  | fin (fail : Bool)

def wstep (H : Bytes → Bytes) (s : St) : WOp → St
  | .reset => resetToStart s
  | .start m => startWrite m s
  | .item b f => (finishItem H f b s).1
  | .flush b f => (finishChunk H f { s with pending := s.pending ++ b }).1
  | .fin f => (finishWrite H f s).1

def wrun (H : Bytes → Bytes) (s : St) (ops : List WOp) : St := ops.foldl (wstep H) s

structure Abs where
  done : List Bytes := []
  pending : Bytes := []
  err : Bool := false
deriving DecidableEq, Repr

/-- finishChunk on the abstract state -/
def aflush (fail : Bool) (a : Abs) : Abs :=
  if a.pending.isEmpty then a
  else if a.err then { a with pending := [] }
  else if fail then { a with pending := [], err := true }
  else { a with done := a.done ++ [a.pending], pending := [] }

def astep (a : Abs) : WOp → Abs
  | .reset => { a with done := [], err := false }
  | .start _ => { a with pending := [] }
  | .item b f =>
    let a1 := { a with pending := a.pending ++ b }
    if a1.pending.length < halfChunk then a1
    else if a1.pending.length > chunkSize then a1
    else aflush f a1
  | .flush b f => aflush f { a with pending := a.pending ++ b }
  | .fin f => aflush f a

def arun (a : Abs) (ops : List WOp) : Abs := ops.foldl astep a

structure Refines (H : Bytes → Bytes) (magic : Nat) (s : St) (a : Abs) : Prop where
  magic_eq : s.magic = magic
  pending : s.pending = a.pending
  err : s.writeErr = a.err
  off : s.offset = (encodeAll H magic zeroHash a.done).length
  file : s.file.take s.offset = encodeAll H magic zeroHash a.done
  hash : s.hash = chain H magic zeroHash a.done

theorem refines_flush {H : Bytes → Bytes} (hH : ∀ x, (H x).length = 16) {magic : Nat} {s : St} {a : Abs} (fail : Bool)
    (h : Refines H magic s a) : Refines H magic (finishChunk H fail s).1 (aflush fail a) := by
  have hpe := h.pending
  have hee := h.err
  unfold finishChunk aflush
  by_cases hp : s.pending.isEmpty = true
  · have hp' : a.pending.isEmpty = true := by rw [← hpe]; exact hp
    simp only [hp, hp', if_true]; exact h
  · have hp' : ¬ a.pending.isEmpty = true := by rw [← hpe]; exact hp
    simp only [hp, hp', Bool.false_eq_true, if_false]
    by_cases he : s.writeErr = true
    · have he' : a.err = true := by rw [← hee]; exact he
      simp only [he, he', if_true]
      exact ⟨h.magic_eq, rfl, by first | rfl | exact h.err, h.off, h.file, h.hash⟩
    · have he' : ¬ a.err = true := by rw [← hee]; exact he
      simp only [he, he', Bool.false_eq_true, if_false]
      by_cases hf : fail = true
      · simp only [hf, if_true]
        exact ⟨h.magic_eq, rfl, rfl, h.off, h.file, h.hash⟩
      · simp only [hf, Bool.false_eq_true, if_false]
        have hsn := encodeAll_snoc H magic zeroHash a.done a.pending
        have key : encChunk H s.magic s.hash s.pending = encChunk H magic (chain H magic zeroHash a.done) a.pending := by
          rw [h.magic_eq, h.hash, h.pending]
        have hcl := encChunk_length H s.magic s.hash s.pending hH
        refine ⟨h.magic_eq, rfl, by first | rfl | exact h.err, ?_, ?_, ?_⟩
        · simp only
          rw [hsn.1, List.length_append, ← h.off, ← key, hcl, headerSize_val, hashSize_val]
        · simp only
          rw [hsn.1, ← key]
          have := writeAt_take s.file _ (encChunk H s.magic s.hash s.pending) s.offset h.file h.off.symm
          rw [hcl] at this
          rw [headerSize_val, hashSize_val]; exact this
        · simp only
          rw [hsn.2, h.magic_eq, h.hash, h.pending]

theorem refines_step {H : Bytes → Bytes} (hH : ∀ x, (H x).length = 16) {magic : Nat} {s : St} {a : Abs} (op : WOp)
    (h : Refines H magic s a) (hm : ∀ m, op = .start m → m = magic) :
    Refines H magic (wstep H s op) (astep a op) := by
  cases op with
  | reset =>
    exact ⟨h.magic_eq, h.pending, rfl, by simp [wstep, astep, resetToStart, encodeAll],
      by simp [wstep, astep, resetToStart, encodeAll], by simp [wstep, astep, resetToStart, chain]⟩
  | start m =>
    exact ⟨hm m rfl, rfl, h.err, h.off, h.file, h.hash⟩
  | item b f =>
    have h1 : Refines H magic { s with pending := s.pending ++ b } { a with pending := a.pending ++ b } :=
      ⟨h.magic_eq, by simp [h.pending], h.err, h.off, h.file, h.hash⟩
    have hl : (s.pending ++ b).length = (a.pending ++ b).length := by rw [h.pending]
    simp only [wstep, astep, finishItem, belowHalf, overFull]
    by_cases c1 : (s.pending ++ b).length < halfChunk
    · have c1' : (a.pending ++ b).length < halfChunk := by rw [← hl]; exact c1
      simp only [c1, c1', decide_true, if_true]
      exact h1
    · have c1' : ¬ (a.pending ++ b).length < halfChunk := by rw [← hl]; exact c1
      simp only [c1, c1', decide_false, Bool.false_eq_true, if_false]
      by_cases c2 : (s.pending ++ b).length > chunkSize
      · have c2' : (a.pending ++ b).length > chunkSize := by rw [← hl]; exact c2
        simp only [c2, c2', decide_true, if_true]
        exact h1
      · have c2' : ¬ (a.pending ++ b).length > chunkSize := by rw [← hl]; exact c2
        simp only [c2, c2', decide_false, Bool.false_eq_true, if_false]
        exact refines_flush hH f h1
  | flush b f =>
    exact refines_flush hH f ⟨h.magic_eq, by simp [h.pending], h.err, h.off, h.file, h.hash⟩
  | fin f =>
    have hf := refines_flush hH f h
    simp only [wstep, astep, finishWrite]
    split
    · exact hf
    · -- Truncate(offset): the prefix before the offset is untouched
      refine ⟨hf.magic_eq, hf.pending, hf.err, hf.off, ?_, hf.hash⟩
      simp only [List.take_take, Nat.min_self]
      exact hf.file

/-- C21 (write side, all op lists, any injected WriteAt failures): the bytes of the file before the write offset are
    always exactly the encoding of the chunks the abstract writer has accepted since the last reset; the sticky error flag,
    the pending body, the chain hash and the offset agree with the abstract writer. -/
theorem writer_refines {H : Bytes → Bytes} (hH : ∀ x, (H x).length = 16) (magic : Nat) (ops : List WOp) (s : St) (a : Abs)
    (h : Refines H magic s a) (hm : ∀ m, WOp.start m ∈ ops → m = magic) :
    Refines H magic (wrun H s ops) (arun a ops) := by
  induction ops generalizing s a with
  | nil => exact h
  | cons op ops ih =>
    exact ih _ _ (refines_step hH op h (fun m he => hm m (by simp [he])))
      (fun m hmem => hm m (List.mem_cons_of_mem _ hmem))

/-- after ResetToStartOfFile every storage object refines the empty abstract writer -/
theorem refines_after_reset (H : Bytes → Bytes) (s : St) :
    Refines H s.magic (resetToStart s) { pending := s.pending } :=
  ⟨rfl, rfl, rfl, by simp [resetToStart, encodeAll], by simp [resetToStart, encodeAll], by simp [resetToStart, chain]⟩

/-- while the error flag is set nothing reaches the disk: the accepted chunks stay what they were (until a reset) -/
theorem aflush_err_keeps_done (f : Bool) (a : Abs) (he : a.err = true) : (aflush f a).done = a.done ∧ (aflush f a).err = true := by
  unfold aflush
  split
  · exact ⟨rfl, he⟩
  · simp [he]

theorem astep_err_keeps_done (a : Abs) (op : WOp) (he : a.err = true) (hr : op ≠ .reset) :
    (astep a op).done = a.done ∧ (astep a op).err = true := by
  cases op with
  | reset => exact absurd rfl hr
  | start m => exact ⟨rfl, he⟩
  | item b f =>
    simp only [astep]
    split
    · exact ⟨rfl, he⟩
    · split
      · exact ⟨rfl, he⟩
      · exact aflush_err_keeps_done f _ he
  | flush b f => exact aflush_err_keeps_done f _ he
  | fin f => exact aflush_err_keeps_done f _ he

/-- `writeErr` discards: after a failed WriteAt, whatever the caller does (short of ResetToStartOfFile) the chunks on disk
    before the offset stay exactly those written before the failure -/
theorem arun_err_keeps_done (a : Abs) (ops : List WOp) (he : a.err = true) (hr : ∀ op ∈ ops, op ≠ .reset) :
    (arun a ops).done = a.done ∧ (arun a ops).err = true := by
  induction ops generalizing a with
  | nil => exact ⟨rfl, he⟩
  | cons op ops ih =>
    have h1 := astep_err_keeps_done a op he (hr op (by simp))
    have h2 := ih (astep a op) h1.2 (fun o ho => hr o (List.mem_cons_of_mem _ ho))
    exact ⟨by simp only [arun, List.foldl_cons] at h2 ⊢; rw [h2.1, h1.1], h2.2⟩

/-- a FinishWriteChunk that reports no error leaves a file that is EXACTLY the encoding of the accepted chunks -/
theorem fin_ok_whole_file {H : Bytes → Bytes} (hH : ∀ x, (H x).length = 16) {magic : Nat} {s : St} {a : Abs} (f : Bool)
    (h : Refines H magic s a) (hok : (finishWrite H f s).2 = .none) :
    (finishWrite H f s).1.file = encodeAll H magic zeroHash (astep a (.fin f)).done := by
  have hf := refines_flush hH f h
  by_cases hc : ((finishChunk H f s).2 != WErr.none) = true
  · have : (finishWrite H f s).2 = (finishChunk H f s).2 := by simp [finishWrite, hc]
    rw [this] at hok; rw [hok] at hc; simp at hc
  · have : (finishWrite H f s).1.file = (finishChunk H f s).1.file.take (finishChunk H f s).1.offset := by
      simp [finishWrite, hc]
    rw [this]; simp only [astep]; exact hf.file

/-- what a reader sees after ANY write history with failures: every accepted chunk, in order, first
    (chunks of at most ChunkSize bytes — FinishItem never flushes more; a caller who flushes an over-long chunk after a
    "too big item(s)" error gets a file the reader rejects at that chunk) -/
theorem reader_sees_accepted_chunks {H : Bytes → Bytes} {magic : Nat} (P : Params H magic) {s : St} {a : Abs}
    (h : Refines H magic s a) (hsz : ∀ b ∈ a.done, b.length ≤ chunkSize) :
    ∃ more, (readAll H magic zeroHash s.file).1 = a.done ++ more := by
  have hsplit : s.file = encodeAll H magic zeroHash a.done ++ s.file.drop s.offset := by
    conv => lhs; rw [← List.take_append_drop s.offset s.file]
    rw [h.file]
  rw [hsplit, readAll_encodeAll_append P a.done hsz]
  exact ⟨_, rfl⟩

/-! ### non-vacuity: a write history with a failed WriteAt in the middle -/

def demoW : List WOp := [.start 7, .flush [1, 2] false, .item [3] true, .flush [] true, .flush [4] false, .fin false]

/-- chunk [1,2] is written; the flush of [3] hits the injected failure; [4] is discarded by the sticky error -/
example : arun {} demoW = { done := [[1, 2]], pending := [], err := true } := by decide

example : Refines toyH 7 (wrun toyH (resetToStart (startWrite 7 (new []))) demoW) (arun {} demoW) :=
  writer_refines toy_params.hlen 7 demoW _ _ (refines_after_reset toyH (startWrite 7 (new [])))
    (by intro m hm; simp [demoW] at hm; exact hm)

example : ∃ more, (readAll toyH 7 zeroHash (wrun toyH (resetToStart (startWrite 7 (new []))) demoW).file).1 = [[1, 2]] ++ more :=
  reader_sees_accepted_chunks toy_params
    (writer_refines toy_params.hlen 7 demoW _ _ (refines_after_reset toyH (startWrite 7 (new [])))
      (by intro m hm; simp [demoW] at hm; exact hm))
    (by decide)

end SH.C21
