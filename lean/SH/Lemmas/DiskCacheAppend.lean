import SH.Lemmas.DiskCacheNewFile

namespace SH.C09
open SH.DiskCache

/-! ### PutBucket, step 3: append the record to the writing file -/

theorem writeAt_end (f d : Bytes) : writeAt f f.length d = f ++ d := by
  unfold writeAt
  simp

theorem mapDisk_id_of_ne (d : List DFile) (n : Nat) (g : Bytes → Bytes) (h : ∀ x ∈ d, x.name ≠ n) : mapDisk d n g = d := by
  unfold mapDisk
  conv => rhs; rw [← List.map_id d]
  apply List.map_congr_left
  intro x hx
  simp [h x hx]

theorem eq_dropLast_append {α} (l : List α) (x : α) (h : l.getLast? = some x) : l = l.dropLast ++ [x] := by
  have hne : l ≠ [] := by intro e; subst e; simp at h
  have := List.dropLast_concat_getLast hne
  rw [List.getLast?_eq_some_getLast hne] at h
  simp at h
  rw [h] at this
  exact this.symm

def putRec (a : Abs) (time : Nat) (data : Bytes) : ARec := ⟨magicGood, time, data, some (a.lastID + 1)⟩

def Abs.appendA (a : Abs) (f : AFile) (time : Nat) (data : Bytes) : Abs :=
  { a with new := a.new.dropLast ++ [f.setRecs (f.recs ++ [putRec a time data])], lastID := a.lastID + 1 }

theorem inv_append (cfg : Cfg) (s : Shard) (a : Abs) (inv : Inv cfg s a) (w : Nat) (o : OFile)
    (hw : s.writing = some w) (ho : findO s.ofiles w = some o) (time : Nat) (data : Bytes)
    (ht : time < 2 ^ 32) (hdl : data.length ≤ maxChunkSize) (hcrc : cfg.crc data < 2 ^ 32) :
    ∃ a', Inv cfg (appendRec cfg s w o time data) a' ∧
      a'.live cfg = a.live cfg ++ [(some (a.lastID + 1), time, data)] ∧ a'.lastID = a.lastID + 1 ∧
      ∃ (F0 : List AFile) (f : AFile), a'.files = F0 ++ [f.setRecs (f.recs ++ [putRec a time data])] ∧ f.tl = [] := by
  obtain ⟨f, hwt, hl, hfn, hfnew, hff, hwn, o', ho', horc, hosz, hon⟩ := inv.writing_view hw
  rw [ho] at ho'; cases ho'
  subst hfn
  let r := putRec a time data
  let f' := f.setRecs (f.recs ++ [r])
  let n0 := a.new.dropLast
  have hnew : a.new = n0 ++ [f] := eq_dropLast_append a.new f hl
  obtain ⟨F0, hF0⟩ : ∃ F0, F0 = a.pre ++ (a.curL ++ (a.wait ++ n0)) := ⟨_, rfl⟩
  have hfilesA : a.files = F0 ++ [f] := by simp [Abs.files, hF0, hnew]
  have hfilesA' : (a.appendA f time data).files = F0 ++ [f'] := by
    simp [Abs.files, Abs.appendA, hF0, n0, f', r, Abs.curL]
  have hF0ne : ∀ g ∈ F0, g.name ≠ f.name := by
    have hnd := pairwise_lt_ne inv.names
    rw [hfilesA, List.map_append, List.nodup_append] at hnd
    intro g hg
    exact hnd.2.2 g.name (List.mem_map.mpr ⟨g, hg, rfl⟩) f.name (by simp)
  have htl : f.tl = [] := inv.newTl f hfnew
  have hrwf : r.WF cfg := by
    refine ⟨by show magicGood < 2 ^ 32; decide, ht, hdl, hcrc, fun _ => rfl, fun _ => isDeleted_good cfg⟩
  have hrd : r.dead cfg = false := isDeleted_good cfg
  have hbytes' : f'.bytes cfg = f.bytes cfg ++ r.enc cfg := by
    simp [f', AFile.bytes, AFile.setRecs, encRecs_append, encRecs, htl]
  have hsize' : f'.size cfg = f.size cfg + (headerSize + data.length) := by
    simp [AFile.size, hbytes', ARec.enc_length, ARec.len, r, putRec]
  let nb : Bucket := ⟨a.lastID + 1, f.name, f.size cfg, time, data.length, cfg.crc data⟩
  have hfsz : f.size cfg = recsLen f.recs := by simp [AFile.size, AFile.bytes, htl, encRecs_length]
  have hfb' : fbuckets cfg f' = fbuckets cfg f ++ [nb] := by
    simp [fbuckets, f', AFile.setRecs, bucketsAt_append, bucketsAt, bucketOf, r, putRec, nb, hfsz]
  have hB : a.buckets cfg = F0.flatMap (fbuckets cfg) ++ fbuckets cfg f := by
    simp [Abs.buckets, hfilesA, List.flatMap_append]
  have hB' : (a.appendA f time data).buckets cfg = a.buckets cfg ++ [nb] := by
    rw [hB]; simp [Abs.buckets, hfilesA', List.flatMap_append, hfb']
  have hrn : (a.appendA f time data).rname = a.rname := rfl
  have hwn' : (a.appendA f time data).wname = a.wname := by
    simp [Abs.wname, Abs.appendA, hwn, hwt, hl, f', AFile.setRecs]
  have hrefs : ∀ g, (a.appendA f time data).refs g = (idc g.recs : Int) + (if a.rname = some g.name then 1 else 0) + (if a.wname = some g.name then 1 else 0) := by
    intro g; simp only [Abs.refs, hrn, hwn']
  have hidc' : idc f'.recs = idc f.recs + 1 := by
    simp [f', AFile.setRecs, idc_append, idc, List.filter_cons, hasId, r, putRec]
  have hrefsf : (a.appendA f time data).refs f' = a.refs f + 1 := by
    rw [hrefs]; simp only [Abs.refs, hidc']
    have : f'.name = f.name := rfl
    rw [this]; push_cast; omega
  have hmem' : ∀ g, g ∈ (a.appendA f time data).files ↔ g ∈ F0 ∨ g = f' := by
    intro g; rw [hfilesA']; simp
  have hmemA : ∀ g, g ∈ a.files ↔ g ∈ F0 ∨ g = f := by
    intro g; rw [hfilesA]; simp
  have hs : appendRec cfg s f.name o time data =
      { s with
        disk := mapDisk s.disk f.name (fun b => writeAt b o.size (encHeader magicGood time data.length (cfg.crc data) ++ data))
        ofiles := mapO s.ofiles f.name (fun g => { g with refCount := g.refCount + 1, size := g.size + (headerSize + data.length) })
        total := s.total + ((headerSize + data.length : Nat) : Int)
        knownSize := s.knownSize + ((headerSize + data.length : Nat) : Int)
        lastID := s.lastID + 1
        known := { id := s.lastID + 1, file := f.name, pos := o.size, time := time, size := data.length, crc := cfg.crc data } :: s.known } := rfl
  rw [hs]
  refine ⟨a.appendA f time data, ?_, ?_, rfl, F0, f, hfilesA', htl⟩
  · refine { disk := ?_, clock := inv.clock, lastID := ?_, names := ?_, namesLt := ?_, wf := ?_, newTl := ?_,
             preRead := inv.preRead, newRead := ?_, waitIds := inv.waitIds, curOk := inv.curOk, idsLe := ?_, idsNodup := ?_,
             known := ?_, ofiles := ?_, reading := inv.reading, writing := ?_, writingSome := ?_, waiting := inv.waiting,
             total := ?_, knownSize := ?_, waitingSize := inv.waitingSize, present := ?_ }
    · show (mapDisk s.disk f.name fun b => writeAt b o.size (encHeader magicGood time data.length (cfg.crc data) ++ data)) = _
      rw [hfilesA', inv.disk, hfilesA, List.map_append, List.map_append]
      have e : mapDisk (F0.map (AFile.render cfg) ++ [f].map (AFile.render cfg)) f.name
          (fun b => writeAt b o.size (encHeader magicGood time data.length (cfg.crc data) ++ data)) =
          mapDisk (F0.map (AFile.render cfg)) f.name (fun b => writeAt b o.size (encHeader magicGood time data.length (cfg.crc data) ++ data)) ++
          mapDisk ([f].map (AFile.render cfg)) f.name (fun b => writeAt b o.size (encHeader magicGood time data.length (cfg.crc data) ++ data)) := by
        simp [mapDisk]
      rw [e, mapDisk_id_of_ne _ _ _ (by
        intro x hx; obtain ⟨g, hg, rfl⟩ := List.mem_map.mp hx; exact hF0ne g hg)]
      congr 1
      simp only [mapDisk, List.map_cons, List.map_nil, AFile.render]
      simp only [beq_self_eq_true, if_true]
      rw [hosz]
      have : f.size cfg = (f.bytes cfg).length := rfl
      rw [this, writeAt_end, hbytes']
      rfl
    · show s.lastID + 1 = _; rw [inv.lastID]; rfl
    · rw [hfilesA']; have := inv.names; rw [hfilesA] at this; simpa [f', AFile.setRecs] using this
    · intro g hg
      rcases (hmem' g).mp hg with h | h
      · exact inv.namesLt g ((hmemA g).mpr (Or.inl h))
      · subst h; exact inv.namesLt f hff
    · intro g hg
      rcases (hmem' g).mp hg with h | h
      · exact inv.wf g ((hmemA g).mpr (Or.inl h))
      · subst h
        obtain ⟨h1, h2⟩ := inv.wf f hff
        refine ⟨?_, h2⟩
        intro q hq
        simp only [f', AFile.setRecs, List.mem_append, List.mem_singleton] at hq
        rcases hq with h | h
        · exact h1 q h
        · subst h; exact hrwf
    · intro g hg
      simp only [Abs.appendA, List.mem_append, List.mem_singleton] at hg
      rcases hg with h | h
      · exact inv.newTl g (by rw [hnew]; simp [n0] at h ⊢; exact Or.inl h)
      · subst h; exact htl
    · intro g hg q hq
      simp only [Abs.appendA, List.mem_append, List.mem_singleton] at hg
      rcases hg with h | h
      · exact inv.newRead g (by rw [hnew]; simp [n0] at h ⊢; exact Or.inl h) q hq
      · subst h
        simp only [AFile.setRecs, List.mem_append, List.mem_singleton] at hq
        rcases hq with h | h
        · exact inv.newRead f hfnew q h
        · subst h; simp [unread, hasId, putRec]
    · rw [hB']; intro x hx
      rcases List.mem_append.mp hx with h | h
      · have := inv.idsLe x h; simp [Abs.appendA]; omega
      · simp at h; subst h; simp [Abs.appendA, nb]
    · rw [hB', List.map_append, List.nodup_append]
      refine ⟨inv.idsNodup, by simp, ?_⟩
      intro x hx y hy
      obtain ⟨x0, hx0, rfl⟩ := List.mem_map.mp hx
      simp [nb] at hy; subst hy
      have := inv.idsLe x0 hx0; omega
    · intro x
      rw [hB']
      show x ∈ _ :: s.known ↔ _
      simp only [List.mem_cons, List.mem_append, List.mem_singleton, inv.known x, inv.lastID, hosz]
      constructor
      · rintro (h | h)
        · right; left; exact h
        · left; exact h
      · rintro (h | h | h)
        · right; exact h
        · left; exact h
        · simp at h
    · intro name
      by_cases hn : name = f.name
      · subst hn
        rw [findO_mapO s.ofiles f.name (fun g => { g with refCount := g.refCount + 1, size := g.size + (headerSize + data.length) }) o (fun _ => rfl) ho]
        refine ⟨hon, f', (hmem' f').mpr (Or.inr rfl), rfl, ?_, ?_, ?_, ?_⟩
        · rw [hrefsf]; simp [horc]
        · rw [hrefsf]; have := Abs.refs_nonneg a f; omega
        · rw [hsize']; simp [hosz]
        · intro j h
          exfalso
          have hc : a.cur = some (f', j) := h
          have h1 : f' ∈ a.files := by simp [Abs.files, Abs.curL, hc]
          rcases (hmemA f').mp h1 with h2 | h2
          · exact hF0ne f' h2 rfl
          · have := congrArg (fun x => x.recs.length) h2
            simp [f', AFile.setRecs] at this
      · rw [findO_mapO_ne s.ofiles f.name name (fun g => { g with refCount := g.refCount + 1, size := g.size + (headerSize + data.length) }) (fun _ => rfl) hn]
        have h0 := inv.ofiles name
        split
        · rename_i hnone
          rw [hnone] at h0
          intro g hg hgn
          rcases (hmem' g).mp hg with h | h
          · rw [hrefs]; exact h0 g ((hmemA g).mpr (Or.inl h)) hgn
          · subst h; exact absurd hgn.symm hn
        · rename_i o2 hsome
          rw [hsome] at h0
          obtain ⟨ho2, g, hg, hgn, hrc, hpos, hsz, hcur⟩ := h0
          have hgF0 : g ∈ F0 := by
            rcases (hmemA g).mp hg with h | h
            · exact h
            · subst h; exact absurd hgn.symm hn
          exact ⟨ho2, g, (hmem' g).mpr (Or.inl hgF0), hgn, by rw [hrefs]; exact hrc, by rw [hrefs]; exact hpos, hsz, hcur⟩
    · show s.writing = _; rw [hwn']; exact inv.writing
    · intro _; simp [Abs.appendA]
    · show s.total + _ = _
      rw [hfilesA', inv.total, hfilesA]; simp only [sizeSum, List.map_append, List.sum_append, List.map_cons, List.map_nil, List.sum_cons, List.sum_nil, hsize']
      push_cast; omega
    · show s.knownSize + _ = _
      rw [hB', inv.knownSize]; simp [bsize, nb]; omega
    · intro g hg
      have hg' : g ∈ a.pre ++ n0 ∨ g = f' := by
        simp only [Abs.appendA, List.mem_append, List.mem_singleton] at hg ⊢
        rcases hg with h | h | h
        · exact Or.inl (Or.inl h)
        · exact Or.inl (Or.inr h)
        · exact Or.inr h
      rcases hg' with h | h
      · rw [hrefs]
        exact inv.present g (by rw [hnew]; simp only [List.mem_append] at h ⊢; rcases h with h | h; exact Or.inl h; exact Or.inr (Or.inl h))
      · subst h; rw [hrefsf]; have := Abs.refs_nonneg a f; omega
  · unfold Abs.live
    rw [hfilesA', hfilesA]
    simp only [List.flatMap_append, List.flatMap_cons, List.flatMap_nil, List.append_nil]
    have : fLive cfg f' = fLive cfg f ++ [(some (a.lastID + 1), time, data)] := by
      simp [fLive, f', AFile.setRecs, liveRecs_append, liveRecs, r, putRec, ARec.dead, isDeleted_good]
    rw [this]; simp

end SH.C09
