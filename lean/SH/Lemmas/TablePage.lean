/-
  SH.Lemmas.TablePage — the window of a table pass as a sorted list (property C25, "sorted in the requested direction,
  the requested row window and limit are respected"): under the storage-order contract the window rows of a pass are
  visited in the requested total order, they are all the stored rows inside the window (LOD skipping loses none), and a
  strictly sorted list is determined by its members.
-/
import SH.Lemmas.TableOrder

namespace SH.C25
open SH.Table

/-- the requested total order on row keys: queryTableRows.Less on the row markers, reversed for fromEnd -/
def keyBefore (q : Req) (a b : Key) : Prop :=
  (if q.win.fromEnd then less (reprOf q b) (reprOf q a) else less (reprOf q a) (reprOf q b)) = true

def rowBefore (q : Req) (a b : Row) : Prop := keyBefore q a.key b.key

instance (q : Req) (a b : Key) : Decidable (keyBefore q a b) := by unfold keyBefore; exact inferInstance
instance (q : Req) (a b : Row) : Decidable (rowBefore q a b) := by unfold rowBefore; exact inferInstance

theorem keyBefore_irrefl (q : Req) (a : Key) : ¬ keyBefore q a a := by
  unfold keyBefore
  intro h
  split at h <;> exact less_asymm _ _ h h

theorem keyBefore_asymm (q : Req) (a b : Key) (h : keyBefore q a b) : ¬ keyBefore q b a := by
  unfold keyBefore at *
  by_cases hf : q.win.fromEnd = true
  · simp only [hf, if_true] at h ⊢; exact less_asymm _ _ h
  · simp only [hf] at h ⊢; exact less_asymm _ _ h

theorem less_trans (a b c : RowRepr) (h1 : less a b = true) (h2 : less b c = true) : less a c = true := by
  rcases less_negtrans a c b h1 with g | g
  · exact g
  · exact absurd g (less_asymm _ _ h2)

theorem keyBefore_trans (q : Req) (a b c : Key) (h1 : keyBefore q a b) (h2 : keyBefore q b c) : keyBefore q a c := by
  unfold keyBefore at *
  by_cases hf : q.win.fromEnd = true
  · simp only [hf, if_true] at h1 h2 ⊢; exact less_trans _ _ _ h2 h1
  · simp only [hf] at h1 h2 ⊢; exact less_trans _ _ _ h1 h2

/-- a strictly sorted list is determined by its members -/
theorem eq_of_sorted_same_mem {α} (R : α → α → Prop) (irr : ∀ a, ¬ R a a) (tr : ∀ a b c, R a b → R b c → R a c) :
    ∀ (l1 l2 : List α), l1.Pairwise R → l2.Pairwise R → (∀ x, x ∈ l1 ↔ x ∈ l2) → l1 = l2 := by
  intro l1
  induction l1 with
  | nil =>
    intro l2 _ _ hm
    cases l2 with
    | nil => rfl
    | cons b u => exact absurd ((hm b).2 (by simp)) (by simp)
  | cons a t ih =>
    intro l2 h1 h2 hm
    cases l2 with
    | nil => exact absurd ((hm a).1 (by simp)) (by simp)
    | cons b u =>
      have p1 := List.pairwise_cons.1 h1
      have p2 := List.pairwise_cons.1 h2
      have hab : a = b := by
        by_cases e : a = b
        · exact e
        · have ha : a ∈ u := by
            have := (hm a).1 (by simp)
            simp only [List.mem_cons] at this
            rcases this with g | g
            · exact absurd g e
            · exact g
          have hb : b ∈ t := by
            have := (hm b).2 (by simp)
            simp only [List.mem_cons] at this
            rcases this with g | g
            · exact absurd g.symm e
            · exact g
          exact absurd (tr a b a (p1.1 b hb) (p2.1 a ha)) (irr a)
      subst hab
      have : t = u := by
        apply ih u p1.2 p2.2
        intro x
        constructor
        · intro hx
          have := (hm x).1 (by simp [hx])
          simp only [List.mem_cons] at this
          rcases this with g | g
          · subst g; exact absurd (p1.1 x hx) (irr x)
          · exact g
        · intro hx
          have := (hm x).2 (by simp [hx])
          simp only [List.mem_cons] at this
          rcases this with g | g
          · subst g; exact absurd (p2.1 x hx) (irr x)
          · exact g
      rw [this]

/-- **storage-order contract**: the rows of the storage answers of one function, taken in visiting order (LODs, time
    groups and rows as getTableFromLODs/limitQueries walk them), come in the requested total order. This is what a
    time-sliced storage returns when every answer is sorted by (time, group-by keys) in the requested direction — the
    ORDER BY text the query builder generates — and the LODs are passed in ascending time order. -/
def VisitSorted (q : Req) (answers : List (Lod × Option (List (List Row)))) : Prop :=
  ((dir q.win.fromEnd answers).flatMap (fun a => (dir q.win.fromEnd (a.2.getD [])).flatten)).Pairwise (rowBefore q)

/-- rows lie inside the time range of the LOD whose answer returned them -/
def InLod (answers : List (Lod × Option (List (List Row)))) : Prop :=
  ∀ a ∈ answers, ∀ g ∈ a.2.getD [], ∀ r ∈ g, a.1.frm ≤ r.key.time ∧ r.key.time ≤ a.1.to

theorem window_sorted (q : Req) (answers : List (Lod × Option (List (List Row)))) (h : VisitSorted q answers) :
    (candRows q (dir q.win.fromEnd answers)).Pairwise (rowBefore q) :=
  List.Pairwise.sublist (candRows_sublist q _) h

theorem mem_storedRows : ∀ (answers : List (Lod × Option (List (List Row)))) (r : Row),
    r ∈ storedRows answers ↔ ∃ a ∈ answers, ∃ g ∈ a.2.getD [], r ∈ g := by
  intro answers
  induction answers with
  | nil => intro r; simp [storedRows]
  | cons a rest ih =>
    intro r
    obtain ⟨l, ans⟩ := a
    simp only [storedRows, List.mem_append, List.mem_flatten, ih, List.mem_cons, exists_eq_or_imp]

theorem mem_candRows (q : Req) : ∀ (l : List (Lod × Option (List (List Row)))) (r : Row),
    r ∈ candRows q l ↔ ∃ a ∈ l, lodSkipped q a.1 = false ∧ r ∈ windowRows q.win (a.2.getD []) := by
  intro l
  induction l with
  | nil => intro r; simp [candRows]
  | cons a rest ih =>
    intro r
    obtain ⟨lod, ans⟩ := a
    simp only [candRows]
    by_cases hs : lodSkipped q lod = true
    · simp [hs, ih]
    · have hs' : lodSkipped q lod = false := by simpa using hs
      simp [hs', ih]

theorem mem_windowRows (w : Win) (groups : List (List Row)) (r : Row) :
    r ∈ windowRows w groups ↔ (∃ g ∈ groups, r ∈ g) ∧ inRange w r = true := by
  simp only [windowRows, List.mem_filter, List.mem_flatten]
  constructor
  · rintro ⟨⟨g, hg, hr⟩, hin⟩; exact ⟨⟨g, (mem_dir _ _ _).1 hg, hr⟩, hin⟩
  · rintro ⟨⟨g, hg, hr⟩, hin⟩; exact ⟨⟨g, (mem_dir _ _ _).2 hg, hr⟩, hin⟩

/-- LOD skipping loses no window row: a LOD that holds a row of the window (inside its own time range) is visited -/
theorem not_skipped_of_window_row (q : Req) (l : Lod) (r : Row) (hin : inRange q.win r = true) (h0 : 0 ≤ r.key.time)
    (hl : l.frm ≤ r.key.time ∧ r.key.time ≤ l.to) : lodSkipped q l = false := by
  have hts := inRange_not_timeSkipped q r hin h0
  simp only [timeSkipped, aboveTo, Bool.or_eq_false_iff, Bool.and_eq_false_iff, bne_eq_false_iff_eq,
    decide_eq_false_iff_not] at hts
  simp only [lodSkipped, aboveTo, Bool.or_eq_false_iff, Bool.and_eq_false_iff, bne_eq_false_iff_eq,
    decide_eq_false_iff_not]
  obtain ⟨h1, h2⟩ := hts
  refine ⟨?_, by omega⟩
  rcases h1 with h1 | h1
  · exact Or.inl h1
  · exact Or.inr (by omega)

/-- the window of a pass is the set of ALL stored rows (of all LODs) that lie in the requested window -/
theorem window_complete (q : Req) (answers : List (Lod × Option (List (List Row)))) (hl : InLod answers)
    (h0 : ∀ r ∈ storedRows answers, 0 ≤ r.key.time) (r : Row) :
    r ∈ candRows q (dir q.win.fromEnd answers) ↔ r ∈ storedRows answers ∧ inRange q.win r = true := by
  rw [mem_candRows, mem_storedRows]
  constructor
  · rintro ⟨a, ha, _, hr⟩
    obtain ⟨⟨g, hg, hrg⟩, hin⟩ := (mem_windowRows _ _ _).1 hr
    exact ⟨⟨a, (mem_dir _ _ _).1 ha, g, hg, hrg⟩, hin⟩
  · rintro ⟨⟨a, ha, g, hg, hrg⟩, hin⟩
    refine ⟨a, (mem_dir _ _ _).2 ha, ?_, (mem_windowRows _ _ _).2 ⟨⟨g, hg, hrg⟩, hin⟩⟩
    exact not_skipped_of_window_row q a.1 r hin (h0 r ((mem_storedRows _ _).2 ⟨a, ha, g, hg, hrg⟩)) (hl a ha g hg r hrg)

/-! ### the contract in terms of the storage answers themselves -/

/-- what a time-sliced storage returns for the generated query text: LODs in ascending time order with every row of an
    earlier LOD earlier than every row of a later one, time groups in ascending time, and the rows of one time group in
    the requested total order (ORDER BY … every key ASC, resp. every key DESC) -/
def StorageContract (q : Req) (answers : List (Lod × Option (List (List Row)))) : Prop :=
  answers.Pairwise (fun a b => ∀ g ∈ a.2.getD [], ∀ r ∈ g, ∀ h ∈ b.2.getD [], ∀ s ∈ h, r.key.time < s.key.time) ∧
  (∀ a ∈ answers, (a.2.getD []).Pairwise (fun g h => ∀ r ∈ g, ∀ s ∈ h, r.key.time < s.key.time)) ∧
  (∀ a ∈ answers, ∀ g ∈ a.2.getD [], g.Pairwise (rowBefore q))

theorem rowBefore_of_time (q : Req) (r s : Row) (h : r.key.time < s.key.time) :
    if q.win.fromEnd then rowBefore q s r else rowBefore q r s := by
  have hl : less (reprOf q r.key) (reprOf q s.key) = true := (less_iff _ _).2 (Or.inl (by simpa [reprOf] using h))
  by_cases hf : q.win.fromEnd = true
  · simp only [hf, if_true, rowBefore, keyBefore]; exact hl
  · simp only [hf, rowBefore, keyBefore]; simpa using hl

theorem groups_rowBefore (q : Req) (gs : List (List Row))
    (h1 : gs.Pairwise (fun g h => ∀ r ∈ g, ∀ s ∈ h, r.key.time < s.key.time))
    (h2 : ∀ g ∈ gs, g.Pairwise (rowBefore q)) :
    ((dir q.win.fromEnd gs).flatten).Pairwise (rowBefore q) := by
  by_cases hf : q.win.fromEnd = true
  · simp only [dir, hf, if_true]
    refine List.pairwise_flatten.2 ⟨fun g hg => h2 g (by simpa using hg), ?_⟩
    rw [List.pairwise_reverse]
    refine h1.imp ?_
    intro g h hgh x hx y hy
    have := rowBefore_of_time q y x (hgh y hy x hx)
    simpa [hf] using this
  · simp only [dir, hf]
    refine List.pairwise_flatten.2 ⟨fun g hg => h2 g (by simpa using hg), ?_⟩
    refine h1.imp ?_
    intro g h hgh x hx y hy
    have := rowBefore_of_time q x y (hgh x hx y hy)
    simpa [hf] using this

theorem visitSorted_of_contract (q : Req) (answers : List (Lod × Option (List (List Row))))
    (h : StorageContract q answers) : VisitSorted q answers := by
  obtain ⟨h1, h2, h3⟩ := h
  have mem_flat : ∀ (a : Lod × Option (List (List Row))) (x : Row),
      x ∈ (dir q.win.fromEnd (a.2.getD [])).flatten → ∃ g ∈ a.2.getD [], x ∈ g := by
    intro a x hx
    simp only [List.mem_flatten] at hx
    obtain ⟨g, hg, hxg⟩ := hx
    exact ⟨g, (mem_dir _ _ _).1 hg, hxg⟩
  unfold VisitSorted
  rw [List.flatMap_def]
  refine List.pairwise_flatten.2 ⟨?_, ?_⟩
  · intro l hl
    simp only [List.mem_map] at hl
    obtain ⟨a, ha, rfl⟩ := hl
    have ha' := (mem_dir _ _ _).1 ha
    exact groups_rowBefore q _ (h2 a ha') (h3 a ha')
  · rw [List.pairwise_map]
    by_cases hf : q.win.fromEnd = true
    · simp only [dir, hf, if_true]
      rw [List.pairwise_reverse]
      refine h1.imp ?_
      intro a b hab x hx y hy
      obtain ⟨g, hg, hxg⟩ := mem_flat b x (by simpa [dir, hf] using hx)
      obtain ⟨g', hg', hyg⟩ := mem_flat a y (by simpa [dir, hf] using hy)
      have := rowBefore_of_time q y x (hab g' hg' y hyg g hg x hxg)
      simpa [hf] using this
    · simp only [dir, hf]
      refine h1.imp ?_
      intro a b hab x hx y hy
      obtain ⟨g, hg, hxg⟩ := mem_flat a x (by simpa [dir, hf] using hx)
      obtain ⟨g', hg', hyg⟩ := mem_flat b y (by simpa [dir, hf] using hy)
      have := rowBefore_of_time q x y (hab g hg x hxg g' hg' y hyg)
      simpa [hf] using this

end SH.C25
