import SH.Lemmas.DiskCacheRotate

namespace SH.C09
open SH.DiskCache

/-! ### PutBucket, step 2: a new file named by the clock -/

def Abs.newA (a : Abs) : Abs :=
  { a with new := a.new ++ [⟨a.clock, [], []⟩], writing := true, clock := a.clock + 1 }

theorem inv_newfile (cfg : Cfg) (s : Shard) (a : Abs) (inv : Inv cfg s a) (hw : s.writing = none) :
    Inv cfg (ensureWriting s) a.newA := by
  let nf : AFile := ⟨a.clock, [], []⟩
  have hwn : a.wname = none := by rw [← inv.writing]; exact hw
  have hfiles : a.newA.files = a.files ++ [nf] := by simp [Abs.files, Abs.curL, Abs.newA, nf]
  have hb : a.newA.buckets cfg = a.buckets cfg := by
    simp [Abs.buckets, hfiles, List.flatMap_append, fbuckets, bucketsAt, nf]
  have hrn : a.newA.rname = a.rname := rfl
  have hwn' : a.newA.wname = some a.clock := by simp [Abs.wname, Abs.newA]
  have hlt : ∀ g ∈ a.files, g.name ≠ a.clock := fun g hg => Nat.ne_of_lt (inv.namesLt g hg)
  have hrefs : ∀ g ∈ a.files, a.newA.refs g = a.refs g := by
    intro g hg
    have : a.clock ≠ g.name := fun e => hlt g hg e.symm
    simp [Abs.refs, hrn, hwn', hwn, this]
  have hrne : a.rname ≠ some a.clock := by
    intro h
    cases hc : a.cur with
    | none => simp [Abs.rname, hc] at h
    | some p =>
      simp [Abs.rname, hc] at h
      exact hlt p.1 (by simp [Abs.files, Abs.curL, hc]) h
  have hs : ensureWriting s =
      { s with
        disk := s.disk ++ [{ name := s.clock, bytes := [] }]
        ofiles := { name := s.clock, nextPos := 0, size := 0, refCount := 1 } :: s.ofiles
        writing := some s.clock
        clock := s.clock + 1 } := by
    simp [ensureWriting, hw]
  rw [hs]
  refine { disk := ?_, clock := ?_, lastID := inv.lastID, names := ?_, namesLt := ?_, wf := ?_, newTl := ?_,
           preRead := inv.preRead, newRead := ?_, waitIds := inv.waitIds, curOk := inv.curOk, idsLe := ?_, idsNodup := ?_,
           known := ?_, ofiles := ?_, reading := inv.reading, writing := ?_, writingSome := ?_, waiting := inv.waiting,
           total := ?_, knownSize := ?_, waitingSize := inv.waitingSize, present := ?_ }
  · rw [hfiles]; simp [inv.disk, inv.clock, AFile.render, AFile.bytes, encRecs, nf]
  · simp [Abs.newA, inv.clock]
  · rw [hfiles, List.map_append, List.pairwise_append]
    refine ⟨inv.names, by simp, ?_⟩
    intro x hx y hy
    obtain ⟨g, hg, rfl⟩ := List.mem_map.mp hx
    simp [nf] at hy; subst hy
    exact inv.namesLt g hg
  · intro g hg; rw [hfiles] at hg
    rcases List.mem_append.mp hg with h | h
    · have := inv.namesLt g h; simp [Abs.newA]; omega
    · simp [nf] at h; subst h; simp [Abs.newA]
  · intro g hg; rw [hfiles] at hg
    rcases List.mem_append.mp hg with h | h
    · exact inv.wf g h
    · simp [nf] at h; subst h; exact ⟨by simp, Or.inl rfl⟩
  · intro g hg
    simp only [Abs.newA, List.mem_append, List.mem_singleton] at hg
    rcases hg with h | h
    · exact inv.newTl g h
    · subst h; rfl
  · intro g hg
    simp only [Abs.newA, List.mem_append, List.mem_singleton] at hg
    rcases hg with h | h
    · exact inv.newRead g h
    · subst h; simp
  · rw [hb]; exact inv.idsLe
  · rw [hb]; exact inv.idsNodup
  · rw [hb]; exact inv.known
  · intro name
    show match findO ({ name := s.clock, nextPos := 0, size := 0, refCount := 1 } :: s.ofiles) name with
      | none => _ | some o => _
    by_cases hn : name = a.clock
    · subst hn
      have := findO_cons_self { name := s.clock, nextPos := 0, size := 0, refCount := 1 } s.ofiles
      simp only [inv.clock] at this ⊢
      rw [this]
      refine ⟨rfl, nf, by rw [hfiles]; simp, rfl, ?_, ?_, by simp [AFile.size, AFile.bytes, encRecs, nf], ?_⟩
      · simp [Abs.refs, hrn, hwn', hrne, idc, nf]
      · simp [Abs.refs, hrn, hwn', hrne, idc, nf]
      · intro j h
        exfalso
        have : a.cur = some (nf, j) := h
        exact hlt nf (by simp [Abs.files, Abs.curL, this]) rfl
    · have h1 := findO_cons_ne { name := s.clock, nextPos := 0, size := 0, refCount := 1 } s.ofiles name
        (by simp only [inv.clock]; exact fun e => hn e.symm)
      rw [h1]
      have h0 := inv.ofiles name
      split
      · rename_i hnone
        rw [hnone] at h0
        intro g hg hgn
        rw [hfiles] at hg
        rcases List.mem_append.mp hg with h | h
        · rw [hrefs g h]; exact h0 g h hgn
        · simp [nf] at h; subst h; exact absurd hgn.symm hn
      · rename_i o2 hsome
        rw [hsome] at h0
        obtain ⟨ho2, g, hg, hgn, hrc, hpos, hsz, hcur⟩ := h0
        exact ⟨ho2, g, by rw [hfiles]; simp [hg], hgn, by rw [hrefs g hg]; exact hrc, by rw [hrefs g hg]; exact hpos, hsz, hcur⟩
  · show some s.clock = _; rw [hwn', inv.clock]
  · intro _; simp [Abs.newA]
  · rw [hfiles]; simp [sizeSum, inv.total, AFile.size, AFile.bytes, encRecs, nf]
  · rw [hb]; exact inv.knownSize
  · intro g hg
    simp only [Abs.newA, List.mem_append, List.mem_singleton] at hg
    rcases hg with h | h | h
    · rw [hrefs g (by simp [Abs.files, h])]; exact inv.present g (by simp [h])
    · rw [hrefs g (by simp [Abs.files, h])]; exact inv.present g (by simp [h])
    · subst h; simp [Abs.refs, hrn, hwn', hrne, idc]

end SH.C09
