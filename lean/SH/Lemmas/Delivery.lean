/-
  SH.Lemmas.Delivery — the inductive invariant behind C01's `no_silent_loss` (agent level).
  Everything is in "membership form" (∀ x ∈ list, …) so that it survives the list surgery of the model
  (swap-remove, filters, appends) by plain subset arguments.
-/
import SH.Model.Delivery

namespace SH.Delivery
open SH.Gen.C01

/-- seconds the agent still holds: historic queue, blocked senders, live disk records -/
def heldSecs (a : Agent) : List Nat := a.hist.map (·.sec) ++ a.flights.map (·.cbd.sec) ++ a.recs.map (·.sec)

/-- bucket descriptors the agent works with: `x` = those currently in the hands of a running sender -/
def cbds (a : Agent) (x : List Cbd) : List Cbd := x ++ a.hist ++ a.flights.map (·.cbd)

/-- accounted for without being held: in storage / rejected (P, state level) or in the agent's deliberate-drop sets -/
def accA (P : Nat → Prop) (a : Agent) (t : Nat) : Prop := P t ∨ t ∈ a.dropped ∨ t ∈ a.lostMem

def heldX (a : Agent) (x : List Cbd) (t : Nat) : Prop := t ∈ x.map (·.sec) ∨ t ∈ heldSecs a

def safeX (P : Nat → Prop) (a : Agent) (x : List Cbd) (t : Nat) : Prop := heldX a x t ∨ accA P a t

theorem mem_heldSecs {a : Agent} {t : Nat} :
    t ∈ heldSecs a ↔ (∃ c ∈ a.hist, c.sec = t) ∨ (∃ f ∈ a.flights, f.cbd.sec = t) ∨ (∃ r ∈ a.recs, r.sec = t) := by
  simp [heldSecs, or_assoc]

theorem mem_cbds {a : Agent} {x : List Cbd} {c : Cbd} :
    c ∈ cbds a x ↔ c ∈ x ∨ c ∈ a.hist ∨ (∃ f ∈ a.flights, f.cbd = c) := by
  simp [cbds, or_assoc]

/-- the agent-level invariant: disk ids are fresh, an id names one second, a descriptor with an id has its record on
disk unless its second is already accounted for, and a descriptor without data in memory has an id -/
structure AInv (P : Nat → Prop) (a : Agent) (x : List Cbd) : Prop where
  recLe : ∀ r ∈ a.recs, r.id ≤ a.lastId
  cbdLe : ∀ c ∈ cbds a x, c.id ≤ a.lastId
  recFun : ∀ r1 ∈ a.recs, ∀ r2 ∈ a.recs, r1.id = r2.id → r1.id ≠ 0 → r1.sec = r2.sec
  cbdRec : ∀ c ∈ cbds a x, ∀ r ∈ a.recs, r.id = c.id → c.id ≠ 0 → r.sec = c.sec
  hasRec : ∀ c ∈ cbds a x, c.id ≠ 0 → (∃ r ∈ a.recs, r.id = c.id) ∨ accA P a c.sec
  data : ∀ c ∈ cbds a x, c.mem = true ∨ c.id ≠ 0

/-- result of an agent transition: invariant kept, nothing safe becomes unsafe -/
def Keeps (P : Nat → Prop) (a : Agent) (x : List Cbd) (a' : Agent) (x' : List Cbd) : Prop :=
  AInv P a' x' ∧ ∀ t, safeX P a x t → safeX P a' x' t

theorem Keeps.trans {P a x a1 x1 a2 x2} (h1 : Keeps P a x a1 x1) (h2 : AInv P a1 x1 → Keeps P a1 x1 a2 x2) :
    Keeps P a x a2 x2 :=
  ⟨(h2 h1.1).1, fun t ht => (h2 h1.1).2 t (h1.2 t ht)⟩

theorem Keeps.refl {P a x} (h : AInv P a x) : Keeps P a x a x := ⟨h, fun _ h => h⟩

/-- fields the invariant does not read may change freely; the drop sets may grow -/
theorem keeps_frame {P : Nat → Prop} {a a' : Agent} {x : List Cbd} (h : AInv P a x)
    (hr : a'.recs = a.recs) (hl : a'.lastId = a.lastId) (hh : a'.hist = a.hist) (hf : a'.flights = a.flights)
    (hd : ∀ t ∈ a.dropped, t ∈ a'.dropped) (hm : ∀ t ∈ a.lostMem, t ∈ a'.lostMem) : Keeps P a x a' x := by
  have hacc : ∀ t, accA P a t → accA P a' t := by
    intro t ht; rcases ht with h | h | h
    · exact Or.inl h
    · exact Or.inr (Or.inl (hd t h))
    · exact Or.inr (Or.inr (hm t h))
  have hc : cbds a' x = cbds a x := by simp [cbds, hh, hf]
  refine ⟨⟨?_, ?_, ?_, ?_, ?_, ?_⟩, ?_⟩
  · rw [hr, hl]; exact h.recLe
  · rw [hc, hl]; exact h.cbdLe
  · rw [hr]; exact h.recFun
  · rw [hc, hr]; exact h.cbdRec
  · rw [hc, hr]; intro c hc' hne
    rcases h.hasRec c hc' hne with h1 | h1
    · exact Or.inl h1
    · exact Or.inr (hacc _ h1)
  · rw [hc]; exact h.data
  · intro t ht
    rcases ht with h1 | h1
    · left; unfold heldX heldSecs at *; rw [hh, hf, hr]; exact h1
    · exact Or.inr (hacc t h1)

theorem forall_cbds {a : Agent} {x : List Cbd} {Q : Cbd → Prop} :
    (∀ c ∈ cbds a x, Q c) ↔ (∀ c ∈ x, Q c) ∧ (∀ c ∈ a.hist, Q c) ∧ (∀ f ∈ a.flights, Q f.cbd) := by
  simp only [mem_cbds]
  constructor
  · intro h
    exact ⟨fun c hc => h c (Or.inl hc), fun c hc => h c (Or.inr (Or.inl hc)), fun f hf => h f.cbd (Or.inr (Or.inr ⟨f, hf, rfl⟩))⟩
  · rintro ⟨h1, h2, h3⟩ c (hc | hc | ⟨f, hf, rfl⟩)
    · exact h1 c hc
    · exact h2 c hc
    · exact h3 f hf

macro "inv_solve" : tactic => `(tactic| (
  simp only [forall_cbds, mem_heldSecs, safeX, heldX, accA, List.map_cons, List.mem_cons, List.mem_append, List.mem_singleton,
    List.mem_map, List.mem_filter, List.map_nil, List.not_mem_nil, bne_iff_ne, ne_eq, false_or, or_false,
    List.forall_mem_cons, List.forall_mem_append, List.forall_mem_singleton] at *
  grind))

theorem keeps_diskPut {P : Nat → Prop} {a : Agent} {c : Cbd} {x : List Cbd} (h : AInv P a (c :: x)) :
    Keeps P a (c :: x) (diskPut a c).1 ((diskPut a c).2 :: x) := by
  unfold diskPut
  by_cases hc : canPut a c = true
  · simp only [hc, if_true]
    have hid : c.id = 0 := by
      unfold canPut at hc; simp only [Bool.and_eq_true, beq_iff_eq] at hc; exact hc.2
    obtain ⟨h1, h2, h3, h4, h5, h6⟩ := h
    refine ⟨⟨?_, ?_, ?_, ?_, ?_, ?_⟩, ?_⟩ <;> inv_solve
  · simp only [hc, Bool.false_eq_true, if_false]; exact Keeps.refl h

theorem diskPut_frame (a : Agent) (c : Cbd) :
    (diskPut a c).1.hist = a.hist ∧ (diskPut a c).1.flights = a.flights ∧ (diskPut a c).1.dropped = a.dropped ∧
    (diskPut a c).1.lostMem = a.lostMem ∧ (diskPut a c).2.sec = c.sec := by
  unfold diskPut; split <;> simp

theorem keeps_appendHist {P : Nat → Prop} {a : Agent} {c : Cbd} {x : List Cbd} (h : AInv P a (c :: x)) :
    Keeps P a (c :: x) (appendHist a c) x := by
  unfold appendHist
  obtain ⟨h1, h2, h3, h4, h5, h6⟩ := h
  by_cases ho : overflows a c = true
  · by_cases hz : (c.id == 0) = true
    · simp only [ho, hz, if_true]
      refine ⟨⟨?_, ?_, ?_, ?_, ?_, ?_⟩, ?_⟩ <;> inv_solve
    · simp only [ho, hz, if_true, Bool.false_eq_true, if_false]
      have hz' : c.id ≠ 0 := by simpa using hz
      refine ⟨⟨?_, ?_, ?_, ?_, ?_, ?_⟩, ?_⟩ <;> inv_solve
  · simp only [ho, Bool.false_eq_true, if_false]
    refine ⟨⟨?_, ?_, ?_, ?_, ?_, ?_⟩, ?_⟩ <;> inv_solve

theorem keeps_toHistoric {P : Nat → Prop} {a : Agent} {c : Cbd} {x : List Cbd} (h : AInv P a (c :: x)) :
    Keeps P a (c :: x) (toHistoric a c) x := by
  unfold toHistoric
  exact (keeps_diskPut h).trans (fun h' => keeps_appendHist h')

/-- a sender blocks in the rpc with the descriptor it holds -/
theorem keeps_addFlight {P : Nat → Prop} {a : Agent} {c : Cbd} {x : List Cbd} (f : Flight)
    (hf : f.cbd.sec = c.sec ∧ f.cbd.id = c.id ∧ (f.cbd.mem = true ∨ f.cbd = c)) (h : AInv P a (c :: x)) :
    Keeps P a (c :: x) { a with flights := a.flights ++ [f] } x := by
  obtain ⟨h1, h2, h3, h4, h5, h6⟩ := h
  refine ⟨⟨?_, ?_, ?_, ?_, ?_, ?_⟩, ?_⟩ <;> inv_solve

/-- a descriptor with a disk id may simply be forgotten by a sender: the record stays on disk -/
theorem keeps_forget {P : Nat → Prop} {a : Agent} {c : Cbd} {x : List Cbd} (hid : c.id ≠ 0) (h : AInv P a (c :: x)) :
    Keeps P a (c :: x) a x := by
  obtain ⟨h1, h2, h3, h4, h5, h6⟩ := h
  refine ⟨⟨?_, ?_, ?_, ?_, ?_, ?_⟩, ?_⟩ <;> inv_solve

/-- diskCacheEraseWithLog for a descriptor whose second is accounted for -/
theorem keeps_diskErase {P : Nat → Prop} {a : Agent} {c : Cbd} {x : List Cbd} (hacc : accA P a c.sec) (h : AInv P a (c :: x)) :
    Keeps P a (c :: x) (diskErase a c.id) x := by
  unfold diskErase
  obtain ⟨h1, h2, h3, h4, h5, h6⟩ := h
  by_cases hz : (c.id == 0) = true
  · simp only [hz, if_true]
    refine ⟨⟨?_, ?_, ?_, ?_, ?_, ?_⟩, ?_⟩ <;> inv_solve
  · simp only [hz, Bool.false_eq_true, if_false]
    have hz' : c.id ≠ 0 := by simpa using hz
    refine ⟨⟨?_, ?_, ?_, ?_, ?_, ?_⟩, ?_⟩ <;> inv_solve

theorem keeps_removeFlight {P : Nat → Prop} {a : Agent} {x : List Cbd} {f : Flight} (h : AInv P a x) (hf : f ∈ a.flights)
    (hrid : ∀ f2 ∈ a.flights, f2.rid = f.rid → f2.cbd.sec = f.cbd.sec) :
    Keeps P a x (removeFlight a f.rid) (f.cbd :: x) := by
  unfold removeFlight
  obtain ⟨h1, h2, h3, h4, h5, h6⟩ := h
  refine ⟨⟨?_, ?_, ?_, ?_, ?_, ?_⟩, ?_⟩ <;> inv_solve

theorem keeps_mono {P Q : Nat → Prop} {a : Agent} {x : List Cbd} (hpq : ∀ t, P t → Q t) (h : AInv P a x) :
    AInv Q a x ∧ ∀ t, safeX P a x t → safeX Q a x t := by
  obtain ⟨h1, h2, h3, h4, h5, h6⟩ := h
  refine ⟨⟨?_, ?_, ?_, ?_, ?_, ?_⟩, ?_⟩ <;> inv_solve

theorem mem_swapRemove {l : List Cbd} {i : Nat} {d : Cbd} (h : d ∈ swapRemove l i) : d ∈ l := by
  unfold swapRemove at h
  cases hl : l.getLast? with
  | none => simp [hl] at h
  | some lastC =>
    simp only [hl] at h
    have h' := List.mem_of_mem_take h
    rcases List.mem_or_eq_of_mem_set h' with h'' | rfl
    · exact h''
    · exact List.mem_of_getLast? hl

theorem swapRemove_covers {l : List Cbd} {i : Nat} {c d : Cbd} (hi : l[i]? = some c) (hd : d ∈ l) :
    d = c ∨ d ∈ swapRemove l i := by
  unfold swapRemove
  obtain ⟨j, hj, rfl⟩ := List.getElem_of_mem hd
  have hil : i < l.length := by
    rcases Nat.lt_or_ge i l.length with h | h
    · exact h
    · simp [List.getElem?_eq_none h] at hi
  have hlast : l.getLast? = some l[l.length - 1] := by
    rw [List.getLast?_eq_getElem?]; simp [List.getElem?_eq_getElem (show l.length - 1 < l.length by omega)]
  simp only [hlast]
  by_cases hji : j = i
  · left; subst hji; simpa [List.getElem?_eq_getElem hil] using hi
  · right
    by_cases hjl : j < l.length - 1
    · rw [List.mem_iff_getElem]
      refine ⟨j, by simp; omega, ?_⟩
      simp [List.getElem_take, Ne.symm hji]
    · have : j = l.length - 1 := by omega
      subst this
      rw [List.mem_iff_getElem]
      refine ⟨i, by simp; omega, ?_⟩
      simp [List.getElem_take]
theorem assignFirstUnread_spec {id : Nat} {l rs : List Rec} {s : Nat} (h : assignFirstUnread id l = some (s, rs)) :
    ∃ pre r post, l = pre ++ r :: post ∧ r.id = 0 ∧ r.sec = s ∧ rs = pre ++ { r with id := id } :: post := by
  induction l generalizing rs s with
  | nil => simp [assignFirstUnread] at h
  | cons r l ih =>
    unfold assignFirstUnread at h
    by_cases hz : (r.id == 0) = true
    · simp only [hz, if_true, Option.some.injEq, Prod.mk.injEq] at h
      exact ⟨[], r, l, rfl, by simpa using hz, h.1, by simp [h.2.symm]⟩
    · simp only [hz, Bool.false_eq_true, if_false] at h
      cases hrec : assignFirstUnread id l with
      | none => simp [hrec] at h
      | some p =>
        obtain ⟨s', rs'⟩ := p
        simp only [hrec, Option.some.injEq, Prod.mk.injEq] at h
        obtain ⟨pre, r0, post, hl, h0, hs, hrs⟩ := ih hrec
        exact ⟨r :: pre, r0, post, by simp [hl], h0, by rw [hs]; exact h.1, by simp [h.2.symm, hrs]⟩

theorem keeps_readNext {P : Nat → Prop} {a : Agent} {x : List Cbd} (h : AInv P a x) : Keeps P a x (readNext a) x := by
  unfold readNext
  by_cases hd : a.disk = true
  · simp only [hd, Bool.not_true, Bool.false_eq_true, if_false]
    cases hu : assignFirstUnread (a.lastId + 1) a.recs with
    | none => exact Keeps.refl h
    | some p =>
      obtain ⟨s, rs⟩ := p
      obtain ⟨pre, r0, post, hl, h0, hs, rfl⟩ := assignFirstUnread_spec hu
      obtain ⟨h1, h2, h3, h4, h5, h6⟩ := h
      simp only
      rw [hl] at h1 h3 h4 h5
      refine ⟨⟨?_, ?_, ?_, ?_, ?_, ?_⟩, ?_⟩ <;> (try rw [hl]) <;> inv_solve
  · simp only [hd, Bool.not_false, if_true]; exact Keeps.refl h

theorem keeps_readN {P : Nat → Prop} {x : List Cbd} (n : Nat) {a : Agent} (h : AInv P a x) : Keeps P a x (readN n a) x := by
  induction n generalizing a with
  | zero => exact Keeps.refl h
  | succ n ih => unfold readN; exact (keeps_readNext h).trans (fun h' => ih h')

theorem keeps_pop {P : Nat → Prop} {a a' : Agent} {x : List Cbd} {now : Nat} {c : Cbd} (h : AInv P a x)
    (hp : pop a now = (a', some c)) : Keeps P a x a' (c :: x) := by
  unfold pop at hp
  cases hh : a.hist with
  | nil => simp [hh] at hp
  | cons c0 cs =>
    simp only [hh] at hp
    rw [← hh] at hp
    cases hi : a.hist[oldestPos cs 1 0 c0.sec]? with
    | none => simp [hi] at hp
    | some d =>
      simp only [hi] at hp
      by_cases hf : inFuture now d = true
      · simp [hf] at hp
      · simp only [hf, Bool.false_eq_true, if_false, Prod.mk.injEq, Option.some.injEq] at hp
        obtain ⟨rfl, rfl⟩ := hp
        have hmem : d ∈ a.hist := List.mem_of_getElem? hi
        have hsub : ∀ e ∈ swapRemove a.hist (oldestPos cs 1 0 c0.sec), e ∈ a.hist := fun e he => mem_swapRemove he
        have hcov : ∀ e ∈ a.hist, e = d ∨ e ∈ swapRemove a.hist (oldestPos cs 1 0 c0.sec) := fun e he => swapRemove_covers hi he
        have step1 : Keeps P a x { a with hist := swapRemove a.hist (oldestPos cs 1 0 c0.sec), memSize := a.memSize - sz d } (d :: x) := by
          generalize swapRemove a.hist (oldestPos cs 1 0 c0.sec) = l' at hsub hcov
          obtain ⟨h1, h2, h3, h4, h5, h6⟩ := h
          refine ⟨⟨?_, ?_, ?_, ?_, ?_, ?_⟩, ?_⟩ <;> inv_solve
        exact step1.trans (fun h' => keeps_readNext h')

/-- accounted for at system level: in the body of a successful INSERT, or deliberately rejected by an aggregator -/
def P (s : State) (t : Nat) : Prop := t ∈ s.inserted ∨ t ∈ s.rejected

def parked (s : State) : List (Nat × Nat) := s.aggs.flatMap (fun g => (g.recent ++ g.historic).flatMap (·.reqs))

/-- every (request id, second) pair the system knows about -/
def ridTags (s : State) : List (Nat × Nat) :=
  s.ag.flights.map (fun f => (f.rid, f.cbd.sec)) ++ s.reqs.map (fun q => (q.rid, q.sec)) ++
  s.resps.map (fun a => (a.rid, a.sec)) ++ parked s

/-- the system invariant; `x` = descriptors in the hands of a sender in the middle of a step -/
structure SInv (s : State) (x : List Cbd) : Prop where
  ag : AInv (P s) s.ag x
  ridFun : ∀ p ∈ ridTags s, ∀ q ∈ ridTags s, p.1 = q.1 → p.2 = q.2
  ridLt : ∀ p ∈ ridTags s, p.1 < s.nextRid
  resp : ∀ a ∈ s.resps, a.discard = true → a.err = false → P s a.sec
  bucket : ∀ g ∈ s.aggs, ∀ b ∈ g.recent ++ g.historic, ∀ p ∈ b.reqs, p.2 ∈ b.secs
  safe : ∀ t ∈ s.flushed, safeX (P s) s.ag x t

/-- generic preservation: what a step has to show -/
theorem SInv.step {s s' : State} {x x' : List Cbd} (h : SInv s x)
    (hP : ∀ t, P s t → P s' t)
    (hag : AInv (P s') s.ag x → Keeps (P s') s.ag x s'.ag x')
    (hnext : s.nextRid ≤ s'.nextRid)
    (hrid : ∃ sec0, ∀ p ∈ ridTags s', p ∈ ridTags s ∨ (p = (s.nextRid, sec0) ∧ s.nextRid < s'.nextRid))
    (hresp : ∀ a ∈ s'.resps, a ∈ s.resps ∨ (a.discard = true → a.err = false → P s' a.sec))
    (hbucket : ∀ g ∈ s'.aggs, ∀ b ∈ g.recent ++ g.historic, ∀ p ∈ b.reqs, p.2 ∈ b.secs)
    (hfl : ∀ t ∈ s'.flushed, t ∈ s.flushed ∨ safeX (P s') s'.ag x' t) : SInv s' x' := by
  obtain ⟨sec0, hrid⟩ := hrid
  have hm := keeps_mono hP h.ag
  have hk := hag hm.1
  refine ⟨hk.1, ?_, ?_, ?_, hbucket, ?_⟩
  · intro p hp q hq he
    rcases hrid p hp with hp' | ⟨rfl, _⟩ <;> rcases hrid q hq with hq' | ⟨rfl, _⟩
    · exact h.ridFun p hp' q hq' he
    · have := h.ridLt p hp'; simp only at he; omega
    · have := h.ridLt q hq'; simp only at he; omega
    · rfl
  · intro p hp
    rcases hrid p hp with hp' | ⟨rfl, hlt⟩
    · have := h.ridLt p hp'; omega
    · exact hlt
  · intro a ha hd he
    rcases hresp a ha with ha' | ha'
    · exact hP _ (h.resp a ha' hd he)
    · exact ha' hd he
  · intro t ht
    rcases hfl t ht with ht' | ht'
    · exact hk.2 t (hm.2 t (h.safe t ht'))
    · exact ht'

macro "tag_solve" : tactic => `(tactic| (
  simp only [ridTags, parked, List.mem_append, List.mem_map, List.mem_filter, List.mem_singleton, List.map_append,
    List.map_cons, List.map_nil, List.mem_cons, List.not_mem_nil, or_false, false_or, bne_iff_ne, ne_eq, reqOf] at *
  grind))

theorem diskErase_with (a : Agent) (id : Nat) (d : List Nat) (o : Nat) :
    { diskErase a id with dropped := d, oow := o } = diskErase { a with dropped := d, oow := o } id := by
  unfold diskErase; split <;> rfl

/-- sendHistoric, one iteration, agent part: from "descriptor c in hand" to "nothing in hand" -/
theorem keeps_historicAttempt {Q : Nat → Prop} {a : Agent} {c : Cbd} (rid : Nat) (h : AInv Q a [c]) :
    Keeps Q a [c] (match historicAttempt a c rid with
                   | (a', none) => a'
                   | (a', some f) => { a' with flights := a'.flights ++ [f] }) [] := by
  unfold historicAttempt
  by_cases ho : outOfWindow a.now c.sec a.window = true
  · simp only [ho, if_true]
    rw [diskErase_with]
    have h1 : Keeps Q a [c] { a with dropped := a.dropped ++ [c.sec], oow := a.oow + 1 } [c] :=
      keeps_frame h rfl rfl rfl rfl (fun t ht => by simp [ht]) (fun t ht => ht)
    exact h1.trans (fun h' => keeps_diskErase (by simp [accA]) h')
  · simp only [ho, Bool.false_eq_true, if_false]
    by_cases hn : (!c.mem && !a.disk) = true
    · simp only [hn, if_true]
      have hid : c.id ≠ 0 := by
        have := h.data c (by simp [mem_cbds])
        simp only [Bool.and_eq_true, Bool.not_eq_true'] at hn
        rcases this with h1 | h1
        · simp [hn.1] at h1
        · exact h1
      exact keeps_forget hid h
    · simp only [hn, Bool.false_eq_true, if_false]
      cases chooseReplica a c.sec with
      | none => exact keeps_addFlight _ (by simp) h
      | some p => exact keeps_addFlight _ (by simp) h

theorem historicAttempt_frame (a : Agent) (c : Cbd) (rid : Nat) :
    (historicAttempt a c rid).1.flights = a.flights ∧
    (∀ f, (historicAttempt a c rid).2 = some f → f.rid = rid ∧ f.cbd.sec = c.sec) := by
  unfold historicAttempt
  by_cases ho : outOfWindow a.now c.sec a.window = true
  · simp only [ho, if_true]; refine ⟨?_, by simp⟩
    unfold diskErase; split <;> rfl
  · simp only [ho, Bool.false_eq_true, if_false]
    split
    · simp
    · split <;> simp <;> (intro f hf; subst hf; simp)

theorem sinv_stepHistoricAttempt {s : State} {a : Agent} {c : Cbd} (h : SInv { s with ag := a } [c]) :
    SInv (stepHistoricAttempt s a c).1 [] := by
  have hfr := historicAttempt_frame a c s.nextRid
  have hk := fun hA => keeps_historicAttempt (Q := P { s with ag := a }) (a := a) (c := c) s.nextRid hA
  unfold stepHistoricAttempt
  cases hh : historicAttempt a c s.nextRid with
  | mk a' of =>
    rw [hh] at hfr hk
    cases of with
    | none =>
      simp only
      refine h.step (fun t ht => ht) (fun hA => hk hA) (Nat.le_refl _) ⟨0, ?_⟩ (fun a ha => Or.inl ha) h.bucket (fun t ht => Or.inl ht)
      intro p hp; left
      have := hfr.1; simp only at this
      tag_solve
    | some f =>
      simp only [launch]
      have hf := hfr.2 f rfl
      refine h.step (fun t ht => ht) (fun hA => hk hA) (by simp) ⟨c.sec, ?_⟩ (fun a ha => Or.inl ha) h.bucket (fun t ht => Or.inl ht)
      intro p hp
      have := hfr.1; simp only at this
      tag_solve

/-- a step that only changes the agent and creates no new request ids -/
theorem SInv.setAg {s : State} {a a' : Agent} {x x' : List Cbd} (h : SInv { s with ag := a } x)
    (hk : AInv (P s) a x → Keeps (P s) a x a' x')
    (hfl : ∀ f ∈ a'.flights, ∃ f0 ∈ a.flights, f0.rid = f.rid ∧ f0.cbd.sec = f.cbd.sec) :
    SInv { s with ag := a' } x' := by
  refine h.step (s' := { s with ag := a' }) (fun t ht => ht) (fun hA => hk hA) (Nat.le_refl _) ⟨0, ?_⟩
    (fun a ha => Or.inl ha) h.bucket (fun t ht => Or.inl ht)
  intro p hp; left
  tag_solve

theorem recordSend_frame (a : Agent) (r : Nat) (ok : Bool) :
    (recordSend a r ok).recs = a.recs ∧ (recordSend a r ok).lastId = a.lastId ∧ (recordSend a r ok).hist = a.hist ∧
    (recordSend a r ok).flights = a.flights ∧ (recordSend a r ok).dropped = a.dropped ∧ (recordSend a r ok).lostMem = a.lostMem := by
  unfold recordSend; split <;> simp

theorem toHistoric_flights (a : Agent) (c : Cbd) : (toHistoric a c).flights = a.flights := by
  have hA : ∀ (b : Agent) (d : Cbd), (appendHist b d).flights = b.flights := by
    intro b d; unfold appendHist; (repeat' split) <;> rfl
  unfold toHistoric
  rw [hA, (diskPut_frame a c).2.1]

theorem diskErase_flights (a : Agent) (id : Nat) : (diskErase a id).flights = a.flights := by
  unfold diskErase; split <;> rfl

/-- the sender continues after the rpc: the invariant is kept provided an acknowledged second is accounted for -/
theorem sinv_agentContinue {s : State} {f : Flight} {err discard : Bool} (h : SInv s []) (hf : f ∈ s.ag.flights)
    (hack : (!err && discard) = true → P s f.cbd.sec) : SInv (agentContinue s f err discard).1 [] := by
  have hrid : ∀ f2 ∈ s.ag.flights, f2.rid = f.rid → f2.cbd.sec = f.cbd.sec := by
    intro f2 hf2 he
    exact h.ridFun (f2.rid, f2.cbd.sec) (by simp only [ridTags, List.mem_append, List.mem_map]; exact Or.inl (Or.inl (Or.inl ⟨f2, hf2, rfl⟩)))
      (f.rid, f.cbd.sec) (by simp only [ridTags, List.mem_append, List.mem_map]; exact Or.inl (Or.inl (Or.inl ⟨f, hf, rfl⟩))) he
  have h1 : SInv { s with ag := removeFlight s.ag f.rid } [f.cbd] :=
    SInv.setAg (s := s) (a := s.ag) h (fun hA => keeps_removeFlight hA hf hrid)
      (by intro g hg; simp only [removeFlight, List.mem_filter] at hg; exact ⟨g, hg.1, rfl, rfl⟩)
  unfold agentContinue
  by_cases hh : f.historic = true
  · simp only [hh, if_true]
    by_cases ha : (!err && discard) = true
    · simp only [ha, if_true]
      exact SInv.setAg h1 (fun hA => keeps_diskErase (Or.inl (hack ha)) hA) (by rw [diskErase_flights]; intro g hg; exact ⟨g, hg, rfl, rfl⟩)
    · simp only [ha, Bool.false_eq_true, if_false]
      exact sinv_stepHistoricAttempt h1
  · simp only [hh, Bool.false_eq_true, if_false]
    have h2 : SInv { s with ag := if f.spare = true then removeFlight s.ag f.rid else recordSend (removeFlight s.ag f.rid) f.replica (!err) } [f.cbd] := by
      by_cases hs : f.spare = true
      · simp only [hs, if_true]; exact h1
      · simp only [hs, Bool.false_eq_true, if_false]
        have fr := recordSend_frame (removeFlight s.ag f.rid) f.replica (!err)
        exact SInv.setAg h1 (fun hA => keeps_frame hA fr.1 fr.2.1 fr.2.2.1 fr.2.2.2.1 (by rw [fr.2.2.2.2.1]; exact fun t ht => ht) (by rw [fr.2.2.2.2.2]; exact fun t ht => ht))
          (by rw [fr.2.2.2.1]; intro g hg; exact ⟨g, hg, rfl, rfl⟩)
    by_cases ha : (!err && discard) = true
    · simp only [ha, if_true]
      exact SInv.setAg h2 (fun hA => keeps_diskErase (Or.inl (hack ha)) hA) (by rw [diskErase_flights]; intro g hg; exact ⟨g, hg, rfl, rfl⟩)
    · simp only [ha, Bool.false_eq_true, if_false]
      exact SInv.setAg h2 (fun hA => keeps_toHistoric hA) (by rw [toHistoric_flights]; intro g hg; exact ⟨g, hg, rfl, rfl⟩)

theorem SInv.eta {s : State} {x} (h : SInv s x) : SInv { s with ag := s.ag } x := h

theorem safeX_new {Q : Nat → Prop} {a : Agent} {c : Cbd} {x : List Cbd} : safeX Q a (c :: x) c.sec := by
  left; left; simp

/-- a new second enters the send path with descriptor c0 in a sender's hands -/
theorem sinv_flush {s : State} (t : Nat) (h : SInv s []) :
    SInv (addFlushed s t) [{ sec := t, id := 0, mem := true }] := by
  unfold addFlushed
  refine h.step (s' := { s with flushed := s.flushed ++ [t] }) (fun t ht => ht) ?_ (Nat.le_refl _) ⟨0, fun p hp => Or.inl hp⟩
    (fun a ha => Or.inl ha) h.bucket ?_
  · intro hA
    obtain ⟨h1, h2, h3, h4, h5, h6⟩ := hA
    refine ⟨⟨?_, ?_, ?_, ?_, ?_, ?_⟩, ?_⟩ <;> inv_solve
  · intro u hu
    simp only [List.mem_append, List.mem_singleton] at hu
    rcases hu with hu | rfl
    · exact Or.inl hu
    · exact Or.inr (Or.inl (Or.inl (by simp)))

theorem sinv_overflow {s : State} (t : Nat) (h : SInv s []) : SInv (step s (.overflow t)).1 [] := by
  have h1 := sinv_flush t h
  exact SInv.setAg (s := addFlushed s t) (a := s.ag) h1 (fun hA => keeps_toHistoric hA)
    (by rw [toHistoric_flights]; intro g hg; exact ⟨g, hg, rfl, rfl⟩)

/-- launch: the descriptor in hand goes into a blocked sender with a fresh request id -/
theorem sinv_launch {s : State} {a : Agent} {c : Cbd} {f : Flight} (h : SInv { s with ag := a } [c])
    (hf : f.rid = s.nextRid ∧ f.cbd.sec = c.sec ∧ f.cbd.id = c.id ∧ (f.cbd.mem = true ∨ f.cbd = c)) :
    SInv (launch s a f).1 [] := by
  unfold launch
  refine h.step (fun t ht => ht) (fun hA => keeps_addFlight f ⟨hf.2.1, hf.2.2⟩ hA) (by simp) ⟨c.sec, ?_⟩
    (fun a ha => Or.inl ha) h.bucket (fun t ht => Or.inl ht)
  intro p hp
  tag_solve

theorem sinv_recentSend {s : State} {a : Agent} {c : Cbd} (t : Nat) (h : SInv { s with ag := a } [c]) :
    SInv (recentSend s a c t).1 [] := by
  have toH : SInv { s with ag := toHistoric a c } [] :=
    SInv.setAg (s := s) h (fun hA => keeps_toHistoric hA) (by rw [toHistoric_flights]; intro g hg; exact ⟨g, hg, rfl, rfl⟩)
  unfold recentSend
  split
  · exact toH
  · split
    · exact toH
    · exact sinv_launch h ⟨rfl, rfl, rfl, Or.inr rfl⟩

theorem sinv_recent {s : State} (t : Nat) (h : SInv s []) : SInv (step s (.recent t)).1 [] := by
  have h1 := sinv_flush t h
  simp only [step, stepRecent]
  split
  · exact sinv_recentSend t (SInv.setAg (s := addFlushed s t) (a := s.ag) h1 (fun hA => keeps_diskPut hA)
      (by rw [(diskPut_frame _ _).2.1]; intro g hg; exact ⟨g, hg, rfl, rfl⟩))
  · exact sinv_recentSend t h1

/-- messages disappear, aggregator memory is lost: nothing the invariant relies on -/
theorem SInv.shrink {s s' : State} {x : List Cbd} (h : SInv s x) (hag : s'.ag = s.ag) (hn : s'.nextRid = s.nextRid)
    (hi : s'.inserted = s.inserted) (hr : s'.rejected = s.rejected) (hf : s'.flushed = s.flushed)
    (htags : ∀ p ∈ ridTags s', p ∈ ridTags s) (hresp : ∀ a ∈ s'.resps, a ∈ s.resps)
    (hb : ∀ g ∈ s'.aggs, ∀ b ∈ g.recent ++ g.historic, ∀ p ∈ b.reqs, p.2 ∈ b.secs) : SInv s' x := by
  have hP : ∀ t, P s t ↔ P s' t := by intro t; simp [P, hi, hr]
  refine h.step (fun t ht => (hP t).1 ht) (fun hA => by rw [hag]; exact Keeps.refl hA) (by omega) ⟨0, fun p hp => Or.inl (htags p hp)⟩
    (fun a ha => Or.inl (hresp a ha)) hb (fun t ht => Or.inl (by rw [← hf]; exact ht))

theorem mem_unpark_reqs {b : Bucket} {rid : Nat} {p : Nat × Nat} (h : p ∈ (unparkBucket b rid).reqs) : p ∈ b.reqs := by
  simp only [unparkBucket, List.mem_filter] at h; exact h.1

theorem parked_unpark {aggs : List Agg} {rid : Nat} {p : Nat × Nat}
    (h : p ∈ (aggs.map (unpark · rid)).flatMap (fun g => (g.recent ++ g.historic).flatMap (·.reqs))) :
    p ∈ aggs.flatMap (fun g => (g.recent ++ g.historic).flatMap (·.reqs)) := by
  simp only [List.mem_flatMap, List.mem_map, unpark, List.mem_append] at *
  obtain ⟨g', ⟨g, hg, rfl⟩, b', hb', hp⟩ := h
  simp only [List.mem_map] at hb'
  rcases hb' with ⟨b, hb, rfl⟩ | ⟨b, hb, rfl⟩
  · exact ⟨g, hg, b, Or.inl hb, mem_unpark_reqs hp⟩
  · exact ⟨g, hg, b, Or.inr hb, mem_unpark_reqs hp⟩

theorem bucket_unpark {aggs : List Agg} {rid : Nat}
    (h : ∀ g ∈ aggs, ∀ b ∈ g.recent ++ g.historic, ∀ p ∈ b.reqs, p.2 ∈ b.secs) :
    ∀ g ∈ aggs.map (unpark · rid), ∀ b ∈ g.recent ++ g.historic, ∀ p ∈ b.reqs, p.2 ∈ b.secs := by
  intro g' hg' b' hb' p hp
  simp only [List.mem_map] at hg'
  obtain ⟨g, hg, rfl⟩ := hg'
  simp only [unpark, List.mem_append, List.mem_map] at hb'
  rcases hb' with ⟨b, hb, rfl⟩ | ⟨b, hb, rfl⟩
  · exact h g hg b (by simp [hb]) p (mem_unpark_reqs hp)
  · exact h g hg b (by simp [hb]) p (mem_unpark_reqs hp)

theorem find?_flight {a : Agent} {rid : Nat} {f : Flight} (h : findFlight a rid = some f) : f ∈ a.flights ∧ f.rid = rid := by
  unfold findFlight at h
  exact ⟨List.mem_of_find?_eq_some h, by simpa using List.find?_some h⟩

theorem sinv_resp {s : State} (rid : Nat) (h : SInv s []) : SInv (step s (.resp rid)).1 [] := by
  simp only [step, stepResp]
  cases hr : findResp s rid with
  | none => exact h
  | some a =>
    simp only
    have ha : a ∈ s.resps ∧ a.rid = rid := by
      unfold findResp at hr; exact ⟨List.mem_of_find?_eq_some hr, by simpa using List.find?_some hr⟩
    have h1 : SInv { s with resps := s.resps.filter (fun x => x.rid != rid) } [] :=
      h.shrink rfl rfl rfl rfl rfl (by intro p hp; tag_solve) (by intro b hb; exact (List.mem_filter.mp hb).1) h.bucket
    cases hf : findFlight s.ag rid with
    | none => exact h1
    | some f =>
      simp only
      have hff := find?_flight hf
      refine sinv_agentContinue h1 hff.1 ?_
      intro hack
      simp only [Bool.and_eq_true, Bool.not_eq_true'] at hack
      have hsec : a.sec = f.cbd.sec :=
        h.ridFun (a.rid, a.sec) (by simp only [ridTags, List.mem_append, List.mem_map]; exact Or.inl (Or.inr ⟨a, ha.1, rfl⟩))
          (f.rid, f.cbd.sec) (by simp only [ridTags, List.mem_append, List.mem_map]; exact Or.inl (Or.inl (Or.inl ⟨f, hff.1, rfl⟩)))
          (by simp [ha.2, hff.2])
      rw [← hsec]
      exact h.resp a ha.1 hack.2 hack.1

theorem sinv_drop {s : State} (rid : Nat) (h : SInv s []) : SInv (step s (.drop rid)).1 [] := by
  simp only [step, stepDrop]
  cases hf : findFlight s.ag rid with
  | none => exact h
  | some f =>
    simp only
    have h1 : SInv { s with resps := s.resps.filter (fun x => x.rid != rid), aggs := s.aggs.map (unpark · rid) } [] := by
      refine h.shrink rfl rfl rfl rfl rfl ?_ (by intro b hb; exact (List.mem_filter.mp hb).1) (bucket_unpark h.bucket)
      intro p hp
      simp only [ridTags, parked, List.mem_append] at hp ⊢
      rcases hp with ((hp | hp) | hp) | hp
      · exact Or.inl (Or.inl (Or.inl hp))
      · exact Or.inl (Or.inl (Or.inr hp))
      · refine Or.inl (Or.inr ?_); simp only [List.mem_map, List.mem_filter] at hp ⊢; obtain ⟨a, ha, rfl⟩ := hp; exact ⟨a, ha.1, rfl⟩
      · exact Or.inr (parked_unpark hp)
    exact sinv_agentContinue h1 (find?_flight hf).1 (by simp)

theorem readNext_flights (a : Agent) : (readNext a).flights = a.flights := by
  unfold readNext; (repeat' split) <;> rfl

theorem pop_flights (a : Agent) (now : Nat) : (pop a now).1.flights = a.flights := by
  unfold pop
  split
  · rfl
  · dsimp only
    split
    · rfl
    · split
      · rfl
      · rw [readNext_flights]

theorem sinv_pop {s : State} (now : Nat) (h : SInv s []) : SInv (step s (.pop now)).1 [] := by
  simp only [step, stepPop]
  cases hp : pop s.ag now with
  | mk a' oc =>
    cases oc with
    | none => exact h
    | some c =>
      simp only
      refine sinv_stepHistoricAttempt (SInv.setAg (s := s) (a := s.ag) h (fun hA => keeps_pop hA hp) ?_)
      intro g hg
      have := pop_flights s.ag now
      rw [hp] at this; simp only at this
      rw [this] at hg; exact ⟨g, hg, rfl, rfl⟩

theorem sinv_agentFrame {s : State} {a' : Agent} (h : SInv s [])
    (hr : a'.recs = s.ag.recs) (hl : a'.lastId = s.ag.lastId) (hh : a'.hist = s.ag.hist) (hf : a'.flights = s.ag.flights)
    (hd : a'.dropped = s.ag.dropped) (hm : a'.lostMem = s.ag.lostMem) : SInv { s with ag := a' } [] :=
  SInv.setAg (s := s) (a := s.ag) h (fun hA => keeps_frame hA hr hl hh hf (by rw [hd]; exact fun t ht => ht) (by rw [hm]; exact fun t ht => ht))
    (by rw [hf]; intro g hg; exact ⟨g, hg, rfl, rfl⟩)

theorem sinv_alive {s : State} (r : Nat) (b : Bool) (h : SInv s []) : SInv (step s (.alive r b)).1 [] :=
  sinv_agentFrame h rfl rfl rfl rfl rfl rfl
theorem sinv_ballast {s : State} (k : Nat) (h : SInv s []) : SInv (step s (.ballast k)).1 [] :=
  sinv_agentFrame h rfl rfl rfl rfl rfl rfl
theorem sinv_diskOk {s : State} (b : Bool) (h : SInv s []) : SInv (step s (.diskOk b)).1 [] :=
  sinv_agentFrame h rfl rfl rfl rfl rfl rfl

theorem sinv_bad {s : State} (r : Nat) (h : SInv s []) : SInv (step s (.bad r)).1 [] := by
  simp only [step, stepBad]
  split
  · exact h
  · split <;> exact h

theorem mem_parked_setAgg {s : State} {r : Nat} {g : Agg} {p : Nat × Nat} (h : p ∈ parked (setAgg s r g)) :
    p ∈ parked s ∨ p ∈ (g.recent ++ g.historic).flatMap (·.reqs) := by
  simp only [parked, setAgg, List.mem_flatMap] at h ⊢
  obtain ⟨g', hg', hp⟩ := h
  rcases List.mem_or_eq_of_mem_set hg' with hg'' | rfl
  · exact Or.inl ⟨g', hg'', hp⟩
  · exact Or.inr hp

theorem tags_setAgg {s : State} {r : Nat} {g : Agg} {p : Nat × Nat} (h : p ∈ ridTags (setAgg s r g)) :
    p ∈ ridTags s ∨ p ∈ (g.recent ++ g.historic).flatMap (·.reqs) := by
  simp only [ridTags, List.mem_append] at h ⊢
  rcases h with h | h
  · exact Or.inl (Or.inl h)
  · rcases mem_parked_setAgg h with h | h
    · exact Or.inl (Or.inr h)
    · exact Or.inr h

theorem bucket_setAgg {s : State} {r : Nat} {g : Agg}
    (h : ∀ g ∈ s.aggs, ∀ b ∈ g.recent ++ g.historic, ∀ p ∈ b.reqs, p.2 ∈ b.secs)
    (hg : ∀ b ∈ g.recent ++ g.historic, ∀ p ∈ b.reqs, p.2 ∈ b.secs) :
    ∀ g1 ∈ (setAgg s r g).aggs, ∀ b ∈ g1.recent ++ g1.historic, ∀ p ∈ b.reqs, p.2 ∈ b.secs := by
  intro g' hg'
  rcases List.mem_or_eq_of_mem_set hg' with hg'' | rfl
  · exact h g' hg''
  · exact hg

/-- the freshly built window of advanceRecentBuckets holds no contributors -/
theorem extend_new {fuel want : Nat} {l : List Bucket} {b : Bucket} (hb : b ∈ extend fuel want l) : b ∈ l ∨ b.reqs = [] := by
  induction fuel generalizing l with
  | zero => exact Or.inl hb
  | succ n ih =>
    unfold extend at hb
    cases l with
    | nil => simp at hb
    | cons b0 bs =>
      simp only at hb
      split at hb
      · rcases ih hb with h | h
        · simp only [List.mem_append, List.mem_singleton] at h
          rcases h with h | rfl
          · exact Or.inl h
          · exact Or.inr rfl
        · exact Or.inr h
      · exact Or.inl hb

theorem dropReady_mem {fuel now sw : Nat} {l : List Bucket} {b : Bucket}
    (hb : b ∈ (dropReady fuel now sw l).1 ∨ b ∈ (dropReady fuel now sw l).2) : b ∈ l := by
  induction fuel generalizing l with
  | zero => simpa [dropReady] using hb
  | succ n ih =>
    cases l with
    | nil => simp [dropReady] at hb
    | cons b0 bs =>
      unfold dropReady at hb
      split at hb
      · simp only [List.mem_cons] at hb ⊢
        rcases hb with (rfl | hb) | hb
        · exact Or.inl rfl
        · exact Or.inr (ih (Or.inl hb))
        · exact Or.inr (ih (Or.inr hb))
      · simpa using hb

/-- every bucket after advanceRecentBuckets (ready ones and the new window) is an old one or has no contributors -/
theorem advance_mem {recent : List Bucket} {now sw : Nat} {b : Bucket}
    (hb : b ∈ (advance recent now sw).1 ∨ b ∈ (advance recent now sw).2) : b ∈ recent ∨ b.reqs = [] := by
  unfold advance at hb
  simp only at hb
  rcases hb with hb | hb
  · exact Or.inl (dropReady_mem (Or.inl hb))
  · rcases extend_new hb with h | h
    · split at h
      · simp only [List.mem_singleton] at h; subst h; exact Or.inr rfl
      · exact Or.inl (dropReady_mem (Or.inr h))
    · exact Or.inr h

theorem sinv_up {s : State} (r now : Nat) (h : SInv s []) : SInv (step s (.up r now)).1 [] := by
  simp only [step, stepUp]
  split
  · exact h
  · split
    · exact h
    · have hnew : ∀ b ∈ (advance [] now s.shortWindow).2 ++ [], b.reqs = [] := by
        intro b hb
        rcases advance_mem (recent := []) (Or.inr (by simpa using hb)) with h | h
        · simp at h
        · exact h
      refine h.shrink rfl rfl rfl rfl rfl ?_ (fun a ha => ha) (bucket_setAgg h.bucket ?_)
      · intro p hp
        rcases tags_setAgg hp with hp | hp
        · exact hp
        · simp only [List.mem_flatMap] at hp
          obtain ⟨b, hb, hp⟩ := hp
          rw [hnew b hb] at hp; simp at hp
      · intro b hb p hp; rw [hnew b hb] at hp; simp at hp

theorem sinv_failFlights {s : State} (fs : List Flight) (h : SInv s []) : SInv (failFlights fs s).1 [] := by
  induction fs generalizing s with
  | nil => exact h
  | cons f fs ih =>
    unfold failFlights
    cases hf : findFlight s.ag f.rid with
    | none => exact ih h
    | some f' => exact ih (sinv_agentContinue h (find?_flight hf).1 (by simp))

theorem sinv_down {s : State} (r : Nat) (h : SInv s []) : SInv (step s (.down r)).1 [] := by
  simp only [step, stepDown]
  split
  · exact h
  · apply sinv_failFlights
    refine h.shrink rfl rfl rfl rfl rfl ?_ (fun a ha => ha) (bucket_setAgg (g := { up := false, recent := [], historic := [] }) h.bucket (by simp))
    intro p hp
    rcases tags_setAgg hp with hp | hp
    · exact hp
    · simp at hp

theorem mem_parkAt {l : List Bucket} {i rid sec : Nat} {y : Bucket} (h : y ∈ parkAt l i rid sec) :
    y ∈ l ∨ ∃ b ∈ l, y = park b rid sec := by
  induction l generalizing i with
  | nil => simp [parkAt] at h
  | cons b bs ih =>
    cases i with
    | zero =>
      simp only [parkAt, List.mem_cons] at h ⊢
      rcases h with rfl | h
      · exact Or.inr ⟨b, Or.inl rfl, rfl⟩
      · exact Or.inl (Or.inr h)
    | succ n =>
      simp only [parkAt, List.mem_cons] at h ⊢
      rcases h with rfl | h
      · exact Or.inl (Or.inl rfl)
      · rcases ih h with h | ⟨b', hb', rfl⟩
        · exact Or.inl (Or.inr h)
        · exact Or.inr ⟨b', Or.inr hb', rfl⟩

theorem mem_parkHistoric {l : List Bucket} {rid sec : Nat} {y : Bucket} (h : y ∈ parkHistoric l rid sec) :
    y ∈ l ∨ y = park (mkBucket sec) rid sec ∨ ∃ b ∈ l, y = park b rid sec := by
  induction l with
  | nil => simp only [parkHistoric, List.mem_singleton] at h; exact Or.inr (Or.inl h)
  | cons b bs ih =>
    unfold parkHistoric at h
    split at h
    · simp only [List.mem_cons] at h ⊢
      rcases h with rfl | h
      · exact Or.inr (Or.inr ⟨b, Or.inl rfl, rfl⟩)
      · exact Or.inl (Or.inr h)
    · simp only [List.mem_cons] at h ⊢
      rcases h with rfl | h
      · exact Or.inl (Or.inl rfl)
      · rcases ih h with h | h | ⟨b', hb', rfl⟩
        · exact Or.inl (Or.inr h)
        · exact Or.inr (Or.inl h)
        · exact Or.inr (Or.inr ⟨b', Or.inr hb', rfl⟩)

/-- a parked bucket list after one more request joined: old contributors plus (rid, sec), rows recorded -/
def JoinOk (l' l : List Bucket) (rid sec : Nat) : Prop :=
  ∀ y ∈ l', (∀ p ∈ y.reqs, p = (rid, sec) ∨ ∃ b ∈ l, p ∈ b.reqs) ∧
            ((∀ b ∈ l, ∀ p ∈ b.reqs, p.2 ∈ b.secs) → ∀ p ∈ y.reqs, p.2 ∈ y.secs)

theorem park_ok {b : Bucket} {rid sec : Nat} {l : List Bucket} (hb : b ∈ l ∨ b = mkBucket sec) :
    (∀ p ∈ (park b rid sec).reqs, p = (rid, sec) ∨ ∃ b ∈ l, p ∈ b.reqs) ∧
    ((∀ b ∈ l, ∀ p ∈ b.reqs, p.2 ∈ b.secs) → ∀ p ∈ (park b rid sec).reqs, p.2 ∈ (park b rid sec).secs) := by
  constructor
  · intro p hp
    simp only [park, List.mem_append, List.mem_singleton] at hp
    rcases hp with hp | rfl
    · rcases hb with hb | rfl
      · exact Or.inr ⟨b, hb, hp⟩
      · simp [mkBucket] at hp
    · exact Or.inl rfl
  · intro hl p hp
    simp only [park, List.mem_append, List.mem_singleton] at hp ⊢
    rcases hp with hp | rfl
    · rcases hb with hb | rfl
      · exact Or.inl (hl b hb p hp)
      · simp [mkBucket] at hp
    · exact Or.inr rfl

theorem joinOk_modify (l : List Bucket) (i rid sec : Nat) : JoinOk (parkAt l i rid sec) l rid sec := by
  intro y hy
  rcases mem_parkAt hy with hy | ⟨b, hb, rfl⟩
  · exact ⟨fun p hp => Or.inr ⟨y, hy, hp⟩, fun hl p hp => hl y hy p hp⟩
  · exact park_ok (Or.inl hb)

theorem joinOk_parkHistoric (l : List Bucket) (rid sec : Nat) : JoinOk (parkHistoric l rid sec) l rid sec := by
  intro y hy
  rcases mem_parkHistoric hy with hy | rfl | ⟨b, hb, rfl⟩
  · exact ⟨fun p hp => Or.inr ⟨y, hy, hp⟩, fun hl p hp => hl y hy p hp⟩
  · exact park_ok (Or.inr rfl)
  · exact park_ok (Or.inl hb)

theorem JoinOk.refl' (l : List Bucket) (rid sec : Nat) : JoinOk l l rid sec :=
  fun y hy => ⟨fun p hp => Or.inr ⟨y, hy, hp⟩, fun hl p hp => hl y hy p hp⟩

/-- replica r's state is replaced by one in which request (rid, sec) may have joined a bucket -/
theorem sinv_join {s : State} {q : Req} {g g' : Agg} (h : SInv s []) (hq : q ∈ s.reqs) (hg : g ∈ s.aggs)
    (hr : JoinOk g'.recent g.recent q.rid q.sec) (hh : JoinOk g'.historic g.historic q.rid q.sec) :
    SInv (setAgg (dropReq s q.rid) q.replica g') [] := by
  have hqt : (q.rid, q.sec) ∈ ridTags s := by
    simp only [ridTags, List.mem_append, List.mem_map]; exact Or.inl (Or.inl (Or.inr ⟨q, hq, rfl⟩))
  have hgb := h.bucket g hg
  refine h.shrink rfl rfl rfl rfl rfl ?_ (fun a ha => ha) ?_
  · intro p hp
    rcases tags_setAgg hp with hp | hp
    · simp only [dropReq] at hp; tag_solve
    · simp only [List.mem_flatMap, List.mem_append] at hp
      obtain ⟨y, hy, hp⟩ := hp
      have : p = (q.rid, q.sec) ∨ ∃ b ∈ g.recent ++ g.historic, p ∈ b.reqs := by
        rcases hy with hy | hy
        · rcases (hr y hy).1 p hp with h1 | ⟨b, hb, h1⟩
          · exact Or.inl h1
          · exact Or.inr ⟨b, by simp [hb], h1⟩
        · rcases (hh y hy).1 p hp with h1 | ⟨b, hb, h1⟩
          · exact Or.inl h1
          · exact Or.inr ⟨b, by simp [hb], h1⟩
      rcases this with rfl | ⟨b, hb, h1⟩
      · exact hqt
      · simp only [ridTags, parked, List.mem_append, List.mem_flatMap]
        exact Or.inr ⟨g, hg, b, by simpa using hb, h1⟩
  · refine bucket_setAgg (s := dropReq s q.rid) h.bucket ?_
    intro y hy p hp
    simp only [List.mem_append] at hy
    rcases hy with hy | hy
    · exact (hr y hy).2 (fun b hb => hgb b (by simp [hb])) p hp
    · exact (hh y hy).2 (fun b hb => hgb b (by simp [hb])) p hp

theorem sinv_recv {s : State} (rid : Nat) (h : SInv s []) : SInv (step s (.recv rid)).1 [] := by
  simp only [step, stepRecv]
  cases hr : findReq s rid with
  | none => exact h
  | some q =>
    have hq : q ∈ s.reqs ∧ q.rid = rid := by
      unfold findReq at hr; exact ⟨List.mem_of_find?_eq_some hr, by simpa using List.find?_some hr⟩
    have h1 : SInv (dropReq s rid) [] :=
      h.shrink rfl rfl rfl rfl rfl (by intro p hp; simp only [dropReq] at hp; tag_solve) (fun a ha => ha) h.bucket
    have href : SInv (recvRefused (dropReq s rid) rid).1 [] := by
      unfold recvRefused
      cases hf : findFlight (dropReq s rid).ag rid with
      | none => exact h1
      | some f => exact sinv_agentContinue h1 (find?_flight hf).1 (by simp)
    simp only
    cases hg : (dropReq s rid).aggs[q.replica]? with
    | none => exact href
    | some g =>
      simp only
      split
      · exact href
      · have hgm : g ∈ s.aggs := List.mem_of_getElem? hg
        unfold recvHandle
        split
        · split
          · -- immediate answer
            rename_i d why _
            rw [← hq.2] at h1 ⊢
            refine h.step (fun t ht => ?_) (fun hA => Keeps.refl hA) (Nat.le_refl _) ⟨0, ?_⟩ ?_ h.bucket (fun t ht => Or.inl ht)
            · simp only [P, dropReq] at ht ⊢
              rcases ht with ht | ht
              · exact Or.inl ht
              · right; split <;> simp [ht]
            · intro p hp; left; simp only [dropReq] at hp; tag_solve
            · intro a ha
              simp only [dropReq, List.mem_append, List.mem_singleton] at ha
              rcases ha with ha | rfl
              · exact Or.inl ha
              · right; intro hd _; simp only at hd; subst hd; simp [P, dropReq]
          · rw [← hq.2]
            exact sinv_join (g' := { g with recent := parkAt g.recent _ q.rid q.sec }) h hq.1 hgm
              (joinOk_modify _ _ _ _) (JoinOk.refl' _ _ _)
          · rw [← hq.2]
            exact sinv_join (g' := { g with historic := parkHistoric g.historic q.rid q.sec }) h hq.1 hgm
              (JoinOk.refl' _ _ _) (joinOk_parkHistoric _ _ _)
        · exact h1

/-- rows of every parked contributor are in the bucket -/
def BI (b : Bucket) : Prop := ∀ p ∈ b.reqs, p.2 ∈ b.secs

theorem takeHistoric_sub (fuel : Nat) (h : List Bucket) (oldest w rc hc : Nat) :
    (∀ b ∈ (takeHistoric fuel h oldest w rc hc).historic, b ∈ h) ∧
    (∀ b ∈ (takeHistoric fuel h oldest w rc hc).taken, b ∈ h) ∧
    (∀ b ∈ (takeHistoric fuel h oldest w rc hc).stale, b ∈ h) := by
  induction fuel generalizing h hc with
  | zero => simp [takeHistoric]
  | succ n ih =>
    unfold takeHistoric
    dsimp only
    have f1 : ∀ b ∈ h.filter (isStale oldest w), b ∈ h := fun b hb => (List.mem_filter.mp hb).1
    have f2 : ∀ b ∈ h.filter (fun b => !isStale oldest w b), b ∈ h := fun b hb => (List.mem_filter.mp hb).1
    split
    · exact ⟨f2, by simp, f1⟩
    · rename_i m _
      have f3 : ∀ b ∈ (h.filter (fun b => !isStale oldest w b)).filter (fun b => b.time == m), b ∈ h :=
        fun b hb => f2 b (List.mem_filter.mp hb).1
      have f4 : ∀ b ∈ (h.filter (fun b => !isStale oldest w b)).filter (fun b => b.time != m), b ∈ h :=
        fun b hb => f2 b (List.mem_filter.mp hb).1
      split
      · exact ⟨f4, f3, f1⟩
      · have := ih ((h.filter (fun b => !isStale oldest w b)).filter (fun b => b.time != m))
          (hc + (((h.filter (fun b => !isStale oldest w b)).filter (fun b => b.time == m)).map (fun b => b.joined)).sum)
        refine ⟨fun b hb => f4 b (this.1 b hb), ?_, ?_⟩
        · intro b hb; simp only [List.mem_append] at hb
          rcases hb with hb | hb
          · exact f3 b hb
          · exact f4 b (this.2.1 b hb)
        · intro b hb; simp only [List.mem_append] at hb
          rcases hb with hb | hb
          · exact f1 b hb
          · exact f4 b (this.2.2 b hb)

theorem insertOne_facts (b : Bucket) (h : List Bucket) (oldest w : Nat) (ok : Bool) (hb : BI b) (hh : ∀ x ∈ h, BI x) :
    (∀ x ∈ (insertOne b h oldest w ok).historic, x ∈ h) ∧
    (∀ a ∈ (insertOne b h oldest w ok).resps, ∃ x ∈ b :: h, (a.rid, a.sec) ∈ x.reqs) ∧
    (∀ a ∈ (insertOne b h oldest w ok).resps, a.discard = true → a.err = false →
        a.why = .stale ∨ (ok = true ∧ a.sec ∈ (insertOne b h oldest w ok).body)) := by
  unfold insertOne
  generalize hbatch : (if (h.isEmpty || insertHistoricWhen == 0) = true then ({ historic := h, taken := [], stale := [] } : Batch)
      else takeHistoric maxHistoricBatch h oldest w b.joined 0) = batch
  have hsub : (∀ x ∈ batch.historic, x ∈ h) ∧ (∀ x ∈ batch.taken, x ∈ h) ∧ (∀ x ∈ batch.stale, x ∈ h) := by
    rw [← hbatch]; split
    · simp
    · exact takeHistoric_sub _ _ _ _ _ _
  dsimp only
  refine ⟨hsub.1, ?_, ?_⟩
  · intro a ha
    simp only [List.mem_append, List.mem_flatten, List.mem_map] at ha
    rcases ha with ⟨l, ⟨x, hx, rfl⟩, ha⟩ | ⟨l, ⟨x, hx, rfl⟩, ha⟩
    · exact ⟨x, List.mem_cons_of_mem _ (hsub.2.2 x hx), by
        simp only [answersOf, List.mem_map] at ha; obtain ⟨p, hp, rfl⟩ := ha; exact hp⟩
    · refine ⟨x, ?_, by simp only [answersOf, List.mem_map] at ha; obtain ⟨p, hp, rfl⟩ := ha; exact hp⟩
      simp only [List.mem_cons] at hx ⊢
      rcases hx with rfl | hx
      · exact Or.inl rfl
      · exact Or.inr (hsub.2.1 x hx)
  · intro a ha hd he
    simp only [List.mem_append, List.mem_flatten, List.mem_map] at ha
    rcases ha with ⟨l, ⟨x, hx, rfl⟩, ha⟩ | ⟨l, ⟨x, hx, rfl⟩, ha⟩
    · left; simp only [answersOf, List.mem_map] at ha; obtain ⟨p, hp, rfl⟩ := ha; rfl
    · right
      simp only [answersOf, List.mem_map] at ha; obtain ⟨p, hp, rfl⟩ := ha
      simp only at hd
      refine ⟨hd, ?_⟩
      have hbi : BI x := by
        simp only [List.mem_cons] at hx
        rcases hx with rfl | hx
        · exact hb
        · exact hh x (hsub.2.1 x hx)
      simp only [List.mem_flatten, List.mem_map]
      exact ⟨x.secs, ⟨x, hx, rfl⟩, hbi p hp⟩

theorem tickBuckets_facts (k oldest w : Nat) (ok : Bool) (l : List Bucket) (acc : TickAcc)
    (hl : ∀ x ∈ l, BI x) (hh : ∀ x ∈ acc.historic, BI x) :
    (∀ x ∈ (tickBuckets k oldest w ok l acc).historic, x ∈ acc.historic) ∧
    (∀ a ∈ (tickBuckets k oldest w ok l acc).resps, a ∈ acc.resps ∨ ∃ x ∈ l ++ acc.historic, (a.rid, a.sec) ∈ x.reqs) ∧
    (∀ a ∈ (tickBuckets k oldest w ok l acc).resps, a ∈ acc.resps ∨ (a.discard = true → a.err = false →
        a.sec ∈ (tickBuckets k oldest w ok l acc).inserted ∨ a.sec ∈ (tickBuckets k oldest w ok l acc).rejected)) ∧
    (∀ t ∈ acc.inserted, t ∈ (tickBuckets k oldest w ok l acc).inserted) ∧
    (∀ t ∈ acc.rejected, t ∈ (tickBuckets k oldest w ok l acc).rejected) := by
  induction l generalizing acc with
  | nil => unfold tickBuckets; exact ⟨fun _ h => h, fun a ha => Or.inl ha, fun a ha => Or.inl ha, fun _ h => h, fun _ h => h⟩
  | cons b bs ih =>
    unfold tickBuckets
    split
    · have := ih acc (fun x hx => hl x (List.mem_cons_of_mem _ hx)) hh
      refine ⟨this.1, ?_, this.2.2⟩
      intro a ha
      rcases this.2.1 a ha with h1 | ⟨x, hx, h1⟩
      · exact Or.inl h1
      · exact Or.inr ⟨x, by simp only [List.mem_append, List.mem_cons] at hx ⊢; grind, h1⟩
    · have fo := insertOne_facts b acc.historic oldest w ok (hl b (by simp)) hh
      dsimp only
      generalize insertOne b acc.historic oldest w ok = o at fo ⊢
      have := ih { historic := o.historic, resps := acc.resps ++ o.resps,
                   inserted := if ok = true then acc.inserted ++ o.body else acc.inserted,
                   rejected := acc.rejected ++ ((o.resps.filter (fun x => x.why == .stale)).map (·.sec)),
                   evs := acc.evs ++ [.ins b.time o.body o.nHistoric ok] }
        (fun x hx => hl x (List.mem_cons_of_mem _ hx)) (fun x hx => hh x (fo.1 x hx))
      obtain ⟨t1, t2, t3, t4, t5⟩ := this
      simp only at t1 t2 t3 t4 t5
      refine ⟨fun x hx => fo.1 x (t1 x hx), ?_, ?_, ?_, ?_⟩
      · intro a ha
        rcases t2 a ha with h1 | ⟨x, hx, h1⟩
        · simp only [List.mem_append] at h1
          rcases h1 with h1 | h1
          · exact Or.inl h1
          · obtain ⟨x, hx, hp⟩ := fo.2.1 a h1
            exact Or.inr ⟨x, by simp only [List.mem_append, List.mem_cons] at hx ⊢; grind, hp⟩
        · refine Or.inr ⟨x, ?_, h1⟩
          simp only [List.mem_append, List.mem_cons] at hx ⊢
          rcases hx with hx | hx
          · exact Or.inl (Or.inr hx)
          · exact Or.inr (fo.1 x hx)
      · intro a ha
        rcases t3 a ha with h1 | h1
        · simp only [List.mem_append] at h1
          rcases h1 with h1 | h1
          · exact Or.inl h1
          · right; intro hd he
            rcases fo.2.2 a h1 hd he with hs | ⟨hok, hbody⟩
            · right; apply t5; simp only [List.mem_append, List.mem_map, List.mem_filter]
              exact Or.inr ⟨a, ⟨h1, by simp [hs]⟩, rfl⟩
            · left; apply t4; simp [hok, hbody]
        · exact Or.inr h1
      · intro t ht; apply t4; split <;> simp [ht]
      · intro t ht; apply t5; simp [ht]

theorem sinv_tick {s : State} (r now : Nat) (ok : Bool) (h : SInv s []) : SInv (step s (.tick r now ok)).1 [] := by
  simp only [step, stepTick]
  cases hg : s.aggs[r]? with
  | none => exact h
  | some g =>
    simp only
    split
    · exact h
    · have hgm : g ∈ s.aggs := List.mem_of_getElem? hg
      have hgb := h.bucket g hgm
      have hadv : ∀ x, x ∈ (advance g.recent now s.shortWindow).1 ∨ x ∈ (advance g.recent now s.shortWindow).2 →
          (x ∈ g.recent ∨ x.reqs = []) := fun x hx => advance_mem hx
      generalize advance g.recent now s.shortWindow = adv at hadv ⊢
      have hBIr : ∀ x ∈ adv.1, BI x := by
        intro x hx p hp
        rcases hadv x (Or.inl hx) with h1 | h1
        · exact hgb x (by simp [h1]) p hp
        · rw [h1] at hp; simp at hp
      have hBIh : ∀ x ∈ g.historic, BI x := fun x hx p hp => hgb x (by simp [hx]) p hp
      have tf := tickBuckets_facts r (match adv.2.head? with | some b => b.time | none => 0) s.aggWindow ok adv.1
        { historic := g.historic, resps := [], inserted := [], rejected := [], evs := [] } hBIr hBIh
      generalize tickBuckets r (match adv.2.head? with | some b => b.time | none => 0) s.aggWindow ok adv.1
        { historic := g.historic, resps := [], inserted := [], rejected := [], evs := [] } = acc at tf ⊢
      obtain ⟨t1, t2, t3, _, _⟩ := tf
      simp only [List.not_mem_nil, false_or] at t1 t2 t3
      have hsrc : ∀ x ∈ adv.1 ++ g.historic, ∀ p ∈ x.reqs, p ∈ ridTags s := by
        intro x hx p hp
        have : x ∈ g.recent ++ g.historic := by
          simp only [List.mem_append] at hx ⊢
          rcases hx with hx | hx
          · rcases hadv x (Or.inl hx) with h1 | h1
            · exact Or.inl h1
            · rw [h1] at hp; simp at hp
          · exact Or.inr hx
        simp only [ridTags, parked, List.mem_append, List.mem_flatMap]
        exact Or.inr ⟨g, hgm, x, by simpa using this, hp⟩
      have hnewg : ∀ y ∈ adv.2 ++ acc.historic, (y ∈ g.recent ++ g.historic) ∨ y.reqs = [] := by
        intro y hy
        simp only [List.mem_append] at hy ⊢
        rcases hy with hy | hy
        · rcases hadv y (Or.inr hy) with h1 | h1
          · exact Or.inl (Or.inl h1)
          · exact Or.inr h1
        · exact Or.inl (Or.inr (t1 y hy))
      refine h.step (fun t ht => ?_) (fun hA => Keeps.refl hA) (Nat.le_refl _) ⟨0, ?_⟩ ?_ ?_ (fun t ht => Or.inl ht)
      · simp only [P, setAgg, List.mem_append] at ht ⊢
        rcases ht with ht | ht
        · exact Or.inl (Or.inl ht)
        · exact Or.inr (Or.inl ht)
      · intro p hp; left
        simp only [ridTags, List.mem_append] at hp
        rcases hp with ((hp | hp) | hp) | hp
        · simp only [ridTags, List.mem_append]; exact Or.inl (Or.inl (Or.inl hp))
        · simp only [ridTags, List.mem_append]; exact Or.inl (Or.inl (Or.inr hp))
        · simp only [setAgg, List.map_append, List.mem_append, List.mem_map] at hp
          rcases hp with hp | ⟨a, ha, rfl⟩
          · simp only [ridTags, List.mem_append, List.mem_map]; exact Or.inl (Or.inr hp)
          · obtain ⟨x, hx, hpx⟩ := t2 a ha
            exact hsrc x hx _ hpx
        · have hp' : p ∈ parked (setAgg s r { g with recent := adv.2, historic := acc.historic }) := hp
          rcases mem_parked_setAgg hp' with hp' | hp'
          · simp only [ridTags, List.mem_append]; exact Or.inr hp'
          · simp only [List.mem_flatMap] at hp'
            obtain ⟨y, hy, hpy⟩ := hp'
            rcases hnewg y hy with h1 | h1
            · simp only [ridTags, parked, List.mem_append, List.mem_flatMap]
              exact Or.inr ⟨g, hgm, y, by simpa using h1, hpy⟩
            · rw [h1] at hpy; simp at hpy
      · intro a ha
        simp only [setAgg, List.mem_append] at ha
        rcases ha with ha | ha
        · exact Or.inl ha
        · right; intro hd he
          simp only [P, setAgg, List.mem_append]
          rcases t3 a ha hd he with h1 | h1
          · exact Or.inl (Or.inr h1)
          · exact Or.inr (Or.inr h1)
      · refine bucket_setAgg (s := s) (g := { g with recent := adv.2, historic := acc.historic }) h.bucket ?_
        intro y hy p hp
        rcases hnewg y hy with h1 | h1
        · exact hgb y h1 p hp
        · rw [h1] at hp; simp at hp

/-- g' has the buckets of g with possibly fewer contributors (CancelLongpoll) -/
def AggSub (g' g : Agg) : Prop :=
  ∀ b' ∈ g'.recent ++ g'.historic, ∃ b ∈ g.recent ++ g.historic, b'.secs = b.secs ∧ ∀ p ∈ b'.reqs, p ∈ b.reqs

theorem AggSub.rfl' (g : Agg) : AggSub g g := fun b hb => ⟨b, hb, rfl, fun _ hp => hp⟩

theorem AggSub.trans' {g1 g2 g3 : Agg} (h12 : AggSub g1 g2) (h23 : AggSub g2 g3) : AggSub g1 g3 := by
  intro b1 hb1
  obtain ⟨b2, hb2, hs2, hr2⟩ := h12 b1 hb1
  obtain ⟨b3, hb3, hs3, hr3⟩ := h23 b2 hb2
  exact ⟨b3, hb3, hs2.trans hs3, fun p hp => hr3 p (hr2 p hp)⟩

theorem aggSub_unpark (g : Agg) (rid : Nat) : AggSub (unpark g rid) g := by
  intro b' hb'
  simp only [unpark, List.mem_append, List.mem_map] at hb'
  rcases hb' with ⟨b, hb, rfl⟩ | ⟨b, hb, rfl⟩
  · exact ⟨b, by simp [hb], rfl, fun p hp => mem_unpark_reqs hp⟩
  · exact ⟨b, by simp [hb], rfl, fun p hp => mem_unpark_reqs hp⟩

theorem aggSub_foldl (rids : List Nat) (g : Agg) : AggSub (rids.foldl unpark g) g := by
  induction rids generalizing g with
  | nil => exact AggSub.rfl' g
  | cons r rs ih => exact (ih (unpark g r)).trans' (aggSub_unpark g r)

theorem parked_map_sub {aggs : List Agg} {F : Agg → Agg} (hF : ∀ g, AggSub (F g) g) {p : Nat × Nat}
    (h : p ∈ (aggs.map F).flatMap (fun g => (g.recent ++ g.historic).flatMap (·.reqs))) :
    p ∈ aggs.flatMap (fun g => (g.recent ++ g.historic).flatMap (·.reqs)) := by
  simp only [List.mem_flatMap, List.mem_map] at h ⊢
  obtain ⟨g', ⟨g, hg, rfl⟩, b', hb', hp⟩ := h
  obtain ⟨b, hb, _, hr⟩ := hF g b' hb'
  exact ⟨g, hg, b, hb, hr p hp⟩

theorem bucket_map_sub {aggs : List Agg} {F : Agg → Agg} (hF : ∀ g, AggSub (F g) g)
    (h : ∀ g ∈ aggs, ∀ b ∈ g.recent ++ g.historic, ∀ p ∈ b.reqs, p.2 ∈ b.secs) :
    ∀ g ∈ aggs.map F, ∀ b ∈ g.recent ++ g.historic, ∀ p ∈ b.reqs, p.2 ∈ b.secs := by
  intro g' hg' b' hb' p hp
  simp only [List.mem_map] at hg'
  obtain ⟨g, hg, rfl⟩ := hg'
  obtain ⟨b, hb, hs, hr⟩ := hF g b' hb'
  rw [hs]; exact h g hg b hb p (hr p hp)

theorem flushFlights_facts (fs : List Flight) (a : Agent) :
    (∀ r ∈ a.recs, r ∈ (flushFlights fs a).recs) ∧
    (flushFlights fs a).dropped = a.dropped ∧ (flushFlights fs a).lostMem = a.lostMem ∧
    (∀ f ∈ fs, f.historic = false → f.cbd.id = 0 → a.disk = true → a.diskOk = true →
        ∃ r ∈ (flushFlights fs a).recs, r.sec = f.cbd.sec) := by
  induction fs generalizing a with
  | nil => simp [flushFlights]
  | cons f fs ih =>
    unfold flushFlights
    by_cases hh : f.historic = true
    · simp only [hh, if_true]
      obtain ⟨i1, i2, i3, i4⟩ := ih a
      refine ⟨i1, i2, i3, ?_⟩
      intro f' hf' hn
      simp only [List.mem_cons] at hf'
      rcases hf' with rfl | hf'
      · simp [hh] at hn
      · exact i4 f' hf' hn
    · simp only [hh, Bool.false_eq_true, if_false]
      obtain ⟨i1, i2, i3, i4⟩ := ih (diskPut a f.cbd).1
      have hput : (∀ r ∈ a.recs, r ∈ (diskPut a f.cbd).1.recs) ∧ (diskPut a f.cbd).1.disk = a.disk ∧
          (diskPut a f.cbd).1.diskOk = a.diskOk ∧
          (f.cbd.id = 0 → a.disk = true → a.diskOk = true → ∃ r ∈ (diskPut a f.cbd).1.recs, r.sec = f.cbd.sec) := by
        unfold diskPut canPut
        split
        · refine ⟨fun r hr => by simp [hr], rfl, rfl, fun _ _ _ => ⟨⟨f.cbd.sec, a.lastId + 1⟩, by simp, rfl⟩⟩
        · rename_i hc
          refine ⟨fun r hr => hr, rfl, rfl, fun h0 hd ho => ?_⟩
          simp [h0, hd, ho] at hc
      have fr := diskPut_frame a f.cbd
      refine ⟨fun r hr => i1 r (hput.1 r hr), by rw [i2, fr.2.2.1], by rw [i3, fr.2.2.2.1], ?_⟩
      intro f' hf' hn h0 hd ho
      simp only [List.mem_cons] at hf'
      rcases hf' with rfl | hf'
      · obtain ⟨r, hr, hs⟩ := hput.2.2.2 h0 hd ho
        exact ⟨r, i1 r hr, hs⟩
      · exact i4 f' hf' hn h0 (by rw [hput.2.1]; exact hd) (by rw [hput.2.2.1]; exact ho)

theorem readN_flights (n : Nat) (a : Agent) : (readN n a).flights = a.flights := by
  induction n generalizing a with
  | zero => rfl
  | succ n ih => unfold readN; rw [ih, readNext_flights]

theorem mem_resetIds {l : List Rec} {r : Rec} (h : r ∈ l) : ⟨r.sec, 0⟩ ∈ resetIds l := by
  simp only [resetIds, List.mem_map]; exact ⟨r, h, rfl⟩

set_option maxRecDepth 4000 in
theorem sinv_agentRestart {s : State} (crash : Bool) (h : SInv s []) : SInv (step s (.agentRestart crash)).1 [] := by
  simp only [step, stepAgentRestart]
  generalize hb : (if crash = true then s.ag else flushFlights s.ag.flights s.ag) = b
  have hbf : (∀ r ∈ s.ag.recs, r ∈ b.recs) ∧ b.dropped = s.ag.dropped ∧ b.lostMem = s.ag.lostMem ∧
      (crash = false → ∀ f ∈ s.ag.flights, f.historic = false → f.cbd.id = 0 → s.ag.disk = true → s.ag.diskOk = true →
        ∃ r ∈ b.recs, r.sec = f.cbd.sec) := by
    rw [← hb]; cases crash
    · simp only [Bool.false_eq_true, if_false]
      have := flushFlights_facts s.ag.flights s.ag
      exact ⟨this.1, this.2.1, this.2.2.1, fun _ => this.2.2.2⟩
    · simp
  refine h.step (fun t ht => ht) ?_ (Nat.le_refl _) ⟨0, ?_⟩ (fun a ha => Or.inl (List.mem_filter.mp ha).1)
    (bucket_map_sub (fun g => aggSub_foldl _ g) h.bucket) (fun t ht => Or.inl ht)
  · intro hA
    refine Keeps.trans (a1 := restarted b (memOnly s.ag (!crash))) (x1 := []) ?_ (fun h' => keeps_readN startupReads h')
    constructor
    · unfold restarted
      refine ⟨?_, ?_, ?_, ?_, ?_, ?_⟩
      · intro r hr; simp only [resetIds, List.mem_map] at hr; obtain ⟨r0, _, rfl⟩ := hr; simp
      · intro c hc; simp [cbds] at hc
      · intro r1 hr1 r2 _ _ hne; simp only [resetIds, List.mem_map] at hr1; obtain ⟨r0, _, rfl⟩ := hr1; simp at hne
      · intro c hc; simp [cbds] at hc
      · intro c hc; simp [cbds] at hc
      · intro c hc; simp [cbds] at hc
    · intro t ht
      obtain ⟨h1, h2, h3, h4, h5, h6⟩ := hA
      have hR : ∀ l, (restarted b l).recs = resetIds b.recs ∧ (restarted b l).dropped = b.dropped ∧ (restarted b l).lostMem = b.lostMem ++ l := fun l => ⟨rfl, rfl, rfl⟩
      have hrec : ∀ r ∈ s.ag.recs, safeX (P s) (restarted b (memOnly s.ag (!crash))) [] r.sec := by
        intro r hr; left; right; rw [mem_heldSecs]; right; right
        exact ⟨⟨r.sec, 0⟩, by rw [(hR _).1]; exact mem_resetIds (hbf.1 r hr), rfl⟩
      have hacc : ∀ u, accA (P s) s.ag u → safeX (P s) (restarted b (memOnly s.ag (!crash))) [] u := by
        intro u hu; right
        rcases hu with hu | hu | hu
        · exact Or.inl hu
        · exact Or.inr (Or.inl (by rw [(hR _).2.1, hbf.2.1]; exact hu))
        · exact Or.inr (Or.inr (by rw [(hR _).2.2, List.mem_append, hbf.2.2.1]; exact Or.inl hu))
      have hlost : ∀ u ∈ memOnly s.ag (!crash), safeX (P s) (restarted b (memOnly s.ag (!crash))) [] u := by
        intro u hu; right; right; right; rw [(hR _).2.2, List.mem_append]; exact Or.inr hu
      have hcbd : ∀ c ∈ cbds s.ag [], c.id ≠ 0 → safeX (P s) (restarted b (memOnly s.ag (!crash))) [] c.sec := by
        intro c hc hne
        rcases h5 c hc hne with ⟨r, hr, he⟩ | hacc'
        · rw [← h4 c hc r hr he hne]; exact hrec r hr
        · exact hacc _ hacc'
      rcases ht with ht | ht
      · rcases ht with ht | ht
        · simp at ht
        · rw [mem_heldSecs] at ht
          rcases ht with ⟨c, hc, rfl⟩ | ⟨f, hf, rfl⟩ | ⟨r, hr, rfl⟩
          · by_cases hz : c.id = 0
            · apply hlost; simp only [memOnly, List.mem_append, List.mem_map, List.mem_filter]
              exact Or.inl ⟨c, ⟨hc, by simp [hz]⟩, rfl⟩
            · exact hcbd c (by simp [mem_cbds, hc]) hz
          · by_cases hz : f.cbd.id = 0
            · by_cases hl : (f.cbd.id == 0 && (f.historic || !(!crash) || !s.ag.disk || !s.ag.diskOk)) = true
              · apply hlost; simp only [memOnly, List.mem_append, List.mem_map, List.mem_filter]
                exact Or.inr ⟨f, ⟨hf, hl⟩, rfl⟩
              · have hq : f.historic = false ∧ crash = false ∧ s.ag.disk = true ∧ s.ag.diskOk = true := by
                  cases hh : f.historic <;> cases crash <;> cases hd : s.ag.disk <;> cases ho : s.ag.diskOk <;> simp_all
                obtain ⟨r, hr, hs⟩ := hbf.2.2.2 hq.2.1 f hf hq.1 hz hq.2.2.1 hq.2.2.2
                left; right; rw [mem_heldSecs]; right; right
                exact ⟨⟨r.sec, 0⟩, by rw [(hR _).1]; exact mem_resetIds hr, hs⟩
            · exact hcbd f.cbd (by simp only [mem_cbds]; exact Or.inr (Or.inr ⟨f, hf, rfl⟩)) hz
          · exact hrec r hr
      · exact hacc t ht
  · intro p hp; left
    simp only [ridTags, parked, List.mem_append] at hp ⊢
    rcases hp with ((hp | hp) | hp) | hp
    · rw [readN_flights] at hp; simp [restarted] at hp
    · exact Or.inl (Or.inl (Or.inr hp))
    · refine Or.inl (Or.inr ?_); simp only [List.mem_map, List.mem_filter] at hp ⊢; obtain ⟨a, ha, rfl⟩ := hp; exact ⟨a, ha.1, rfl⟩
    · exact Or.inr (parked_map_sub (fun g => aggSub_foldl _ g) hp)

end SH.Delivery
