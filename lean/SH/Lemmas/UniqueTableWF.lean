/-
  SH.Lemmas.UniqueTableWF — rehash and resize of the open-addressing table RESTORE reachability
  (every stored value is reachable from its home slot without crossing an empty slot).
-/
import SH.Lemmas.UniqueTable
namespace SH.C04
open SH.UTable
open SH.Unique (Params good Sk)

/-! ### cyclic paths in linear terms -/

theorem mod_cases (a n : Nat) (hn : 0 < n) (ha : a < 2 * n) : (a < n ∧ a % n = a) ∨ (n ≤ a ∧ a % n = a - n) := by
  by_cases h : a < n
  · exact Or.inl ⟨h, Nat.mod_eq_of_lt h⟩
  · right
    refine ⟨by omega, ?_⟩
    rw [Nat.mod_eq_sub_mod (by omega), Nat.mod_eq_of_lt (by omega)]

theorem cdist_val (n h j : Nat) (hh : h < n) (hj : j < n) : cdist n h j = if h ≤ j then j - h else j + n - h := by
  unfold cdist
  rcases mod_cases (j + n - h) n (by omega) (by omega) with ⟨a, b⟩ | ⟨a, b⟩
  · rw [b]; split <;> omega
  · rw [b]; split <;> omega

/-- slot `s` lies on the probe path from home `h` to (excluding) slot `j` -/
def OnPath (h j s : Nat) : Prop := if h ≤ j then (h ≤ s ∧ s < j) else (h ≤ s ∨ s < j)

theorem onPath_of_lt (n h j d : Nat) (hh : h < n) (hj : j < n) (hd : d < cdist n h j) :
    OnPath h j ((h + d) % n) ∧ (h + d) % n < n := by
  rw [cdist_val n h j hh hj] at hd
  unfold OnPath
  rcases mod_cases (h + d) n (by omega) (by split at hd <;> omega) with ⟨a, b⟩ | ⟨a, b⟩
  · rw [b]; split at hd <;> split <;> omega
  · rw [b]; split at hd <;> split <;> omega

theorem onPath_idx (n h j s : Nat) (hh : h < n) (hj : j < n) (hs : s < n) (hp : OnPath h j s) :
    ∃ d < cdist n h j, (h + d) % n = s := by
  rw [cdist_val n h j hh hj]
  unfold OnPath at hp
  by_cases hsh : h ≤ s
  · refine ⟨s - h, by split at hp <;> split <;> omega, ?_⟩
    rw [show h + (s - h) = s by omega]; exact Nat.mod_eq_of_lt hs
  · refine ⟨s + n - h, by split at hp <;> split <;> omega, ?_⟩
    rw [show h + (s + n - h) = s + n by omega, Nat.add_mod_right]; exact Nat.mod_eq_of_lt hs

/-- reachability of slot `j` (holding a value with home `h`) in linear terms -/
theorem reach_iff (n : Nat) (g : Nat → Nat) (h j : Nat) (hh : h < n) (hj : j < n) :
    (∀ e < cdist n h j, g ((h + e) % n) ≠ 0) ↔ (∀ s < n, OnPath h j s → g s ≠ 0) := by
  constructor
  · intro hr s hs hp
    obtain ⟨d, hd, e⟩ := onPath_idx n h j s hh hj hs hp
    rw [← e]; exact hr d hd
  · intro hr e he
    obtain ⟨a, b⟩ := onPath_of_lt n h j e hh hj he
    exact hr _ b a

/-- home slot of the value stored in slot `j` -/
def hm (P : Params) (t : Tb) (j : Nat) : Nat := place P t (get t j)

/-- the value in slot `j` is reachable from its home slot -/
def RP (P : Params) (t : Tb) (j : Nat) : Prop := ∀ s < size t, OnPath (hm P t j) j s → get t s ≠ 0

theorem wf_reach_iff (P : Params) (t : Tb) (i : Nat) (hi : i < size t) :
    (∀ e < cdist (size t) (place P t (get t i)) i, get t ((place P t (get t i) + e) % size t) ≠ 0) ↔ RP P t i :=
  reach_iff (size t) (get t) _ i (place_lt P t _) hi

/-! ### one "fix" move: empty slot i, put its value into the first free slot from its home -/

/-- description of `reinsertImpl P (put t i 0) (get t i)` -/
theorem fix_desc (P : Params) (t : Tb) (i : Nat) (hs : Shape t) (hi : i < size t) (hx : get t i ≠ 0) :
    ∃ q < size t, reinsertImpl P (put t i 0) (get t i) = put (put t i 0) q (get t i) ∧ get (put t i 0) q = 0 ∧
      (q = i ∨ OnPath (hm P t i) i q) ∧
      (∀ s < size t, OnPath (hm P t i) q s → get (put t i 0) s ≠ 0) := by
  have hl : (slots t).length = size t := hs
  have pf := put_fields t i 0
  have hsz : size (put t i 0) = size t := size_congr pf.2.1
  have hpl : place P (put t i 0) (get t i) = hm P t i := by unfold hm place; rw [pf.2.1]
  have hgi : get (put t i 0) i = 0 := get_put_self t i 0 (by rw [hl]; exact hi)
  have hp := place_lt P (put t i 0) (get t i)
  obtain ⟨q, hq, hqlt, hq0⟩ := probe_free (put t i 0) _ i hp (by rw [hsz]; exact hi) hgi
  obtain ⟨d, hd, hqd, _, hpre⟩ := probe_some (put t i 0) 0 _ _ q hp hq
  rw [hsz] at hqlt hd hqd hpre hp
  rw [hpl] at hqd hpre hp
  have hcd : cdist (size t) (hm P t i) q = d := by rw [hqd]; exact cdist_add _ _ _ hp hd
  refine ⟨q, hqlt, ?_, hq0, ?_, ?_⟩
  · unfold reinsertImpl; rw [hq]
  · by_cases hqi : q = i
    · exact Or.inl hqi
    · right
      obtain ⟨c1, c2⟩ := cdist_spec (size t) (hm P t i) i hp hi
      have hdc : d < cdist (size t) (hm P t i) i := by
        rcases Nat.lt_trichotomy d (cdist (size t) (hm P t i) i) with a | a | a
        · exact a
        · exfalso; apply hqi; rw [hqd, a, c2]
        · have := (hpre _ a).2; rw [c2] at this; exact absurd hgi this
      rw [hqd]; exact (onPath_of_lt _ _ _ _ hp hi hdc).1
  · intro s hs' hps
    obtain ⟨e, he, es⟩ := onPath_idx (size t) (hm P t i) q s hp hqlt hs' hps
    rw [hcd] at he
    rw [← es]; exact (hpre e he).2

/-- slots after a move -/
theorem get_moved (t : Tb) (i q x s : Nat) (hs : Shape t) (hi : i < size t) (hq : q < size t) :
    get (put (put t i 0) q x) s = if s = q then x else if s = i then 0 else get t s := by
  have hl : (slots t).length = size t := hs
  have pf := put_fields t i 0
  by_cases h1 : s = q
  · subst h1; rw [get_put_self _ _ _ (by rw [pf.2.2.2.2.2, hl]; exact hq)]; simp
  · rw [get_put_ne _ _ _ _ h1, if_neg h1]
    by_cases h2 : s = i
    · subst h2; rw [get_put_self _ _ _ (by rw [hl]; exact hi)]; simp
    · rw [get_put_ne _ _ _ _ h2, if_neg h2]

/-! ### the sweeps, abstractly: `n` slots, `g` the slot contents, `pl` the home slot of a value -/

def RPf (n : Nat) (pl g : Nat → Nat) (j : Nat) : Prop := ∀ s < n, OnPath (pl (g j)) j s → g s ≠ 0

/-- `g'` is `g` after the value of slot `i` was taken out and put into the first free slot `q` from its home -/
structure Moved (n : Nat) (pl g g' : Nat → Nat) (i q : Nat) : Prop where
  hi : i < n
  hq : q < n
  hx : g i ≠ 0
  hG : ∀ s < n, g' s = if s = q then g i else if s = i then 0 else g s
  q0 : q = i ∨ g q = 0
  qp : q = i ∨ OnPath (pl (g i)) i q
  full : ∀ s < n, OnPath (pl (g i)) q s → g s ≠ 0 ∧ s ≠ i

/-- first pass of rehash, after slots < i: `e0` is a slot that stays empty; every value is between its home and `e0`;
    processed values with home ≤ slot are reachable; processed values that wrapped have a full prefix -/
structure L1 (n : Nat) (pl : Nat → Nat) (e0 i : Nat) (g : Nat → Nat) : Prop where
  pln : ∀ x, pl x < n
  e0n : e0 < n
  E : g e0 = 0
  F : ∀ j < n, g j ≠ 0 → ¬ OnPath (pl (g j)) j e0
  A : ∀ j < i, j < n → g j ≠ 0 → pl (g j) ≤ j → RPf n pl g j
  W : ∀ j < i, j < n → g j ≠ 0 → j < pl (g j) → ∀ s < j, g s ≠ 0

theorem l1_skip (n : Nat) (pl : Nat → Nat) (e0 i : Nat) (g : Nat → Nat) (h : L1 n pl e0 i g)
    (hz : g i = 0 ∨ pl (g i) = i) : L1 n pl e0 (i + 1) g := by
  refine { pln := h.pln, e0n := h.e0n, E := h.E, F := h.F, A := ?_, W := ?_ }
  · intro j hj hjn hg hp
    by_cases hji : j = i
    · subst hji
      rcases hz with a | a
      · exact absurd a hg
      · intro s _ hs; unfold OnPath at hs; rw [a] at hs; simp at hs; omega
    · exact h.A j (by omega) hjn hg hp
  · intro j hj hjn hg hp
    by_cases hji : j = i
    · subst hji
      rcases hz with a | a
      · exact absurd a hg
      · omega
    · exact h.W j (by omega) hjn hg hp

theorem l1_drop (n : Nat) (pl : Nat → Nat) (e0 i : Nat) (g g' : Nat → Nat) (h : L1 n pl e0 i g) (hi : i < n)
    (hG : ∀ s < n, g' s = if s = i then 0 else g s) : L1 n pl e0 (i + 1) g' := by
  have hg' : ∀ s < n, g' s ≠ 0 → g' s = g s ∧ s ≠ i := by
    intro s hs hne; rw [hG s hs] at hne ⊢; split at hne
    · exact absurd rfl hne
    · rename_i c; simp [c]
  refine { pln := h.pln, e0n := h.e0n, E := ?_, F := ?_, A := ?_, W := ?_ }
  · rw [hG e0 h.e0n]; split; rfl; exact h.E
  · intro j hj hg
    obtain ⟨a, _⟩ := hg' j hj hg
    rw [a] at hg ⊢; exact h.F j hj hg
  · intro j hj hjn hg hp
    obtain ⟨a, b⟩ := hg' j hjn hg
    rw [a] at hg hp
    have := h.A j (by omega) hjn hg hp
    intro s hs hps
    rw [a] at hps
    have hsi : s ≠ i := by unfold OnPath at hps; rw [if_pos hp] at hps; omega
    rw [hG s hs, if_neg hsi]; exact this s hs hps
  · intro j hj hjn hg hp s hs
    obtain ⟨a, b⟩ := hg' j hjn hg
    rw [a] at hg hp
    rw [hG s (by omega), if_neg (by omega)]
    exact h.W j (by omega) hjn hg hp s hs

theorem l1_move (n : Nat) (pl : Nat → Nat) (e0 i q : Nat) (g g' : Nat → Nat) (h : L1 n pl e0 i g)
    (m : Moved n pl g g' i q) : L1 n pl e0 (i + 1) g' := by
  have hFi := h.F i m.hi m.hx
  have hqe : q ≠ e0 := by
    intro c; rcases m.qp with a | a
    · rw [c] at a; rw [← a] at m; exact m.hx h.E
    · rw [c] at a; exact hFi a
  have hie : i ≠ e0 := by intro c; rw [c] at m; exact m.hx h.E
  -- old values other than the moved one keep their slot
  have hold : ∀ s < n, s ≠ q → g' s ≠ 0 → g' s = g s ∧ s ≠ i := by
    intro s hs hsq hne; rw [m.hG s hs, if_neg hsq] at hne ⊢; split at hne
    · exact absurd rfl hne
    · rename_i c; simp [c]
  have hgq : g' q = g i := by rw [m.hG q m.hq, if_pos rfl]
  -- a slot that was non-empty and is not slot i is still non-empty
  have keep : ∀ s < n, g s ≠ 0 → s ≠ i → g' s ≠ 0 := by
    intro s hs hne hsi; rw [m.hG s hs]
    by_cases c : s = q
    · rw [if_pos c]; exact m.hx
    · rw [if_neg c, if_neg hsi]; exact hne
  -- the moved value is reachable in its new slot
  have hreachq : RPf n pl g' q := by
    intro s hs hps; rw [hgq] at hps
    obtain ⟨a, b⟩ := m.full s hs hps
    exact keep s hs a b
  refine { pln := h.pln, e0n := h.e0n, E := ?_, F := ?_, A := ?_, W := ?_ }
  · rw [m.hG e0 h.e0n, if_neg (fun c => hqe c.symm), if_neg (fun c => hie c.symm)]; exact h.E
  · intro j hj hg
    by_cases hjq : j = q
    · subst hjq; rw [hgq]
      rcases m.qp with a | a
      · rw [a]; exact hFi
      · intro c; apply hFi
        unfold OnPath at a c ⊢
        split at a <;> split at c <;> split <;> omega
    · obtain ⟨a, _⟩ := hold j hj hjq hg
      rw [a] at hg ⊢; exact h.F j hj hg
  · intro j hj hjn hg hp
    by_cases hjq : j = q
    · subst hjq; exact hreachq
    · obtain ⟨a, b⟩ := hold j hjn hjq hg
      rw [a] at hg hp
      have := h.A j (by omega) hjn hg hp
      intro s hs hps
      rw [a] at hps
      have hsi : s ≠ i := by unfold OnPath at hps; rw [if_pos hp] at hps; omega
      exact keep s hs (this s hs hps) hsi
  · intro j hj hjn hg hp s hs
    by_cases hjq : j = q
    · subst hjq; rw [hgq] at hp
      have hps : OnPath (pl (g i)) j s := by unfold OnPath; rw [if_neg (by omega)]; right; exact hs
      obtain ⟨a, b⟩ := m.full s (by omega) hps
      exact keep s (by omega) a b
    · obtain ⟨a, b⟩ := hold j hjn hjq hg
      rw [a] at hg hp
      exact keep s (by omega) (h.W j (by omega) hjn hg hp s hs) (by omega)


/-- second pass of rehash ("process the first collision resolution chain once again"), before slot `i` -/
structure L2 (n : Nat) (pl : Nat → Nat) (e0 i : Nat) (g : Nat → Nat) : Prop where
  pln : ∀ x, pl x < n
  e0n : e0 < n
  E : g e0 = 0
  F : ∀ j < n, g j ≠ 0 → ¬ OnPath (pl (g j)) j e0
  ile : i ≤ e0
  Q1 : ∀ j < n, (j < i ∨ e0 < j) → g j ≠ 0 → RPf n pl g j
  Q3 : ∀ j, i ≤ j → j < e0 → g j ≠ 0 → i ≤ pl (g j) → pl (g j) ≤ j → RPf n pl g j
  Q4 : ∀ j, i ≤ j → j < e0 → g j ≠ 0 → (pl (g j) < i ∨ j < pl (g j)) → ∀ s, i ≤ s → s < j → g s ≠ 0

theorem l2_init (n : Nat) (pl : Nat → Nat) (e0 : Nat) (g : Nat → Nat) (h : L1 n pl e0 n g) : L2 n pl e0 0 g := by
  refine { pln := h.pln, e0n := h.e0n, E := h.E, F := h.F, ile := by omega, Q1 := ?_, Q3 := ?_, Q4 := ?_ }
  · intro j hj hc hg
    rcases hc with a | a
    · omega
    · by_cases hp : pl (g j) ≤ j
      · exact h.A j hj hj hg hp
      · exfalso; apply h.F j hj hg
        unfold OnPath; rw [if_neg hp]; right; exact a
  · intro j _ hje hg _ hp
    exact h.A j (by have := h.e0n; omega) (by have := h.e0n; omega) hg hp
  · intro j _ hje hg hc s _ hs
    rcases hc with a | a
    · omega
    · exact h.W j (by have := h.e0n; omega) (by have := h.e0n; omega) hg a s hs

theorem l2_lt (n : Nat) (pl : Nat → Nat) (e0 i : Nat) (g : Nat → Nat) (h : L2 n pl e0 i g) (hx : g i ≠ 0) : i < e0 := by
  have := h.ile
  by_contra c
  have : i = e0 := by omega
  rw [this] at hx; exact hx h.E

theorem l2_stay (n : Nat) (pl : Nat → Nat) (e0 i : Nat) (g : Nat → Nat) (h : L2 n pl e0 i g) (hx : g i ≠ 0)
    (hp : pl (g i) = i) : L2 n pl e0 (i + 1) g := by
  have hlt := l2_lt n pl e0 i g h hx
  refine { pln := h.pln, e0n := h.e0n, E := h.E, F := h.F, ile := by omega, Q1 := ?_, Q3 := ?_, Q4 := ?_ }
  · intro j hj hc hg
    by_cases hji : j = i
    · subst hji; intro s _ hs; unfold OnPath at hs; rw [hp] at hs; simp at hs; omega
    · exact h.Q1 j hj (by omega) hg
  · intro j hij hje hg h1 h2
    exact h.Q3 j (by omega) hje hg (by omega) h2
  · intro j hij hje hg hc s his hsj
    by_cases hpi : pl (g j) = i
    · have := h.Q3 j (by omega) hje hg (by omega) (by omega)
      exact this s (by have := h.e0n; omega) (by unfold OnPath; rw [if_pos (by omega)]; omega)
    · exact h.Q4 j (by omega) hje hg (by omega) s (by omega) hsj

theorem l2_move (n : Nat) (pl : Nat → Nat) (e0 i q : Nat) (g g' : Nat → Nat) (h : L2 n pl e0 i g)
    (m : Moved n pl g g' i q) : L2 n pl e0 (i + 1) g' := by
  have hlt := l2_lt n pl e0 i g h m.hx
  have he0n := h.e0n
  have hFi := h.F i m.hi m.hx
  have hpli := h.pln (g i)
  -- the landing slot is at or below i, or beyond e0
  have hqpos : q ≤ i ∨ e0 < q := by
    rcases m.qp with a | a
    · omega
    · unfold OnPath at a hFi; split at a <;> split at hFi <;> omega
  have hqe : q ≠ e0 := by omega
  have hold : ∀ s < n, s ≠ q → g' s ≠ 0 → g' s = g s ∧ s ≠ i := by
    intro s hs hsq hne; rw [m.hG s hs, if_neg hsq] at hne ⊢
    by_cases c : s = i
    · rw [if_pos c] at hne; exact absurd rfl hne
    · rw [if_neg c]; exact ⟨rfl, c⟩
  have hgq : g' q = g i := by rw [m.hG q m.hq, if_pos rfl]
  have keep : ∀ s < n, g s ≠ 0 → s ≠ i → g' s ≠ 0 := by
    intro s hs hne hsi; rw [m.hG s hs]
    by_cases c : s = q
    · rw [if_pos c]; exact m.hx
    · rw [if_neg c, if_neg hsi]; exact hne
  have hreachq : RPf n pl g' q := by
    intro s hs hps; rw [hgq] at hps
    obtain ⟨a, b⟩ := m.full s hs hps
    exact keep s hs a b
  refine { pln := h.pln, e0n := h.e0n, E := ?_, F := ?_, ile := by omega, Q1 := ?_, Q3 := ?_, Q4 := ?_ }
  · rw [m.hG e0 h.e0n, if_neg (fun c => hqe c.symm), if_neg (by omega)]; exact h.E
  · intro j hj hg
    by_cases hjq : j = q
    · subst hjq; rw [hgq]
      rcases m.qp with a | a
      · rw [a]; exact hFi
      · intro c; apply hFi
        unfold OnPath at a c ⊢
        split at a <;> split at c <;> split <;> omega
    · obtain ⟨a, _⟩ := hold j hj hjq hg
      rw [a] at hg ⊢; exact h.F j hj hg
  · intro j hj hc hg
    by_cases hjq : j = q
    · subst hjq; exact hreachq
    · obtain ⟨a, b⟩ := hold j hj hjq hg
      rw [a] at hg
      have hr := h.Q1 j hj (by omega) hg
      have hF := h.F j hj hg
      have hplj := h.pln (g j)
      intro s hs hps
      rw [a] at hps
      have hsi : s ≠ i := by
        intro c; rw [c] at hps
        unfold OnPath at hps hF; split at hps <;> split at hF <;> omega
      exact keep s hs (hr s hs hps) hsi
  · intro j hij hje hg h1 h2
    have hjq : j ≠ q := by omega
    obtain ⟨a, b⟩ := hold j (by omega) hjq hg
    rw [a] at hg h1 h2
    have hr := h.Q3 j (by omega) hje hg (by omega) h2
    intro s hs hps
    rw [a] at hps
    have hsi : s ≠ i := by unfold OnPath at hps; rw [if_pos h2] at hps; omega
    exact keep s hs (hr s hs hps) hsi
  · intro j hij hje hg hc s his hsj
    have hjq : j ≠ q := by omega
    obtain ⟨a, b⟩ := hold j (by omega) hjq hg
    rw [a] at hg hc
    by_cases hpi : pl (g j) = i
    · have := h.Q3 j (by omega) hje hg (by omega) (by omega)
      exact keep s (by omega) (this s (by omega) (by unfold OnPath; rw [if_pos (by omega)]; omega)) (by omega)
    · exact keep s (by omega) (h.Q4 j (by omega) hje hg (by omega) s (by omega) hsj) (by omega)

/-- when the second pass stops at an empty slot, every stored value is reachable -/
theorem l2_done (n : Nat) (pl : Nat → Nat) (e0 i : Nat) (g : Nat → Nat) (h : L2 n pl e0 i g) (hz : g i = 0) :
    ∀ j < n, g j ≠ 0 → RPf n pl g j := by
  intro j hj hg
  have := h.ile
  by_cases hc : j < i ∨ e0 < j
  · exact h.Q1 j hj hc hg
  · have hje : j < e0 := by
      by_contra c; have : j = e0 := by omega
      rw [this] at hg; exact hg h.E
    have hij : i < j := by
      by_contra c; have : j = i := by omega
      rw [this] at hg; exact hg hz
    by_cases hp : i ≤ pl (g j) ∧ pl (g j) ≤ j
    · exact h.Q3 j (by omega) hje hg hp.1 hp.2
    · exact absurd hz (h.Q4 j (by omega) hje hg (by omega) i (by omega) hij)


/-! ### the concrete rehash loops -/

theorem place_congr (P : Params) {a b : Tb} (h : a.sd = b.sd) : place P a = place P b := by
  funext x; unfold place; rw [h]

theorem shape_put (t : Tb) (i v : Nat) (hs : Shape t) : Shape (put t i v) := by
  have pf := put_fields t i v
  unfold Shape; rw [pf.2.2.2.2.2, size_congr pf.2.1]; exact hs

/-- a concrete move gives the abstract `Moved` -/
theorem moved_of_fix (P : Params) (t : Tb) (i : Nat) (hs : Shape t) (hi : i < size t) (hx : get t i ≠ 0) :
    ∃ q, Moved (size t) (place P t) (get t) (get (reinsertImpl P (put t i 0) (get t i))) i q ∧
      Shape (reinsertImpl P (put t i 0) (get t i)) ∧ (reinsertImpl P (put t i 0) (get t i)).sd = t.sd := by
  obtain ⟨q, hq, req, hq0, hqp, hfull⟩ := fix_desc P t i hs hi hx
  have hl : (slots t).length = size t := hs
  have hgi : get (put t i 0) i = 0 := get_put_self t i 0 (by rw [hl]; exact hi)
  refine ⟨q, ?_, ?_, ?_⟩
  · refine { hi := hi, hq := hq, hx := hx, hG := ?_, q0 := ?_, qp := hqp, full := ?_ }
    · intro s _; rw [req]; exact get_moved t i q (get t i) s hs hi hq
    · by_cases c : q = i
      · exact Or.inl c
      · right; rw [get_put_ne _ _ _ _ c] at hq0; exact hq0
    · intro s hs' hps
      have := hfull s hs' hps
      have hsi : s ≠ i := by intro c; rw [c] at this; exact this hgi
      rw [get_put_ne _ _ _ _ hsi] at this
      exact ⟨this, hsi⟩
  · rw [req]; exact shape_put _ _ _ (shape_put _ _ _ hs)
  · rw [req]; exact (put_fields _ q _).2.1.trans (put_fields t i 0).2.1

theorem rehashLoop1_L1 (P : Params) (n e0 : Nat) (pl : Nat → Nat) : ∀ (f i : Nat) (t : Tb), Shape t → size t = n →
    place P t = pl → i + f = n → L1 n pl e0 i (get t) →
    Shape (rehashLoop1 P f i t) ∧ (rehashLoop1 P f i t).sd = t.sd ∧ L1 n pl e0 n (get (rehashLoop1 P f i t)) := by
  intro f
  induction f with
  | zero =>
    intro i t hs _ _ hf h
    simp only [rehashLoop1]
    have : i = n := by omega
    rw [this] at h; exact ⟨hs, trivial, h⟩
  | succ f ih =>
    intro i t hs hn hpl hf h
    simp only [rehashLoop1]
    have hi : i < size t := by omega
    by_cases h0 : get t i = 0
    · rw [rehashStep_zero P t i h0]
      exact ih (i + 1) t hs hn hpl (by omega) (l1_skip n pl e0 i _ h (Or.inl h0))
    · by_cases hg : good t.k (get t i) = true
      · by_cases hp : i ≠ place P t (get t i)
        · rw [rehashStep_move P t i h0 hg hp]
          obtain ⟨q, m, s', sd'⟩ := moved_of_fix P t i hs hi h0
          rw [hn, hpl] at m
          obtain ⟨a, b, c⟩ := ih (i + 1) _ s' (by rw [size_congr sd']; exact hn) (by rw [place_congr P sd']; exact hpl)
            (by omega) (l1_move n pl e0 i q _ _ h m)
          exact ⟨a, b.trans sd', c⟩
        · have hp' : place P t (get t i) = i := by
            by_contra c; exact hp (fun e => c e.symm)
          rw [rehashStep_stay P t i h0 hg hp'.symm]
          exact ih (i + 1) t hs hn hpl (by omega) (l1_skip n pl e0 i _ h (Or.inr (by rw [← hpl]; exact hp')))
      · have hg' : good t.k (get t i) = false := by simpa using hg
        rw [rehashStep_bad P t i h0 hg']
        have pf := put_fields t i 0
        have hl : (slots t).length = size t := hs
        have hG : ∀ s < n, get ({ put t i 0 with cnt := t.cnt - 1 } : Tb) s = if s = i then 0 else get t s := by
          intro s _
          show get (put t i 0) s = _
          by_cases c : s = i
          · rw [c, get_put_self t i 0 (by rw [hl]; exact hi), if_pos rfl]
          · rw [get_put_ne _ _ _ _ c, if_neg c]
        obtain ⟨a, b, c⟩ := ih (i + 1) ({ put t i 0 with cnt := t.cnt - 1 } : Tb) (shape_put t i 0 hs)
          (by rw [← hn]; exact size_congr pf.2.1) (by rw [← hpl]; exact place_congr P pf.2.1) (by omega)
          (l1_drop n pl e0 i _ _ h (by omega) hG)
        exact ⟨a, b.trans pf.2.1, c⟩

theorem rehashLoop2_L2 (P : Params) (n e0 : Nat) (pl : Nat → Nat) : ∀ (f i : Nat) (t : Tb), Shape t → size t = n →
    place P t = pl → n ≤ i + f → L2 n pl e0 i (get t) →
    Shape (rehashLoop2 P f i t) ∧ (rehashLoop2 P f i t).sd = t.sd ∧
    ∀ j < n, get (rehashLoop2 P f i t) j ≠ 0 → RPf n pl (get (rehashLoop2 P f i t)) j := by
  intro f
  induction f with
  | zero =>
    intro i t _ _ _ hf h
    have := h.ile; have := h.e0n; omega
  | succ f ih =>
    intro i t hs hn hpl hf h
    by_cases h0 : get t i = 0
    · rw [rehashLoop2_zero P f i t h0]
      exact ⟨hs, rfl, l2_done n pl e0 i _ h h0⟩
    · have hi : i < size t := by have := l2_lt n pl e0 i _ h h0; have := h.e0n; omega
      by_cases hp : i ≠ place P t (get t i)
      · rw [rehashLoop2_move P f i t h0 hp]
        obtain ⟨q, m, s', sd'⟩ := moved_of_fix P t i hs hi h0
        rw [hn, hpl] at m
        obtain ⟨a, b, c⟩ := ih (i + 1) _ s' (by rw [size_congr sd']; exact hn) (by rw [place_congr P sd']; exact hpl)
          (by omega) (l2_move n pl e0 i q _ _ h m)
        exact ⟨a, b.trans sd', c⟩
      · have hp' : i = place P t (get t i) := by
          by_contra c; exact hp c
        rw [rehashLoop2_stay P f i t h0 hp']
        exact ih (i + 1) t hs hn hpl (by omega) (l2_stay n pl e0 i _ h h0 (by rw [← hpl]; exact hp'.symm))

theorem inj_of_nodup : ∀ (l : List Nat), (l.filter nz).Nodup →
    ∀ i j, i < l.length → j < l.length → l.getD i 0 ≠ 0 → l.getD i 0 = l.getD j 0 → i = j := by
  intro l
  induction l with
  | nil => intro _ i j hi; simp at hi
  | cons a l ih =>
    intro hnd i j hi hj hne he
    have htail : (l.filter nz).Nodup := by
      simp only [List.filter] at hnd
      cases hz : nz a
      · rw [hz] at hnd; exact hnd
      · rw [hz] at hnd; exact (List.nodup_cons.mp hnd).2
    have hmem : ∀ k, k < l.length → l.getD k 0 = a → a ≠ 0 → False := by
      intro k hk hka ha
      have hz : nz a = true := by simpa [nz] using ha
      simp only [List.filter, hz] at hnd
      apply (List.nodup_cons.mp hnd).1
      rw [List.mem_filter]
      refine ⟨?_, hz⟩
      have : l[k] = a := by simpa [List.getD, List.getElem?_eq_getElem hk] using hka
      rw [← this]; exact List.getElem_mem hk
    cases i with
    | zero =>
      cases j with
      | zero => rfl
      | succ j =>
        simp only [List.getD_cons_zero, List.getD_cons_succ] at hne he
        exact absurd (hmem j (by simpa using hj) he.symm hne) id
    | succ i =>
      cases j with
      | zero =>
        simp only [List.getD_cons_zero, List.getD_cons_succ] at hne he
        exact absurd (hmem i (by simpa using hi) he (by rw [← he]; exact hne)) id
      | succ j =>
        simp only [List.getD_cons_succ] at hne he
        have := ih htail i j (by simpa using hi) (by simpa using hj) hne he
        omega


/-- a table satisfies index-injectivity as soon as its stored values are pairwise distinct -/
theorem inj_of_items_nodup (t : Tb) (hs : Shape t) (hn : (items t).Nodup) :
    ∀ i j, i < size t → j < size t → get t i ≠ 0 → get t i = get t j → i = j := by
  intro i j hi hj hne he
  have hl : (slots t).length = size t := hs
  rw [get_eq] at hne he; rw [get_eq] at he
  exact inj_of_nodup (slots t) hn i j (by rw [hl]; exact hi) (by rw [hl]; exact hj) hne he

/-- assemble `WF` from the pieces -/
theorem wf_of_parts (P : Params) (t : Tb) (hs : Shape t) (hc : CntOk t) (hn : (items t).Nodup)
    (hr : ∀ j < size t, get t j ≠ 0 → RPf (size t) (place P t) (get t) j) : WF P t :=
  { shape := hs, inj := inj_of_items_nodup t hs hn, cnt := hc,
    reach := fun i hi hx => (wf_reach_iff P t i hi).mpr (hr i hi hx) }

/-- rehash (both loops) of a well-formed table with a free slot is well-formed: reachability is restored -/
theorem rehash_wf (P : Params) (t : Tb) (w : WF P t) (k' e0 : Nat) (he : e0 < size t) (h0 : get t e0 = 0) :
    WF P (rehash P { t with k := k' }) := by
  let t0 : Tb := { t with k := k' }
  have hs0 : Shape t0 := w.shape
  have hc0 : CntOk t0 := w.cnt
  obtain ⟨s1, h1, c1, p1⟩ := rehash_items P t0 hs0 hc0
  have hnd : (items (rehash P t0)).Nodup := p1.nodup_iff.mpr ((wf_nodup P t w).filter _)
  -- the sweeps
  have init : L1 (size t) (place P t) e0 0 (get t0) := by
    refine { pln := fun x => place_lt P t x, e0n := he, E := h0, F := ?_, A := by intro j hj; omega, W := by intro j hj; omega }
    intro j hj hg hp
    have := (wf_reach_iff P t j hj).mp (w.reach j hj hg)
    exact this e0 he hp h0
  have hsz0 : size t0 = size t := rfl
  have hpl0 : place P t0 = place P t := rfl
  obtain ⟨sa, sda, la⟩ := rehashLoop1_L1 P (size t) e0 (place P t) (size t0) 0 t0 hs0 hsz0 hpl0 (by rw [hsz0]; omega) init
  have l2 := l2_init _ _ _ _ la
  obtain ⟨sb, sdb, rb⟩ := rehashLoop2_L2 P (size t) e0 (place P t) (size t0) 0 _ sa (by rw [size_congr sda]; exact hsz0)
    (by rw [place_congr P sda]; exact hpl0) (by rw [hsz0]; omega) l2
  have hsd : (rehash P t0).sd = t.sd := sdb.trans sda
  apply wf_of_parts P _ s1 c1 hnd
  intro j hj hx
  have hszr : size (rehash P t0) = size t := size_congr hsd
  have hplr : place P (rehash P t0) = place P t := place_congr P hsd
  rw [hszr, hplr]
  rw [hszr] at hj
  exact rb j hj hx


/-! ### resize, abstractly: old size `n`, new size `N`, sweep i = 0, 1, … (all of [0,n), then while non-empty) -/

structure Z (n N : Nat) (pl : Nat → Nat) (i : Nat) (g : Nat → Nat) : Prop where
  pln : ∀ x, pl x < N
  Z1 : ∀ j < i, j < N → g j ≠ 0 → RPf N pl g j
  Z3 : ∀ j, max i n ≤ j → j < N → g j ≠ 0 → i ≤ pl (g j) → pl (g j) ≤ j → RPf N pl g j
  Z4 : ∀ j, max i n ≤ j → j < N → g j ≠ 0 → pl (g j) < i → ∀ s, max i n ≤ s → s < j → g s ≠ 0
  Z5 : ∀ j, max i n ≤ j → j < N → g j ≠ 0 → pl (g j) ≤ j

/-- slot i is empty, or its value is reachable where it is: nothing moves -/
theorem z_skip (n N : Nat) (pl : Nat → Nat) (i : Nat) (g : Nat → Nat) (h : Z n N pl i g) (hz : g i = 0 ∨ RPf N pl g i) :
    Z n N pl (i + 1) g := by
  refine { pln := h.pln, Z1 := ?_, Z3 := ?_, Z4 := ?_, Z5 := ?_ }
  · intro j hj hjn hg
    by_cases hji : j = i
    · subst hji; rcases hz with a | a
      · exact absurd a hg
      · exact a
    · exact h.Z1 j (by omega) hjn hg
  · intro j hj hjn hg h1 h2
    exact h.Z3 j (by omega) hjn hg (by omega) h2
  · intro j hj hjn hg h1 s hs hsj
    by_cases hpi : pl (g j) = i
    · have := h.Z3 j (by omega) hjn hg (by omega) (h.Z5 j (by omega) hjn hg)
      exact this s (by omega) (by unfold OnPath; rw [if_pos (by omega)]; omega)
    · exact h.Z4 j (by omega) hjn hg (by omega) s (by omega) hsj
  · intro j hj hjn hg
    exact h.Z5 j (by omega) hjn hg

theorem z_move (n N : Nat) (pl : Nat → Nat) (i q : Nat) (g g' : Nat → Nat) (h : Z n N pl i g)
    (m : Moved N pl g g' i q) (e : Nat) (hei : i < e) (heN : e < N) (he0 : g e = 0) : Z n N pl (i + 1) g' := by
  have hpli := h.pln (g i)
  have hqpos : q ≤ i ∨ (i < pl (g i) ∧ pl (g i) ≤ q) := by
    rcases m.qp with a | a
    · omega
    · unfold OnPath at a; split at a <;> omega
  have hold : ∀ s < N, s ≠ q → g' s ≠ 0 → g' s = g s ∧ s ≠ i := by
    intro s hs hsq hne; rw [m.hG s hs, if_neg hsq] at hne ⊢
    by_cases c : s = i
    · rw [if_pos c] at hne; exact absurd rfl hne
    · rw [if_neg c]; exact ⟨rfl, c⟩
  have hgq : g' q = g i := by rw [m.hG q m.hq, if_pos rfl]
  have keep : ∀ s < N, g s ≠ 0 → s ≠ i → g' s ≠ 0 := by
    intro s hs hne hsi; rw [m.hG s hs]
    by_cases c : s = q
    · rw [if_pos c]; exact m.hx
    · rw [if_neg c, if_neg hsi]; exact hne
  have hreachq : RPf N pl g' q := by
    intro s hs hps; rw [hgq] at hps
    obtain ⟨a, b⟩ := m.full s hs hps
    exact keep s hs a b
  refine { pln := h.pln, Z1 := ?_, Z3 := ?_, Z4 := ?_, Z5 := ?_ }
  · intro j hj hjn hg
    by_cases hjq : j = q
    · subst hjq; exact hreachq
    · obtain ⟨a, b⟩ := hold j hjn hjq hg
      rw [a] at hg
      have hr := h.Z1 j (by omega) hjn hg
      have hplj := h.pln (g j)
      intro s hs hps
      rw [a] at hps
      have hsi : s ≠ i := by
        intro c; rw [c] at hps
        -- if slot i were on the path, so would the empty slot e
        have : OnPath (pl (g j)) j e := by unfold OnPath at hps ⊢; split at hps <;> split <;> omega
        exact hr e heN this he0
      exact keep s hs (hr s hs hps) hsi
  · intro j hj hjn hg h1 h2
    by_cases hjq : j = q
    · subst hjq; exact hreachq
    · obtain ⟨a, b⟩ := hold j hjn hjq hg
      rw [a] at hg h1 h2
      have hr := h.Z3 j (by omega) hjn hg (by omega) h2
      intro s hs hps
      rw [a] at hps
      have hsi : s ≠ i := by unfold OnPath at hps; rw [if_pos h2] at hps; omega
      exact keep s hs (hr s hs hps) hsi
  · intro j hj hjn hg h1 s hs hsj
    have hjq : j ≠ q := by
      intro c; rw [c, hgq] at h1; omega
    obtain ⟨a, b⟩ := hold j hjn hjq hg
    rw [a] at hg h1
    by_cases hpi : pl (g j) = i
    · have := h.Z3 j (by omega) hjn hg (by omega) (h.Z5 j (by omega) hjn hg)
      exact keep s (by omega) (this s (by omega) (by unfold OnPath; rw [if_pos (by omega)]; omega)) (by omega)
    · exact keep s (by omega) (h.Z4 j (by omega) hjn hg (by omega) s (by omega) hsj) (by omega)
  · intro j hj hjn hg
    by_cases hjq : j = q
    · rw [hjq, hgq]; omega
    · obtain ⟨a, b⟩ := hold j hjn hjq hg
      rw [a] at hg ⊢
      exact h.Z5 j (by omega) hjn hg

/-- when the sweep ends (past the old table, at an empty slot or at the end of the table) everything is reachable -/
theorem z_done (n N : Nat) (pl : Nat → Nat) (i : Nat) (g : Nat → Nat) (h : Z n N pl i g) (hn : n ≤ i)
    (hz : i < N → g i = 0) : ∀ j < N, g j ≠ 0 → RPf N pl g j := by
  intro j hj hg
  by_cases hji : j < i
  · exact h.Z1 j hji hj hg
  · have hij : i < j := by
      by_contra c; have : j = i := by omega
      rw [this] at hg hj; exact hg (hz hj)
    have h5 := h.Z5 j (by omega) hj hg
    by_cases hp : i ≤ pl (g j)
    · exact h.Z3 j (by omega) hj hg hp h5
    · exact absurd (hz (by omega)) (h.Z4 j (by omega) hj hg (by omega) i (by omega) hij)


/-! ### counting occupied slots in a tail of the table -/

def nzFrom (t : Tb) (a : Nat) : Nat := (((slots t).drop a).filter nz).length

theorem nzFrom_le (t : Tb) (a : Nat) : nzFrom t a ≤ (items t).length :=
  List.Sublist.length_le ((List.drop_sublist a (slots t)).filter nz)

theorem nzFrom_put_lt (t : Tb) (i v a : Nat) (h : i < a) : nzFrom (put t i v) a = nzFrom t a := by
  unfold nzFrom; rw [slots_put, List.drop_set_of_lt h]

theorem nzFrom_succ (t : Tb) (a : Nat) (ha : a < (slots t).length) (hx : get t a ≠ 0) : nzFrom t a = nzFrom t (a + 1) + 1 := by
  unfold nzFrom
  rw [List.drop_eq_getElem_cons ha]
  have : (slots t)[a] = get t a := by rw [get_eq]; simp [List.getD, List.getElem?_eq_getElem ha]
  have hz : nz (slots t)[a] = true := by rw [this]; simpa [nz] using hx
  simp [List.filter, hz]

theorem exists_empty (t : Tb) (a : Nat) (hlt : nzFrom t a < (slots t).length - a) :
    ∃ e, a ≤ e ∧ e < (slots t).length ∧ get t e = 0 := by
  by_contra hc
  have hall : ((slots t).drop a).filter nz = (slots t).drop a := by
    rw [List.filter_eq_self]
    intro x hx
    obtain ⟨k, hk, hget⟩ := List.mem_iff_getElem.mp hx
    rw [List.length_drop] at hk
    rw [List.getElem_drop] at hget
    have hne : get t (a + k) ≠ 0 := by
      intro c; exact hc ⟨a + k, by omega, by omega, c⟩
    rw [get_eq] at hne
    have : (slots t)[a + k] ≠ 0 := by simpa [List.getD, List.getElem?_eq_getElem (show a + k < (slots t).length by omega)] using hne
    rw [← hget]; simpa [nz] using this
  unfold nzFrom at hlt; rw [hall, List.length_drop] at hlt; omega

/-! ### one step of the relocation loop -/

theorem resizeStep_cases (P : Params) (t : Tb) (i : Nat) (hs : Shape t) (hi : i < size t) (hx : get t i ≠ 0)
    (hinj : ∀ a b, a < size t → b < size t → get t a ≠ 0 → get t a = get t b → a = b) :
    (resizeStep P t i = t ∧ RPf (size t) (place P t) (get t) i) ∨
    (∃ q, q ≠ i ∧ resizeStep P t i = put (put t q (get t i)) i 0 ∧
      Moved (size t) (place P t) (get t) (get (put (put t q (get t i)) i 0)) i q) := by
  have hl : (slots t).length = size t := hs
  have hp := place_lt P t (get t i)
  unfold resizeStep
  simp only [hx, if_false]
  by_cases hpl : place P t (get t i) = i
  · left; rw [if_pos hpl]; refine ⟨rfl, ?_⟩
    intro s _ hps; unfold OnPath at hps; rw [hpl] at hps; simp at hps; omega
  · rw [if_neg hpl]
    obtain ⟨c1, c2⟩ := cdist_spec (size t) _ i hp hi
    cases hpr : probe t (get t i) (size t) (place P t (get t i)) with
    | none =>
      exfalso
      have := (probe_none t _ _ _ hp hpr _ c1).1
      rw [c2] at this; exact this rfl
    | some q =>
      obtain ⟨d, hd, hq, hv, hpre⟩ := probe_some t _ _ _ q hp hpr
      have hqlt : q < size t := by rw [hq]; exact Nat.mod_lt _ (size_pos t)
      have hcd : cdist (size t) (place P t (get t i)) q = d := by rw [hq]; exact cdist_add _ _ _ hp hd
      simp only
      by_cases hqx : get t q = get t i
      · left
        rw [if_pos hqx]; refine ⟨rfl, ?_⟩
        have hqi : q = i := hinj q i hqlt hi (by rw [hqx]; exact hx) hqx
        rw [hqi] at hcd
        intro s hs' hps
        obtain ⟨e, he, es⟩ := onPath_idx (size t) _ i s hp hi hs' hps
        rw [hcd] at he; rw [← es]; exact (hpre e he).2
      · right
        rw [if_neg hqx]
        have hq0 : get t q = 0 := by rcases hv with a | a; exact absurd a hqx; exact a
        have hqi : q ≠ i := by intro c; rw [c] at hq0; exact hx hq0
        have hdc : d < cdist (size t) (place P t (get t i)) i := by
          rcases Nat.lt_trichotomy d (cdist (size t) (place P t (get t i)) i) with a | a | a
          · exact a
          · exfalso; apply hqi; rw [hq, a, c2]
          · have := (hpre _ a).1; rw [c2] at this; exact absurd rfl this
        refine ⟨q, hqi, rfl, { hi := hi, hq := hqlt, hx := hx, hG := ?_, q0 := Or.inr hq0, qp := Or.inr ?_, full := ?_ }⟩
        · intro s _
          have pf := put_fields t q (get t i)
          by_cases h2 : s = i
          · rw [h2, get_put_self _ _ _ (by rw [pf.2.2.2.2.2, hl]; exact hi), if_neg (fun c => hqi c.symm), if_pos rfl]
          · rw [get_put_ne _ _ _ _ h2]
            by_cases h1 : s = q
            · rw [h1, get_put_self _ _ _ (by rw [hl]; exact hqlt), if_pos rfl]
            · rw [get_put_ne _ _ _ _ h1, if_neg h1, if_neg h2]
        · rw [hq]; exact (onPath_of_lt _ _ _ _ hp hi hdc).1
        · intro s hs' hps
          obtain ⟨e, he, es⟩ := onPath_idx (size t) _ q s hp hqlt hs' hps
          rw [hcd] at he
          have := hpre e he
          rw [es] at this
          exact ⟨this.2, fun c => this.1 (by rw [c])⟩


theorem resizeStep_zero (P : Params) (t : Tb) (i : Nat) (h : get t i = 0) : resizeStep P t i = t := by
  simp [resizeStep, h]

/-- the relocation loop with the real bound (`i < oldSize || buf[i] != 0`) makes every stored value reachable -/
theorem resizeLoop_wf (P : Params) (n N c : Nat) (pl : Nat → Nat) (hc : c + 1 ≤ n) (hN : 2 * n ≤ N) :
    ∀ (f i : Nat) (t : Tb), Shape t → size t = N → place P t = pl → (items t).Nodup → (items t).length = c →
    i + f = N → Z n N pl i (get t) → (n ≤ i → nzFrom t i + (i - n) ≤ c) →
    Shape (resizeLoop .full P n f i t) ∧ (resizeLoop .full P n f i t).sd = t.sd ∧
    ∀ j < N, get (resizeLoop .full P n f i t) j ≠ 0 → RPf N pl (get (resizeLoop .full P n f i t)) j := by
  intro f
  induction f with
  | zero =>
    intro i t hs _ _ _ _ hf hz _
    simp only [resizeLoop]
    exact ⟨hs, trivial, z_done n N pl i _ hz (by omega) (by intro c; omega)⟩
  | succ f ih =>
    intro i t hs hsz hpl hnd hlen hf hz hcnt
    have hl : (slots t).length = N := by rw [← hsz]; exact hs
    have hi : i < size t := by omega
    simp only [resizeLoop]
    by_cases hcond : i < n ∨ (True ∧ get t i ≠ 0)
    · rw [if_pos hcond]
      -- counter for the next index when nothing moves
      have hcnt_same : n ≤ i + 1 → nzFrom t (i + 1) + (i + 1 - n) ≤ c := by
        intro hni
        by_cases hin : i < n
        · have := nzFrom_le t (i + 1); omega
        · have hx : get t i ≠ 0 := by rcases hcond with a | a; omega; exact a.2
          have := nzFrom_succ t i (by omega) hx
          have := hcnt (by omega); omega
      by_cases h0 : get t i = 0
      · rw [resizeStep_zero P t i h0]
        exact ih (i + 1) t hs hsz hpl hnd hlen (by omega) (z_skip n N pl i _ hz (Or.inl h0)) hcnt_same
      · have hinj := inj_of_items_nodup t hs hnd
        rcases resizeStep_cases P t i hs hi h0 hinj with ⟨e1, hr⟩ | ⟨q, hqi, e1, m⟩
        · rw [e1]; rw [hsz, hpl] at hr
          exact ih (i + 1) t hs hsz hpl hnd hlen (by omega) (z_skip n N pl i _ hz (Or.inr hr)) hcnt_same
        · rw [hsz, hpl] at m
          -- a free slot beyond i
          have hroom : ∃ e, i < e ∧ e < N ∧ get t e = 0 := by
            by_cases hin : i < n
            · have h1 := nzFrom_le t n
              obtain ⟨e, a, b, c'⟩ := exists_empty t n (by omega)
              exact ⟨e, by omega, by omega, c'⟩
            · have h1 := nzFrom_succ t i (by omega) h0
              have h2 := hcnt (by omega)
              obtain ⟨e, a, b, c'⟩ := exists_empty t (i + 1) (by omega)
              exact ⟨e, by omega, by omega, c'⟩
          obtain ⟨e, hei, heN, he0⟩ := hroom
          have hz' := z_move n N pl i q _ _ hz m e hei heN he0
          have s1 : Shape (put (put t q (get t i)) i 0) := shape_put _ _ _ (shape_put _ _ _ hs)
          have pf1 := put_fields t q (get t i)
          have pf2 := put_fields (put t q (get t i)) i 0
          have hsd : (put (put t q (get t i)) i 0).sd = t.sd := pf2.2.1.trans pf1.2.1
          -- the stored values are permuted
          have hq0 : get t q = 0 := by rcases m.q0 with a | a; exact absurd a hqi; exact a
          have hfill := items_put_fill t q (get t i) (by rw [hl]; exact m.hq) hq0 h0
          have hgi : get (put t q (get t i)) i = get t i := get_put_ne _ _ _ _ (fun c => hqi c.symm)
          have hzero := items_put_zero (put t q (get t i)) i (by rw [hgi]; exact h0)
          rw [hgi] at hzero
          have hperm : (items (put (put t q (get t i)) i 0)).Perm (items t) := List.Perm.cons_inv (hzero.symm.trans hfill)
          have hcnt' : n ≤ i + 1 → nzFrom (put (put t q (get t i)) i 0) (i + 1) + (i + 1 - n) ≤ c := by
            intro hni
            by_cases hin : i < n
            · have := nzFrom_le (put (put t q (get t i)) i 0) (i + 1)
              rw [hperm.length_eq, hlen] at this; omega
            · have hq_le : q < i := by
                have h5 := hz.Z5 i (by omega) (by omega) h0
                rcases m.qp with a | a
                · exact absurd a hqi
                · unfold OnPath at a; rw [if_pos h5] at a; omega
              rw [nzFrom_put_lt _ i 0 _ (by omega), nzFrom_put_lt _ q _ _ (by omega)]
              have := nzFrom_succ t i (by omega) h0
              have := hcnt (by omega); omega
          rw [e1]
          obtain ⟨a, b, c'⟩ := ih (i + 1) _ s1 (by rw [size_congr hsd]; exact hsz) (by rw [place_congr P hsd]; exact hpl)
            (hperm.nodup_iff.mpr hnd) (by rw [hperm.length_eq]; exact hlen) (by omega) hz' hcnt'
          exact ⟨a, b.trans hsd, c'⟩
    · rw [if_neg hcond]
      have hni : n ≤ i := by
        by_contra c'; exact hcond (Or.inl (by omega))
      have h0 : get t i = 0 := by
        by_contra c'; exact hcond (Or.inr ⟨trivial, c'⟩)
      exact ⟨hs, rfl, z_done n N pl i _ hz hni (fun _ => h0)⟩


/-- resize(newSizeDegree) with the real loop bound of a well-formed table that has a free slot is well-formed:
    reachability is restored in the larger table -/
theorem resize_wf (P : Params) (t : Tb) (w : WF P t) (newSd : Nat) (hge : t.sd + 1 ≤ newSd)
    (hroom : (items t).length + 1 ≤ size t) : WF P (resize .full P t newSd) := by
  have hl : (slots t).length = 2 ^ t.sd := w.shape
  have hbs : t.buf.size = 2 ^ t.sd := by simpa [slots] using hl
  have hpow : 2 * 2 ^ t.sd ≤ 2 ^ newSd := by
    have : 2 ^ (t.sd + 1) ≤ 2 ^ newSd := Nat.pow_le_pow_right (by omega) hge
    rw [Nat.pow_succ] at this; omega
  let t1 : Tb := { t with sd := newSd, buf := t.buf ++ Array.replicate (2 ^ newSd - t.buf.size) 0 }
  have hslots : slots t1 = slots t ++ List.replicate (2 ^ newSd - t.buf.size) 0 := by simp [slots, t1]
  have hs1 : Shape t1 := by
    unfold Shape size; rw [hslots, List.length_append, List.length_replicate, hl, hbs]; show _ = 2 ^ newSd; omega
  have hitems : items t1 = items t := by unfold items; rw [hslots]; exact filter_append_replicate_zero _ _
  have hsz1 : size t1 = 2 ^ newSd := rfl
  have hupper : ∀ j, size t ≤ j → get t1 j = 0 := by
    intro j hj
    rw [get_eq, hslots]
    unfold size at hj
    simp only [List.getD]
    rw [List.getElem?_append_right (by omega)]
    by_cases c : j - (slots t).length < 2 ^ newSd - t.buf.size
    · simp [List.getElem?_replicate, c]
    · simp [List.getElem?_replicate, c]
  have hz : Z (size t) (2 ^ newSd) (place P t1) 0 (get t1) := by
    refine { pln := fun x => place_lt P t1 x, Z1 := by intro j hj; omega, Z3 := ?_, Z4 := ?_, Z5 := ?_ }
    · intro j hj _ hg; exact absurd (hupper j (by omega)) hg
    · intro j hj _ hg; exact absurd (hupper j (by omega)) hg
    · intro j hj _ hg; exact absurd (hupper j (by omega)) hg
  have hnd1 : (items t1).Nodup := by rw [hitems]; exact wf_nodup P t w
  have hpos := size_pos t
  obtain ⟨sa, sda, ra⟩ := resizeLoop_wf P (size t) (2 ^ newSd) (items t).length (place P t1) hroom (by unfold size; exact hpow)
    (2 ^ newSd) 0 t1 hs1 hsz1 rfl hnd1 (by rw [hitems]) (by omega) hz (by intro c; omega)
  obtain ⟨s2, c2, p2, esd, _⟩ := resize_items .full P t newSd w.shape w.cnt (by omega)
  apply wf_of_parts P _ s2 c2 (p2.nodup_iff.mpr (wf_nodup P t w))
  intro j hj hx
  have hsd : (resize .full P t newSd).sd = t1.sd := sda
  have hszr : size (resize .full P t newSd) = 2 ^ newSd := by rw [size_congr hsd]; exact hsz1
  have hplr : place P (resize .full P t newSd) = place P t1 := place_congr P hsd
  rw [hszr, hplr]; rw [hszr] at hj
  exact ra j hj hx


/-! ### `WF` is an invariant of insertHash (insertImpl, thinning loop, growth) -/

theorem room_of_len (t : Tb) (hs : Shape t) (h : (items t).length + 1 ≤ size t) : ∃ e < size t, get t e = 0 := by
  have hl : (slots t).length = size t := hs
  have h0 : nzFrom t 0 = (items t).length := by unfold nzFrom items; simp
  obtain ⟨e, _, b, c⟩ := exists_empty t 0 (by rw [h0, hl]; omega)
  exact ⟨e, by rw [← hl]; exact b, c⟩

theorem insertImpl_wf (P : Params) (t : Tb) (w : WF P t) (x : Nat) (hroom : (items t).length + 1 ≤ size t) :
    WF P (UTable.insertImpl P t x) ∧ (items (UTable.insertImpl P t x)).length ≤ (items t).length + 1 ∧
    (UTable.insertImpl P t x).sd = t.sd := by
  have hl : (slots t).length = size t := w.shape
  by_cases hx0 : x = 0
  · subst hx0
    unfold UTable.insertImpl; rw [if_pos rfl]
    by_cases hz : t.zero = true
    · rw [if_pos hz]; exact ⟨w, by omega, rfl⟩
    · rw [if_neg hz]
      have hz' : t.zero = false := by simpa using hz
      refine ⟨{ shape := w.shape, inj := w.inj, reach := w.reach, cnt := ?_ }, by show (items t).length ≤ _; omega, rfl⟩
      have := w.cnt; unfold CntOk at this ⊢
      show t.cnt + 1 = (items t).length + 1
      rw [this, hz']; simp
  · by_cases hst : x ∈ items t
    · obtain ⟨_, i, hi, hget⟩ := (mem_items t x).mp hst
      have e1 : UTable.insertImpl P t x = t := by
        rw [← hget]; exact insertImpl_present P t w i (by rw [← hl]; exact hi) (by rw [hget]; exact hx0)
      rw [e1]; exact ⟨w, by omega, rfl⟩
    · have hnew : ∀ i < size t, get t i ≠ x := by
        intro i hi hc
        exact hst ((mem_items t x).mpr ⟨hx0, i, by rw [hl]; exact hi, hc⟩)
      obtain ⟨j, hj, hj0⟩ := room_of_len t w.shape hroom
      obtain ⟨w', hperm, hdr, _⟩ := insertImpl_new P t w x hx0 hnew j hj hj0
      exact ⟨w', by rw [hperm.length_eq]; simp, hdr.1⟩

theorem thinLoop_wf (P : Params) : ∀ (f : Nat) (t : Tb), WF P t → (items t).length + 1 ≤ size t →
    WF P (UTable.thinLoop P f t) ∧ (items (UTable.thinLoop P f t)).length ≤ (items t).length ∧
    (UTable.thinLoop P f t).sd = t.sd := by
  intro f
  induction f with
  | zero => intro t w _; exact ⟨w, by simp [UTable.thinLoop], rfl⟩
  | succ f ih =>
    intro t w hroom
    simp only [UTable.thinLoop]
    split
    · obtain ⟨e0, he, h0⟩ := room_of_len t w.shape hroom
      have w' := rehash_wf P t w (t.k + 1) e0 he h0
      obtain ⟨_, h1, _, p1⟩ := rehash_items P { t with k := t.k + 1 } w.shape w.cnt
      have hlen : (items (rehash P { t with k := t.k + 1 })).length ≤ (items t).length := by
        rw [p1.length_eq]; exact List.length_filter_le _ _
      have hsd : (rehash P { t with k := t.k + 1 }).sd = t.sd := h1.1
      obtain ⟨a, b, c⟩ := ih _ w' (by rw [size_congr hsd]; omega)
      exact ⟨a, by omega, c.trans hsd⟩
    · exact ⟨w, by omega, rfl⟩

theorem shrinkIfNeed_wf (P : Params) (t : Tb) (w : WF P t) (hroom : (items t).length + 1 ≤ size t) :
    WF P (UTable.shrinkIfNeed .full P t) := by
  unfold UTable.shrinkIfNeed
  split
  · exact w
  · split
    · exact (thinLoop_wf P _ t w hroom).1
    · exact resize_wf P t w (t.sd + 1) (by omega) hroom

/-- `WF` is kept by a whole insertHash step — insertImpl, then possibly the thinning loop (rehash, both loops) or growth
    (resize with the real loop bound) — as long as the table has two free slots before the insertion -/
theorem insertHash_wf (P : Params) (t : Tb) (w : WF P t) (x : Nat) (hroom : (items t).length + 2 ≤ size t) :
    WF P (UTable.insertHash .full P t x) := by
  unfold UTable.insertHash
  split
  · obtain ⟨w', hlen, hsd⟩ := insertImpl_wf P t w x (by omega)
    exact shrinkIfNeed_wf P _ w' (by rw [size_congr hsd]; omega)
  · exact w


end SH.C04
