/-
  SH.Lemmas.EngineWaitQ — the wait queue of the engine (property C17): `binlogNotifyWaited` releases an entry only when the
  binlog commit covers what that entry stands for (a write: its own end offset; a read: the offset row it has read).
-/
import SH.Lemmas.Engine
namespace SH.Engine

/-- running bound: the committed offset and the offsets of the writes parked so far; a read is covered if what it saw is
    at most that bound (it sits behind the write whose effects it saw, or those effects are committed already) -/
def covered : Nat → List Waiter → Prop
  | _, [] => True
  | b, w :: t => if w.rd then w.off ≤ b ∧ covered b t else covered (max b w.off) t

def bound : Nat → List Waiter → Nat
  | b, [] => b
  | b, w :: t => if w.rd then bound b t else bound (max b w.off) t

theorem covered_mono : ∀ (q : List Waiter) (b b' : Nat), b ≤ b' → covered b q → covered b' q := by
  intro q
  induction q with
  | nil => intro _ _ _ _; trivial
  | cons w t ih =>
    intro b b' hb h
    simp only [covered] at h ⊢
    split
    · rename_i hr; simp only [hr, if_true] at h
      exact ⟨by omega, ih _ _ hb h.2⟩
    · rename_i hr; simp only [hr] at h
      exact ih _ _ (by omega) h

theorem bound_mono : ∀ (q : List Waiter) (b b' : Nat), b ≤ b' → bound b q ≤ bound b' q := by
  intro q
  induction q with
  | nil => intro b b' h; exact h
  | cons w t ih =>
    intro b b' h
    simp only [bound]
    split
    · exact ih _ _ h
    · exact ih _ _ (by omega)

theorem bound_ge : ∀ (q : List Waiter) (b : Nat), b ≤ bound b q := by
  intro q
  induction q with
  | nil => intro b; exact Nat.le_refl _
  | cons w t ih =>
    intro b
    simp only [bound]
    split
    · exact ih _
    · have := ih (max b w.off); omega

theorem covered_append : ∀ (q : List Waiter) (b : Nat) (w : Waiter), covered b q →
    (w.rd = true → w.off ≤ bound b q) → covered b (q ++ [w]) := by
  intro q
  induction q with
  | nil =>
    intro b w _ hw
    simp only [List.nil_append, covered]
    split
    · rename_i hr; exact ⟨hw hr, trivial⟩
    · trivial
  | cons a t ih =>
    intro b w h hw
    simp only [List.cons_append, covered, bound] at h hw ⊢
    split
    · rename_i hr; simp only [hr, if_true] at h hw
      exact ⟨h.1, ih _ _ h.2 hw⟩
    · rename_i hr; simp only [hr] at h hw
      exact ih _ _ h hw

theorem bound_append_write : ∀ (q : List Waiter) (b : Nat) (w : Waiter), w.rd = false → w.off ≤ bound b (q ++ [w]) := by
  intro q
  induction q with
  | nil => intro b w h; simp [bound, h]; omega
  | cons a t ih =>
    intro b w h
    simp only [List.cons_append, bound]
    split
    · exact ih _ _ h
    · exact ih _ _ h

theorem bound_append_ge : ∀ (q : List Waiter) (b : Nat) (w : Waiter), bound b q ≤ bound b (q ++ [w]) := by
  intro q
  induction q with
  | nil => intro b w; simp only [List.nil_append, bound]; split <;> omega
  | cons a t ih =>
    intro b w
    simp only [List.cons_append, bound]
    split
    · exact ih _ _
    · exact ih _ _

/-- what `binlogNotifyWaited(k)` releases is covered by `k`, what it keeps stays covered -/
theorem released_covered : ∀ (q : List Waiter) (b k : Nat), b ≤ k → covered b q →
    (∀ w ∈ released k q, w.off ≤ k) ∧ covered k (remaining k q) ∧ bound b q ≤ bound k (remaining k q) := by
  intro q
  induction q with
  | nil => intro b k hb _; exact ⟨(by intro w hw; cases hw), trivial, hb⟩
  | cons a t ih =>
    intro b k hb h
    simp only [covered] at h
    by_cases hr : a.rd = true
    · simp only [hr, if_true] at h
      have hrel : relOK k a = true := by simp [relOK, hr]
      obtain ⟨i1, i2, i3⟩ := ih b k hb h.2
      simp only [released, remaining, List.takeWhile_cons, List.dropWhile_cons, hrel, if_true, bound] at *
      refine ⟨?_, i2, by simpa [hr] using i3⟩
      intro w hw
      rcases List.mem_cons.1 hw with rfl | hw
      · omega
      · exact i1 w hw
    · have hrf : a.rd = false := by simpa using hr
      simp only [hrf, Bool.false_eq_true, if_false] at h
      by_cases hk : a.off ≤ k
      · have hrel : relOK k a = true := by simp [relOK, hk]
        obtain ⟨i1, i2, i3⟩ := ih (max b a.off) k (by omega) h
        simp only [released, remaining, List.takeWhile_cons, List.dropWhile_cons, hrel, if_true, bound] at *
        refine ⟨?_, i2, by simpa [hrf] using i3⟩
        intro w hw
        rcases List.mem_cons.1 hw with rfl | hw
        · exact hk
        · exact i1 w hw
      · have hrel : relOK k a = false := by simp [relOK, hrf, hk]
        simp only [released, remaining, List.takeWhile_cons, List.dropWhile_cons, hrel, Bool.false_eq_true, if_false]
        refine ⟨(by intro w hw; cases hw), ?_, ?_⟩
        · simp only [covered, hrf, Bool.false_eq_true, if_false]
          exact covered_mono _ _ _ (by omega) h
        · simp only [bound, hrf, Bool.false_eq_true, if_false]
          exact bound_mono _ _ _ (by omega)

/-- the wait-queue invariant -/
structure WQ (s : St) : Prop where
  w1 : covered s.ci s.waitQ
  w2 : s.waitQ ≠ [] → s.q = false ∧ s.rest = [] ∧ s.repl = false ∧ s.tx.off ≤ bound s.ci s.waitQ
  w3 : s.wait = false → s.waitQ = []       -- calls are parked in WaitCommit mode only (a must-commit-now write is released within its own step)

theorem wq_of_nil {s : St} (h : s.waitQ = []) : WQ s := by
  exact ⟨(by rw [h]; trivial), (by intro hn; exact absurd h hn), fun _ => h⟩

theorem wq_init (w r : Bool) (rest : List Rec) (len : Nat) : WQ (init w r rest len) := wq_of_nil rfl

theorem notify_wq {s : St} (h : WQ s) (k : Nat) (hk : s.ci ≤ k) : WQ (notify s k) := by
  obtain ⟨i1, i2, i3⟩ := released_covered s.waitQ s.ci k hk h.w1
  refine ⟨i2, ?_, ?_⟩
  · intro hn
    have hne : s.waitQ ≠ [] := by
      intro he
      apply hn
      show remaining k s.waitQ = []
      rw [he]; rfl
    obtain ⟨a, b, c, d⟩ := h.w2 hne
    exact ⟨a, b, c, Nat.le_trans d i3⟩
  · intro hw
    show remaining k s.waitQ = []
    rw [h.w3 hw]; rfl

theorem commitStep_wq {s : St} (h : WQ s) (k : Nat) : WQ (commitStep s k) := by
  unfold commitStep
  split
  · exact ⟨h.w1, h.w2, h.w3⟩
  · rename_i hci
    have hn : WQ (notify (announce s k) k) := notify_wq (s := announce s k) ⟨h.w1, h.w2, h.w3⟩ k (by show s.ci ≤ k; omega)
    split
    · rename_i hd
      -- delayed commit needs q = true, so nobody is parked
      have hq : s.q = true := by simp [delayedCommit] at hd; exact hd.1
      have hnil : s.waitQ = [] := by
        by_cases he : s.waitQ = []
        · exact he
        · have := (h.w2 he).1; rw [hq] at this; cases this
      apply wq_of_nil
      simp only [flushQ, foldl_flush, flushed, notify, announce, hnil]
      rfl
    · split
      · exact ⟨hn.w1, hn.w2, hn.w3⟩
      · exact hn

theorem rest_nil_apply {s : St} (n : Nat) (h : s.rest = []) : (deliverApply s n).1 = s := by
  unfold deliverApply
  have : badApply s n = true := by
    by_cases hn : n = 0
    · simp [badApply, hn]
    · simp [badApply, h]; omega
  simp [this]

theorem rest_nil_skip {s : St} (n : Nat) (h : s.rest = []) : (deliverSkip s n).1 = s := by
  unfold deliverSkip
  simp [badSkip, h]

theorem rest_nil_buf {s : St} (m : Nat) (h : s.rest = []) : (deliverBuf s m).1 = s := by
  unfold deliverBuf
  have : badBuf s m = true := by
    by_cases hm : m = 0
    · simp [badBuf, hm]
    · simp [badBuf, h, total]; omega
  simp [this]

/-- any step that leaves the queue, the committed offset, `q`, `rest`, `repl` and the offset row alone keeps WQ -/
theorem wq_congr {s t : St} (h : WQ s) (e1 : t.waitQ = s.waitQ) (e2 : t.ci = s.ci) (e3 : t.q = s.q) (e4 : t.rest = s.rest)
    (e5 : t.repl = s.repl) (e6 : t.tx.off = s.tx.off) (e7 : t.wait = s.wait) : WQ t := by
  refine ⟨(by rw [e1, e2]; exact h.w1), ?_, (by rw [e1, e7]; exact h.w3)⟩
  intro hn
  rw [e1] at hn
  rw [e1, e2, e3, e4, e5, e6]
  exact h.w2 hn

theorem canWrite_wq {s : St} (h : canWrite s = true) : s.repl = false ∧ s.q = false ∧ s.rest = [] := by
  simp [canWrite] at h
  exact ⟨h.1.1.1, h.1.2, h.2⟩

theorem doWrite_wq {s : St} (h : WQ s) (id ln extra : Nat) : WQ (doWrite s id ln extra).1 := by
  unfold doWrite
  by_cases hc : canWrite s = true
  · simp only [hc, Bool.not_true, Bool.false_eq_true, if_false]
    obtain ⟨c1, c2, c3⟩ := canWrite_wq hc
    by_cases hw : s.wait = true
    · simp only [hw, if_true]
      by_cases hci : s.dbo + plen ln ≤ s.ci
      · simp only [hci, if_true]
        refine ⟨h.w1, ?_, fun hf => by have hf' : s.wait = false := hf; rw [hw] at hf'; cases hf'⟩
        intro hn
        exact ⟨c2, c3, c1, Nat.le_trans hci (bound_ge _ _)⟩
      · simp only [hci, if_false]
        refine ⟨covered_append _ _ _ h.w1 (by intro hr; cases hr), ?_, fun hf => by have hf' : s.wait = false := hf; rw [hw] at hf'; cases hf'⟩
        intro _
        exact ⟨c2, c3, c1, bound_append_write s.waitQ s.ci ⟨id, s.dbo + plen ln, false⟩ rfl⟩
    · have hwf : s.wait = false := by simpa using hw
      simp only [hwf, Bool.false_eq_true, if_false]
      exact wq_of_nil (h.w3 hwf)
  · have : canWrite s = false := by simpa using hc
    simp only [this, Bool.not_false, if_true]; exact h

theorem doRead_wq {s : St} (h : WQ s) (id : Nat) : WQ (doRead s id).1 := by
  unfold doRead
  by_cases hc : (s.wait && !s.waitQ.isEmpty) = true
  · simp only [hc, if_true]
    have hne : s.waitQ ≠ [] := by
      intro he; simp [he] at hc
    have hw : s.wait = true := by simp at hc; exact hc.1
    obtain ⟨a, b, c, d⟩ := h.w2 hne
    refine ⟨covered_append _ _ _ h.w1 (fun _ => d), ?_, fun hf => by have hf' : s.wait = false := hf; rw [hw] at hf'; cases hf'⟩
    intro _
    exact ⟨a, b, c, Nat.le_trans d (bound_append_ge _ _ _)⟩
  · have : (s.wait && !s.waitQ.isEmpty) = false := by simpa using hc
    simp only [this, Bool.false_eq_true, if_false]
    exact wq_congr h rfl rfl rfl rfl rfl rfl rfl

theorem doOp_wq {s : St} (h : WQ s) (id ln extra : Nat) (k : Kind) : WQ (doOp s id ln extra k).1 := by
  unfold doOp
  split
  · exact h
  · cases k <;> simp only
    · exact doWrite_wq h id ln extra
    all_goals first | exact h | exact doRead_wq h id

theorem commitStep_waitQ (t : St) (k : Nat) (h : ¬ k < t.ci) : (commitStep t k).waitQ = remaining k t.waitQ := by
  unfold commitStep
  simp only [h, if_false]
  split
  · simp only [flushQ, foldl_flush, flushed, notify, announce]
  · split <;> rfl

theorem doNow_wq {s : St} (hi : Inv s) (h : WQ s) (id ln extra : Nat) : WQ (doNow s id ln extra).1 := by
  unfold doNow
  by_cases hb : (busy s || s.wait || s.repl || s.q) = true
  · simp only [hb, if_true]; exact h
  · simp only [hb]
    have hwf : s.wait = false := by simp at hb; exact hb.1.1.2
    have hnil := h.w3 hwf
    by_cases hc : canWrite s = true
    · simp only [hc, Bool.not_true, Bool.false_eq_true, if_false]
      by_cases hci : s.dbo + plen ln ≤ s.ci
      · simp only [hci, if_true]; exact wq_of_nil hnil
      · simp only [hci, if_false]
        have hlen := canWrite_spec hc
        have hnot : ¬ (s.dbo + plen ln + extra) < (park (writeOK s id ln extra) id (s.dbo + plen ln) false).ci := by
          show ¬ (s.dbo + plen ln + extra) < s.ci
          have := hi.1.i7b; have := hi.1.dl; omega
        have hq := commitStep_waitQ (park (writeOK s id ln extra) id (s.dbo + plen ln) false) (s.dbo + plen ln + extra) hnot
        have hrem : remaining (s.dbo + plen ln + extra) (park (writeOK s id ln extra) id (s.dbo + plen ln) false).waitQ = [] := by
          show remaining (s.dbo + plen ln + extra) (s.waitQ ++ [⟨id, s.dbo + plen ln, false⟩]) = []
          rw [hnil]
          simp [remaining, relOK]
        rw [hrem] at hq
        split
        · exact wq_of_nil hq
        · exact wq_of_nil hq
    · have : canWrite s = false := by simpa using hc
      simp only [this, Bool.not_false, if_true]; exact h

theorem delivery_wq {s t : St} (h : WQ s) (hrest : s.rest = [] → t = s) (hq : t.waitQ = s.waitQ) : WQ t := by
  by_cases he : s.waitQ = []
  · exact wq_of_nil (by rw [hq, he])
  · rw [hrest (h.w2 he).2.1]; exact h

theorem deliverApply_waitQ (s : St) (n : Nat) : (deliverApply s n).1.waitQ = s.waitQ := by
  unfold deliverApply; split; rfl; split; rfl; split <;> rfl
theorem deliverSkip_waitQ (s : St) (n : Nat) : (deliverSkip s n).1.waitQ = s.waitQ := by
  unfold deliverSkip; split; rfl; split; rfl; split <;> rfl
theorem deliverBuf_waitQ (s : St) (m : Nat) : (deliverBuf s m).1.waitQ = s.waitQ := by
  unfold deliverBuf; split; rfl; split; rfl; split <;> rfl

theorem closeTail_wq {s1 : St} (h1 : WQ s1) :
    WQ (if s1.dbo ≤ s1.ci then ({ s1 with com := s1.tx, closed := true }, "ok") else ({ s1 with closed := true }, "err")).1 := by
  split
  · exact wq_congr h1 rfl rfl rfl rfl rfl rfl rfl
  · exact wq_congr h1 rfl rfl rfl rfl rfl rfl rfl

theorem step_wq {s : St} (hi : Inv s) (h : WQ s) (op : Op) : WQ (step s op).1 := by
  cases op with
  | doOp id ln extra k => exact doOp_wq h id ln extra k
  | doNow id ln extra => exact doNow_wq hi h id ln extra
  | commit k => simp only [step]; split; exact h; exact commitStep_wq h k
  | tx =>
    simp only [step, txStep]
    split
    · exact h
    · split
      · exact h
      · split
        · exact wq_congr h rfl rfl rfl rfl rfl rfl rfl
        · exact wq_congr h rfl rfl rfl rfl rfl rfl rfl
  | dApply n => exact delivery_wq h (fun hr => rest_nil_apply n hr) (deliverApply_waitQ s n)
  | dSkip n => exact delivery_wq h (fun hr => rest_nil_skip n hr) (deliverSkip_waitQ s n)
  | dApplyBuf m => exact delivery_wq h (fun hr => rest_nil_buf m hr) (deliverBuf_waitQ s m)
  | view => exact h
  | append l =>
    simp only [step]
    split
    · exact h
    · rename_i hc
      have hr : s.repl = true := by
        simp only [Bool.or_eq_true, Bool.not_eq_true', not_or, Bool.not_eq_false] at hc
        exact hc.1.2
      have hnil : s.waitQ = [] := by
        by_cases he : s.waitQ = []
        · exact he
        · have := (h.w2 he).2.2.1; rw [hr] at this; cases this
      exact wq_of_nil hnil
  | hold b => exact wq_congr h rfl rfl rfl rfl rfl rfl rfl
  | close =>
    simp only [step, closeStep]
    split
    · exact h
    · have h1 : WQ (if s.repl then s else commitStep s s.len) := by
        split
        · exact h
        · exact commitStep_wq h s.len
      exact closeTail_wq h1
  | crash d torn =>
    simp only [step]
    split
    · exact h
    · split
      · exact wq_of_nil rfl
      · exact wq_of_nil rfl
  | ready =>
    simp only [step, readyStep]
    split
    · rename_i hc
      have hq : s.q = true := by simp at hc; exact hc.2
      have hnil : s.waitQ = [] := by
        by_cases he : s.waitQ = []
        · exact he
        · have := (h.w2 he).1; rw [hq] at this; cases this
      apply wq_of_nil
      simp only [flushQ, foldl_flush, flushed, hnil]
    · exact h

theorem run_wq : ∀ (ops : List Op) (s : St), Inv s → WQ s → WQ (run s ops) := by
  intro ops
  induction ops with
  | nil => intro s _ h; exact h
  | cons op t ih => intro s hi h; exact ih _ (step_inv hi op) (step_wq hi h op)

end SH.Engine
