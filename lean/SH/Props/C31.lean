/-
  C31 — The balancer forwards every accepted packet upstream promptly and in order.

  "Every packet the balancer accepts is written upstream byte-for-byte with its length frame, in acceptance order per
   connection, within a bounded delay (about one second plus reconnection time) even if no further packets arrive; a
   packet is dropped only when both send buffers are full, and every drop is counted and reported upstream."

  Model: SH.Model.Egress. A history is an arbitrary `List Op` (pushes through the handler, sender steps, wake-ups, timer
  callbacks, Close, Stats, reports, in any interleaving of critical sections); `run v c {} ops` is the state after it.
  `Variant.signal` = the code with fixes/C31-swap-timeout-wakes-sender.diff, `Variant.silent` = the pinned code.
-/
import SH.Model.Egress

set_option linter.unusedSimpArgs false

namespace SH.C31
open SH.Egress

/-- what the sender still owes upstream: the unread part of the read batch, then the write buffer -/
def pendingOf (b : Buf) : List Pkt := b.r.drop b.ri ++ b.w

def skippedCount (d : List (Pkt × Fate)) : Nat := (d.filter (fun d => d.2 == Fate.skipped)).length

theorem map_written_fst (l : List Pkt) : (l.map (fun p => (p, Fate.written))).map (·.1) = l := by
  induction l with
  | nil => rfl
  | cons a l ih => simp [ih]

theorem map_skipped_fst (l : List Pkt) : (l.map (fun p => (p, Fate.skipped))).map (·.1) = l := by
  induction l with
  | nil => rfl
  | cons a l ih => simp [ih]

theorem skipped_written (l : List Pkt) : skippedCount (l.map (fun p => (p, Fate.written))) = 0 := by
  induction l with
  | nil => rfl
  | cons a l ih => simp [skippedCount] at ih ⊢

theorem skipped_skipped (l : List Pkt) : skippedCount (l.map (fun p => (p, Fate.skipped))) = l.length := by
  induction l with
  | nil => rfl
  | cons a l ih => simp [skippedCount] at ih ⊢; exact ih

theorem skipped_append (a b : List (Pkt × Fate)) : skippedCount (a ++ b) = skippedCount a + skippedCount b := by
  simp [skippedCount]

/-- a batch splits into: handed over completely, the one being written when the error happened, to be resent -/
theorem split3 (l : List Pkt) (k : Nat) : l = l.take k ++ ((l.drop k).take 1 ++ l.drop (k + 1)) := by
  have h1 : (l.drop k).take 1 ++ l.drop (k + 1) = l.drop k := by
    have := List.take_append_drop 1 (l.drop k)
    rw [List.drop_drop] at this
    exact this
  rw [h1, List.take_append_drop]
/-- data invariant of one buffer (both variants): FIFO bookkeeping, capacity, error count -/
structure Data (c : Cfg) (b : Buf) : Prop where
  fifo : b.acc = b.done.map (·.1) ++ pendingOf b
  wlen : b.w.length ≤ c.bufLen
  nerr : skippedCount b.done = b.nerr

/-- a sender waiting in `swap` has consumed its read batch -/
def Exhausted (b : Buf) : Prop := parked b = true → b.r.length ≤ b.ri

structure BInv (c : Cfg) (b : Buf) : Prop where
  data : Data c b
  exh : Exhausted b

theorem binv_init (c : Cfg) : BInv c {} := by
  refine ⟨⟨?_, ?_, ?_⟩, ?_⟩ <;> simp [pendingOf, parked, skippedCount, Exhausted]

/-- `Data` only looks at these fields -/
theorem data_congr (c : Cfg) (b b' : Buf) (h : Data c b) (hw : b'.w = b.w) (hr : b'.r = b.r) (hri : b'.ri = b.ri)
    (ha : b'.acc = b.acc) (hd : b'.done = b.done) (hn : b'.nerr = b.nerr) : Data c b' := by
  refine ⟨?_, ?_, ?_⟩
  · simp only [pendingOf, hw, hr, hri, ha, hd]; exact h.fifo
  · rw [hw]; exact h.wlen
  · rw [hd, hn]; exact h.nerr

theorem signal_fields (b : Buf) : (signal b).w = b.w ∧ (signal b).r = b.r ∧ (signal b).ri = b.ri ∧ (signal b).acc = b.acc ∧
    (signal b).done = b.done ∧ (signal b).pc = b.pc ∧ (signal b).closed = b.closed ∧ (signal b).timeout = b.timeout ∧
    (signal b).nerr = b.nerr := by
  unfold signal; split <;> simp

theorem binv_signal (c : Cfg) (b : Buf) (h : BInv c b) : BInv c (signal b) := by
  obtain ⟨h1, h2, h3, h4, h5, h6, h7, h8, h9⟩ := signal_fields b
  refine ⟨data_congr c b _ h.data h1 h2 h3 h4 h5 h9, ?_⟩
  simp only [Exhausted, parked, h6, h2, h3]; exact h.exh

theorem binv_bufPush (c : Cfg) (b : Buf) (p : Pkt) (h : BInv c b) : BInv c (bufPush c b p).1 := by
  unfold bufPush
  by_cases hf : full c b = true
  · simp only [hf, if_true]; exact binv_signal c b h
  · simp only [hf]
    apply binv_signal
    refine ⟨⟨?_, ?_, ?_⟩, ?_⟩
    · simp only [pendingOf, h.data.fifo, List.append_assoc]
    · simp only [full, decide_eq_true_eq, Nat.not_le] at hf; simp; omega
    · exact h.data.nerr
    · exact h.exh

theorem data_swapBody (c : Cfg) (b : Buf) (h : Data c b) (hx : b.r.length ≤ b.ri) : Data c (swapBody b) := by
  unfold swapBody
  split
  · exact h
  · refine ⟨?_, ?_, ?_⟩
    · have := h.fifo
      simp only [pendingOf, List.drop_of_length_le hx, List.nil_append] at this
      simp [pendingOf, this]
    · simp
    · exact h.nerr

theorem binv_afterSwap1 (c : Cfg) (i : Bool) (b : Buf) (h : Data c b) : BInv c (afterSwap1 i b).1 := by
  unfold afterSwap1
  split
  · exact ⟨data_congr c b _ h rfl rfl rfl rfl rfl rfl, by simp [Exhausted, parked]⟩
  · exact ⟨data_congr c b _ h rfl rfl rfl rfl rfl rfl, by simp [Exhausted, parked]⟩

theorem binv_afterSwap2 (c : Cfg) (i : Bool) (b : Buf) (h : Data c b) : BInv c (afterSwap2 i b).1 :=
  ⟨data_congr c b _ h rfl rfl rfl rfl rfl rfl, by simp [Exhausted, parked, afterSwap2]⟩

theorem binv_enterSwap1 (c : Cfg) (i : Bool) (b : Buf) (h : Data c b) (hx : b.r.length ≤ b.ri) : BInv c (enterSwap1 c i b).1 := by
  unfold enterSwap1
  split
  · exact ⟨data_congr c b _ h rfl rfl rfl rfl rfl rfl, fun _ => hx⟩
  · exact binv_afterSwap1 c i _ (data_swapBody c _ (data_congr c b _ h rfl rfl rfl rfl rfl rfl) hx)

theorem binv_enterSwap2 (c : Cfg) (i : Bool) (b : Buf) (h : Data c b) (hx : b.r.length ≤ b.ri) : BInv c (enterSwap2 c i b).1 := by
  unfold enterSwap2
  split
  · exact ⟨data_congr c b _ h rfl rfl rfl rfl rfl rfl, fun _ => hx⟩
  · exact binv_afterSwap2 c i _ (data_swapBody c _ (data_congr c b _ h rfl rfl rfl rfl rfl rfl) hx)

theorem binv_popStart (c : Cfg) (i : Bool) (b : Buf) (h : BInv c b) : BInv c (popStart c i b).1 := by
  unfold popStart
  split
  · exact h
  · split
    · exact binv_enterSwap1 c i b h.data ‹_›
    · exact binv_afterSwap1 c i b h.data

theorem binv_wake (c : Cfg) (i : Bool) (b : Buf) (h : BInv c b) : BInv c (wake c i b).1 := by
  unfold wake
  split
  · exact h
  · split
    · exact ⟨data_congr c b _ h.data rfl rfl rfl rfl rfl rfl, h.exh⟩
    · split
      · rename_i hpc
        exact binv_afterSwap1 c i _ (data_swapBody c b h.data (h.exh (by simp [parked, hpc])))
      · rename_i hpc
        exact binv_afterSwap2 c i _ (data_swapBody c b h.data (h.exh (by simp [parked, hpc])))
      · rename_i h1 h2
        refine ⟨data_congr c b _ h.data rfl rfl rfl rfl rfl rfl, ?_⟩
        intro hp
        simp only [parked] at hp
        cases hpc : b.pc <;> simp_all

theorem binv_timerFire (c : Cfg) (v : Variant) (b : Buf) (h : BInv c b) : BInv c (timerFire v b) := by
  unfold timerFire
  split
  · exact h
  · cases v
    · exact binv_signal c _ ⟨data_congr c b _ h.data rfl rfl rfl rfl rfl rfl, h.exh⟩
    · exact ⟨data_congr c b _ h.data rfl rfl rfl rfl rfl rfl, h.exh⟩

theorem binv_bufClose (c : Cfg) (b : Buf) (h : BInv c b) : BInv c (bufClose b) :=
  binv_signal c _ ⟨data_congr c b _ h.data rfl rfl rfl rfl rfl rfl, h.exh⟩


theorem batch_length (b : Buf) : (batch b).length = b.r.length - b.ri := by simp [batch]

theorem binv_writeDone (c : Cfg) (i : Bool) (b : Buf) (res : WRes) (h : BInv c b) : BInv c (writeDone c i b res).1 := by
  unfold writeDone
  split
  · exact h
  · cases res with
    | ok =>
      simp only
      apply binv_enterSwap2
      · refine ⟨?_, h.data.wlen, ?_⟩
        · have := h.data.fifo
          simp only [pendingOf] at this
          simp only [pendingOf, List.map_append, map_written_fst, batch, List.drop_length, List.nil_append,
            List.append_assoc]
          exact this
        · simp only [skipped_append, skipped_written, Nat.add_zero]; exact h.data.nerr
      · exact Nat.le_refl _
    | err n =>
      simp only
      split
      · exact h
      · rename_i hn
        have hlen := batch_length b
        have hn' : n < b.r.length - b.ri := by omega
        refine ⟨⟨?_, h.data.wlen, ?_⟩, by simp [Exhausted, parked]⟩
        · have hf := h.data.fifo
          simp only [pendingOf] at hf
          have hd : b.r.drop (b.r.length - n) = (batch b).drop ((batch b).length - n - 1 + 1) := by
            simp only [batch, List.drop_drop]
            congr 1
            simp only [List.length_drop]
            omega
          simp only [pendingOf, List.map_append, map_written_fst, map_skipped_fst, hd, List.append_assoc]
          rw [hf]
          congr 1
          rw [← List.append_assoc, ← List.append_assoc, List.append_assoc (List.take _ _)]
          congr 1
          exact split3 (batch b) _
        · simp only [skipped_append, skipped_written, skipped_skipped, Nat.add_zero, List.length_take, List.length_drop]
          have := h.data.nerr
          omega

/-- both buffers satisfy the buffer invariant -/
def PInv (c : Cfg) (s : Pool) : Prop := BInv c s.b0 ∧ BInv c s.b1

theorem pinv_getB (c : Cfg) (s : Pool) (h : PInv c s) (i : Bool) : BInv c (getB s i) := by
  cases i <;> simp [getB, h.1, h.2]

theorem pinv_setB (c : Cfg) (s : Pool) (i : Bool) (b : Buf) (h : PInv c s) (hb : BInv c b) : PInv c (setB s i b) := by
  cases i <;> simp [setB, PInv, h.1, h.2, hb]

theorem pinv_push (c : Cfg) (s : Pool) (p : Pkt) (h : PInv c s) : PInv c (push c s p).1 := by
  have hb0 := binv_bufPush c s.b0 p h.1
  have hb1 := binv_bufPush c s.b1 p h.2
  unfold push
  simp only
  split
  · exact h
  · split
    · cases hp : s.prim <;> simp [PInv, setB, getB, hp, h.1, h.2, hb0, hb1]
    · split
      · cases hp : s.prim <;> simp [PInv, setB, getB, setRecon, hp, h.1, h.2, hb0, hb1]
      · cases hp : s.prim <;> simp [PInv, setB, getB, hp, h.1, h.2, hb0, hb1]

theorem pinv_step (v : Variant) (c : Cfg) (s : Pool) (op : Op) (h : PInv c s) : PInv c (step v c s op).1 := by
  cases op with
  | handle body =>
    simp only [step, handle]
    split
    · exact h
    · exact pinv_push c s _ h
  | pop i => exact pinv_setB c s i _ h (binv_popStart c i _ (pinv_getB c s h i))
  | wres i r => exact pinv_setB c s i _ h (binv_writeDone c i _ r (pinv_getB c s h i))
  | timer i => exact pinv_setB c s i _ h (binv_timerFire c v _ (pinv_getB c s h i))
  | wake i => exact pinv_setB c s i _ h (binv_wake c i _ (pinv_getB c s h i))
  | close => exact ⟨binv_bufClose c _ h.1, binv_bufClose c _ h.2⟩
  | stats => exact h
  | report i ok =>
    simp only [step]
    split
    · exact h
    · split
      · exact h
      · split <;> exact h
  | takeRecon i => cases i <;> exact h

theorem pinv_run (v : Variant) (c : Cfg) (ops : List Op) : ∀ s, PInv c s → PInv c (run v c s ops) := by
  induction ops with
  | nil => intro s h; exact h
  | cons op ops ih => intro s h; exact ih _ (pinv_step v c s op h)

theorem pinv_init (c : Cfg) : PInv c {} := ⟨binv_init c, binv_init c⟩

/-- packets handed over completely to a successful write, in the order the sender wrote them -/
def writtenOf (b : Buf) : List Pkt := (b.done.filter (fun d => d.2 == Fate.written)).map (·.1)

/-- **C31, order / byte-for-byte / nothing lost inside the balancer.** After any history, for each sender: the packets
    it accepted, in acceptance order, are exactly the packets it is finished with (written, or skipped because the write
    callback failed while sending them — one per failed write) followed by the rest of its read batch followed by its
    write buffer. Nothing is duplicated, reordered, altered or forgotten; the buffer never exceeds `bufferLen`. -/
theorem fifo_per_sender (v : Variant) (c : Cfg) (ops : List Op) (i : Bool) :
    let b := getB (run v c {} ops) i
    b.acc = b.done.map (·.1) ++ (b.r.drop b.ri ++ b.w) ∧ skippedCount b.done = b.nerr ∧ b.w.length ≤ c.bufLen := by
  have h := pinv_getB c _ (pinv_run v c ops {} (pinv_init c)) i
  exact ⟨h.data.fifo, h.data.nerr, h.data.wlen⟩

/-- … hence what went upstream on the connections of one sender is a subsequence of what it accepted, in acceptance order. -/
theorem written_in_acceptance_order (v : Variant) (c : Cfg) (ops : List Op) (i : Bool) :
    List.Sublist (writtenOf (getB (run v c {} ops) i)) (getB (run v c {} ops) i).acc := by
  have h := (fifo_per_sender v c ops i).1
  rw [h]
  exact List.Sublist.trans (List.Sublist.map _ (List.filter_sublist)) (List.sublist_append_left _ _)

/-- no lost wake-up: a sender parked in `swap` whose wait condition no longer holds has a wake-up pending -/
def NoLost (c : Cfg) (b : Buf) : Prop := parked b = true → mustWait c b = false → b.sig = true

theorem nolost_of_not_parked (c : Cfg) (b : Buf) (h : parked b = false) : NoLost c b := by
  intro hp; rw [h] at hp; cases hp

theorem nolost_signal (c : Cfg) (b : Buf) : NoLost c (signal b) := by
  unfold signal
  split
  · intro _ _; rfl
  · rename_i hp; exact nolost_of_not_parked c b (by simpa using hp)

theorem nolost_bufPush (c : Cfg) (b : Buf) (p : Pkt) : NoLost c (bufPush c b p).1 := by
  unfold bufPush; split <;> exact nolost_signal c _

theorem nolost_afterSwap1 (c : Cfg) (i : Bool) (b : Buf) : NoLost c (afterSwap1 i b).1 := by
  unfold afterSwap1; split <;> exact nolost_of_not_parked c _ (by simp [parked])

theorem nolost_afterSwap2 (c : Cfg) (i : Bool) (b : Buf) : NoLost c (afterSwap2 i b).1 :=
  nolost_of_not_parked c _ (by simp [parked, afterSwap2])

theorem nolost_enterSwap1 (c : Cfg) (i : Bool) (b : Buf) : NoLost c (enterSwap1 c i b).1 := by
  unfold enterSwap1
  split
  · rename_i hm
    intro _ hf
    simp [mustWait] at hm hf
    have := hf hm.1
    simp [hm.2] at this
  · exact nolost_afterSwap1 c i _

theorem nolost_enterSwap2 (c : Cfg) (i : Bool) (b : Buf) : NoLost c (enterSwap2 c i b).1 := by
  unfold enterSwap2
  split
  · rename_i hm
    intro _ hf
    simp [mustWait] at hm hf
    have := hf hm.1
    simp [hm.2] at this
  · exact nolost_afterSwap2 c i _

theorem nolost_popStart (c : Cfg) (i : Bool) (b : Buf) (h : NoLost c b) : NoLost c (popStart c i b).1 := by
  unfold popStart
  split
  · exact h
  · split
    · exact nolost_enterSwap1 c i b
    · exact nolost_afterSwap1 c i b

theorem nolost_writeDone (c : Cfg) (i : Bool) (b : Buf) (r : WRes) (h : NoLost c b) : NoLost c (writeDone c i b r).1 := by
  unfold writeDone
  split
  · exact h
  · cases r with
    | ok => exact nolost_enterSwap2 c i _
    | err n =>
      simp only
      split
      · exact h
      · exact nolost_of_not_parked c _ (by simp [parked])

theorem nolost_wake (c : Cfg) (i : Bool) (b : Buf) (h : NoLost c b) : NoLost c (wake c i b).1 := by
  unfold wake
  split
  · exact h
  · split
    · rename_i hm
      intro _ hf
      simp only [mustWait] at hm hf
      simp [hm] at hf
    · split
      · exact nolost_afterSwap1 c i _
      · exact nolost_afterSwap2 c i _
      · rename_i h1 h2
        apply nolost_of_not_parked
        simp only [parked]
        cases hpc : b.pc <;> simp_all

theorem nolost_timerFire (c : Cfg) (b : Buf) (h : NoLost c b) : NoLost c (timerFire .signal b) := by
  unfold timerFire
  split
  · exact h
  · exact nolost_signal c _

theorem nolost_bufClose (c : Cfg) (b : Buf) : NoLost c (bufClose b) := nolost_signal c _

def PNoLost (c : Cfg) (s : Pool) : Prop := NoLost c s.b0 ∧ NoLost c s.b1

theorem pnolost_getB (c : Cfg) (s : Pool) (h : PNoLost c s) (i : Bool) : NoLost c (getB s i) := by
  cases i <;> simp [getB, h.1, h.2]

theorem pnolost_setB (c : Cfg) (s : Pool) (i : Bool) (b : Buf) (h : PNoLost c s) (hb : NoLost c b) : PNoLost c (setB s i b) := by
  cases i <;> simp [setB, PNoLost, h.1, h.2, hb]

theorem pnolost_push (c : Cfg) (s : Pool) (p : Pkt) (h : PNoLost c s) : PNoLost c (push c s p).1 := by
  have hb0 := nolost_bufPush c s.b0 p
  have hb1 := nolost_bufPush c s.b1 p
  unfold push
  simp only
  split
  · exact h
  · split
    · cases hp : s.prim <;> simp [PNoLost, setB, getB, hp, h.1, h.2, hb0, hb1]
    · split
      · cases hp : s.prim <;> simp [PNoLost, setB, getB, setRecon, hp, h.1, h.2, hb0, hb1]
      · cases hp : s.prim <;> simp [PNoLost, setB, getB, hp, h.1, h.2, hb0, hb1]

theorem pnolost_step (c : Cfg) (s : Pool) (op : Op) (h : PNoLost c s) : PNoLost c (step .signal c s op).1 := by
  cases op with
  | handle body =>
    simp only [step, handle]
    split
    · exact h
    · exact pnolost_push c s _ h
  | pop i => exact pnolost_setB c s i _ h (nolost_popStart c i _ (pnolost_getB c s h i))
  | wres i r => exact pnolost_setB c s i _ h (nolost_writeDone c i _ r (pnolost_getB c s h i))
  | timer i => exact pnolost_setB c s i _ h (nolost_timerFire c _ (pnolost_getB c s h i))
  | wake i => exact pnolost_setB c s i _ h (nolost_wake c i _ (pnolost_getB c s h i))
  | close => exact ⟨nolost_bufClose c _, nolost_bufClose c _⟩
  | stats => exact h
  | report i ok =>
    simp only [step]
    split
    · exact h
    · split
      · exact h
      · split <;> exact h
  | takeRecon i => cases i <;> exact h

theorem pnolost_run (c : Cfg) (ops : List Op) : ∀ s, PNoLost c s → PNoLost c (run .signal c s ops) := by
  induction ops with
  | nil => intro s h; exact h
  | cons op ops ih => intro s h; exact ih _ (pnolost_step c s op h)

theorem pnolost_init (c : Cfg) : PNoLost c {} :=
  ⟨nolost_of_not_parked c _ (by simp [parked]), nolost_of_not_parked c _ (by simp [parked])⟩


/-- the next move of sender `i` and of the batch timer armed by its `swap`, when nobody pushes: sendLoop calls `pop`
    again, the write in progress completes, a pending wake-up is taken, an armed timer that has not fired yet fires.
    `none`: the sender is parked, no wake-up is pending and the timer is spent — only another push could wake it. -/
def senderNext (i : Bool) (b : Buf) : Option Op :=
  match b.pc with
  | .idle => some (.pop i)
  | .writing => some (.wres i .ok)
  | _ => if b.sig then some (.wake i) else if !b.timeout then some (.timer i) else none

/-- effect of a sender-side op on the sender's own buffer -/
def bstep (v : Variant) (c : Cfg) (i : Bool) (b : Buf) : Op → Buf
  | .pop _ => (popStart c i b).1
  | .wres _ r => (writeDone c i b r).1
  | .wake _ => (wake c i b).1
  | .timer _ => timerFire v b
  | _ => b

def isTimer : Op → Bool
  | .timer _ => true
  | _ => false

/-- run the forced moves until nothing is pending (or fuel runs out, or the sender is stuck); count the timer periods -/
def drive (v : Variant) (c : Cfg) (i : Bool) : Nat → Buf → Buf × Nat
  | 0, b => (b, 0)
  | n + 1, b =>
    if (pendingOf b).isEmpty then (b, 0)
    else match senderNext i b with
      | none => (b, 0)
      | some op => ((drive v c i n (bstep v c i b op)).1, (drive v c i n (bstep v c i b op)).2 + (if isTimer op then 1 else 0))


/-- what "flushed within one timer period" means for a run of the forced moves from `b` -/
def Flushed (b : Buf) (r : Buf × Nat) : Prop :=
  pendingOf r.1 = [] ∧ r.2 ≤ 1 ∧ r.1.done = b.done ++ (pendingOf b).map (·, Fate.written) ∧ r.1.acc = b.acc

theorem flush_writing (c : Cfg) (i : Bool) (b : Buf) (hpc : b.pc = .writing) (hcl : b.closed = false) :
    Flushed b (drive .signal c i 6 b) := by
  obtain ⟨w, r, ri, closed, pc, timeout, sig, acc, done, nerr⟩ := b
  simp only at hpc hcl
  subst hpc hcl
  by_cases ht : 0 < thr c <;> by_cases hr : r.length ≤ ri <;> by_cases hw : w = [] <;> by_cases hwl : w.length < thr c <;>
    simp [Flushed, drive, pendingOf, senderNext, bstep, popStart, enterSwap1, enterSwap2, afterSwap1, afterSwap2, wake, writeDone,
      timerFire, signal, parked, mustWait, swapBody, batch, isTimer, ht, hr, hw, hwl]

theorem flush_idle (c : Cfg) (i : Bool) (b : Buf) (hpc : b.pc = .idle) (hcl : b.closed = false) :
    Flushed b (drive .signal c i 6 b) := by
  obtain ⟨w, r, ri, closed, pc, timeout, sig, acc, done, nerr⟩ := b
  simp only at hpc hcl
  subst hpc hcl
  by_cases ht : 0 < thr c <;> by_cases hr : r.length ≤ ri <;> by_cases hw : w = [] <;> by_cases hwl : w.length < thr c <;>
    simp [Flushed, drive, pendingOf, senderNext, bstep, popStart, enterSwap1, enterSwap2, afterSwap1, afterSwap2, wake, writeDone,
      timerFire, signal, parked, mustWait, swapBody, batch, isTimer, ht, hr, hw, hwl]

theorem flush_parked (c : Cfg) (i : Bool) (b : Buf) (hpc : parked b = true) (hcl : b.closed = false)
    (hex : Exhausted b) (hnl : NoLost c b) :
    Flushed b (drive .signal c i 6 b) := by
  obtain ⟨w, r, ri, closed, pc, timeout, sig, acc, done, nerr⟩ := b
  have hr := hex hpc
  simp only at hcl hr
  subst hcl
  simp only [NoLost, mustWait] at hnl
  by_cases ht : 0 < thr c <;> by_cases hw : w = [] <;> by_cases hwl : w.length < thr c <;>
    cases pc <;> cases sig <;> cases timeout <;>
    simp [Flushed, drive, pendingOf, senderNext, bstep, popStart, enterSwap1, enterSwap2, afterSwap1, afterSwap2, wake, writeDone,
      timerFire, signal, parked, mustWait, swapBody, batch, isTimer, ht, hr, hw, hwl] at hpc hnl ⊢

/-- **C31, bounded delay even if no further packets arrive (buffer level).** From any state of a sender's buffer that
    satisfies the invariants (every reachable state does, see `prompt_even_if_idle_partial`), if nobody pushes any more, the forced
    moves of the sender and of its batch timer — at most 6 of them, among which at most ONE expiry of the 1 s batch timer —
    hand every accepted packet that was still buffered to a successful upstream write, in order. -/
theorem flush_within_one_timeout (c : Cfg) (i : Bool) (b : Buf) (hinv : BInv c b) (hnl : NoLost c b)
    (hcl : b.closed = false) : Flushed b (drive .signal c i 6 b) := by
  cases hpc : b.pc with
  | idle => exact flush_idle c i b hpc hcl
  | writing => exact flush_writing c i b hpc hcl
  | swap1 => exact flush_parked c i b (by simp [parked, hpc]) hcl hinv.exh hnl
  | swap2 => exact flush_parked c i b (by simp [parked, hpc]) hcl hinv.exh hnl

/-- the same, for every reachable state of the pool (any history of pushes, sender steps, timers, … in any interleaving).
    `_partial`: the bound is "at most one batch-timer expiry and 6 sender moves"; that a timer period is 1 s of real time and
    sendLoop's reconnect loop are outside the model (see the comment at the end of this file). -/
theorem prompt_even_if_idle_partial (c : Cfg) (ops : List Op) (i : Bool)
    (hcl : (getB (run .signal c {} ops) i).closed = false) :
    Flushed (getB (run .signal c {} ops) i) (drive .signal c i 6 (getB (run .signal c {} ops) i)) :=
  flush_within_one_timeout c i _ (pinv_getB c _ (pinv_run .signal c ops {} (pinv_init c)) i)
    (pnolost_getB c _ (pnolost_run c ops {} (pnolost_init c)) i) hcl

/-- **C31, no lost wake-up.** In every reachable state of the fixed code a sender parked in `swap` has a pending wake-up or
    an armed timer: it is never left sleeping with nothing to wake it. -/
theorem never_stuck (c : Cfg) (ops : List Op) (i : Bool) :
    senderNext i (getB (run .signal c {} ops) i) ≠ none := by
  have hnl := pnolost_getB c _ (pnolost_run c ops {} (pnolost_init c)) i
  generalize getB (run .signal c {} ops) i = b at hnl
  obtain ⟨w, r, ri, closed, pc, timeout, sig, acc, done, nerr⟩ := b
  simp only [NoLost, mustWait] at hnl
  cases pc <;> cases sig <;> cases timeout <;> simp [senderNext, parked] at hnl ⊢

theorem getB_setB_same (s : Pool) (i : Bool) (b : Buf) : getB (setB s i b) i = b := by
  cases i <;> simp [getB, setB]

theorem getB_setB_other (s : Pool) (i : Bool) (b : Buf) : getB (setB s i b) (!i) = getB s (!i) := by
  cases i <;> simp [getB, setB]

/-- the forced moves used by `drive` are steps of the pool model that touch only the sender's own buffer -/
theorem senderNext_is_step (v : Variant) (c : Cfg) (s : Pool) (i : Bool) (op : Op) (h : senderNext i (getB s i) = some op) :
    getB (step v c s op).1 i = bstep v c i (getB s i) op ∧ getB (step v c s op).1 (!i) = getB s (!i) := by
  unfold senderNext at h
  split at h
  · cases h; simp [step, onBuf, bstep, getB_setB_same, getB_setB_other]
  · cases h; simp [step, onBuf, bstep, getB_setB_same, getB_setB_other]
  · split at h
    · cases h; simp [step, onBuf, bstep, getB_setB_same, getB_setB_other]
    · split at h
      · cases h; simp [step, onBuf, bstep, getB_setB_same, getB_setB_other]
      · cases h

/-! ### the pinned code (`Variant.silent`): the defect, as a checked counter-example -/

def c10 : Cfg := { bufLen := 10 }    -- threshold 2

/-- sender waits for a batch, one packet arrives (below the threshold), the wake-up finds the batch too small, the timer fires -/
def idleTail : List Op := [.pop false, .handle [7], .wake false, .timer false, .wake false]

/-- pinned code: the packet is accepted and counted as forwarded, the timer has fired, and the sender is parked with no
    pending wake-up and no timer left — `senderNext = none`, `drive` makes no progress: the packet is never written. -/
example :
    let s := run .silent c10 {} idleTail
    s.fwdTotal = 1 ∧ s.b0.w = [frame [7]] ∧ s.b0.pc = .swap1 ∧ s.b0.timeout = true ∧
    senderNext false s.b0 = none ∧ (drive .silent c10 false 6 s.b0).1.done = [] := by decide

/-- fixed code, same history: the timer's broadcast releases the sender and the packet is in the upstream write -/
example :
    let s := run .signal c10 {} idleTail
    s.b0.pc = .writing ∧ batch s.b0 = [frame [7]] ∧ s.b0.w = [] ∧
    (drive .signal c10 false 6 s.b0).1.done = [(frame [7], Fate.written)] := by decide

/-- non-vacuity of `flush_within_one_timeout`: a reachable state that needs the timer (parked, partial batch, no wake-up) -/
example :
    let b := (run .signal c10 {} [.pop false, .handle [7], .wake false]).b0
    BInv c10 b ∧ NoLost c10 b ∧ b.closed = false ∧ parked b = true ∧ b.sig = false ∧ pendingOf b = [frame [7]] ∧
    (drive .signal c10 false 6 b).2 = 1 :=
  ⟨(pinv_run .signal c10 _ {} (pinv_init c10)).1, (pnolost_run c10 _ {} (pnolost_init c10)).1, by decide, by decide, by decide,
    by decide, by decide⟩


/-! ### drops: only when both buffers are full, every one counted and accounted for -/

theorem bufPush_ok (c : Cfg) (b : Buf) (p : Pkt) : (bufPush c b p).2 = !(full c b) := by
  unfold bufPush; split <;> simp_all

theorem bufPush_acc (c : Cfg) (b : Buf) (p : Pkt) :
    (bufPush c b p).1.acc = if full c b then b.acc else b.acc ++ [p] := by
  unfold bufPush
  split
  · exact (signal_fields b).2.2.2.1
  · exact (signal_fields _).2.2.2.1

/-- **C31, "a packet is dropped only when both send buffers are full, and every drop is counted".** For an open pool, one
    `WritePacketLocked` either refuses the packet — exactly when both write buffers hold `bufferLen` packets; then
    `droppedPackets` and `wouldBlockBytes` (+ len) record it and nothing else changes in the accepted logs — or appends it
    to the acceptance log of exactly one sender, which had room, the secondary being used only when the current primary is full. -/
theorem drop_iff_both_full (c : Cfg) (s : Pool) (p : Pkt) (hc : s.closed = false) :
    ((push c s p).2 = [.dropped] ∧ full c s.b0 = true ∧ full c s.b1 = true ∧
        (push c s p).1.drop = s.drop + 1 ∧ (push c s p).1.wb = s.wb + p.length ∧ (push c s p).1.fwd = s.fwd ∧
        (push c s p).1.b0.acc = s.b0.acc ∧ (push c s p).1.b1.acc = s.b1.acc) ∨
    (∃ j, (push c s p).2 = [.accepted j] ∧ full c (getB s j) = false ∧ (j ≠ s.prim → full c (getB s s.prim) = true) ∧
        (getB (push c s p).1 j).acc = (getB s j).acc ++ [p] ∧ (getB (push c s p).1 (!j)).acc = (getB s (!j)).acc ∧
        (push c s p).1.fwd = s.fwd + 1 ∧ (push c s p).1.drop = s.drop ∧ (push c s p).1.wb = s.wb ∧ (push c s p).1.prim = j) := by
  unfold push
  simp only [hc, bufPush_ok]
  cases hp : s.prim <;> cases h0 : full c s.b0 <;> cases h1 : full c s.b1 <;>
    simp [getB, setB, setRecon, bufPush_acc, bufPush_ok, hp, h0, h1]

/-- bookkeeping that holds after every history -/
structure Acct (s : Pool) : Prop where
  pushes : s.nPush = s.fwdTotal + s.dropTotal
  accepted : s.fwdTotal = s.b0.acc.length + s.b1.acc.length
  bytes : s.dropBytes = s.wb + s.reported + s.lostRep

theorem acc_popStart (c : Cfg) (i : Bool) (b : Buf) : (popStart c i b).1.acc = b.acc := by
  simp only [popStart, enterSwap1, afterSwap1, swapBody]
  repeat' split
  all_goals simp

theorem acc_wake (c : Cfg) (i : Bool) (b : Buf) : (wake c i b).1.acc = b.acc := by
  simp only [wake, afterSwap1, afterSwap2, swapBody]
  repeat' split
  all_goals simp

theorem acc_writeDone (c : Cfg) (i : Bool) (b : Buf) (r : WRes) : (writeDone c i b r).1.acc = b.acc := by
  cases r <;> simp only [writeDone, enterSwap2, afterSwap2, swapBody]
  all_goals repeat' split
  all_goals simp

theorem acc_timerFire (v : Variant) (b : Buf) : (timerFire v b).acc = b.acc := by
  cases v <;> simp only [timerFire, signal]
  all_goals repeat' split
  all_goals simp

theorem acc_bufClose (b : Buf) : (bufClose b).acc = b.acc := (signal_fields _).2.2.2.1

theorem acct_push (c : Cfg) (s : Pool) (p : Pkt) (h : Acct s) : Acct (push c s p).1 := by
  obtain ⟨h1, h2, h3⟩ := h
  unfold push
  simp only [bufPush_ok]
  cases hcl : s.closed
  · cases hp : s.prim <;> cases h0 : full c s.b0 <;> cases h1' : full c s.b1 <;>
      refine ⟨?_, ?_, ?_⟩ <;> simp [getB, setB, setRecon, bufPush_acc, hp, h0, h1'] <;> omega
  · refine ⟨?_, ?_, ?_⟩ <;> simp <;> omega

theorem acct_setB (s : Pool) (i : Bool) (b : Buf) (h : Acct s) (hb : b.acc = (getB s i).acc) : Acct (setB s i b) := by
  obtain ⟨h1, h2, h3⟩ := h
  cases i <;> simp only [getB] at hb <;> refine ⟨?_, ?_, ?_⟩ <;> simp [setB, hb] <;> omega

theorem acct_step (v : Variant) (c : Cfg) (s : Pool) (op : Op) (h : Acct s) : Acct (step v c s op).1 := by
  cases op with
  | handle body =>
    simp only [step, handle]
    split
    · exact h
    · exact acct_push c s _ h
  | pop i => exact acct_setB s i _ h (acc_popStart c i _)
  | wres i r => exact acct_setB s i _ h (acc_writeDone c i _ r)
  | timer i => exact acct_setB s i _ h (acc_timerFire v _)
  | wake i => exact acct_setB s i _ h (acc_wake c i _)
  | close =>
    obtain ⟨h1, h2, h3⟩ := h
    exact ⟨h1, by simp only [step, acc_bufClose]; exact h2, h3⟩
  | stats => exact ⟨h.1, h.2, h.3⟩
  | report i ok =>
    obtain ⟨h1, h2, h3⟩ := h
    simp only [step]
    split
    · exact ⟨h1, h2, h3⟩
    · split
      · exact ⟨h1, h2, h3⟩
      · split
        · exact ⟨h1, h2, by simp; omega⟩
        · exact ⟨h1, h2, by simp; omega⟩
  | takeRecon i => cases i <;> exact ⟨h.1, h.2, h.3⟩

/-- **C31, "every drop is counted and reported upstream".** After any history: every non-empty packet handed to the
    balancer was either accepted by exactly one sender or counted as dropped; and the bytes of all packets refused because
    both buffers were full are exactly: still in `wouldBlockBytes` (sent with the primary sender's next report) + already
    announced upstream by report packets + announced by report packets whose write failed (each counted in `writeErrors`).
    `_partial`: that the pending part is eventually sent is liveness of sendLoop (it reports after every `pop` that returns,
    i.e. at least once per timer period by `prompt_even_if_idle_partial`); checked by the live tier, not proved. -/
theorem drops_counted_and_reported_partial (v : Variant) (c : Cfg) (ops : List Op) : Acct (run v c {} ops) := by
  suffices h : ∀ s, Acct s → Acct (run v c s ops) from h {} ⟨rfl, rfl, rfl⟩
  induction ops with
  | nil => intro s h; exact h
  | cons op ops ih => intro s h; exact ih _ (acct_step v c s op h)

/-- a failed report write is the only way a drop can go unannounced -/
theorem report_never_lost_if_conn_ok (v : Variant) (c : Cfg) (ops : List Op) (h : ∀ i, Op.report i false ∉ ops) :
    (run v c {} ops).lostRep = 0 := by
  suffices hs : ∀ s : Pool, s.lostRep = 0 → (run v c s ops).lostRep = 0 from hs {} rfl
  induction ops with
  | nil => intro s hs; exact hs
  | cons op ops ih =>
    intro s hs
    apply ih (fun i hi => h i (List.mem_cons_of_mem _ hi))
    cases op with
    | handle body =>
      simp only [step, handle, push]
      repeat' split
      all_goals simp [setB, setRecon, hs]
      all_goals (repeat' split) <;> simp [hs]
    | pop i => cases i <;> simp [step, onBuf, setB, hs]
    | wres i r => cases i <;> simp [step, onBuf, setB, hs]
    | timer i => cases i <;> simp [step, setB, hs]
    | wake i => cases i <;> simp [step, onBuf, setB, hs]
    | close => simp [step, hs]
    | stats => simp [step, hs]
    | report i ok =>
      cases ok
      · exact absurd List.mem_cons_self (h i)
      · simp only [step]; repeat' split
        all_goals simp_all
    | takeRecon i => cases i <;> simp [step, clearRecon, hs]


/-! ### byte-for-byte with its length frame -/

def le32dec (a b c d : UInt8) : Nat := a.toNat + 256 * b.toNat + 65536 * c.toNat + 16777216 * d.toNat

/-- what the upstream receiver does with the byte stream of one connection: 4-byte little-endian length, then the body -/
def deframe : Nat → List UInt8 → Option (List (List UInt8))
  | _, [] => some []
  | 0, _ :: _ => none
  | fuel + 1, a :: b :: c :: d :: rest =>
    if rest.length < le32dec a b c d then none
    else (deframe fuel (rest.drop (le32dec a b c d))).map (rest.take (le32dec a b c d) :: ·)
  | _ + 1, _ => none

theorem le32dec_le32 (n : Nat) (h : n < 4294967296) :
    le32dec (UInt8.ofNat (n % 256)) (UInt8.ofNat (n / 256 % 256)) (UInt8.ofNat (n / 65536 % 256)) (UInt8.ofNat (n / 16777216 % 256)) = n := by
  simp only [le32dec, UInt8.toNat_ofNat']
  omega

/-- **C31, "byte-for-byte with its length frame".** The concatenation of the frames of any list of packets (bodies shorter
    than 2^32) parses back, frame by frame, to exactly those bodies in the same order: framing loses and merges nothing. -/
theorem frames_parse_back (bodies : List (List UInt8)) (h : ∀ b ∈ bodies, b.length < 4294967296) :
    deframe bodies.length (bodies.map frame).flatten = some bodies := by
  induction bodies with
  | nil => simp [deframe]
  | cons b bs ih =>
    have hb := h b (List.mem_cons_self)
    have ih' := ih (fun x hx => h x (List.mem_cons_of_mem _ hx))
    simp only [List.map_cons, List.flatten_cons, frame, le32, List.cons_append, List.nil_append, List.length_cons, deframe,
      le32dec_le32 b.length hb]
    simp [List.take_left', List.drop_left', ih']

/-- a framed non-empty body, as built by `HandleMetricsBatchRaw` -/
def IsFrame (p : Pkt) : Prop := ∃ body : List UInt8, body ≠ [] ∧ p = frame body

def AllFrames (s : Pool) : Prop := (∀ p ∈ s.b0.acc, IsFrame p) ∧ (∀ p ∈ s.b1.acc, IsFrame p)

theorem allframes_setB (s : Pool) (i : Bool) (b : Buf) (h : AllFrames s) (hb : b.acc = (getB s i).acc) : AllFrames (setB s i b) := by
  obtain ⟨h0, h1⟩ := h
  cases i
  · simp only [getB, Bool.false_eq_true, if_false] at hb
    exact ⟨by simp only [setB, Bool.false_eq_true, if_false, hb]; exact h0, by simp only [setB, Bool.false_eq_true, if_false]; exact h1⟩
  · simp only [getB, if_true] at hb
    exact ⟨by simp only [setB, if_true]; exact h0, by simp only [setB, if_true, hb]; exact h1⟩

theorem allframes_push (c : Cfg) (s : Pool) (p : Pkt) (hp : IsFrame p) (h : AllFrames s) : AllFrames (push c s p).1 := by
  obtain ⟨h0, h1⟩ := h
  have k0 : ∀ q ∈ s.b0.acc ++ [p], IsFrame q := by
    intro q hq; rcases List.mem_append.mp hq with hq | hq
    · exact h0 q hq
    · simp at hq; subst hq; exact hp
  have k1 : ∀ q ∈ s.b1.acc ++ [p], IsFrame q := by
    intro q hq; rcases List.mem_append.mp hq with hq | hq
    · exact h1 q hq
    · simp at hq; subst hq; exact hp
  unfold push
  simp only [bufPush_ok]
  cases hcl : s.closed
  · cases hpr : s.prim <;> cases f0 : full c s.b0 <;> cases f1 : full c s.b1 <;>
      simp only [AllFrames, getB, setB, setRecon, bufPush_acc, hpr, f0, f1, Bool.not_true, Bool.not_false, if_true, if_false,
        Bool.false_eq_true] <;> first | exact ⟨h0, h1⟩ | exact ⟨k0, h1⟩ | exact ⟨h0, k1⟩
  · exact ⟨h0, h1⟩

theorem allframes_step (v : Variant) (c : Cfg) (s : Pool) (op : Op) (h : AllFrames s) : AllFrames (step v c s op).1 := by
  cases op with
  | handle body =>
    simp only [step, handle]
    split
    · exact h
    · rename_i hne
      exact allframes_push c s _ ⟨body, by intro hb; simp [hb] at hne, rfl⟩ h
  | pop i => exact allframes_setB s i _ h (acc_popStart c i _)
  | wres i r => exact allframes_setB s i _ h (acc_writeDone c i _ r)
  | timer i => exact allframes_setB s i _ h (acc_timerFire v _)
  | wake i => exact allframes_setB s i _ h (acc_wake c i _)
  | close => simp only [step, AllFrames, acc_bufClose]; exact h
  | stats => exact h
  | report i ok =>
    simp only [step]
    repeat' split
    all_goals exact h
  | takeRecon i => cases i <;> exact h

/-- everything a sender ever accepts (hence everything it writes upstream, by `fifo_per_sender`) is the 4-byte
    little-endian length of a non-empty packet handed to `HandleMetricsBatchRaw`, followed by that packet unchanged -/
theorem accepted_are_frames (v : Variant) (c : Cfg) (ops : List Op) : AllFrames (run v c {} ops) := by
  suffices h : ∀ s, AllFrames s → AllFrames (run v c s ops) from h {} ⟨by simp, by simp⟩
  induction ops with
  | nil => intro s h; exact h
  | cons op ops ih => intro s h; exact ih _ (allframes_step v c s op h)

/-! ### non-vacuity of the drop theorems -/

def c2 : Cfg := { bufLen := 2 }

/-- five packets into an open pool with `bufferLen = 2` and senders that never pop: 2 + 2 accepted (with a failover and a
    reconnect request to the old primary), the fifth dropped, counted, 5 bytes (4 + 1) in `wouldBlockBytes`; a report
    announces them -/
example :
    let s := run .signal c2 {} [.handle [1], .handle [2], .handle [3], .handle [4], .handle [5]]
    s.closed = false ∧ full c2 s.b0 = true ∧ full c2 s.b1 = true ∧ s.prim = true ∧ s.recon0 = true ∧
    s.fwd = 4 ∧ s.drop = 1 ∧ s.wb = 5 ∧ s.dropBytes = 5 ∧
    (step .signal c2 s (.report false true)).2 = [.report 5] ∧ (step .signal c2 s (.report false true)).1.wb = 0 := by decide

example : deframe 2 ((([[1, 2, 3], [9]] : List (List UInt8)).map frame).flatten) = some [[1, 2, 3], [9]] := by decide

/-- a write error with one packet left to resend: the first is written, the second skipped (and counted), the third offered again -/
example :
    let s := run .signal c10 {} [.handle [1], .handle [2], .handle [3], .pop false, .wres false (.err 1), .pop false]
    s.b0.done = [(frame [1], Fate.written), (frame [2], Fate.skipped)] ∧ s.b0.nerr = 1 ∧ s.b0.pc = .writing ∧
    batch s.b0 = [frame [3]] := by decide


/-- a failed write makes progress too: exactly one packet (the one being written) is given up, `n` are offered again by
    the next `pop` without waiting, and the error is counted — so a finite number of upstream failures only delays the rest -/
theorem write_error_skips_exactly_one (c : Cfg) (i : Bool) (b : Buf) (n : Nat) (hpc : b.pc = .writing)
    (hn : n < (batch b).length) :
    (pendingOf (writeDone c i b (.err n)).1).length = n + b.w.length ∧ (writeDone c i b (.err n)).1.pc = .idle ∧
    (writeDone c i b (.err n)).1.nerr = b.nerr + 1 ∧ (writeDone c i b (.err n)).1.w = b.w := by
  have hl := batch_length b
  have : ¬ ((batch b).length ≤ n) := by omega
  simp only [writeDone, hpc, this, pendingOf, List.length_append, List.length_drop]
  simp
  omega

example :
    let b := (run .signal c10 {} [.handle [1], .handle [2], .handle [3], .pop false]).b0
    b.pc = .writing ∧ 1 < (batch b).length := by decide

example : (run .signal c2 {} [.handle [1], .handle [2], .handle [3], .handle [4], .handle [5], .report false true]).lostRep = 0 ∧
    (∀ i, Op.report i false ∉ [Op.handle [1], .handle [2], .handle [3], .handle [4], .handle [5], .report false true]) := by decide

/-- what the write callback of `sendLoop` returns on an error after `written` packets of the batch were consumed
    completely by `net.Buffers.WriteTo`: `len(bufs) - 1` with `len(bufs) = batchLen - written` -/
def callbackRet (batchLen written : Nat) : Nat := batchLen - written - 1

/-- **the contract between sendLoop's callback and `pop` (`b.ri = b.rm - n`)**: with the callback's return value the
    `written` packets count as written, exactly the packet the write failed on is given up, and the next `pop` offers
    exactly the packets after it, in order — nothing is resent, nothing else is skipped. (A callback returning anything
    else, e.g. the number of packets done, breaks this: seeded bug C31-2; the live tier catches it as e2e-lost / e2e-duplicate.) -/
theorem callback_contract (c : Cfg) (i : Bool) (b : Buf) (written : Nat) (hpc : b.pc = .writing)
    (hw : written < (batch b).length) :
    (writeDone c i b (.err (callbackRet (batch b).length written))).1.done =
        b.done ++ ((batch b).take written).map (·, Fate.written) ++ (((batch b).drop written).take 1).map (·, Fate.skipped) ∧
    batch (writeDone c i b (.err (callbackRet (batch b).length written))).1 = (batch b).drop (written + 1) := by
  have hl := batch_length b
  have h1 : ¬ ((batch b).length ≤ callbackRet (batch b).length written) := by unfold callbackRet; omega
  have h2 : (batch b).length - callbackRet (batch b).length written - 1 = written := by unfold callbackRet; omega
  simp only [writeDone, hpc, h1, h2]
  refine ⟨by simp, ?_⟩
  simp only [batch, List.drop_drop]
  simp
  congr 1
  unfold callbackRet
  simp only [batch, List.length_drop] at hw ⊢
  omega

example :
    let b := (run .signal c10 {} [.handle [1], .handle [2], .handle [3], .pop false]).b0
    b.pc = .writing ∧ 0 < (batch b).length ∧ callbackRet (batch b).length 0 = 2 := by decide

/-
  Full statement of C31 and what is NOT proved here (kept as a comment; the check is labelled partial):

    "… within a bounded delay (about one second plus reconnection time) …"
  Proved: after the last push, at most one expiry of the batch timer and at most 6 forced moves of the sender hand every
  buffered packet to a successful write (`prompt_even_if_idle_partial`), a failed write gives up exactly one packet and the rest is
  offered again immediately (`write_error_skips_exactly_one`), and no wake-up is ever lost (`never_stuck`).
  Not proved: the real-time length of a timer period (time.AfterFunc, 1 s) and of a write; sendLoop's reconnect loop
  (ReconnectDelay, DialTimeout, write deadlines) — these are measured by the live tier of the harness with a 10 s budget;
  "reported upstream" as a liveness statement (the report is sent by sendLoop after `pop` returns; `drops_counted_and_reported_partial`
  proves the bytes are never lost from the books, the live tier checks the report arrives).
-/

end SH.C31
