/-
  C31 — The balancer forwards every accepted packet upstream promptly and in order.

  "Every packet the balancer accepts is written upstream byte-for-byte with its length frame, in acceptance order per
   connection, within a bounded delay (about one second plus reconnection time) even if no further packets arrive; a
   packet is dropped only when both send buffers are full, and every drop is counted and reported upstream."

  Model: SH.Model.Egress. A history is an arbitrary `List Op` (pushes through the handler, sender steps, wake-ups, timer
  callbacks, Close, Stats, reports, in any interleaving of critical sections); `run v c {} ops` is the state after it.
  `Variant.signal` = the code with fixes/C31-swap-timeout-wakes-sender.diff, `Variant.silent` = the pinned code.
-/
import SH.Lemmas.Egress

set_option linter.unusedSimpArgs false

namespace SH.C31
open SH.Egress

/-- packets handed over completely to a successful write, in the order the sender wrote them -/
def writtenOf (b : Buf) : List Pkt := (b.done.filter (fun d => d.2 == Fate.written)).map (·.1)

/-- **C31, order / byte-for-byte / nothing lost inside the balancer.** After any history, for each sender: the packets
    it accepted, in acceptance order, are exactly the packets it is finished with (written, or skipped because the write
    callback failed while sending them — one per failed write) followed by the rest of its read batch followed by its
    write buffer. Nothing is duplicated, reordered, altered or forgotten; the buffer never exceeds `bufferLen`. -/
theorem fifo_per_sender (v : Variant) (c : Cfg) (ops : List Op) (i : Bool) :
    let b := getB (run v c {} ops) i
    b.acc = b.done.map (·.1) ++ (b.r.drop b.ri ++ b.w) ∧ skippedCount b.done = b.nerr ∧ b.w.length ≤ c.bufLen := by
  have h := pinv_getB c _ (pinv_run v c ops {} (pinv_init c)) i
  exact ⟨h.data.fifo, h.data.nerr, h.data.wlen⟩

/-- … hence what went upstream on the connections of one sender is a subsequence of what it accepted, in acceptance order. -/
theorem written_in_acceptance_order (v : Variant) (c : Cfg) (ops : List Op) (i : Bool) :
    List.Sublist (writtenOf (getB (run v c {} ops) i)) (getB (run v c {} ops) i).acc := by
  have h := (fifo_per_sender v c ops i).1
  rw [h]
  exact List.Sublist.trans (List.Sublist.map _ (List.filter_sublist)) (List.sublist_append_left _ _)

/-- **C31, bounded delay even if no further packets arrive (buffer level).** From any state of a sender's buffer that
    satisfies the invariants (every reachable state does, see `prompt_even_if_idle_partial`), if nobody pushes any more, the forced
    moves of the sender and of its batch timer — at most 6 of them, among which at most ONE expiry of the 1 s batch timer —
    hand every accepted packet that was still buffered to a successful upstream write, in order. -/
theorem flush_within_one_timeout (c : Cfg) (i : Bool) (b : Buf) (hinv : BInv c b) (hnl : NoLost c b)
    (hcl : b.closed = false) : Flushed b (drive .signal c i 6 b) := by
  cases hpc : b.pc with
  | idle => exact flush_idle c i b hpc hcl
  | writing => exact flush_writing c i b hpc hcl
  | swap1 => exact flush_parked c i b (by simp [parked, hpc]) hcl hinv.exh hnl
  | swap2 => exact flush_parked c i b (by simp [parked, hpc]) hcl hinv.exh hnl

/-- the same, for every reachable state of the pool (any history of pushes, sender steps, timers, … in any interleaving).
    `_partial`: the bound is "at most one batch-timer expiry and 6 sender moves"; that a timer period is 1 s of real time and
    sendLoop's reconnect loop are outside the model (see the comment at the end of this file). -/
theorem prompt_even_if_idle_partial (c : Cfg) (ops : List Op) (i : Bool)
    (hcl : (getB (run .signal c {} ops) i).closed = false) :
    Flushed (getB (run .signal c {} ops) i) (drive .signal c i 6 (getB (run .signal c {} ops) i)) :=
  flush_within_one_timeout c i _ (pinv_getB c _ (pinv_run .signal c ops {} (pinv_init c)) i)
    (pnolost_getB c _ (pnolost_run c ops {} (pnolost_init c)) i) hcl

/-- **C31, no lost wake-up.** In every reachable state of the fixed code a sender parked in `swap` has a pending wake-up or
    an armed timer: it is never left sleeping with nothing to wake it. -/
theorem never_stuck (c : Cfg) (ops : List Op) (i : Bool) :
    senderNext i (getB (run .signal c {} ops) i) ≠ none := by
  have hnl := pnolost_getB c _ (pnolost_run c ops {} (pnolost_init c)) i
  generalize getB (run .signal c {} ops) i = b at hnl
  obtain ⟨w, r, ri, closed, pc, timeout, sig, acc, done, nerr⟩ := b
  simp only [NoLost, mustWait] at hnl
  cases pc <;> cases sig <;> cases timeout <;> simp [senderNext, parked] at hnl ⊢

/-- the forced moves used by `drive` are steps of the pool model that touch only the sender's own buffer -/
theorem senderNext_is_step (v : Variant) (c : Cfg) (s : Pool) (i : Bool) (op : Op) (h : senderNext i (getB s i) = some op) :
    getB (step v c s op).1 i = bstep v c i (getB s i) op ∧ getB (step v c s op).1 (!i) = getB s (!i) := by
  unfold senderNext at h
  split at h
  · cases h; simp [step, onBuf, bstep, getB_setB_same, getB_setB_other]
  · cases h; simp [step, onBuf, bstep, getB_setB_same, getB_setB_other]
  · split at h
    · cases h; simp [step, onBuf, bstep, getB_setB_same, getB_setB_other]
    · split at h
      · cases h; simp [step, onBuf, bstep, getB_setB_same, getB_setB_other]
      · cases h

/-! ### the pinned code (`Variant.silent`): the defect, as a checked counter-example -/

def c10 : Cfg := { bufLen := 10 }    -- threshold 2

/-- sender waits for a batch, one packet arrives (below the threshold), the wake-up finds the batch too small, the timer fires -/
def idleTail : List Op := [.pop false, .handle [7], .wake false, .timer false, .wake false]

/-- pinned code: the packet is accepted and counted as forwarded, the timer has fired, and the sender is parked with no
    pending wake-up and no timer left — `senderNext = none`, `drive` makes no progress: the packet is never written. -/
example :
    let s := run .silent c10 {} idleTail
    s.fwdTotal = 1 ∧ s.b0.w = [frame [7]] ∧ s.b0.pc = .swap1 ∧ s.b0.timeout = true ∧
    senderNext false s.b0 = none ∧ (drive .silent c10 false 6 s.b0).1.done = [] := by decide

/-- fixed code, same history: the timer's broadcast releases the sender and the packet is in the upstream write -/
example :
    let s := run .signal c10 {} idleTail
    s.b0.pc = .writing ∧ batch s.b0 = [frame [7]] ∧ s.b0.w = [] ∧
    (drive .signal c10 false 6 s.b0).1.done = [(frame [7], Fate.written)] := by decide

/-- non-vacuity of `flush_within_one_timeout`: a reachable state that needs the timer (parked, partial batch, no wake-up) -/
example :
    let b := (run .signal c10 {} [.pop false, .handle [7], .wake false]).b0
    BInv c10 b ∧ NoLost c10 b ∧ b.closed = false ∧ parked b = true ∧ b.sig = false ∧ pendingOf b = [frame [7]] ∧
    (drive .signal c10 false 6 b).2 = 1 :=
  ⟨(pinv_run .signal c10 _ {} (pinv_init c10)).1, (pnolost_run c10 _ {} (pnolost_init c10)).1, by decide, by decide, by decide,
    by decide, by decide⟩


/-! ### drops: only when both buffers are full, every one counted and accounted for -/

/-- **C31, "a packet is dropped only when both send buffers are full, and every drop is counted".** For an open pool, one
    `WritePacketLocked` either refuses the packet — exactly when both write buffers hold `bufferLen` packets; then
    `droppedPackets` and `wouldBlockBytes` (+ len) record it and nothing else changes in the accepted logs — or appends it
    to the acceptance log of exactly one sender, which had room, the secondary being used only when the current primary is full. -/
theorem drop_iff_both_full (c : Cfg) (s : Pool) (p : Pkt) (hc : s.closed = false) :
    ((push c s p).2 = [.dropped] ∧ full c s.b0 = true ∧ full c s.b1 = true ∧
        (push c s p).1.drop = s.drop + 1 ∧ (push c s p).1.wb = s.wb + p.length ∧ (push c s p).1.fwd = s.fwd ∧
        (push c s p).1.b0.acc = s.b0.acc ∧ (push c s p).1.b1.acc = s.b1.acc) ∨
    (∃ j, (push c s p).2 = [.accepted j] ∧ full c (getB s j) = false ∧ (j ≠ s.prim → full c (getB s s.prim) = true) ∧
        (getB (push c s p).1 j).acc = (getB s j).acc ++ [p] ∧ (getB (push c s p).1 (!j)).acc = (getB s (!j)).acc ∧
        (push c s p).1.fwd = s.fwd + 1 ∧ (push c s p).1.drop = s.drop ∧ (push c s p).1.wb = s.wb ∧ (push c s p).1.prim = j) := by
  unfold push
  simp only [hc, bufPush_ok]
  cases hp : s.prim <;> cases h0 : full c s.b0 <;> cases h1 : full c s.b1 <;>
    simp [getB, setB, setRecon, bufPush_acc, bufPush_ok, hp, h0, h1]

/-- **C31, "every drop is counted and reported upstream".** After any history: every non-empty packet handed to the
    balancer was either accepted by exactly one sender or counted as dropped; and the bytes of all packets refused because
    both buffers were full are exactly: still in `wouldBlockBytes` (sent with the primary sender's next report) + already
    announced upstream by report packets + announced by report packets whose write failed (each counted in `writeErrors`).
    `_partial`: that the pending part is eventually sent is liveness of sendLoop (it reports after every `pop` that returns,
    i.e. at least once per timer period by `prompt_even_if_idle_partial`); checked by the live tier, not proved. -/
theorem drops_counted_and_reported_partial (v : Variant) (c : Cfg) (ops : List Op) : Acct (run v c {} ops) := by
  suffices h : ∀ s, Acct s → Acct (run v c s ops) from h {} ⟨rfl, rfl, rfl⟩
  induction ops with
  | nil => intro s h; exact h
  | cons op ops ih => intro s h; exact ih _ (acct_step v c s op h)

/-- a failed report write is the only way a drop can go unannounced -/
theorem report_never_lost_if_conn_ok (v : Variant) (c : Cfg) (ops : List Op) (h : ∀ i, Op.report i false ∉ ops) :
    (run v c {} ops).lostRep = 0 := by
  suffices hs : ∀ s : Pool, s.lostRep = 0 → (run v c s ops).lostRep = 0 from hs {} rfl
  induction ops with
  | nil => intro s hs; exact hs
  | cons op ops ih =>
    intro s hs
    apply ih (fun i hi => h i (List.mem_cons_of_mem _ hi))
    cases op with
    | handle body =>
      simp only [step, handle, push]
      repeat' split
      all_goals simp [setB, setRecon, hs]
      all_goals (repeat' split) <;> simp [hs]
    | pop i => cases i <;> simp [step, onBuf, setB, hs]
    | wres i r => cases i <;> simp [step, onBuf, setB, hs]
    | timer i => cases i <;> simp [step, setB, hs]
    | wake i => cases i <;> simp [step, onBuf, setB, hs]
    | close => simp [step, hs]
    | stats => simp [step, hs]
    | report i ok =>
      cases ok
      · exact absurd List.mem_cons_self (h i)
      · simp only [step]; repeat' split
        all_goals simp_all
    | takeRecon i => cases i <;> simp [step, clearRecon, hs]


/-! ### byte-for-byte with its length frame -/

def le32dec (a b c d : UInt8) : Nat := a.toNat + 256 * b.toNat + 65536 * c.toNat + 16777216 * d.toNat

/-- what the upstream receiver does with the byte stream of one connection: 4-byte little-endian length, then the body -/
def deframe : Nat → List UInt8 → Option (List (List UInt8))
  | _, [] => some []
  | 0, _ :: _ => none
  | fuel + 1, a :: b :: c :: d :: rest =>
    if rest.length < le32dec a b c d then none
    else (deframe fuel (rest.drop (le32dec a b c d))).map (rest.take (le32dec a b c d) :: ·)
  | _ + 1, _ => none

theorem le32dec_le32 (n : Nat) (h : n < 4294967296) :
    le32dec (UInt8.ofNat (n % 256)) (UInt8.ofNat (n / 256 % 256)) (UInt8.ofNat (n / 65536 % 256)) (UInt8.ofNat (n / 16777216 % 256)) = n := by
  simp only [le32dec, UInt8.toNat_ofNat']
  omega

/-- **C31, "byte-for-byte with its length frame".** The concatenation of the frames of any list of packets (bodies shorter
    than 2^32) parses back, frame by frame, to exactly those bodies in the same order: framing loses and merges nothing. -/
theorem frames_parse_back (bodies : List (List UInt8)) (h : ∀ b ∈ bodies, b.length < 4294967296) :
    deframe bodies.length (bodies.map frame).flatten = some bodies := by
  induction bodies with
  | nil => simp [deframe]
  | cons b bs ih =>
    have hb := h b (List.mem_cons_self)
    have ih' := ih (fun x hx => h x (List.mem_cons_of_mem _ hx))
    simp only [List.map_cons, List.flatten_cons, frame, le32, List.cons_append, List.nil_append, List.length_cons, deframe,
      le32dec_le32 b.length hb]
    simp [List.take_left', List.drop_left', ih']

/-- everything a sender ever accepts (hence everything it writes upstream, by `fifo_per_sender`) is the 4-byte
    little-endian length of a non-empty packet handed to `HandleMetricsBatchRaw`, followed by that packet unchanged -/
theorem accepted_are_frames (v : Variant) (c : Cfg) (ops : List Op) : AllFrames (run v c {} ops) := by
  suffices h : ∀ s, AllFrames s → AllFrames (run v c s ops) from h {} ⟨by simp, by simp⟩
  induction ops with
  | nil => intro s h; exact h
  | cons op ops ih => intro s h; exact ih _ (allframes_step v c s op h)

/-! ### non-vacuity of the drop theorems -/

def c2 : Cfg := { bufLen := 2 }

/-- five packets into an open pool with `bufferLen = 2` and senders that never pop: 2 + 2 accepted (with a failover and a
    reconnect request to the old primary), the fifth dropped, counted, 5 bytes (4 + 1) in `wouldBlockBytes`; a report
    announces them -/
example :
    let s := run .signal c2 {} [.handle [1], .handle [2], .handle [3], .handle [4], .handle [5]]
    s.closed = false ∧ full c2 s.b0 = true ∧ full c2 s.b1 = true ∧ s.prim = true ∧ s.recon0 = true ∧
    s.fwd = 4 ∧ s.drop = 1 ∧ s.wb = 5 ∧ s.dropBytes = 5 ∧
    (step .signal c2 s (.report false true)).2 = [.report 5] ∧ (step .signal c2 s (.report false true)).1.wb = 0 := by decide

example : deframe 2 ((([[1, 2, 3], [9]] : List (List UInt8)).map frame).flatten) = some [[1, 2, 3], [9]] := by decide

/-- a write error with one packet left to resend: the first is written, the second skipped (and counted), the third offered again -/
example :
    let s := run .signal c10 {} [.handle [1], .handle [2], .handle [3], .pop false, .wres false (.err 1), .pop false]
    s.b0.done = [(frame [1], Fate.written), (frame [2], Fate.skipped)] ∧ s.b0.nerr = 1 ∧ s.b0.pc = .writing ∧
    batch s.b0 = [frame [3]] := by decide


/-- a failed write makes progress too: exactly one packet (the one being written) is given up, `n` are offered again by
    the next `pop` without waiting, and the error is counted — so a finite number of upstream failures only delays the rest -/
theorem write_error_skips_exactly_one (c : Cfg) (i : Bool) (b : Buf) (n : Nat) (hpc : b.pc = .writing)
    (hn : n < (batch b).length) :
    (pendingOf (writeDone c i b (.err n)).1).length = n + b.w.length ∧ (writeDone c i b (.err n)).1.pc = .idle ∧
    (writeDone c i b (.err n)).1.nerr = b.nerr + 1 ∧ (writeDone c i b (.err n)).1.w = b.w := by
  have hl := batch_length b
  have : ¬ ((batch b).length ≤ n) := by omega
  simp only [writeDone, hpc, this, pendingOf, List.length_append, List.length_drop]
  simp
  omega

example :
    let b := (run .signal c10 {} [.handle [1], .handle [2], .handle [3], .pop false]).b0
    b.pc = .writing ∧ 1 < (batch b).length := by decide

example : (run .signal c2 {} [.handle [1], .handle [2], .handle [3], .handle [4], .handle [5], .report false true]).lostRep = 0 ∧
    (∀ i, Op.report i false ∉ [Op.handle [1], .handle [2], .handle [3], .handle [4], .handle [5], .report false true]) := by decide

/-- what the write callback of `sendLoop` returns on an error after `written` packets of the batch were consumed
    completely by `net.Buffers.WriteTo`: `len(bufs) - 1` with `len(bufs) = batchLen - written` -/
def callbackRet (batchLen written : Nat) : Nat := batchLen - written - 1

/-- **the contract between sendLoop's callback and `pop` (`b.ri = b.rm - n`)**: with the callback's return value the
    `written` packets count as written, exactly the packet the write failed on is given up, and the next `pop` offers
    exactly the packets after it, in order — nothing is resent, nothing else is skipped. (A callback returning anything
    else, e.g. the number of packets done, breaks this: seeded bug C31-2; the live tier catches it as e2e-lost / e2e-duplicate.) -/
theorem callback_contract (c : Cfg) (i : Bool) (b : Buf) (written : Nat) (hpc : b.pc = .writing)
    (hw : written < (batch b).length) :
    (writeDone c i b (.err (callbackRet (batch b).length written))).1.done =
        b.done ++ ((batch b).take written).map (·, Fate.written) ++ (((batch b).drop written).take 1).map (·, Fate.skipped) ∧
    batch (writeDone c i b (.err (callbackRet (batch b).length written))).1 = (batch b).drop (written + 1) := by
  have hl := batch_length b
  have h1 : ¬ ((batch b).length ≤ callbackRet (batch b).length written) := by unfold callbackRet; omega
  have h2 : (batch b).length - callbackRet (batch b).length written - 1 = written := by unfold callbackRet; omega
  simp only [writeDone, hpc, h1, h2]
  refine ⟨by simp, ?_⟩
  simp only [batch, List.drop_drop]
  simp
  congr 1
  unfold callbackRet
  simp only [batch, List.length_drop] at hw ⊢
  omega

example :
    let b := (run .signal c10 {} [.handle [1], .handle [2], .handle [3], .pop false]).b0
    b.pc = .writing ∧ 0 < (batch b).length ∧ callbackRet (batch b).length 0 = 2 := by decide

/-! ### second round: pool-level order across failover, eventual drop report, write deadline -/

/-- **C31 at pool level: acceptance order across failover.** `accAll` is the order in which `WritePacketLocked` accepted
    packets, each tagged with the sender that took it. After any history (any number of failovers and pointer swaps):
    every accepted packet was taken by exactly one sender (the tags partition the log: its length is the sum of the two
    senders' logs, and each sender's log is exactly the sub-log carrying its tag, in the same order); hence what each
    sender has written upstream (`writtenOf`, one connection at a time) is a subsequence of the pool's acceptance order. -/
theorem pool_fifo_across_failover (v : Variant) (c : Cfg) (ops : List Op) :
    let s := run v c {} ops
    projTo s.accAll false = s.b0.acc ∧ projTo s.accAll true = s.b1.acc ∧
    s.accAll.length = s.b0.acc.length + s.b1.acc.length ∧
    (∀ i, List.Sublist (writtenOf (getB s i)) (projTo s.accAll i)) ∧
    (∀ i, List.Sublist (writtenOf (getB s i)) (s.accAll.map (·.1))) := by
  have h := proj_run v c ops {} ⟨rfl, rfl⟩
  have hl := projTo_lengths (run v c {} ops).accAll
  have hw : ∀ i, List.Sublist (writtenOf (getB (run v c {} ops) i)) (projTo (run v c {} ops).accAll i) := by
    intro i
    have := written_in_acceptance_order v c ops i
    cases i
    · simpa [getB, h.1] using this
    · simpa [getB, h.2] using this
  refine ⟨h.1, h.2, ?_, hw, fun i => (hw i).trans (projTo_sublist _ i)⟩
  rw [hl, h.1, h.2]

/-- **failover.** A packet goes to the sender `*secPtr` only when the buffer of `*primPtr` is full; then the old primary
    gets a reconnect request (its upstream is the slow one), the pointers swap, and the packet is logged once, for the new
    primary — the old primary's acceptance log is untouched. -/
theorem failover_spec (c : Cfg) (s : Pool) (p : Pkt) (hc : s.closed = false)
    (h : (push c s p).2 = [.accepted (!s.prim)]) :
    full c (getB s s.prim) = true ∧ full c (getB s (!s.prim)) = false ∧
    getRecon (push c s p).1 s.prim = true ∧ (push c s p).1.prim = !s.prim ∧
    (push c s p).1.accAll = s.accAll ++ [(p, !s.prim)] ∧
    (getB (push c s p).1 s.prim).acc = (getB s s.prim).acc := by
  revert h
  unfold push
  simp only [hc, bufPush_ok]
  cases hp : s.prim <;> cases h0 : full c s.b0 <;> cases h1 : full c s.b1 <;>
    simp [getB, setB, setRecon, getRecon, bufPush_acc, bufPush_ok, hp, h0, h1]

/-- non-vacuity: bufferLen 2, four packets without any pop — two go to the primary, the third fails over -/
example :
    let s := run .signal c2 {} [.handle [1], .handle [2]]
    s.closed = false ∧ (push c2 s (frame [3])).2 = [.accepted (!s.prim)] ∧
    (run .signal c2 {} [.handle [1], .handle [2], .handle [3], .handle [4]]).accAll =
      [(frame [1], false), (frame [2], false), (frame [3], true), (frame [4], true)] := by decide


/-- **C31, "every drop is … reported upstream" — the eventual part (state level).** From any state satisfying the
    invariants in which the primary sender's buffer is open: if the primary sender has a live connection and is scheduled
    (its forced moves happen: `pop` is called, the write in progress completes, a pending wake-up is taken, an armed batch
    timer fires), then after at most 8 such moves — among them at most 2 batch-timer expiries — its `pop` returns nil and
    `reportWouldBlockIfAny` runs: every byte pending in `wouldBlockBytes` moves to `reported` exactly once (`wb` becomes 0,
    `reported` grows by exactly the old `wb`, nothing is added to `lostRep`, `writeErrors`, `dropBytes`). -/
theorem drops_reported_within_one_loop_iteration (c : Cfg) (s : Pool) (hinv : PInv c s) (hnl : PNoLost c s)
    (hcl : s.b0.closed = false) :
    RetOk (untilRet c false 8 s.b0) ∧ Reported s (loopUntilReport c 8 s) := by
  have h := ret_within c false s.b0 hinv.1 hnl.1 hcl
  exact ⟨h, loop_link c 8 s (retOk_isSome _ h)⟩

/-- **C31, "every drop is counted and reported upstream", full form** (fixed code): after ANY history the books balance
    (`drops_counted_and_reported_partial`: pushes = forwarded + dropped; dropped bytes = pending + reported + lost with a
    failed report write), and from that state one scheduled loop iteration of the primary sender on a live connection
    (≤ 8 forced moves, ≤ 2 timer expiries) reports everything that is pending, exactly once — so afterwards
    dropped bytes = reported + (bytes of reports whose write had failed earlier). -/
theorem drops_counted_and_reported (c : Cfg) (ops : List Op) (hcl : (run .signal c {} ops).b0.closed = false) :
    Acct (run .signal c {} ops) ∧ RetOk (untilRet c false 8 (run .signal c {} ops).b0) ∧
    Reported (run .signal c {} ops) (loopUntilReport c 8 (run .signal c {} ops)) ∧
    (∀ s', loopUntilReport c 8 (run .signal c {} ops) = some s' → s'.dropBytes = s'.reported + s'.lostRep) := by
  have ha := drops_counted_and_reported_partial .signal c ops
  have h := drops_reported_within_one_loop_iteration c _ (pinv_run .signal c ops {} (pinv_init c))
    (pnolost_run c ops {} (pnolost_init c)) hcl
  refine ⟨ha, h.1, h.2, ?_⟩
  intro s' hs
  have h2 := h.2
  rw [hs] at h2
  simp only [Reported] at h2
  have := ha.bytes
  omega

/-- non-vacuity: both buffers full, one packet dropped (5 bytes pending), the primary sender sits in its loop: its next
    iteration writes its batch and reports the 5 bytes -/
example :
    let s := run .signal c2 {} [.handle [1], .handle [2], .handle [3], .handle [4], .handle [5]]
    s.b0.closed = false ∧ s.wb = 5 ∧ s.reported = 0 ∧
    (loopUntilReport c2 8 s).map (fun s' => (s'.wb, s'.reported, s'.b0.done.length)) = some (0, 5, 2) := by decide


/-- **C31, "upstream connection failures" — a stalled upstream (fixed code, `Deadline.armed`).** After any history of
    pool steps and deadline expiries, a sender that is blocked in the write callback (its upstream neither reads nor resets,
    so the write never completes by itself) has a write deadline armed: `stalledNext` is a move, not `none`. When the
    deadline expires with `n` packets left, the callback returns, `pop` returns the error — sendLoop closes the connection and
    reconnects — exactly one packet is given up, `n` packets are offered again by the next `pop`, the write buffer is
    untouched and the error is counted. So a stalled upstream delays the packets behind it by at most `WriteTimeout`
    (+ reconnect), not for ever. -/
theorem stalled_write_released (v : Variant) (c : Cfg) (ops : List OpD) (i : Bool) (n : Nat)
    (hw : (getB (runD .armed v c {} ops).p i).pc = .writing)
    (hn : n < (batch (getB (runD .armed v c {} ops).p i)).length) :
    let s := runD .armed v c {} ops
    stalledNext s i ≠ none ∧ deadlineEnabled s i n = true ∧
    (getB (stepD .armed v c s (.deadline i n)).1.p i).pc = .idle ∧
    (stepD .armed v c s (.deadline i n)).2 = [.ret i true] ∧
    (pendingOf (getB (stepD .armed v c s (.deadline i n)).1.p i)).length = n + (getB s.p i).w.length ∧
    (getB (stepD .armed v c s (.deadline i n)).1.p i).nerr = (getB s.p i).nerr + 1 := by
  have hdl : DlInv (runD .armed v c {} ops) := dlinv_runD v c ops {} dlinv_init
  have hd := (hdl i).1 (by rw [hw]; simp)
  have hen : deadlineEnabled (runD .armed v c {} ops) i n = true := by simp [deadlineEnabled, hd, hw, hn]
  have hsk := write_error_skips_exactly_one c i (getB (runD .armed v c {} ops).p i) n hw hn
  have hlt : ¬ ((batch (getB (runD .armed v c {} ops).p i)).length ≤ n) := by omega
  refine ⟨by simp [stalledNext, hw, hd], hen, ?_, ?_, ?_, ?_⟩
  · simp only [stepD, hen, if_true, step, onBuf, getB_setB_same]; exact hsk.2.1
  · simp [stepD, hen, step, onBuf, writeDone, hw, hlt]
  · simp only [stepD, hen, if_true, step, onBuf, getB_setB_same]; exact hsk.1
  · simp only [stepD, hen, if_true, step, onBuf, getB_setB_same]; exact hsk.2.2.1

/-- two packets accepted, the sender calls `pop` and is handed both; the upstream does not read -/
def stalledWrite : List OpD := [.base (.handle [1]), .base (.handle [2]), .base (.pop false)]

/-- pinned code (`Deadline.never`: the overflowing comparison never arms a deadline): the sender is inside the write
    callback with two accepted packets, no deadline is armed, and no move is left — it stays in `WriteTo` -/
example :
    let s := runD .never .signal c10 {} stalledWrite
    (getB s.p false).pc = .writing ∧ batch (getB s.p false) = [frame [1], frame [2]] ∧ getDl s false = false ∧
    stalledNext s false = none ∧ (stepD .never .signal c10 s (.deadline false 1)).1 = s := by decide

/-- fixed code, same history: the deadline expires, `pop` returns the error, one packet is given up and counted, the other
    is handed to the next write (on the new connection) -/
example :
    let s := runD .armed .signal c10 {} stalledWrite
    (getB s.p false).pc = .writing ∧ stalledNext s false = some (.deadline false 1) ∧
    (let s' := runD .armed .signal c10 s [.deadline false 1, .base (.pop false)]
     (getB s'.p false).nerr = 1 ∧ (getB s'.p false).pc = .writing ∧ batch (getB s'.p false) = [frame [2]] ∧
     getDl s' false = true) := by decide


/-- **the deadline bookkeeping of `sendLoop` (fixed code), for every history** of pool steps, write errors, deadline
    expiries and passing time: (1) every write happens with `armed` — whenever a sender is inside `pop` (waiting for a batch
    or blocked in the write callback) its CURRENT connection carries a write deadline; (2) the bookkeeping variable
    `writeDeadline` is honest — it is non-zero only if the current connection really has a deadline, in particular it is
    zero on every newly dialled connection, so the first loop iteration on it arms one. -/
theorem write_always_armed (v : Variant) (c : Cfg) (ops : List OpD) (i : Bool) :
    ((getB (runD .armed v c {} ops).p i).pc ≠ .idle → getDl (runD .armed v c {} ops) i = true) ∧
    (getBk (runD .armed v c {} ops) i ≠ .zero → getDl (runD .armed v c {} ops) i = true) :=
  dlinv_runD v c ops {} dlinv_init i

/-- a write error shortly after a deadline refresh, then the next write (on the newly dialled connection) -/
def errorThenWrite : List OpD :=
  [.base (.handle [1]), .base (.handle [2]), .base (.handle [3]), .base (.pop false), .base (.wres false (.err 1)), .base (.pop false)]

/-- seeded variant C31-r3-2 (`Deadline.stale`: the write-error path does not reset `writeDeadline`, the reset after reconnect is
    gone): after the write error the new connection inherits a `fresh` bookkeeping value, the loop top sees nothing to
    refresh, and the next write runs on a connection WITHOUT a deadline — if that upstream stalls there is no move left -/
example :
    let s := runD .stale .signal c10 {} errorThenWrite
    (getB s.p false).pc = .writing ∧ batch (getB s.p false) = [frame [3]] ∧ getBk s false = .fresh ∧ getDl s false = false ∧
    stalledNext s false = none := by decide

/-- … the stale value protects nothing until it has aged: only after `age` does a `pop` arm the connection again -/
example :
    let s := runD .stale .signal c10 {} [.base (.handle [1]), .base (.handle [2]), .base (.pop false),
      .base (.wres false (.err 1)), .age false, .base (.pop false)]
    (getB s.p false).pc = .writing ∧ getDl s false = true := by decide

/-- fixed code, same history as `errorThenWrite`: the reconnect resets the bookkeeping, the loop top arms the new
    connection, a stalled write is ended by its deadline -/
example :
    let s := runD .armed .signal c10 {} errorThenWrite
    (getB s.p false).pc = .writing ∧ getBk s false = .fresh ∧ getDl s false = true ∧
    stalledNext s false = some (.deadline false 0) := by decide

/-- **reconnection reaches every upstream address.** Whatever the state of the round-robin position, among any
    `len(addrs)` consecutive reconnect attempts of a sender every address of its pool is dialled: a sender whose pool holds
    a live upstream finds it within `len(addrs)` attempts (`ReconnectDelay` apart), however many of the others are down. -/
theorem pick_visits_all (p : AddrPool) (hh : p.head < p.addrs.length) (j : Nat) (hj : j < p.addrs.length) :
    (some (p.addrs[j]?)) ∈ (pickN p.addrs.length p).map some := by
  have hl : 0 < p.addrs.length := by omega
  -- attempt number k = (j + len - head) mod len dials address j
  let k := (j + p.addrs.length - p.head) % p.addrs.length
  have hk : k < p.addrs.length := Nat.mod_lt _ hl
  have hidx : (p.head + k) % p.addrs.length = j := by
    show (p.head + (j + p.addrs.length - p.head) % p.addrs.length) % p.addrs.length = j
    rw [Nat.add_mod_mod]
    have : p.head + (j + p.addrs.length - p.head) = j + p.addrs.length := by omega
    rw [this, Nat.add_mod_right, Nat.mod_eq_of_lt hj]
  have h := pick_kth p hh k p.addrs.length hk
  rw [hidx] at h
  simp only [List.mem_map]
  exact ⟨p.addrs[j]?, List.mem_of_getElem? h, rfl⟩

/-- non-vacuity, and the seeded value-receiver bug in one line: the real pool [dead, dead, live] with head 1 dials 1, 2, 0 -/
example : pickN 3 { addrs := [10, 11, 12], head := 1 } = [some 11, some 12, some 10] := by decide

/-
  Full statement of C31 and what is NOT proved here (kept as a comment; the check is labelled partial):

    "… within a bounded delay (about one second plus reconnection time) …"
  Proved: after the last push, at most one expiry of the batch timer and at most 6 forced moves of the sender hand every
  buffered packet to a successful write (`prompt_even_if_idle_partial`); a failed write gives up exactly one packet and the
  rest is offered again immediately (`write_error_skips_exactly_one`, `callback_contract`); no wake-up is ever lost
  (`never_stuck`); a write blocked by a stalled upstream is ended by the armed write deadline (`stalled_write_released`);
  every pending dropped byte is reported exactly once within one scheduled loop iteration of the primary sender on a live
  connection (`drops_counted_and_reported`); a sender's reconnect attempts go round its whole address pool
  (`pick_visits_all`); acceptance order is kept per sender across failovers and no packet is taken by
  both senders (`pool_fifo_across_failover`, `failover_spec`).
  Not proved: the real-time length of a timer period (time.AfterFunc 1 s, WriteTimeout) and of a write; sendLoop's
  reconnect loop itself (ReconnectDelay, DialTimeout, address rotation) — measured by the live tier of the harness with
  10x budgets; that the scheduler runs the sender (fairness is the hypothesis "the forced moves happen").
-/

end SH.C31
