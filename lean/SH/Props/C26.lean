/-
  C26 — User-supplied filter values cannot change the structure of storage queries.

  "For any tag filter values and regular expressions, the generated storage query is well-formed, each user-supplied
   string appears only inside a single correctly escaped string literal that decodes back to the original string, and
   the where-clause selects exactly the rows matching the requested inclusion and exclusion filters."
  Quantifier: all filter value strings and regexes (including quotes, backslashes and control characters),
  mapped/unmapped/empty values, raw tags and both filter polarities.

  Model: SH.Model.Sql (escape = escapeReplacer, whereFrags/whereBytes = writeWhere, tagAtoms = the clauses writeTagFilter
  writes for one tag, lexLit/scan = ClickHouse's quoted-literal lexer, evalWhere = row semantics of the condition).

  Reading of the property as theorems (all for EVERY byte string / value list / builder configuration):
   1. `unlit_escape`            the ClickHouse literal lexer applied to `'` ++ escape s ++ `'` ++ rest returns exactly (s, rest):
                                no user byte ends the literal, the literal decodes back to the original string.
                                (hypothesis: `rest` does not start with a quote — `''` is a doubled quote for ClickHouse; the
                                 builder never writes a quote after a literal, which is part of theorem 2)
   2. `where_scans`             scanning the complete where text yields exactly the list of user strings (`where_literals`:
                                `''` of pre_stag, then the strings of the positive, then of the negative filters, each once,
                                in order) and a skeleton;
      `where_skeleton_no_quote` the skeleton (text outside the literals) contains no quote;
      `where_skeleton_independent` the skeleton is unchanged when every user string is replaced by any other string of the
                                same emptiness: strings cannot change the structure;
      `where_skeleton_balanced` parentheses of the skeleton balance and never close below zero (well-formedness at the level
                                the model has; the Go oracle additionally parses the real text with a grammar).
   3. `in_selects_exactly`, `notin_selects_exactly`, `where_selects_exactly`
                                the written condition selects a row iff it matches a requested value / no requested value.
                                Hypothesis `RegexCovers`: with a regular expression the code drops the string values, which is
                                right only under the caller's invariant (promql engine adds only values the expression matches);
                                `regex_invariant_needed` shows the statement is false without it.
   4. `query_wellformed`, `query_wellformed_bytes`, `query_skeleton_independent` (second round)
                                the same for the COMPLETE text of buildSeriesQuery / buildTagValuesQuery / buildTagValueIDsQuery
                                (SELECT list incl. the digest columns and min/max host, FROM, WHERE, GROUP BY, HAVING, ORDER BY in
                                both directions with the per-key DESC, LIMIT, SETTINGS): it scans into exactly `queryStrings`
                                (the filter strings, plus the time-zone name of the 1-month time column) and a quote-free,
                                parenthesis-balanced skeleton that does not depend on the filter strings. Hypothesis `QOK` is about
                                configuration only: the time-zone name (written UNescaped between quotes by the code) has no quote or
                                backslash, the operator's SETTINGS text no quote or parenthesis.
   5. `match_clause_text`, `regex_literal_decodes`, `regex_decodes_in_tag`, `regex_not_written_for_raw`
                                every regular expression is written once, escaped, in the positive and the negative clause of a
                                non-raw tag, decodes back to exactly itself whatever follows, and is not written for raw tags.
   6. `whereIntAST_render`, `raw64_reassembles`, `raw64_hits_value` (third round)
                                the integer expression written for a 64-bit raw tag, evaluated with ClickHouse's typing of
                                toUInt32/toInt64/bitShiftLeft/bitOr over Int32 columns (trusted rules, listed in checks/C26.py),
                                is the 64-bit value (hi, lo) encode, for every hi and lo; the row storing a requested value hits it.
   7. `filter_string_meaning`, `filter_strings_select_exactly` (third round)
                                from the user's filter STRINGS (requestHandler.GetTagFilter: "", raw codes, " 0" = the empty value,
                                comments and bucket labels of raw tags, mapped and unmapped strings, error cases) to the selected rows.
   8. `wellformed_any_length` (fifth round): no length hypothesis anywhere; lengthening every string keeps all of 4.
  Helper lemmas (and `in/notin` clause semantics, `where_skeleton_balanced`) live in SH/Lemmas/Sql.lean.
-/
import SH.Lemmas.Sql

namespace SH.C26
open SH.Sql

theorem unlit_escape (s r : Bytes) (hr : r.head? ≠ some q) :
    unlit (q :: (escape s ++ q :: r)) = some (s, r) := by
  simp [unlit, lexLit_escape s r hr]

/-- **Positive filter.** The condition written for a tag selects a row iff the row's tag matches a requested value
    (mapped id, string, or the empty value) or the regular expression — including `0!=0` when nothing is mapped, the
    empty-value clause and raw tags (no string clauses). -/
theorem in_selects_exactly (re : Bytes → Bytes → Bool) (raw : Bool) (f : TagFilter) (r : TagRow)
    (hinv : RegexCovers re raw f) :
    evalAtoms re true r (tagAtoms true raw f) = requested re raw f r := by
  simp only [evalAtoms, if_true, any_tagAtoms_true, requested, any_valMatches]
  cases raw
  · by_cases hre : f.re2.isEmpty = true
    · simp [hre]
    · have hre' : f.re2.isEmpty = false := by simpa using hre
      have hc := strVals_covered re f r.s (hinv rfl hre')
      simp only [hre', Bool.not_false, Bool.true_and, if_false, Bool.false_eq_true]
      cases hS : (strVals f).contains r.s
      · simp; ac_rfl
      · simp [hc hS]
  · simp

/-- **Negative filter.** The condition selects a row iff the row's tag matches no requested value and not the regular
    expression (`0=0` when nothing is mapped). -/
theorem notin_selects_exactly (re : Bytes → Bytes → Bool) (raw : Bool) (f : TagFilter) (r : TagRow)
    (hinv : RegexCovers re raw f) :
    evalAtoms re false r (tagAtoms false raw f) = !requested re raw f r := by
  have := in_selects_exactly re raw f r hinv
  simp only [evalAtoms, if_true] at this
  simp only [evalAtoms, Bool.false_eq_true, if_false, tagAtoms_false, all_map_negate, this]


/-! ### the whole where-clause -/

theorem NoQ_skel : ∀ fs : List Frag, WF fs → NoQ (skel fs)
  | [], _ => NoQ_nil
  | .raw b :: fs, h => by simpa [skel] using NoQ_append.mpr ⟨h.1, NoQ_skel fs h.2⟩
  | .lit _ :: fs, h => by simpa [skel] using NoQ_cons.mpr ⟨by decide, NoQ_skel fs h.2⟩
  | .qraw _ :: fs, h => by simpa [skel] using NoQ_cons.mpr ⟨by decide, NoQ_skel fs h.2.2⟩

/-- the literals of the where text, as a function of the inputs only -/
def whereStrings (c : Cfg) (fin fnotin : Filters) : List Bytes :=
  [] :: (filterStrings c fin ++ filterStrings c fnotin)

theorem where_literals (c : Cfg) (fin fnotin : Filters) :
    lits (whereFrags c fin fnotin) = whereStrings c fin fnotin := lits_whereFrags c fin fnotin

/-- **Each user string sits in exactly one literal that decodes back to it.** For every configuration and all filters,
    ClickHouse's literal scanner splits the where text written by the builder into exactly the expected user strings and
    a skeleton. -/
theorem where_scans (c : Cfg) (fin fnotin : Filters) :
    scanAll (whereBytes c fin fnotin) = some (whereStrings c fin fnotin, skel (whereFrags c fin fnotin)) := by
  rw [← where_literals]
  exact scanAll_flatten _ (Good_whereFrags c fin fnotin).1

theorem where_skeleton_no_quote (c : Cfg) (fin fnotin : Filters) : NoQ (skel (whereFrags c fin fnotin)) :=
  NoQ_skel _ (Good_whereFrags c fin fnotin).1

def mapFilters (g : Bytes → Bytes) (fs : Filters) : Filters := fs.map (fun p => (p.1, mapFilter g p.2))

theorem get_mapFilters {g} (hg : KeepsEmpty g) (fs : Filters) (x : Nat) :
    (mapFilters g fs).get x = mapFilter g (fs.get x) := by
  have h0 : g [] = [] := by have := hg []; simpa using this
  induction fs with
  | nil => simp [mapFilters, Filters.get, noFilter, mapFilter, h0]
  | cons p fs ih =>
    simp only [mapFilters, Filters.get, List.map_cons, List.find?_cons] at ih ⊢
    cases h : p.1 == x
    · simpa [h] using ih
    · simp

theorem skel_flatMap_congr {α} (g g' : α → List Frag) (h : ∀ x, skel (g x) = skel (g' x)) :
    ∀ l : List α, skel (l.flatMap g) = skel (l.flatMap g')
  | [] => rfl
  | x :: l => by simp [List.flatMap_cons, skel_append, h x, skel_flatMap_congr g g' h l]

/-- **User strings cannot change the structure of the query.** -/
theorem where_skeleton_independent {g : Bytes → Bytes} (hg : KeepsEmpty g) (c : Cfg) (fin fnotin : Filters) :
    skel (whereFrags c (mapFilters g fin) (mapFilters g fnotin)) = skel (whereFrags c fin fnotin) := by
  simp only [whereFrags, skel_append, tagFilterFrags]
  congr 1
  · congr 1
    exact skel_flatMap_congr _ _ (fun x => by rw [get_mapFilters hg]; exact skel_tagFrags_map hg c true x _) _
  · exact skel_flatMap_congr _ _ (fun x => by rw [get_mapFilters hg]; exact skel_tagFrags_map hg c false x _) _

/-- **The where-clause selects exactly the requested rows**: the fixed conditions, the metric condition, every positive
    filter matched, no negative filter matched. -/
theorem where_selects_exactly (re : Bytes → Bytes → Bool) (c : Cfg) (fin fnotin : Filters) (r : Row)
    (hin : ∀ x, RegexCovers re (isRaw c x) (fin.get x)) (hnot : ∀ x, RegexCovers re (isRaw c x) (fnotin.get x)) :
    evalWhere re c fin fnotin r = true ↔
      baseSel c r = true ∧ metricSel c r.metric = true ∧
      (∀ x, x < maxTags → (fin.get x).isEmpty = false → requested re (isRaw c x) (fin.get x) (r.tag x) = true) ∧
      (∀ x, x < maxTags → (fnotin.get x).isEmpty = false → requested re (isRaw c x) (fnotin.get x) (r.tag x) = false) := by
  simp only [evalWhere, Bool.and_eq_true, List.all_eq_true, List.mem_range, tagSel, Bool.or_eq_true,
    in_selects_exactly re _ _ _ (hin _), notin_selects_exactly re _ _ _ (hnot _), Bool.not_eq_true', and_assoc]
  constructor
  · rintro ⟨h1, h2, h3, h4⟩
    refine ⟨h1, h2, fun x hx he => ?_, fun x hx he => ?_⟩
    · rcases h3 x hx with h | h
      · simp [he] at h
      · exact h
    · rcases h4 x hx with h | h
      · simp [he] at h
      · exact h
  · rintro ⟨h1, h2, h3, h4⟩
    refine ⟨h1, h2, fun x hx => ?_, fun x hx => ?_⟩
    · cases he : (fin.get x).isEmpty
      · exact Or.inr (h3 x hx he)
      · exact Or.inl rfl
    · cases he : (fnotin.get x).isEmpty
      · exact Or.inr (h4 x hx he)
      · exact Or.inl rfl


/-! ### the complete query text (buildSeriesQuery / buildTagValuesQuery / buildTagValueIDsQuery) -/

/-- the literals of the complete text: the time-zone name (twice) of the 1-month time column of a series query, then the
    literals of the where-clause; nothing else -/
def queryStrings (c : Cfg) (e : QCfg) (fin fnotin : Filters) : List Bytes :=
  (if c.mode == 0 && e.step == stepMonth then [e.loc, e.loc] else []) ++ whereStrings c fin fnotin

theorem lits_queryFrags (c : Cfg) (e : QCfg) (fin fnotin : Filters) (fs : List Frag)
    (hf : queryFrags c e fin fnotin = some fs) : lits fs = queryStrings c e fin fnotin := by
  simp only [queryFrags] at hf
  split at hf
  · rename_i hm
    simp only [seriesFrags] at hf
    split at hf
    · cases hf
    · injection hf with hf; subst hf
      simp [lits, lits_append, lits_timeFrags, where_literals, queryStrings, hm]
  · rename_i hm
    injection hf with hf; subst hf
    simp [tagValuesFrags, lits, lits_append, where_literals, queryStrings, hm]

theorem queryFrags_good (c : Cfg) {e : QCfg} (h : QOK e) (fin fnotin : Filters) (fs : List Frag)
    (hf : queryFrags c e fin fnotin = some fs) : Good fs ∧ St (skel fs) 0 0 := by
  simp only [queryFrags] at hf
  split at hf
  · exact seriesFrags_good c h fin fnotin fs hf
  · injection hf with hf; subst hf; exact tagValuesFrags_good c h fin fnotin

/-- **The whole query is well-formed and user strings occur only inside their own literals.** For every builder
    configuration, digest selection, group-by list, sort direction, mode and all filters: ClickHouse's literal scanner splits
    the complete query text into exactly `queryStrings` (each filter string once, decoded back to the original) and a
    skeleton; the skeleton contains no quote and its parentheses balance without ever closing below zero.
    `QOK` constrains configuration only (time-zone name, SETTINGS text), never filter values. -/
theorem query_wellformed (c : Cfg) (e : QCfg) (h : QOK e) (fin fnotin : Filters) (fs : List Frag)
    (hf : queryFrags c e fin fnotin = some fs) :
    scanAll (flatten fs) = some (queryStrings c e fin fnotin, skel fs) ∧ NoQ (skel fs) ∧ bal 0 (skel fs) = some 0 := by
  obtain ⟨hg, hb⟩ := queryFrags_good c h fin fnotin fs hf
  refine ⟨?_, NoQ_skel fs hg.1, by simpa using hb 0⟩
  rw [← lits_queryFrags c e fin fnotin fs hf]
  exact scanAll_flatten fs hg.1

/-- the same on the byte level -/
theorem query_wellformed_bytes (c : Cfg) (e : QCfg) (h : QOK e) (fin fnotin : Filters) (t : Bytes)
    (ht : queryBytes c e fin fnotin = some t) :
    ∃ sk, scanAll t = some (queryStrings c e fin fnotin, sk) ∧ NoQ sk ∧ bal 0 sk = some 0 := by
  simp only [queryBytes] at ht
  split at ht
  · cases ht
  · rename_i fs hf
    injection ht with ht; subst ht
    exact ⟨skel fs, query_wellformed c e h fin fnotin fs hf⟩

/-- **User strings cannot change the structure of the whole query**: replacing every filter string by any other string
    of the same emptiness leaves the skeleton of the complete text (and whether the builder fails) unchanged. -/
theorem query_skeleton_independent {g : Bytes → Bytes} (hg : KeepsEmpty g) (c : Cfg) (e : QCfg) (fin fnotin : Filters) :
    (queryFrags c e (mapFilters g fin) (mapFilters g fnotin)).map skel = (queryFrags c e fin fnotin).map skel := by
  have hw := where_skeleton_independent hg c fin fnotin
  simp only [queryFrags]
  split
  · simp only [seriesFrags]
    split
    · rfl
    · simp [skel, skel_append, hw]
  · simp [tagValuesFrags, skel, skel_append, hw]

/-! ### regular expressions -/

/-- the text of a `match` clause: the pattern is written once, as `'` ++ escape re ++ `'`, in both polarities -/
theorem match_clause_text (neg : Bool) (intE strE re : Bytes) :
    flatten ((Atom.reMatch neg re).frags intE strE) =
      (notText neg ++ str "match(" ++ strE ++ str ",") ++ q :: (escape re ++ q :: str ")") := by
  simp [Atom.frags, flatten, Frag.bytes]

/-- **Every regular expression decodes back to itself**, whatever follows the clause: the lexer applied at the pattern's
    opening quote returns exactly `re` and continues at the `)` of `match(…)`. -/
theorem regex_literal_decodes (re rest : Bytes) :
    unlit (q :: (escape re ++ q :: (str ")" ++ rest))) = some (re, str ")" ++ rest) :=
  unlit_escape re _ (by simp [str]; decide)

/-- where a regular expression is written: for a non-raw tag with a regular expression, in the positive as well as in the
    negative filter, the condition of the tag scans into exactly the pattern (then `''` of the empty-value clause if an
    empty value is present) … -/
theorem regex_decodes_in_tag (c : Cfg) (isIn : Bool) (x : Nat) (f : TagFilter)
    (hraw : isRaw c x = false) (hre : f.re2.isEmpty = false) :
    scanAll (flatten (tagFrags c isIn x f)) =
      some (f.re2 :: (if hasEmpty f then [[]] else []), skel (tagFrags c isIn x f)) := by
  rw [scanAll_flatten _ (Good_tagFrags c isIn x f).1, lits_tagFrags]
  have hne : f.isEmpty = false := by simp [TagFilter.isEmpty, hre]
  simp [tagStrings, hraw, hre, hne]

/-- … and for a raw tag no pattern (and no other string) is written at all. -/
theorem regex_not_written_for_raw (c : Cfg) (isIn : Bool) (x : Nat) (f : TagFilter) (hraw : isRaw c x = true) :
    lits (tagFrags c isIn x f) = [] := by
  rw [lits_tagFrags]
  simp [tagStrings, hraw]

/-! ### non-vacuity and negative witnesses -/

/-- a `)` below depth zero is rejected, an unclosed `(` leaves depth 1: `bal` is not trivially `some 0` -/
example : bal 0 (str "a)(") = none := by decide
example : bal 0 (str "(a") = some 1 := by decide



/-- hostile string `\' OR 1=1 --` : escaped, lexed, recovered; the rest of the query is untouched -/
example : unlit (q :: (escape (str "\\' OR 1=1 --") ++ q :: str ")")) = some (str "\\' OR 1=1 --", str ")") := by decide

/-- the hypothesis of `unlit_escape` is needed: a quote right after the literal is read as a doubled quote -/
example : unlit (q :: (escape (str "a") ++ q :: [q])) = none := by decide

/-- an escaper that forgets the backslash (the classic mistake) is rejected by the same lexer:
    the value `\' OR 1=1 --` ends its literal early and ` OR 1=1 --` becomes query text … -/
def escapeQuoteOnly : Bytes → Bytes
  | [] => []
  | c :: s => if c = q then bs :: q :: escapeQuoteOnly s else c :: escapeQuoteOnly s
example : unlit (q :: (escapeQuoteOnly (str "\\' OR 1=1 --") ++ q :: str ")")) = some (str "\\", str " OR 1=1 --')") := by
  decide
/-- … and a trailing backslash swallows the closing quote -/
example : unlit (q :: (escapeQuoteOnly (str "a\\") ++ [q])) = none := by decide

/-- the where text of the repo's own test TestLoadPointsQueryV6_1h, produced by the model -/
def testCfg : Cfg :=
  { mode := 0, fromSec := 86397, toSec := 2001597, hasPreKey := false, hasMetric := true, metricId := 1000, metricPk := -1,
    raw := [], raw64 := [], groupBy := [], fim := [], fnm := [] }
def testIn : Filters := [(1, { values := [⟨true, true, str "one", 1⟩, ⟨true, true, str "two", 2⟩], re2 := [] })]
def testNotIn : Filters := [(0, { values := [⟨true, false, str "staging", 0⟩], re2 := [] })]
set_option maxRecDepth 100000 in
example : whereBytes testCfg testIn testNotIn =
    str " WHERE time>=86397 AND time<2001597" ++ str " AND index_type=0 AND pre_tag=0" ++ str " AND pre_stag='' AND metric=1000" ++
    str " AND (tag1 IN (1,2) OR stag1 IN" ++ str " ('one','two')) AND (0=0 AND" ++ str " stag0 NOT IN ('staging'))" := by decide

/-- a hostile filter: the scanner recovers the strings; the skeleton is the same as for benign strings -/
def hostileIn : Filters :=
  [(1, { values := [⟨true, true, str "') OR (''='", 1⟩, ⟨true, false, str "a\\", 0⟩, ⟨true, true, [], 0⟩], re2 := [] })]
def benignIn : Filters :=
  [(1, { values := [⟨true, true, str "x", 1⟩, ⟨true, false, str "y", 0⟩, ⟨true, true, [], 0⟩], re2 := [] })]
set_option maxRecDepth 100000 in
example : scanAll (whereBytes testCfg hostileIn []) =
    some ([[], str "') OR (''='", str "a\\", []], skel (whereFrags testCfg benignIn [])) := by decide

/-- `RegexCovers` is satisfiable with a regular expression present, and the positive filter then selects by it -/
def toyRe (p s : Bytes) : Bool := p.isPrefixOf s
def reFilter : TagFilter := { values := [⟨true, true, str "abc", 7⟩], re2 := str "ab" }
example : RegexCovers toyRe false reFilter := by
  intro _ _ v hv _ _
  simp [reFilter] at hv
  subst hv
  decide
example : evalAtoms toyRe true ⟨0, str "abd"⟩ (tagAtoms true false reFilter) = true := by decide

/-- without the caller invariant the statement is false: the code drops the string value `x` when a regular expression is
    present, so the row with string `x` is not selected although `x` was requested -/
theorem regex_invariant_needed :
    ∃ re f r, evalAtoms re true r (tagAtoms true false f) ≠ requested re false f r :=
  ⟨toyRe, { values := [⟨true, false, str "x", 0⟩], re2 := str "ab" }, ⟨0, str "x"⟩, by decide⟩

/-- empty-set conventions: a positive filter without mapped values writes `0!=0`, a negative one `0=0` -/
example : tagAtoms true false { values := [⟨true, false, str "a", 0⟩], re2 := [] } = [.constF, .strIn false [str "a"]] := by decide
example : tagAtoms false false { values := [⟨true, false, str "a", 0⟩], re2 := [] } = [.constT, .strIn true [str "a"]] := by decide
/-- raw tag: string clauses are not written, the empty value compares the integer only -/
example : tagAtoms true true { values := [⟨true, true, str "a", 5⟩, ⟨true, true, [], 0⟩], re2 := str "r" } =
    [.intIn false [5], .isEmpty false true] := by decide


/-! ### the complete query text: examples -/

/-- the complete text of the repo's TestLoadPointsQueryV6_1h (cardinality + max, no group-by, no sort), produced by the model -/
def testQ : QCfg :=
  { step := 14400, utcOffset := 10800, loc := str "MSK", sharded := true, whats := [8, 3], minHost := false, maxHost := false,
    sort := 0, settings := str " SETTINGS optimize_aggregation_in_order=1", tagIndex := 1, tagRaw := false, tagRaw64 := false,
    numResults := 5 }
example : QOK testQ := ⟨fun _ => by decide, by decide, by decide⟩
set_option maxRecDepth 100000 in
example : queryBytes testCfg testQ testIn testNotIn = some (
    str "SELECT toInt64(toStartOfInterval(time+10800," ++ str "INTERVAL 14400 second))-10800 AS _time," ++
    str "toFloat64(sum(1)) AS _val0,toFloat64(max(max))" ++ str " AS _val1 FROM statshouse_v6_1h" ++
    str " WHERE time>=86397 AND time<2001597" ++ str " AND index_type=0 AND pre_tag=0" ++ str " AND pre_stag='' AND metric=1000" ++
    str " AND (tag1 IN (1,2) OR stag1 IN" ++ str " ('one','two')) AND (0=0 AND" ++ str " stag0 NOT IN ('staging'))" ++
    str " GROUP BY _time LIMIT 10000000" ++ str " SETTINGS optimize_aggregation_in_order=1") := by decide

set_option maxRecDepth 100000 in
/-- tag-values query (mode 1); a tag-value-IDs query (mode 2) selects and groups by the integer column only -/
example : queryBytes { testCfg with mode := 1 } testQ [] [] = some (
    str "SELECT tag1,stag1,toFloat64(sum(count)) AS _count" ++ str " FROM statshouse_v6_1h WHERE time>=86397" ++
    str " AND time<2001597 AND index_type=0 AND pre_tag=0" ++ str " AND pre_stag='' AND metric=1000" ++
    str " GROUP BY tag1,stag1 HAVING _count>0" ++ str " ORDER BY _count DESC,tag1,stag1 LIMIT 6" ++
    str " SETTINGS optimize_aggregation_in_order=1") := by decide
example : tvByTags { testCfg with mode := 2 } testQ = str "tag1" := by decide

/-- a descending table query over the 1-month step, grouped by a tag and the shard, with hostile filter values:
    `QOK` holds, the builder succeeds, the literals are the time-zone name twice and the filter strings -/
def descQ : QCfg :=
  { testQ with step := stepMonth, loc := str "Europe/Moscow", sort := 2, whats := [1, 7, 2], minHost := true, maxHost := true }
def descCfg : Cfg := { testCfg with groupBy := [1, -3] }
example : QOK descQ := ⟨fun _ => by decide, by decide, by decide⟩
example : queryStrings descCfg descQ hostileIn [] =
    [str "Europe/Moscow", str "Europe/Moscow", [], str "') OR (''='", str "a\\", []] := by decide
set_option maxRecDepth 100000 in
/-- the direction is written after every ORDER BY key (writeByTagsDir, /repo e9888cce) -/
example : seriesTail descCfg descQ =
    str " GROUP BY _time,tag1,stag1,_shard_num" ++ str " ORDER BY _time DESC,tag1 DESC,stag1 DESC,_shard_num DESC" ++
    str " LIMIT 100000" ++ str " SETTINGS optimize_aggregation_in_order=1" := by decide
/-- avg, stddev and count share their sum/count columns: sum, count, sumsquare — three value columns -/
example : (selLoop (specified descQ.whats) { has := [], j := 0, cols := [] }).map (·.cols.length) = some 3 := by decide
/-- `QOK.loc` is needed: the time-zone name is written between quotes without escaping (a configuration value) -/
def badQ : QCfg := { descQ with loc := str "a'b" }
example : (scanAll (flatten (timeFrags badQ))).map (·.1) ≠ some (lits (timeFrags badQ)) := by decide
example : (scanAll (flatten (timeFrags descQ))).map (·.1) = some (lits (timeFrags descQ)) := by decide
/-- a regular expression with quote and backslash, negative filter of a non-raw tag: the clause's literal is the pattern -/
example : lits (tagFrags testCfg false 3 { values := [], re2 := str "^a'\\.*$" }) = [str "^a'\\.*$"] := by decide
/-- the hypotheses of `regex_decodes_in_tag` hold here (non-raw tag, non-empty pattern) -/
example : isRaw testCfg 3 = false ∧ (str "^a'\\.*$").isEmpty = false := by decide
/-- raw tag: `regex_not_written_for_raw` applies, no literal at all -/
example : lits (tagFrags { testCfg with raw := [3] } true 3 { values := [⟨true, true, str "x", 4⟩], re2 := str "^a" }) = [] := by
  decide



/-! ### integer expressions: the raw64 reassembly -/

theorem whereIntAST_render (c : Cfg) (x : Nat) : (whereIntAST c x).render = whereIntExpr c x := by
  have h32 : natBytes 32 = str "32" := by decide
  simp only [whereIntAST, whereIntExpr]
  split
  · simp [IExpr.render]
  · split
    · split
      · simp [IExpr.render]
      · have e1 : str "bitOr(bitShiftLeft(toInt64(toUInt32(" =
            str "bitOr(" ++ (str "bitShiftLeft(" ++ (str "toInt64(" ++ str "toUInt32(")) := by decide
        have e2 : str ")),32),toUInt32(" =
            str ")" ++ (str ")" ++ (str "," ++ (str "32" ++ (str ")" ++ (str "," ++ str "toUInt32("))))) := by decide
        have e3 : str "))" = str ")" ++ str ")" := by decide
        simp only [raw64AST, IExpr.render, raw64Expr, h32, e1, e2, e3, List.append_assoc]
    · simp [IExpr.render]

theorem setWidth_signExtend_32 (x : BitVec 32) : (x.signExtend 64).setWidth 32 = x := by
  apply BitVec.eq_of_getLsbD_eq
  intro i hi
  simp [BitVec.getLsbD_signExtend, hi]
  omega

theorem shl_or_eq_append (hi lo : BitVec 32) : (hi.zeroExtend 64 <<< 32) ||| lo.zeroExtend 64 = hi ++ lo := by
  apply BitVec.eq_of_getLsbD_eq
  intro i hi'
  rw [BitVec.getLsbD_append]
  simp only [BitVec.getLsbD_or, BitVec.getLsbD_shiftLeft, BitVec.getLsbD_setWidth, BitVec.zeroExtend]
  by_cases h : i < 32
  · simp [h, hi']
  · have h2 : i - 32 < 64 := by omega
    have h3 : lo.getLsbD i = false := BitVec.getLsbD_of_ge lo i (by omega)
    simp [h, hi', h2, h3]

/-- **raw64 reassembly.** For every pair of Int32 column values the expression the builder emits for a 64-bit raw tag
    evaluates (under ClickHouse's typing of toUInt32 / toInt64 / bitShiftLeft / bitOr) to the signed 64-bit value whose high half
    is the hi column and whose low half is the lo column — no sign extension of a negative low half leaks into the high half. -/
theorem raw64_reassembles (e32 : Bytes → BitVec 32) (e64 : Bytes → BitVec 64) (hi lo : Bytes) :
    (raw64AST hi lo).eval e32 e64 = ⟨true, true, e32 hi ++ e32 lo⟩ := by
  simp [raw64AST, IExpr.eval, ext32, setWidth_signExtend_32]
  exact shl_or_eq_append (e32 hi) (e32 lo)

/-- the row that stores exactly the requested 64-bit value `v` (hi = upper half, lo = lower half) makes the expression equal `v` -/
theorem raw64_hits_value (e32 : Bytes → BitVec 32) (e64 : Bytes → BitVec 64) (hi lo : Bytes) (v : BitVec 64)
    (hh : e32 hi = v.extractLsb' 32 32) (hl : e32 lo = v.extractLsb' 0 32) :
    ((raw64AST hi lo).eval e32 e64).bits = v := by
  rw [raw64_reassembles, hh, hl]
  apply BitVec.eq_of_getLsbD_eq
  intro i hi'
  rw [BitVec.getLsbD_append]
  by_cases h : i < 32
  · simp [h]
  · have h1 : i - 32 < 32 := by omega
    have h2 : 32 + (i - 32) = i := by omega
    simp [h, h1, h2]

/-- the expression without the toUInt32 casts (seeded change C26-r3-2) is wrong when bit 31 of the low half is set:
    hi = 0, lo = 0x80000000 encode 2147483648, the cast-free form gives -2147483648 -/
def raw64NoCast (hi lo : Bytes) : IExpr := .bor (.shl (.toInt64 (.col32 hi)) 32) (.col32 lo)
example : ((raw64NoCast [104] [108]).eval (fun n => if n = [108] then 0x80000000#32 else 0#32) (fun _ => 0)).bits.toInt
    = -2147483648 := by decide
example : ((raw64AST [104] [108]).eval (fun n => if n = [108] then 0x80000000#32 else 0#32) (fun _ => 0)).bits.toInt
    = 2147483648 := by decide



/-! ### from the user's filter strings to the selected rows -/

/-- The meaning of one filter string for a row's tag, stated without GetTagFilter and without the query builder:
    `""` and a raw code of zero (`" 0"`) are the EMPTY value (integer 0 and, unless the tag is raw, no string value);
    a raw code `" k"` is the integer k; on a raw tag a bucket label stands for its encoding and a value comment for its raw
    code (an unknown string requests nothing); any other string is the value itself, stored mapped (its id) or unmapped. -/
def userWants (lookup : Bytes → Option Int) (leEnc : Option Int) (t : TagCtx) (s : Bytes) (r : TagRow) : Bool :=
  if s.isEmpty then emptyRow t.isRaw r
  else if s.head? == some 32 then
    (match parseCode s with
     | none => false
     | some k => if k == 0 then emptyRow t.isRaw r else r.n == k)
  else if t.isRaw then
    (match (if t.isLe then leEnc else none) with
     | some e => r.n == e
     | none =>
       match commentKeys t s with
       | [k] => (match parseCode k with | some kv => r.n == kv | none => false)
       | _ => false)
  else (match lookup s with | some id => r.n == id | none => false) || r.s == s

theorem valMatches_tvEmpty (raw : Bool) (r : TagRow) : valMatches raw r tvEmpty = emptyRow raw r := by
  simp [valMatches, tvEmpty, TagValue.empty]

theorem valMatches_tvM (raw : Bool) (r : TagRow) (k : Int) : valMatches raw r (tvM k) = (r.n == k) := by
  simp [valMatches, tvM, TagValue.empty]

theorem valMatches_tvBoth (raw : Bool) (r : TagRow) (s : Bytes) (k : Int) (hs : s.isEmpty = false) :
    valMatches raw r (tvBoth s k) = ((r.n == k) || (!raw && r.s == s)) := by
  simp [valMatches, tvBoth, TagValue.empty, hs]

/-- **One filter string.** Whenever GetTagFilter accepts the string, the TagValue it returns matches a row exactly when the
    row's tag has the meaning of the string. (`r.n ≠ -2`: -2 is TagValueIDDoesNotExist, the id GetTagFilter uses for a string
    without mapping; rows do not hold it.) -/
theorem filter_string_meaning (lookup : Bytes → Option Int) (leEnc : Option Int) (t : TagCtx) (s : Bytes) (r : TagRow)
    (v : TagValue) (h : getTagFilter lookup leEnc t s = some v) (hr : r.n ≠ -2) :
    valMatches t.isRaw r v = userWants lookup leEnc t s r := by
  have hne : (r.n == tagValueIDDoesNotExist) = false := by simpa [tagValueIDDoesNotExist] using hr
  simp only [getTagFilter, userWants] at h ⊢
  by_cases h1 : s.isEmpty = true
  · simp only [h1, if_true] at h ⊢
    injection h with h; subst h; exact valMatches_tvEmpty _ _
  · have h1' : s.isEmpty = false := by simpa using h1
    simp only [h1', Bool.false_eq_true, if_false] at h ⊢
    by_cases h2 : (s.head? == some 32) = true
    · simp only [h2, if_true] at h ⊢
      cases hp : parseCode s with
      | none => simp [hp] at h
      | some k =>
        simp only [hp] at h ⊢
        by_cases hk : k = 0
        · subst hk; simp at h; subst h; simpa using valMatches_tvEmpty _ _
        · have : (k != 0) = true := by simpa using hk
          simp only [this, if_true] at h
          injection h with h; subst h
          have hk' : (k == 0) = false := by simpa using hk
          simp [hk', valMatches_tvM]
    · simp only [h2, Bool.false_eq_true, if_false] at h ⊢
      by_cases h3 : t.isRaw = true
      · simp only [h3, if_true] at h ⊢
        cases hl : (if t.isLe = true then leEnc else none) with
        | some e => simp only [hl] at h ⊢; injection h with h; subst h; exact valMatches_tvM _ _ _
        | none =>
          simp only [hl] at h ⊢
          simp only [rawComment] at h
          cases hk : commentKeys t s with
          | nil =>
            simp only [hk] at h ⊢
            injection h with h; subst h
            simp [valMatches_tvBoth _ _ _ _ h1', hne]
          | cons k rest =>
            cases rest with
            | nil =>
              simp only [hk] at h ⊢
              cases hpk : parseCode k with
              | none => simp [hpk] at h
              | some kv => simp only [hpk] at h ⊢; injection h with h; subst h; exact valMatches_tvM _ _ _
            | cons k2 rest2 => simp [hk] at h
      · have h3' : t.isRaw = false := by simpa using h3
        simp only [h3', Bool.false_eq_true, if_false] at h ⊢
        injection h with h; subst h
        simp only [mapString]
        cases hl : lookup s with
        | some id => simp [valMatches_tvBoth _ _ _ _ h1']
        | none => simp [valMatches_tvBoth _ _ _ _ h1', hne]

/-- GetTagFilter over all strings of a filter (the promql engine aborts the query on the first error) -/
def convertAll (lookup : Bytes → Option Int) (leOf : Bytes → Option Int) (t : TagCtx) : List Bytes → Option (List TagValue)
  | [] => some []
  | s :: ss =>
    match getTagFilter lookup (leOf s) t s, convertAll lookup leOf t ss with
    | some v, some vs => some (v :: vs)
    | _, _ => none

theorem any_valMatches_convertAll (lookup leOf : Bytes → Option Int) (t : TagCtx) (r : TagRow) (hr : r.n ≠ -2) :
    ∀ (ss : List Bytes) (vs : List TagValue), convertAll lookup leOf t ss = some vs →
      vs.any (valMatches t.isRaw r) = ss.any (fun s => userWants lookup (leOf s) t s r)
  | [], vs, h => by simp only [convertAll] at h; injection h with h; subst h; rfl
  | s :: ss, vs, h => by
    simp only [convertAll] at h
    cases h1 : getTagFilter lookup (leOf s) t s with
    | none => simp [h1] at h
    | some v =>
      cases h2 : convertAll lookup leOf t ss with
      | none => simp [h1, h2] at h
      | some vs' =>
        simp only [h1, h2] at h
        injection h with h; subst h
        simp [filter_string_meaning lookup (leOf s) t s r v h1 hr, any_valMatches_convertAll lookup leOf t r hr ss vs' h2]

/-- **End to end, from filter strings to selected rows.** If GetTagFilter accepts every string of a filter, the condition
    the builder writes for the resulting values selects a row exactly when the row's tag has the meaning of one of the strings
    (inclusion) / of none of them (exclusion) — in particular the EMPTY value `" 0"` selects integer 0 WITHOUT a string value
    and does not select rows holding an unmapped string. -/
theorem filter_strings_select_exactly (re : Bytes → Bytes → Bool) (lookup leOf : Bytes → Option Int) (t : TagCtx)
    (ss : List Bytes) (vs : List TagValue) (r : TagRow) (h : convertAll lookup leOf t ss = some vs) (hr : r.n ≠ -2) :
    evalAtoms re true r (tagAtoms true t.isRaw ⟨vs, []⟩) = ss.any (fun s => userWants lookup (leOf s) t s r) ∧
    evalAtoms re false r (tagAtoms false t.isRaw ⟨vs, []⟩) = !ss.any (fun s => userWants lookup (leOf s) t s r) := by
  have hc : RegexCovers re t.isRaw ⟨vs, []⟩ := by intro _ h2; simp at h2
  rw [in_selects_exactly re _ _ _ hc, notin_selects_exactly re _ _ _ hc]
  have : requested re t.isRaw ⟨vs, []⟩ r = ss.any (fun s => userWants lookup (leOf s) t s r) := by
    simp [requested, any_valMatches_convertAll lookup leOf t r hr ss vs h]
  simp [this]


/-! ### filter strings: examples -/

def toyLookup (s : Bytes) : Option Int := if s == str "prod" then some 17 else none
def plainTag : TagCtx := { inTags := true, raw := false, isLe := false, comments := [] }
def rawTag : TagCtx := { inTags := true, raw := true, isLe := false, comments := [(str " 7", str "seven"), (str " 8", str "dup"), (str " 9", str "dup")] }
/-- `""` and `" 0"` (TagValueCodeZero) are the empty value; raw codes; a mapped and an unmapped string; errors -/
example : getTagFilter toyLookup none plainTag [] = some tvEmpty := by decide
example : getTagFilter toyLookup none plainTag (str " 0") = some tvEmpty := by decide
example : getTagFilter toyLookup none plainTag (str " -3") = some (tvM (-3)) := by decide
example : getTagFilter toyLookup none plainTag (str "prod") = some (tvBoth (str "prod") 17) := by decide
example : getTagFilter toyLookup none plainTag (str "it's") = some (tvBoth (str "it's") (-2)) := by decide
example : getTagFilter toyLookup none plainTag (str " 1x") = none := by decide
example : getTagFilter toyLookup none plainTag (str " 9223372036854775808") = none := by decide
example : getTagFilter toyLookup none rawTag (str "seven") = some (tvM 7) := by decide
example : getTagFilter toyLookup none rawTag (str "dup") = none := by decide
/-- the hypothesis of `filter_strings_select_exactly` is satisfiable; the empty value does not select an unmapped-string row -/
example : convertAll toyLookup (fun _ => none) plainTag [str " 0", str "prod"] = some [tvEmpty, tvBoth (str "prod") 17] := by decide
example : evalAtoms (fun _ _ => false) true ⟨0, str "x"⟩ (tagAtoms true false ⟨[tvEmpty, tvBoth (str "prod") 17], []⟩) = false := by
  decide
example : evalAtoms (fun _ _ => false) true ⟨0, []⟩ (tagAtoms true false ⟨[tvEmpty, tvBoth (str "prod") 17], []⟩) = true := by decide
/-- without the code-zero special case (seeded change C26-r3-1: `" 0"` becomes NewTagValueM(0)) the statement fails: the row
    (0, "x") holding an unmapped string is matched although only the empty value was requested -/
example : valMatches false ⟨0, str "x"⟩ (tvM 0) = true ∧ userWants toyLookup none plainTag (str " 0") ⟨0, str "x"⟩ = false := by
  decide
/-- `r.n ≠ -2` is needed: a string without mapping is given the id -2, which would match a row holding -2 -/
example : valMatches false ⟨-2, []⟩ (tvBoth (str "it's") (-2)) = true ∧
    userWants toyLookup none plainTag (str "it's") ⟨-2, []⟩ = false := by decide


/-! ### no length hypothesis -/

/-- pad every non-empty string to at least `n` more bytes -/
def padTo (n : Nat) (pad : UInt8) (s : Bytes) : Bytes := if s.isEmpty then s else List.replicate n pad ++ s

theorem padTo_keepsEmpty (n : Nat) (pad : UInt8) : KeepsEmpty (padTo n pad) := by
  intro s
  cases s with
  | nil => simp [padTo]
  | cons c s => simp [padTo]

/-- **Well-formedness does not depend on lengths.** `query_wellformed` quantifies over all byte strings and has no length
    hypothesis; explicitly: lengthen every filter value and regular expression of both polarities by any number `n` of bytes
    (beyond format.MaxStringLen = 128, beyond any buffer) — the complete query still scans into exactly its (lengthened) user
    strings, one literal each, with a quote-free, balanced skeleton, and that skeleton is the one of the original query. -/
theorem wellformed_any_length (c : Cfg) (e : QCfg) (h : QOK e) (fin fnotin : Filters) (n : Nat) (pad : UInt8) (fs : List Frag)
    (hf : queryFrags c e (mapFilters (padTo n pad) fin) (mapFilters (padTo n pad) fnotin) = some fs) :
    scanAll (flatten fs) =
      some (queryStrings c e (mapFilters (padTo n pad) fin) (mapFilters (padTo n pad) fnotin), skel fs) ∧
    NoQ (skel fs) ∧ bal 0 (skel fs) = some 0 ∧
    (queryFrags c e fin fnotin).map skel = some (skel fs) := by
  obtain ⟨h1, h2, h3⟩ := query_wellformed c e h _ _ fs hf
  refine ⟨h1, h2, h3, ?_⟩
  rw [← query_skeleton_independent (padTo_keepsEmpty n pad) c e fin fnotin, hf]
  rfl

set_option maxRecDepth 100000 in
/-- a 129-byte value (one byte more than format.MaxStringLen) in the real writer's model: one literal, decoded back -/
example : (scanAll (flatten (tagFrags testCfg true 1 ⟨[⟨true, false, List.replicate 129 97, 0⟩], []⟩))).map (·.1) =
    some [List.replicate 129 97] := by decide

/-- The seeded variant C26-r5-2: the second pass of writeTagFilter skips values longer than 128 bytes, the first pass still
    counts them and the closing `')` is written unconditionally. With only long values the list is never opened but closed. -/
def strInSkipLong (strE : Bytes) (neg : Bool) (vals : List Bytes) : List Frag :=
  match vals.filter (fun v => v.length ≤ 128) with
  | [] => [.raw (str "')")]
  | a :: rest => .raw (str " OR " ++ strE ++ opText neg ++ str "(") :: (commaLits (a :: rest) ++ [.raw (str ")")])
set_option maxRecDepth 100000 in
/-- … the query text `… AND (0!=0')) GROUP BY _time` does not lex: unterminated literal -/
example : scanAll (flatten (.raw (str " AND (0!=0") ::
    (strInSkipLong (colStr 1) false [List.replicate 129 97] ++ [.raw (str ") GROUP BY _time")]))) = none := by decide
set_option maxRecDepth 100000 in
/-- … and with a short value next to it the long value silently disappears from the literals -/
example : (scanAll (flatten (.raw (str " AND (0!=0") ::
    (strInSkipLong (colStr 1) false [List.replicate 129 97, str "b"] ++ [.raw (str ") GROUP BY _time")])))).map (·.1) =
    some [str "b"] := by decide

end SH.C26
