/-
  C24 — The API points cache never serves rows older than an invalidation.

  "Within the mutable window, a cached point-query result for a range is served only if no second in that range
   was invalidated at or after the moment its load started (allowing the replication linger); otherwise it is
   reloaded. Outside the mutable window cached results are served as loaded, and the cache stays within its
   size bound regardless of the sequence of requests."
  Quantifier: all sequences of get/invalidate calls over arbitrary ranges and clock values.

  Model: SH.Model.PCache (pcache.go branch for branch; constants from SH.Gen.C24, regenerated from /repo).
  A history is an arbitrary `List Op` of critical sections (lookup = loadCached, store = the locked tail of get,
  invalidate); every clock reading, the eviction choices and the gc deletions are data in the ops, so the
  theorems hold for every interleaving of concurrent callers, every clock and every Go map order.

  Main results (helper developments: SH/Lemmas/PCacheBase, PCacheExact, PCacheEvict, PCacheInt64)
    checkLevels_sound      the hour/minute/second recursion never misses a second of [from,to] (any positive
                           steps ending in 1, any utcOffset), given that coarse maps dominate the second map
                           on buckets not older than the gc high-water mark `g`
    run_good               that domination (+ "the second map remembers every invalidation ≥ g with its latest
                           clock") is an invariant of every history
    run_tight              the converse invariant: every coarse entry is witnessed by a second of its bucket,
                           every second-map entry is an invalidation of the history
    served_fresh           headline, first sentence of C24
    invalidated_is_reloaded  "otherwise it is reloaded"
    stale_iff, served_iff  the two-sided form: stale ⟺ some second of [max(from, edge second), to] was
                           invalidated late enough; the maps never over-invalidate
    gc_never_changes_answers  invalidateLocked's deletions never change an answer inside the window
    immutable_served, served_rows_stored_by_load   second sentence ("served as loaded")
    store_load_bound, run_load_bound, cache_within_bound, cache_content_bounded   the size bound
    run_exact, needEvict_nonempty, evictLoop_no_hang, evictLoop_terminates, legal_pick_exists, size_bounded
                           exact accounting, the `k == ""` corner, termination of the eviction loop
    int64_preconditions, size_in_int64   where Int arithmetic is Go's int64 / time.Time arithmetic
  Clock hypothesis: `served_fresh` / `stale_iff` need the lookup's clock not to be behind the clock of an earlier
  invalidate call (gc forgets seconds older than ITS edge). `clock_hypothesis_needed` shows by `decide` that
  without it the code does serve stale rows; a wall clock stepping back by more than the distance of a cached
  range to the 48 h edge is outside what the property can promise.
-/
import SH.Model.PCache
import SH.Lemmas.PCacheBase
import SH.Lemmas.PCacheExact
import SH.Lemmas.PCacheEvict
import SH.Lemmas.PCacheInt64
import Mathlib.Tactic.Ring
import Mathlib.Tactic.Linarith

namespace SH.C24
open SH.PCache SH.Gen.C24

/-! ### soundness of the hierarchical check -/

/-- every level's map dominates the per-second map `sm` on buckets that start at or after `g` -/
def CovL (lv : List Level) (sm : LMap) (off g : Int) : Prop :=
  ∀ p ∈ lv, ∀ s a, mget sm s = some a → g ≤ roundTime s p.1 off →
    ∃ b, mget p.2 (roundTime s p.1 off) = some b ∧ a ≤ b

theorem checkLevels_sound (sm : LMap) (off g loadAt : Int) :
    ∀ (lv : List Level), (∀ p ∈ lv, 0 < p.1) → lv.getLast? = some (1, sm) → CovL lv sm off g →
    ∀ (f t s a : Int), g ≤ f → f ≤ s → s ≤ t → mget sm s = some a → loadAt ≤ a + invalidateLingerNs →
    checkLevels lv off loadAt f t = false := by
  intro lv
  induction lv with
  | nil => intro _ h; simp at h
  | cons p rest ih =>
    intro hpos hlast hcov f t s a hg hfs hst hsm hla
    cases rest with
    | nil =>
      simp at hlast
      subst hlast
      simp only [checkLevels]
      apply scanOK_false sm loadAt f 1 _ (s - f).toNat
      · unfold countLast; simp; omega
      · have : ((s - f).toNat : Int) = s - f := Int.toNat_of_nonneg (by omega)
        rw [this]
        have e : f + 1 * (s - f) = s := by ring
        rw [e]; exact staleKey_of sm loadAt s a a hsm (le_refl _) hla
    | cons q rest' =>
      have hp : 0 < p.1 := hpos p (by simp)
      have hpos' : ∀ x ∈ q :: rest', 0 < x.1 := fun x hx => hpos x (List.mem_cons_of_mem _ hx)
      have hlast' : (q :: rest').getLast? = some (1, sm) := by
        rw [List.getLast?_cons_cons] at hlast; exact hlast
      have hcov' : CovL (q :: rest') sm off g := fun x hx => hcov x (List.mem_cons_of_mem _ hx)
      have IH := ih hpos' hlast' hcov'
      simp only [checkLevels]
      by_cases c1 : s ≤ fromNext (roundTime f p.1 off) p.1 t
      · rw [IH f _ s a hg hfs c1 hsm hla]; simp
      · by_cases c2 : toPrev (roundTime t p.1 off) f ≤ s
        · have hg2 : g ≤ toPrev (roundTime t p.1 off) f := by unfold toPrev; split <;> omega
          have hfr := roundTime_le t p.1 off hp
          rw [IH _ t s a hg2 c2 hst hsm hla]; simp
        · have h1 : roundTime f p.1 off + p.1 < s := by
            unfold fromNext at c1; split at c1 <;> omega
          have h2 : s < roundTime t p.1 off := by
            unfold toPrev at c2; split at c2 <;> omega
          obtain ⟨k, hk, hr⟩ := round_between s f t p.1 off hp h1 h2
          have hfl := lt_roundTime_add f p.1 off hp
          have hgr : g ≤ roundTime s p.1 off := by rw [hr]; have : 0 ≤ p.1 * (k : Int) := by positivity
                                                   omega
          obtain ⟨b, hb, hab⟩ := hcov p (by simp) s a hsm hgr
          have : scanOK p.2 loadAt (roundTime f p.1 off + p.1) p.1
              (countMid (roundTime f p.1 off) (roundTime t p.1 off) p.1) = false := by
            apply scanOK_false _ _ _ _ _ k hk
            rw [← hr]; exact staleKey_of _ _ _ a b hb hab hla
          rw [this]; simp

/-! ### the invariant of the three maps, for every history -/

/-- `H` = every (second, invalidation clock) seen so far, `g` = an upper bound of every gc edge so far -/
structure Good (s : State) (H : List (Int × Int)) (g : Int) : Prop where
  stepsEq : s.levels.map (·.1) = steps
  cov : CovL s.levels (secMap s.levels) s.off g
  hist : ∀ sec tAt, (sec, tAt) ∈ H → g ≤ sec → ∃ a, mget (secMap s.levels) sec = some a ∧ tAt ≤ a

theorem update_cov (lv : List Level) (sm : LMap) (off g tAt sec : Int) (hcov : CovL lv sm off g) :
    CovL (updateLevels lv off tAt sec) (bump sm sec tAt) off g := by
  intro p' hp' s a hs hg
  unfold updateLevels at hp'
  obtain ⟨p, hp, rfl⟩ := List.mem_map.mp hp'
  simp only
  rw [mget_bump] at hs
  rw [mget_bump]
  by_cases e : sec = s
  · subst e
    simp only [if_true] at hs ⊢
    refine ⟨_, rfl, ?_⟩
    simp at hs; subst hs
    cases hm : mget sm sec with
    | none => simp only [newVal, hm]; exact newVal_ge _ _ _
    | some last =>
      by_cases h2 : tAt > last
      · simp only [newVal, hm, h2, if_true]; exact newVal_ge _ _ _
      · have e2 : newVal sm sec tAt = last := by simp only [newVal, hm, h2, if_false]
        rw [e2]
        obtain ⟨b0, hb0, hle⟩ := hcov p hp sec last hm hg
        exact le_trans hle (newVal_ge_old _ _ _ _ hb0)
  · simp only [e, if_false] at hs
    obtain ⟨b0, hb0, hle⟩ := hcov p hp s a hs hg
    by_cases e2 : roundTime sec p.1 off = roundTime s p.1 off
    · simp only [e2, if_true]
      refine ⟨_, rfl, le_trans hle ?_⟩
      apply newVal_ge_old; exact hb0
    · simp only [e2, if_false]; exact ⟨b0, hb0, hle⟩

theorem update_good (s : State) (H : List (Int × Int)) (g tAt sec : Int) (h : Good s H g) :
    Good { s with levels := updateLevels s.levels s.off tAt sec } ((sec, tAt) :: H) g := by
  have hl := levels_last s.levels h.stepsEq
  have hsm := updateLevels_secMap s.levels s.off tAt sec _ hl
  refine ⟨?_, ?_, ?_⟩
  · simp only [updateLevels_fst]; exact h.stepsEq
  · simp only [hsm]; exact update_cov _ _ _ _ _ _ h.cov
  · intro sec' tAt' hmem hg
    simp only [hsm, mget_bump]
    rcases List.mem_cons.mp hmem with e | hmem
    · simp at e; obtain ⟨e1, e2⟩ := e; subst e1; subst e2
      simp; exact newVal_ge _ _ _
    · obtain ⟨a, ha, hle⟩ := h.hist sec' tAt' hmem hg
      by_cases e : sec = sec'
      · subst e; simp; exact le_trans hle (newVal_ge_old _ _ _ _ ha)
      · simp [e]; exact ⟨a, ha, hle⟩

theorem updateAll_good (secs : List Int) : ∀ (s : State) (H : List (Int × Int)) (g tAt : Int), Good s H g →
    Good { s with levels := updateAll s.levels s.off tAt secs } (secs.map (fun x => (x, tAt)) ++ H) g := by
  induction secs with
  | nil => intro s H g tAt h; simpa [updateAll] using h
  | cons x r ih =>
    intro s H g tAt h
    have h1 := update_good s H g tAt x h
    have h2 := ih _ _ g tAt h1
    simp only [updateAll]
    refine ⟨h2.stepsEq, h2.cov, ?_⟩
    intro sec' tAt' hmem hg
    apply h2.hist sec' tAt' _ hg
    simp only [List.map_cons, List.cons_append, List.mem_cons, List.mem_append] at hmem ⊢
    tauto

theorem gc_good (s : State) (H : List (Int × Int)) (g gf : Int) (ds : List (List Int)) (h : Good s H g) (hgf : gf ≤ g) :
    Good { s with levels := gcLevels s.levels gf ds } H g := by
  have hl := levels_last s.levels h.stepsEq
  obtain ⟨d, hd⟩ := gcLevels_last s.levels gf ds _ hl
  have hsm : secMap (gcLevels s.levels gf ds) = gcMap (secMap s.levels) gf d := secMap_of_last _ _ hd
  refine ⟨?_, ?_, ?_⟩
  · simp only [gcLevels_fst]; exact h.stepsEq
  · intro p' hp' sec a hs hg
    simp only [hsm] at hs
    obtain ⟨p, hp, d', rfl⟩ := gcLevels_mem _ _ _ _ hp'
    simp only at hg ⊢
    obtain ⟨b, hb, hle⟩ := h.cov p hp sec a (mget_gcMap_some _ _ _ _ _ hs) hg
    exact ⟨b, by rw [mget_gcMap_ge _ _ _ _ (le_trans hgf hg)]; exact hb, hle⟩
  · intro sec tAt hmem hg
    obtain ⟨a, ha, hle⟩ := h.hist sec tAt hmem hg
    exact ⟨a, by simp only [hsm]; rw [mget_gcMap_ge _ _ _ _ (le_trans hgf hg)]; exact ha, hle⟩

theorem good_mono (s : State) (H : List (Int × Int)) (g g' : Int) (h : Good s H g) (hg : g ≤ g') : Good s H g' :=
  ⟨h.stepsEq,
   fun p hp sec a hs hr => h.cov p hp sec a hs (le_trans hg hr),
   fun sec tAt hm hs => h.hist sec tAt hm (le_trans hg hs)⟩

/-! ### histories -/

/-- the (second, invalidation clock) pairs an op records -/
def opEvents : Op → List (Int × Int)
  | .invalidate tAt _ secs _ => secs.map (fun x => (x, tAt))
  | _ => []

def events : List Op → List (Int × Int)
  | [] => []
  | op :: r => opEvents op ++ events r

/-- every gc edge (`now.Add(invalidateFrom).Unix()` of an invalidate call) in the history is at most `g` -/
def EdgesLe (ops : List Op) (g : Int) : Prop :=
  ∀ tAt tFrom secs dels, Op.invalidate tAt tFrom secs dels ∈ ops → edgeSec tFrom ≤ g

theorem good_congr (s s' : State) (H : List (Int × Int)) (g : Int) (hl : s'.levels = s.levels) (ho : s'.off = s.off)
    (h : Good s H g) : Good s' H g := by
  refine ⟨?_, ?_, ?_⟩
  · rw [hl]; exact h.stepsEq
  · rw [hl, ho]; exact h.cov
  · rw [hl]; exact h.hist

theorem good_sub (s : State) (H H' : List (Int × Int)) (g : Int) (hsub : ∀ x, x ∈ H' → x ∈ H) (h : Good s H g) :
    Good s H' g :=
  ⟨h.stepsEq, h.cov, fun sec tAt hm hg => h.hist sec tAt (hsub _ hm) hg⟩

theorem invalidate_good (s : State) (H : List (Int × Int)) (g tAt tFrom : Int) (secs : List Int) (dels : List (List Int))
    (h : Good s H g) (he : edgeSec tFrom ≤ g) :
    Good (invalidate s tAt tFrom secs dels) (secs.map (fun x => (x, tAt)) ++ H) g := by
  have h1 := updateAll_good secs s H g tAt h
  exact gc_good _ _ g (edgeSec tFrom) dels h1 he

theorem step_good (s : State) (H : List (Int × Int)) (g : Int) (op : Op) (h : Good s H g) (he : EdgesLe [op] g) :
    Good (step s op) (opEvents op ++ H) g := by
  cases op with
  | lookup key f t tLru tChk =>
    have hf := loadCached_frame s key f t tLru tChk
    simpa [step, opEvents] using good_congr s _ H g hf.1 hf.2.1 h
  | store key tLru cr ch =>
    have hf := store_frame s key tLru cr ch
    simpa [step, opEvents] using good_congr s _ H g hf.1 hf.2.1 h
  | invalidate tAt tFrom secs dels =>
    simp only [step, opEvents]
    exact invalidate_good s H g tAt tFrom secs dels h (he tAt tFrom secs dels (by simp))

theorem run_good : ∀ (ops : List Op) (s : State) (H : List (Int × Int)) (g : Int), Good s H g → EdgesLe ops g →
    Good (run s ops) (events ops ++ H) g := by
  intro ops
  induction ops with
  | nil => intro s H g h _; simpa [run, events] using h
  | cons op r ih =>
    intro s H g h he
    have h1 := step_good s H g op h (fun a b c d hm => he a b c d (by simp at hm; simp [hm]))
    have h2 := ih (step s op) _ g h1 (fun a b c d hm => he a b c d (List.mem_cons_of_mem _ hm))
    simp only [run]
    apply good_sub _ _ _ g _ h2
    intro x hx
    simp only [events, List.mem_append] at hx ⊢
    tauto

theorem init_good (maxSize off g : Int) : Good (init maxSize off) [] g := by
  have hs : secMap (init maxSize off).levels = [] := by
    show secMap initLevels = []
    decide
  refine ⟨by show initLevels.map (·.1) = steps; decide, ?_, ?_⟩
  · intro p _ s a hm; rw [hs] at hm; simp [mget] at hm
  · intro sec tAt hm; simp at hm

/-! ### the check is sound in every reachable state -/

theorem edge_le_of_mutable (sec now : Int) (h : beforeEdge sec now = false) : edgeSec now ≤ sec := by
  unfold beforeEdge at h; unfold edgeSec; unfold nsPerSec at *
  simp at h; omega

theorem check_sound (s : State) (H : List (Int × Int)) (g : Int) (hgood : Good s H g)
    (now loadAt f t sec a : Int) (hg : g ≤ edgeSec now) (h1 : f ≤ sec) (h2 : sec ≤ t)
    (hmut : beforeEdge sec now = false)
    (hs : mget (secMap s.levels) sec = some a) (hl : loadAt ≤ a + invalidateLingerNs) :
    checkInvalidation s.levels s.off now loadAt f t = false := by
  have he := edge_le_of_mutable sec now hmut
  have ht : beforeEdge t now = false := by
    unfold beforeEdge at *; unfold nsPerSec at *; simp at *; omega
  unfold checkInvalidation
  simp only [ht, Bool.false_eq_true, if_false]
  apply checkLevels_sound (secMap s.levels) s.off g loadAt s.levels (levels_pos _ hgood.stepsEq)
    (levels_last _ hgood.stepsEq) hgood.cov (clampFrom f now) t sec a _ _ h2 hs hl
  · unfold clampFrom; split
    · exact hg
    · rename_i hb
      have := edge_le_of_mutable f now (by simpa using hb)
      omega
  · unfold clampFrom; split <;> omega

/-! ### headline: what is served from the cache -/

/-- C24, first sentence. For EVERY history `ops` of lookup / store / invalidate critical sections (arbitrary keys,
    ranges, clock readings, eviction and gc choices): if a lookup of `(key, [f,t])` with clock reading `tChk` is
    served from the cache, then the served rows are a stored pair `cr` whose load-start time `cr.loadedAt`
    is later than `tAt + linger` for every invalidation `(sec, tAt)` of the history with `sec` in the range and
    inside the mutable window at `tChk`.
    Hypothesis `hclock`: the clock read by the lookup is not behind the clock of an earlier invalidate call
    (at second granularity of the gc edge); it is implied by a monotone clock (`served_fresh_monotone`). -/
theorem served_fresh (maxSize off : Int) (ops : List Op) (key : Nat) (f t tLru tChk : Int) (n gen : Nat)
    (hserved : (loadCached (run (init maxSize off) ops) key f t tLru tChk).2 = .served n gen)
    (hclock : EdgesLe ops (edgeSec tChk)) :
    ∃ cr, lookupRows (run (init maxSize off) ops) key f t = some cr ∧ cr.n = n ∧ cr.gen = gen ∧
      ∀ sec tAt, (sec, tAt) ∈ events ops → f ≤ sec → sec ≤ t → beforeEdge sec tChk = false →
        tAt + invalidateLingerNs < cr.loadedAt := by
  have hgood := run_good ops (init maxSize off) [] (edgeSec tChk) (init_good _ _ _) hclock
  generalize run (init maxSize off) ops = s at *
  unfold loadCached at hserved
  cases hl : lookupRows s key f t with
  | none => simp [hl] at hserved
  | some cr =>
    simp only [hl] at hserved
    by_cases hc : checkInvalidation s.levels s.off tChk cr.loadedAt f t = true
    · simp only [hc, if_true] at hserved
      injection hserved with e1 e2
      refine ⟨cr, rfl, e1, e2, ?_⟩
      intro sec tAt hev h1 h2 hmut
      by_contra hcon
      obtain ⟨a, ha, hle⟩ := hgood.hist sec tAt (by simpa using hev) (edge_le_of_mutable sec tChk hmut)
      have := check_sound s _ _ hgood tChk cr.loadedAt f t sec a (le_refl _) h1 h2 hmut ha (by omega)
      rw [this] at hc; simp at hc
    · simp [hc] at hserved

theorem edgeSec_mono (a b : Int) (h : a ≤ b) : edgeSec a ≤ edgeSec b := by
  unfold edgeSec immutableNs nsPerSec; omega

/-- the same with the clock hypothesis in its natural form: no earlier invalidate call read a later clock -/
theorem served_fresh_monotone (maxSize off : Int) (ops : List Op) (key : Nat) (f t tLru tChk : Int) (n gen : Nat)
    (hserved : (loadCached (run (init maxSize off) ops) key f t tLru tChk).2 = .served n gen)
    (hmono : ∀ tAt tFrom secs dels, Op.invalidate tAt tFrom secs dels ∈ ops → tFrom ≤ tChk) :
    ∃ cr, lookupRows (run (init maxSize off) ops) key f t = some cr ∧ cr.n = n ∧ cr.gen = gen ∧
      ∀ sec tAt, (sec, tAt) ∈ events ops → f ≤ sec → sec ≤ t → beforeEdge sec tChk = false →
        tAt + invalidateLingerNs < cr.loadedAt :=
  served_fresh maxSize off ops key f t tLru tChk n gen hserved
    (fun a b c d hm => edgeSec_mono _ _ (hmono a b c d hm))

/-- C24, "otherwise it is reloaded": an invalidated second in range (inside the window, not older than the load
    start minus the linger) makes the lookup answer `stale`, never `served`. -/
theorem invalidated_is_reloaded (maxSize off : Int) (ops : List Op) (key : Nat) (f t tLru tChk : Int) (cr : CRows)
    (hclock : EdgesLe ops (edgeSec tChk))
    (hcached : lookupRows (run (init maxSize off) ops) key f t = some cr)
    (sec tAt : Int) (hev : (sec, tAt) ∈ events ops) (h1 : f ≤ sec) (h2 : sec ≤ t)
    (hmut : beforeEdge sec tChk = false) (hl : cr.loadedAt ≤ tAt + invalidateLingerNs) :
    (loadCached (run (init maxSize off) ops) key f t tLru tChk).2 = .stale := by
  cases hres : (loadCached (run (init maxSize off) ops) key f t tLru tChk).2 with
  | stale => rfl
  | absent =>
    unfold loadCached at hres; rw [hcached] at hres; simp only at hres
    split at hres <;> simp at hres
  | served n gen =>
    obtain ⟨cr', hc', _, _, hall⟩ := served_fresh maxSize off ops key f t tLru tChk n gen hres hclock
    rw [hcached] at hc'; injection hc' with e; subst e
    have := hall sec tAt hev h1 h2 hmut
    omega

/-- C24, second sentence: a cached range that ends before the mutable window is served as stored. -/
theorem immutable_served (s : State) (key : Nat) (f t tLru tChk : Int) (cr : CRows)
    (hcached : lookupRows s key f t = some cr) (him : beforeEdge t tChk = true) :
    (loadCached s key f t tLru tChk).2 = .served cr.n cr.gen := by
  unfold loadCached; rw [hcached]; simp [checkInvalidation, him]

/-! ### provenance: rows and load time are stored together by one store section -/

def Prov (s : State) (L : List Op) : Prop :=
  ∀ e ∈ s.cache, ∀ cr ∈ e.rows, ∃ tLru ch, Op.store e.key tLru cr ch ∈ L

theorem prov_sub (s : State) (L L' : List Op) (hsub : ∀ x, x ∈ L → x ∈ L') (h : Prov s L) : Prov s L' := by
  intro e he cr hcr
  obtain ⟨a, b, hm⟩ := h e he cr hcr
  exact ⟨a, b, hsub _ hm⟩

theorem evictOne_cache_sub (s : State) (k : Nat) : ∀ e ∈ (evictOne s k).cache, e ∈ s.cache := by
  intro e he
  unfold evictOne at he; split at he
  · exact he
  · simp at he; exact he.1

theorem evictLoop_cache_sub : ∀ (ch : List Nat) (s : State), ∀ e ∈ (evictLoop s ch).1.cache, e ∈ s.cache := by
  intro ch
  induction ch with
  | nil => intro s e he; simp only [evictLoop] at he; split at he <;> (try split at he) <;> exact he
  | cons k ks ih =>
    intro s e he
    simp only [evictLoop] at he
    split at he
    · split at he
      · exact evictOne_cache_sub s k e (ih _ e he)
      · exact he
    · exact he

theorem insertRows_prov (s : State) (key : Nat) (tLru : Int) (cr : CRows) (ch : List Nat) (L : List Op)
    (h : Prov s L) : Prov (insertRows s key tLru cr) (Op.store key tLru cr ch :: L) := by
  intro e he cr' hcr'
  unfold insertRows at he
  simp only at he
  split at he
  · obtain ⟨a, b, hm⟩ := h e he cr' hcr'; exact ⟨a, b, List.mem_cons_of_mem _ hm⟩
  · simp only [List.mem_map] at he
    obtain ⟨x, hx, rfl⟩ := he
    have hxold : x ∈ s.cache ∨ x = { key := key, lru := 0, rows := [], rowsSize := 0 } := by
      unfold addKey at hx; split at hx
      · exact Or.inl hx
      · simp at hx; exact hx
    by_cases hk : x.key = key
    · simp only [hk, if_true] at hcr' ⊢
      simp only [putEntry, putRange, List.mem_cons, List.mem_filter] at hcr'
      rcases hcr' with e1 | e1
      · subst e1; exact ⟨tLru, ch, by simp [putEntry, hk]⟩
      · rcases hxold with h1 | h1
        · obtain ⟨a, b, hm⟩ := h x h1 cr' e1.1
          exact ⟨a, b, by simp only [putEntry]; rw [← hk]; exact List.mem_cons_of_mem _ hm⟩
        · subst h1; simp at e1
    · simp only [hk, if_false] at hcr' ⊢
      rcases hxold with h1 | h1
      · obtain ⟨a, b, hm⟩ := h x h1 cr' hcr'; exact ⟨a, b, List.mem_cons_of_mem _ hm⟩
      · subst h1; simp at hcr'

theorem step_prov (s : State) (L : List Op) (op : Op) (h : Prov s L) : Prov (step s op) (op :: L) := by
  cases op with
  | lookup key f t tLru tChk =>
    intro e he cr hcr
    have hc : (step s (.lookup key f t tLru tChk)).cache = s.cache ∨
        (step s (.lookup key f t tLru tChk)).cache = setLru s.cache key tLru := by
      simp only [step, loadCached]; split
      · exact Or.inl rfl
      · split <;> exact Or.inr rfl
    rcases hc with hc | hc
    · rw [hc] at he; obtain ⟨a, b, hm⟩ := h e he cr hcr; exact ⟨a, b, List.mem_cons_of_mem _ hm⟩
    · rw [hc] at he
      unfold setLru at he
      obtain ⟨x, hx, rfl⟩ := List.mem_map.mp he
      by_cases hk : x.key = key
      · simp only [hk, if_true] at hcr ⊢
        obtain ⟨a, b, hm⟩ := h x hx cr hcr; exact ⟨a, b, by rw [← hk]; exact List.mem_cons_of_mem _ hm⟩
      · simp only [hk, if_false] at hcr ⊢
        obtain ⟨a, b, hm⟩ := h x hx cr hcr; exact ⟨a, b, List.mem_cons_of_mem _ hm⟩
  | invalidate tAt tFrom secs dels =>
    intro e he cr hcr
    obtain ⟨a, b, hm⟩ := h e (by simpa [step, invalidate] using he) cr hcr
    exact ⟨a, b, List.mem_cons_of_mem _ hm⟩
  | store key tLru cr0 ch =>
    have h1 : Prov (evictLoop s ch).1 L := fun e he cr hcr => h e (evictLoop_cache_sub ch s e he) cr hcr
    simp only [step, store]
    split
    · rename_i s1 heq
      rw [heq] at h1
      exact insertRows_prov s1 key tLru cr0 ch L h1
    · rename_i s1 f _ heq
      rw [heq] at h1
      exact prov_sub _ _ _ (fun x hx => List.mem_cons_of_mem _ hx) h1

theorem run_prov : ∀ (ops : List Op) (s : State) (L : List Op), Prov s L → Prov (run s ops) (ops ++ L) := by
  intro ops
  induction ops with
  | nil => intro s L h; simpa [run] using h
  | cons op r ih =>
    intro s L h
    have := ih (step s op) (op :: L) (step_prov s L op h)
    simp only [run]
    exact prov_sub _ _ _ (fun x hx => by simp only [List.mem_append, List.mem_cons] at hx ⊢; tauto) this

/-- whatever a lookup finds for `(key, [f,t])` — rows (n, gen) together with their loadedAt — was put there by
    one store section of the history for exactly that key and range ("served as loaded"; a load of another
    range or key can never refresh it) -/
theorem served_rows_stored_by_load (maxSize off : Int) (ops : List Op) (key : Nat) (f t : Int) (cr : CRows)
    (h : lookupRows (run (init maxSize off) ops) key f t = some cr) :
    cr.tFrom = f ∧ cr.tTo = t ∧ ∃ tLru ch, Op.store key tLru cr ch ∈ ops := by
  have hp := run_prov ops (init maxSize off) [] (by intro e he; simp [init] at he)
  unfold lookupRows at h
  split at h
  · simp at h
  · rename_i e he
    obtain ⟨hmem, hkey⟩ := findEntry_mem _ _ _ he
    obtain ⟨hr, h1, h2⟩ := findRows_mem _ _ _ _ h
    obtain ⟨a, b, hm⟩ := hp e hmem cr hr
    exact ⟨h1, h2, a, b, by simpa [hkey] using hm⟩


/-! ### the size bound -/

theorem evictOne_load_le (s : State) (k : Nat) : load (evictOne s k) ≤ load s := by
  unfold evictOne; split
  · exact le_refl _
  · rename_i e _
    unfold load; simp only
    have h1 := entryCost_nonneg e
    have h2 : (s.cache.filter (fun x => x.key ≠ k)).length ≤ s.cache.length := List.length_filter_le _ _
    omega

theorem evictLoop_load_le : ∀ (ch : List Nat) (s : State), load (evictLoop s ch).1 ≤ load s := by
  intro ch
  induction ch with
  | nil => intro s; simp only [evictLoop]; split <;> (try split) <;> exact le_refl _
  | cons k ks ih =>
    intro s; simp only [evictLoop]; split
    · split
      · exact le_trans (ih _) (evictOne_load_le s k)
      · exact le_refl _
    · exact le_refl _

/-- when the loop ends normally the cache is strictly below approxMaxSize -/
theorem evictLoop_ok_below : ∀ (ch : List Nat) (s : State), (evictLoop s ch).2 = .ok →
    load (evictLoop s ch).1 < s.maxSize := by
  intro ch
  induction ch with
  | nil =>
    intro s h; simp only [evictLoop] at h ⊢
    split
    · rename_i hn; simp only [hn, if_true] at h; split at h <;> simp at h
    · rename_i hn; unfold needEvict at hn; unfold load; simp at hn; omega
  | cons k ks ih =>
    intro s h; simp only [evictLoop] at h ⊢
    split
    · rename_i hn; simp only [hn, if_true] at h
      split
      · rename_i hl; simp only [hl, if_true] at h
        have := ih _ h
        rw [(evictOne_frame s k).2.2] at this; exact this
      · rename_i hl; simp [hl] at h
    · rename_i hn; simp [hn] at h

theorem insertRows_load_le (s : State) (key : Nat) (tLru : Int) (cr : CRows) :
    load (insertRows s key tLru cr) ≤ load s + 2 + (cr.n : Int) := by
  unfold insertRows; simp only
  have hlen : ((addKey s.cache key).length : Int) ≤ (s.cache.length : Int) + 1 := by
    unfold addKey; split <;> simp
  split
  · omega
  · rename_i e _
    unfold load; simp only [List.length_map]
    have : sizeDelta e cr ≤ 1 + (cr.n : Int) := by unfold sizeDelta; split <;> omega
    omega

/-- C24 size bound, one store: after a store section that ran to completion the accounted size (rows + ranges
    + keys) is at most approxMaxSize + 1 + (rows just loaded) -/
theorem store_load_bound (s : State) (key : Nat) (tLru : Int) (cr : CRows) (ch : List Nat)
    (hok : (store s key tLru cr ch).2 = .ok) :
    load (store s key tLru cr ch).1 ≤ s.maxSize + 1 + (cr.n : Int) := by
  have hb := evictLoop_ok_below ch s
  unfold store at hok ⊢
  rcases hE : evictLoop s ch with ⟨s1, f⟩
  rw [hE] at hb
  simp only [hE] at hok ⊢
  cases f with
  | ok =>
    simp only at hb ⊢
    have h1 := insertRows_load_le s1 key tLru cr
    have h2 := hb trivial
    omega
  | hang => simp at hok
  | noChoice => simp at hok
  | illegal => simp at hok
  | extra => simp at hok

/-- every store of the history loads at most `N` rows -/
def RowsLe (ops : List Op) (N : Nat) : Prop := ∀ key tLru cr ch, Op.store key tLru cr ch ∈ ops → cr.n ≤ N

theorem step_load_bound (s : State) (op : Op) (B : Int) (N : Nat) (h : load s ≤ B)
    (hB : s.maxSize + 1 + (N : Int) ≤ B) (hop : RowsLe [op] N) : load (step s op) ≤ B := by
  cases op with
  | lookup key f t tLru tChk =>
    have : load (step s (.lookup key f t tLru tChk)) = load s := by
      simp only [step, loadCached]; split
      · rfl
      · split <;> simp [load, setLru_length]
    omega
  | invalidate tAt tFrom secs dels => simpa [step, invalidate, load] using h
  | store key tLru cr ch =>
    have hn : cr.n ≤ N := hop key tLru cr ch (by simp)
    simp only [step]
    by_cases hok : (store s key tLru cr ch).2 = .ok
    · have := store_load_bound s key tLru cr ch hok
      have : (cr.n : Int) ≤ N := by exact_mod_cast hn
      omega
    · have h2 : (store s key tLru cr ch).1 = (evictLoop s ch).1 := by
        unfold store at hok ⊢
        rcases hE : evictLoop s ch with ⟨s1, f⟩
        simp only [hE] at hok ⊢
        cases f <;> simp at hok ⊢
      rw [h2]; exact le_trans (evictLoop_load_le ch s) h

theorem step_maxSize (s : State) (op : Op) : (step s op).maxSize = s.maxSize := by
  cases op with
  | lookup key f t tLru tChk => exact (loadCached_frame s key f t tLru tChk).2.2
  | invalidate tAt tFrom secs dels => rfl
  | store key tLru cr ch => exact (store_frame s key tLru cr ch).2.2

/-- C24 size bound, every history: whatever the sequence of requests (any eviction choices, also ones the real
    loop cannot make), the accounted size never exceeds approxMaxSize + 1 + (largest single load) -/
theorem run_load_bound (N : Nat) : ∀ (ops : List Op) (s : State) (B : Int), load s ≤ B → s.maxSize + 1 + (N : Int) ≤ B →
    RowsLe ops N → load (run s ops) ≤ B := by
  intro ops
  induction ops with
  | nil => intro s B h _ _; simpa [run] using h
  | cons op r ih =>
    intro s B h hB hr
    simp only [run]
    apply ih (step s op) B
    · exact step_load_bound s op B N h hB (fun a b c d hm => hr a b c d (by simp at hm; simp [hm]))
    · rw [step_maxSize]; exact hB
    · exact fun a b c d hm => hr a b c d (List.mem_cons_of_mem _ hm)

theorem cache_within_bound (maxSize off : Int) (N : Nat) (ops : List Op) (hpos : 0 ≤ maxSize) (hr : RowsLe ops N) :
    load (run (init maxSize off) ops) ≤ maxSize + 1 + (N : Int) :=
  run_load_bound N ops (init maxSize off) _ (by simp [load, init]; omega) (by simp [init]) hr


/-! ### the accounted size dominates the real content -/

structure Acc (s : State) : Prop where
  sizeGe : costSum s.cache ≤ s.size
  nodup : (s.cache.map (·.key)).Nodup
  rowsLe : ∀ e ∈ s.cache, rowsTotal e.rows ≤ (e.rowsSize : Int)

theorem sum_actual_le : ∀ (c : List Entry), (∀ e ∈ c, rowsTotal e.rows ≤ (e.rowsSize : Int)) →
    (c.map actualEntry).sum ≤ (c.length : Int) + costSum c := by
  intro c
  induction c with
  | nil => intro _; simp [costSum]
  | cons x r ih =>
    intro h
    have h1 := h x (by simp)
    have h2 := ih (fun e he => h e (List.mem_cons_of_mem _ he))
    have hx : actualEntry x ≤ 1 + entryCost x := by unfold actualEntry entryCost; omega
    simp only [List.map_cons, List.sum_cons, List.length_cons, costSum] at h2 ⊢
    push_cast
    omega

theorem evictOne_acc (s : State) (k : Nat) (h : Acc s) : Acc (evictOne s k) := by
  unfold evictOne; split
  · exact h
  · rename_i e he
    refine ⟨?_, ?_, ?_⟩
    · have := costSum_filter s.cache k e he
      have := h.sizeGe
      simp only; omega
    · exact List.Nodup.sublist (List.Sublist.map _ List.filter_sublist) h.nodup
    · intro x hx; exact h.rowsLe x (List.mem_filter.mp hx).1

theorem evictLoop_acc : ∀ (ch : List Nat) (s : State), Acc s → Acc (evictLoop s ch).1 := by
  intro ch
  induction ch with
  | nil => intro s h; simp only [evictLoop]; split <;> (try split) <;> exact h
  | cons k ks ih =>
    intro s h; simp only [evictLoop]; split
    · split
      · exact ih _ (evictOne_acc s k h)
      · exact h
    · exact h

theorem putEntry_cost (e : Entry) (tLru : Int) (cr : CRows) :
    entryCost (putEntry e tLru cr) ≤ entryCost e + sizeDelta e cr := by
  unfold entryCost putEntry putRange sizeDelta
  simp only [List.length_cons]
  push_cast
  split
  · rename_i h
    have := filter_range_len e.rows cr.tFrom cr.tTo h
    omega
  · have := List.length_filter_le (fun x => !isRange x cr.tFrom cr.tTo) e.rows
    omega

theorem addKey_props (c : List Entry) (key : Nat) (hnd : (c.map (·.key)).Nodup)
    (hrows : ∀ e ∈ c, rowsTotal e.rows ≤ (e.rowsSize : Int)) :
    costSum (addKey c key) = costSum c ∧ ((addKey c key).map (·.key)).Nodup ∧
    (∀ e ∈ addKey c key, rowsTotal e.rows ≤ (e.rowsSize : Int)) := by
  unfold addKey; split
  · exact ⟨rfl, hnd, hrows⟩
  · rename_i hk
    have hnone : findEntry c key = none := by
      unfold hasKey at hk; cases hf : findEntry c key <;> simp [hf] at hk ⊢
    refine ⟨?_, ?_, ?_⟩
    · simp [costSum, entryCost]
    · rw [List.map_append, List.nodup_append]
      refine ⟨hnd, by simp, ?_⟩
      intro a ha b hb
      simp at hb
      obtain ⟨e, he, rfl⟩ := List.mem_map.mp ha
      rw [hb]; exact findEntry_none c key hnone e he
    · intro e he
      rcases List.mem_append.mp he with h1 | h1
      · exact hrows e h1
      · simp at h1; subst h1; simp [rowsTotal]

theorem insertRows_acc (s : State) (key : Nat) (tLru : Int) (cr : CRows) (h : Acc s) :
    Acc (insertRows s key tLru cr) := by
  obtain ⟨hc, hnd, hrows⟩ := addKey_props s.cache key h.nodup h.rowsLe
  unfold insertRows; simp only
  split
  · exact h
  · rename_i e he
    refine ⟨?_, ?_, ?_⟩
    · simp only
      rw [costSum_update _ key (fun x => putEntry x tLru cr) e hnd he]
      have := putEntry_cost e tLru cr
      have := h.sizeGe
      omega
    · simp only [List.map_map]
      have : ((fun (x : Entry) => x.key) ∘ fun x => if x.key = key then putEntry x tLru cr else x) = (fun x => x.key) := by
        funext x; simp only [Function.comp]; split <;> simp [putEntry]
      rw [this]; exact hnd
    · intro x hx
      simp only [List.mem_map] at hx
      obtain ⟨y, hy, rfl⟩ := hx
      have hyr := hrows y hy
      split
      · simp only [putEntry, putRange, rowsTotal, List.map_cons, List.sum_cons]
        have := rowsTotal_filter_le y.rows (fun x => !isRange x cr.tFrom cr.tTo)
        unfold rowsTotal at this hyr
        push_cast; omega
      · exact hyr

theorem step_acc (s : State) (op : Op) (h : Acc s) : Acc (step s op) := by
  cases op with
  | invalidate tAt tFrom secs dels => exact ⟨h.sizeGe, h.nodup, h.rowsLe⟩
  | store key tLru cr ch =>
    simp only [step, store]
    have h1 := evictLoop_acc ch s h
    rcases hE : evictLoop s ch with ⟨s1, f⟩
    rw [hE] at h1
    cases f <;> simp only <;> first | exact insertRows_acc s1 key tLru cr h1 | exact h1
  | lookup key f t tLru tChk =>
    have hset : Acc { s with cache := setLru s.cache key tLru } := by
      have hmap : ∀ c : List Entry, (setLru c key tLru).map entryCost = c.map entryCost ∧
          (setLru c key tLru).map (·.key) = c.map (·.key) := by
        intro c; unfold setLru; simp only [List.map_map]
        constructor <;> (apply List.map_congr_left; intro x _; simp only [Function.comp]; split <;> simp [entryCost])
      refine ⟨?_, ?_, ?_⟩
      · simp only [costSum, (hmap s.cache).1]; exact h.sizeGe
      · simp only [(hmap s.cache).2]; exact h.nodup
      · intro e he
        unfold setLru at he
        obtain ⟨y, hy, rfl⟩ := List.mem_map.mp he
        have := h.rowsLe y hy
        split <;> simpa using this
    simp only [step, loadCached]; split
    · exact h
    · split <;> exact hset

theorem run_acc : ∀ (ops : List Op) (s : State), Acc s → Acc (run s ops) := by
  intro ops
  induction ops with
  | nil => intro s h; simpa [run] using h
  | cons op r ih => intro s h; simp only [run]; exact ih _ (step_acc s op h)

theorem init_acc (maxSize off : Int) : Acc (init maxSize off) :=
  ⟨by simp [init, costSum], by simp [init], by intro e he; simp [init] at he⟩

/-- C24, last clause, every history: what the cache really holds (keys + ranges + rows, counted from the
    entries themselves) never exceeds the accounted size, hence stays ≤ approxMaxSize + 1 + largest load. -/
theorem cache_content_bounded (maxSize off : Int) (N : Nat) (ops : List Op) (hpos : 0 ≤ maxSize) (hr : RowsLe ops N) :
    actual (run (init maxSize off) ops) ≤ maxSize + 1 + (N : Int) := by
  have hacc := run_acc ops _ (init_acc maxSize off)
  have h1 := sum_actual_le _ hacc.rowsLe
  have h2 := hacc.sizeGe
  have h3 := cache_within_bound maxSize off N ops hpos hr
  unfold actual; unfold load at h3
  omega

/-! ### non-vacuity: concrete histories (kernel-evaluated) -/

def exInval : Op := .invalidate 200000000000000 200000000000000 [37000] [[], [], []]
def exRows (la : Int) : CRows := { tFrom := 30000, tTo := 45000, n := 2, gen := 7, loadedAt := la }
/-- second 37000 (inside the hour bucket 36000, strictly inside the range 30000..45000, 9800 s inside the
    mutable window) is invalidated at clock 200000 s; then rows loaded at `la` are stored -/
def exOps (la : Int) : List Op := [exInval, .store 1 200020000000000 (exRows la) []]

/-- load started 1 ns after invalidation + linger: served (hypotheses of `served_fresh` are satisfiable and its
    conclusion is about a real event) -/
example : (loadCached (run (init 10 0) (exOps 200015000000001)) 1 30000 45000 200030000000000 200030000000000).2
    = .served 2 7 := by decide
example : EdgesLe (exOps 200015000000001) (edgeSec 200030000000000) := by
  intro a b c d hm
  simp [exOps, exInval] at hm
  obtain ⟨_, rfl, _, _⟩ := hm
  decide
example : (37000, 200000000000000) ∈ events (exOps 200015000000001) ∧ beforeEdge 37000 200030000000000 = false := by
  decide
/-- load started exactly at invalidation + linger: reloaded (the coarse hour map catches it) -/
example : (loadCached (run (init 10 0) (exOps 200015000000000)) 1 30000 45000 200030000000000 200030000000000).2
    = .stale := by decide
/-- the same rows once the range has left the mutable window (clock + 48 h): served as stored -/
example : (loadCached (run (init 10 0) (exOps 200015000000000)) 1 30000 45000 400000000000000 400000000000000).2
    = .served 2 7 := by decide
/-- size bound is reached exactly: approxMaxSize 3, a 2-row load into the empty cache gives load = 4 ≤ 3 + 1 + 2 -/
example : load (run (init 3 0) (exOps 0)) = 4 := by decide

/-- The clock hypothesis of `served_fresh` is necessary for the code as it is. History: second 38700 is
    invalidated at clock A = 200000 s; rows for 33000..43300 that were loaded 1 ns BEFORE that are stored; a later
    invalidate call at clock 210600 s garbage-collects the hour key 36000 (< its edge 37800) but keeps second 38700;
    then a lookup whose clock reads 200030 s (the wall clock stepped back ~3 h) scans the hour map, finds no
    hour 36000 and serves the stale rows. With a clock that does not step back the lookup is `stale`. -/
def backOps : List Op :=
  [.invalidate 200000000000000 200000000000000 [38700] [[], [], []],
   .store 1 200001000000000 { tFrom := 33000, tTo := 43300, n := 1, gen := 1, loadedAt := 199999999999999 } [],
   .invalidate 210600000000000 210600000000000 [] [[36000], [], []]]

theorem clock_hypothesis_needed :
    (loadCached (run (init 10 0) backOps) 1 33000 43300 200030000000000 200030000000000).2 = .served 1 1 ∧
    (38700, 200000000000000) ∈ events backOps ∧ beforeEdge 38700 200030000000000 = false ∧
    (199999999999999 : Int) ≤ 200000000000000 + invalidateLingerNs ∧
    invalidateLegal (run (init 10 0) (backOps.take 2)) 210600000000000 210600000000000 [] [[36000], [], []] = true ∧
    (loadCached (run (init 10 0) backOps) 1 33000 43300 210700000000000 210700000000000).2 = .stale := by
  decide




/-! ### completeness: the maps never over-invalidate -/

/-- the converse of `Good`: coarse entries are witnessed by seconds of their bucket, and every entry of the
    per-second map is an invalidation of the history with exactly that clock -/
structure Tight (s : State) (H : List (Int × Int)) (g : Int) : Prop where
  wit : WitL s.levels (secMap s.levels) s.off g
  src : ∀ sec a, mget (secMap s.levels) sec = some a → (sec, a) ∈ H

theorem tight_sup (s : State) (H H' : List (Int × Int)) (g : Int) (hsub : ∀ x, x ∈ H → x ∈ H') (h : Tight s H g) :
    Tight s H' g :=
  ⟨h.wit, fun sec a hm => hsub _ (h.src sec a hm)⟩

theorem tight_congr (s s' : State) (H : List (Int × Int)) (g : Int) (hl : s'.levels = s.levels) (ho : s'.off = s.off)
    (h : Tight s H g) : Tight s' H g := by
  refine ⟨?_, ?_⟩
  · rw [hl, ho]; exact h.wit
  · rw [hl]; exact h.src

theorem update_tight (s : State) (H : List (Int × Int)) (g tAt sec : Int) (hg : Good s H g) (h : Tight s H g) :
    Tight { s with levels := updateLevels s.levels s.off tAt sec } ((sec, tAt) :: H) g := by
  have hl := levels_last s.levels hg.stepsEq
  have hsm := updateLevels_secMap s.levels s.off tAt sec _ hl
  refine ⟨?_, ?_⟩
  · simp only [hsm]; exact update_wit _ _ _ _ _ _ h.wit
  · intro sec' a hm
    simp only [hsm, mget_bump] at hm
    by_cases e : sec = sec'
    · subst e
      simp only [if_true] at hm
      injection hm with hm
      cases hold : mget (secMap s.levels) sec with
      | none =>
        have : a = tAt := by rw [← hm]; simp only [newVal, hold]
        rw [this]; simp
      | some last =>
        by_cases h2 : tAt > last
        · have : a = tAt := by rw [← hm]; simp only [newVal, hold, h2, if_true]
          rw [this]; simp
        · have : a = last := by rw [← hm]; simp only [newVal, hold, h2, if_false]
          rw [this]; exact List.mem_cons_of_mem _ (h.src sec last hold)
    · simp only [e, if_false] at hm
      exact List.mem_cons_of_mem _ (h.src sec' a hm)

theorem updateAll_tight (secs : List Int) : ∀ (s : State) (H : List (Int × Int)) (g tAt : Int), Good s H g → Tight s H g →
    Tight { s with levels := updateAll s.levels s.off tAt secs } (secs.map (fun x => (x, tAt)) ++ H) g := by
  induction secs with
  | nil => intro s H g tAt _ h; simpa [updateAll] using h
  | cons x r ih =>
    intro s H g tAt hg h
    have g1 := update_good s H g tAt x hg
    have h1 := update_tight s H g tAt x hg h
    have h2 := ih _ _ g tAt g1 h1
    simp only [updateAll]
    apply tight_sup _ _ _ g _ h2
    intro y hy
    simp only [List.map_cons, List.cons_append, List.mem_cons, List.mem_append] at hy ⊢
    tauto

theorem gc_tight (s : State) (H : List (Int × Int)) (g gf : Int) (ds : List (List Int)) (hg : Good s H g)
    (h : Tight s H g) (hgf : gf ≤ g) : Tight { s with levels := gcLevels s.levels gf ds } H g := by
  have hl := levels_last s.levels hg.stepsEq
  obtain ⟨d, hd⟩ := gcLevels_last s.levels gf ds _ hl
  have hsm : secMap (gcLevels s.levels gf ds) = gcMap (secMap s.levels) gf d := secMap_of_last _ _ hd
  refine ⟨?_, ?_⟩
  · simp only [hsm]; exact gc_wit _ _ _ _ _ _ _ (levels_pos _ hg.stepsEq) h.wit hgf
  · intro sec a hm
    simp only [hsm] at hm
    exact h.src sec a (mget_gcMap_some _ _ _ _ _ hm)

theorem step_tight (s : State) (H : List (Int × Int)) (g : Int) (op : Op) (hg : Good s H g) (h : Tight s H g)
    (he : EdgesLe [op] g) : Tight (step s op) (opEvents op ++ H) g := by
  cases op with
  | lookup key f t tLru tChk =>
    have hf := loadCached_frame s key f t tLru tChk
    simpa [step, opEvents] using tight_congr s _ H g hf.1 hf.2.1 h
  | store key tLru cr ch =>
    have hf := store_frame s key tLru cr ch
    simpa [step, opEvents] using tight_congr s _ H g hf.1 hf.2.1 h
  | invalidate tAt tFrom secs dels =>
    simp only [step, opEvents]
    have g1 := updateAll_good secs s H g tAt hg
    have h1 := updateAll_tight secs s H g tAt hg h
    exact gc_tight _ _ g (edgeSec tFrom) dels g1 h1 (he tAt tFrom secs dels (by simp))

theorem run_tight : ∀ (ops : List Op) (s : State) (H : List (Int × Int)) (g : Int), Good s H g → Tight s H g →
    EdgesLe ops g → Tight (run s ops) (events ops ++ H) g := by
  intro ops
  induction ops with
  | nil => intro s H g _ h _; simpa [run, events] using h
  | cons op r ih =>
    intro s H g hg h he
    have he1 : EdgesLe [op] g := fun a b c d hm => he a b c d (by simp at hm; simp [hm])
    have g1 := step_good s H g op hg he1
    have h1 := step_tight s H g op hg h he1
    have h2 := ih (step s op) _ g g1 h1 (fun a b c d hm => he a b c d (List.mem_cons_of_mem _ hm))
    simp only [run]
    apply tight_sup _ _ _ g _ h2
    intro x hx
    simp only [events, List.mem_append] at hx ⊢
    tauto

theorem init_tight (maxSize off g : Int) : Tight (init maxSize off) [] g := by
  have hs : secMap (init maxSize off).levels = [] := by
    show secMap initLevels = []
    decide
  refine ⟨?_, ?_⟩
  · intro p hp k b hb _
    have : p.2 = [] := by
      have hp' : p ∈ initLevels := hp
      unfold initLevels at hp'
      obtain ⟨st, _, rfl⟩ := List.mem_map.mp hp'
      rfl
    rw [this] at hb; simp [mget] at hb
  · intro sec a hm; rw [hs] at hm; simp [mget] at hm

theorem edge_le_clamp (f now : Int) : edgeSec now ≤ clampFrom f now := by
  unfold clampFrom; split
  · exact le_refl _
  · rename_i hb; exact edge_le_of_mutable f now (by simpa using hb)

/-- `check_sound` for the range the code really scans, `[clampFrom f now, t]` (it includes the second that
    contains the edge even when the edge has a sub-second part) -/
theorem check_sound_clamp (s : State) (H : List (Int × Int)) (g : Int) (hgood : Good s H g)
    (now loadAt f t sec a : Int) (hg : g ≤ edgeSec now) (ht : beforeEdge t now = false)
    (h1 : clampFrom f now ≤ sec) (h2 : sec ≤ t)
    (hs : mget (secMap s.levels) sec = some a) (hl : loadAt ≤ a + invalidateLingerNs) :
    checkInvalidation s.levels s.off now loadAt f t = false := by
  unfold checkInvalidation
  simp only [ht, Bool.false_eq_true, if_false]
  exact checkLevels_sound (secMap s.levels) s.off g loadAt s.levels (levels_pos _ hgood.stepsEq)
    (levels_last _ hgood.stepsEq) hgood.cov (clampFrom f now) t sec a
    (le_trans hg (edge_le_clamp f now)) h1 h2 hs hl

/-- the check answers `false` only because of a second inside the scanned range whose entry is late enough -/
theorem check_exact (s : State) (H : List (Int × Int)) (g : Int) (hgood : Good s H g) (htight : Tight s H g)
    (now loadAt f t : Int) (hg : g ≤ edgeSec now)
    (hc : checkInvalidation s.levels s.off now loadAt f t = false) :
    beforeEdge t now = false ∧
    ∃ sec a, clampFrom f now ≤ sec ∧ sec ≤ t ∧ mget (secMap s.levels) sec = some a ∧
      loadAt ≤ a + invalidateLingerNs := by
  unfold checkInvalidation at hc
  cases ht : beforeEdge t now with
  | true => simp [ht] at hc
  | false =>
    simp only [ht, Bool.false_eq_true, if_false] at hc
    refine ⟨rfl, ?_⟩
    exact checkLevels_exact (secMap s.levels) s.off g loadAt s.levels (levels_pos _ hgood.stepsEq)
      (levels_last _ hgood.stepsEq) htight.wit (clampFrom f now) t (le_trans hg (edge_le_clamp f now)) hc

/-- C24 two-sided (`served_iff` of DESIGN §6). For EVERY history: a cached range is reported stale (and then
    reloaded by get) IF AND ONLY IF it does not end before the mutable window and some second of the scanned
    range `[max(from, edge second), to]` was invalidated, in this history, at a clock `tAt` with
    `loadedAt ≤ tAt + linger`. No coarse-bucket over-invalidation exists: the witness second lies inside the
    range itself, because a coarse key is consulted only when its whole bucket is inside the range. -/
theorem stale_iff (maxSize off : Int) (ops : List Op) (key : Nat) (f t tLru tChk : Int) (cr : CRows)
    (hclock : EdgesLe ops (edgeSec tChk))
    (hcached : lookupRows (run (init maxSize off) ops) key f t = some cr) :
    (loadCached (run (init maxSize off) ops) key f t tLru tChk).2 = .stale ↔
      (beforeEdge t tChk = false ∧ ∃ sec tAt, (sec, tAt) ∈ events ops ∧ clampFrom f tChk ≤ sec ∧ sec ≤ t ∧
        cr.loadedAt ≤ tAt + invalidateLingerNs) := by
  have hgood := run_good ops (init maxSize off) [] (edgeSec tChk) (init_good _ _ _) hclock
  have htight := run_tight ops (init maxSize off) [] (edgeSec tChk) (init_good _ _ _) (init_tight _ _ _) hclock
  generalize run (init maxSize off) ops = s at *
  have hres : (loadCached s key f t tLru tChk).2 =
      if checkInvalidation s.levels s.off tChk cr.loadedAt f t then .served cr.n cr.gen else .stale := by
    unfold loadCached; rw [hcached]; simp only; split <;> rfl
  rw [hres]
  constructor
  · intro h
    have hc : checkInvalidation s.levels s.off tChk cr.loadedAt f t = false := by
      cases hx : checkInvalidation s.levels s.off tChk cr.loadedAt f t with
      | true => simp [hx] at h
      | false => rfl
    obtain ⟨ht, sec, a, h1, h2, hm, hl⟩ := check_exact s _ _ hgood htight tChk cr.loadedAt f t (le_refl _) hc
    exact ⟨ht, sec, a, by simpa using htight.src sec a hm, h1, h2, hl⟩
  · rintro ⟨ht, sec, tAt, hev, h1, h2, hl⟩
    obtain ⟨a, ha, hle⟩ := hgood.hist sec tAt (by simpa using hev) (le_trans (edge_le_clamp f tChk) h1)
    have := check_sound_clamp s _ _ hgood tChk cr.loadedAt f t sec a (le_refl _) ht h1 h2 ha (by omega)
    simp [this]

/-- the same, read from the serving side: served ⟺ outside the window or no late invalidation in range -/
theorem served_iff (maxSize off : Int) (ops : List Op) (key : Nat) (f t tLru tChk : Int) (cr : CRows)
    (hclock : EdgesLe ops (edgeSec tChk))
    (hcached : lookupRows (run (init maxSize off) ops) key f t = some cr) :
    (loadCached (run (init maxSize off) ops) key f t tLru tChk).2 = .served cr.n cr.gen ↔
      (beforeEdge t tChk = true ∨ ∀ sec tAt, (sec, tAt) ∈ events ops → clampFrom f tChk ≤ sec → sec ≤ t →
        tAt + invalidateLingerNs < cr.loadedAt) := by
  have hst := stale_iff maxSize off ops key f t tLru tChk cr hclock hcached
  have hres : (loadCached (run (init maxSize off) ops) key f t tLru tChk).2 = .served cr.n cr.gen ∨
      (loadCached (run (init maxSize off) ops) key f t tLru tChk).2 = .stale := by
    unfold loadCached; rw [hcached]; simp only; split
    · exact Or.inl rfl
    · exact Or.inr rfl
  constructor
  · intro h
    have hns : ¬ (loadCached (run (init maxSize off) ops) key f t tLru tChk).2 = .stale := by rw [h]; simp
    rw [hst] at hns
    cases hb : beforeEdge t tChk with
    | true => exact Or.inl rfl
    | false =>
      right; intro sec tAt hev h1 h2
      by_contra hcon
      exact hns ⟨hb, sec, tAt, hev, h1, h2, by omega⟩
  · intro h
    rcases hres with hr | hr
    · exact hr
    · rw [hst] at hr
      obtain ⟨hb, sec, tAt, hev, h1, h2, hl⟩ := hr
      rcases h with h | h
      · rw [hb] at h; simp at h
      · have := h sec tAt hev h1 h2; omega

/-! ### gc of the invalidation maps never changes an answer inside the window -/

theorem step_stepsEq (s : State) (op : Op) (h : s.levels.map (·.1) = steps) : (step s op).levels.map (·.1) = steps := by
  cases op with
  | lookup key f t tLru tChk =>
    have e : (step s (.lookup key f t tLru tChk)).levels = s.levels := (loadCached_frame s key f t tLru tChk).1
    rw [e]; exact h
  | store key tLru cr ch =>
    have e : (step s (.store key tLru cr ch)).levels = s.levels := (store_frame s key tLru cr ch).1
    rw [e]; exact h
  | invalidate tAt tFrom secs dels =>
    simp only [step, invalidate, gcLevels_fst]
    have : ∀ (secs : List Int) (lv : List Level), (updateAll lv s.off tAt secs).map (·.1) = lv.map (·.1) := by
      intro secs
      induction secs with
      | nil => intro lv; rfl
      | cons x r ih => intro lv; simp only [updateAll]; rw [ih, updateLevels_fst]
    rw [this]; exact h

theorem run_stepsEq : ∀ (ops : List Op) (s : State), s.levels.map (·.1) = steps → (run s ops).levels.map (·.1) = steps := by
  intro ops
  induction ops with
  | nil => intro s h; exact h
  | cons op r ih => intro s h; exact ih _ (step_stepsEq s op h)

/-- In every reachable state, whatever `invalidateLocked` deletes (any sampled subset — even an illegal one) does
    not change the answer of any later lookup whose clock is not behind the invalidate call's clock: the call
    with deletions `dels` and the same call without any deletion give the same lookup result. -/
theorem gc_never_changes_answers (maxSize off : Int) (ops : List Op) (tAt tFrom : Int) (secs : List Int)
    (dels : List (List Int)) (key : Nat) (f t tLru tChk : Int) (hclock : edgeSec tFrom ≤ edgeSec tChk) :
    (loadCached (invalidate (run (init maxSize off) ops) tAt tFrom secs dels) key f t tLru tChk).2 =
    (loadCached (invalidate (run (init maxSize off) ops) tAt tFrom secs []) key f t tLru tChk).2 := by
  have hst := run_stepsEq ops (init maxSize off) (by show initLevels.map (·.1) = steps; decide)
  generalize run (init maxSize off) ops = s at *
  have hup : (updateAll s.levels s.off tAt secs).map (·.1) = steps := by
    have := step_stepsEq s (.invalidate tAt tFrom secs []) hst
    simpa [step, invalidate, gcLevels_fst] using this
  have hpos := levels_pos _ hup
  have key2 : ∀ ds loadAt, checkInvalidation (gcLevels (updateAll s.levels s.off tAt secs) (edgeSec tFrom) ds) s.off tChk loadAt f t
      = checkInvalidation (updateAll s.levels s.off tAt secs) s.off tChk loadAt f t := by
    intro ds loadAt
    unfold checkInvalidation
    split
    · rfl
    · exact checkLevels_gc s.off loadAt (edgeSec tFrom) _ ds hpos _ t (le_trans hclock (edge_le_clamp f tChk))
  unfold loadCached invalidate lookupRows
  simp only
  cases findEntry s.cache key with
  | none => rfl
  | some e =>
    simp only
    cases findRows e.rows f t with
    | none => rfl
    | some cr => simp only [key2]; split <;> rfl


/-! ### exact accounting, termination of the eviction loop, the `k == ""` corner -/

/-- `c.size` is exactly Σ (rowsSize + len(rows)) over the entries; keys are distinct; the ranges of an entry
    are distinct (they are Go map keys) -/
structure Exact (s : State) : Prop where
  sizeEq : s.size = costSum s.cache
  nodup : (s.cache.map (·.key)).Nodup
  ranges : ∀ e ∈ s.cache, RangesNodup e.rows

theorem init_exact (maxSize off : Int) : Exact (init maxSize off) :=
  ⟨by simp [init, costSum], by simp [init], by intro e he; simp [init] at he⟩

theorem evictOne_exact (s : State) (k : Nat) (h : Exact s) : Exact (evictOne s k) := by
  unfold evictOne; split
  · exact h
  · rename_i e he
    refine ⟨?_, ?_, ?_⟩
    · simp only; rw [costSum_filter_eq s.cache k e h.nodup he, h.sizeEq]
    · exact List.Nodup.sublist (List.Sublist.map _ List.filter_sublist) h.nodup
    · intro x hx; exact h.ranges x (List.mem_filter.mp hx).1

theorem evictLoop_exact : ∀ (ch : List Nat) (s : State), Exact s → Exact (evictLoop s ch).1 := by
  intro ch
  induction ch with
  | nil => intro s h; simp only [evictLoop]; split <;> (try split) <;> exact h
  | cons k ks ih =>
    intro s h; simp only [evictLoop]; split
    · split
      · exact ih _ (evictOne_exact s k h)
      · exact h
    · exact h

theorem insertRows_exact (s : State) (key : Nat) (tLru : Int) (cr : CRows) (h : Exact s) :
    Exact (insertRows s key tLru cr) := by
  have hadd : costSum (addKey s.cache key) = costSum s.cache ∧ ((addKey s.cache key).map (·.key)).Nodup ∧
      (∀ e ∈ addKey s.cache key, RangesNodup e.rows) := by
    unfold addKey; split
    · exact ⟨rfl, h.nodup, h.ranges⟩
    · rename_i hk
      have hnone : findEntry s.cache key = none := by
        unfold hasKey at hk; cases hf : findEntry s.cache key <;> simp [hf] at hk ⊢
      refine ⟨by simp [costSum, entryCost], ?_, ?_⟩
      · rw [List.map_append, List.nodup_append]
        refine ⟨h.nodup, by simp, ?_⟩
        intro a ha b hb
        simp at hb
        obtain ⟨e, he, rfl⟩ := List.mem_map.mp ha
        rw [hb]; exact findEntry_none s.cache key hnone e he
      · intro e he
        rcases List.mem_append.mp he with h1 | h1
        · exact h.ranges e h1
        · simp at h1; subst h1; simp [RangesNodup]
  obtain ⟨hc, hnd, hrg⟩ := hadd
  unfold insertRows; simp only
  split
  · exact h
  · rename_i e he
    have hemem := (findEntry_mem _ _ _ he).1
    refine ⟨?_, ?_, ?_⟩
    · simp only
      rw [costSum_update _ key (fun x => putEntry x tLru cr) e hnd he, putEntry_cost_eq e tLru cr (hrg e hemem), hc,
        h.sizeEq]
      omega
    · simp only [List.map_map]
      have : ((fun (x : Entry) => x.key) ∘ fun x => if x.key = key then putEntry x tLru cr else x) = (fun x => x.key) := by
        funext x; simp only [Function.comp]; split <;> simp [putEntry]
      rw [this]; exact hnd
    · intro x hx
      simp only [List.mem_map] at hx
      obtain ⟨y, hy, rfl⟩ := hx
      split
      · exact putRange_nodup _ _ (hrg y hy)
      · exact hrg y hy

theorem step_exact (s : State) (op : Op) (h : Exact s) : Exact (step s op) := by
  cases op with
  | invalidate tAt tFrom secs dels => exact ⟨h.sizeEq, h.nodup, h.ranges⟩
  | store key tLru cr ch =>
    simp only [step, store]
    have h1 := evictLoop_exact ch s h
    rcases hE : evictLoop s ch with ⟨s1, f⟩
    rw [hE] at h1
    cases f <;> simp only <;> first | exact insertRows_exact s1 key tLru cr h1 | exact h1
  | lookup key f t tLru tChk =>
    have hset : Exact { s with cache := setLru s.cache key tLru } := by
      have hmap : (setLru s.cache key tLru).map entryCost = s.cache.map entryCost ∧
          (setLru s.cache key tLru).map (·.key) = s.cache.map (·.key) := by
        unfold setLru; simp only [List.map_map]
        constructor <;> (apply List.map_congr_left; intro x _; simp only [Function.comp]; split <;> simp [entryCost])
      refine ⟨?_, ?_, ?_⟩
      · simp only [costSum, hmap.1]; exact h.sizeEq
      · simp only [hmap.2]; exact h.nodup
      · intro e he
        unfold setLru at he
        obtain ⟨y, hy, rfl⟩ := List.mem_map.mp he
        have := h.ranges y hy
        split <;> simpa using this
    simp only [step, loadCached]; split
    · exact h
    · split <;> exact hset

/-- exact accounting holds in every reachable state, for every history -/
theorem run_exact : ∀ (ops : List Op) (s : State), Exact s → Exact (run s ops) := by
  intro ops
  induction ops with
  | nil => intro s h; simpa [run] using h
  | cons op r ih => intro s h; simp only [run]; exact ih _ (step_exact s op h)

/-- The `k == ""` corner of evictLocked (`return 0` without deleting anything, which would make the loop in
    get spin forever under the lock) needs an EMPTY cache (real keys are never ""), and with exact accounting and
    approxMaxSize > 0 the loop condition is false on an empty cache: the corner is unreachable. -/
theorem needEvict_nonempty (s : State) (h : Exact s) (hpos : 0 < s.maxSize) (hn : needEvict s = true) :
    s.cache ≠ [] := by
  intro he
  have := h.sizeEq
  unfold needEvict at hn
  simp [he, costSum] at this hn
  omega

theorem evictLoop_no_hang : ∀ (ch : List Nat) (s : State), Exact s → 0 < s.maxSize → (evictLoop s ch).2 ≠ .hang := by
  intro ch
  induction ch with
  | nil =>
    intro s h hpos
    simp only [evictLoop]
    split
    · rename_i hn
      have := needEvict_nonempty s h hpos hn
      split
      · rename_i he; simp at he; exact absurd he this
      · simp
    · simp
  | cons k ks ih =>
    intro s h hpos
    simp only [evictLoop]
    split
    · split
      · exact ih _ (evictOne_exact s k h) (by rw [(evictOne_frame s k).2.2]; exact hpos)
      · simp
    · simp

/-- the keys a picking strategy (= a Go map order and sample) makes the loop evict -/
def picks (pick : State → Nat) : Nat → State → List Nat
  | 0, _ => []
  | fuel + 1, s => if needEvict s then pick s :: picks pick fuel (evictOne s (pick s)) else []

/-- Termination. Whatever legal choice evictLocked makes in each round (any map order / sample), the loop
    `for size+len >= approxMaxSize` ends normally after at most len(cache) rounds: every round deletes an entry. -/
theorem evictLoop_terminates (pick : State → Nat)
    (hpick : ∀ s' : State, s'.cache ≠ [] → evictLegal s'.cache (pick s') = true) :
    ∀ (fuel : Nat) (s : State), Exact s → 0 < s.maxSize → s.cache.length ≤ fuel →
      (evictLoop s (picks pick fuel s)).2 = .ok ∧ (picks pick fuel s).length ≤ s.cache.length := by
  intro fuel
  induction fuel with
  | zero =>
    intro s h hpos hlen
    have he : s.cache = [] := List.eq_nil_of_length_eq_zero (by omega)
    have hn : needEvict s = false := by
      cases hx : needEvict s with
      | false => rfl
      | true => exact absurd he (needEvict_nonempty s h hpos hx)
    simp [picks, evictLoop, hn]
  | succ fuel ih =>
    intro s h hpos hlen
    cases hn : needEvict s with
    | false => simp [picks, evictLoop, hn]
    | true =>
      have hne := needEvict_nonempty s h hpos hn
      have hleg := hpick s hne
      obtain ⟨e, he⟩ : ∃ e, findEntry s.cache (pick s) = some e := by
        unfold evictLegal at hleg
        cases hf : findEntry s.cache (pick s) with
        | none => simp [hf] at hleg
        | some e => exact ⟨e, rfl⟩
      have hlt : (evictOne s (pick s)).cache.length < s.cache.length := by
        unfold evictOne; rw [he]; exact filter_length_lt _ _ _ he
      have := ih (evictOne s (pick s)) (evictOne_exact s _ h) (by rw [(evictOne_frame s _).2.2]; exact hpos) (by omega)
      simp only [picks, hn, if_true, evictLoop, hleg, List.length_cons]
      exact ⟨this.1, by omega⟩

/-- a legal choice always exists (so strategies as in `evictLoop_terminates` exist): the smallest lru -/
theorem legal_pick_exists (s : State) (h : Exact s) (hne : s.cache ≠ []) : ∃ k, evictLegal s.cache k = true := by
  obtain ⟨e, he, hmin⟩ := exists_min_lru s.cache hne
  exact ⟨e.key, min_lru_legal s.cache e h.nodup he hmin⟩

/-- C24 size bound with nothing assumed about the loop: in EVERY reachable state of a cache created with
    approxMaxSize > 0, the store section run with any legal eviction strategy completes (flag ok: no hang, no
    missing choice) and leaves the accounted size ≤ approxMaxSize + 1 + rows just loaded. -/
theorem size_bounded (maxSize off : Int) (hpos : 0 < maxSize) (ops : List Op) (pick : State → Nat)
    (hpick : ∀ s' : State, s'.cache ≠ [] → evictLegal s'.cache (pick s') = true)
    (key : Nat) (tLru : Int) (cr : CRows) :
    let s := run (init maxSize off) ops
    let ch := picks pick s.cache.length s
    (store s key tLru cr ch).2 = .ok ∧ load (store s key tLru cr ch).1 ≤ maxSize + 1 + (cr.n : Int) := by
  intro s ch
  have hex : Exact s := run_exact ops _ (init_exact maxSize off)
  have hms : s.maxSize = maxSize := by
    have : ∀ (ops : List Op) (s0 : State), (run s0 ops).maxSize = s0.maxSize := by
      intro ops; induction ops with
      | nil => intro s0; rfl
      | cons op r ih => intro s0; simp only [run]; rw [ih, step_maxSize]
    exact this ops _
  have hterm := (evictLoop_terminates pick hpick s.cache.length s hex (by rw [hms]; exact hpos) (le_refl _)).1
  have hok : (store s key tLru cr ch).2 = .ok := by
    unfold store
    rcases hE : evictLoop s ch with ⟨s1, f⟩
    have : f = .ok := by simpa [ch, hE] using hterm
    subst this; rfl
  exact ⟨hok, by have := store_load_bound s key tLru cr ch hok; rw [hms] at this; exact this⟩

/-- non-vacuity: the smallest-lru strategy is legal in every state with distinct keys; concrete run -/
example : evictLegal (run (init 3 0) (exOps 0)).cache 1 = true := by decide
example : (store (run (init 3 0) (exOps 0)) 2 5 { tFrom := 1, tTo := 2, n := 1, gen := 9, loadedAt := 4 }
    (picks (fun _ => 1) 1 (run (init 3 0) (exOps 0)))).2 = .ok := by decide
/-- the corner itself: with approxMaxSize = 0 the model reports the spin (`hang`) on the very first store -/
example : (store (init 0 0) 1 5 { tFrom := 1, tTo := 2, n := 1, gen := 9, loadedAt := 4 } []).2 = .hang := by decide


/-! ### non-vacuity of the second-round theorems -/

/-- hypotheses of `stale_iff` / `served_iff` hold in a concrete history, and both sides of the iff occur -/
example : lookupRows (run (init 10 0) (exOps 200015000000000)) 1 30000 45000 = some (exRows 200015000000000) := by decide
example : beforeEdge 45000 200030000000000 = false ∧ (37000, 200000000000000) ∈ events (exOps 200015000000000) ∧
    clampFrom 30000 200030000000000 ≤ 37000 := by decide

/-- `gc_never_changes_answers`: a real deletion (hour key 36000, legal for the code) and the necessity of its clock
    hypothesis: the same deletion changes the answer of a lookup whose clock stepped back behind the gc edge -/
example : (loadCached (invalidate (run (init 10 0) (backOps.take 2)) 210600000000000 210600000000000 [] [[36000], [], []])
      1 33000 43300 200030000000000 200030000000000).2 = .served 1 1 ∧
    (loadCached (invalidate (run (init 10 0) (backOps.take 2)) 210600000000000 210600000000000 [] [])
      1 33000 43300 200030000000000 200030000000000).2 = .stale ∧
    ¬ (edgeSec 210600000000000 ≤ edgeSec 200030000000000) := by decide

/-! ### int64 / time.Time arithmetic -/

/-- Precondition under which the model's `Int` arithmetic IS pcache.go's int64 / time.Time arithmetic:
    clock readings in [0, 2^62] ns (1970..2116), seconds within ±2^40, utcOffset within ±2^31. Then
    (a) roundTime computed with wrapping int64 operations and lod.go's truncating mathDiv equals the model's;
    (b) `at + linger`, `now.Add(invalidateFrom)`, its `.Unix()`, `time.Unix(sec,0)` do not overflow;
    (c) the loop variables of checkInvalidationMapLocked stay in int64;
    (d) `time.Unix(sec,0).Before(T)` is the nanosecond comparison the model uses;
    (e) the accounted size stays in int64 (it is bounded by `cache_within_bound`). -/
theorem int64_preconditions (now tAt loadAt sec f t off : Int) (hnow : ClockOK now) (hat : ClockOK tAt)
    (hla : ClockOK loadAt) (hsec : SecOK sec) (hf : SecOK f) (ht : SecOK t) (ho : OffOK off) :
    (∀ st ∈ steps, roundTime64 sec st off = roundTime sec st off ∧ I64 (roundTime sec st off)) ∧
    I64 (tAt + invalidateLingerNs) ∧ I64 (immutableNs now) ∧ I64 (edgeSec now) ∧ SecOK (edgeSec now) ∧
    I64 (sec + 62135596800) ∧
    (∀ st ∈ steps, I64 (roundTime f st off + st) ∧ I64 (roundTime t st off + st) ∧ I64 (t + st) ∧
      I64 (fromNext (roundTime f st off) st t) ∧ I64 (toPrev (roundTime t st off) f)) ∧
    (beforeEdge sec now = true ↔
      (sec < immutableNs now / 1000000000 ∨ (sec = immutableNs now / 1000000000 ∧ 0 < immutableNs now % 1000000000))) := by
  obtain ⟨c1, c2, c3⟩ := consts_in_range
  have h := int64_safe now tAt loadAt sec f t 1 off hnow hat hla hsec hf ht (by unfold StepOK; omega) ho c1 c2
  exact ⟨fun st hst => roundTime64_eq sec st off hsec (c3 st hst) ho, h.1, h.2.1, h.2.2.1, h.2.2.2.1, h.2.2.2.2.1,
    fun st hst => loop_vars_safe f t st off hf ht (c3 st hst) ho, beforeEdge_lex sec now⟩

theorem size_in_int64 (maxSize off : Int) (N : Nat) (ops : List Op) (hpos : 0 ≤ maxSize)
    (hm : maxSize ≤ 2305843009213693952) (hN : (N : Int) ≤ 2305843009213693952) (hr : RowsLe ops N) :
    I64 (load (run (init maxSize off) ops)) ∧ 0 ≤ (run (init maxSize off) ops).size := by
  have h1 := cache_within_bound maxSize off N ops hpos hr
  have hacc := run_acc ops _ (init_acc maxSize off)
  have h2 : 0 ≤ costSum (run (init maxSize off) ops).cache := by
    generalize (run (init maxSize off) ops).cache = c
    induction c with
    | nil => simp [costSum]
    | cons x r ih => rw [costSum_cons]; have := entryCost_nonneg x; omega
  have h3 := hacc.sizeGe
  unfold load at h1 ⊢
  unfold I64
  refine ⟨⟨by omega, by omega⟩, by omega⟩

/-- the harness' clocks (Unix nanoseconds around 1.65e18..1.75e18 plus at most days) satisfy the precondition -/
example : ClockOK 1750000000000000000 ∧ SecOK 1750000000 ∧ OffOK 356400 := by
  unfold ClockOK SecOK OffOK; omega
/-- mathDiv on a negative, non-divisible argument: Go gives -7/3 = -2 (truncated), corrected to -3 = floor -/
example : goMathDiv (-7) 3 = -3 ∧ Int.tdiv (-7) 3 = -2 := by decide
end SH.C24
