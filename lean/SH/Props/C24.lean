/-
  C24 — The API points cache never serves rows older than an invalidation.

  "Within the mutable window, a cached point-query result for a range is served only if no second in that range
   was invalidated at or after the moment its load started (allowing the replication linger); otherwise it is
   reloaded. Outside the mutable window cached results are served as loaded, and the cache stays within its
   size bound regardless of the sequence of requests."
  Quantifier: all sequences of get/invalidate calls over arbitrary ranges and clock values.

  Model: SH.Model.PCache (pcache.go branch for branch; constants from SH.Gen.C24, regenerated from /repo).
  A history is an arbitrary `List Op` of critical sections (lookup = loadCached, store = the locked tail of get,
  invalidate); every clock reading, the eviction choices and the gc deletions are data in the ops, so the
  theorems hold for every interleaving of concurrent callers, every clock and every Go map order.

  Main results
    checkLevels_sound      the hour/minute/second recursion never misses a second of [from,to] (any positive
                           steps ending in 1, any utcOffset), given that coarse maps dominate the second map
                           on buckets not older than the gc high-water mark `g`
    run_good               that domination (+ "the second map remembers every invalidation ≥ g with its latest
                           clock") is an invariant of every history
    served_fresh           headline, first sentence of C24
    invalidated_is_reloaded  "otherwise it is reloaded"
    immutable_served, served_rows_stored_by_load   second sentence ("served as loaded")
    store_load_bound, run_load_bound, cache_within_bound, cache_content_bounded   the size bound
                           (the accounted size is bounded, and it dominates the real content)
  Clock hypothesis: `served_fresh` needs the lookup's clock not to be behind the clock of an earlier
  invalidate call (gc forgets seconds older than ITS edge). `clock_hypothesis_needed` shows by `decide` that
  without it the code does serve stale rows; a wall clock stepping back by more than the distance of a cached
  range to the 48 h edge is outside what the property can promise.
-/
import SH.Model.PCache
import Mathlib.Tactic.Ring
import Mathlib.Tactic.Linarith

namespace SH.C24
open SH.PCache SH.Gen.C24

/-! ### association-list maps -/

theorem mget_merase (m : LMap) (k k' : Int) : mget (merase m k) k' = if k = k' then none else mget m k' := by
  induction m with
  | nil => simp [merase, mget]
  | cons p r ih =>
    obtain ⟨a, v⟩ := p
    by_cases h : a = k
    · subst h; simp only [merase, if_true, ih]
      by_cases h2 : a = k' <;> simp [mget, h2]
    · simp only [merase, h, if_false, mget, ih]
      by_cases h2 : a = k'
      · subst h2; simp [h]; intro h3; exact absurd h3.symm h
      · simp [h2]

theorem mget_mput (m : LMap) (k v k' : Int) : mget (mput m k v) k' = if k = k' then some v else mget m k' := by
  simp only [mput, mget, mget_merase]
  by_cases h : k = k' <;> simp [h]

/-- the value `bump` leaves under the key it touches -/
def newVal (m : LMap) (k a : Int) : Int :=
  match mget m k with
  | some last => if a > last then a else last
  | none => a

theorem mget_bump (m : LMap) (k a k' : Int) : mget (bump m k a) k' = if k = k' then some (newVal m k a) else mget m k' := by
  unfold bump newVal
  cases h : mget m k with
  | none => simp [mget_mput]
  | some last =>
    by_cases h2 : a > last
    · simp [h2, mget_mput]
    · simp only [h2, if_false]
      by_cases h3 : k = k'
      · subst h3; simp [h]
      · simp [h3]

theorem newVal_ge (m : LMap) (k a : Int) : a ≤ newVal m k a := by
  unfold newVal; split
  · split <;> omega
  · omega

theorem newVal_ge_old (m : LMap) (k a old : Int) (h : mget m k = some old) : old ≤ newVal m k a := by
  unfold newVal; rw [h]; simp only; split <;> omega

theorem mget_filter_key (m : LMap) (p : Int → Bool) (k : Int) :
    mget (m.filter (fun x => p x.1)) k = if p k then mget m k else none := by
  induction m with
  | nil => simp [mget]
  | cons x r ih =>
    obtain ⟨a, v⟩ := x
    by_cases h : p a = true
    · simp only [List.filter, h, mget, ih]
      by_cases h2 : a = k
      · subst h2; simp [h]
      · simp [h2]
    · simp only [List.filter, h, mget, ih]
      by_cases h2 : a = k
      · subst h2; simp [h]
      · simp [h2]

theorem mget_gcMap (m : LMap) (g : Int) (del : List Int) (k : Int) :
    mget (gcMap m g del) k = if (decide (k < g) && del.contains k) then none else mget m k := by
  unfold gcMap
  rw [mget_filter_key m (fun a => !(decide (a < g) && del.contains a)) k]
  cases (decide (k < g) && del.contains k) <;> simp

theorem mget_gcMap_ge (m : LMap) (g : Int) (del : List Int) (k : Int) (h : g ≤ k) :
    mget (gcMap m g del) k = mget m k := by
  rw [mget_gcMap]; have : ¬ k < g := by omega
  simp [this]

theorem mget_gcMap_some (m : LMap) (g : Int) (del : List Int) (k v : Int) (h : mget (gcMap m g del) k = some v) :
    mget m k = some v := by
  rw [mget_gcMap] at h; split at h
  · simp at h
  · exact h

/-! ### rounding -/

theorem roundTime_le (t step off : Int) (h : 0 < step) : roundTime t step off ≤ t := by
  unfold roundTime
  have := Int.ediv_mul_le (t + off) (Int.ne_of_gt h)
  omega

theorem lt_roundTime_add (t step off : Int) (h : 0 < step) : t < roundTime t step off + step := by
  unfold roundTime
  have := Int.lt_ediv_add_one_mul_self (t + off) h
  have e : ((t + off) / step + 1) * step = (t + off) / step * step + step := by ring
  omega

theorem roundTime_one (t off : Int) : roundTime t 1 off = t := by
  unfold roundTime; simp

/-- a rounded value above `lo`'s bucket end and below `hi`'s bucket start is one of the scanned keys -/
theorem round_between (s lo hi step off : Int) (h : 0 < step)
    (h1 : roundTime lo step off + step < s) (h2 : s < roundTime hi step off) :
    ∃ k : Nat, k < countMid (roundTime lo step off) (roundTime hi step off) step ∧
      roundTime s step off = roundTime lo step off + step + step * (k : Int) := by
  unfold roundTime at *
  generalize hqs : (s + off) / step = c at *
  generalize hql : (lo + off) / step = a at *
  generalize hqh : (hi + off) / step = b at *
  have hs1 := Int.ediv_mul_le (s + off) (Int.ne_of_gt h)
  have hs2 := Int.lt_ediv_add_one_mul_self (s + off) h
  rw [hqs] at hs1 hs2
  -- c ≥ a + 1 and c ≤ b - 1
  have hca : a + 1 ≤ c := by
    have : (a + 1) * step < (c + 1) * step := by
      have e : (a + 1) * step = a * step + step := by ring
      linarith
    have := Int.lt_of_mul_lt_mul_right this (le_of_lt h)
    omega
  have hcb : c < b := by
    have : c * step < b * step := by linarith
    exact Int.lt_of_mul_lt_mul_right this (le_of_lt h)
  refine ⟨(c - a - 1).toNat, ?_, ?_⟩
  · unfold countMid
    have e : (b * step - off - (a * step - off) - 1) = (step - 1) + (b - a - 1) * step := by ring
    rw [e, Int.add_mul_ediv_right _ _ (Int.ne_of_gt h)]
    have : (step - 1) / step = 0 := Int.ediv_eq_zero_of_lt (by omega) (by omega)
    rw [this]
    omega
  · have : ((c - a - 1).toNat : Int) = c - a - 1 := Int.toNat_of_nonneg (by omega)
    rw [this]; ring

/-! ### soundness of the hierarchical check -/

theorem scanOK_false (m : LMap) (loadAt base step : Int) (n k : Nat) (hk : k < n)
    (h : staleKey m loadAt (base + step * (k : Int)) = true) : scanOK m loadAt base step n = false := by
  unfold scanOK
  rw [List.all_eq_false]
  exact ⟨k, List.mem_range.mpr hk, by simp [h]⟩

theorem staleKey_of (m : LMap) (loadAt k a b : Int) (hb : mget m k = some b) (hab : a ≤ b)
    (h : loadAt ≤ a + invalidateLingerNs) : staleKey m loadAt k = true := by
  unfold staleKey; rw [hb]; simp; omega

/-- every level's map dominates the per-second map `sm` on buckets that start at or after `g` -/
def CovL (lv : List Level) (sm : LMap) (off g : Int) : Prop :=
  ∀ p ∈ lv, ∀ s a, mget sm s = some a → g ≤ roundTime s p.1 off →
    ∃ b, mget p.2 (roundTime s p.1 off) = some b ∧ a ≤ b

theorem checkLevels_sound (sm : LMap) (off g loadAt : Int) :
    ∀ (lv : List Level), (∀ p ∈ lv, 0 < p.1) → lv.getLast? = some (1, sm) → CovL lv sm off g →
    ∀ (f t s a : Int), g ≤ f → f ≤ s → s ≤ t → mget sm s = some a → loadAt ≤ a + invalidateLingerNs →
    checkLevels lv off loadAt f t = false := by
  intro lv
  induction lv with
  | nil => intro _ h; simp at h
  | cons p rest ih =>
    intro hpos hlast hcov f t s a hg hfs hst hsm hla
    cases rest with
    | nil =>
      simp at hlast
      subst hlast
      simp only [checkLevels]
      apply scanOK_false sm loadAt f 1 _ (s - f).toNat
      · unfold countLast; simp; omega
      · have : ((s - f).toNat : Int) = s - f := Int.toNat_of_nonneg (by omega)
        rw [this]
        have e : f + 1 * (s - f) = s := by ring
        rw [e]; exact staleKey_of sm loadAt s a a hsm (le_refl _) hla
    | cons q rest' =>
      have hp : 0 < p.1 := hpos p (by simp)
      have hpos' : ∀ x ∈ q :: rest', 0 < x.1 := fun x hx => hpos x (List.mem_cons_of_mem _ hx)
      have hlast' : (q :: rest').getLast? = some (1, sm) := by
        rw [List.getLast?_cons_cons] at hlast; exact hlast
      have hcov' : CovL (q :: rest') sm off g := fun x hx => hcov x (List.mem_cons_of_mem _ hx)
      have IH := ih hpos' hlast' hcov'
      simp only [checkLevels]
      by_cases c1 : s ≤ fromNext (roundTime f p.1 off) p.1 t
      · rw [IH f _ s a hg hfs c1 hsm hla]; simp
      · by_cases c2 : toPrev (roundTime t p.1 off) f ≤ s
        · have hg2 : g ≤ toPrev (roundTime t p.1 off) f := by unfold toPrev; split <;> omega
          have hfr := roundTime_le t p.1 off hp
          rw [IH _ t s a hg2 c2 hst hsm hla]; simp
        · have h1 : roundTime f p.1 off + p.1 < s := by
            unfold fromNext at c1; split at c1 <;> omega
          have h2 : s < roundTime t p.1 off := by
            unfold toPrev at c2; split at c2 <;> omega
          obtain ⟨k, hk, hr⟩ := round_between s f t p.1 off hp h1 h2
          have hfl := lt_roundTime_add f p.1 off hp
          have hgr : g ≤ roundTime s p.1 off := by rw [hr]; have : 0 ≤ p.1 * (k : Int) := by positivity
                                                   omega
          obtain ⟨b, hb, hab⟩ := hcov p (by simp) s a hsm hgr
          have : scanOK p.2 loadAt (roundTime f p.1 off + p.1) p.1
              (countMid (roundTime f p.1 off) (roundTime t p.1 off) p.1) = false := by
            apply scanOK_false _ _ _ _ _ k hk
            rw [← hr]; exact staleKey_of _ _ _ a b hb hab hla
          rw [this]; simp

/-! ### the invariant of the three maps, for every history -/

def secMap (lv : List Level) : LMap :=
  match lv.getLast? with
  | some p => p.2
  | none => []

/-- `H` = every (second, invalidation clock) seen so far, `g` = an upper bound of every gc edge so far -/
structure Good (s : State) (H : List (Int × Int)) (g : Int) : Prop where
  stepsEq : s.levels.map (·.1) = steps
  cov : CovL s.levels (secMap s.levels) s.off g
  hist : ∀ sec tAt, (sec, tAt) ∈ H → g ≤ sec → ∃ a, mget (secMap s.levels) sec = some a ∧ tAt ≤ a

theorem steps_good : (∀ st ∈ steps, 0 < st) ∧ steps.getLast? = some 1 := by decide

theorem levels_pos (lv : List Level) (h : lv.map (·.1) = steps) : ∀ p ∈ lv, 0 < p.1 := by
  intro p hp
  apply steps_good.1
  rw [← h]; exact List.mem_map_of_mem hp

theorem levels_last (lv : List Level) (h : lv.map (·.1) = steps) : lv.getLast? = some (1, secMap lv) := by
  have h2 := steps_good.2
  rw [← h, List.getLast?_map] at h2
  unfold secMap
  cases hl : lv.getLast? with
  | none => simp [hl] at h2
  | some p =>
    simp [hl] at h2
    obtain ⟨a, b⟩ := p
    simp at h2; subst h2; rfl

theorem secMap_of_last (lv : List Level) (p : Level) (h : lv.getLast? = some p) : secMap lv = p.2 := by
  unfold secMap; rw [h]

theorem updateLevels_fst (lv : List Level) (off tAt sec : Int) :
    (updateLevels lv off tAt sec).map (·.1) = lv.map (·.1) := by
  unfold updateLevels; rw [List.map_map]; rfl

theorem updateLevels_secMap (lv : List Level) (off tAt sec : Int) (sm : LMap) (h : lv.getLast? = some (1, sm)) :
    secMap (updateLevels lv off tAt sec) = bump sm sec tAt := by
  apply secMap_of_last (p := (1, bump sm sec tAt))
  unfold updateLevels
  rw [List.getLast?_map, h]
  simp [roundTime_one]

theorem update_cov (lv : List Level) (sm : LMap) (off g tAt sec : Int) (hcov : CovL lv sm off g) :
    CovL (updateLevels lv off tAt sec) (bump sm sec tAt) off g := by
  intro p' hp' s a hs hg
  unfold updateLevels at hp'
  obtain ⟨p, hp, rfl⟩ := List.mem_map.mp hp'
  simp only
  rw [mget_bump] at hs
  rw [mget_bump]
  by_cases e : sec = s
  · subst e
    simp only [if_true] at hs ⊢
    refine ⟨_, rfl, ?_⟩
    simp at hs; subst hs
    cases hm : mget sm sec with
    | none => simp only [newVal, hm]; exact newVal_ge _ _ _
    | some last =>
      by_cases h2 : tAt > last
      · simp only [newVal, hm, h2, if_true]; exact newVal_ge _ _ _
      · have e2 : newVal sm sec tAt = last := by simp only [newVal, hm, h2, if_false]
        rw [e2]
        obtain ⟨b0, hb0, hle⟩ := hcov p hp sec last hm hg
        exact le_trans hle (newVal_ge_old _ _ _ _ hb0)
  · simp only [e, if_false] at hs
    obtain ⟨b0, hb0, hle⟩ := hcov p hp s a hs hg
    by_cases e2 : roundTime sec p.1 off = roundTime s p.1 off
    · simp only [e2, if_true]
      refine ⟨_, rfl, le_trans hle ?_⟩
      apply newVal_ge_old; exact hb0
    · simp only [e2, if_false]; exact ⟨b0, hb0, hle⟩

theorem update_good (s : State) (H : List (Int × Int)) (g tAt sec : Int) (h : Good s H g) :
    Good { s with levels := updateLevels s.levels s.off tAt sec } ((sec, tAt) :: H) g := by
  have hl := levels_last s.levels h.stepsEq
  have hsm := updateLevels_secMap s.levels s.off tAt sec _ hl
  refine ⟨?_, ?_, ?_⟩
  · simp only [updateLevels_fst]; exact h.stepsEq
  · simp only [hsm]; exact update_cov _ _ _ _ _ _ h.cov
  · intro sec' tAt' hmem hg
    simp only [hsm, mget_bump]
    rcases List.mem_cons.mp hmem with e | hmem
    · simp at e; obtain ⟨e1, e2⟩ := e; subst e1; subst e2
      simp; exact newVal_ge _ _ _
    · obtain ⟨a, ha, hle⟩ := h.hist sec' tAt' hmem hg
      by_cases e : sec = sec'
      · subst e; simp; exact le_trans hle (newVal_ge_old _ _ _ _ ha)
      · simp [e]; exact ⟨a, ha, hle⟩

theorem updateAll_good (secs : List Int) : ∀ (s : State) (H : List (Int × Int)) (g tAt : Int), Good s H g →
    Good { s with levels := updateAll s.levels s.off tAt secs } (secs.map (fun x => (x, tAt)) ++ H) g := by
  induction secs with
  | nil => intro s H g tAt h; simpa [updateAll] using h
  | cons x r ih =>
    intro s H g tAt h
    have h1 := update_good s H g tAt x h
    have h2 := ih _ _ g tAt h1
    simp only [updateAll]
    refine ⟨h2.stepsEq, h2.cov, ?_⟩
    intro sec' tAt' hmem hg
    apply h2.hist sec' tAt' _ hg
    simp only [List.map_cons, List.cons_append, List.mem_cons, List.mem_append] at hmem ⊢
    tauto

theorem gcLevels_fst : ∀ (lv : List Level) (gf : Int) (ds : List (List Int)),
    (gcLevels lv gf ds).map (·.1) = lv.map (·.1) := by
  intro lv
  induction lv with
  | nil => intro gf ds; simp [gcLevels]
  | cons p r ih => intro gf ds; cases ds <;> simp [gcLevels, ih]

theorem gcLevels_mem : ∀ (lv : List Level) (gf : Int) (ds : List (List Int)) (p' : Level),
    p' ∈ gcLevels lv gf ds → ∃ p ∈ lv, ∃ d, p' = (p.1, gcMap p.2 gf d) := by
  intro lv
  induction lv with
  | nil => intro gf ds p' h; simp [gcLevels] at h
  | cons p r ih =>
    intro gf ds p' h
    cases ds with
    | nil =>
      simp only [gcLevels, List.mem_cons] at h
      rcases h with h | h
      · exact ⟨p, by simp, [], h⟩
      · obtain ⟨q, hq, d, e⟩ := ih gf [] p' h
        exact ⟨q, List.mem_cons_of_mem _ hq, d, e⟩
    | cons d ds =>
      simp only [gcLevels, List.mem_cons] at h
      rcases h with h | h
      · exact ⟨p, by simp, d, h⟩
      · obtain ⟨q, hq, d', e⟩ := ih gf ds p' h
        exact ⟨q, List.mem_cons_of_mem _ hq, d', e⟩

theorem gcLevels_last : ∀ (lv : List Level) (gf : Int) (ds : List (List Int)) (p : Level),
    lv.getLast? = some p → ∃ d, (gcLevels lv gf ds).getLast? = some (p.1, gcMap p.2 gf d) := by
  intro lv
  induction lv with
  | nil => intro gf ds p h; simp at h
  | cons x r ih =>
    intro gf ds p h
    cases r with
    | nil =>
      simp at h; subst h
      cases ds with
      | nil => exact ⟨[], by simp [gcLevels]⟩
      | cons d ds => exact ⟨d, by simp [gcLevels]⟩
    | cons y r' =>
      rw [List.getLast?_cons_cons] at h
      cases ds with
      | nil =>
        obtain ⟨d, hd⟩ := ih gf [] p h
        refine ⟨d, ?_⟩
        simp only [gcLevels] at hd ⊢
        rw [List.getLast?_cons_cons]; exact hd
      | cons d0 ds =>
        obtain ⟨d, hd⟩ := ih gf ds p h
        refine ⟨d, ?_⟩
        cases ds <;> (simp only [gcLevels] at hd ⊢; rw [List.getLast?_cons_cons]; exact hd)

theorem gc_good (s : State) (H : List (Int × Int)) (g gf : Int) (ds : List (List Int)) (h : Good s H g) (hgf : gf ≤ g) :
    Good { s with levels := gcLevels s.levels gf ds } H g := by
  have hl := levels_last s.levels h.stepsEq
  obtain ⟨d, hd⟩ := gcLevels_last s.levels gf ds _ hl
  have hsm : secMap (gcLevels s.levels gf ds) = gcMap (secMap s.levels) gf d := secMap_of_last _ _ hd
  refine ⟨?_, ?_, ?_⟩
  · simp only [gcLevels_fst]; exact h.stepsEq
  · intro p' hp' sec a hs hg
    simp only [hsm] at hs
    obtain ⟨p, hp, d', rfl⟩ := gcLevels_mem _ _ _ _ hp'
    simp only at hg ⊢
    obtain ⟨b, hb, hle⟩ := h.cov p hp sec a (mget_gcMap_some _ _ _ _ _ hs) hg
    exact ⟨b, by rw [mget_gcMap_ge _ _ _ _ (le_trans hgf hg)]; exact hb, hle⟩
  · intro sec tAt hmem hg
    obtain ⟨a, ha, hle⟩ := h.hist sec tAt hmem hg
    exact ⟨a, by simp only [hsm]; rw [mget_gcMap_ge _ _ _ _ (le_trans hgf hg)]; exact ha, hle⟩

theorem good_mono (s : State) (H : List (Int × Int)) (g g' : Int) (h : Good s H g) (hg : g ≤ g') : Good s H g' :=
  ⟨h.stepsEq,
   fun p hp sec a hs hr => h.cov p hp sec a hs (le_trans hg hr),
   fun sec tAt hm hs => h.hist sec tAt hm (le_trans hg hs)⟩

/-! ### histories -/

/-- the (second, invalidation clock) pairs an op records -/
def opEvents : Op → List (Int × Int)
  | .invalidate tAt _ secs _ => secs.map (fun x => (x, tAt))
  | _ => []

def events : List Op → List (Int × Int)
  | [] => []
  | op :: r => opEvents op ++ events r

/-- every gc edge (`now.Add(invalidateFrom).Unix()` of an invalidate call) in the history is at most `g` -/
def EdgesLe (ops : List Op) (g : Int) : Prop :=
  ∀ tAt tFrom secs dels, Op.invalidate tAt tFrom secs dels ∈ ops → edgeSec tFrom ≤ g

theorem evictOne_frame (s : State) (k : Nat) :
    (evictOne s k).levels = s.levels ∧ (evictOne s k).off = s.off ∧ (evictOne s k).maxSize = s.maxSize := by
  unfold evictOne; split <;> simp

theorem evictLoop_frame : ∀ (ch : List Nat) (s : State),
    (evictLoop s ch).1.levels = s.levels ∧ (evictLoop s ch).1.off = s.off ∧ (evictLoop s ch).1.maxSize = s.maxSize := by
  intro ch
  induction ch with
  | nil => intro s; simp only [evictLoop]; split <;> (try split) <;> simp
  | cons k ks ih =>
    intro s
    simp only [evictLoop]
    split
    · split
      · have h1 := ih (evictOne s k)
        have h2 := evictOne_frame s k
        exact ⟨h1.1.trans h2.1, h1.2.1.trans h2.2.1, h1.2.2.trans h2.2.2⟩
      · simp
    · simp

theorem insertRows_frame (s : State) (key : Nat) (tLru : Int) (cr : CRows) :
    (insertRows s key tLru cr).levels = s.levels ∧ (insertRows s key tLru cr).off = s.off ∧
    (insertRows s key tLru cr).maxSize = s.maxSize := by
  unfold insertRows; simp only; split <;> simp

theorem store_frame (s : State) (key : Nat) (tLru : Int) (cr : CRows) (ch : List Nat) :
    (store s key tLru cr ch).1.levels = s.levels ∧ (store s key tLru cr ch).1.off = s.off ∧
    (store s key tLru cr ch).1.maxSize = s.maxSize := by
  unfold store
  have h := evictLoop_frame ch s
  split
  · rename_i s1 heq
    rw [heq] at h
    have h2 := insertRows_frame s1 key tLru cr
    exact ⟨h2.1.trans h.1, h2.2.1.trans h.2.1, h2.2.2.trans h.2.2⟩
  · rename_i s1 f _ heq
    rw [heq] at h; exact h

theorem loadCached_frame (s : State) (key : Nat) (f t tLru tChk : Int) :
    (loadCached s key f t tLru tChk).1.levels = s.levels ∧ (loadCached s key f t tLru tChk).1.off = s.off ∧
    (loadCached s key f t tLru tChk).1.maxSize = s.maxSize := by
  unfold loadCached; split
  · simp
  · simp only; split <;> simp

theorem good_congr (s s' : State) (H : List (Int × Int)) (g : Int) (hl : s'.levels = s.levels) (ho : s'.off = s.off)
    (h : Good s H g) : Good s' H g := by
  refine ⟨?_, ?_, ?_⟩
  · rw [hl]; exact h.stepsEq
  · rw [hl, ho]; exact h.cov
  · rw [hl]; exact h.hist

theorem good_sub (s : State) (H H' : List (Int × Int)) (g : Int) (hsub : ∀ x, x ∈ H' → x ∈ H) (h : Good s H g) :
    Good s H' g :=
  ⟨h.stepsEq, h.cov, fun sec tAt hm hg => h.hist sec tAt (hsub _ hm) hg⟩

theorem invalidate_good (s : State) (H : List (Int × Int)) (g tAt tFrom : Int) (secs : List Int) (dels : List (List Int))
    (h : Good s H g) (he : edgeSec tFrom ≤ g) :
    Good (invalidate s tAt tFrom secs dels) (secs.map (fun x => (x, tAt)) ++ H) g := by
  have h1 := updateAll_good secs s H g tAt h
  exact gc_good _ _ g (edgeSec tFrom) dels h1 he

theorem step_good (s : State) (H : List (Int × Int)) (g : Int) (op : Op) (h : Good s H g) (he : EdgesLe [op] g) :
    Good (step s op) (opEvents op ++ H) g := by
  cases op with
  | lookup key f t tLru tChk =>
    have hf := loadCached_frame s key f t tLru tChk
    simpa [step, opEvents] using good_congr s _ H g hf.1 hf.2.1 h
  | store key tLru cr ch =>
    have hf := store_frame s key tLru cr ch
    simpa [step, opEvents] using good_congr s _ H g hf.1 hf.2.1 h
  | invalidate tAt tFrom secs dels =>
    simp only [step, opEvents]
    exact invalidate_good s H g tAt tFrom secs dels h (he tAt tFrom secs dels (by simp))

theorem run_good : ∀ (ops : List Op) (s : State) (H : List (Int × Int)) (g : Int), Good s H g → EdgesLe ops g →
    Good (run s ops) (events ops ++ H) g := by
  intro ops
  induction ops with
  | nil => intro s H g h _; simpa [run, events] using h
  | cons op r ih =>
    intro s H g h he
    have h1 := step_good s H g op h (fun a b c d hm => he a b c d (by simp at hm; simp [hm]))
    have h2 := ih (step s op) _ g h1 (fun a b c d hm => he a b c d (List.mem_cons_of_mem _ hm))
    simp only [run]
    apply good_sub _ _ _ g _ h2
    intro x hx
    simp only [events, List.mem_append] at hx ⊢
    tauto

theorem init_good (maxSize off g : Int) : Good (init maxSize off) [] g := by
  have hs : secMap (init maxSize off).levels = [] := by
    show secMap initLevels = []
    decide
  refine ⟨by show initLevels.map (·.1) = steps; decide, ?_, ?_⟩
  · intro p _ s a hm; rw [hs] at hm; simp [mget] at hm
  · intro sec tAt hm; simp at hm

/-! ### the check is sound in every reachable state -/

theorem edge_le_of_mutable (sec now : Int) (h : beforeEdge sec now = false) : edgeSec now ≤ sec := by
  unfold beforeEdge at h; unfold edgeSec; unfold nsPerSec at *
  simp at h; omega

theorem check_sound (s : State) (H : List (Int × Int)) (g : Int) (hgood : Good s H g)
    (now loadAt f t sec a : Int) (hg : g ≤ edgeSec now) (h1 : f ≤ sec) (h2 : sec ≤ t)
    (hmut : beforeEdge sec now = false)
    (hs : mget (secMap s.levels) sec = some a) (hl : loadAt ≤ a + invalidateLingerNs) :
    checkInvalidation s.levels s.off now loadAt f t = false := by
  have he := edge_le_of_mutable sec now hmut
  have ht : beforeEdge t now = false := by
    unfold beforeEdge at *; unfold nsPerSec at *; simp at *; omega
  unfold checkInvalidation
  simp only [ht, Bool.false_eq_true, if_false]
  apply checkLevels_sound (secMap s.levels) s.off g loadAt s.levels (levels_pos _ hgood.stepsEq)
    (levels_last _ hgood.stepsEq) hgood.cov (clampFrom f now) t sec a _ _ h2 hs hl
  · unfold clampFrom; split
    · exact hg
    · rename_i hb
      have := edge_le_of_mutable f now (by simpa using hb)
      omega
  · unfold clampFrom; split <;> omega

/-! ### headline: what is served from the cache -/

/-- C24, first sentence. For EVERY history `ops` of lookup / store / invalidate critical sections (arbitrary keys,
    ranges, clock readings, eviction and gc choices): if a lookup of `(key, [f,t])` with clock reading `tChk` is
    served from the cache, then the served rows are a stored pair `cr` whose load-start time `cr.loadedAt`
    is later than `tAt + linger` for every invalidation `(sec, tAt)` of the history with `sec` in the range and
    inside the mutable window at `tChk`.
    Hypothesis `hclock`: the clock read by the lookup is not behind the clock of an earlier invalidate call
    (at second granularity of the gc edge); it is implied by a monotone clock (`served_fresh_monotone`). -/
theorem served_fresh (maxSize off : Int) (ops : List Op) (key : Nat) (f t tLru tChk : Int) (n gen : Nat)
    (hserved : (loadCached (run (init maxSize off) ops) key f t tLru tChk).2 = .served n gen)
    (hclock : EdgesLe ops (edgeSec tChk)) :
    ∃ cr, lookupRows (run (init maxSize off) ops) key f t = some cr ∧ cr.n = n ∧ cr.gen = gen ∧
      ∀ sec tAt, (sec, tAt) ∈ events ops → f ≤ sec → sec ≤ t → beforeEdge sec tChk = false →
        tAt + invalidateLingerNs < cr.loadedAt := by
  have hgood := run_good ops (init maxSize off) [] (edgeSec tChk) (init_good _ _ _) hclock
  generalize run (init maxSize off) ops = s at *
  unfold loadCached at hserved
  cases hl : lookupRows s key f t with
  | none => simp [hl] at hserved
  | some cr =>
    simp only [hl] at hserved
    by_cases hc : checkInvalidation s.levels s.off tChk cr.loadedAt f t = true
    · simp only [hc, if_true] at hserved
      injection hserved with e1 e2
      refine ⟨cr, rfl, e1, e2, ?_⟩
      intro sec tAt hev h1 h2 hmut
      by_contra hcon
      obtain ⟨a, ha, hle⟩ := hgood.hist sec tAt (by simpa using hev) (edge_le_of_mutable sec tChk hmut)
      have := check_sound s _ _ hgood tChk cr.loadedAt f t sec a (le_refl _) h1 h2 hmut ha (by omega)
      rw [this] at hc; simp at hc
    · simp [hc] at hserved

theorem edgeSec_mono (a b : Int) (h : a ≤ b) : edgeSec a ≤ edgeSec b := by
  unfold edgeSec immutableNs nsPerSec; omega

/-- the same with the clock hypothesis in its natural form: no earlier invalidate call read a later clock -/
theorem served_fresh_monotone (maxSize off : Int) (ops : List Op) (key : Nat) (f t tLru tChk : Int) (n gen : Nat)
    (hserved : (loadCached (run (init maxSize off) ops) key f t tLru tChk).2 = .served n gen)
    (hmono : ∀ tAt tFrom secs dels, Op.invalidate tAt tFrom secs dels ∈ ops → tFrom ≤ tChk) :
    ∃ cr, lookupRows (run (init maxSize off) ops) key f t = some cr ∧ cr.n = n ∧ cr.gen = gen ∧
      ∀ sec tAt, (sec, tAt) ∈ events ops → f ≤ sec → sec ≤ t → beforeEdge sec tChk = false →
        tAt + invalidateLingerNs < cr.loadedAt :=
  served_fresh maxSize off ops key f t tLru tChk n gen hserved
    (fun a b c d hm => edgeSec_mono _ _ (hmono a b c d hm))

/-- C24, "otherwise it is reloaded": an invalidated second in range (inside the window, not older than the load
    start minus the linger) makes the lookup answer `stale`, never `served`. -/
theorem invalidated_is_reloaded (maxSize off : Int) (ops : List Op) (key : Nat) (f t tLru tChk : Int) (cr : CRows)
    (hclock : EdgesLe ops (edgeSec tChk))
    (hcached : lookupRows (run (init maxSize off) ops) key f t = some cr)
    (sec tAt : Int) (hev : (sec, tAt) ∈ events ops) (h1 : f ≤ sec) (h2 : sec ≤ t)
    (hmut : beforeEdge sec tChk = false) (hl : cr.loadedAt ≤ tAt + invalidateLingerNs) :
    (loadCached (run (init maxSize off) ops) key f t tLru tChk).2 = .stale := by
  cases hres : (loadCached (run (init maxSize off) ops) key f t tLru tChk).2 with
  | stale => rfl
  | absent =>
    unfold loadCached at hres; rw [hcached] at hres; simp only at hres
    split at hres <;> simp at hres
  | served n gen =>
    obtain ⟨cr', hc', _, _, hall⟩ := served_fresh maxSize off ops key f t tLru tChk n gen hres hclock
    rw [hcached] at hc'; injection hc' with e; subst e
    have := hall sec tAt hev h1 h2 hmut
    omega

/-- C24, second sentence: a cached range that ends before the mutable window is served as stored. -/
theorem immutable_served (s : State) (key : Nat) (f t tLru tChk : Int) (cr : CRows)
    (hcached : lookupRows s key f t = some cr) (him : beforeEdge t tChk = true) :
    (loadCached s key f t tLru tChk).2 = .served cr.n cr.gen := by
  unfold loadCached; rw [hcached]; simp [checkInvalidation, him]

/-! ### provenance: rows and load time are stored together by one store section -/

def Prov (s : State) (L : List Op) : Prop :=
  ∀ e ∈ s.cache, ∀ cr ∈ e.rows, ∃ tLru ch, Op.store e.key tLru cr ch ∈ L

theorem findEntry_mem : ∀ (c : List Entry) (k : Nat) (e : Entry), findEntry c k = some e → e ∈ c ∧ e.key = k := by
  intro c
  induction c with
  | nil => intro k e h; simp [findEntry] at h
  | cons x r ih =>
    intro k e h
    simp only [findEntry] at h
    split at h
    · injection h with h; subst h; exact ⟨by simp, by assumption⟩
    · obtain ⟨h1, h2⟩ := ih k e h; exact ⟨List.mem_cons_of_mem _ h1, h2⟩

theorem findRows_mem : ∀ (rs : List CRows) (f t : Int) (cr : CRows), findRows rs f t = some cr →
    cr ∈ rs ∧ cr.tFrom = f ∧ cr.tTo = t := by
  intro rs
  induction rs with
  | nil => intro f t cr h; simp [findRows] at h
  | cons x r ih =>
    intro f t cr h
    simp only [findRows] at h
    split at h
    · rename_i hr
      injection h with h; subst h
      simp [isRange] at hr
      exact ⟨by simp, hr.1, hr.2⟩
    · obtain ⟨h1, h2⟩ := ih f t cr h; exact ⟨List.mem_cons_of_mem _ h1, h2⟩

theorem prov_sub (s : State) (L L' : List Op) (hsub : ∀ x, x ∈ L → x ∈ L') (h : Prov s L) : Prov s L' := by
  intro e he cr hcr
  obtain ⟨a, b, hm⟩ := h e he cr hcr
  exact ⟨a, b, hsub _ hm⟩

theorem evictOne_cache_sub (s : State) (k : Nat) : ∀ e ∈ (evictOne s k).cache, e ∈ s.cache := by
  intro e he
  unfold evictOne at he; split at he
  · exact he
  · simp at he; exact he.1

theorem evictLoop_cache_sub : ∀ (ch : List Nat) (s : State), ∀ e ∈ (evictLoop s ch).1.cache, e ∈ s.cache := by
  intro ch
  induction ch with
  | nil => intro s e he; simp only [evictLoop] at he; split at he <;> (try split at he) <;> exact he
  | cons k ks ih =>
    intro s e he
    simp only [evictLoop] at he
    split at he
    · split at he
      · exact evictOne_cache_sub s k e (ih _ e he)
      · exact he
    · exact he

theorem insertRows_prov (s : State) (key : Nat) (tLru : Int) (cr : CRows) (ch : List Nat) (L : List Op)
    (h : Prov s L) : Prov (insertRows s key tLru cr) (Op.store key tLru cr ch :: L) := by
  intro e he cr' hcr'
  unfold insertRows at he
  simp only at he
  split at he
  · obtain ⟨a, b, hm⟩ := h e he cr' hcr'; exact ⟨a, b, List.mem_cons_of_mem _ hm⟩
  · simp only [List.mem_map] at he
    obtain ⟨x, hx, rfl⟩ := he
    have hxold : x ∈ s.cache ∨ x = { key := key, lru := 0, rows := [], rowsSize := 0 } := by
      unfold addKey at hx; split at hx
      · exact Or.inl hx
      · simp at hx; exact hx
    by_cases hk : x.key = key
    · simp only [hk, if_true] at hcr' ⊢
      simp only [putEntry, putRange, List.mem_cons, List.mem_filter] at hcr'
      rcases hcr' with e1 | e1
      · subst e1; exact ⟨tLru, ch, by simp [putEntry, hk]⟩
      · rcases hxold with h1 | h1
        · obtain ⟨a, b, hm⟩ := h x h1 cr' e1.1
          exact ⟨a, b, by simp only [putEntry]; rw [← hk]; exact List.mem_cons_of_mem _ hm⟩
        · subst h1; simp at e1
    · simp only [hk, if_false] at hcr' ⊢
      rcases hxold with h1 | h1
      · obtain ⟨a, b, hm⟩ := h x h1 cr' hcr'; exact ⟨a, b, List.mem_cons_of_mem _ hm⟩
      · subst h1; simp at hcr'

theorem step_prov (s : State) (L : List Op) (op : Op) (h : Prov s L) : Prov (step s op) (op :: L) := by
  cases op with
  | lookup key f t tLru tChk =>
    intro e he cr hcr
    have hc : (step s (.lookup key f t tLru tChk)).cache = s.cache ∨
        (step s (.lookup key f t tLru tChk)).cache = setLru s.cache key tLru := by
      simp only [step, loadCached]; split
      · exact Or.inl rfl
      · split <;> exact Or.inr rfl
    rcases hc with hc | hc
    · rw [hc] at he; obtain ⟨a, b, hm⟩ := h e he cr hcr; exact ⟨a, b, List.mem_cons_of_mem _ hm⟩
    · rw [hc] at he
      unfold setLru at he
      obtain ⟨x, hx, rfl⟩ := List.mem_map.mp he
      by_cases hk : x.key = key
      · simp only [hk, if_true] at hcr ⊢
        obtain ⟨a, b, hm⟩ := h x hx cr hcr; exact ⟨a, b, by rw [← hk]; exact List.mem_cons_of_mem _ hm⟩
      · simp only [hk, if_false] at hcr ⊢
        obtain ⟨a, b, hm⟩ := h x hx cr hcr; exact ⟨a, b, List.mem_cons_of_mem _ hm⟩
  | invalidate tAt tFrom secs dels =>
    intro e he cr hcr
    obtain ⟨a, b, hm⟩ := h e (by simpa [step, invalidate] using he) cr hcr
    exact ⟨a, b, List.mem_cons_of_mem _ hm⟩
  | store key tLru cr0 ch =>
    have h1 : Prov (evictLoop s ch).1 L := fun e he cr hcr => h e (evictLoop_cache_sub ch s e he) cr hcr
    simp only [step, store]
    split
    · rename_i s1 heq
      rw [heq] at h1
      exact insertRows_prov s1 key tLru cr0 ch L h1
    · rename_i s1 f _ heq
      rw [heq] at h1
      exact prov_sub _ _ _ (fun x hx => List.mem_cons_of_mem _ hx) h1

theorem run_prov : ∀ (ops : List Op) (s : State) (L : List Op), Prov s L → Prov (run s ops) (ops ++ L) := by
  intro ops
  induction ops with
  | nil => intro s L h; simpa [run] using h
  | cons op r ih =>
    intro s L h
    have := ih (step s op) (op :: L) (step_prov s L op h)
    simp only [run]
    exact prov_sub _ _ _ (fun x hx => by simp only [List.mem_append, List.mem_cons] at hx ⊢; tauto) this

/-- whatever a lookup finds for `(key, [f,t])` — rows (n, gen) together with their loadedAt — was put there by
    one store section of the history for exactly that key and range ("served as loaded"; a load of another
    range or key can never refresh it) -/
theorem served_rows_stored_by_load (maxSize off : Int) (ops : List Op) (key : Nat) (f t : Int) (cr : CRows)
    (h : lookupRows (run (init maxSize off) ops) key f t = some cr) :
    cr.tFrom = f ∧ cr.tTo = t ∧ ∃ tLru ch, Op.store key tLru cr ch ∈ ops := by
  have hp := run_prov ops (init maxSize off) [] (by intro e he; simp [init] at he)
  unfold lookupRows at h
  split at h
  · simp at h
  · rename_i e he
    obtain ⟨hmem, hkey⟩ := findEntry_mem _ _ _ he
    obtain ⟨hr, h1, h2⟩ := findRows_mem _ _ _ _ h
    obtain ⟨a, b, hm⟩ := hp e hmem cr hr
    exact ⟨h1, h2, a, b, by simpa [hkey] using hm⟩


/-! ### the size bound -/

/-- what the eviction loop compares with approxMaxSize -/
def load (s : State) : Int := s.size + (s.cache.length : Int)

theorem entryCost_nonneg (e : Entry) : 0 ≤ entryCost e := by unfold entryCost; omega

theorem evictOne_load_le (s : State) (k : Nat) : load (evictOne s k) ≤ load s := by
  unfold evictOne; split
  · exact le_refl _
  · rename_i e _
    unfold load; simp only
    have h1 := entryCost_nonneg e
    have h2 : (s.cache.filter (fun x => x.key ≠ k)).length ≤ s.cache.length := List.length_filter_le _ _
    omega

theorem evictLoop_load_le : ∀ (ch : List Nat) (s : State), load (evictLoop s ch).1 ≤ load s := by
  intro ch
  induction ch with
  | nil => intro s; simp only [evictLoop]; split <;> (try split) <;> exact le_refl _
  | cons k ks ih =>
    intro s; simp only [evictLoop]; split
    · split
      · exact le_trans (ih _) (evictOne_load_le s k)
      · exact le_refl _
    · exact le_refl _

/-- when the loop ends normally the cache is strictly below approxMaxSize -/
theorem evictLoop_ok_below : ∀ (ch : List Nat) (s : State), (evictLoop s ch).2 = .ok →
    load (evictLoop s ch).1 < s.maxSize := by
  intro ch
  induction ch with
  | nil =>
    intro s h; simp only [evictLoop] at h ⊢
    split
    · rename_i hn; simp only [hn, if_true] at h; split at h <;> simp at h
    · rename_i hn; unfold needEvict at hn; unfold load; simp at hn; omega
  | cons k ks ih =>
    intro s h; simp only [evictLoop] at h ⊢
    split
    · rename_i hn; simp only [hn, if_true] at h
      split
      · rename_i hl; simp only [hl, if_true] at h
        have := ih _ h
        rw [(evictOne_frame s k).2.2] at this; exact this
      · rename_i hl; simp [hl] at h
    · rename_i hn; simp [hn] at h

theorem insertRows_load_le (s : State) (key : Nat) (tLru : Int) (cr : CRows) :
    load (insertRows s key tLru cr) ≤ load s + 2 + (cr.n : Int) := by
  unfold insertRows; simp only
  have hlen : ((addKey s.cache key).length : Int) ≤ (s.cache.length : Int) + 1 := by
    unfold addKey; split <;> simp
  split
  · omega
  · rename_i e _
    unfold load; simp only [List.length_map]
    have : sizeDelta e cr ≤ 1 + (cr.n : Int) := by unfold sizeDelta; split <;> omega
    omega

/-- C24 size bound, one store: after a store section that ran to completion the accounted size (rows + ranges
    + keys) is at most approxMaxSize + 1 + (rows just loaded) -/
theorem store_load_bound (s : State) (key : Nat) (tLru : Int) (cr : CRows) (ch : List Nat)
    (hok : (store s key tLru cr ch).2 = .ok) :
    load (store s key tLru cr ch).1 ≤ s.maxSize + 1 + (cr.n : Int) := by
  have hb := evictLoop_ok_below ch s
  unfold store at hok ⊢
  rcases hE : evictLoop s ch with ⟨s1, f⟩
  rw [hE] at hb
  simp only [hE] at hok ⊢
  cases f with
  | ok =>
    simp only at hb ⊢
    have h1 := insertRows_load_le s1 key tLru cr
    have h2 := hb trivial
    omega
  | hang => simp at hok
  | noChoice => simp at hok
  | illegal => simp at hok
  | extra => simp at hok

/-- every store of the history loads at most `N` rows -/
def RowsLe (ops : List Op) (N : Nat) : Prop := ∀ key tLru cr ch, Op.store key tLru cr ch ∈ ops → cr.n ≤ N

theorem setLru_length (c : List Entry) (k : Nat) (t : Int) : (setLru c k t).length = c.length := by
  unfold setLru; simp

theorem step_load_bound (s : State) (op : Op) (B : Int) (N : Nat) (h : load s ≤ B)
    (hB : s.maxSize + 1 + (N : Int) ≤ B) (hop : RowsLe [op] N) : load (step s op) ≤ B := by
  cases op with
  | lookup key f t tLru tChk =>
    have : load (step s (.lookup key f t tLru tChk)) = load s := by
      simp only [step, loadCached]; split
      · rfl
      · split <;> simp [load, setLru_length]
    omega
  | invalidate tAt tFrom secs dels => simpa [step, invalidate, load] using h
  | store key tLru cr ch =>
    have hn : cr.n ≤ N := hop key tLru cr ch (by simp)
    simp only [step]
    by_cases hok : (store s key tLru cr ch).2 = .ok
    · have := store_load_bound s key tLru cr ch hok
      have : (cr.n : Int) ≤ N := by exact_mod_cast hn
      omega
    · have h2 : (store s key tLru cr ch).1 = (evictLoop s ch).1 := by
        unfold store at hok ⊢
        rcases hE : evictLoop s ch with ⟨s1, f⟩
        simp only [hE] at hok ⊢
        cases f <;> simp at hok ⊢
      rw [h2]; exact le_trans (evictLoop_load_le ch s) h

theorem step_maxSize (s : State) (op : Op) : (step s op).maxSize = s.maxSize := by
  cases op with
  | lookup key f t tLru tChk => exact (loadCached_frame s key f t tLru tChk).2.2
  | invalidate tAt tFrom secs dels => rfl
  | store key tLru cr ch => exact (store_frame s key tLru cr ch).2.2

/-- C24 size bound, every history: whatever the sequence of requests (any eviction choices, also ones the real
    loop cannot make), the accounted size never exceeds approxMaxSize + 1 + (largest single load) -/
theorem run_load_bound (N : Nat) : ∀ (ops : List Op) (s : State) (B : Int), load s ≤ B → s.maxSize + 1 + (N : Int) ≤ B →
    RowsLe ops N → load (run s ops) ≤ B := by
  intro ops
  induction ops with
  | nil => intro s B h _ _; simpa [run] using h
  | cons op r ih =>
    intro s B h hB hr
    simp only [run]
    apply ih (step s op) B
    · exact step_load_bound s op B N h hB (fun a b c d hm => hr a b c d (by simp at hm; simp [hm]))
    · rw [step_maxSize]; exact hB
    · exact fun a b c d hm => hr a b c d (List.mem_cons_of_mem _ hm)

theorem cache_within_bound (maxSize off : Int) (N : Nat) (ops : List Op) (hpos : 0 ≤ maxSize) (hr : RowsLe ops N) :
    load (run (init maxSize off) ops) ≤ maxSize + 1 + (N : Int) :=
  run_load_bound N ops (init maxSize off) _ (by simp [load, init]; omega) (by simp [init]) hr


/-! ### the accounted size dominates the real content -/

def rowsTotal (rs : List CRows) : Int := (rs.map (fun c => (c.n : Int))).sum
/-- what an entry really holds: itself, its ranges, their rows -/
def actualEntry (e : Entry) : Int := 1 + (e.rows.length : Int) + rowsTotal e.rows
def actual (s : State) : Int := (s.cache.map actualEntry).sum
def costSum (c : List Entry) : Int := (c.map entryCost).sum

structure Acc (s : State) : Prop where
  sizeGe : costSum s.cache ≤ s.size
  nodup : (s.cache.map (·.key)).Nodup
  rowsLe : ∀ e ∈ s.cache, rowsTotal e.rows ≤ (e.rowsSize : Int)

theorem sum_actual_le : ∀ (c : List Entry), (∀ e ∈ c, rowsTotal e.rows ≤ (e.rowsSize : Int)) →
    (c.map actualEntry).sum ≤ (c.length : Int) + costSum c := by
  intro c
  induction c with
  | nil => intro _; simp [costSum]
  | cons x r ih =>
    intro h
    have h1 := h x (by simp)
    have h2 := ih (fun e he => h e (List.mem_cons_of_mem _ he))
    have hx : actualEntry x ≤ 1 + entryCost x := by unfold actualEntry entryCost; omega
    simp only [List.map_cons, List.sum_cons, List.length_cons, costSum] at h2 ⊢
    push_cast
    omega

theorem findEntry_none : ∀ (c : List Entry) (k : Nat), findEntry c k = none → ∀ e ∈ c, e.key ≠ k := by
  intro c
  induction c with
  | nil => intro k _ e he; simp at he
  | cons x r ih =>
    intro k h e he
    simp only [findEntry] at h
    split at h
    · simp at h
    · rcases List.mem_cons.mp he with e1 | e1
      · subst e1; assumption
      · exact ih k h e e1

theorem costSum_cons (x : Entry) (r : List Entry) : costSum (x :: r) = entryCost x + costSum r := by
  simp [costSum]

theorem costSum_filter_le (r : List Entry) (p : Entry → Bool) : costSum (r.filter p) ≤ costSum r := by
  induction r with
  | nil => simp
  | cons y r' ih =>
    have := entryCost_nonneg y
    rw [List.filter_cons]; split
    · rw [costSum_cons, costSum_cons]; omega
    · rw [costSum_cons]; omega

theorem costSum_filter : ∀ (c : List Entry) (k : Nat) (e : Entry), findEntry c k = some e →
    costSum (c.filter (fun x => x.key ≠ k)) + entryCost e ≤ costSum c := by
  intro c
  induction c with
  | nil => intro k e h; simp [findEntry] at h
  | cons x r ih =>
    intro k e h
    simp only [findEntry] at h
    split at h
    · rename_i hk
      injection h with h; subst h
      have := costSum_filter_le r (fun y => y.key ≠ k)
      rw [List.filter_cons]; split
      · rename_i hd; simp [hk] at hd
      · rw [costSum_cons]; omega
    · rename_i hk
      have := ih k e h
      rw [List.filter_cons]; split
      · rw [costSum_cons, costSum_cons]; omega
      · rename_i hd; simp [hk] at hd

theorem evictOne_acc (s : State) (k : Nat) (h : Acc s) : Acc (evictOne s k) := by
  unfold evictOne; split
  · exact h
  · rename_i e he
    refine ⟨?_, ?_, ?_⟩
    · have := costSum_filter s.cache k e he
      have := h.sizeGe
      simp only; omega
    · exact List.Nodup.sublist (List.Sublist.map _ List.filter_sublist) h.nodup
    · intro x hx; exact h.rowsLe x (List.mem_filter.mp hx).1

theorem evictLoop_acc : ∀ (ch : List Nat) (s : State), Acc s → Acc (evictLoop s ch).1 := by
  intro ch
  induction ch with
  | nil => intro s h; simp only [evictLoop]; split <;> (try split) <;> exact h
  | cons k ks ih =>
    intro s h; simp only [evictLoop]; split
    · split
      · exact ih _ (evictOne_acc s k h)
      · exact h
    · exact h

theorem filter_range_len : ∀ (rows : List CRows) (f t : Int), hasRange rows f t = true →
    (rows.filter (fun x => !isRange x f t)).length + 1 ≤ rows.length := by
  intro rows
  induction rows with
  | nil => intro f t h; simp [hasRange, findRows] at h
  | cons c r ih =>
    intro f t h
    by_cases hc : isRange c f t = true
    · have := List.length_filter_le (fun x => !isRange x f t) r
      simp only [List.filter, hc, Bool.not_true, List.length_cons]; omega
    · have hr : hasRange r f t = true := by
        simp only [hasRange, findRows, hc] at h ⊢; exact h
      have := ih f t hr
      simp only [List.filter, hc, Bool.not_false, List.length_cons]; omega

theorem rowsTotal_filter_le (rows : List CRows) (p : CRows → Bool) : rowsTotal (rows.filter p) ≤ rowsTotal rows := by
  induction rows with
  | nil => simp
  | cons c r ih =>
    by_cases hc : p c = true
    · simp only [List.filter, hc, rowsTotal, List.map_cons, List.sum_cons] at ih ⊢; omega
    · simp only [List.filter, hc, rowsTotal, List.map_cons, List.sum_cons] at ih ⊢; omega

theorem putEntry_cost (e : Entry) (tLru : Int) (cr : CRows) :
    entryCost (putEntry e tLru cr) ≤ entryCost e + sizeDelta e cr := by
  unfold entryCost putEntry putRange sizeDelta
  simp only [List.length_cons]
  push_cast
  split
  · rename_i h
    have := filter_range_len e.rows cr.tFrom cr.tTo h
    omega
  · have := List.length_filter_le (fun x => !isRange x cr.tFrom cr.tTo) e.rows
    omega

theorem costSum_update : ∀ (c : List Entry) (key : Nat) (F : Entry → Entry) (e : Entry),
    (c.map (·.key)).Nodup → findEntry c key = some e →
    costSum (c.map (fun x => if x.key = key then F x else x)) = costSum c - entryCost e + entryCost (F e) := by
  intro c
  induction c with
  | nil => intro key F e _ h; simp [findEntry] at h
  | cons x r ih =>
    intro key F e hnd h
    simp only [List.map_cons, List.nodup_cons] at hnd
    simp only [findEntry] at h
    split at h
    · rename_i hk
      injection h with h; subst h
      have hid : r.map (fun y => if y.key = key then F y else y) = r := by
        have : ∀ y ∈ r, y.key ≠ key := by
          intro y hy hyk
          exact hnd.1 (by rw [hk, ← hyk]; exact List.mem_map_of_mem hy)
        calc r.map (fun y => if y.key = key then F y else y) = r.map id := by
              apply List.map_congr_left; intro y hy; simp [this y hy]
          _ = r := by simp
      simp only [costSum, List.map_cons, List.sum_cons, hk, if_true, hid]
      omega
    · rename_i hk
      have := ih key F e hnd.2 h
      simp only [costSum, List.map_cons, List.sum_cons, hk, if_false] at this ⊢
      omega

theorem addKey_props (c : List Entry) (key : Nat) (hnd : (c.map (·.key)).Nodup)
    (hrows : ∀ e ∈ c, rowsTotal e.rows ≤ (e.rowsSize : Int)) :
    costSum (addKey c key) = costSum c ∧ ((addKey c key).map (·.key)).Nodup ∧
    (∀ e ∈ addKey c key, rowsTotal e.rows ≤ (e.rowsSize : Int)) := by
  unfold addKey; split
  · exact ⟨rfl, hnd, hrows⟩
  · rename_i hk
    have hnone : findEntry c key = none := by
      unfold hasKey at hk; cases hf : findEntry c key <;> simp [hf] at hk ⊢
    refine ⟨?_, ?_, ?_⟩
    · simp [costSum, entryCost]
    · rw [List.map_append, List.nodup_append]
      refine ⟨hnd, by simp, ?_⟩
      intro a ha b hb
      simp at hb
      obtain ⟨e, he, rfl⟩ := List.mem_map.mp ha
      rw [hb]; exact findEntry_none c key hnone e he
    · intro e he
      rcases List.mem_append.mp he with h1 | h1
      · exact hrows e h1
      · simp at h1; subst h1; simp [rowsTotal]

theorem insertRows_acc (s : State) (key : Nat) (tLru : Int) (cr : CRows) (h : Acc s) :
    Acc (insertRows s key tLru cr) := by
  obtain ⟨hc, hnd, hrows⟩ := addKey_props s.cache key h.nodup h.rowsLe
  unfold insertRows; simp only
  split
  · exact h
  · rename_i e he
    refine ⟨?_, ?_, ?_⟩
    · simp only
      rw [costSum_update _ key (fun x => putEntry x tLru cr) e hnd he]
      have := putEntry_cost e tLru cr
      have := h.sizeGe
      omega
    · simp only [List.map_map]
      have : ((fun (x : Entry) => x.key) ∘ fun x => if x.key = key then putEntry x tLru cr else x) = (fun x => x.key) := by
        funext x; simp only [Function.comp]; split <;> simp [putEntry]
      rw [this]; exact hnd
    · intro x hx
      simp only [List.mem_map] at hx
      obtain ⟨y, hy, rfl⟩ := hx
      have hyr := hrows y hy
      split
      · simp only [putEntry, putRange, rowsTotal, List.map_cons, List.sum_cons]
        have := rowsTotal_filter_le y.rows (fun x => !isRange x cr.tFrom cr.tTo)
        unfold rowsTotal at this hyr
        push_cast; omega
      · exact hyr

theorem step_acc (s : State) (op : Op) (h : Acc s) : Acc (step s op) := by
  cases op with
  | invalidate tAt tFrom secs dels => exact ⟨h.sizeGe, h.nodup, h.rowsLe⟩
  | store key tLru cr ch =>
    simp only [step, store]
    have h1 := evictLoop_acc ch s h
    rcases hE : evictLoop s ch with ⟨s1, f⟩
    rw [hE] at h1
    cases f <;> simp only <;> first | exact insertRows_acc s1 key tLru cr h1 | exact h1
  | lookup key f t tLru tChk =>
    have hset : Acc { s with cache := setLru s.cache key tLru } := by
      have hmap : ∀ c : List Entry, (setLru c key tLru).map entryCost = c.map entryCost ∧
          (setLru c key tLru).map (·.key) = c.map (·.key) := by
        intro c; unfold setLru; simp only [List.map_map]
        constructor <;> (apply List.map_congr_left; intro x _; simp only [Function.comp]; split <;> simp [entryCost])
      refine ⟨?_, ?_, ?_⟩
      · simp only [costSum, (hmap s.cache).1]; exact h.sizeGe
      · simp only [(hmap s.cache).2]; exact h.nodup
      · intro e he
        unfold setLru at he
        obtain ⟨y, hy, rfl⟩ := List.mem_map.mp he
        have := h.rowsLe y hy
        split <;> simpa using this
    simp only [step, loadCached]; split
    · exact h
    · split <;> exact hset

theorem run_acc : ∀ (ops : List Op) (s : State), Acc s → Acc (run s ops) := by
  intro ops
  induction ops with
  | nil => intro s h; simpa [run] using h
  | cons op r ih => intro s h; simp only [run]; exact ih _ (step_acc s op h)

theorem init_acc (maxSize off : Int) : Acc (init maxSize off) :=
  ⟨by simp [init, costSum], by simp [init], by intro e he; simp [init] at he⟩

/-- C24, last clause, every history: what the cache really holds (keys + ranges + rows, counted from the
    entries themselves) never exceeds the accounted size, hence stays ≤ approxMaxSize + 1 + largest load. -/
theorem cache_content_bounded (maxSize off : Int) (N : Nat) (ops : List Op) (hpos : 0 ≤ maxSize) (hr : RowsLe ops N) :
    actual (run (init maxSize off) ops) ≤ maxSize + 1 + (N : Int) := by
  have hacc := run_acc ops _ (init_acc maxSize off)
  have h1 := sum_actual_le _ hacc.rowsLe
  have h2 := hacc.sizeGe
  have h3 := cache_within_bound maxSize off N ops hpos hr
  unfold actual; unfold load at h3
  omega

/-! ### non-vacuity: concrete histories (kernel-evaluated) -/

def exInval : Op := .invalidate 200000000000000 200000000000000 [37000] [[], [], []]
def exRows (la : Int) : CRows := { tFrom := 30000, tTo := 45000, n := 2, gen := 7, loadedAt := la }
/-- second 37000 (inside the hour bucket 36000, strictly inside the range 30000..45000, 9800 s inside the
    mutable window) is invalidated at clock 200000 s; then rows loaded at `la` are stored -/
def exOps (la : Int) : List Op := [exInval, .store 1 200020000000000 (exRows la) []]

/-- load started 1 ns after invalidation + linger: served (hypotheses of `served_fresh` are satisfiable and its
    conclusion is about a real event) -/
example : (loadCached (run (init 10 0) (exOps 200015000000001)) 1 30000 45000 200030000000000 200030000000000).2
    = .served 2 7 := by decide
example : EdgesLe (exOps 200015000000001) (edgeSec 200030000000000) := by
  intro a b c d hm
  simp [exOps, exInval] at hm
  obtain ⟨_, rfl, _, _⟩ := hm
  decide
example : (37000, 200000000000000) ∈ events (exOps 200015000000001) ∧ beforeEdge 37000 200030000000000 = false := by
  decide
/-- load started exactly at invalidation + linger: reloaded (the coarse hour map catches it) -/
example : (loadCached (run (init 10 0) (exOps 200015000000000)) 1 30000 45000 200030000000000 200030000000000).2
    = .stale := by decide
/-- the same rows once the range has left the mutable window (clock + 48 h): served as stored -/
example : (loadCached (run (init 10 0) (exOps 200015000000000)) 1 30000 45000 400000000000000 400000000000000).2
    = .served 2 7 := by decide
/-- size bound is reached exactly: approxMaxSize 3, a 2-row load into the empty cache gives load = 4 ≤ 3 + 1 + 2 -/
example : load (run (init 3 0) (exOps 0)) = 4 := by decide

/-- The clock hypothesis of `served_fresh` is necessary for the code as it is. History: second 38700 is
    invalidated at clock A = 200000 s; rows for 33000..43300 that were loaded 1 ns BEFORE that are stored; a later
    invalidate call at clock 210600 s garbage-collects the hour key 36000 (< its edge 37800) but keeps second 38700;
    then a lookup whose clock reads 200030 s (the wall clock stepped back ~3 h) scans the hour map, finds no
    hour 36000 and serves the stale rows. With a clock that does not step back the lookup is `stale`. -/
def backOps : List Op :=
  [.invalidate 200000000000000 200000000000000 [38700] [[], [], []],
   .store 1 200001000000000 { tFrom := 33000, tTo := 43300, n := 1, gen := 1, loadedAt := 199999999999999 } [],
   .invalidate 210600000000000 210600000000000 [] [[36000], [], []]]

theorem clock_hypothesis_needed :
    (loadCached (run (init 10 0) backOps) 1 33000 43300 200030000000000 200030000000000).2 = .served 1 1 ∧
    (38700, 200000000000000) ∈ events backOps ∧ beforeEdge 38700 200030000000000 = false ∧
    (199999999999999 : Int) ≤ 200000000000000 + invalidateLingerNs ∧
    invalidateLegal (run (init 10 0) (backOps.take 2)) 210600000000000 210600000000000 [] [[36000], [], []] = true ∧
    (loadCached (run (init 10 0) backOps) 1 33000 43300 210700000000000 210700000000000).2 = .stale := by
  decide

end SH.C24
