/-
  C03 — Inserted rows equal the merge of all contributions and read back intact.

  "When the insert budget does not bind, the body an aggregator inserts contains each (time, metric, tags, string-top) key
   exactly once with count, min, max, sum and sum-of-squares equal to the merge of every contribution received for that
   key. The unique-value state, percentile centroids and min/max host arguments it writes are decoded by the API's column
   readers into the same values, and unique-count estimates are exact while a row holds fewer distinct values than the
   sketch's exact-mode limit."
  Quantifier: all sets of agent buckets (any keys, top entries, value kinds) merged into aggregator buckets, and all column
  values written by the insert encoder.

  Model: SH.Model.Insert (byte-level encoders of aggregator_insert.go / rowbinary, the chutil column readers, MergeWithTL2,
  the shard map, FinishStringTop), SH.Model.Unique (the sketch). Arithmetic is exact (Int, quarter units): float rounding is
  not decided.

  Part 1  round trips decode (encode x) = x: uvarint, argMin/argMax(String, Float32) (single state and a column read into
          reused slots; `decide` witnesses for the reader before the fix), t-digest centroids, uniq state; percentile / uniq
          result columns decoded block by block through one column object: rows the reader kept from earlier blocks are
          never changed by later blocks (`refcol_roundtrip`, `refcol_stable`; `decide` witness for a Reset that keeps slots).
  Part 2  one (key, string-top) value: count / sum / sum of squares / min / max after any list of valid contributions; the
          hosts: ONE restoration function for the max / min / max-count blocks of MergeWithTL2 (`restoreHost_*`, `hosts_spec`),
          the min (max) host of a merged value is the host a contribution holding that min (max) names (`fold_hosts`), the
          max-count host is named by a counted contribution (`fold_cnt_hosts`); `decide` witness for a slip between the blocks.
  Part 3  the shard map: a received row changes exactly the values it addresses (`row_is_merge`), every (key, top) is written
          once per aggregator bucket (`one_row_per_key`), the key columns read back (injective).
  Part 4  the sketch is exact below the limit through MergeRead -> MarshallAppend -> ReadFrom.
-/
import SH.Model.Insert
import SH.Lemmas.UniqueTrie
import Mathlib.Tactic.Ring
import Mathlib.Data.List.Nodup
namespace SH.C03
open SH.Insert

/-! ## Part 1 — round trips -/


theorem byte_toNat (n : Nat) : (byte n).toNat = n % 256 := by
  simp [byte, UInt8.toNat_ofNat']

theorem readU32_u32le (n : Nat) (h : n < 4294967296) (rest : Bytes) :
    readU32 (u32le n ++ rest) = some (n, rest) := by
  simp only [u32le, List.cons_append, List.nil_append, readU32, byte_toNat]
  congr 2
  omega

theorem uvarintF_read : ∀ (f n s x : Nat) (rest : Bytes), 0 < f → n < 2 ^ (7 * f - 6) →
    readUvarintAux f s x (uvarintF f n ++ rest) = some (x + n * 2 ^ s, rest) := by
  intro f
  induction f with
  | zero => intro n s x rest h; omega
  | succ f ih =>
    intro n s x rest _ hn
    by_cases h128 : n < 128
    · simp only [uvarintF, h128, if_true, List.cons_append, List.nil_append, readUvarintAux, byte_toNat]
      have : n % 256 = n := by omega
      rw [this]
      simp only [h128, if_true]
      by_cases hf : f = 0
      · subst hf
        have : n < 2 := by simpa using hn
        have : ¬ (1 < n) := by omega
        simp [this]
      · simp [hf]
    · simp only [uvarintF, h128, if_false, List.cons_append, readUvarintAux, byte_toNat]
      have e : (n % 128 + 128) % 256 = n % 128 + 128 := by omega
      rw [e]
      have : ¬ (n % 128 + 128 < 128) := by omega
      simp only [this, if_false]
      have hf : 0 < f := by
        rcases Nat.eq_zero_or_pos f with h0 | h0
        · subst h0; simp at hn; omega
        · exact h0
      have hn' : n / 128 < 2 ^ (7 * f - 6) := by
        have e2 : 7 * (f + 1) - 6 = (7 * f - 6) + 7 := by omega
        rw [e2, Nat.pow_add] at hn
        have : (2:Nat)^7 = 128 := by norm_num
        rw [this] at hn
        exact Nat.div_lt_of_lt_mul (by rw [Nat.mul_comm]; exact hn)
      rw [ih (n / 128) (s + 7) _ rest hf hn']
      congr 2
      have : n % 128 + 128 - 128 = n % 128 := by omega
      rw [this, Nat.pow_add]
      have h7 : (2:Nat)^7 = 128 := by norm_num
      rw [h7]
      have := Nat.div_add_mod n 128
      calc x + n % 128 * 2 ^ s + n / 128 * (2 ^ s * 128) = x + (128 * (n / 128) + n % 128) * 2 ^ s := by ring
        _ = x + n * 2 ^ s := by rw [this]

theorem readUvarint_uvarint (n : Nat) (h : n < 2 ^ 64) (rest : Bytes) :
    readUvarint (uvarint n ++ rest) = some (n, rest) := by
  have := uvarintF_read 10 n 0 0 rest (by omega) (by simpa using h)
  simpa [readUvarint, uvarint] using this


theorem u32le_length (n : Nat) : (u32le n).length = 4 := rfl

/-- a host tag as the code can hold it: int32 id, string shorter than 2^32 - 3 (length + 2 = 0xffffffff is the "empty" marker) -/
def WfTag (t : Tag) : Prop := -2147483648 ≤ t.i ∧ t.i < 2147483648 ∧ t.s.length + 2 < 4294967295

theorem i32_lt (x : Int) : i32 x < 4294967296 := by
  unfold i32; omega

theorem toI32_i32 (x : Int) (h1 : -2147483648 ≤ x) (h2 : x < 2147483648) : toI32 (i32 x) = x := by
  unfold toI32 i32
  split <;> omega

theorem splitAt_append (s rest : Bytes) : splitAt? s.length (s ++ rest) = some (s, rest) := by
  simp [splitAt?]

theorem readArgValue_enc (a : ArgVal) (v : Nat) (hv : v < 4294967296) (rest : Bytes) :
    readArgValue a (1 :: (u32le v ++ rest)) = some ({ a with v := v }, rest) := by
  simp [readArgValue, readU32_u32le v hv]

/-- C03 "min/max host arguments it writes are decoded by the API's column readers into the same values":
    whatever the slot held before, the fixed reader returns exactly the written host (int id or string) and value bits;
    an empty host reads back as the zero value. -/
theorem arg_roundtrip (t : Tag) (v : Nat) (prev : ArgVal) (rest : Bytes) (ht : WfTag t) (hv : v < 4294967296) :
    readArg .reset prev (encArg t v ++ rest) = some (argOfTag t v, rest) := by
  obtain ⟨h1, h2, h3⟩ := ht
  unfold encArg argOfTag
  by_cases he : t.empty = true
  · simp [he, encArgEmpty, readArg, readU32, readArgBody, hasArg, readArgValue]
  · simp only [he, Bool.false_eq_true, if_false]
    by_cases hi : t.i = 0
    · -- string host
      have hs : (t.i != 0) = false := by simp [hi]
      simp only [argPayload, hs, Bool.false_eq_true, if_false, List.length_cons]
      have hl : t.s.length + 1 + 1 < 4294967296 := by omega
      simp only [readArg, List.append_assoc, readU32_u32le _ hl]
      have hh : hasArg (t.s.length + 1 + 1) = true := by
        unfold hasArg
        rw [Bool.and_eq_true]
        constructor
        · simp only [bne_iff_ne, ne_eq]; omega
        · simp
      simp only [readArgBody, hh, if_true, List.cons_append]
      simp only [if_true, readArgString]
      have : ¬ (t.s.length + 1 + 1 < 2) := by omega
      simp only [this, if_false]
      have e : t.s.length + 1 + 1 - 2 = t.s.length := by omega
      rw [e, splitAt_append]
      simp only [List.cons_append, List.nil_append, if_true]
      rw [readArgValue_enc _ v hv]
      simp [ArgVal.zero]
    · -- int host
      have hs : (t.i != 0) = true := by simp [hi]
      simp only [argPayload, hs, if_true, List.length_cons, u32le_length]
      simp only [readArg, List.append_assoc, readU32_u32le 6 (by omega)]
      have hh : hasArg 6 = true := by decide
      simp only [readArgBody, hh, if_true, List.cons_append]
      have : ¬ ((0 : UInt8) = 1) := by decide
      simp only [this, if_false, readArgInt, List.append_assoc, readU32_u32le _ (i32_lt t.i)]
      simp only [List.cons_append, List.nil_append, List.drop_succ_cons, List.drop_zero]
      rw [readArgValue_enc _ v hv]
      simp [ArgVal.zero, toI32_i32 t.i h1 h2]

/-- a whole column (one result block) read into slots that held arbitrary earlier values -/
theorem argcol_roundtrip : ∀ (l : List (Tag × Nat)) (prev : List ArgVal) (rest : Bytes),
    (∀ p ∈ l, WfTag p.1 ∧ p.2 < 4294967296) →
    readArgCol .reset l.length prev (l.flatMap (fun p => encArg p.1 p.2) ++ rest) =
      some (l.map (fun p => argOfTag p.1 p.2), rest) := by
  intro l
  induction l with
  | nil => intro prev rest _; simp [readArgCol]
  | cons p l ih =>
    intro prev rest h
    have hp := h p (List.mem_cons_self ..)
    simp only [List.flatMap_cons, List.length_cons, readArgCol, List.append_assoc]
    rw [arg_roundtrip p.1 p.2 _ _ hp.1 hp.2]
    simp only
    rw [ih prev.tail rest (fun q hq => h q (List.mem_cons_of_mem _ hq))]
    simp

/-- the reader before the fix: a second block whose row has no host keeps the host of the first block's row -/
example : readArgCol .stale 1 [argOfTag ⟨0, [104, 65]⟩ 7] (encArg Tag.none 0) = some ([⟨[104, 65], 0, 7⟩], []) := by decide
example : readArgCol .reset 1 [argOfTag ⟨0, [104, 65]⟩ 7] (encArg Tag.none 0) = some ([ArgVal.zero], []) := by decide
/-- … and a string host read into a slot that held an int host keeps the int id -/
example : (readArg .stale (argOfTag ⟨5, []⟩ 1) (encArg ⟨0, [104]⟩ 2)).map (·.1) = some ⟨[104], 5, 2⟩ := by decide

example : WfTag ⟨-7, []⟩ ∧ WfTag ⟨0, [104, 65]⟩ ∧ argOfTag ⟨-7, []⟩ 9 = ⟨[], -7, 9⟩ := by
  refine ⟨by unfold WfTag; simp, by unfold WfTag; simp, by decide⟩


theorem readWords_enc : ∀ (xs : List Nat) (rest : Bytes), (∀ x ∈ xs, x < 4294967296) →
    readWords xs.length (xs.flatMap u32le ++ rest) = some (xs, rest) := by
  intro xs
  induction xs with
  | nil => intro rest _; simp [readWords]
  | cons x xs ih =>
    intro rest h
    simp only [List.flatMap_cons, List.length_cons, readWords, List.append_assoc]
    rw [readU32_u32le x (h x (List.mem_cons_self ..))]
    simp only
    rw [ih rest (fun y hy => h y (List.mem_cons_of_mem _ hy))]

theorem readPairs_enc : ∀ (l : List (Nat × Nat)) (rest : Bytes), (∀ c ∈ l, c.1 < 4294967296 ∧ c.2 < 4294967296) →
    readPairs l.length (l.flatMap (fun c => u32le c.1 ++ u32le c.2) ++ rest) = some (l, rest) := by
  intro l
  induction l with
  | nil => intro rest _; simp [readPairs]
  | cons c l ih =>
    intro rest h
    have hc := h c (List.mem_cons_self ..)
    simp only [List.flatMap_cons, List.length_cons, readPairs, List.append_assoc]
    rw [readU32_u32le c.1 hc.1]
    simp only
    rw [readU32_u32le c.2 hc.2]
    simp only
    rw [ih rest (fun y hy => h y (List.mem_cons_of_mem _ hy))]

/-- C03 "percentile centroids … are decoded by the API's column readers into the same values": the reader hands
    AddCentroid exactly the (float32 mean, float32 weight) pairs that were written, in order -/
theorem centroids_roundtrip (l : List (Nat × Nat)) (rest : Bytes) (hl : l.length < 2 ^ 64)
    (h : ∀ c ∈ l, c.1 < 4294967296 ∧ c.2 < 4294967296) :
    readCentroids (encCentroids32 l ++ rest) = some (l, rest) := by
  simp only [readCentroids, encCentroids32, List.append_assoc, readUvarint_uvarint _ hl]
  exact readPairs_enc l rest h

/-- the empty digest (`ValueTDigest == nil`, AppendEmptyCentroids) reads back as no centroids -/
theorem centroids_empty (rest : Bytes) : readCentroids (0 :: rest) = some ([], rest) := by
  simp [readCentroids, readUvarint, readUvarintAux, readPairs]

/-- the wire-relevant state of an allocated sketch as the code can hold it -/
structure WfU (u : USt) : Prop where
  alloc : u.alloc = true
  k : u.k < 256
  cnt : u.cnt = u.vals.length + (if u.hasZero then 1 else 0)
  max : u.cnt ≤ Gen.C03.uniqMaxSize
  vals : ∀ x ∈ u.vals, 0 < x ∧ x < 4294967296

/-- C03 "the unique-value state … is decoded by the API's column readers into the same values": skipDegree, itemsCount,
    the zero flag and the stored values (in the order written) are what ChUnique.ReadFrom re-inserts -/
theorem unique_roundtrip (u : USt) (rest : Bytes) (h : WfU u) : readUnique (encUnique u ++ rest) = some (u, rest) := by
  obtain ⟨ha, hk, hc, hm, hv⟩ := h
  rcases u with ⟨alloc, k, cnt, hz, vals⟩
  simp only at ha hk hc hm hv
  subst ha
  have hcnt : cnt < 2 ^ 64 := by
    have : Gen.C03.uniqMaxSize = 65536 := rfl
    omega
  simp only [encUnique, if_true, List.append_assoc, List.cons_append, List.nil_append, readUnique,
    readUvarint_uvarint _ hcnt]
  have : ¬ (Gen.C03.uniqMaxSize < cnt) := by omega
  simp only [this, if_false]
  have hnz : ∀ x ∈ vals, (x != 0) = true := fun x hx => by
    have := (hv x hx).1
    simp only [bne_iff_ne, ne_eq]; omega
  have hany : vals.any (· == 0) = false := by
    rw [List.any_eq_false]; intro x hx; have := (hv x hx).1
    simp only [beq_iff_eq]; omega
  have hfil : vals.filter (· != 0) = vals := List.filter_eq_self.mpr hnz
  have hkk : k % 256 = k := by omega
  cases hz
  · simp only [Bool.false_eq_true, if_false, Nat.add_zero, List.nil_append] at hc ⊢
    subst hc
    rw [readWords_enc vals rest (fun x hx => (hv x hx).2)]
    simp only [hany, hfil, byte_toNat, hkk]
  · simp only [if_true] at hc ⊢
    subst hc
    have e : u32le 0 ++ (vals.flatMap u32le ++ rest) = (0 :: vals).flatMap u32le ++ rest := by simp
    have hl : vals.length + 1 = (0 :: vals).length := by simp
    rw [e, hl, readWords_enc (0 :: vals) rest]
    · simp only [List.any_cons, beq_self_eq_true, Bool.true_or, List.filter_cons, bne_self_eq_false,
        Bool.false_eq_true, if_false, hfil, byte_toNat, hkk, List.length_cons]
    · intro x hx
      rcases List.mem_cons.mp hx with rfl | hx
      · omega
      · exact (hv x hx).2

/-- the zero value `ChUnique{}` is written as (0, 0) and reads back as an allocated empty sketch -/
theorem unique_nil_roundtrip (u : USt) (rest : Bytes) (h : u.alloc = false) :
    readUnique (encUnique u ++ rest) = some ({ alloc := true, k := 0, cnt := 0, hasZero := false, vals := [] }, rest) := by
  simp [encUnique, h, readUnique, readUvarint, readUvarintAux, readWords]

example : WfU { alloc := true, k := 1, cnt := 3, hasZero := true, vals := [32768, 6] } :=
  ⟨rfl, by decide, by decide, by decide, by decide⟩

/-! ### columns that hand out references, several result blocks through one column object -/

theorem decodeBlock_fresh {α : Type} (reuse : α → α → Bool) : ∀ (vs heap : List α),
    decodeBlock reuse heap [] vs = (heap ++ vs, (List.range vs.length).map (heap.length + ·)) := by
  intro vs
  induction vs with
  | nil => intro heap; simp [decodeBlock]
  | cons v vs ih =>
    intro heap
    simp only [decodeBlock, List.head?_nil, Option.join_none, storeSlot, List.tail_nil, ih, List.length_append,
      List.length_cons, List.length_nil, List.append_assoc, List.cons_append, List.nil_append]
    refine Prod.ext rfl ?_
    simp only [List.range_succ_eq_map, List.map_cons, Nat.add_zero, List.map_map]
    congr 1
    apply List.map_congr_left
    intro i _
    simp only [Function.comp_apply]; omega

/-- with `Reset` dropping the backing array, every block allocates fresh objects: the heap only grows and the reader's
    references are exactly the objects in allocation order -/
theorem colBlock_drop {α : Type} (reuse : α → α → Bool) (st : ColState α) (vs : List α)
    (h : st.retained = List.range st.heap.length) :
    (colBlock .drop reuse st vs).heap = st.heap ++ vs ∧
    (colBlock .drop reuse st vs).retained = List.range (st.heap ++ vs).length := by
  unfold colBlock
  simp only [offered, decodeBlock_fresh, h, List.length_append, true_and]
  rw [List.range_add]

theorem colBlocks_drop_gen {α : Type} (reuse : α → α → Bool) : ∀ (blocks : List (List α)) (st : ColState α),
    st.retained = List.range st.heap.length →
    (blocks.foldl (colBlock .drop reuse) st).heap = st.heap ++ blocks.flatten ∧
    (blocks.foldl (colBlock .drop reuse) st).retained = List.range (st.heap ++ blocks.flatten).length := by
  intro blocks
  induction blocks with
  | nil => intro st h; simpa using h
  | cons b blocks ih =>
    intro st h
    obtain ⟨h1, h2⟩ := colBlock_drop reuse st b h
    have := ih (colBlock .drop reuse st b) (by rw [h2, h1])
    simp only [List.foldl_cons, List.flatten_cons]
    rw [this.1, this.2, h1, List.append_assoc]
    exact ⟨rfl, rfl⟩

theorem range_lookup {α : Type} (L : List α) : (List.range L.length).map (fun r => L[r]?) = L.map some := by
  apply List.ext_getElem
  · simp
  · intro i hi1 hi2
    simp only [List.length_map, List.length_range] at hi1
    simp [List.getElem?_eq_getElem hi1]

/-- C03, result columns read block by block (ColTDigest, ColUnique with `Reset` = `*col = nil`): after ANY number of blocks
    through one column object, every row the reader kept — from whichever block — still reads as the value decoded for it. -/
theorem refcol_roundtrip {α : Type} (reuse : α → α → Bool) (blocks : List (List α)) :
    readBack (colBlocks .drop reuse blocks) = blocks.flatten.map some := by
  obtain ⟨h1, h2⟩ := colBlocks_drop_gen reuse blocks ColState.init rfl
  unfold readBack colBlocks
  rw [h2, h1]
  simp only [ColState.init, List.nil_append]
  exact range_lookup _

/-- … in particular decoding one more block never changes what was handed out for the blocks before it -/
theorem refcol_stable {α : Type} (reuse : α → α → Bool) (blocks : List (List α)) (b : List α) :
    (readBack (colBlocks .drop reuse (blocks ++ [b]))).take blocks.flatten.length = readBack (colBlocks .drop reuse blocks) := by
  rw [refcol_roundtrip, refcol_roundtrip, List.flatten_append]
  simp only [List.flatten_cons, List.flatten_nil, List.append_nil]
  generalize blocks.flatten = L
  rw [List.map_append]
  have : L.length = (L.map some).length := by simp
  rw [this, List.take_left']
  rfl

/-- a `Reset` that keeps the backing array (what the ArgMin/ArgMax columns do) breaks it for digests: the slot of block 1 is
    refilled in place by block 2, and the row the reader kept from block 1 now shows block 2's centroids -/
example : readBack (colBlocks .keep tdReuse [[[(1, 1)], [(5, 5)]], [[(2, 2)]]]) = [some [(2, 2)], some [(5, 5)], some [(2, 2)]] := by decide
example : readBack (colBlocks .drop tdReuse [[[(1, 1)], [(5, 5)]], [[(2, 2)]]]) = [some [(1, 1)], some [(5, 5)], some [(2, 2)]] := by decide

theorem readCentroidsCol_enc : ∀ (l : List (List (Nat × Nat))) (rest : Bytes),
    (∀ cs ∈ l, cs.length < 2 ^ 64 ∧ ∀ c ∈ cs, c.1 < 4294967296 ∧ c.2 < 4294967296) →
    readCentroidsCol l.length (l.flatMap encCentroids32 ++ rest) = some (l, rest) := by
  intro l
  induction l with
  | nil => intro rest _; simp [readCentroidsCol]
  | cons cs l ih =>
    intro rest h
    have hc := h cs (List.mem_cons_self ..)
    simp only [List.flatMap_cons, List.length_cons, readCentroidsCol, List.append_assoc]
    rw [centroids_roundtrip cs _ hc.1 hc.2]
    simp only
    rw [ih rest (fun x hx => h x (List.mem_cons_of_mem _ hx))]

theorem readUniqueCol_enc : ∀ (l : List USt) (rest : Bytes), (∀ u ∈ l, WfU u) →
    readUniqueCol l.length (l.flatMap encUnique ++ rest) = some (l, rest) := by
  intro l
  induction l with
  | nil => intro rest _; simp [readUniqueCol]
  | cons u l ih =>
    intro rest h
    simp only [List.flatMap_cons, List.length_cons, readUniqueCol, List.append_assoc]
    rw [unique_roundtrip u _ (h u (List.mem_cons_self ..))]
    simp only
    rw [ih rest (fun x hx => h x (List.mem_cons_of_mem _ hx))]

/-- bytes of a percentile result, block by block → what the reader holds after the last block: all inserted centroid lists -/
theorem tdcol_roundtrip (blocks : List (List (List (Nat × Nat))))
    (h : ∀ b ∈ blocks, ∀ cs ∈ b, cs.length < 2 ^ 64 ∧ ∀ c ∈ cs, c.1 < 4294967296 ∧ c.2 < 4294967296) :
    (blocks.mapM (fun b => (readCentroidsCol b.length (b.flatMap encCentroids32)).map (·.1))).map
        (fun vals => readBack (colBlocks .drop tdReuse vals)) = some (blocks.flatten.map some) := by
  have : blocks.mapM (fun b => (readCentroidsCol b.length (b.flatMap encCentroids32)).map (·.1)) = some blocks := by
    induction blocks with
    | nil => rfl
    | cons b blocks ih =>
      have hb := readCentroidsCol_enc b [] (h b (List.mem_cons_self ..))
      simp only [List.append_nil] at hb
      rw [List.mapM_cons, hb, ih (fun x hx => h x (List.mem_cons_of_mem _ hx))]
      rfl
  rw [this]
  simp [refcol_roundtrip]

/-- the same for a uniq result -/
theorem uniqcol_roundtrip (reuse : USt → USt → Bool) (blocks : List (List USt)) (h : ∀ b ∈ blocks, ∀ u ∈ b, WfU u) :
    (blocks.mapM (fun b => (readUniqueCol b.length (b.flatMap encUnique)).map (·.1))).map
        (fun vals => readBack (colBlocks .drop reuse vals)) = some (blocks.flatten.map some) := by
  have : blocks.mapM (fun b => (readUniqueCol b.length (b.flatMap encUnique)).map (·.1)) = some blocks := by
    induction blocks with
    | nil => rfl
    | cons b blocks ih =>
      have hb := readUniqueCol_enc b [] (h b (List.mem_cons_self ..))
      simp only [List.append_nil] at hb
      rw [List.mapM_cons, hb, ih (fun x hx => h x (List.mem_cons_of_mem _ hx))]
      rfl
  rw [this]
  simp [refcol_roundtrip]

/-! ## Part 2 — one value: the fold of its contributions -/


/-! ## merge -/

/-- the value passes validation: counter not negative, no negative centroid count -/
def OkTLV (t : TLV) : Prop := 0 ≤ tlCounter t ∧ ∀ c ∈ t.cents, 0 ≤ c.2

theorem addCentroids_ok : ∀ (cs adds : List (Int × Int)), (∀ c ∈ cs, 0 ≤ c.2) → (addCentroids adds cs).2 = false := by
  intro cs
  induction cs with
  | nil => intro adds _; rfl
  | cons c cs ih =>
    intro adds h
    obtain ⟨x, w⟩ := c
    have hw : 0 ≤ w := h (x, w) (List.mem_cons_self ..)
    have ht := fun adds => ih adds (fun c hc => h c (List.mem_cons_of_mem _ hc))
    unfold addCentroids
    by_cases h0 : w = 0
    · simp [h0, ht]
    · have : ¬ w < 0 := by omega
      simp [h0, this, ht]

theorem mergeTL2_ok (m : MV) (t : TLV) (host : Tag) (h : OkTLV t) : (mergeTL2 m t host).2 = 0 := by
  obtain ⟨hc, hcs⟩ := h
  unfold mergeTL2
  simp only
  split
  · rfl
  · split
    · omega
    · split
      · rfl
      · rw [addCentroids_ok _ _ hcs]
        simp only [Bool.and_false, Bool.false_eq_true, if_false]
        split <;> rfl

/-- this value carries aggregates: positive counter and value_set -/
def hasValue (t : TLV) : Bool := decide (0 < tlCounter t) && bit t.mask Gen.C03.bitValueSet
def cSum (t : TLV) : Int := if hasValue t then tlSum t else 0
def cSumSq (t : TLV) : Int := if hasValue t then tlSumSq t else 0

/-- the ItemValue after one MergeWithTL2 -/
theorem mergeTL2_iv (m : MV) (t : TLV) (host : Tag) (h : OkTLV t) :
    (mergeTL2 m t host).1.v =
      (if hasValue t then mergeAgg (addCounterHost m.v (tlCounter t) (tlCntHost t host)) t.vmin (tlMax t) (tlSum t) (tlSumSq t)
          (tlMinHost t host) (tlMaxHost t host)
       else addCounterHost m.v (tlCounter t) (tlCntHost t host)) := by
  obtain ⟨hc, hcs⟩ := h
  unfold mergeTL2 hasValue
  simp only
  by_cases h0 : tlCounter t = 0
  · simp [h0, addCounterHost]
  · have hpos : 0 < tlCounter t := by omega
    have hn : ¬ tlCounter t < 0 := by omega
    simp only [h0, hn, if_false, hpos, decide_true, Bool.true_and]
    by_cases hv : bit t.mask Gen.C03.bitValueSet = true
    · simp only [hv, Bool.not_true, Bool.false_eq_true, if_false, if_true]
      rw [addCentroids_ok _ _ hcs]
      simp only [Bool.and_false, Bool.false_eq_true, if_false]
      split <;> split <;> rfl
    · simp [hv]

def foldTL (m : MV) (cs : List (TLV × Tag)) : MV := cs.foldl (fun m c => (mergeTL2 m c.1 c.2).1) m

def sumOf (f : TLV → Int) (cs : List (TLV × Tag)) : Int := (cs.map (fun c => f c.1)).sum

theorem addCounterHost_cnt (s : IV) (c : Int) (h : Tag) (hs : 0 ≤ s.cnt) (hc : 0 ≤ c) :
    (addCounterHost s c h).cnt = s.cnt + c := by
  unfold addCounterHost
  split
  · omega
  · split
    · simp only; omega
    · rfl

theorem addCounterHost_rest (s : IV) (c : Int) (h : Tag) :
    (addCounterHost s c h).sum = s.sum ∧ (addCounterHost s c h).sumsq = s.sumsq ∧ (addCounterHost s c h).set = s.set ∧
    (addCounterHost s c h).vmin = s.vmin ∧ (addCounterHost s c h).vmax = s.vmax := by
  unfold addCounterHost
  split
  · simp
  · split <;> simp

/-- one step: count, sum, sum of squares grow by the value's contribution -/
theorem step_sums (m : MV) (t : TLV) (host : Tag) (h : OkTLV t) (hm : 0 ≤ m.v.cnt) :
    (mergeTL2 m t host).1.v.cnt = m.v.cnt + tlCounter t ∧
    (mergeTL2 m t host).1.v.sum = m.v.sum + cSum t ∧
    (mergeTL2 m t host).1.v.sumsq = m.v.sumsq + cSumSq t ∧
    (mergeTL2 m t host).1.v.set = (m.v.set || hasValue t) := by
  rw [mergeTL2_iv m t host h]
  have hr := addCounterHost_rest m.v (tlCounter t) (tlCntHost t host)
  have hcnt := addCounterHost_cnt m.v (tlCounter t) (tlCntHost t host) hm h.1
  unfold cSum cSumSq
  by_cases hv : hasValue t = true
  · simp only [hv, if_true, mergeAgg, hcnt, hr.1, hr.2.1, Bool.or_true, and_self]
  · simp only [hv, Bool.false_eq_true, if_false, hcnt, hr.1, hr.2.1, hr.2.2.1, Int.add_zero, Bool.or_false, and_self]

/-- C03 "count, … sum and sum-of-squares equal to the merge of every contribution received for that key":
    after any list of valid contributions to one (key, string-top) value -/
theorem fold_sums : ∀ (cs : List (TLV × Tag)) (m : MV), (∀ c ∈ cs, OkTLV c.1) → 0 ≤ m.v.cnt →
    (foldTL m cs).v.cnt = m.v.cnt + sumOf tlCounter cs ∧
    (foldTL m cs).v.sum = m.v.sum + sumOf cSum cs ∧
    (foldTL m cs).v.sumsq = m.v.sumsq + sumOf cSumSq cs ∧
    (foldTL m cs).v.set = (m.v.set || cs.any (fun c => hasValue c.1)) := by
  intro cs
  induction cs with
  | nil => intro m _ _; simp [foldTL, sumOf]
  | cons c cs ih =>
    intro m h hm
    have hc := h c (List.mem_cons_self ..)
    obtain ⟨s1, s2, s3, s4⟩ := step_sums m c.1 c.2 hc hm
    have hm' : 0 ≤ (mergeTL2 m c.1 c.2).1.v.cnt := by rw [s1]; have := hc.1; omega
    obtain ⟨i1, i2, i3, i4⟩ := ih (mergeTL2 m c.1 c.2).1 (fun x hx => h x (List.mem_cons_of_mem _ hx)) hm'
    simp only [foldTL, List.foldl_cons] at i1 i2 i3 i4 ⊢
    simp only [sumOf, List.map_cons, List.sum_cons, List.any_cons] at i1 i2 i3 i4 ⊢
    refine ⟨by rw [i1, s1]; ring, by rw [i2, s2]; ring, by rw [i3, s3]; ring, by rw [i4, s4, Bool.or_assoc]⟩

/-- one step on min/max: unchanged unless the value is strictly smaller/larger (or the first one) -/
theorem step_min (m : MV) (t : TLV) (host : Tag) (h : OkTLV t) :
    (mergeTL2 m t host).1.v.vmin =
      (if hasValue t then (if takesMin m.v t.vmin then t.vmin else m.v.vmin) else m.v.vmin) ∧
    (mergeTL2 m t host).1.v.vmax =
      (if hasValue t then (if takesMax m.v (tlMax t) then tlMax t else m.v.vmax) else m.v.vmax) := by
  rw [mergeTL2_iv m t host h]
  have hr := addCounterHost_rest m.v (tlCounter t) (tlCntHost t host)
  by_cases hv : hasValue t = true
  · simp only [hv, if_true, mergeAgg, takesMin, takesMax, hr.2.2.1, hr.2.2.2.1, hr.2.2.2.2]
    exact ⟨rfl, rfl⟩
  · simp only [hv, Bool.false_eq_true, if_false, hr.2.2.2.1, hr.2.2.2.2, and_self]

/-- `lo`/`hi` are the minimum / maximum over the values that carry aggregates -/
def IsMinOf (cs : List (TLV × Tag)) (lo : Int) : Prop :=
  (∀ c ∈ cs, hasValue c.1 = true → lo ≤ c.1.vmin) ∧ ∃ c ∈ cs, hasValue c.1 = true ∧ lo = c.1.vmin
def IsMaxOf (cs : List (TLV × Tag)) (hi : Int) : Prop :=
  (∀ c ∈ cs, hasValue c.1 = true → tlMax c.1 ≤ hi) ∧ ∃ c ∈ cs, hasValue c.1 = true ∧ hi = tlMax c.1

theorem fold_minmax_gen : ∀ (cs : List (TLV × Tag)) (m : MV), (∀ c ∈ cs, OkTLV c.1) → 0 ≤ m.v.cnt →
    (foldTL m cs).v.set = true →
    ((∀ c ∈ cs, hasValue c.1 = true → (foldTL m cs).v.vmin ≤ c.1.vmin) ∧ (m.v.set = true → (foldTL m cs).v.vmin ≤ m.v.vmin) ∧
      ((m.v.set = true ∧ (foldTL m cs).v.vmin = m.v.vmin) ∨ ∃ c ∈ cs, hasValue c.1 = true ∧ (foldTL m cs).v.vmin = c.1.vmin)) ∧
    ((∀ c ∈ cs, hasValue c.1 = true → tlMax c.1 ≤ (foldTL m cs).v.vmax) ∧ (m.v.set = true → m.v.vmax ≤ (foldTL m cs).v.vmax) ∧
      ((m.v.set = true ∧ (foldTL m cs).v.vmax = m.v.vmax) ∨ ∃ c ∈ cs, hasValue c.1 = true ∧ (foldTL m cs).v.vmax = tlMax c.1)) := by
  intro cs
  induction cs with
  | nil =>
    intro m _ _ hs
    simp only [foldTL, List.foldl_nil] at hs ⊢
    simp [hs]
  | cons c cs ih =>
    intro m h hm hs
    have hc := h c (List.mem_cons_self ..)
    obtain ⟨s1, _, _, s4⟩ := step_sums m c.1 c.2 hc hm
    obtain ⟨mn, mx⟩ := step_min m c.1 c.2 hc
    have hm' : 0 ≤ (mergeTL2 m c.1 c.2).1.v.cnt := by rw [s1]; have := hc.1; omega
    have hfold : foldTL m (c :: cs) = foldTL (mergeTL2 m c.1 c.2).1 cs := rfl
    rw [hfold] at hs ⊢
    obtain ⟨⟨a1, a2, a3⟩, ⟨b1, b2, b3⟩⟩ := ih (mergeTL2 m c.1 c.2).1 (fun x hx => h x (List.mem_cons_of_mem _ hx)) hm' hs
    generalize (foldTL (mergeTL2 m c.1 c.2).1 cs).v.vmin = fmin at *
    generalize (foldTL (mergeTL2 m c.1 c.2).1 cs).v.vmax = fmax at *
    generalize (mergeTL2 m c.1 c.2).1.v = m1 at *
    by_cases hv : hasValue c.1 = true
    · have hset : m1.set = true := by rw [s4, hv]; simp
      simp only [hv, if_true] at mn mx
      have a2' := a2 hset
      have b2' := b2 hset
      refine ⟨⟨?_, ?_, ?_⟩, ⟨?_, ?_, ?_⟩⟩
      · intro x hx hxv
        rcases List.mem_cons.mp hx with rfl | hx
        · rw [mn] at a2'; unfold takesMin at a2'; split at a2' <;> simp_all <;> omega
        · exact a1 x hx hxv
      · intro hms
        rw [mn] at a2'; unfold takesMin at a2'; simp only [hms, Bool.not_true, Bool.false_or] at a2'
        split at a2' <;> simp_all <;> omega
      · rcases a3 with ⟨_, e⟩ | ⟨x, hx, hxv, e⟩
        · rw [mn] at e
          by_cases ht : takesMin m.v c.1.vmin = true
          · right; exact ⟨c, List.mem_cons_self .., hv, by rw [e]; simp [ht]⟩
          · left
            have hms : m.v.set = true := by
              unfold takesMin at ht; cases hq : m.v.set <;> simp_all
            exact ⟨hms, by rw [e]; simp [ht]⟩
        · right; exact ⟨x, List.mem_cons_of_mem _ hx, hxv, e⟩
      · intro x hx hxv
        rcases List.mem_cons.mp hx with rfl | hx
        · rw [mx] at b2'; unfold takesMax at b2'; split at b2' <;> simp_all <;> omega
        · exact b1 x hx hxv
      · intro hms
        rw [mx] at b2'; unfold takesMax at b2'; simp only [hms, Bool.not_true, Bool.false_or] at b2'
        split at b2' <;> simp_all <;> omega
      · rcases b3 with ⟨_, e⟩ | ⟨x, hx, hxv, e⟩
        · rw [mx] at e
          by_cases ht : takesMax m.v (tlMax c.1) = true
          · right; exact ⟨c, List.mem_cons_self .., hv, by rw [e]; simp [ht]⟩
          · left
            have hms : m.v.set = true := by
              unfold takesMax at ht; cases hq : m.v.set <;> simp_all
            exact ⟨hms, by rw [e]; simp [ht]⟩
        · right; exact ⟨x, List.mem_cons_of_mem _ hx, hxv, e⟩
    · have hvf : hasValue c.1 = false := by simpa using hv
      simp only [hvf, Bool.false_eq_true, if_false] at mn mx
      have hset : m1.set = m.v.set := by rw [s4, hvf]; simp
      rw [hset] at a2 a3 b2 b3
      rw [mn] at a2 a3
      rw [mx] at b2 b3
      refine ⟨⟨?_, a2, ?_⟩, ⟨?_, b2, ?_⟩⟩
      · intro x hx hxv
        rcases List.mem_cons.mp hx with rfl | hx
        · rw [hvf] at hxv; cases hxv
        · exact a1 x hx hxv
      · rcases a3 with l | ⟨x, hx, hxv, e⟩
        · exact Or.inl l
        · exact Or.inr ⟨x, List.mem_cons_of_mem _ hx, hxv, e⟩
      · intro x hx hxv
        rcases List.mem_cons.mp hx with rfl | hx
        · rw [hvf] at hxv; cases hxv
        · exact b1 x hx hxv
      · rcases b3 with l | ⟨x, hx, hxv, e⟩
        · exact Or.inl l
        · exact Or.inr ⟨x, List.mem_cons_of_mem _ hx, hxv, e⟩

/-- C03 "min, max … equal to the merge of every contribution": starting from an empty value, the written min (max) is the
    least min (greatest max) over the contributions that carry values -/
theorem fold_minmax (cs : List (TLV × Tag)) (h : ∀ c ∈ cs, OkTLV c.1) (hs : (foldTL MV.zero cs).v.set = true) :
    IsMinOf cs (foldTL MV.zero cs).v.vmin ∧ IsMaxOf cs (foldTL MV.zero cs).v.vmax := by
  obtain ⟨⟨a1, _, a3⟩, ⟨b1, _, b3⟩⟩ := fold_minmax_gen cs MV.zero h (by decide) hs
  refine ⟨⟨a1, ?_⟩, ⟨b1, ?_⟩⟩
  · rcases a3 with ⟨f, _⟩ | e
    · exact absurd f (by decide)
    · exact e
  · rcases b3 with ⟨f, _⟩ | e
    · exact absurd f (by decide)
    · exact e

/-! ### hosts: one restoration function for the three parallel blocks, and the hosts of a merged value -/

/-- neither field present: the default (agent host for max; the restored max host for min / max-count) -/
theorem restoreHost_absent (subst : Bool) (i : Int) (s probe : Bytes) (dflt host : Tag) :
    restoreHost subst false false i s probe dflt host = dflt := by simp [restoreHost]

/-- a field present and the host not empty: the host as sent (the emptiness test reads the block's OWN string) -/
theorem restoreHost_explicit (subst setI setS : Bool) (i : Int) (s : Bytes) (dflt host : Tag)
    (hset : (setI || setS) = true) (hne : (Tag.mk i s).empty = false) :
    restoreHost subst setI setS i s s dflt host = ⟨i, s⟩ := by
  unfold restoreHost
  have h1 : (!setI && !setS) = false := by cases setI <;> cases setS <;> simp_all
  have h2 : (i == 0 && s.isEmpty) = false := by simpa [Tag.empty] using hne
  simp [h1, Bool.and_assoc, h2]

/-- a field present, the host empty: the sending agent's own host (min / max-count blocks) -/
theorem restoreHost_own (setI setS : Bool) (i : Int) (s : Bytes) (dflt host : Tag)
    (hset : (setI || setS) = true) (he : (Tag.mk i s).empty = true) :
    restoreHost true setI setS i s s dflt host = host := by
  unfold restoreHost
  have h1 : (!setI && !setS) = false := by cases setI <;> cases setS <;> simp_all
  have h2 : (i == 0 && s.isEmpty) = true := by simpa [Tag.empty] using he
  simp [h1, Bool.and_assoc, h2]

/-- … hence a restored min / max-count host is never empty when the agent's host and the restored max host are not:
    one statement for both blocks (and for any further block built from `restoreHost true … s s`) -/
theorem restoreHost_not_empty (setI setS : Bool) (i : Int) (s : Bytes) (dflt host : Tag)
    (hd : dflt.empty = false) (hh : host.empty = false) :
    (restoreHost true setI setS i s s dflt host).empty = false := by
  by_cases hset : (setI || setS) = true
  · by_cases he : (Tag.mk i s).empty = true
    · rw [restoreHost_own setI setS i s dflt host hset he]; exact hh
    · have hf : (Tag.mk i s).empty = false := by simpa using he
      rw [restoreHost_explicit true setI setS i s dflt host hset hf]; exact hf
  · have : setI = false ∧ setS = false := by cases setI <;> cases setS <;> simp_all
    rw [this.1, this.2, restoreHost_absent]; exact hd

/-- the three blocks of MergeWithTL2 in protocol terms (statshouse.multiValue): max host absent = the sending agent's host;
    min host / max-count host absent = the max host, present but empty = the sending agent's own host, else as sent -/
theorem hosts_spec (t : TLV) (host : Tag) :
    tlMaxHost t host = (if !bit t.mask Gen.C03.bitMaxHostTag && !bit t.mask Gen.C03.bitMaxHostStag then host
                        else ⟨t.maxHostTag, t.maxHostStag⟩) ∧
    tlMinHost t host = (if !bit t.mask Gen.C03.bitMinHostTag && !bit t.mask Gen.C03.bitMinHostStag then tlMaxHost t host
                        else if (Tag.mk t.minHostTag t.minHostStag).empty then host else ⟨t.minHostTag, t.minHostStag⟩) ∧
    tlCntHost t host = (if !bit t.mask Gen.C03.bitCntHostTag && !bit t.mask Gen.C03.bitCntHostStag then tlMaxHost t host
                        else if (Tag.mk t.cntHostTag t.cntHostStag).empty then host else ⟨t.cntHostTag, t.cntHostStag⟩) := by
  refine ⟨?_, ?_, ?_⟩
  · simp [tlMaxHost, restoreHost]
  · simp [tlMinHost, tlMinHostV, restoreHost, Tag.empty]
  · simp [tlCntHost, restoreHost, Tag.empty]

/-- min / max-count host of a contribution is never empty when the agent's host and the contribution's max host are not -/
theorem min_cnt_host_not_empty (t : TLV) (host : Tag) (hh : host.empty = false) (hm : (tlMaxHost t host).empty = false) :
    (tlMinHost t host).empty = false ∧ (tlCntHost t host).empty = false :=
  ⟨restoreHost_not_empty _ _ _ _ _ _ hm hh, restoreHost_not_empty _ _ _ _ _ _ hm hh⟩

theorem addCounterHost_hosts (s : IV) (c : Int) (h : Tag) :
    (addCounterHost s c h).minHost = s.minHost ∧ (addCounterHost s c h).maxHost = s.maxHost := by
  unfold addCounterHost
  split
  · simp
  · split <;> simp

/-- one step on the hosts: they move together with min / max -/
theorem step_hosts (m : MV) (t : TLV) (host : Tag) (h : OkTLV t) :
    (mergeTL2 m t host).1.v.minHost =
      (if hasValue t then (if takesMin m.v t.vmin then tlMinHost t host else m.v.minHost) else m.v.minHost) ∧
    (mergeTL2 m t host).1.v.maxHost =
      (if hasValue t then (if takesMax m.v (tlMax t) then tlMaxHost t host else m.v.maxHost) else m.v.maxHost) := by
  rw [mergeTL2_iv m t host h]
  have hr := addCounterHost_rest m.v (tlCounter t) (tlCntHost t host)
  have hh := addCounterHost_hosts m.v (tlCounter t) (tlCntHost t host)
  by_cases hv : hasValue t = true
  · simp only [hv, if_true, mergeAgg, takesMin, takesMax, hr.2.2.1, hr.2.2.2.1, hr.2.2.2.2, hh.1, hh.2]
    exact ⟨rfl, rfl⟩
  · simp only [hv, Bool.false_eq_true, if_false, hh.1, hh.2, and_self]

theorem fold_hosts_gen : ∀ (cs : List (TLV × Tag)) (m : MV), (∀ c ∈ cs, OkTLV c.1) → 0 ≤ m.v.cnt →
    ((m.v.set = true ∧ (foldTL m cs).v.vmin = m.v.vmin ∧ (foldTL m cs).v.minHost = m.v.minHost) ∨
      (m.v.set = false ∧ ¬ (∃ c ∈ cs, hasValue c.1 = true) ∧ (foldTL m cs).v.minHost = m.v.minHost) ∨
      ∃ c ∈ cs, hasValue c.1 = true ∧ (foldTL m cs).v.vmin = c.1.vmin ∧ (foldTL m cs).v.minHost = tlMinHost c.1 c.2) ∧
    ((m.v.set = true ∧ (foldTL m cs).v.vmax = m.v.vmax ∧ (foldTL m cs).v.maxHost = m.v.maxHost) ∨
      (m.v.set = false ∧ ¬ (∃ c ∈ cs, hasValue c.1 = true) ∧ (foldTL m cs).v.maxHost = m.v.maxHost) ∨
      ∃ c ∈ cs, hasValue c.1 = true ∧ (foldTL m cs).v.vmax = tlMax c.1 ∧ (foldTL m cs).v.maxHost = tlMaxHost c.1 c.2) := by
  intro cs
  induction cs with
  | nil =>
    intro m _ _
    simp only [foldTL, List.foldl_nil]
    cases hs : m.v.set <;> simp
  | cons c cs ih =>
    intro m h hm
    have hc := h c (List.mem_cons_self ..)
    obtain ⟨s1, _, _, s4⟩ := step_sums m c.1 c.2 hc hm
    obtain ⟨mn, mx⟩ := step_min m c.1 c.2 hc
    obtain ⟨hn, hx⟩ := step_hosts m c.1 c.2 hc
    have hm' : 0 ≤ (mergeTL2 m c.1 c.2).1.v.cnt := by rw [s1]; have := hc.1; omega
    have hfold : foldTL m (c :: cs) = foldTL (mergeTL2 m c.1 c.2).1 cs := rfl
    rw [hfold]
    obtain ⟨A, B⟩ := ih (mergeTL2 m c.1 c.2).1 (fun x hx => h x (List.mem_cons_of_mem _ hx)) hm'
    generalize (foldTL (mergeTL2 m c.1 c.2).1 cs).v = f at *
    generalize (mergeTL2 m c.1 c.2).1.v = m1 at *
    by_cases hv : hasValue c.1 = true
    · simp only [hv, if_true] at mn mx hn hx
      have hset : m1.set = true := by rw [s4, hv]; simp
      constructor
      · rcases A with ⟨_, e1, e2⟩ | ⟨f1, _⟩ | ⟨x, hx', hxv, e1, e2⟩
        · by_cases ht : takesMin m.v c.1.vmin = true
          · right; right
            exact ⟨c, List.mem_cons_self .., hv, by rw [e1, mn]; simp [ht], by rw [e2, hn]; simp [ht]⟩
          · have hms : m.v.set = true := by unfold takesMin at ht; cases hq : m.v.set <;> simp_all
            left
            exact ⟨hms, by rw [e1, mn]; simp [ht], by rw [e2, hn]; simp [ht]⟩
        · rw [hset] at f1; cases f1
        · right; right; exact ⟨x, List.mem_cons_of_mem _ hx', hxv, e1, e2⟩
      · rcases B with ⟨_, e1, e2⟩ | ⟨f1, _⟩ | ⟨x, hx', hxv, e1, e2⟩
        · by_cases ht : takesMax m.v (tlMax c.1) = true
          · right; right
            exact ⟨c, List.mem_cons_self .., hv, by rw [e1, mx]; simp [ht], by rw [e2, hx]; simp [ht]⟩
          · have hms : m.v.set = true := by unfold takesMax at ht; cases hq : m.v.set <;> simp_all
            left
            exact ⟨hms, by rw [e1, mx]; simp [ht], by rw [e2, hx]; simp [ht]⟩
        · rw [hset] at f1; cases f1
        · right; right; exact ⟨x, List.mem_cons_of_mem _ hx', hxv, e1, e2⟩
    · have hvf : hasValue c.1 = false := by simpa using hv
      simp only [hvf, Bool.false_eq_true, if_false] at mn mx hn hx
      have hset : m1.set = m.v.set := by rw [s4, hvf]; simp
      rw [hset, mn, hn] at A
      rw [hset, mx, hx] at B
      constructor
      · rcases A with l | ⟨f1, f2, f3⟩ | ⟨x, hx', hxv, e⟩
        · exact Or.inl l
        · right; left
          refine ⟨f1, ?_, f3⟩
          rintro ⟨x, hx', hxv⟩
          rcases List.mem_cons.mp hx' with rfl | hx'
          · rw [hvf] at hxv; cases hxv
          · exact f2 ⟨x, hx', hxv⟩
        · right; right; exact ⟨x, List.mem_cons_of_mem _ hx', hxv, e⟩
      · rcases B with l | ⟨f1, f2, f3⟩ | ⟨x, hx', hxv, e⟩
        · exact Or.inl l
        · right; left
          refine ⟨f1, ?_, f3⟩
          rintro ⟨x, hx', hxv⟩
          rcases List.mem_cons.mp hx' with rfl | hx'
          · rw [hvf] at hxv; cases hxv
          · exact f2 ⟨x, hx', hxv⟩
        · right; right; exact ⟨x, List.mem_cons_of_mem _ hx', hxv, e⟩

/-- C03 "min, max … equal to the merge of every contribution", the hosts: the host written next to the minimum (maximum) of
    a row is the host that a contribution holding exactly that minimum (maximum) names for it — restored by `restoreHost`
    from what the agent sent (own host / max host / explicit id or string). -/
theorem fold_hosts (cs : List (TLV × Tag)) (h : ∀ c ∈ cs, OkTLV c.1) (hs : (foldTL MV.zero cs).v.set = true) :
    (∃ c ∈ cs, hasValue c.1 = true ∧ (foldTL MV.zero cs).v.vmin = c.1.vmin ∧ (foldTL MV.zero cs).v.minHost = tlMinHost c.1 c.2) ∧
    (∃ c ∈ cs, hasValue c.1 = true ∧ (foldTL MV.zero cs).v.vmax = tlMax c.1 ∧ (foldTL MV.zero cs).v.maxHost = tlMaxHost c.1 c.2) := by
  obtain ⟨A, B⟩ := fold_hosts_gen cs MV.zero h (by decide)
  have hany := (fold_sums cs MV.zero h (by decide)).2.2.2
  rw [hs] at hany
  have hex : ∃ c ∈ cs, hasValue c.1 = true := by
    have : cs.any (fun c => hasValue c.1) = true := by simpa [MV.zero, IV.zero] using hany.symm
    obtain ⟨c, hc, hv⟩ := List.any_eq_true.mp this
    exact ⟨c, hc, hv⟩
  constructor
  · rcases A with ⟨f, _⟩ | ⟨_, f, _⟩ | e
    · exact absurd f (by decide)
    · exact absurd hex f
    · exact e
  · rcases B with ⟨f, _⟩ | ⟨_, f, _⟩ | e
    · exact absurd f (by decide)
    · exact absurd hex f
    · exact e

/-- the max-count host is a host named by a counted contribution (whatever the random draws) -/
theorem fold_cnt_hosts : ∀ (cs : List (TLV × Tag)) (m : MV), (∀ c ∈ cs, OkTLV c.1) →
    ∀ x ∈ (foldTL m cs).v.chosts, x ∈ m.v.chosts ∨ ∃ c ∈ cs, 0 < tlCounter c.1 ∧ x = tlCntHost c.1 c.2 := by
  intro cs
  induction cs with
  | nil => intro m _ x hx; exact Or.inl hx
  | cons c cs ih =>
    intro m h x hx
    have hc := h c (List.mem_cons_self ..)
    have hfold : foldTL m (c :: cs) = foldTL (mergeTL2 m c.1 c.2).1 cs := rfl
    rw [hfold] at hx
    rcases ih _ (fun y hy => h y (List.mem_cons_of_mem _ hy)) x hx with h1 | ⟨y, hy, hp, e⟩
    · -- x came out of this step
      have hiv := mergeTL2_iv m c.1 c.2 hc
      have hch : (mergeTL2 m c.1 c.2).1.v.chosts = (addCounterHost m.v (tlCounter c.1) (tlCntHost c.1 c.2)).chosts := by
        rw [hiv]; split <;> simp [mergeAgg]
      rw [hch] at h1
      unfold addCounterHost at h1
      split at h1
      · exact Or.inl h1
      · rename_i hpos
        split at h1
        · simp only [List.mem_singleton] at h1
          exact Or.inr ⟨c, List.mem_cons_self .., by omega, h1⟩
        · simp only [addHost] at h1
          split at h1
          · exact Or.inl h1
          · rcases List.mem_append.mp h1 with h1 | h1
            · exact Or.inl h1
            · simp only [List.mem_singleton] at h1
              exact Or.inr ⟨c, List.mem_cons_self .., by omega, h1⟩
    · exact Or.inr ⟨y, List.mem_cons_of_mem _ hy, hp, e⟩

/-! the seeded slip (`HostV.minSlip`: the emptiness test of the min block reads MaxHostStag) -/

/-- max host an unmapped string "hB", min host present and empty (measured on the agent's own host, id 7) -/
def slipA : TLV :=
  { mask := 2 ^ Gen.C03.bitMaxHostStag + 2 ^ Gen.C03.bitMinHostTag, counter := 4, vmin := 0, vmax := 0, sum := 0, sumsq := 0, uniques := [],
    cents := [], maxHostTag := 0, minHostTag := 0, cntHostTag := 0, maxHostStag := [104, 66], minHostStag := [], cntHostStag := [] }
/-- min host an unmapped string "hA", max host absent -/
def slipB : TLV := { slipA with mask := 2 ^ Gen.C03.bitMinHostStag, maxHostStag := [], minHostStag := [104, 65] }

/-- the code: the agent's host is substituted / the string host is kept -/
example : tlMinHostV .repo slipA ⟨7, []⟩ = ⟨7, []⟩ ∧ tlMinHostV .repo slipB ⟨7, []⟩ = ⟨0, [104, 65]⟩ := by decide
/-- the slip: (a) the min host is lost (empty), (b) the string min host is replaced by the sending agent's host -/
example : tlMinHostV .minSlip slipA ⟨7, []⟩ = Tag.none ∧ tlMinHostV .minSlip slipB ⟨7, []⟩ = ⟨7, []⟩ := by decide
/-- `min_cnt_host_not_empty` is not vacuous on that input and fails for the slip -/
example : (Tag.mk 7 []).empty = false ∧ (tlMaxHost slipA ⟨7, []⟩).empty = false ∧ (tlMinHostV .minSlip slipA ⟨7, []⟩).empty = true := by decide

/-! ## Part 3 — the shard map -/

/-- one received TL row after key construction -/
structure RowIn where
  k : Key
  tops : List (Tag × TLV)
  tail : TLV
  host : Tag

def OkRow (r : RowIn) : Prop := OkTLV r.tail ∧ ∀ p ∈ r.tops, OkTLV p.2

/-- the string-top a top element of a TL row is merged into (`Tag.none` = the tail): MapStringTopBytes -/
def target (tag : Tag) : Tag := if tag.empty then Tag.none else tag.normalize

/-- the MultiValue an item holds for string top `tag` (`Tag.none` = the tail); absent = the zero value -/
def itemAt (it : Item) (tag : Tag) : MV := if tag.empty then it.tail else (topFind it.top tag).getD MV.zero

/-- the MultiValue a bucket holds for (key, string top) -/
def valueAt (sh : Shards) (k : Key) (tag : Tag) : MV := itemAt ((findItem sh k).getD Item.zero) tag

/-- all received rows merged into one aggregator bucket, in the order received -/
def applyRows (sh : Shards) (rs : List RowIn) : Shards :=
  rs.foldl (fun sh r => (contribute sh r.k r.tops r.tail r.host).1) sh

/-- the values of one received row addressed to string top `tag`, in merge order: matching top elements, then the tail -/
def valuesFor (r : RowIn) (tag : Tag) : List (TLV × Tag) :=
  ((r.tops.filter (fun p => target p.1 == tag)).map (fun p => (p.2, r.host))) ++
    (if tag == Tag.none then [(r.tail, r.host)] else [])

/-- every contribution received for (key, string top), in the order received -/
def contribsFor (rs : List RowIn) (k : Key) (tag : Tag) : List (TLV × Tag) :=
  (rs.filter (fun r => r.k == k)).flatMap (fun r => valuesFor r tag)

section Assoc
variable {α β : Type} [DecidableEq α]

/-- lookup in an association list (the shape of `topFind` and `findItem`) -/
def afind (l : List (α × β)) (a : α) : Option β := (l.find? (·.1 == a)).map (·.2)
/-- replace or append (the shape of `topSet` and `setItem`) -/
def aset (l : List (α × β)) (a : α) (b : β) : List (α × β) :=
  if l.any (·.1 == a) then l.map (fun p => if p.1 == a then (a, b) else p) else l ++ [(a, b)]

theorem afind_cons (p : α × β) (top : List (α × β)) (t' : α) :
    afind (p :: top) t' = if p.1 = t' then some p.2 else afind top t' := by
  unfold afind
  by_cases h : p.1 = t'
  · simp [List.find?_cons, h]
  · simp [List.find?_cons, h]

theorem afind_map (t t' : α) (m : β) : ∀ (top : List (α × β)),
    afind (top.map (fun p => if p.1 == t then (t, m) else p)) t' =
      if t = t' then (if top.any (·.1 == t) then some m else none) else afind top t' := by
  intro top
  induction top with
  | nil => by_cases h : t = t' <;> simp [afind, h]
  | cons p top ih =>
    rw [List.map_cons, afind_cons, ih, afind_cons]
    by_cases h1 : p.1 = t
    · by_cases h2 : t = t'
      · simp [h1, h2]
      · have : ¬ p.1 = t' := by rw [h1]; exact h2
        simp [h1, h2]
    · by_cases h2 : t = t'
      · subst h2
        have hb : (p.1 == t) = false := by simpa using h1
        simp only [h1, if_false, if_true, List.any_cons, hb, Bool.false_or, Bool.false_eq_true]
      · simp [h1, h2]

theorem afind_append_single (top : List (α × β)) (t t' : α) (m : β) :
    afind (top ++ [(t, m)]) t' = match afind top t' with
      | some x => some x
      | none => if t = t' then some m else none := by
  induction top with
  | nil => simp [afind_cons, afind]
  | cons p top ih =>
    rw [List.cons_append, afind_cons, afind_cons]
    by_cases h : p.1 = t'
    · simp [h]
    · simp only [h, if_false]; exact ih

theorem afind_none_of_not_any (top : List (α × β)) (t : α) (h : top.any (·.1 == t) = false) : afind top t = none := by
  induction top with
  | nil => rfl
  | cons p top ih =>
    simp only [List.any_cons, Bool.or_eq_false_iff, beq_eq_false_iff_ne, ne_eq] at h
    rw [afind_cons]
    simp [h.1, ih h.2]

theorem afind_aset (top : List (α × β)) (t t' : α) (m : β) :
    afind (aset top t m) t' = if t = t' then some m else afind top t' := by
  unfold aset
  by_cases hany : top.any (·.1 == t) = true
  · simp only [hany, if_true]
    rw [afind_map]
    simp [hany]
  · have hf : top.any (·.1 == t) = false := by
      cases hq : top.any (·.1 == t)
      · rfl
      · exact absurd hq hany
    simp only [hf, Bool.false_eq_true, if_false]
    rw [afind_append_single]
    by_cases ht : t = t'
    · subst ht
      rw [afind_none_of_not_any top t hf]
    · cases hx : afind top t' <;> simp [ht]


theorem aset_keys_nodup (l : List (α × β)) (a : α) (b : β) (h : (l.map (·.1)).Nodup) : ((aset l a b).map (·.1)).Nodup := by
  unfold aset
  by_cases hany : l.any (·.1 == a) = true
  · simp only [hany, if_true, List.map_map]
    have : (l.map ((fun x => x.1) ∘ fun p => if p.1 == a then (a, b) else p)) = l.map (·.1) := by
      apply List.map_congr_left
      intro p _
      by_cases hp : p.1 = a <;> simp [hp]
    rw [this]; exact h
  · have hf : ∀ p ∈ l, ¬ p.1 = a := by
      intro p hp hpa; apply hany; rw [List.any_eq_true]; exact ⟨p, hp, by simp [hpa]⟩
    simp only [hany, Bool.false_eq_true, if_false, List.map_append, List.map_cons, List.map_nil]
    rw [List.nodup_append]
    refine ⟨h, by simp, ?_⟩
    intro x hx y hy
    simp only [List.mem_singleton] at hy
    subst hy
    obtain ⟨p, hp, rfl⟩ := List.mem_map.mp hx
    exact hf p hp

end Assoc

theorem topFind_eq (top : List (Tag × MV)) (t : Tag) : topFind top t = afind top t := rfl
theorem topSet_eq (top : List (Tag × MV)) (t : Tag) (m : MV) : topSet top t m = aset top t m := rfl
theorem findItem_eq (sh : Shards) (k : Key) : findItem sh k = afind sh k := rfl
theorem setItem_eq (sh : Shards) (k : Key) (it : Item) : setItem sh k it = aset sh k it := rfl

theorem empty_iff (t : Tag) : t.empty = true ↔ t = Tag.none := by
  rcases t with ⟨i, s⟩
  simp only [Tag.empty, Tag.none, Bool.and_eq_true, beq_iff_eq, List.isEmpty_iff, Tag.mk.injEq]

theorem normalize_not_empty (t : Tag) (h : t.empty = false) : t.normalize.empty = false := by
  rcases t with ⟨i, s⟩
  unfold Tag.normalize
  by_cases hi : i = 0
  · simp only [hi, bne_self_eq_false, Bool.false_eq_true, if_false]; simpa [hi] using h
  · simp [hi, Tag.empty]

theorem target_none_iff (tag : Tag) : target tag = Tag.none ↔ tag.empty = true := by
  unfold target
  by_cases h : tag.empty = true
  · simp [h]
  · have hf : tag.empty = false := by simpa using h
    simp only [hf, Bool.false_eq_true, if_false, iff_false]
    intro e
    have := normalize_not_empty tag hf
    rw [e] at this
    exact absurd this (by decide)

theorem mergeTop_ok (it : Item) (tag : Tag) (t : TLV) (host : Tag) (h : OkTLV t) : (mergeTop it tag t host).2 = 0 := by
  unfold mergeTop
  split <;> exact mergeTL2_ok _ t host h

/-- merging one top element changes exactly the value it addresses -/
theorem itemAt_mergeTop (it : Item) (tag : Tag) (t : TLV) (host : Tag) (tag' : Tag) :
    itemAt (mergeTop it tag t host).1 tag' =
      if target tag = tag' then (mergeTL2 (itemAt it tag') t host).1 else itemAt it tag' := by
  by_cases he' : tag'.empty = true
  · have e' := (empty_iff tag').mp he'
    subst e'
    unfold mergeTop itemAt
    by_cases he : tag.empty = true
    · have := (target_none_iff tag).mpr he
      simp [he, this, he']
    · have : ¬ target tag = Tag.none := fun e => he ((target_none_iff tag).mp e)
      simp [he, this, he']
  · have hf' : tag'.empty = false := by simpa using he'
    unfold mergeTop itemAt
    by_cases he : tag.empty = true
    · have : ¬ target tag = tag' := by
        rw [(target_none_iff tag).mpr he]; intro e; rw [← e] at hf'; exact absurd hf' (by decide)
      simp [he, hf', this]
    · have hf : tag.empty = false := by simpa using he
      have ht : target tag = tag.normalize := by unfold target; simp [hf]
      simp only [hf, Bool.false_eq_true, if_false, hf', ht, topFind_eq, topSet_eq, afind_aset]
      by_cases hq : tag.normalize = tag'
      · subst hq; simp
      · simp [hq]

theorem mergeTops_ok (host : Tag) : ∀ (tops : List (Tag × TLV)) (it : Item), (∀ p ∈ tops, OkTLV p.2) →
    mergeTops it host tops = (tops.foldl (fun it p => (mergeTop it p.1 p.2 host).1) it, 0) := by
  intro tops
  induction tops with
  | nil => intro it _; rfl
  | cons p tops ih =>
    intro it h
    obtain ⟨tag, t⟩ := p
    have hp : OkTLV t := h (tag, t) (List.mem_cons_self ..)
    simp only [mergeTops, mergeTop_ok it tag t host hp, bne_self_eq_false, Bool.false_eq_true, if_false, List.foldl_cons]
    exact ih _ (fun q hq => h q (List.mem_cons_of_mem _ hq))

theorem foldTL_append (m : MV) (a b : List (TLV × Tag)) : foldTL m (a ++ b) = foldTL (foldTL m a) b := by
  simp [foldTL, List.foldl_append]

theorem itemAt_foldTops (host : Tag) (tag' : Tag) : ∀ (tops : List (Tag × TLV)) (it : Item),
    itemAt (tops.foldl (fun it p => (mergeTop it p.1 p.2 host).1) it) tag' =
      foldTL (itemAt it tag') ((tops.filter (fun p => target p.1 == tag')).map (fun p => (p.2, host))) := by
  intro tops
  induction tops with
  | nil => intro it; rfl
  | cons p tops ih =>
    intro it
    rw [List.foldl_cons, ih, itemAt_mergeTop]
    by_cases hq : target p.1 = tag'
    · simp [hq, foldTL]
    · simp [hq]

/-- MergeWithTLMultiItem for a valid row: the value at every string top is the fold of the row's values addressed to it -/
theorem itemAt_mergeItem (it : Item) (r : RowIn) (h : OkRow r) (tag' : Tag) :
    itemAt (mergeItem it r.tops r.tail r.host).1 tag' = foldTL (itemAt it tag') (valuesFor r tag') ∧
    (mergeItem it r.tops r.tail r.host).2 = 0 := by
  obtain ⟨htail, htops⟩ := h
  unfold mergeItem
  simp only [mergeTops_ok r.host r.tops it htops, bne_self_eq_false, Bool.false_eq_true, if_false]
  refine ⟨?_, mergeTL2_ok _ _ _ htail⟩
  unfold valuesFor
  rw [foldTL_append, ← itemAt_foldTops]
  by_cases he' : tag'.empty = true
  · have e' := (empty_iff tag').mp he'
    subst e'
    simp [itemAt, Tag.empty, Tag.none, foldTL]
  · have hf' : tag'.empty = false := by simpa using he'
    have : (tag' == Tag.none) = false := by
      rw [beq_eq_false_iff_ne]; intro e; rw [e] at hf'; exact absurd hf' (by decide)
    simp [itemAt, hf', this, foldTL]

/-- GetOrCreateMultiItem + MergeWithTLMultiItem: a received row changes the values of its own key only -/
theorem valueAt_contribute (sh : Shards) (r : RowIn) (h : OkRow r) (k' : Key) (tag' : Tag) :
    valueAt (contribute sh r.k r.tops r.tail r.host).1 k' tag' =
      if r.k = k' then foldTL (valueAt sh k' tag') (valuesFor r tag') else valueAt sh k' tag' := by
  unfold contribute valueAt
  simp only [findItem_eq, setItem_eq, afind_aset]
  by_cases hk : r.k = k'
  · subst hk
    simp only [if_true, Option.getD_some]
    exact (itemAt_mergeItem _ r h tag').1
  · simp [hk]

theorem valueAt_applyRows : ∀ (rs : List RowIn) (sh : Shards), (∀ r ∈ rs, OkRow r) → ∀ (k : Key) (tag : Tag),
    valueAt (applyRows sh rs) k tag = foldTL (valueAt sh k tag) (contribsFor rs k tag) := by
  intro rs
  induction rs with
  | nil => intro sh _ k tag; rfl
  | cons r rs ih =>
    intro sh h k tag
    have hr := h r (List.mem_cons_self ..)
    have : applyRows sh (r :: rs) = applyRows (contribute sh r.k r.tops r.tail r.host).1 rs := rfl
    rw [this, ih _ (fun x hx => h x (List.mem_cons_of_mem _ hx)), valueAt_contribute sh r hr]
    unfold contribsFor
    by_cases hk : r.k = k
    · simp [hk, foldTL_append]
    · simp [hk]

/-- C03 `row_is_merge`: after any list of valid rows received by an aggregator bucket, the value held for every
    (time, metric, tags) key and every string top is the fold, in the order received, of exactly the contributions
    addressed to that key and top — nothing is lost, duplicated or credited to another key. -/
theorem row_is_merge (rs : List RowIn) (h : ∀ r ∈ rs, OkRow r) (k : Key) (tag : Tag) :
    valueAt (applyRows [] rs) k tag = foldTL MV.zero (contribsFor rs k tag) := by
  rw [valueAt_applyRows rs [] h k tag]
  congr 1
  unfold valueAt itemAt
  by_cases he : tag.empty = true <;> simp [he, findItem, Item.zero, topFind]

section Assoc2
variable {α β : Type} [DecidableEq α]

theorem aset_mem (l : List (α × β)) (a : α) (b : β) (p : α × β) (h : p ∈ aset l a b) : p ∈ l ∨ p = (a, b) := by
  unfold aset at h
  split at h
  · obtain ⟨q, hq, e⟩ := List.mem_map.mp h
    by_cases hqa : q.1 = a
    · simp [hqa] at e; exact Or.inr e.symm
    · simp [hqa] at e; subst e; exact Or.inl hq
  · rcases List.mem_append.mp h with h | h
    · exact Or.inl h
    · exact Or.inr (by simpa using h)

theorem afind_mem (l : List (α × β)) (a : α) (b : β) (h : afind l a = some b) : ∃ p ∈ l, p.2 = b := by
  unfold afind at h
  cases hf : l.find? (·.1 == a) with
  | none => simp [hf] at h
  | some p =>
    simp [hf] at h
    exact ⟨p, List.mem_of_find?_eq_some hf, h⟩
end Assoc2

/-- string tops of one item: pairwise different, never the empty tag (that one is the tail) -/
def ItInv (it : Item) : Prop := (it.top.map (·.1)).Nodup ∧ ∀ p ∈ it.top, p.1.empty = false
/-- the shards of one bucket: keys pairwise different, every item well formed -/
def ShInv (sh : Shards) : Prop := (sh.map (·.1)).Nodup ∧ ∀ p ∈ sh, ItInv p.2

theorem mergeTop_inv (it : Item) (tag : Tag) (t : TLV) (host : Tag) (h : ItInv it) : ItInv (mergeTop it tag t host).1 := by
  unfold mergeTop
  by_cases he : tag.empty = true
  · simp only [he, if_true]; exact h
  · have hf : tag.empty = false := by simpa using he
    simp only [hf, Bool.false_eq_true, if_false, topSet_eq]
    refine ⟨aset_keys_nodup _ _ _ h.1, ?_⟩
    intro p hp
    rcases aset_mem _ _ _ _ hp with hp | hp
    · exact h.2 p hp
    · rw [hp]; exact normalize_not_empty tag hf

theorem mergeTops_inv (host : Tag) : ∀ (tops : List (Tag × TLV)) (it : Item), ItInv it → ItInv (mergeTops it host tops).1 := by
  intro tops
  induction tops with
  | nil => intro it h; exact h
  | cons p tops ih =>
    intro it h
    obtain ⟨tag, t⟩ := p
    unfold mergeTops
    have := mergeTop_inv it tag t host h
    simp only
    split
    · exact this
    · exact ih _ this

theorem mergeItem_inv (it : Item) (tops : List (Tag × TLV)) (tail : TLV) (host : Tag) (h : ItInv it) :
    ItInv (mergeItem it tops tail host).1 := by
  unfold mergeItem
  have := mergeTops_inv host tops it h
  simp only
  split
  · exact this
  · exact this

theorem zero_inv : ItInv Item.zero := ⟨by simp [Item.zero], by simp [Item.zero]⟩

theorem contribute_inv (sh : Shards) (k : Key) (tops : List (Tag × TLV)) (tail : TLV) (host : Tag) (h : ShInv sh) :
    ShInv (contribute sh k tops tail host).1 := by
  unfold contribute
  simp only [setItem_eq]
  refine ⟨aset_keys_nodup _ _ _ h.1, ?_⟩
  intro p hp
  rcases aset_mem _ _ _ _ hp with hp | hp
  · exact h.2 p hp
  · rw [hp]
    apply mergeItem_inv
    cases hf : findItem sh k with
    | none => exact zero_inv
    | some it =>
      obtain ⟨q, hq, e⟩ := afind_mem sh k it (by rw [← findItem_eq]; exact hf)
      simp only [Option.getD_some]
      rw [← e]; exact h.2 q hq

theorem applyRows_inv : ∀ (rs : List RowIn) (sh : Shards), ShInv sh → ShInv (applyRows sh rs) := by
  intro rs
  induction rs with
  | nil => intro sh h; exact h
  | cons r rs ih => intro sh h; exact ih _ (contribute_inv sh r.k r.tops r.tail r.host h)

theorem insertDesc_perm (p : Tag × MV) : ∀ (l : List (Tag × MV)), (insertDesc p l).Perm (p :: l) := by
  intro l
  induction l with
  | nil => exact List.Perm.refl _
  | cons q l ih =>
    unfold insertDesc
    split
    · exact List.Perm.refl _
    · exact (List.Perm.cons q ih).trans (List.Perm.swap p q l)

theorem sortDesc_perm_aux : ∀ (top acc : List (Tag × MV)), (top.foldl (fun acc p => insertDesc p acc) acc).Perm (top ++ acc) := by
  intro top
  induction top with
  | nil => intro acc; exact List.Perm.refl _
  | cons p top ih =>
    intro acc
    rw [List.foldl_cons]
    refine (ih _).trans ?_
    refine (List.Perm.append_left top (insertDesc_perm p acc)).trans ?_
    simp

theorem sortDesc_perm (top : List (Tag × MV)) : (sortDesc top).Perm top := by
  have := sortDesc_perm_aux top []
  simpa [sortDesc] using this

/-- the (key, string top) pairs of the rows written for one bucket -/
def rowKeys (cap : Nat) (sh : Shards) : List (Key × Tag) := (bucketRows cap sh).map (fun r => (r.1, r.2.1))

theorem finishTop_tags (cap : Nat) (it : Item) (h : ItInv it) :
    ((finishTop cap it).top.map (·.1)).Nodup ∧ ∀ p ∈ (finishTop cap it).top, p.1.empty = false := by
  unfold finishTop
  simp only
  have hp := sortDesc_perm it.top
  have hn : ((sortDesc it.top).map (·.1)).Nodup := (hp.map _).nodup_iff.mpr h.1
  refine ⟨List.Nodup.sublist ((List.take_sublist _ _).map _) hn, ?_⟩
  intro p hp'
  exact h.2 p (hp.mem_iff.mp (List.mem_of_mem_take hp'))

theorem itemRows_keys (k : Key) (it : Item) (h1 : (it.top.map (·.1)).Nodup) (h2 : ∀ p ∈ it.top, p.1.empty = false) :
    ((itemRows k it).map (fun r => (r.1, r.2.1))).Nodup ∧ ∀ x ∈ (itemRows k it).map (fun r => (r.1, r.2.1)), x.1 = k := by
  unfold itemRows
  constructor
  · simp only [List.map_append, List.map_map]
    rw [List.nodup_append]
    refine ⟨by split <;> simp, ?_, ?_⟩
    · have hs : ((it.top.filter (fun p => !p.2.isEmpty)).map (·.1)).Nodup :=
        List.Nodup.sublist (List.filter_sublist.map _) h1
      have : (List.map ((fun r : Key × Tag × MV => (r.1, r.2.1)) ∘ fun p : Tag × MV => (k, p.1, p.2)) (it.top.filter (fun p => !p.2.isEmpty))) =
          ((it.top.filter (fun p => !p.2.isEmpty)).map (·.1)).map (fun t => (k, t)) := by
        simp [List.map_map, Function.comp_def]
      rw [this]
      exact hs.map (fun a b e => by simpa using e)
    · intro x hx y hy
      split at hx
      · simp at hx
      · simp only [List.map_cons, List.map_nil, List.mem_singleton] at hx
        subst hx
        obtain ⟨p, hp, rfl⟩ := List.mem_map.mp hy
        have := h2 p (List.mem_of_mem_filter hp)
        intro e
        simp only [Function.comp_apply, Prod.mk.injEq, true_and] at e
        rw [← e] at this
        exact absurd this (by decide)
  · intro x hx
    simp only [List.map_append, List.map_map, List.mem_append, List.mem_map, Function.comp_apply] at hx
    rcases hx with ⟨r, hr, rfl⟩ | ⟨p, _, rfl⟩
    · split at hr
      · simp at hr
      · simp only [List.mem_singleton] at hr; subst hr; rfl
    · rfl

/-- C03 `one_row_per_key`: whatever rows an aggregator bucket received (valid or not, any order), the insert writes every
    (time, metric, tags, string-top) key of that bucket at most once -/
theorem one_row_per_key (rs : List RowIn) (cap : Nat) : (rowKeys cap (applyRows [] rs)).Nodup := by
  have hinv : ShInv (applyRows [] rs) := applyRows_inv rs [] ⟨by simp, by simp⟩
  generalize applyRows [] rs = sh at hinv
  unfold rowKeys bucketRows
  rw [List.map_flatMap, List.nodup_flatMap]
  constructor
  · intro p hp
    have := finishTop_tags cap p.2 (hinv.2 p hp)
    exact (itemRows_keys p.1 _ this.1 this.2).1
  · have hk : List.Pairwise (fun a b : Key × Item => a.1 ≠ b.1) sh := by
      have := hinv.1
      rwa [List.Nodup, List.pairwise_map] at this
    refine List.Pairwise.imp_of_mem ?_ hk
    intro a b ha hb hab
    simp only [Function.onFun]
    rw [List.disjoint_left]
    intro x hxa hxb
    have fa := finishTop_tags cap a.2 (hinv.2 a ha)
    have fb := finishTop_tags cap b.2 (hinv.2 b hb)
    have e1 := (itemRows_keys a.1 _ fa.1 fa.2).2 x hxa
    have e2 := (itemRows_keys b.1 _ fb.1 fb.2).2 x hxb
    exact hab (e1.symm.trans e2)


/-! ### the key columns read back -/

/-- one (tagN, stagN) column pair as the table stores it -/
def colOf (t : Tag) : Nat × Bytes := if prefersInt t then (i32 t.i, []) else (0, t.s)

/-- RowBinary reader of one (Int32, String) column pair -/
def readCol (bs : Bytes) : Option ((Nat × Bytes) × Bytes) :=
  match readU32 bs with
  | none => none
  | some (i, r1) =>
    match readUvarint r1 with
    | none => none
    | some (n, r2) =>
      match splitAt? n r2 with
      | none => none
      | some (s, r3) => some ((i, s), r3)

def readCols : Nat → Bytes → Option (List (Nat × Bytes) × Bytes)
  | 0, bs => some ([], bs)
  | n + 1, bs =>
    match readCol bs with
    | none => none
    | some (c, r1) =>
      match readCols n r1 with
      | none => none
      | some (l, r2) => some (c :: l, r2)

/-- reader of the key part of a row: index_type, metric, time, then MaxTags column pairs -/
def readKeys (bs : Bytes) : Option ((Nat × Nat × List (Nat × Bytes)) × Bytes) :=
  match bs with
  | [] => none
  | _ :: r0 =>
    match readU32 r0 with
    | none => none
    | some (m, r1) =>
      match readU32 r1 with
      | none => none
      | some (t, r2) =>
        match readCols Gen.C03.maxTags r2 with
        | none => none
        | some (cols, r3) => some ((m, t, cols), r3)

theorem readCol_encTag (t : Tag) (rest : Bytes) (h : t.s.length < 2 ^ 64) : readCol (encTag t ++ rest) = some (colOf t, rest) := by
  unfold encTag colOf readCol
  by_cases hp : prefersInt t = true
  · simp only [hp, if_true, List.append_assoc, readU32_u32le _ (i32_lt t.i)]
    simp [readUvarint, readUvarintAux, splitAt?]
  · simp only [hp, Bool.false_eq_true, if_false, List.append_assoc, readU32_u32le 0 (by omega), rbString,
      readUvarint_uvarint _ h, splitAt_append]

theorem readCols_enc : ∀ (ts : List Tag) (rest : Bytes), (∀ t ∈ ts, t.s.length < 2 ^ 64) →
    readCols ts.length (ts.flatMap encTag ++ rest) = some (ts.map colOf, rest) := by
  intro ts
  induction ts with
  | nil => intro rest _; simp [readCols]
  | cons t ts ih =>
    intro rest h
    simp only [List.flatMap_cons, List.length_cons, readCols, List.append_assoc]
    rw [readCol_encTag t _ (h t (List.mem_cons_self ..))]
    simp only
    rw [ih rest (fun x hx => h x (List.mem_cons_of_mem _ hx))]
    simp

theorem slot_len (k : Key) (i : Nat) (hs : ∀ s ∈ k.stags, s.length < 2 ^ 64) : (slot k i).s.length < 2 ^ 64 := by
  unfold slot
  simp only [List.getD_eq_getElem?_getD]
  cases hq : k.stags[i]? with
  | none => simp
  | some s => simp only [Option.getD_some]; exact hs s (List.mem_of_getElem? hq)

/-- C03, key part of a row: time, metric and the 47 tag columns + the string-top column read back as written
    (an int tag as (id, ""), a string tag as (0, string)) -/
theorem keys_roundtrip (k : Key) (top : Tag) (rest : Bytes) (hts : k.ts < 4294967296)
    (hs : ∀ s ∈ k.stags, s.length < 2 ^ 64) (htop : top.s.length < 2 ^ 64) :
    readKeys (encKeys k top ++ rest) =
      some ((i32 k.metric, k.ts, keySlots.map (fun i => colOf (slot k i)) ++ [colOf top]), rest) := by
  have e : encKeys k top = [0] ++ u32le (i32 k.metric) ++ u32le k.ts ++ (keySlots.map (slot k) ++ [top]).flatMap encTag := by
    simp [encKeys, List.flatMap_map, List.flatMap_append]
  have hks : keySlots.length + 1 = Gen.C03.maxTags := by decide
  have hl : (keySlots.map (slot k) ++ [top]).length = Gen.C03.maxTags := by simp [hks]
  rw [e]
  simp only [readKeys, List.append_assoc, List.cons_append, List.nil_append, readU32_u32le _ (i32_lt _), readU32_u32le _ hts]
  rw [← hl, readCols_enc]
  · simp [List.map_map, Function.comp_def]
  · intro t ht
    rcases List.mem_append.mp ht with ht | ht
    · obtain ⟨i, _, rfl⟩ := List.mem_map.mp ht
      exact slot_len k i hs
    · simp only [List.mem_singleton] at ht; subst ht; exact htop

/-- … hence two rows with the same key bytes have the same time, metric and columns: distinct column tuples are distinct rows -/
theorem key_columns_injective (k k' : Key) (top top' : Tag) (hts : k.ts < 4294967296) (hts' : k'.ts < 4294967296)
    (hs : ∀ s ∈ k.stags, s.length < 2 ^ 64) (hs' : ∀ s ∈ k'.stags, s.length < 2 ^ 64)
    (htop : top.s.length < 2 ^ 64) (htop' : top'.s.length < 2 ^ 64) (h : encKeys k top = encKeys k' top') :
    i32 k.metric = i32 k'.metric ∧ k.ts = k'.ts ∧
    keySlots.map (fun i => colOf (slot k i)) = keySlots.map (fun i => colOf (slot k' i)) ∧ colOf top = colOf top' := by
  have a := keys_roundtrip k top [] hts hs htop
  have b := keys_roundtrip k' top' [] hts' hs' htop'
  rw [h] at a
  rw [a] at b
  simp only [Option.some.injEq, Prod.mk.injEq, and_true] at b
  obtain ⟨b1, b2, b3⟩ := b
  have hlen : (keySlots.map (fun i => colOf (slot k i))).length = (keySlots.map (fun i => colOf (slot k' i))).length := by simp
  have := List.append_inj b3 hlen
  exact ⟨b1, b2, this.1, by simpa using this.2⟩

example : readCol (encTag ⟨0, [104]⟩ ++ [9]) = some ((0, [104]), [9]) ∧ readCol (encTag ⟨-2, [104]⟩) = some ((4294967294, []), []) := by
  constructor <;> rfl

section Sketch
open SH.Unique SH.C04

/-! ## Part 4 — the sketch is exact below the limit -/

/-- the sketch holds exactly the set `U`, unthinned: skipDegree 0, itemsCount = |U| -/
structure Ex (P : Params) (s : Sk) (U : Finset ℕ) : Prop where
  alloc : s.alloc = true
  k : s.k = 0
  items : keys P.bits s.items = U
  cnt : s.cnt = U.card
  bound : ∀ x ∈ U, x < 2 ^ P.bits

theorem ex_insertImpl (P : Params) (s : Sk) (U : Finset ℕ) (x : Nat) (h : Ex P s U) (hx : x < 2 ^ P.bits) :
    Ex P (insertImpl P s x) (insert x U) := by
  unfold insertImpl has
  by_cases hm : s.items.mem P.bits x = true
  · have hxU : x ∈ U := by rw [← h.items]; exact (mem_iff P.bits _ _ hx).mp hm
    simp only [hm, if_true, Finset.insert_eq_of_mem hxU]
    exact h
  · have hxU : x ∉ U := by rw [← h.items]; exact fun hh => hm ((mem_iff P.bits _ _ hx).mpr hh)
    simp only [hm, Bool.false_eq_true, if_false]
    refine ⟨h.alloc, h.k, ?_, ?_, ?_⟩
    · simp only; rw [keys_insert P.bits _ _ hx, h.items]
    · simp only; rw [Finset.card_insert_of_notMem hxU, h.cnt]
    · intro y hy
      rcases Finset.mem_insert.mp hy with rfl | hy
      · exact hx
      · exact h.bound y hy

theorem ex_shrink (P : Params) (s : Sk) (U : Finset ℕ) (h : Ex P s U) (hl : U.card ≤ limit P) :
    Ex P (shrinkIfNeed P s) U := by
  unfold shrinkIfNeed
  split
  · exact h
  · have : overLimit P s = false := by
      unfold overLimit; rw [h.cnt]; simp; exact hl
    simp only [this, Bool.false_eq_true, if_false]
    exact ⟨h.alloc, h.k, h.items, h.cnt, h.bound⟩

theorem ex_insertHash (P : Params) (s : Sk) (U : Finset ℕ) (x : Nat) (h : Ex P s U) (hx : x < 2 ^ P.bits)
    (hl : (insert x U).card ≤ limit P) : Ex P (insertHash P s x) (insert x U) := by
  unfold insertHash
  have : good s.k x = true := by unfold good; rw [h.k]; simp [Nat.mod_one]
  simp only [this, if_true]
  exact ex_shrink P _ _ (ex_insertImpl P s U x h hx) hl

theorem ex_foldl (P : Params) : ∀ (xs : List Nat) (s : Sk) (U : Finset ℕ), Ex P s U → (∀ x ∈ xs, x < 2 ^ P.bits) →
    (U ∪ xs.toFinset).card ≤ limit P → Ex P (xs.foldl (insertHash P) s) (U ∪ xs.toFinset) := by
  intro xs
  induction xs with
  | nil => intro s U h _ _; simpa using h
  | cons x xs ih =>
    intro s U h hb hl
    have e : U ∪ (x :: xs).toFinset = insert x U ∪ xs.toFinset := by
      ext y; simp only [List.toFinset_cons, Finset.mem_union, Finset.mem_insert]; tauto
    rw [e] at hl ⊢
    have hl1 : (insert x U).card ≤ limit P := le_trans (Finset.card_le_card Finset.subset_union_left) hl
    exact ih _ _ (ex_insertHash P s U x h (hb x (List.mem_cons_self ..)) hl1) (fun y hy => hb y (List.mem_cons_of_mem _ hy)) hl

theorem ex_reset (P : Params) : Ex P (reset P) ∅ :=
  ⟨rfl, rfl, by simp [reset, keys_nil], rfl, by simp⟩

theorem keys_foldl_insert (d : Nat) : ∀ (xs : List Nat) (t : Trie), (∀ x ∈ xs, x < 2 ^ d) →
    keys d (xs.foldl (fun t x => t.insert d x) t) = keys d t ∪ xs.toFinset := by
  intro xs
  induction xs with
  | nil => intro t _; simp
  | cons x xs ih =>
    intro t h
    rw [List.foldl_cons, ih _ (fun y hy => h y (List.mem_cons_of_mem _ hy)), keys_insert d t x (h x (List.mem_cons_self ..))]
    ext y; simp only [List.toFinset_cons, Finset.mem_union, Finset.mem_insert]; tauto

/-- the wire image of an unthinned sketch lists exactly its set -/
theorem ex_marshal (P : Params) (s : Sk) (U : Finset ℕ) (h : Ex P s U) :
    (marshal P s).k = 0 ∧ (marshal P s).ic = U.card ∧ (marshal P s).xs.toFinset = U := by
  unfold marshal
  simp only [h.alloc, if_true, h.k, h.cnt, true_and]
  ext y
  simp only [List.toFinset_append, Finset.mem_union, List.mem_toFinset, nonZero, List.mem_filter, mem_toList, h.items]
  have h0 : has P s 0 = true ↔ 0 ∈ U := by
    rw [← h.items]; exact mem_iff P.bits _ 0 (Nat.two_pow_pos _)
  constructor
  · rintro (hy | ⟨hy, _⟩)
    · split at hy
      · simp at hy; subst hy; exact h0.mp (by assumption)
      · simp at hy
    · exact hy
  · intro hy
    by_cases hz : y = 0
    · left; subst hz; simp [h0.mpr hy]
    · right; exact ⟨hy, by simpa using hz⟩

/-- what the aggregator holds: the zero value before anything was merged, else an unthinned sketch of `U` -/
def ExN (P : Params) (s : Sk) (U : Finset ℕ) : Prop := (s = nilSk ∧ U = ∅) ∨ Ex P s U

/-- MergeRead of the image of an unthinned agent sketch -/
theorem ex_mergeRead (P : Params) (ch a : Sk) (U1 U2 : Finset ℕ) (hc : ExN P ch U1) (ha : Ex P a U2)
    (hl : (U1 ∪ U2).card ≤ limit P) : Ex P (mergeRead .adopt .clamp P ch (marshal P a)) (U1 ∪ U2) := by
  obtain ⟨mk, mic, mxs⟩ := ex_marshal P a U2 ha
  have hxb : ∀ x ∈ (marshal P a).xs, x < 2 ^ P.bits := by
    intro x hx; apply ha.bound; rw [← mxs]; exact List.mem_toFinset.mpr hx
  unfold mergeRead
  rcases hc with ⟨rfl, rfl⟩ | hc
  · simp only [nilSk, Bool.not_false, if_true, unmarshal, Finset.empty_union]
    refine ⟨rfl, mk, ?_, mic, ha.bound⟩
    simp only
    rw [keys_foldl_insert P.bits _ _ hxb, keys_nil, Finset.empty_union, mxs]
  · simp only [hc.alloc, Bool.not_true, Bool.false_eq_true, if_false]
    have h1 : readAdopt .adopt P ch (marshal P a).k = ch := by
      unfold readAdopt; rw [mk, hc.k]; simp
    rw [h1]
    have h2 : Ex P (readResize .clamp P ch (marshal P a).ic) U1 := by
      unfold readResize
      split
      · exact ⟨hc.alloc, hc.k, hc.items, hc.cnt, hc.bound⟩
      · exact hc
    have := ex_foldl P (marshal P a).xs _ U1 h2 hxb (by rw [mxs]; exact hl)
    rwa [mxs] at this

/-- an agent's sketch: hashes inserted one by one -/
def agentSk (P : Params) (xs : List Nat) : Sk := xs.foldl (insertHash P) (reset P)
/-- the aggregator's sketch for one (key, top): MergeRead of every agent's image, in the order received -/
def aggSk (P : Params) (agents : List (List Nat)) : Sk :=
  agents.foldl (fun s xs => mergeRead .adopt .clamp P s (marshal P (agentSk P xs))) nilSk
def allHashes (agents : List (List Nat)) : Finset ℕ := agents.foldl (fun U xs => U ∪ xs.toFinset) ∅

theorem union_mono : ∀ (l : List (List Nat)) (V : Finset ℕ), V ⊆ l.foldl (fun U xs => U ∪ xs.toFinset) V := by
  intro l
  induction l with
  | nil => intro V; exact Finset.Subset.refl _
  | cons y l ihl => intro V; exact Finset.Subset.trans Finset.subset_union_left (ihl _)

theorem ex_agent (P : Params) (xs : List Nat) (hxs : ∀ x ∈ xs, x < 2 ^ P.bits) (hl : xs.toFinset.card ≤ limit P) :
    Ex P (agentSk P xs) xs.toFinset := by
  have := ex_foldl P xs (reset P) ∅ (ex_reset P) hxs (by rw [Finset.empty_union]; exact hl)
  simpa [agentSk] using this

theorem aggSk_gen (P : Params) : ∀ (agents : List (List Nat)) (s : Sk) (U : Finset ℕ), Ex P s U →
    (∀ xs ∈ agents, ∀ x ∈ xs, x < 2 ^ P.bits) →
    (agents.foldl (fun U xs => U ∪ xs.toFinset) U).card ≤ limit P →
    Ex P (agents.foldl (fun s xs => mergeRead .adopt .clamp P s (marshal P (agentSk P xs))) s)
      (agents.foldl (fun U xs => U ∪ xs.toFinset) U) := by
  intro agents
  induction agents with
  | nil => intro s U h _ _; exact h
  | cons xs agents ih =>
    intro s U h hb hl
    simp only [List.foldl_cons] at hl ⊢
    have hl1 : (U ∪ xs.toFinset).card ≤ limit P := le_trans (Finset.card_le_card (union_mono agents _)) hl
    have ha := ex_agent P xs (hb xs (List.mem_cons_self ..))
      (le_trans (Finset.card_le_card Finset.subset_union_right) hl1)
    exact ih _ _ (ex_mergeRead P s _ U _ (Or.inr h) ha hl1) (fun ys hys => hb ys (List.mem_cons_of_mem _ hys)) hl

/-- C03 "unique-count estimates are exact while a row holds fewer distinct values than the sketch's exact-mode limit":
    whatever sketches the agents sent for a row (any number, any overlap, any order), as long as the number of distinct
    hashes does not exceed uniquesHashMaxSize the aggregator's sketch is unthinned and its itemsCount — the value
    MarshallAppend writes and Size() returns after ReadFrom — is exactly the number of distinct hashes. -/
theorem unique_exact_below_limit (xs : List Nat) (rest : List (List Nat)) (hb : ∀ ys ∈ xs :: rest, ∀ x ∈ ys, x < 2 ^ 32)
    (hl : (allHashes (xs :: rest)).card ≤ Gen.C03.uniqMaxSize) :
    (aggSk UP (xs :: rest)).k = 0 ∧ (aggSk UP (xs :: rest)).cnt = (allHashes (xs :: rest)).card ∧
    sizeAsIs (aggSk UP (xs :: rest)) = (allHashes (xs :: rest)).card := by
  have hlim : limit UP = Gen.C03.uniqMaxSize := by decide
  have h1 : (allHashes (xs :: rest)).card ≤ limit UP := by rw [hlim]; exact hl
  simp only [allHashes, aggSk, List.foldl_cons] at h1 ⊢
  have hl1 : ((∅ : Finset ℕ) ∪ xs.toFinset).card ≤ limit UP := le_trans (Finset.card_le_card (union_mono rest _)) h1
  have ha := ex_agent UP xs (hb xs (List.mem_cons_self ..)) (by simpa using hl1)
  have h2 := ex_mergeRead UP nilSk _ ∅ _ (Or.inl ⟨rfl, rfl⟩) ha hl1
  have ex := aggSk_gen UP rest _ _ h2 (fun ys hys => hb ys (List.mem_cons_of_mem _ hys)) h1
  refine ⟨ex.k, ex.cnt, ?_⟩
  unfold sizeAsIs
  rw [ex.k, ex.cnt]; simp

/-- non-vacuity: three agents, overlapping hashes (0 included), 5 distinct values -/
example : (aggSk UP [[1, 2, 0], [2, 7], [0, 4294967295]]).cnt = 5 ∧ (aggSk UP [[1, 2, 0], [2, 7], [0, 4294967295]]).k = 0 := by decide

/-- the whole path in bytes: what the aggregator writes for that sketch reads back with the same itemsCount -/
example : (readUnique (encUnique (ustOf (aggSk UP [[1, 2, 0], [2, 7]]) (nonZero UP (aggSk UP [[1, 2, 0], [2, 7]]))))).map (·.1.cnt) = some 4 := by
  decide

end Sketch

/-! ## witnesses (non-vacuity) and the limits of the statements -/

section Witness

instance (t : TLV) : Decidable (OkTLV t) := by unfold OkTLV; infer_instance
instance (r : RowIn) : Decidable (OkRow r) := by unfold OkRow; infer_instance

def bitsOf (l : List Nat) : Nat := (l.map (2 ^ ·)).sum

/-- counter 2.5 (quarters: 10), value_set, min 7, compact form (max, sum, sum of squares restored), explicit max host 3 -/
def w1 : TLV :=
  { mask := bitsOf [Gen.C03.bitCounter, Gen.C03.bitValueSet, Gen.C03.bitValueMin, Gen.C03.bitMaxHostTag], counter := 10, vmin := 7, vmax := 0,
    sum := 0, sumsq := 0, uniques := [], cents := [], maxHostTag := 3, minHostTag := 0, cntHostTag := 0,
    maxHostStag := [], minHostStag := [], cntHostStag := [] }
/-- counter_eq_1, full form min 2 max 9 sum 11/4 sumsq 85/4, a sketch with the hashes 0 and 5 -/
def w2 : TLV :=
  { mask := bitsOf [Gen.C03.bitCounterEq1, Gen.C03.bitValueSet, Gen.C03.bitValueMin, Gen.C03.bitValueMax, Gen.C03.bitUniques], counter := 0,
    vmin := 2, vmax := 9, sum := 11, sumsq := 85, uniques := [0, 2, 0, 0, 0, 0, 5, 0, 0, 0], cents := [], maxHostTag := 0, minHostTag := 0,
    cntHostTag := 0, maxHostStag := [], minHostStag := [], cntHostStag := [] }
/-- a pure counter 1/4 -/
def w3 : TLV := { w1 with mask := bitsOf [Gen.C03.bitCounter], counter := 1, vmin := 0, maxHostTag := 0 }

def kA : Key := mkKey 1700000000 5 [0, 4, 0] [[], [], [104]]
def kB : Key := mkKey 1700000000 5 [0, 4] []
def hostA : Tag := ⟨1, []⟩
def hostB : Tag := ⟨0, [104, 66]⟩
def topX : Tag := ⟨0, [120]⟩

/-- three received rows: two for key A (one with a string top), one for key B -/
def rowsW : List RowIn :=
  [ ⟨kA, [(topX, w1)], w2, hostA⟩, ⟨kB, [], w1, hostB⟩, ⟨kA, [(topX, w3), (Tag.none, w3)], w1, hostB⟩ ]

example : ∀ r ∈ rowsW, OkRow r := by decide

/-- `row_is_merge` / `fold_sums` on the witness: the tail of key A got w2, w3 (empty top tag), w1 — count 1 + 1/4 + 5/2,
    sum 11/4 + 7·5/2, min 2, max 9, hosts of the extreme values; the top "x" got w1 then w3 -/
example : (valueAt (applyRows [] rowsW) kA Tag.none).v.cnt = 15 ∧ (valueAt (applyRows [] rowsW) kA Tag.none).v.sum = 81 ∧
    (valueAt (applyRows [] rowsW) kA Tag.none).v.vmin = 2 ∧ (valueAt (applyRows [] rowsW) kA Tag.none).v.vmax = 9 ∧
    (valueAt (applyRows [] rowsW) kA Tag.none).v.minHost = hostA ∧
    (valueAt (applyRows [] rowsW) kA topX).v.cnt = 11 ∧ (valueAt (applyRows [] rowsW) kA topX).v.maxHost = ⟨3, []⟩ ∧
    (valueAt (applyRows [] rowsW) kB Tag.none).v.cnt = 10 ∧
    (contribsFor rowsW kA Tag.none).length = 3 := by decide

/-- the written body of that bucket: three rows, pairwise different (key, top) -/
example : rowKeys 20 (applyRows [] rowsW) = [(kA, Tag.none), (kA, topX), (kB, Tag.none)] := by decide

/-- with StringTopCountInsert = 0 the top is folded into the tail by FinishStringTop: count 15/4 + 11/4 -/
example : (bucketRows 0 (applyRows [] rowsW)).map (fun r => (r.1, r.2.1, r.2.2.v.cnt)) = [(kA, Tag.none, 26), (kB, Tag.none, 10)] := by decide

/-- a negative counter is an ingestion error: the value is not merged and the rest of the row is skipped -/
example : (mergeItem Item.zero [(topX, { w3 with counter := -4 })] w1 hostA) = (⟨MV.zero, [(topX, MV.zero)]⟩, 1) := by decide

/-- Limit of `one_row_per_key`: it is per aggregator bucket. A body built from two buckets repeats a (time, key) when a row of
    the recent bucket carries an explicit timestamp equal to the second of the historic bucket (both are inside the believe
    window); ClickHouse merges the two rows. -/
example : keyTime (some 1699999000) 1700000000 = keyTime Option.none 1699999000 := by decide

/-- Limit of the key columns: a tag slot that holds an int AND a string is written as the int only (appendTag prefers I),
    and slot 47 (the string-top index) of the key is never written — such keys are distinct map keys with equal columns. -/
example : encTag ⟨5, [97]⟩ = encTag ⟨5, []⟩ := by decide

/-- one row, byte for byte: key B of the witness bucket (host value bits are inputs) -/
example : (encValue (valueAt (applyRows [] rowsW) kB Tag.none) ⟨hostB, [], 1, 2, 3, []⟩).take 16 =
    [0, 0, 0, 0, 0, 0, 4, 64, 0, 0, 0, 0, 0, 0, 4, 64] := by decide

/-- `fold_hosts` on a witness: two agents (hosts 7 and 8); the first holds the minimum -3 measured on its own host while
    its maximum was measured on the unmapped string host "hB"; the second names the string host "hA" for its minimum 5 -/
def hostsW : List (TLV × Tag) :=
  [ ({ slipA with mask := slipA.mask + 2 ^ Gen.C03.bitValueSet + 2 ^ Gen.C03.bitValueMin, vmin := -3 }, ⟨7, []⟩),
    ({ slipB with mask := slipB.mask + 2 ^ Gen.C03.bitValueSet + 2 ^ Gen.C03.bitValueMin, vmin := 5 }, ⟨8, []⟩) ]
example : (∀ c ∈ hostsW, OkTLV c.1) ∧ (foldTL MV.zero hostsW).v.set = true ∧ (foldTL MV.zero hostsW).v.vmin = -3 ∧
    (foldTL MV.zero hostsW).v.minHost = ⟨7, []⟩ ∧ (foldTL MV.zero hostsW).v.vmax = 5 ∧ (foldTL MV.zero hostsW).v.maxHost = ⟨8, []⟩ ∧
    (foldTL MV.zero hostsW).v.chosts = [⟨0, [104, 66]⟩, ⟨8, []⟩] := by decide

end Witness
end SH.C03
