/-
  SH.Props.C23 — the API series cache returns correctly placed, fresh data under concurrency.

  Property (properties.jsonl): "For any concurrent mix of requests (any ranges, steps, play modes), invalidations,
  trimming and memory limits, every successful non-play request returns, for each slot of the requested range,
  exactly the rows the storage produced for that slot's time, never rows of another query or slot, and never rows
  from a load that finished before an invalidation of that slot completed before the request began. Memory
  accounting returns to zero once the cache is emptied, and no request waits forever."

  Model: SH.Model.TsCache (one step = one scripted operation of the real cache2 observed at quiescence; clocks
  and the storage are inputs). What is proved here, for EVERY sequence of operations:
    * `accounting`, `accounting_zero_when_emptied`  — runtime-info size = bytes held by the chunks; zero once every
      chunk is detached (the cache is emptied);
    * `freshness` — the ghost monitor `St.bad` (a request that accepts no staleness is served from the cache a cell
      whose load finished before an invalidation that hit the chunk before the request began) never fires, provided
      the clock readings never run backwards; cells that are not served from the cache come from a load that
      finishes after the request began (`delivered_cells_are_new`);
    * `trim_never_sleeps_with_work`, `empty_cache_wakes_inflight_loads`, `second_removal_is_harmless` — the three
      decision sites (read from /repo's source on every run, SH.Gen.C23) behind "no request waits forever";
    * `placement`, `placement_returned`, `placement_cache`, `returned_slot_time` — WHOLE-TRACE placement: every filled
      slot of every request buffer and of every cached chunk holds the cell of exactly its slot time and of the
      owner's cache key (invariant in SH.Lemmas.TsCachePlace); returned slot `i` is the slot of time `from + i·step`;
    * `trim_survives_reset`, `trim_no_deadlock` — the two defects found in round one as model variants (a bucket
      removed twice; the trim goroutine sleeping by the hard limit) with `decide` witnesses of the old behaviour;
    * `stub_slot_time`, `awaiter_offset_partial`, `deliver_places_partial`, `copy_offset_partial` — the first-round
      single-step placement lemmas (subsumed by `placement`).
    * `no_orphan_awaiter`, `no_request_waits_forever` — WHOLE-TRACE message bookkeeping (SH.Lemmas.TsCacheWait): an
      unfinished request's `waitN` is exactly [own load in flight] + the awaiters it has registered, a chunk with
      awaiters is covered by an in-flight load, `loading` counts the in-flight loads covering an attached chunk; every
      awaiter gets exactly one message when a covering load finishes (ok or error); with no load in flight every
      request has returned;
    * `request_complete` — WHOLE-TRACE completeness (SH.Lemmas.TsCacheFill): a request that returned without error
      has EVERY slot of `[ls, le)` filled, with the cell of its own slot time and cache key (coverage invariant: each
      index is filled, or in a chunk the request loads itself, or in the range of an awaiter it registered; cached
      chunk data always has `K` filled slots); hypothesis `GoodOps`: fresh ids and `ReqFits` per request;
    * `invStarts_is_le`, `boundary_second_opens_chunk` + `decide` witnesses — the batch-to-chunk-starts step of
      `invalidate` as a model variant (`<=` as in /repo vs. the mutation `<`): a second that is the first second of a
      chunk opens that chunk.
    * `publish_overwrites_all_slots` + `StoreV` witnesses — a successful load replaces EVERY slot of the chunk, also
      where the storage now holds no rows (rows appear and disappear between storage versions in model and harness);
    * `no_parked_waiter_without_limit` + `SetLimV` witness — the D2b fragment as a transition system (requests parked on
      the hard limit, loads parked on the soft limit, setLimits incl. "unlimited", eviction, broadcasts): nobody stays
      parked at a limit that no longer binds.
    * `invalidate_walk_complete` + `UnlinkV` witnesses — the shard's bucket list with the invalidate iterator against
      eviction: when a walk ends every bucket still in the list has been visited (the iterator is moved to the
      successor before the evicted bucket is unlinked);
    * `no_parked_waiter_within_limit` + `WaitCmp` witness — loads parked at the soft limit with in-flight bytes: the
      gate, the trim loop and the wait loop share `withinSoft`; a parked load is never within the soft limit.
    * `invWalkF_exact`, `invBucket_exact`, `foldl_invBucket_exact`, `invalidate_marks_exactly_partial` — the merge walk
      of `cache2Bucket.invalidate` (with its range pre-check) and the walk over all buckets mark exactly the chunks whose
      start is among the batch's chunk starts, under sortedness/disjointness hypotheses on the state.
    * `invStarts_spec` (uniqueness of `t / dur`), `buckets_disjoint`, `invalidate_marks_exactly_reachable_partial` — for
      every reachable state and sorted batch: a bucket's chunk is marked iff a second lies in `[start, start + dur)`.
  Still a hypothesis there (not proved as a trace invariant): bucket chunk lists sorted by start and aligned to the chunk
  grid (through `insertCid`, eviction, reset); correspondence and the `stale-after-invalidate` oracle cover the gap.
  On a tree without fixes/C23-cache2-trim-wakeups-and-double-remove.diff the three decision-site theorems do not
  build (SH.Gen.C23 then says hardLimit / whenBelow / no guard) — that is the intended alarm; the `example`s
  next to them show the old behaviour violating the property on the states observed on the real code.
-/
import SH.Model.TsCache
import SH.Lemmas.TsCachePlace
import SH.Lemmas.TsCacheWait
import SH.Lemmas.TsCacheFill
import SH.Gen.C23
namespace SH.Props.C23
open SH.TsCache

/-! ## Memory accounting -/


/-- bytes held by the chunks (a detached chunk holds none, see `detached_zero`) -/
def total : List Chunk → Int
  | [] => 0
  | c :: cs => c.size + total cs

theorem getChunk_nil (i : Nat) : getChunk [] i = noChunk := by simp [getChunk]
theorem getChunk_zero (c : Chunk) (cs) : getChunk (c :: cs) 0 = c := by simp [getChunk]
theorem getChunk_succ (c : Chunk) (cs) (i : Nat) : getChunk (c :: cs) (i + 1) = getChunk cs i := by simp [getChunk]

theorem total_append (a b : List Chunk) : total (a ++ b) = total a + total b := by
  induction a with
  | nil => simp [total]
  | cons c cs ih => simp [total, ih]; omega

theorem total_modAt (f : Chunk → Chunk) (hd : (f noChunk).size = noChunk.size) (i : Nat) (cs : List Chunk) :
    total (modAt f i cs) = total cs + ((f (getChunk cs i)).size - (getChunk cs i).size) := by
  induction cs generalizing i with
  | nil => simp [modAt, total, getChunk_nil, hd]
  | cons c cs ih =>
    cases i with
    | zero => simp [modAt, total, getChunk_zero]; omega
    | succ i => simp [modAt, total, getChunk_succ, ih]; omega

theorem total_modAt_same (f : Chunk → Chunk) (hf : ∀ c, (f c).size = c.size) (i : Nat) (cs : List Chunk) :
    total (modAt f i cs) = total cs := by
  rw [total_modAt f (hf _)]; simp [hf]


/-! ### request begin (`init`) leaves the sizes alone -/

@[simp] theorem total_startLoad (now : Int) (i : Nat) (cs : List Chunk) : total (modAt (startLoad now) i cs) = total cs :=
  total_modAt_same (startLoad now) (fun _ => rfl) i cs
@[simp] theorem total_touch (now : Int) (i : Nat) (cs : List Chunk) : total (modAt (touch now) i cs) = total cs :=
  total_modAt_same (touch now) (fun _ => rfl) i cs

theorem foldl_chunks_total {α} (f : InitSt → α → InitSt) (h : ∀ s a, total (f s a).chunks = total s.chunks)
    (l : List α) (s : InitSt) : total (l.foldl f s).chunks = total s.chunks := by
  induction l generalizing s with
  | nil => rfl
  | cons a l ih => simp [List.foldl, ih, h]

theorem awaitCopyOne_total (s : InitSt) (v : LChunk) : total (awaitCopyOne s v).chunks = total s.chunks := by
  unfold awaitCopyOne
  split
  · simp only [awaitChunk]; apply total_modAt_same; intro c; rfl
  · unfold copyChunk; split <;> rfl

theorem awaitCopy_total (s : InitSt) : total (awaitCopy s).chunks = total s.chunks := by
  simp [awaitCopy, foldl_chunks_total _ awaitCopyOne_total]

theorem adoptPend_total (now : Int) (s : InitSt) : total (adoptPend now s).chunks = total s.chunks := by
  have h : ∀ s a, total (adoptOne now s a).chunks = total s.chunks := by
    intro s a; simp [adoptOne]
  simp [adoptPend, foldl_chunks_total _ h]

theorem maybeAdd_total (cfg : Cfg) (now : Int) (s : InitSt) (cid pos : Nat) :
    total (maybeAdd cfg now s cid pos).chunks = total s.chunks := by
  unfold maybeAdd
  simp only []
  split
  · split <;> simp [awaitCopy_total, adoptPend_total]
  · simp

theorem visit_total (cfg : Cfg) (now : Int) (s : InitSt) (p : Nat) :
    total (visit cfg now s p).chunks = total s.chunks := by
  unfold visit
  simp only []
  split
  · exact maybeAdd_total ..
  · simp [maybeAdd_total, total_append, total, newChunk]

theorem initLoader_total (cfg : Cfg) (now : Int) (cs : List Chunk) (cids : List Nat) (l : Loader) (n : Nat) :
    total (initLoader cfg now cs cids l n).chunks = total cs := by
  simp [initLoader, awaitCopy_total, foldl_chunks_total _ (visit_total cfg now)]


/-! ### trimming -/

/-- `Acc s`: the runtime-info size is exactly the number of bytes held by the chunks -/
def Acc (s : St) : Prop := s.info.size = total s.chunks

theorem removeUnusedGo_total (t : Int) (skip run : Nat) (cids : List Nat) (cs : List Chunk) :
    total (removeUnusedGo t skip run cids cs).2.1 = total cs - (removeUnusedGo t skip run cids cs).2.2.1 := by
  induction cids generalizing skip run cs with
  | nil => simp [removeUnusedGo]
  | cons i is ih =>
    cases skip with
    | succ k => simp [removeUnusedGo, ih]
    | zero =>
      simp only [removeUnusedGo]
      split
      · simp only [ih]
        rw [total_modAt detach (by rfl)]
        simp [detach]; omega
      · simp [ih]

theorem trimChunks_acc (s : St) (key : Nat) (t : Int) (h : Acc s) : Acc (trimChunks s key t) := by
  unfold trimChunks
  split
  · exact h
  · simp only [Acc, applyTrim, removeUnused, removeUnusedGo_total] at *
    omega

theorem removeBucket_acc (s : St) (key : Nat) (h : Acc s) : Acc (removeBucket s key) := by
  unfold removeBucket
  split
  · exact h
  · simp only [Acc, applyTrim, removeUnused, removeUnusedGo_total] at *
    omega

theorem foldl_removeBucket_acc (keys : List Nat) (s : St) (h : Acc s) : Acc (keys.foldl removeBucket s) := by
  induction keys generalizing s with
  | nil => exact h
  | cons k ks ih => exact ih _ (removeBucket_acc s k h)

theorem resetAll_acc (s : St) (h : Acc s) : Acc (resetAll s) := foldl_removeBucket_acc _ s h

theorem reduce_acc (now : Int) (fuel : Nat) (s : St) (h : Acc s) : Acc (reduce now fuel s) := by
  induction fuel generalizing s with
  | zero => exact h
  | succ n ih =>
    simp only [reduce]
    split
    · exact h
    · split
      · exact removeBucket_acc _ _ h
      · exact ih _ (removeBucket_acc _ _ h)

theorem trimPass_acc (now : Int) (s : St) (h : Acc s) : Acc (trimPass now s) := by
  unfold trimPass; split
  · exact reduce_acc _ _ _ h
  · exact h

theorem afterUpdate_acc (now : Int) (s : St) (h : Acc s) : Acc (afterUpdate now s) := by
  unfold afterUpdate; split
  · exact trimPass_acc _ _ h
  · exact h


/-! ### the operations -/

theorem opGet_acc (s : St) (id key : Nat) (play : Int) (force : Bool) (f t now : Int) (h : Acc s) :
    Acc (opGet s id key play force f t now).1 := by
  unfold opGet
  simp only []
  split
  · exact h
  · split
    · exact h
    · apply afterUpdate_acc
      simp only [Acc, initLoader_total] at *
      exact h

theorem finChunk_total (cfg : Cfg) (ok : Bool) (data cells : List Slot) (base : Nat) (s : FinSt) (v : LChunk) :
    total (finChunk cfg ok data cells base s v).chunks - (finChunk cfg ok data cells base s v).dsize = total s.chunks - s.dsize := by
  simp only [finChunk]
  rw [total_modAt _ (by simp [publish, noChunk])]
  simp only [publish]
  cases hd : (getChunk s.chunks v.cid).detached <;> cases ok <;> simp <;> omega

theorem foldl_finChunk_total (cfg : Cfg) (ok : Bool) (data cells : List Slot) (base : Nat) (l : List LChunk) (s : FinSt) :
    total (l.foldl (finChunk cfg ok data cells base) s).chunks - (l.foldl (finChunk cfg ok data cells base) s).dsize
      = total s.chunks - s.dsize := by
  induction l generalizing s with
  | nil => rfl
  | cons v l ih => simp only [List.foldl, ih, finChunk_total]

theorem finApply_acc (s : St) (l : Loader) (first : LChunk) (ok : Bool) (ver : Nat) (now : Int) (h : Acc s) :
    Acc (finApply s l first ok ver now) := by
  unfold finApply
  apply afterUpdate_acc
  simp only [Acc] at *
  have := foldl_finChunk_total s.cfg ok
    (if ok = true then setRange l.data first.pos (stubCells s.cfg l.key ver l.id s.tick
      ((getChunk s.chunks first.cid).start / nsec) (l.chunks.length * s.cfg.K)) else l.data)
    (stubCells s.cfg l.key ver l.id s.tick ((getChunk s.chunks first.cid).start / nsec) (l.chunks.length * s.cfg.K))
    first.pos
    l.chunks { chunks := s.chunks, loaders := s.loaders.map (fun x => if x.id == l.id then ownMessage ok
      (if ok = true then setRange l.data first.pos (stubCells s.cfg l.key ver l.id s.tick
      ((getChunk s.chunks first.cid).start / nsec) (l.chunks.length * s.cfg.K)) else l.data) x else x), dsize := 0, start := first.pos }
  simp only [] at this
  omega

theorem opFin_acc (s s' : St) (id : Nat) (ok : Bool) (ver : Nat) (now : Int) (h : Acc s)
    (hs : opFin s id ok ver now = some s') : Acc s' := by
  unfold opFin at hs
  split at hs
  · cases hs
  · split at hs
    · cases hs
    · split at hs
      · cases hs
      · injection hs with hs
        subst hs
        exact finApply_acc _ _ _ _ _ _ h


theorem invWalkF_total (now : Int) (tick fuel : Nat) (ts : List Int) (is : List Nat) (cs : List Chunk) :
    total (invWalkF now tick fuel ts is cs) = total cs := by
  induction fuel generalizing ts is cs with
  | zero => simp [invWalkF]
  | succ n ih =>
    cases ts with
    | nil => simp [invWalkF]
    | cons t ts =>
      cases is with
      | nil => simp [invWalkF]
      | cons i is =>
        simp only [invWalkF]
        split
        · exact ih ..
        · split
          · exact ih ..
          · rw [ih]; exact total_modAt_same (invalidateChunk now tick) (fun _ => rfl) _ _

theorem opInv_acc (s : St) (secs : List Int) (now : Int) (h : Acc s) : Acc (opInv s secs now) := by
  have key : ∀ (bs : List Bucket) (cs : List Chunk) (times : List Int),
      total (bs.foldl (invBucket now s.tick times) cs) = total cs := by
    intro bs
    induction bs with
    | nil => intros; rfl
    | cons b bs ih =>
      intro cs times
      simp only [List.foldl, ih]
      unfold invBucket
      split
      · rfl
      · exact invWalkF_total ..
  simp only [Acc, opInv, key] at *
  exact h

theorem opLimits_acc (s : St) (m so now : Int) (h : Acc s) : Acc (opLimits s m so now) := by
  unfold opLimits
  split
  · exact h
  · exact trimPass_acc _ _ h

theorem opShutdown_acc (s : St) (now : Int) (h : Acc s) : Acc (opShutdown s now) :=
  reduce_acc _ _ _ h

theorem apply_acc (s : St) (op : Op) (h : Acc s) : Acc (apply s op) := by
  cases op with
  | get => exact opGet_acc _ _ _ _ _ _ _ _ h
  | fin id ok ver now =>
    simp only [apply]
    cases hf : opFin s id ok ver now with
    | none => exact h
    | some s' => exact opFin_acc _ _ _ _ _ _ h hf
  | inv => exact opInv_acc _ _ _ h
  | trimChunks => exact afterUpdate_acc _ _ (trimChunks_acc _ _ _ h)
  | rmBucket => exact afterUpdate_acc _ _ (removeBucket_acc _ _ h)
  | reset => exact afterUpdate_acc _ _ (resetAll_acc _ h)
  | limits => exact opLimits_acc _ _ _ _ h
  | shutdown => exact opShutdown_acc _ _ h

theorem step_acc (s : St) (op : Op) (h : Acc s) : Acc (step s op) := by
  have : Acc { s with tick := s.tick + 1 } := h
  exact apply_acc _ op this

/-- **Memory accounting** (C23, "memory accounting returns to zero once the cache is emptied", first half):
    after every sequence of operations — requests of any range/step/play mode, loads finishing in any order
    with success or failure, invalidations, chunk trimming, bucket eviction, reset, limit changes, shutdown —
    the runtime-info size equals the bytes held by the chunks. -/
theorem accounting (cfg : Cfg) (ops : List Op) : Acc (run (init cfg) ops) := by
  have gen : ∀ (ops : List Op) (s : St), Acc s → Acc (run s ops) := by
    intro ops
    induction ops with
    | nil => intro s h; exact h
    | cons op ops ih => intro s h; exact ih _ (step_acc s op h)
  exact gen ops _ rfl


/-! ## Freshness -/



theorem getChunk_modAt (f : Chunk → Chunk) (i j : Nat) (cs : List Chunk) :
    getChunk (modAt f i cs) j = getChunk cs j ∨ (j = i ∧ getChunk (modAt f i cs) j = f (getChunk cs j)) := by
  induction cs generalizing i j with
  | nil => left; simp [modAt]
  | cons c cs ih =>
    cases i with
    | zero =>
      cases j with
      | zero => right; simp [modAt, getChunk]
      | succ j => left; simp [modAt, getChunk]
    | succ i =>
      cases j with
      | zero => left; simp [modAt, getChunk]
      | succ j =>
        have := ih i j
        simp only [modAt, getChunk, List.getD_cons_succ] at this ⊢
        rcases this with h | ⟨h1, h2⟩
        · left; exact h
        · right; exact ⟨by omega, h2⟩

theorem getChunk_append_one (cs : List Chunk) (x : Chunk) (j : Nat) :
    getChunk (cs ++ [x]) j = getChunk cs j ∨ getChunk (cs ++ [x]) j = x := by
  induction cs generalizing j with
  | nil =>
    cases j with
    | zero => right; simp [getChunk]
    | succ j => left; simp [getChunk]
  | cons c cs ih =>
    cases j with
    | zero => left; simp [getChunk]
    | succ j => simpa [getChunk] using ih j

/-- the chunk-level freshness invariant: a chunk that still caches a cell of a load which finished before the
    chunk's last invalidation is marked invalidated, with a timestamp that is not in the future -/
def CF (now : Int) (tick : Nat) (c : Chunk) : Prop :=
  c.lastInv ≤ tick ∧ (hasStale c = true → c.invAt ≠ 0 ∧ c.invAt ≤ now) ∧ (c.detached = true → c.size = 0)

def AllCF (now : Int) (tick : Nat) (cs : List Chunk) : Prop := ∀ j, CF now tick (getChunk cs j)

theorem CF_noChunk (now : Int) (tick : Nat) : CF now tick noChunk := by
  simp [CF, noChunk, hasStale]

theorem AllCF_nil (now : Int) (tick : Nat) : AllCF now tick [] := by
  intro j; rw [getChunk_nil]; exact CF_noChunk ..

theorem AllCF_modAt {now : Int} {tick : Nat} (f : Chunk → Chunk) (hf : ∀ c, CF now tick c → CF now tick (f c))
    (i : Nat) {cs : List Chunk} (h : AllCF now tick cs) : AllCF now tick (modAt f i cs) := by
  intro j
  rcases getChunk_modAt f i j cs with e | ⟨_, e⟩
  · rw [e]; exact h j
  · rw [e]; exact hf _ (h j)

theorem AllCF_mono {now now' : Int} {tick tick' : Nat} {cs : List Chunk} (h : AllCF now tick cs)
    (h1 : now ≤ now') (h2 : tick ≤ tick') : AllCF now' tick' cs := by
  intro j
  obtain ⟨a, b, d⟩ := h j
  exact ⟨by omega, fun hs => ⟨(b hs).1, by have := (b hs).2; omega⟩, d⟩

/-- a modification that keeps `data`, `invAt`, `lastInv` keeps the invariant and staleness -/
def Keeps (f : Chunk → Chunk) : Prop :=
  ∀ c, (f c).data = c.data ∧ (f c).invAt = c.invAt ∧ (f c).lastInv = c.lastInv ∧ (f c).detached = c.detached ∧ (f c).size = c.size

theorem hasStale_keeps {f : Chunk → Chunk} (hf : Keeps f) (c : Chunk) : hasStale (f c) = hasStale c := by
  obtain ⟨a, _, b, _, _⟩ := hf c
  simp [hasStale, a, b]

theorem CF_keeps {now : Int} {tick : Nat} {f : Chunk → Chunk} (hf : Keeps f) (c : Chunk) (h : CF now tick c) :
    CF now tick (f c) := by
  obtain ⟨a, i, b, d, e⟩ := hf c
  simp only [CF, hasStale_keeps hf, i, b, d, e] at *
  exact h

theorem hasStale_modAt_keeps {f : Chunk → Chunk} (hf : Keeps f) (i j : Nat) (cs : List Chunk) :
    hasStale (getChunk (modAt f i cs) j) = hasStale (getChunk cs j) := by
  rcases getChunk_modAt f i j cs with e | ⟨_, e⟩
  · rw [e]
  · rw [e, hasStale_keeps hf]

theorem keeps_startLoad (now : Int) : Keeps (startLoad now) := fun _ => ⟨rfl, rfl, rfl, rfl, rfl⟩
theorem keeps_touch (now : Int) : Keeps (touch now) := fun _ => ⟨rfl, rfl, rfl, rfl, rfl⟩
theorem keeps_await (a : Awaiter) : Keeps (fun c => { c with awaiters := c.awaiters ++ [a] }) := fun _ => ⟨rfl, rfl, rfl, rfl, rfl⟩

/-! ### request begin -/

/-- invariant of `init`: chunks fine, monitor silent, and every chunk waiting for its copy/await decision
    with `wait = false` on behalf of a request that accepts no staleness holds no stale cell -/
structure J (now : Int) (tick : Nat) (s : InitSt) : Prop where
  cf : AllCF now tick s.chunks
  bad : s.bad = false
  pend : ∀ v ∈ s.pend, v.wait = false → s.l.stale = 0 → hasStale (getChunk s.chunks v.cid) = false

theorem awaitCopyOne_J {now : Int} {tick : Nat} (s : InitSt) (v : LChunk) (vs : List LChunk)
    (cf : AllCF now tick s.chunks) (bad : s.bad = false)
    (hp : ∀ w ∈ v :: vs, w.wait = false → s.l.stale = 0 → hasStale (getChunk s.chunks w.cid) = false) :
    AllCF now tick (awaitCopyOne s v).chunks ∧ (awaitCopyOne s v).bad = false ∧ (awaitCopyOne s v).l.stale = s.l.stale ∧
    (∀ w ∈ vs, w.wait = false → (awaitCopyOne s v).l.stale = 0 → hasStale (getChunk (awaitCopyOne s v).chunks w.cid) = false) := by
  unfold awaitCopyOne
  split
  · refine ⟨AllCF_modAt _ (fun c => CF_keeps (keeps_await _) c) _ cf, bad, rfl, ?_⟩
    intro w hw h1 h2
    simp only [awaitChunk] at h2 ⊢
    rw [hasStale_modAt_keeps (keeps_await _)]
    exact hp w (List.mem_cons_of_mem _ hw) h1 h2
  · rename_i hwait
    unfold copyChunk
    split
    · exact ⟨cf, bad, rfl, fun w hw => hp w (List.mem_cons_of_mem _ hw)⟩
    · refine ⟨cf, ?_, rfl, fun w hw => hp w (List.mem_cons_of_mem _ hw)⟩
      simp only [bad, Bool.false_or, Bool.and_eq_false_imp, beq_iff_eq]
      intro h0
      exact hp v (List.mem_cons_self ..) (by simpa using hwait) h0

theorem awaitCopyOne_force (s : InitSt) (v : LChunk) : (awaitCopyOne s v).l.force = s.l.force := by
  unfold awaitCopyOne awaitChunk copyChunk
  split
  · rfl
  · split <;> rfl

theorem foldl_awaitCopyOne_J {now : Int} {tick : Nat} (vs : List LChunk) (s : InitSt)
    (cf : AllCF now tick s.chunks) (bad : s.bad = false)
    (hp : ∀ w ∈ vs, w.wait = false → s.l.stale = 0 → hasStale (getChunk s.chunks w.cid) = false) :
    AllCF now tick (vs.foldl awaitCopyOne s).chunks ∧ (vs.foldl awaitCopyOne s).bad = false ∧
      (vs.foldl awaitCopyOne s).l.stale = s.l.stale ∧ (vs.foldl awaitCopyOne s).l.force = s.l.force := by
  induction vs generalizing s with
  | nil => exact ⟨cf, bad, rfl, rfl⟩
  | cons v vs ih =>
    obtain ⟨a, b, c, d⟩ := awaitCopyOne_J s v vs cf bad hp
    obtain ⟨a', b', c', d'⟩ := ih (awaitCopyOne s v) a b d
    simp only [List.foldl_cons]
    exact ⟨a', b', by rw [c', c], by rw [d', awaitCopyOne_force]⟩

theorem awaitCopy_J {now : Int} {tick : Nat} (s : InitSt) (h : J now tick s) :
    J now tick (awaitCopy s) ∧ (awaitCopy s).l.stale = s.l.stale ∧ (awaitCopy s).l.force = s.l.force := by
  obtain ⟨a, b, c, d⟩ := foldl_awaitCopyOne_J s.pend s h.cf h.bad h.pend
  refine ⟨⟨a, b, ?_⟩, c, d⟩
  intro v hv
  simp [awaitCopy] at hv

theorem adoptPend_J {now : Int} {tick : Nat} (t : Int) (s : InitSt) (h : J now tick s) :
    J now tick (adoptPend t s) ∧ (adoptPend t s).l.stale = s.l.stale ∧ (adoptPend t s).l.force = s.l.force := by
  have key : ∀ (vs : List LChunk) (s : InitSt), AllCF now tick s.chunks → s.bad = false →
      AllCF now tick (vs.foldl (adoptOne t) s).chunks ∧ (vs.foldl (adoptOne t) s).bad = false ∧
      (vs.foldl (adoptOne t) s).l.stale = s.l.stale ∧ (vs.foldl (adoptOne t) s).l.force = s.l.force := by
    intro vs
    induction vs with
    | nil => intro s a b; exact ⟨a, b, rfl, rfl⟩
    | cons v vs ih =>
      intro s a b
      simp only [List.foldl_cons]
      obtain ⟨a', b', c', d'⟩ := ih (adoptOne t s v)
        (AllCF_modAt _ (fun c => CF_keeps (keeps_startLoad t) c) _ a) b
      exact ⟨a', b', c', d'⟩
  obtain ⟨a, b, c, d⟩ := key s.pend s h.cf h.bad
  refine ⟨⟨a, b, ?_⟩, c, d⟩
  intro v hv
  simp [adoptPend] at hv


theorem wait_of_stale {now : Int} {tick : Nat} {c : Chunk} (h : CF now tick c) (force : Bool)
    (hs : hasStale c = true) : wantWait c force now 0 = true := by
  obtain ⟨h1, h2⟩ := h.2.1 hs
  simp only [wantWait, isInvalid, waitsInvalid, Bool.or_eq_true, Bool.and_eq_true, bne_iff_ne, ne_eq,
    decide_eq_true_eq]
  right
  exact ⟨h1, by omega⟩

theorem maybeAdd_J {now : Int} {tick : Nat} (cfg : Cfg) (s : InitSt) (cid pos : Nat) (h : J now tick s) :
    J now tick (maybeAdd cfg now s cid pos) ∧ (maybeAdd cfg now s cid pos).l.stale = s.l.stale ∧
      (maybeAdd cfg now s cid pos).l.force = s.l.force := by
  unfold maybeAdd
  simp only []
  split
  · -- this loader loads the chunk itself
    have key : ∀ s2 : InitSt, J now tick s2 → s2.pend = [] →
        J now tick { s2 with chunks := modAt (touch now) cid (modAt (startLoad now) cid s2.chunks),
                             l := { s2.l with chunks := s2.l.chunks ++ [mkLChunk cfg s.l (getChunk s.chunks cid) cid pos now] } } := by
      intro s2 h2 hp
      refine ⟨AllCF_modAt _ (fun c => CF_keeps (keeps_touch now) c) _
        (AllCF_modAt _ (fun c => CF_keeps (keeps_startLoad now) c) _ h2.cf), h2.bad, ?_⟩
      intro v hv
      simp [hp] at hv
    split
    · obtain ⟨a, b, c⟩ := awaitCopy_J s h
      exact ⟨key _ a (by simp [awaitCopy]), b, c⟩
    · obtain ⟨a, b, c⟩ := adoptPend_J now s h
      exact ⟨key _ a (by simp [adoptPend]), b, c⟩
  · refine ⟨⟨AllCF_modAt _ (fun c => CF_keeps (keeps_touch now) c) _ h.cf, h.bad, ?_⟩, rfl, rfl⟩
    intro v hv hw hst
    simp only [] at hv hst ⊢
    rw [hasStale_modAt_keeps (keeps_touch now)]
    rcases List.mem_append.mp hv with hv | hv
    · exact h.pend v hv hw hst
    · simp only [List.mem_singleton] at hv
      subst hv
      simp only [mkLChunk] at hw ⊢
      cases hs : hasStale (getChunk s.chunks cid) with
      | false => rfl
      | true =>
        have := wait_of_stale (h.cf cid) s.l.force hs
        rw [hst] at hw
        rw [this] at hw
        cases hw


theorem CF_newChunk (now : Int) (tick : Nat) (key : Nat) (t dur : Int) : CF now tick (newChunk key t dur) := by
  simp [CF, newChunk, hasStale]

theorem visit_J {now : Int} {tick : Nat} (cfg : Cfg) (s : InitSt) (p : Nat) (h : J now tick s) :
    J now tick (visit cfg now s p) ∧ (visit cfg now s p).l.stale = s.l.stale ∧ (visit cfg now s p).l.force = s.l.force := by
  unfold visit
  simp only []
  split
  · exact maybeAdd_J cfg s _ _ h
  · have h1 : J now tick { s with chunks := s.chunks ++ [newChunk s.l.key (s.l.timeStart + p * cfg.dur) cfg.dur],
                                  fresh := s.fresh + 1 } := by
      refine ⟨?_, h.bad, ?_⟩
      · intro j
        rcases getChunk_append_one s.chunks (newChunk s.l.key (s.l.timeStart + p * cfg.dur) cfg.dur) j with e | e
        · simp only [e]; exact h.cf j
        · simp only [e]; exact CF_newChunk ..
      · intro v hv hw hst
        rcases getChunk_append_one s.chunks (newChunk s.l.key (s.l.timeStart + p * cfg.dur) cfg.dur) v.cid with e | e
        · simp only [e]; exact h.pend v hv hw hst
        · simp only [e]; simp [newChunk, hasStale]
    obtain ⟨a, b, c⟩ := maybeAdd_J cfg _ s.chunks.length (p * cfg.K) h1
    exact ⟨⟨a.cf, a.bad, a.pend⟩, b, c⟩

theorem initLoader_J {now : Int} {tick : Nat} (cfg : Cfg) (cs : List Chunk) (cids : List Nat) (l : Loader) (n : Nat)
    (h : AllCF now tick cs) :
    AllCF now tick (initLoader cfg now cs cids l n).chunks ∧ (initLoader cfg now cs cids l n).bad = false := by
  have key : ∀ (ps : List Nat) (s : InitSt), J now tick s → J now tick (ps.foldl (visit cfg now) s) := by
    intro ps
    induction ps with
    | nil => intro s hs; exact hs
    | cons p ps ih => intro s hs; exact ih _ (visit_J cfg s p hs).1
  have h0 : J now tick { chunks := cs, cids := cids, l := l, pend := [], fresh := 0 } :=
    ⟨h, rfl, by intro v hv; simp at hv⟩
  have := (awaitCopy_J _ (key (List.range n) _ h0)).1
  exact ⟨this.cf, this.bad⟩


/-! ### the other operations keep the chunk invariant; none of them touches the monitor -/

def G (now : Int) (tick : Nat) (s : St) : Prop := AllCF now tick s.chunks ∧ s.bad = false

theorem CF_detach {now : Int} {tick : Nat} (c : Chunk) (h : CF now tick c) : CF now tick (detach c) := by
  refine ⟨h.1, ?_, ?_⟩
  · simp [detach, hasStale]
  · simp [detach]

theorem removeUnusedGo_CF {now : Int} {tick : Nat} (t : Int) (skip run : Nat) (cids : List Nat) (cs : List Chunk)
    (h : AllCF now tick cs) : AllCF now tick (removeUnusedGo t skip run cids cs).2.1 := by
  induction cids generalizing skip run cs with
  | nil => simpa [removeUnusedGo] using h
  | cons i is ih =>
    cases skip with
    | succ k => simpa [removeUnusedGo] using ih k 0 cs h
    | zero =>
      simp only [removeUnusedGo]
      split
      · exact ih _ _ _ (AllCF_modAt _ (fun c => CF_detach c) _ h)
      · exact ih _ _ _ h

theorem trimChunks_G {now : Int} {tick : Nat} (s : St) (key : Nat) (t : Int) (h : G now tick s) :
    G now tick (trimChunks s key t) := by
  unfold trimChunks
  split
  · exact h
  · exact ⟨removeUnusedGo_CF _ _ _ _ _ h.1, h.2⟩

theorem removeBucket_G {now : Int} {tick : Nat} (s : St) (key : Nat) (h : G now tick s) :
    G now tick (removeBucket s key) := by
  unfold removeBucket
  split
  · exact h
  · exact ⟨removeUnusedGo_CF _ _ _ _ _ h.1, h.2⟩

theorem resetAll_G {now : Int} {tick : Nat} (s : St) (h : G now tick s) : G now tick (resetAll s) := by
  have key : ∀ (ks : List Nat) (s : St), G now tick s → G now tick (ks.foldl removeBucket s) := by
    intro ks
    induction ks with
    | nil => intro s h; exact h
    | cons k ks ih => intro s h; exact ih _ (removeBucket_G s k h)
  exact key _ s h

theorem reduce_G {now : Int} {tick : Nat} (t : Int) (fuel : Nat) (s : St) (h : G now tick s) :
    G now tick (reduce t fuel s) := by
  induction fuel generalizing s with
  | zero => exact h
  | succ n ih =>
    simp only [reduce]
    split
    · exact h
    · split
      · exact removeBucket_G _ _ h
      · exact ih _ (removeBucket_G _ _ h)

theorem trimPass_G {now : Int} {tick : Nat} (t : Int) (s : St) (h : G now tick s) : G now tick (trimPass t s) := by
  unfold trimPass; split
  · exact reduce_G _ _ _ h
  · exact h

theorem afterUpdate_G {now : Int} {tick : Nat} (t : Int) (s : St) (h : G now tick s) : G now tick (afterUpdate t s) := by
  unfold afterUpdate; split
  · exact trimPass_G _ _ h
  · exact h

theorem opGet_G (s : St) (id key : Nat) (play : Int) (force : Bool) (f t now : Int) (tick : Nat) (h : G now tick s) :
    G now tick (opGet s id key play force f t now).1 := by
  unfold opGet
  simp only []
  split
  · exact h
  · split
    · exact h
    · apply afterUpdate_G
      obtain ⟨a, b⟩ := initLoader_J (now := now) (tick := tick) s.cfg s.chunks
        (match findBucket key s.buckets with
          | some b => (b, false)
          | none => ({ key := key, cids := [], lastAccess := 0, play := play }, true)).1.cids
        { id := id, key := key, play := play, force := force, timeStart := chunkStartOf s.cfg (f * nsec),
          data := List.replicate (chunkCount s.cfg (chunkStartOf s.cfg (f * nsec)) (t * nsec) * s.cfg.K) none,
          ls := ((f * nsec - chunkStartOf s.cfg (f * nsec)) / (s.cfg.step * nsec)).toNat,
          le := ((f * nsec - chunkStartOf s.cfg (f * nsec)) / (s.cfg.step * nsec)).toNat + ((t - f) / s.cfg.step).toNat,
          chunks := [], waitN := 0, gotErr := false, loadPending := false, finished := false, began := now,
          stale := staleOf play }
        (chunkCount s.cfg (chunkStartOf s.cfg (f * nsec)) (t * nsec)) h.1
      refine ⟨a, ?_⟩
      simp only [h.2, Bool.false_or]
      exact b


theorem mem_slice {α} (l : List α) (a b : Nat) (x : α) (h : x ∈ slice l a b) : x ∈ l :=
  List.mem_of_mem_drop (List.mem_of_mem_take h)

theorem stubCells_fin (cfg : Cfg) (key ver load tick : Nat) (fromSec : Int) (n : Nat) (x : Slot)
    (h : x ∈ stubCells cfg key ver load tick fromSec n) : ∃ cell, x = some cell ∧ cell.fin = tick := by
  simp only [stubCells, List.mem_map] at h
  obtain ⟨i, _, rfl⟩ := h
  exact ⟨_, rfl, rfl⟩

theorem CF_publish {now : Int} {tick : Nat} (ok : Bool) (cd : List Slot) (bytes : Int) (c : Chunk)
    (hcd : ok = true → ∀ x ∈ cd, ∃ cell, x = some cell ∧ cell.fin = tick) (h : CF now tick c) :
    CF now tick (publish ok cd bytes c) := by
  unfold publish
  simp only []
  split
  · exact CF_keeps (f := fun c => { c with awaiters := [] }) (fun _ => ⟨rfl, rfl, rfl, rfl, rfl⟩) c h
  · split
    · rename_i hdet hok
      refine ⟨h.1, ?_, fun hd => absurd hd (by simpa using hdet)⟩
      intro hs
      exfalso
      simp only [hasStale, List.any_eq_true] at hs
      obtain ⟨x, hx, hx2⟩ := hs
      obtain ⟨cell, rfl, hf⟩ := hcd hok x hx
      simp only [decide_eq_true_eq] at hx2
      have := h.1
      omega
    · exact CF_keeps (f := fun c => { c with awaiters := [], loading := c.loading - 1 }) (fun _ => ⟨rfl, rfl, rfl, rfl, rfl⟩) c h

theorem finApply_G (s : St) (l : Loader) (first : LChunk) (ok : Bool) (ver : Nat) (now : Int) (h : G now s.tick s) :
    G now s.tick (finApply s l first ok ver now) := by
  unfold finApply
  apply afterUpdate_G
  refine ⟨?_, h.2⟩
  simp only []
  have key : ∀ (vs : List LChunk) (fs : FinSt), AllCF now s.tick fs.chunks →
      AllCF now s.tick (vs.foldl (finChunk s.cfg ok
        (if ok = true then setRange l.data first.pos (stubCells s.cfg l.key ver l.id s.tick
          ((getChunk s.chunks first.cid).start / nsec) (l.chunks.length * s.cfg.K)) else l.data)
        (stubCells s.cfg l.key ver l.id s.tick ((getChunk s.chunks first.cid).start / nsec) (l.chunks.length * s.cfg.K))
        first.pos) fs).chunks := by
    intro vs
    induction vs with
    | nil => intro fs hfs; exact hfs
    | cons v vs ih =>
      intro fs hfs
      simp only [List.foldl_cons]
      apply ih
      simp only [finChunk]
      apply AllCF_modAt _ _ _ hfs
      intro c hc
      apply CF_publish _ _ _ _ _ hc
      intro hok x hx
      simp only [hok, if_true] at hx
      exact stubCells_fin _ _ _ _ _ _ _ _ (mem_slice _ _ _ _ hx)
  exact key _ _ h.1

theorem opFin_G (s s' : St) (id : Nat) (ok : Bool) (ver : Nat) (now : Int) (h : G now s.tick s)
    (hs : opFin s id ok ver now = some s') : G now s.tick s' := by
  unfold opFin at hs
  split at hs
  · cases hs
  · split at hs
    · cases hs
    · split at hs
      · cases hs
      · injection hs with hs
        subst hs
        exact finApply_G _ _ _ _ _ _ h

theorem CF_invalidate {now : Int} {tick : Nat} (hpos : 0 < now) (c : Chunk) (_h : CF now tick c) :
    CF now tick (invalidateChunk now tick c) := by
  refine ⟨Nat.le_refl _, fun _ => ⟨?_, ?_⟩, _h.2.2⟩
  · simp only [invalidateChunk]; omega
  · simp only [invalidateChunk]; omega

theorem invWalkF_CF {now : Int} {tick : Nat} (hpos : 0 < now) (fuel : Nat) (ts : List Int) (is : List Nat) (cs : List Chunk)
    (h : AllCF now tick cs) : AllCF now tick (invWalkF now tick fuel ts is cs) := by
  induction fuel generalizing ts is cs with
  | zero => simpa [invWalkF] using h
  | succ n ih =>
    cases ts with
    | nil => simpa [invWalkF] using h
    | cons t ts =>
      cases is with
      | nil => simpa [invWalkF] using h
      | cons i is =>
        simp only [invWalkF]
        split
        · exact ih _ _ _ h
        · split
          · exact ih _ _ _ h
          · exact ih _ _ _ (AllCF_modAt _ (fun c => CF_invalidate hpos c) _ h)

theorem opInv_G (s : St) (secs : List Int) (now : Int) (hpos : 0 < now) (h : G now s.tick s) :
    G now s.tick (opInv s secs now) := by
  have key : ∀ (bs : List Bucket) (cs : List Chunk) (times : List Int), AllCF now s.tick cs →
      AllCF now s.tick (bs.foldl (invBucket now s.tick times) cs) := by
    intro bs
    induction bs with
    | nil => intro cs times h; exact h
    | cons b bs ih =>
      intro cs times h
      simp only [List.foldl_cons]
      apply ih
      unfold invBucket
      split
      · exact h
      · exact invWalkF_CF hpos _ _ _ _ h
  exact ⟨key _ _ _ h.1, h.2⟩

theorem opLimits_G {now : Int} {tick : Nat} (s : St) (m so t : Int) (h : G now tick s) : G now tick (opLimits s m so t) := by
  unfold opLimits
  split
  · exact h
  · exact trimPass_G _ _ h

theorem apply_G (s : St) (op : Op) (hpos : 0 < op.now) (h : G op.now s.tick s) : G op.now s.tick (apply s op) := by
  cases op with
  | get id key play force f t now => exact opGet_G _ _ _ _ _ _ _ _ _ h
  | fin id ok ver now =>
    simp only [apply]
    cases hf : opFin s id ok ver now with
    | none => exact h
    | some s' => exact opFin_G _ _ _ _ _ _ h hf
  | inv secs now => exact opInv_G _ _ _ hpos h
  | trimChunks key t now => exact afterUpdate_G _ _ (trimChunks_G _ _ _ h)
  | rmBucket key now => exact afterUpdate_G _ _ (removeBucket_G _ _ h)
  | reset now => exact afterUpdate_G _ _ (resetAll_G _ h)
  | limits m so now => exact opLimits_G _ _ _ _ h
  | shutdown now => exact reduce_G _ _ _ h

/-- clocks handed to the operations never run backwards and are positive (UnixNano) -/
def Mono : Int → List Op → Prop
  | _, [] => True
  | c, op :: ops => c ≤ op.now ∧ 0 < op.now ∧ Mono op.now ops

def Fresh (s : St) : Prop := G s.clock s.tick s

theorem step_fresh (s : St) (op : Op) (h1 : s.clock ≤ op.now) (hpos : 0 < op.now) (h : Fresh s) : Fresh (step s op) := by
  have h0 : G op.now (s.tick + 1) { s with tick := s.tick + 1 } := ⟨AllCF_mono h.1 h1 (Nat.le_succ _), h.2⟩
  have := apply_G { s with tick := s.tick + 1 } op hpos h0
  exact this

theorem run_fresh (ops : List Op) (s : St) (hm : Mono s.clock ops) (h : Fresh s) : Fresh (run s ops) := by
  induction ops generalizing s with
  | nil => exact h
  | cons op ops ih =>
    obtain ⟨a, b, c⟩ := hm
    exact ih (step s op) c (step_fresh s op a b h)


/-- **Freshness** (C23: "never rows from a load that finished before an invalidation of that slot completed
    before the request began"). For every configuration and every sequence of operations whose clock readings are
    positive and never run backwards, the monitor never fires: no request with `staleAcceptPeriod = 0` (every
    request except play interval 1 s) is ever served from the cache a cell whose load finished before an
    invalidation that hit the chunk before the request began. (Cells not served from the cache are written by a load
    that finishes after the request began, see `delivered_cells_are_new`.) -/
theorem freshness (cfg : Cfg) (ops : List Op) (hm : Mono 0 ops) : (run (init cfg) ops).bad = false :=
  (run_fresh ops (init cfg) hm ⟨AllCF_nil _ _, rfl⟩).2

theorem total_zero (cs : List Chunk) (h : ∀ j, (getChunk cs j).size = 0) : total cs = 0 := by
  induction cs with
  | nil => rfl
  | cons c cs ih =>
    have h0 := h 0
    simp only [getChunk_zero] at h0
    have := ih (fun j => by simpa [getChunk_succ] using h (j + 1))
    simp [total, h0, this]

/-- **Memory accounting returns to zero once the cache is emptied**: after any sequence of operations (clock
    readings positive and not running backwards), if every chunk has been detached — which is what `reset`,
    eviction of every bucket, or trimming of every chunk does — the runtime-info size is 0, whatever loads are still
    in flight or finished in between. -/
theorem accounting_zero_when_emptied (cfg : Cfg) (ops : List Op) (hm : Mono 0 ops)
    (he : ∀ j, (getChunk (run (init cfg) ops).chunks j).detached = true) : (run (init cfg) ops).info.size = 0 := by
  have hf := (run_fresh ops (init cfg) hm ⟨AllCF_nil _ _, rfl⟩).1
  rw [accounting cfg ops]
  exact total_zero _ (fun j => (hf j).2.2 (he j))

/-- what a finishing load hands to its own request, to the chunk and to the awaiters are cells stamped with the
    tick of the finishing operation, which is later than the tick at which any waiting request began -/
theorem delivered_cells_are_new (cfg : Cfg) (key ver load tick : Nat) (fromSec : Int) (n : Nat) (x : Slot)
    (h : x ∈ stubCells cfg key ver load tick fromSec n) : ∃ cell, x = some cell ∧ cell.fin = tick :=
  stubCells_fin cfg key ver load tick fromSec n x h

/-- the monitor is exactly "served from the cache although stale": `copyChunk` raises it iff the request accepts
    no staleness and the chunk it copies from holds a cell older than the chunk's last invalidation -/
theorem monitor_meaning (s : InitSt) (v : LChunk) (d : List Slot) (hd : (getChunk s.chunks v.cid).data = some d) :
    (copyChunk s v).bad = (s.bad || (s.l.stale == 0 && hasStale (getChunk s.chunks v.cid))) := by
  simp [copyChunk, hd]

/-! ## Placement

  `placement` is the whole-trace statement: after ANY sequence of operations, every slot that is filled in the
  buffer of ANY request (finished or not, successful or not, any play mode) holds the cell the storage produced for
  exactly that slot's time and for the request's cache key — whether the cell was copied from the cache, written by
  the request's own load, or handed over by another request's load through the awaiter's `chunkOffset`.
  The invariant behind it (SH.Lemmas.TsCachePlace: `PInv`) is carried through `init` (copy, await, the adopt rule
  that keeps a loader's chunks contiguous), `loadChunks` (publish with running `start/end`, delivery), invalidation,
  trimming, eviction, reset, limits and shutdown.  Hypotheses: the shard is well formed (a chunk lasts `K` steps) and
  request ids are fresh (the model addresses a loader by id where Go holds a pointer).
  Still not proved (correspondence + oracle `misplaced-rows` only): that a *successful* request has *every* slot of
  its range filled — that needs the message bookkeeping of `no_orphan_awaiter`, see the note at the end. -/

/-- **Placement** (C23: "returns, for each slot of the requested range, exactly the rows the storage produced for
    that slot's time, never rows of another query or slot"). Slot `i` of a request buffer stands for the time
    `timeStart + i·step` (`timeStart` = start of the first chunk the range touches; the request's own range is
    `[ls, le)`, see `request_slot_time`). -/
theorem placement (cfg : Cfg) (wf : SH.TsCache.Place.WF cfg) (ops : List Op)
    (hf : SH.TsCache.Place.FreshIds (init cfg) ops) :
    ∀ l ∈ (run (init cfg) ops).loaders, ∀ (i : Nat) (c : Cell), l.data[i]? = some (some c) →
      c.t = l.timeStart / nsec + (i : Int) * cfg.step ∧ c.key = l.key :=
  SH.TsCache.Place.placement_all cfg wf ops hf

/-- in particular for what `Get` returns (`l.data[ls:le]`): returned slot `i` is buffer slot `ls + i` -/
theorem placement_returned (cfg : Cfg) (wf : SH.TsCache.Place.WF cfg) (ops : List Op)
    (hf : SH.TsCache.Place.FreshIds (init cfg) ops) :
    ∀ l ∈ (run (init cfg) ops).loaders, ∀ (i : Nat) (c : Cell), (slice l.data l.ls l.le)[i]? = some (some c) →
      c.t = l.timeStart / nsec + ((l.ls + i : Nat) : Int) * cfg.step ∧ c.key = l.key := by
  intro l hl i c h
  exact placement cfg wf ops hf l hl (l.ls + i) c (SH.TsCache.Place.getElem?_slice_some _ _ _ _ _ h).2

/-- cached chunk data is placed as well: slot `j` of an attached or detached chunk holds the cell of time
    `chunk.start + j·step` of the chunk's cache key -/
theorem placement_cache (cfg : Cfg) (wf : SH.TsCache.Place.WF cfg) (ops : List Op)
    (hf : SH.TsCache.Place.FreshIds (init cfg) ops) (cid : Nat) (d : List Slot)
    (hd : (getChunk (run (init cfg) ops).chunks cid).data = some d) (j : Nat) (c : Cell) (hj : d[j]? = some (some c)) :
    c.t = (getChunk (run (init cfg) ops).chunks cid).start / nsec + (j : Int) * cfg.step ∧
      c.key = (getChunk (run (init cfg) ops).chunks cid).key := by
  have h := SH.TsCache.Place.run_P ops (init cfg) wf hf (SH.TsCache.Place.PInv_init cfg)
  have hc : (run (init cfg) ops).cfg = cfg := by
    have : ∀ (ops : List Op) (s : St), (run s ops).cfg = s.cfg := by
      intro ops
      induction ops with
      | nil => intro s; rfl
      | cons op ops ih => intro s; simp only [run, List.foldl_cons] at ih ⊢; rw [ih, SH.TsCache.Place.step_cfg]
    exact this ops _
  have := h.ci.pc cid d hd j (some c) hj c rfl
  rw [hc] at this
  exact this

/-! ### single-step placement lemmas (kept from the first round; now subsumed by `placement`) -/

theorem getElem?_slice {α} (l : List α) (a b k : Nat) (h : k < b - a) : (slice l a b)[k]? = l[a + k]? := by
  simp [slice, h]

theorem getElem?_setRange {α} (dst src : List α) (p k : Nat) (h1 : p + k < dst.length) (h2 : k < src.length) :
    (setRange dst p src)[p + k]? = src[k]? := by
  have hl : (dst.take p).length = p := by simp [List.length_take]; omega
  simp only [setRange, List.append_assoc]
  rw [List.getElem?_append_right (by omega)]
  simp only [hl, Nat.add_sub_cancel_left]
  rw [List.getElem?_append_left (by simp [List.length_take]; omega)]
  simp [List.getElem?_take]; omega

/-- the storage answers slot `i` of a load with the rows of time `from + i·step` -/
theorem stub_slot_time (cfg : Cfg) (key ver load tick : Nat) (fromSec : Int) (n i : Nat) (h : i < n) :
    (stubCells cfg key ver load tick fromSec n)[i]? =
      some (some { t := fromSec + (i : Int) * cfg.step, key := key, ver := ver, load := load, fin := tick }) := by
  simp [stubCells, h]

/-- the awaiter registered for a loader chunk at data position `pos` with request range starting at `ls`
    remembers the chunk-relative offset of `ls` (`chunkOffset = loadStart − chunkStart`) -/
theorem awaiter_offset_partial (cfg : Cfg) (l : Loader) (c : Chunk) (cid pos : Nat) (now : Int) :
    (mkLChunk cfg l c cid pos now).pos + ((mkLChunk cfg l c cid pos now).ls - (mkLChunk cfg l c cid pos now).pos)
      = (mkLChunk cfg l c cid pos now).ls := by
  simp only [mkLChunk]; omega

/-- delivery to an awaiter: loader slot `ls + k` receives chunk slot `off + k`; with `awaiter_offset_partial`
    (`off = ls − pos`) that is chunk slot `(ls + k) − pos`, the slot of the same time -/
theorem deliver_places_partial (src : List Slot) (a : Awaiter) (l : Loader) (k : Nat) (hid : l.id = a.req)
    (hk : k < a.le - a.ls) (hb : a.ls + k < l.data.length) (hs : a.off + k < src.length) :
    (deliver true src a l).data[a.ls + k]? = src[a.off + k]? := by
  have hlen : k < (slice src a.off (a.off + (a.le - a.ls))).length := by
    simp [slice, List.length_take, List.length_drop]; omega
  have : (deliver true src a l).data = setRange l.data a.ls (slice src a.off (a.off + (a.le - a.ls))) := by
    unfold deliver
    simp only [hid, bne_self_eq_false, Bool.false_eq_true, if_false, if_true]
    split <;> rfl
  rw [this, getElem?_setRange _ _ _ _ hb hlen, getElem?_slice _ _ _ _ (by omega)]

/-- a cache hit copies chunk slot `(ls + k) − pos` into loader slot `ls + k` -/
theorem copy_offset_partial (s : InitSt) (v : LChunk) (d : List Slot) (k : Nat)
    (hd : (getChunk s.chunks v.cid).data = some d) (hk : k < v.le - v.ls) (hpos : v.pos ≤ v.ls)
    (hb : v.ls + k < s.l.data.length) (hs : v.ls - v.pos + k < d.length) :
    (copyChunk s v).l.data[v.ls + k]? = d[v.ls - v.pos + k]? := by
  have hlen : k < (slice d (v.ls - v.pos) (v.le - v.pos)).length := by
    simp [slice, List.length_take, List.length_drop]; omega
  simp only [copyChunk, hd]
  rw [getElem?_setRange _ _ _ _ hb hlen, getElem?_slice _ _ _ _ (by omega)]

/-! ## The decision sites behind "no request waits forever" (facts read from /repo's source, SH.Gen.C23) -/

/-- `cache2.trim`: does the trim goroutine call `trimCond.Wait()`? (`eff` = effectiveSizeLocked, `size` = info.size) -/
def trimSleeps (v : SH.Gen.C23.TrimWait) (maxSize soft eff size : Int) : Bool :=
  match v with
  | .hardLimit => maxSize == 0 || decide (eff ≤ maxSize)
  | .softLimitOrEmpty => maxSize == 0 || decide (eff ≤ soft) || decide (size ≤ 0)
  | .unknown => true

/-- there is something the trim goroutine must do: a limit is set, the effective size is above the soft limit and
    the cache holds data it can evict (loads wait in `tryNotExceedMemorySoftLimitInflight` until it has done it) -/
def trimHasWork (maxSize soft eff size : Int) : Bool := maxSize != 0 && decide (soft < eff) && decide (0 < size)

/-- The trim goroutine never goes to sleep while it has work (signals sent while it is busy are lost, so the
    decision to sleep must not rely on them). -/
theorem trim_never_sleeps_with_work (maxSize soft eff size : Int)
    (h : trimSleeps SH.Gen.C23.trimWait maxSize soft eff size = true) : trimHasWork maxSize soft eff size = false := by
  simp only [trimSleeps, SH.Gen.C23.trimWait, trimHasWork, Bool.or_eq_true, beq_iff_eq, decide_eq_true_eq,
    Bool.and_eq_false_imp, Bool.and_eq_true, bne_iff_ne, ne_eq, decide_eq_false_iff_not] at *
  omega

/-- the code before the fix (`size <= maxSize`): the state observed on the real cache when every load hung
    (size 4464, soft limit 3572, hard limit 4465): the trim goroutine sleeps although it has work -/
example : trimSleeps .hardLimit 4465 3572 4464 4464 = true ∧ trimHasWork 4465 3572 4464 4464 = true := by decide

/-- `updateRuntimeInfoUnlocked`: is `allocCond` broadcast after the runtime info changed? -/
def allocWakes (v : SH.Gen.C23.AllocWake) (maxSize eff size : Int) : Bool :=
  match v with
  | .whenBelow => decide (eff ≤ maxSize)
  | .whenBelowOrEmpty => decide (eff ≤ maxSize) || decide (size ≤ 0)
  | .unknown => false

/-- Once trimming has emptied the cache, the loads parked in `tryNotExceedMemoryHardLimitInflight` are woken, so
    that they can resolve "inflight bytes alone exceed the limit" (they cancel the largest inflight request). -/
theorem empty_cache_wakes_inflight_loads (maxSize eff size : Int) (h : size ≤ 0) :
    allocWakes SH.Gen.C23.allocWake maxSize eff size = true := by
  simp [allocWakes, SH.Gen.C23.allocWake, h]

example : allocWakes .whenBelow 64 5000 0 = false := by decide   -- before the fix: cache empty, nobody is woken

/-- removing a bucket that `reset` has already removed (the trim heap still points to it):
    `none` = the nil dereference in `cache2BucketList.remove` -/
def secondRemoval (guard : Bool) : Option Unit := if guard then some () else none

theorem second_removal_is_harmless : secondRemoval SH.Gen.C23.removeGuard = some () := by
  simp [secondRemoval, SH.Gen.C23.removeGuard]

example : secondRemoval false = none := by decide   -- before the fix

/-! ## Non-vacuity -/

def cfg0 : Cfg := { step := 1, K := 2, dur := 2000000000, col := 24, row := 100 }

/-- request, load finishes, the slot is invalidated, a second request reloads, a third one is a pure cache hit -/
def ops0 : List Op :=
  [ .get 1 1 0 false 100 102 200000000000, .fin 1 true 1 200000000001, .inv [100] 200000000002,
    .get 2 1 0 false 100 102 200000000003, .fin 2 true 2 200000000004, .get 3 1 0 false 100 102 200000000005 ]

example : Mono 0 ops0 := by simp [Mono, ops0, Op.now]
example : (run (init cfg0) ops0).info.size = 196 := by decide
example : ((run (init cfg0) ops0).loaders.map (fun l => (l.id, l.finished, l.data.map (fun x => x.map (·.ver))))) =
    [(1, true, [some 1, some 1]), (2, true, [some 2, some 2]), (3, true, [some 2, some 2])] := by decide

/-- hypotheses of `placement` on the example run: well-formed shard, fresh ids; and its conclusion is not vacuous:
    request 3 (a pure cache hit) holds the cells of times 100 and 101 -/
example : SH.TsCache.Place.WF cfg0 := by decide
example : SH.TsCache.Place.FreshIds (init cfg0) ops0 := by decide
example : ((run (init cfg0) ops0).loaders.map (fun l => (l.id, l.timeStart / nsec, l.data.map (fun x => x.map (·.t))))) =
    [(1, 100, [some 100, some 101]), (2, 100, [some 100, some 101]), (3, 100, [some 100, some 101])] := by decide

/-- emptied: after a reset every chunk is detached (hypothesis of `accounting_zero_when_emptied`) while the size was 196 before -/
example : ((run (init cfg0) (ops0 ++ [.reset 200000000006])).chunks.all (·.detached)) = true ∧
    (run (init cfg0) (ops0 ++ [.reset 200000000006])).info.size = 0 := by decide

/-- the monitor does fire on a stale hit: a chunk whose only cell was loaded at tick 1 and invalidated at tick 2,
    served to a request that accepts no staleness -/
def staleChunk : Chunk :=
  { noChunk with data := some [some { t := 100, key := 1, ver := 1, load := 1, fin := 1 }], lastInv := 2, detached := false }
def staleInit : InitSt :=
  { chunks := [staleChunk], cids := [0], pend := [], fresh := 0,
    l := { id := 9, key := 1, play := 0, force := false, timeStart := 0, data := [none], ls := 0, le := 1, chunks := [],
           waitN := 0, gotErr := false, loadPending := false, finished := false, began := 0, stale := 0 } }
example : (copyChunk staleInit { cid := 0, pos := 0, ls := 0, le := 1, load := false, wait := false }).bad = true := by decide
/-- …and the invariant `CF` is what excludes that state: an un-invalidated chunk with such a cell violates it -/
example : ¬ CF 10 5 staleChunk := by
  intro h
  have := h.2.1 (by decide)
  exact this.1 (by decide)

/-! ## The two defects as model variants (before / after `fix: series cache (cache2) no longer crashes on reset …`) -/

/-! ### D1 — a bucket removed twice: `reset` racing with `reduceMemoryUsage`

  `reduceMemoryUsage` first collects every bucket into its heap and then removes them one by one; `reset` (any
  goroutine) may remove the same buckets in between.  `held` is the heap (bucket keys = the pointers it holds). -/

/-- `removeBucketUnlocked` on a bucket pointer collected earlier. `guard` = it returns early when the bucket is no
    longer in `shard.bucketM`; without the guard the unlinked bucket's nil list links are dereferenced (`none`). -/
def removeHeld (guard : Bool) (s : St) (key : Nat) : Option St :=
  match findBucket key s.buckets with
  | some _ => some (removeBucket s key)
  | none => if guard then some s else none

/-- the eviction loop of `reduceMemoryUsage` over the heap collected earlier -/
def reduceHeld (guard : Bool) : List Nat → St → Option St
  | [], s => some s
  | k :: ks, s =>
    match removeHeld guard s k with
    | none => none
    | some s1 => if s1.info.size <= s1.soft then some s1 else reduceHeld guard ks s1

/-- the race: the trim goroutine collects its heap, `reset` runs, the trim goroutine goes on -/
def trimRace (guard : Bool) (s : St) : Option St := reduceHeld guard (s.buckets.map (·.key)) (resetAll s)

/-- with the guard the eviction loop survives any stale heap, and keeps the accounting exact -/
theorem reduceHeld_guarded (held : List Nat) (s : St) (h : Acc s) : ∃ s', reduceHeld true held s = some s' ∧ Acc s' := by
  induction held generalizing s with
  | nil => exact ⟨s, rfl, h⟩
  | cons k ks ih =>
    have step : ∀ s1 : St, Acc s1 →
        ∃ s', (if s1.info.size ≤ s1.soft then some s1 else reduceHeld true ks s1) = some s' ∧ Acc s' := by
      intro s1 h1
      by_cases hc : s1.info.size ≤ s1.soft
      · simp only [hc, if_true]; exact ⟨_, rfl, h1⟩
      · simp only [hc, if_false]; exact ih _ h1
    cases hfb : findBucket k s.buckets with
    | none => simp only [reduceHeld, removeHeld, hfb, if_true]; exact step s h
    | some b => simp only [reduceHeld, removeHeld, hfb]; exact step _ (removeBucket_acc _ _ h)

/-- the code in /repo (guard read from the source): a reset during trimming never crashes the trim goroutine -/
theorem trim_survives_reset (s : St) (h : Acc s) :
    ∃ s', trimRace SH.Gen.C23.removeGuard s = some s' ∧ Acc s' := by
  have : SH.Gen.C23.removeGuard = true := by decide
  rw [this]
  exact reduceHeld_guarded _ _ (resetAll_acc _ h)

/-- before the fix: one cached bucket, `reset` between heap collection and removal ⇒ nil dereference -/
example : trimRace false (run (init cfg0) ops0) = none := by decide
example : (trimRace true (run (init cfg0) ops0)).isSome = true := by decide


/-! ### D2 — the trim goroutine against the loads parked at the soft limit

  A fragment with just the state the defect lives in: the cache size, the two limits, whether the trim goroutine is
  parked in `trimCond.Wait()`, and how many loads are parked in `tryNotExceedMemorySoftLimitInflight` (they wait
  for an `allocCond` broadcast while the size is above the soft limit).  `sync.Cond.Signal` wakes a parked
  goroutine and is lost on a busy one — both are `asleep := false`. -/

structure TG where
  size : Int
  maxSize : Int
  soft : Int
  asleep : Bool
  parked : Nat
deriving DecidableEq, Repr

inductive TEv
  | evict (to : Int)     -- busy trim goroutine: reduceMemoryUsage evicts down to `to ≤ soft`; its info update broadcasts allocCond
  | decide               -- busy trim goroutine at the bottom of its loop: `trimCond.Wait()` or go round again
  | publish (n : Nat)    -- a load publishes `n` bytes; updateRuntimeInfoUnlocked signals trimCond when above the soft limit
  | loadStart            -- updateInflightApprox(req, 0): signal trimCond, then park while above the soft limit
deriving DecidableEq, Repr

def tgSignal (t : TG) : TG := { t with asleep := false }

def tgStep (v : SH.Gen.C23.TrimWait) (t : TG) : TEv → TG
  | .evict to =>
    if !t.asleep && decide (t.soft < t.size) && decide (to ≤ t.soft) && decide (0 ≤ to) then { t with size := to, parked := 0 } else t
  | .decide => if t.asleep then t else { t with asleep := trimSleeps v t.maxSize t.soft t.size t.size }
  | .publish n =>
    if t.maxSize != 0 && decide (t.soft < t.size + n) then tgSignal { t with size := t.size + n } else { t with size := t.size + n }
  | .loadStart =>
    if decide (0 < t.soft) && decide (t.soft < t.size) then { (tgSignal t) with parked := t.parked + 1 } else t

def tgRun (v : SH.Gen.C23.TrimWait) (t : TG) (evs : List TEv) : TG := evs.foldl (tgStep v) t

/-- nobody is left to wake anybody: the trim goroutine sleeps and loads are parked waiting for it -/
def tgDeadlock (t : TG) : Bool := t.asleep && decide (0 < t.parked)

/-- limits as `setLimits` leaves them (no hard limit ⇒ no soft limit) and the two facts the fragment maintains -/
def TGInv (t : TG) : Prop :=
  (0 < t.soft → t.maxSize ≠ 0) ∧ (0 < t.parked → 0 < t.soft ∧ t.soft < t.size) ∧
  (t.asleep = true → trimHasWork t.maxSize t.soft t.size t.size = false)

theorem tgStep_inv (t : TG) (ev : TEv) (h : TGInv t) : TGInv (tgStep SH.Gen.C23.trimWait t ev) := by
  have hv : SH.Gen.C23.trimWait = .softLimitOrEmpty := by decide
  obtain ⟨h1, h2, h3⟩ := h
  rw [hv]
  cases ev with
  | evict to =>
    simp only [tgStep]
    split
    · rename_i hc
      simp only [Bool.and_eq_true, Bool.not_eq_true', decide_eq_true_eq] at hc
      refine ⟨h1, by intro hp; simp at hp, ?_⟩
      intro ha; simp only [] at ha; rw [hc.1.1.1] at ha; cases ha
    · exact ⟨h1, h2, h3⟩
  | decide =>
    simp only [tgStep]
    split
    · exact ⟨h1, h2, h3⟩
    · refine ⟨h1, h2, ?_⟩
      intro ha
      simp only [trimSleeps, trimHasWork, Bool.or_eq_true, beq_iff_eq, decide_eq_true_eq, Bool.and_eq_false_imp,
        Bool.and_eq_true, bne_iff_ne, ne_eq, decide_eq_false_iff_not] at ha ⊢
      omega
  | publish n =>
    simp only [tgStep]
    split
    · refine ⟨h1, ?_, by intro ha; simp [tgSignal] at ha⟩
      intro hp; have := h2 hp; simp only [tgSignal]; omega
    · rename_i hc
      refine ⟨h1, ?_, ?_⟩
      · intro hp; have := h2 hp; simp only []; omega
      · intro ha
        simp only [Bool.and_eq_true, bne_iff_ne, ne_eq, decide_eq_true_eq, not_and, Int.not_lt] at hc
        simp only [trimHasWork, Bool.and_eq_false_imp, Bool.and_eq_true, bne_iff_ne, ne_eq, decide_eq_true_eq,
          decide_eq_false_iff_not]
        intro hm; have := hc hm.1; omega
  | loadStart =>
    simp only [tgStep]
    split
    · rename_i hc
      simp only [Bool.and_eq_true, decide_eq_true_eq] at hc
      exact ⟨h1, fun _ => hc, by intro ha; simp [tgSignal] at ha⟩
    · exact ⟨h1, h2, h3⟩

/-- **With the code in /repo** (sleep condition read from the source) the trim goroutine never sleeps while loads are
    parked waiting for it, whatever the order of evictions, sleep decisions, publishing loads and starting loads. -/
theorem trim_no_deadlock (t : TG) (evs : List TEv) (h : TGInv t) : tgDeadlock (tgRun SH.Gen.C23.trimWait t evs) = false := by
  have hrun : TGInv (tgRun SH.Gen.C23.trimWait t evs) := by
    unfold tgRun
    induction evs generalizing t with
    | nil => exact h
    | cons ev evs ih => exact ih _ (tgStep_inv t ev h)
  obtain ⟨h1, h2, h3⟩ := hrun
  cases ha : (tgRun SH.Gen.C23.trimWait t evs).asleep with
  | false => simp [tgDeadlock, ha]
  | true =>
    by_cases hp : 0 < (tgRun SH.Gen.C23.trimWait t evs).parked
    · have w := h3 ha
      have := h2 hp
      have := h1 this.1
      simp only [trimHasWork, Bool.and_eq_false_imp, Bool.and_eq_true, bne_iff_ne, ne_eq, decide_eq_true_eq,
        decide_eq_false_iff_not] at w
      omega
    · simp [tgDeadlock, hp]

/-- the interleaving observed on the real cache (limits 10/8): the trim goroutine has just evicted down to 7 and is
    still busy; a load publishes 2 bytes (signal lost), a new load signals (lost) and parks; the goroutine reaches its
    sleep decision.  Before the fix (`size <= maxSize`) it sleeps: deadlock.  With the fix it goes round again. -/
def tgWitness : List TEv := [.evict 7, .publish 2, .loadStart, .decide]
def tg0 : TG := { size := 9, maxSize := 10, soft := 8, asleep := false, parked := 0 }
example : tgDeadlock (tgRun .hardLimit tg0 tgWitness) = true := by decide
example : tgDeadlock (tgRun .softLimitOrEmpty tg0 tgWitness) = false := by decide
example : TGInv tg0 := by simp [TGInv, tg0, trimHasWork]


/-- the request's own range: for a request `[f, …)` whose start is a multiple of the step (`f = m·step`, as every
    caller passes), buffer slot `ls + i` — returned slot `i` — is the slot of time `f + i·step`.  Together with
    `placement_returned`: returned slot `i` holds only rows of time `from + i·step` of the request's cache key. -/
theorem returned_slot_time (cfg : Cfg) (wf : SH.TsCache.Place.WF cfg) (hs : 0 < cfg.step) (hK : 0 < cfg.K) (m : Int) (i : Nat)
    (hm : 0 ≤ m) :
    chunkStartOf cfg (m * cfg.step * nsec) / nsec +
        (((((m * cfg.step * nsec - chunkStartOf cfg (m * cfg.step * nsec)) / (cfg.step * nsec)).toNat + i : Nat)) : Int) * cfg.step
      = m * cfg.step + (i : Int) * cfg.step :=
  SH.TsCache.Place.request_slot_time cfg wf hs hK m i hm

example : (0 : Int) < cfg0.step ∧ 0 < cfg0.K := by decide

/-! ## No orphan awaiter: message bookkeeping over whole traces (SH.Lemmas.TsCacheWait)

  For every sequence of operations (fresh request ids, well-formed shard) — including invalidations, trimming,
  eviction, reset and limit changes between the start and the end of a load — the state satisfies:
    W1  an unfinished request's `waitN` is exactly the number of messages still owed to it: one for its own load in
        flight plus one per awaiter it has registered on any chunk (attached or detached); a finished request is
        owed nothing.  `loadChunks` empties the awaiter list of every chunk it publishes and sends one message per
        awaiter (ok or error), which is exactly what keeps W1 — every awaiter gets exactly one message;
    W2  a chunk that has awaiters is in the chunk list of a load that is in flight (so that message will be sent);
    W5  the `loading` counter of an attached chunk is the number of in-flight loads covering it (a chunk can be
        loaded by two requests at once — the adopt rule);
  hence `no_request_waits_forever`: whenever no load is in flight, every request has returned. -/

open SH.TsCache.Wait in
/-- **W1 / W2 / W5** after any sequence of operations -/
theorem no_orphan_awaiter (cfg : Cfg) (wf : SH.TsCache.Place.WF cfg) (ops : List Op)
    (hf : SH.TsCache.Place.FreshIds (init cfg) ops) :
    (∀ l ∈ (run (init cfg) ops).loaders,
      (l.finished = false → (l.waitN : Int) = (if l.loadPending then 1 else 0) + awCount l.id (run (init cfg) ops).chunks ∧ l.waitN ≠ 0) ∧
      (l.finished = true → awCount l.id (run (init cfg) ops).chunks = 0 ∧ l.loadPending = false)) ∧
    (∀ cid, (getChunk (run (init cfg) ops).chunks cid).awaiters ≠ [] →
      ∃ l ∈ (run (init cfg) ops).loaders, l.loadPending = true ∧ ∃ v ∈ l.chunks, v.cid = cid) ∧
    (∀ cid, (getChunk (run (init cfg) ops).chunks cid).detached = false →
      (getChunk (run (init cfg) ops).chunks cid).loading = cover cid (run (init cfg) ops).loaders) := by
  have h := (run_B ops (init cfg) wf hf (Both_init cfg)).2
  exact ⟨h.w1, fun cid hne => cover_pos cid _ (h.w2 cid hne), h.w5⟩

open SH.TsCache.Wait in
/-- **No request waits forever** (provided loads finish): in any reachable state in which no load is in flight,
    every request has returned. -/
theorem no_request_waits_forever (cfg : Cfg) (wf : SH.TsCache.Place.WF cfg) (ops : List Op)
    (hf : SH.TsCache.Place.FreshIds (init cfg) ops)
    (hidle : ∀ l ∈ (run (init cfg) ops).loaders, l.loadPending = false) :
    ∀ l ∈ (run (init cfg) ops).loaders, l.finished = true :=
  idle_all_finished _ (run_B ops (init cfg) wf hf (Both_init cfg)).2 hidle

/-- non-vacuity: request 2 attaches to the load of request 1 (one awaiter, `waitN = 1`, no own load); the slot is
    invalidated and the bucket evicted while the load is in flight; when the load finishes both have returned -/
def ops1 : List Op :=
  [ .get 1 1 0 false 100 102 200000000000, .get 2 1 0 false 100 101 200000000001,
    .inv [100] 200000000002, .rmBucket 1 200000000003 ]
example : SH.TsCache.Place.FreshIds (init cfg0) (ops1 ++ [.fin 1 true 1 200000000004]) := by decide
example : ((run (init cfg0) ops1).loaders.map (fun l => (l.id, l.waitN, l.loadPending, l.finished,
      SH.TsCache.Wait.awCount l.id (run (init cfg0) ops1).chunks))) =
    [(1, 1, true, false, 0), (2, 1, false, false, 1)] := by decide
example : ((run (init cfg0) (ops1 ++ [.fin 1 true 1 200000000004])).loaders.map (fun l => (l.id, l.finished, l.gotErr,
      l.data.map (fun x => x.map (·.t))))) =
    [(1, true, false, [some 100, some 101]), (2, true, false, [some 100, none])] := by decide

/-! ## A successful request has every slot of its range filled (SH.Lemmas.TsCacheFill)

  Coverage invariant over whole traces: for a request that has seen no error, every index of `[ls, le)` is filled, or
  lies in a chunk the request is loading itself, or in the range of an awaiter it registered; cached chunk data always
  has `K` filled slots; buffers are long enough for what is written into them.  With `no_orphan_awaiter` (a finished
  request has no load in flight and no awaiter left) every slot of a successful request is filled, and with
  `placement` it is the right cell.  Hypotheses (`GoodOps`, decidable): request ids are fresh and every requested
  range fits the buffer `init` allocates (`ReqFits`: `ls + lodSize ≤ chunkCount·K`, a property of `(cfg, from, to)`
  alone); `request_complete_le` replaces it by `from ≤ to` (`reqFits_of_le`: the ceiling in `chunkCount`). -/

theorem goodOps_fresh (ops : List Op) (s : St) (h : SH.TsCache.Fill.GoodOps s ops) : SH.TsCache.Place.FreshIds s ops := by
  induction ops generalizing s with
  | nil => trivial
  | cons op ops ih => exact ⟨h.1.1, ih _ h.2⟩

/-- **request_complete** (C23: "returns, for each slot of the requested range, exactly the rows the storage produced
    for that slot's time"): after any sequence of good operations, every slot `i ∈ [ls, le)` of a request that returned
    without error is filled, and holds the cell of its own slot time and of the request's cache key. -/
theorem request_complete (cfg : Cfg) (wf : SH.TsCache.Place.WF cfg) (ops : List Op)
    (hg : SH.TsCache.Fill.GoodOps (init cfg) ops) :
    ∀ l ∈ (run (init cfg) ops).loaders, l.finished = true → l.gotErr = false →
      ∀ i, l.ls ≤ i → i < l.le →
        ∃ c, l.data[i]? = some (some c) ∧ c.t = l.timeStart / nsec + (i : Int) * cfg.step ∧ c.key = l.key := by
  intro l hl hf he i h1 h2
  obtain ⟨c, hc⟩ := SH.TsCache.Fill.complete_all cfg wf ops hg l hl hf he i h1 h2
  exact ⟨c, hc, placement cfg wf ops (goodOps_fresh ops _ hg) l hl i c hc⟩

/-- the same with the hypotheses one would state: fresh ids, `from ≤ to` for every request, a shard with positive
    step and chunk size (that the range then fits the buffer is `SH.TsCache.Fill.reqFits_of_le`) -/
theorem request_complete_le (cfg : Cfg) (wf : SH.TsCache.Place.WF cfg) (hs : 0 < cfg.step) (hK : 0 < cfg.K) (ops : List Op)
    (hn : SH.TsCache.Fill.NiceOps (init cfg) ops) :
    ∀ l ∈ (run (init cfg) ops).loaders, l.finished = true → l.gotErr = false →
      ∀ i, l.ls ≤ i → i < l.le →
        ∃ c, l.data[i]? = some (some c) ∧ c.t = l.timeStart / nsec + (i : Int) * cfg.step ∧ c.key = l.key :=
  request_complete cfg wf ops (SH.TsCache.Fill.nice_good ops (init cfg) wf hs hK hn)

example : SH.TsCache.Fill.NiceOps (init cfg0) ops0 := by decide

/-- non-vacuity: both example traces are good, and their finished requests have their whole range filled -/
example : SH.TsCache.Fill.GoodOps (init cfg0) ops0 := by decide
example : SH.TsCache.Fill.GoodOps (init cfg0) (ops1 ++ [.fin 1 true 1 200000000004]) := by decide
example : ((run (init cfg0) (ops1 ++ [.fin 1 true 1 200000000004])).loaders.map (fun l => (l.id, l.finished, l.gotErr,
      (slice l.data l.ls l.le).map (fun x => x.map (·.t))))) =
    [(1, true, false, [some 100, some 101]), (2, true, false, [some 100])] := by decide

/-! ## Invalidation at chunk granularity: a second that is the first second of a chunk

  `cache2.invalidate` turns the sorted batch of seconds into chunk starts; it moves on to the next chunk when
  `end <= t` (chunks are half-open `[start, end)`).  `InvCmp.lt` is the mutation `end < t` (seeded change C23-r3-1):
  a second exactly on a chunk boundary that follows a second of the previous chunk is then attributed to the
  previous chunk and its own chunk is never marked. -/

inductive InvCmp | le | lt
deriving DecidableEq, Repr

def nextChunk (v : InvCmp) (stop t : Int) : Bool :=
  match v with
  | .le => decide (stop ≤ t)
  | .lt => decide (stop < t)

def invStartsV (v : InvCmp) (cfg : Cfg) : List Int → Option Int → List Int
  | [], _ => []
  | t :: ts, none => let st := chunkStartOf cfg (t * nsec); st :: invStartsV v cfg ts (some (st + cfg.dur))
  | t :: ts, some stop =>
    if nextChunk v stop (t * nsec) then
      let st := chunkStartOf cfg (t * nsec); st :: invStartsV v cfg ts (some (st + cfg.dur))
    else invStartsV v cfg ts (some stop)

/-- the model's `invStarts` is the `<=` variant (what /repo does; the correspondence pins it) -/
theorem invStarts_is_le (cfg : Cfg) (ts : List Int) (o : Option Int) : invStartsV .le cfg ts o = invStarts cfg ts o := by
  induction ts generalizing o with
  | nil => cases o <;> rfl
  | cons t ts ih =>
    cases o with
    | none => simp only [invStartsV, invStarts, ih]
    | some stop =>
      simp only [invStartsV, invStarts, nextChunk, decide_eq_true_eq]
      split <;> simp only [ih]

/-- a second that starts a chunk (`t·nsec = end` of the chunk being processed) opens that chunk -/
theorem boundary_second_opens_chunk (cfg : Cfg) (t : Int) (ts : List Int) (stop : Int) (h : stop = t * nsec) :
    chunkStartOf cfg (t * nsec) ∈ invStarts cfg (t :: ts) (some stop) := by
  simp [invStarts, h]

/-- cfg0: chunks of 2 s. Seconds 101 (chunk [100,102)) and 102 (first second of chunk [102,104)):
    the code marks both chunks, the mutation only the first -/
example : invStartsV .le cfg0 [101, 102] none = [100000000000, 102000000000] := by decide
example : invStartsV .lt cfg0 [101, 102] none = [100000000000] := by decide

/-- on whole states: both chunks cached, invalidate [101, 102], then a request for [102, 104):
    with the code the chunk is reloaded, under the mutation it would still be marked valid -/
def opsB : List Op :=
  [ .get 1 1 0 false 100 104 200000000000, .fin 1 true 1 200000000001, .inv [101, 102] 200000000002 ]
example : ((run (init cfg0) opsB).chunks.map (fun c => (c.start / nsec, c.invAt))) =
    [(100, 200000000002), (102, 200000000002)] := by decide


/-! ## Publishing a load overwrites every slot of the chunk, empty ones included

  The storage may hold no rows for a slot at some version (`rowsOf … = 0`): in Go that slot of the loader's buffer is
  an empty slice.  `loadChunks` stores `chunk.data[i] = append(chunk.data[i][:0], chunkData[i]...)` for EVERY `i`, so a
  slot that had rows at the previous load and has none now becomes empty.  `StoreV.skipEmpty` is the mutation "skip
  slots the load returned empty" (seeded change C23-r4-1): the chunk keeps the rows of the earlier load. -/

inductive StoreV | all | skipEmpty
deriving DecidableEq, Repr

/-- the slot holds no rows (never written, or written by a load that got zero rows for it) -/
def emptySlot (cfg : Cfg) : Slot → Bool
  | none => true
  | some c => rowsOf cfg c.t c.ver == 0

/-- the per-slot store loop of `loadChunks` (`old` = the chunk's row buffers, `new` = the loader's buffer) -/
def storeSlots (v : StoreV) (cfg : Cfg) : List Slot → List Slot → List Slot
  | _, [] => []
  | old, n :: ns =>
    (match v with
      | .all => n
      | .skipEmpty => if emptySlot cfg n then old.head?.getD none else n) :: storeSlots v cfg old.tail ns

theorem storeSlots_all (cfg : Cfg) (old new : List Slot) : storeSlots .all cfg old new = new := by
  induction new generalizing old with
  | nil => rfl
  | cons n ns ih => simp only [storeSlots, ih]

/-- **publish_overwrites_all_slots**: after a successful load the cached data of an attached chunk is exactly what the
    load returned for every slot — whatever the chunk held before, and also where the load returned no rows -/
theorem publish_overwrites_all_slots (cfg : Cfg) (cd : List Slot) (bytes : Int) (c : Chunk) (h : c.detached = false) :
    (publish true cd bytes c).data = some (storeSlots .all cfg (c.data.getD []) cd) ∧
    (publish true cd bytes c).data = some cd := by
  rw [storeSlots_all]
  simp [publish, h]

/-- slot time 100 (cfg0): two rows at storage version 1, none at version 2.  The code stores the empty answer of the
    reload; the mutation keeps the rows of version 1, which a later cache hit would return as fresh -/
def cellV (ver load : Nat) : Slot := some { t := 100, key := 1, ver := ver, load := load, fin := load }
example : rowsOf cfg0 100 1 = 2 ∧ rowsOf cfg0 100 2 = 0 := by decide
example : storeSlots .all cfg0 [cellV 1 1] [cellV 2 2] = [cellV 2 2] := by decide
example : storeSlots .skipEmpty cfg0 [cellV 1 1] [cellV 2 2] = [cellV 1 1] := by decide

/-! ## Waiters parked at a memory limit and `setLimits` (the D2b fragment)

  State: cache size, limits, whether the trim goroutine sleeps, loads parked in `tryNotExceedMemorySoftLimitInflight`
  and requests parked in `tryNotExceedMemoryHardLimit`.  A broadcast of `allocCond` makes every parked waiter
  re-evaluate its loop condition.  `SetLimV.both` is `setLimits` as in /repo (signal trim if over the soft limit AND
  broadcast if there is no hard limit or the size is below it); `SetLimV.elseBroadcast` is the mutation that
  broadcasts only in the `else` of the trim branch (seeded change C23-r4-2). -/

structure TL where
  size : Int
  maxSize : Int
  soft : Int
  asleep : Bool
  parkedSoft : Nat
  parkedHard : Nat
deriving DecidableEq, Repr

inductive SetLimV | both | elseBroadcast
deriving DecidableEq, Repr

inductive LEv
  | getStart                 -- a request reaches tryNotExceedMemoryHardLimit
  | loadStart                -- a load calls updateInflightApprox(id, 0)
  | setLimits (m so : Int)
  | evict (to : Int)         -- busy trim goroutine evicts down to `to`, then updateRuntimeInfoUnlocked
  | decide                   -- busy trim goroutine decides whether to sleep
deriving DecidableEq, Repr

/-- loop condition of tryNotExceedMemorySoftLimitInflight (no inflight bytes in this fragment) -/
def softBinds (t : TL) : Bool := t.maxSize != 0 && decide (t.soft < t.size)
/-- loop condition of tryNotExceedMemoryHardLimit -/
def hardBinds (t : TL) : Bool := t.maxSize != 0 && decide (0 < t.size) && decide (t.maxSize < t.size)

def tlBroadcast (t : TL) : TL :=
  { t with parkedSoft := if softBinds t then t.parkedSoft else 0, parkedHard := if hardBinds t then t.parkedHard else 0 }

def tlSignal (t : TL) : TL := { t with asleep := false }

def tlSetLimits (v : SetLimV) (t : TL) (m so : Int) : TL :=
  let t1 := { t with maxSize := normMax m, soft := normSoft m so }
  if t.maxSize == t1.maxSize && t.soft == t1.soft then t else
  match v with
  | .both =>
    let t2 := if t1.soft < t1.size then tlSignal t1 else t1
    if t2.maxSize == 0 || decide (t2.size ≤ t2.maxSize) then tlBroadcast t2 else t2
  | .elseBroadcast =>
    if t1.soft < t1.size then tlSignal t1
    else if t1.maxSize == 0 || decide (t1.size ≤ t1.maxSize) then tlBroadcast t1 else t1

def tlStep (v : SetLimV) (t : TL) : LEv → TL
  | .getStart => if hardBinds t then { t with parkedHard := t.parkedHard + 1 } else t
  | .loadStart =>
    if decide (0 < t.soft) && decide (t.soft < t.size) then
      let t1 := tlSignal t
      if softBinds t1 then { t1 with parkedSoft := t1.parkedSoft + 1 } else t1
    else t
  | .setLimits m so => tlSetLimits v t m so
  | .evict to =>
    if !t.asleep && decide (t.soft < t.size) && decide (to ≤ t.soft) && decide (0 ≤ to) then
      let t1 := { t with size := to }
      if t1.maxSize != 0 then
        let t2 := if t1.soft < t1.size then tlSignal t1 else t1
        if decide (t2.size ≤ t2.maxSize) || decide (t2.size ≤ 0) then tlBroadcast t2 else t2
      else t1
    else t
  | .decide => if t.asleep then t else { t with asleep := trimSleeps .softLimitOrEmpty t.maxSize t.soft t.size t.size }

def tlRun (v : SetLimV) (t : TL) (evs : List LEv) : TL := evs.foldl (tlStep v) t

/-- limits as `setLimits` leaves them, and: whoever is parked, its limit still binds -/
def TLInv (t : TL) : Prop :=
  (t.maxSize = 0 → t.soft = 0) ∧ (t.maxSize ≠ 0 → 0 < t.maxSize ∧ 0 ≤ t.soft ∧ t.soft ≤ t.maxSize) ∧
  (0 < t.parkedSoft → softBinds t = true) ∧ (0 < t.parkedHard → hardBinds t = true)

theorem tlBroadcast_inv (t : TL) (h1 : t.maxSize = 0 → t.soft = 0)
    (h2 : t.maxSize ≠ 0 → 0 < t.maxSize ∧ 0 ≤ t.soft ∧ t.soft ≤ t.maxSize) : TLInv (tlBroadcast t) := by
  refine ⟨h1, h2, ?_, ?_⟩
  · intro hp
    cases hb : softBinds t with
    | true => simpa [tlBroadcast, softBinds] using hb
    | false => simp [tlBroadcast, hb] at hp
  · intro hp
    cases hb : hardBinds t with
    | true => simpa [tlBroadcast, hardBinds] using hb
    | false => simp [tlBroadcast, hb] at hp


theorem norm_limits (m so : Int) :
    (normMax m = 0 → normSoft m so = 0) ∧ (normMax m ≠ 0 → 0 < normMax m ∧ 0 ≤ normSoft m so ∧ normSoft m so ≤ normMax m) := by
  unfold normMax normSoft
  by_cases hm : m ≤ 0
  · simp [hm]
  · simp only [hm, if_false]
    refine ⟨fun h => by omega, fun _ => ?_⟩
    split
    · omega
    · rename_i h; simp only [Bool.or_eq_true, decide_eq_true_eq, not_or, Int.not_le] at h; omega

theorem tlSetLimits_inv (t : TL) (m so : Int) (h : TLInv t) : TLInv (tlSetLimits .both t m so) := by
  obtain ⟨n1, n2⟩ := norm_limits m so
  unfold tlSetLimits
  simp only []
  split
  · exact h
  · have keep : ∀ t2 : TL, t2.maxSize = normMax m → t2.soft = normSoft m so → t2.size = t.size →
        t2.parkedSoft = t.parkedSoft → t2.parkedHard = t.parkedHard →
        TLInv (if (t2.maxSize == 0 || decide (t2.size ≤ t2.maxSize)) = true then tlBroadcast t2 else t2) := by
      intro t2 e1 e2 e3 e4 e5
      have l1 : t2.maxSize = 0 → t2.soft = 0 := by rw [e1, e2]; exact n1
      have l2 : t2.maxSize ≠ 0 → 0 < t2.maxSize ∧ 0 ≤ t2.soft ∧ t2.soft ≤ t2.maxSize := by rw [e1, e2]; exact n2
      split
      · exact tlBroadcast_inv t2 l1 l2
      · rename_i hc
        simp only [Bool.or_eq_true, beq_iff_eq, decide_eq_true_eq, not_or, Int.not_le] at hc
        obtain ⟨q1, q2, q3⟩ := l2 hc.1
        refine ⟨l1, l2, fun _ => ?_, fun _ => ?_⟩
        · simp only [softBinds, Bool.and_eq_true, bne_iff_ne, ne_eq, decide_eq_true_eq]; exact ⟨hc.1, by omega⟩
        · simp only [hardBinds, Bool.and_eq_true, bne_iff_ne, ne_eq, decide_eq_true_eq]; exact ⟨⟨hc.1, by omega⟩, hc.2⟩
    split
    · exact keep _ rfl rfl rfl rfl rfl
    · exact keep _ rfl rfl rfl rfl rfl

theorem tlStep_inv (t : TL) (ev : LEv) (h : TLInv t) : TLInv (tlStep .both t ev) := by
  obtain ⟨h1, h2, h3, h4⟩ := h
  cases ev with
  | getStart =>
    simp only [tlStep]
    split
    · rename_i hb
      exact ⟨h1, h2, h3, fun _ => hb⟩
    · exact ⟨h1, h2, h3, h4⟩
  | loadStart =>
    simp only [tlStep]
    split
    · split
      · rename_i hb
        exact ⟨h1, h2, fun _ => hb, h4⟩
      · exact ⟨h1, h2, h3, h4⟩
    · exact ⟨h1, h2, h3, h4⟩
  | setLimits m so => exact tlSetLimits_inv t m so ⟨h1, h2, h3, h4⟩
  | evict to =>
    simp only [tlStep]
    split
    · rename_i hc
      simp only [Bool.and_eq_true, Bool.not_eq_true', decide_eq_true_eq] at hc
      split
      · rename_i hm
        have hm' : t.maxSize ≠ 0 := by simpa using hm
        obtain ⟨q1, q2, q3⟩ := h2 hm'
        have hbc : ∀ t2 : TL, t2.maxSize = t.maxSize → t2.soft = t.soft → t2.size = to →
            TLInv (if (decide (t2.size ≤ t2.maxSize) || decide (t2.size ≤ 0)) = true then tlBroadcast t2 else t2) := by
          intro t2 e1 e2 e3
          have : (decide (t2.size ≤ t2.maxSize) || decide (t2.size ≤ 0)) = true := by
            simp only [Bool.or_eq_true, decide_eq_true_eq]; left; rw [e1, e3]; omega
          simp only [this, if_true]
          exact tlBroadcast_inv t2 (by rw [e1, e2]; exact h1) (by rw [e1, e2]; exact h2)
        split
        · exact hbc _ rfl rfl rfl
        · exact hbc _ rfl rfl rfl
      · rename_i hm
        have hm' : t.maxSize = 0 := by simpa using hm
        refine ⟨h1, h2, fun hp => ?_, fun hp => ?_⟩
        · have := h3 hp; simp [softBinds, hm'] at this
        · have := h4 hp; simp [hardBinds, hm'] at this
    · exact ⟨h1, h2, h3, h4⟩
  | decide =>
    simp only [tlStep]
    split
    · exact ⟨h1, h2, h3, h4⟩
    · exact ⟨h1, h2, h3, h4⟩

/-- **no_parked_waiter_without_limit** (the code as it is): after any sequence of requests, loads, limit changes,
    evictions and sleep decisions nobody is parked at a limit that does not bind any more — in particular nobody is
    parked once the limits are switched off -/
theorem no_parked_waiter_without_limit (t : TL) (evs : List LEv) (h : TLInv t) :
    (0 < (tlRun .both t evs).parkedSoft → softBinds (tlRun .both t evs) = true) ∧
    (0 < (tlRun .both t evs).parkedHard → hardBinds (tlRun .both t evs) = true) ∧
    ((tlRun .both t evs).maxSize = 0 → (tlRun .both t evs).parkedSoft = 0 ∧ (tlRun .both t evs).parkedHard = 0) := by
  have hrun : TLInv (tlRun .both t evs) := by
    unfold tlRun
    induction evs generalizing t with
    | nil => exact h
    | cons ev evs ih => exact ih _ (tlStep_inv t ev h)
  obtain ⟨_, _, h3, h4⟩ := hrun
  refine ⟨h3, h4, fun hm => ⟨?_, ?_⟩⟩
  · cases hp : (tlRun .both t evs).parkedSoft with
    | zero => rfl
    | succ k => have := h3 (by omega); simp [softBinds, hm] at this
  · cases hp : (tlRun .both t evs).parkedHard with
    | zero => rfl
    | succ k => have := h4 (by omega); simp [hardBinds, hm] at this

/-- the seeded interleaving: hard limit 5 with 9 bytes cached, a request parks on it, the limits are switched off before
    the trim goroutine has released anything, then trimming empties the cache.  With the code the waiter is released by
    `setLimits`; under the mutation nobody ever wakes it -/
def tl0 : TL := { size := 9, maxSize := 0, soft := 0, asleep := false, parkedSoft := 0, parkedHard := 0 }
def tlWitness : List LEv := [.setLimits 5 0, .getStart, .setLimits 0 0, .evict 0, .decide]
example : TLInv tl0 := by simp [TLInv, tl0]
example : (tlRun .both tl0 tlWitness).parkedHard = 0 := by decide
example : (tlRun .elseBroadcast tl0 tlWitness).parkedHard = 1 ∧ (tlRun .elseBroadcast tl0 tlWitness).maxSize = 0 := by decide


/-! ## The shard's bucket list and the invalidate iterator against eviction

  `cache2Shard.invalidate` walks the bucket list with `shard.invalidateIter` (the shard lock is released while a bucket
  is invalidated); the trim goroutine may evict any bucket in between (`removeBucketUnlocked`).  Buckets are their
  keys; `iter` is the bucket the walk visits next.  `UnlinkV.fixIterFirst` is the code (an iterator pointing at the
  evicted bucket is moved to its successor BEFORE the bucket is unlinked), `UnlinkV.unlinkFirst` the mutation (seeded
  change C23-r5-1: `remove` first, which sets `b.next = nil`, so the iterator becomes nil). -/

/-- `bucketL.next(b)` while `b` is linked -/
def nextOf (b : Nat) : List Nat → Option Nat
  | [] => none
  | x :: xs => if x = b then xs.head? else nextOf b xs

inductive UnlinkV | fixIterFirst | unlinkFirst
deriving DecidableEq, Repr

structure BW where
  list : List Nat
  iter : Option Nat
  visited : List Nat
deriving DecidableEq, Repr

inductive WEv | next | remove (b : Nat)
deriving DecidableEq, Repr

/-- `invalidateIteratorStart`: the first bucket is visited, the iterator points at the second -/
def bwStart : List Nat → BW
  | [] => ⟨[], none, []⟩
  | b :: bs => ⟨b :: bs, bs.head?, [b]⟩

def bwStep (v : UnlinkV) (w : BW) : WEv → BW
  | .next =>
    match w.iter with
    | none => w
    | some b => { w with iter := nextOf b w.list, visited := w.visited ++ [b] }
  | .remove x =>
    match v with
    | .fixIterFirst => { w with iter := if w.iter = some x then nextOf x w.list else w.iter, list := w.list.erase x }
    | .unlinkFirst => { w with iter := if w.iter = some x then none else w.iter, list := w.list.erase x }

def bwRun (v : UnlinkV) (w : BW) (evs : List WEv) : BW := evs.foldl (bwStep v) w

theorem nextOf_split (b : Nat) (pre post : List Nat) (h : (pre ++ b :: post).Nodup) :
    nextOf b (pre ++ b :: post) = post.head? := by
  induction pre with
  | nil => simp [nextOf]
  | cons x pre ih =>
    have hn := List.nodup_cons.mp h
    have hx : x ≠ b := by
      intro e; apply hn.1; rw [e]; simp
    simp only [List.cons_append, nextOf, hx, if_false]
    exact ih hn.2

/-- invariant of a walk in progress: everything before the iterator has been visited -/
def BWInv (w : BW) : Prop :=
  w.list.Nodup ∧ ∃ pre post, w.list = pre ++ post ∧ (∀ b ∈ pre, b ∈ w.visited) ∧ w.iter = post.head?

theorem bwStart_inv (l : List Nat) (h : l.Nodup) : BWInv (bwStart l) := by
  cases l with
  | nil => exact ⟨List.nodup_nil, [], [], rfl, (fun _ hb => by cases hb), rfl⟩
  | cons b bs => exact ⟨h, [b], bs, rfl, (fun x hx => by simpa [bwStart] using hx), rfl⟩

theorem bwStep_inv (w : BW) (ev : WEv) (h : BWInv w) : BWInv (bwStep .fixIterFirst w ev) := by
  obtain ⟨hn, pre, post, hl, hv, hi⟩ := h
  cases ev with
  | next =>
    simp only [bwStep]
    cases post with
    | nil =>
      simp only [List.head?_nil] at hi
      simp only [hi]
      exact ⟨hn, pre, [], hl, hv, hi⟩
    | cons b post' =>
      simp only [List.head?_cons] at hi
      simp only [hi]
      refine ⟨hn, pre ++ [b], post', by rw [hl]; simp, ?_, ?_⟩
      · intro x hx
        simp only [List.mem_append, List.mem_singleton] at hx ⊢
        rcases hx with hx | hx
        · exact Or.inl (hv x hx)
        · exact Or.inr hx
      · simp only []
        rw [hl] at hn ⊢
        exact nextOf_split b pre post' hn
  | remove x =>
    simp only [bwStep]
    refine ⟨hn.erase x, ?_⟩
    by_cases hx : x ∈ pre
    · refine ⟨pre.erase x, post, by rw [hl, List.erase_append_left _ hx], fun b hb => hv b (List.mem_of_mem_erase hb), ?_⟩
      have hne : w.iter ≠ some x := by
        intro e
        rw [e] at hi
        cases post with
        | nil => simp at hi
        | cons y post' =>
          simp only [List.head?_cons, Option.some.injEq] at hi
          subst hi
          rw [hl] at hn
          have := (List.nodup_append.mp hn).2.2 x hx x (by simp)
          exact this rfl
      simp only [hne, if_false]
      exact hi
    · cases post with
      | nil =>
        refine ⟨pre, [], by rw [hl, List.erase_append_right _ hx]; simp, hv, ?_⟩
        simp only [List.head?_nil] at hi
        simp [hi]
      | cons y post' =>
        simp only [List.head?_cons] at hi
        by_cases hy : y = x
        · subst hy
          refine ⟨pre, post', by rw [hl, List.erase_append_right _ hx]; simp, hv, ?_⟩
          simp only [hi, if_true]
          rw [hl] at hn ⊢
          exact nextOf_split y pre post' hn
        · refine ⟨pre, y :: post'.erase x, by rw [hl, List.erase_append_right _ hx]; simp [List.erase_cons, hy], hv, ?_⟩
          have : w.iter ≠ some x := by rw [hi]; simpa using hy
          simp only [this, if_false, List.head?_cons]
          exact hi

/-- **invalidate_walk_complete**: whatever buckets are evicted while an invalidation walk is in progress, when the walk
    ends (iterator nil) every bucket that is still in the shard's list has been visited — no cached bucket is skipped -/
theorem invalidate_walk_complete (l : List Nat) (hl : l.Nodup) (evs : List WEv)
    (hend : (bwRun .fixIterFirst (bwStart l) evs).iter = none) :
    ∀ b ∈ (bwRun .fixIterFirst (bwStart l) evs).list, b ∈ (bwRun .fixIterFirst (bwStart l) evs).visited := by
  have hrun : ∀ (evs : List WEv) (w : BW), BWInv w → BWInv (bwRun .fixIterFirst w evs) := by
    intro evs
    induction evs with
    | nil => intro w h; exact h
    | cons ev evs ih => intro w h; exact ih _ (bwStep_inv w ev h)
  obtain ⟨_, pre, post, e, hv, hi⟩ := hrun evs _ (bwStart_inv l hl)
  rw [hend] at hi
  have : post = [] := by cases post with
    | nil => rfl
    | cons _ _ => simp at hi
  intro b hb
  rw [e, this, List.append_nil] at hb
  exact hv b hb

/-- three buckets; the walk has visited bucket 1 and its iterator points at bucket 2 when bucket 2 is evicted.
    The code goes on with bucket 3; under the mutation the walk ends and bucket 3 is never invalidated -/
example : (bwRun .fixIterFirst (bwStart [1, 2, 3]) [.remove 2, .next]) = ⟨[1, 3], none, [1, 3]⟩ := by decide
example : (bwRun .unlinkFirst (bwStart [1, 2, 3]) [.remove 2, .next]) = ⟨[1, 3], none, [1]⟩ := by decide


/-! ## Loads parked at the soft limit, in-flight bytes, and the three places that compare with the soft limit

  `eff = size + inflight` (effectiveSizeLocked).  Three sites decide "within the soft limit": the gate in
  `updateInflightApprox` (park only if `eff > soft`), the loop of `reduceMemoryUsage` / the sleep decision of `trim`
  (stop when `eff <= soft`), and the wait loop of `tryNotExceedMemorySoftLimitInflight`.  In /repo all three agree on
  `withinSoft eff soft := eff <= soft`.  `WaitCmp.ge` is the mutation of the wait loop alone (`>=`, seeded change
  C23-r5-2): a load woken when trimming landed exactly on the soft limit goes back to sleep, and so does the trimmer. -/

/-- the shared predicate: the effective size is within the soft limit -/
def withinSoft (eff soft : Int) : Bool := decide (eff ≤ soft)

inductive WaitCmp | gt | ge
deriving DecidableEq, Repr

structure TS where
  size : Int
  inflight : Int
  maxSize : Int
  soft : Int
  asleep : Bool
  parked : Nat           -- loads in tryNotExceedMemorySoftLimitInflight
deriving DecidableEq, Repr

def TS.eff (t : TS) : Int := t.size + t.inflight

/-- loop condition of tryNotExceedMemorySoftLimitInflight -/
def softWaits (v : WaitCmp) (t : TS) : Bool :=
  t.maxSize != 0 && (match v with
    | .gt => !withinSoft t.eff t.soft
    | .ge => decide (t.eff ≥ t.soft))

def tsBroadcast (v : WaitCmp) (t : TS) : TS := { t with parked := if softWaits v t then t.parked else 0 }

inductive SEv
  | loadStart              -- NewInflightReq + updateInflightApprox(id, 0)
  | addBytes (n : Nat)     -- updateInflightApprox(id, n): a running load accounts more bytes
  | loadFinish (n : Nat)   -- afterInflightLoadFinished of a load holding n bytes (removeReqLocked)
  | evict (to : Int)       -- busy trim goroutine evicts a bucket, then updateRuntimeInfoUnlocked
  | decide                 -- busy trim goroutine decides whether to sleep
deriving DecidableEq, Repr

def tsStep (v : WaitCmp) (t : TS) : SEv → TS
  | .loadStart =>
    if decide (0 < t.soft) && !withinSoft t.eff t.soft then           -- the gate
      let t1 := { t with asleep := false }                               -- trimCond.Signal
      if softWaits v t1 then { t1 with parked := t1.parked + 1 } else t1
    else t
  | .addBytes n => { t with inflight := t.inflight + n }
  | .loadFinish n =>
    if decide ((n : Int) ≤ t.inflight) then
      let t1 := { t with inflight := t.inflight - n }
      let t2 := if t1.maxSize == 0 || decide (t1.eff ≤ t1.maxSize) then tsBroadcast v t1 else t1
      if decide (0 < t2.soft) && !withinSoft t2.eff t2.soft then { t2 with asleep := false } else t2
    else t
  | .evict to =>
    if !t.asleep && t.maxSize != 0 && !withinSoft t.eff t.soft && decide (0 ≤ to) && decide (to < t.size) then
      let t1 := { t with size := to }
      let t2 := if !withinSoft t1.eff t1.soft then { t1 with asleep := false } else t1
      if decide (t2.eff ≤ t2.maxSize) || decide (t2.size ≤ 0) then tsBroadcast v t2 else t2
    else t
  | .decide =>
    if t.asleep then t else { t with asleep := t.maxSize == 0 || withinSoft t.eff t.soft || decide (t.size ≤ 0) }

def tsRun (v : WaitCmp) (t : TS) (evs : List SEv) : TS := evs.foldl (tsStep v) t

/-- limits as `setLimits` leaves them, and: a parked load is not within the soft limit -/
def TSInv (t : TS) : Prop :=
  (t.maxSize ≠ 0 → 0 ≤ t.soft ∧ t.soft ≤ t.maxSize) ∧ (0 < t.parked → t.maxSize ≠ 0 ∧ withinSoft t.eff t.soft = false)

theorem tsBroadcast_inv (t : TS) (h1 : t.maxSize ≠ 0 → 0 ≤ t.soft ∧ t.soft ≤ t.maxSize) : TSInv (tsBroadcast .gt t) := by
  refine ⟨h1, fun hp => ?_⟩
  cases hb : softWaits .gt t with
  | true =>
    simp only [softWaits, Bool.and_eq_true, bne_iff_ne, ne_eq, Bool.not_eq_true'] at hb
    exact ⟨hb.1, hb.2⟩
  | false => simp [tsBroadcast, hb] at hp

theorem tsStep_inv (t : TS) (ev : SEv) (h : TSInv t) : TSInv (tsStep .gt t ev) := by
  obtain ⟨h1, h2⟩ := h
  cases ev with
  | loadStart =>
    simp only [tsStep]
    split
    · split
      · rename_i hb
        simp only [softWaits, Bool.and_eq_true, bne_iff_ne, ne_eq, Bool.not_eq_true'] at hb
        exact ⟨h1, fun _ => ⟨hb.1, hb.2⟩⟩
      · exact ⟨h1, h2⟩
    · exact ⟨h1, h2⟩
  | addBytes n =>
    simp only [tsStep]
    refine ⟨h1, fun hp => ?_⟩
    obtain ⟨a, b⟩ := h2 hp
    refine ⟨a, ?_⟩
    have hb : ¬ (t.size + t.inflight ≤ t.soft) := of_decide_eq_false b
    exact decide_eq_false (p := t.size + (t.inflight + (n : Int)) ≤ t.soft) (by omega)
  | loadFinish n =>
    simp only [tsStep]
    split
    · have key : ∀ t2 : TS, TSInv t2 →
          TSInv (if (decide (0 < t2.soft) && !withinSoft t2.eff t2.soft) = true then { t2 with asleep := false } else t2) := by
        intro t2 h2'
        split
        · exact h2'
        · exact h2'
      apply key
      split
      · exact tsBroadcast_inv _ h1
      · rename_i hc
        simp only [Bool.or_eq_true, beq_iff_eq, decide_eq_true_eq, not_or, Int.not_le] at hc
        refine ⟨h1, fun hp => ⟨hc.1, ?_⟩⟩
        have := h1 hc.1
        simp only [withinSoft, decide_eq_false_iff_not, Int.not_le]
        omega
    · exact ⟨h1, h2⟩
  | evict to =>
    simp only [tsStep]
    split
    · rename_i hc
      simp only [Bool.and_eq_true, Bool.not_eq_true', bne_iff_ne, ne_eq, decide_eq_true_eq] at hc
      have hm := hc.1.1.1.2
      have key : ∀ t2 : TS, t2.maxSize = t.maxSize → t2.soft = t.soft → t2.parked = t.parked →
          TSInv (if (decide (t2.eff ≤ t2.maxSize) || decide (t2.size ≤ 0)) = true then tsBroadcast .gt t2 else t2) := by
        intro t2 e1 e2 e3
        have l1 : t2.maxSize ≠ 0 → 0 ≤ t2.soft ∧ t2.soft ≤ t2.maxSize := by rw [e1, e2]; exact h1
        split
        · exact tsBroadcast_inv t2 l1
        · rename_i hn
          simp only [Bool.or_eq_true, decide_eq_true_eq, not_or, Int.not_le] at hn
          refine ⟨l1, fun _ => ⟨by rw [e1]; exact hm, ?_⟩⟩
          have := l1 (by rw [e1]; exact hm)
          simp only [withinSoft, decide_eq_false_iff_not, Int.not_le]
          omega
      split
      · exact key _ rfl rfl rfl
      · exact key _ rfl rfl rfl
    · exact ⟨h1, h2⟩
  | decide =>
    simp only [tsStep]
    split
    · exact ⟨h1, h2⟩
    · exact ⟨h1, h2⟩

/-- **no_parked_waiter_within_limit** (the code as it is): whatever loads start, account bytes and finish and whatever
    the trim goroutine evicts, a load parked at the soft limit is never within the soft limit — so a broadcast after
    trimming reached the limit (also exactly) releases it -/
theorem no_parked_waiter_within_limit (t : TS) (evs : List SEv) (h : TSInv t) :
    0 < (tsRun .gt t evs).parked → withinSoft (tsRun .gt t evs).eff (tsRun .gt t evs).soft = false := by
  have hrun : TSInv (tsRun .gt t evs) := by
    unfold tsRun
    induction evs generalizing t with
    | nil => exact h
    | cons ev evs ih => exact ih _ (tsStep_inv t ev h)
  exact fun hp => (hrun.2 hp).2

/-- two buckets of 5 and 4 bytes, soft limit 4, hard limit 20: a load starts (over the soft limit: parks), the trim
    goroutine evicts the 5-byte bucket — the size lands exactly on the soft limit — and decides to sleep.
    With the code the load has been released; with `>=` in the wait loop it is parked for good while the trimmer sleeps -/
def ts0 : TS := { size := 9, inflight := 0, maxSize := 20, soft := 4, asleep := false, parked := 0 }
def tsWitness : List SEv := [.loadStart, .evict 4, .decide]
example : TSInv ts0 := by simp [TSInv, ts0]
example : tsRun .gt ts0 tsWitness = { size := 4, inflight := 0, maxSize := 20, soft := 4, asleep := true, parked := 0 } := by decide
example : tsRun .ge ts0 tsWitness = { size := 4, inflight := 0, maxSize := 20, soft := 4, asleep := true, parked := 1 } := by decide


/-! ## `invalidate` marks exactly the chunks whose start is in the batch's chunk starts -/

section InvExact
open SH.TsCache.Place SH.TsCache.Wait

theorem start_modAt_inv (now : Int) (tick i k : Nat) (cs : List Chunk) :
    (getChunk (modAt (invalidateChunk now tick) i cs) k).start = (getChunk cs k).start := by
  rcases getChunk_modAt (invalidateChunk now tick) i k cs with e | ⟨_, e⟩
  · rw [e]
  · rw [e]; rfl

/-- the merge walk of `cache2Bucket.invalidate`: over strictly increasing chunk starts `ts` and a bucket whose chunk
    list `is` is strictly increasing by start, exactly the chunks of the bucket whose start is in `ts` are marked -/
theorem invWalkF_exact (now : Int) (tick : Nat) (fuel : Nat) (ts : List Int) (is : List Nat) (cs : List Chunk)
    (hf : ts.length + is.length ≤ fuel) (hts : ts.Pairwise (· < ·))
    (his : is.Pairwise (fun a b => (getChunk cs a).start < (getChunk cs b).start)) (hv : ∀ i ∈ is, i < cs.length) (j : Nat) :
    getChunk (invWalkF now tick fuel ts is cs) j =
      if j ∈ is ∧ (getChunk cs j).start ∈ ts then invalidateChunk now tick (getChunk cs j) else getChunk cs j := by
  induction fuel generalizing ts is cs with
  | zero =>
    have h1 : ts = [] := List.eq_nil_of_length_eq_zero (by omega)
    subst h1
    simp [invWalkF]
  | succ n ih =>
    cases ts with
    | nil => simp [invWalkF]
    | cons t ts =>
      cases is with
      | nil => simp [invWalkF]
      | cons i is =>
        have hts' := List.pairwise_cons.mp hts
        have his' := List.pairwise_cons.mp his
        simp only [invWalkF]
        split
        · -- t < start i: t is the start of no chunk of the bucket
          rename_i hlt
          rw [ih ts (i :: is) cs (by simp at hf ⊢; omega) hts'.2 his hv]
          have hne : ∀ k, k ∈ i :: is → (getChunk cs k).start ≠ t := by
            intro k hk e
            simp only [List.mem_cons] at hk
            rcases hk with rfl | hk
            · omega
            · have := his'.1 k hk; omega
          by_cases hj : j ∈ i :: is
          · have := hne j hj
            simp only [hj, true_and, List.mem_cons, this, false_or]
          · simp only [hj, false_and, if_false]
        · split
          · -- start i < t: chunk i is not hit by any of the remaining starts
            rename_i hge hlt
            rw [ih (t :: ts) is cs (by simp at hf ⊢; omega) hts his'.2 (fun k hk => hv k (List.mem_cons_of_mem _ hk))]
            have hni : (getChunk cs i).start ∉ t :: ts := by
              intro hm
              simp only [List.mem_cons] at hm
              rcases hm with e | hm
              · omega
              · have := hts'.1 _ hm; omega
            by_cases hj : j = i
            · subst hj
              have hnot : j ∉ is := by
                intro hm; have := his'.1 j hm; omega
              simp only [hnot, false_and, if_false, List.mem_cons, true_or, true_and, hni]
            · simp only [List.mem_cons, hj, false_or]
          · -- equal: chunk i is marked
            rename_i hge hle
            have he : (getChunk cs i).start = t := by omega
            have his2 : is.Pairwise (fun a b => (getChunk (modAt (invalidateChunk now tick) i cs) a).start <
                (getChunk (modAt (invalidateChunk now tick) i cs) b).start) := by
              refine his'.2.imp ?_
              intro a b hab
              rw [start_modAt_inv, start_modAt_inv]; exact hab
            rw [ih ts is _ (by simp at hf ⊢; omega) hts'.2 his2
              (fun k hk => by rw [length_modAt]; exact hv k (List.mem_cons_of_mem _ hk))]
            have hni : i ∉ is := by
              intro hm; have := his'.1 i hm; omega
            by_cases hj : j = i
            · subst hj
              have hnot : ¬ (j ∈ is ∧ (getChunk (modAt (invalidateChunk now tick) j cs) j).start ∈ ts) := fun h => hni h.1
              simp only [hnot, if_false, List.mem_cons, true_or, true_and, he]
              rw [getChunk_modAt_eq]
              simp [hv j (List.mem_cons_self ..)]
            · rw [getChunk_modAt_ne _ _ _ _ hj]
              by_cases hm : j ∈ is
              · have hst : (getChunk cs j).start ≠ t := by have := his'.1 j hm; omega
                simp only [hm, true_and, List.mem_cons, hj, false_or, hst]
              · simp only [hm, false_and, if_false, List.mem_cons, hj, false_or]


theorem getLast_mem_ge_aux {l : List Int} (hs : l.Pairwise (· < ·)) : ∀ x ∈ l, ∀ y, l.getLast? = some y → x ≤ y := by
  induction l with
  | nil => intro x hx; cases hx
  | cons a l ih =>
    have hp := List.pairwise_cons.mp hs
    intro x hx y hy
    cases l with
    | nil => simp at hx hy; omega
    | cons b l =>
      simp only [List.getLast?_cons_cons] at hy
      simp only [List.mem_cons] at hx
      rcases hx with rfl | hx
      · have h1 := ih hp.2 b (List.mem_cons_self ..) y hy
        have := hp.1 b (List.mem_cons_self ..)
        omega
      · exact ih hp.2 x (by simpa using hx) y hy

theorem getLast_mem_ge {l : List Int} (hs : l.Pairwise (· < ·)) (x : Int) (hx : x ∈ l) (y : Int) (hy : l.getLast? = some y) : x ≤ y :=
  getLast_mem_ge_aux hs x hx y hy

/-- `cache2Bucket.invalidate` (range pre-check + merge walk) on a bucket whose chunk list is strictly increasing by
    start, for strictly increasing chunk starts `ts`: exactly the bucket's chunks whose start is in `ts` are marked,
    every other chunk of the store is untouched -/
theorem invBucket_exact (now : Int) (tick : Nat) (ts : List Int) (cs : List Chunk) (b : Bucket)
    (hts : ts.Pairwise (· < ·))
    (his : b.cids.Pairwise (fun x y => (getChunk cs x).start < (getChunk cs y).start)) (hv : ∀ i ∈ b.cids, i < cs.length)
    (j : Nat) :
    getChunk (invBucket now tick ts cs b) j =
      if j ∈ b.cids ∧ (getChunk cs j).start ∈ ts then invalidateChunk now tick (getChunk cs j) else getChunk cs j := by
  unfold invBucket
  split
  · -- the pre-check says the ranges are disjoint: then no chunk start is in `ts`
    rename_i hd
    have hno : ¬ (j ∈ b.cids ∧ (getChunk cs j).start ∈ ts) := by
      intro ⟨h1, h2⟩
      unfold disjointRange at hd
      cases htl : ts.getLast? with
      | none => cases ts with
        | nil => cases h2
        | cons _ _ => simp at htl
      | some tl =>
        cases hth : ts.head? with
        | none => cases ts with
          | nil => cases h2
          | cons _ _ => simp at hth
        | some th =>
          cases hch : b.cids.head? with
          | none => cases hb : b.cids with
            | nil => rw [hb] at h1; cases h1
            | cons _ _ => rw [hb] at hch; simp at hch
          | some ch =>
            cases hcl : b.cids.getLast? with
            | none => cases hb : b.cids with
              | nil => rw [hb] at h1; cases h1
              | cons _ _ => rw [hb] at hcl; simp at hcl
            | some cl =>
              simp only [htl, hth, hch, hcl, Bool.or_eq_true, decide_eq_true_eq] at hd
              -- start ch ≤ start j ≤ start cl and th ≤ start j ≤ tl
              have e1 : (getChunk cs j).start ≤ tl := getLast_mem_ge hts _ h2 tl htl
              have e2 : th ≤ (getChunk cs j).start := by
                cases ts with
                | nil => cases h2
                | cons a ts =>
                  simp only [List.head?_cons, Option.some.injEq] at hth
                  subst hth
                  simp only [List.mem_cons] at h2
                  rcases h2 with e | h2
                  · omega
                  · have := (List.pairwise_cons.mp hts).1 _ h2; omega
              have e3 : (getChunk cs ch).start ≤ (getChunk cs j).start := by
                cases hb : b.cids with
                | nil => rw [hb] at h1; cases h1
                | cons a as =>
                  rw [hb] at hch his h1
                  simp only [List.head?_cons, Option.some.injEq] at hch
                  subst hch
                  simp only [List.mem_cons] at h1
                  rcases h1 with e | h1
                  · rw [e]; omega
                  · have := (List.pairwise_cons.mp his).1 _ h1; omega
              have e4 : (getChunk cs j).start ≤ (getChunk cs cl).start := by
                have hm : ((b.cids.map (fun i => (getChunk cs i).start))).Pairwise (· < ·) := by
                  rw [List.pairwise_map]; exact his
                have hl : (b.cids.map (fun i => (getChunk cs i).start)).getLast? = some (getChunk cs cl).start := by
                  rw [List.getLast?_map, hcl]; rfl
                exact getLast_mem_ge hm _ (List.mem_map_of_mem h1) _ hl
              rcases hd with hd | hd <;> omega
    simp only [hno, if_false]
  · exact invWalkF_exact now tick _ ts b.cids cs (Nat.le_refl _) hts his hv j


theorem invWalkF_length (now : Int) (tick fuel : Nat) (ts : List Int) (is : List Nat) (cs : List Chunk) :
    (invWalkF now tick fuel ts is cs).length = cs.length := by
  induction fuel generalizing ts is cs with
  | zero => simp [invWalkF]
  | succ n ih =>
    cases ts with
    | nil => simp [invWalkF]
    | cons t ts =>
      cases is with
      | nil => simp [invWalkF]
      | cons i is =>
        simp only [invWalkF]
        split
        · exact ih ..
        · split
          · exact ih ..
          · rw [ih, length_modAt]

theorem invBucket_length (now : Int) (tick : Nat) (ts : List Int) (cs : List Chunk) (b : Bucket) :
    (invBucket now tick ts cs b).length = cs.length := by
  unfold invBucket; split
  · rfl
  · exact invWalkF_length ..

/-- a bucket's chunk list is strictly increasing by chunk start and names chunks of the store -/
def BucketSorted (cs : List Chunk) (b : Bucket) : Prop :=
  b.cids.Pairwise (fun x y => (getChunk cs x).start < (getChunk cs y).start) ∧ ∀ i ∈ b.cids, i < cs.length

theorem invBucket_start (now : Int) (tick : Nat) (ts : List Int) (cs : List Chunk) (b : Bucket) (hts : ts.Pairwise (· < ·))
    (hb : BucketSorted cs b) (j : Nat) : (getChunk (invBucket now tick ts cs b) j).start = (getChunk cs j).start := by
  rw [invBucket_exact now tick ts cs b hts hb.1 hb.2 j]
  split <;> rfl

/-- **the walk over all buckets of the shard** (`cache2Shard.invalidate` run to its end without interference): for
    strictly increasing chunk starts `ts`, buckets with sorted chunk lists that share no chunk, a chunk is marked iff it
    belongs to some bucket and its start is in `ts`; everything else is untouched -/
theorem foldl_invBucket_exact (now : Int) (tick : Nat) (ts : List Int) (hts : ts.Pairwise (· < ·)) (bs : List Bucket)
    (cs : List Chunk) (hs : ∀ b ∈ bs, BucketSorted cs b)
    (hdis : bs.Pairwise (fun a b => ∀ i, i ∈ a.cids → i ∉ b.cids)) (j : Nat) :
    getChunk (bs.foldl (invBucket now tick ts) cs) j =
      if (∃ b ∈ bs, j ∈ b.cids) ∧ (getChunk cs j).start ∈ ts then invalidateChunk now tick (getChunk cs j) else getChunk cs j := by
  induction bs generalizing cs with
  | nil => simp
  | cons b bs ih =>
    have hb := hs b (List.mem_cons_self ..)
    have hd := List.pairwise_cons.mp hdis
    have hs1 : ∀ b' ∈ bs, BucketSorted (invBucket now tick ts cs b) b' := by
      intro b' hb'
      obtain ⟨p1, p2⟩ := hs b' (List.mem_cons_of_mem _ hb')
      refine ⟨p1.imp ?_, fun i hi => by rw [invBucket_length]; exact p2 i hi⟩
      intro x y hxy
      rw [invBucket_start now tick ts cs b hts hb, invBucket_start now tick ts cs b hts hb]; exact hxy
    simp only [List.foldl_cons]
    rw [ih _ hs1 hd.2, invBucket_start now tick ts cs b hts hb, invBucket_exact now tick ts cs b hts hb.1 hb.2 j]
    by_cases h1 : j ∈ b.cids
    · have hno : ¬ ∃ b' ∈ bs, j ∈ b'.cids := by
        intro ⟨b', hb', hj⟩; exact hd.1 b' hb' j h1 hj
      by_cases h2 : (getChunk cs j).start ∈ ts
      · have : (∃ b' ∈ b :: bs, j ∈ b'.cids) := ⟨b, List.mem_cons_self .., h1⟩
        simp only [hno, false_and, if_false, h1, h2, and_self, if_true, this, true_and]
      · simp only [h2, and_false, if_false]
    · have hiff : (∃ b' ∈ b :: bs, j ∈ b'.cids) ↔ (∃ b' ∈ bs, j ∈ b'.cids) := by
        constructor
        · intro ⟨b', hb', hj⟩
          simp only [List.mem_cons] at hb'
          rcases hb' with rfl | hb'
          · exact absurd hj h1
          · exact ⟨b', hb', hj⟩
        · intro ⟨b', hb', hj⟩; exact ⟨b', List.mem_cons_of_mem _ hb', hj⟩
      simp only [h1, false_and, if_false, hiff]


/-- **invalidate_marks_exactly_partial**: `cache2.invalidate` of a batch of seconds marks exactly the cached chunks whose
    start is one of the chunk starts computed from the batch — every such chunk of every bucket, and no other chunk.
    Proved for the model under hypotheses on the state: the chunk starts of the batch are strictly increasing, every
    bucket's chunk list is strictly increasing by start, buckets share no chunk.
    FULL STATEMENT (not proved): for every reachable state and every sorted batch `secs`, chunk `j` of a bucket is marked
    iff `∃ sec ∈ secs, chunk.start ≤ sec·nsec < chunk.start + dur`.  Missing: (1) the trace invariant that bucket chunk
    lists stay sorted, aligned to the chunk grid (`start % dur = 0`) and disjoint (`insertCid`, eviction, reset);
    (2) `invStarts` of a sorted batch is strictly increasing and equals `{chunkStartOf (sec·nsec)}` (the boundary case is
    `boundary_second_opens_chunk`, the general case needs the uniqueness of `t / dur`).  The walk over the buckets being
    interleaved with evictions is `invalidate_walk_complete`; the freshness clause built on the marks is `freshness`. -/
theorem invalidate_marks_exactly_partial (s : St) (secs : List Int) (now : Int)
    (hts : (invStarts s.cfg secs none).Pairwise (· < ·)) (hs : ∀ b ∈ s.buckets, BucketSorted s.chunks b)
    (hdis : s.buckets.Pairwise (fun a b => ∀ i, i ∈ a.cids → i ∉ b.cids)) (j : Nat) :
    getChunk (opInv s secs now).chunks j =
      if (∃ b ∈ s.buckets, j ∈ b.cids) ∧ (getChunk s.chunks j).start ∈ invStarts s.cfg secs none
      then invalidateChunk now s.tick (getChunk s.chunks j) else getChunk s.chunks j :=
  foldl_invBucket_exact now s.tick _ hts s.buckets s.chunks hs hdis j

/-- non-vacuity: the hypotheses hold in the example state (two chunks of one bucket, batch [101, 102]) -/
example : (invStarts cfg0 [101, 102] none).Pairwise (· < ·) := by decide
example : ∀ b ∈ (run (init cfg0) [.get 1 1 0 false 100 104 200000000000, .fin 1 true 1 200000000001]).buckets,
    BucketSorted (run (init cfg0) [.get 1 1 0 false 100 104 200000000000, .fin 1 true 1 200000000001]).chunks b := by
  unfold BucketSorted; decide

end InvExact

/-! ## `invStarts` of a sorted batch, and the invalidate clause on reachable states -/

theorem cso_le (cfg : Cfg) (hd : 0 < cfg.dur) (x : Int) : chunkStartOf cfg x ≤ x :=
  Int.ediv_mul_le x (Int.ne_of_gt hd)

theorem cso_lt (cfg : Cfg) (hd : 0 < cfg.dur) (x : Int) : x < chunkStartOf cfg x + cfg.dur := by
  have := Int.lt_ediv_add_one_mul_self x hd
  rw [Int.add_mul, Int.one_mul] at this
  exact this

/-- uniqueness of `t / dur`: an aligned start whose chunk contains `x` is the chunk start of `x` -/
theorem cso_unique (cfg : Cfg) (hd : 0 < cfg.dur) (x : Int) (k : Int) (h1 : k * cfg.dur ≤ x) (h2 : x < k * cfg.dur + cfg.dur) :
    chunkStartOf cfg x = k * cfg.dur := by
  have a := cso_le cfg hd x
  have b := cso_lt cfg hd x
  unfold chunkStartOf at a b ⊢
  have e1 : x / cfg.dur < k + 1 := by
    apply Int.lt_of_mul_lt_mul_right (a := cfg.dur) _ (Int.le_of_lt hd)
    rw [Int.add_mul, Int.one_mul]; omega
  have e2 : k < x / cfg.dur + 1 := by
    apply Int.lt_of_mul_lt_mul_right (a := cfg.dur) _ (Int.le_of_lt hd)
    rw [Int.add_mul, Int.one_mul]; omega
  have : x / cfg.dur = k := by omega
  rw [this]

theorem cso_aligned_ge (cfg : Cfg) (hd : 0 < cfg.dur) (x m : Int) (h : m * cfg.dur ≤ x) : m * cfg.dur ≤ chunkStartOf cfg x := by
  unfold chunkStartOf
  have : m ≤ x / cfg.dur := Int.le_ediv_of_mul_le hd h
  exact Int.mul_le_mul_of_nonneg_right this (Int.le_of_lt hd)

/-- `invStarts` from the state "current chunk ends at `stop`" -/
theorem invStarts_some_spec (cfg : Cfg) (hd : 0 < cfg.dur) (ts : List Int) (m : Int)
    (hs : ts.Pairwise (· ≤ ·)) (hge : ∀ t ∈ ts, m * cfg.dur - cfg.dur ≤ t * nsec) :
    (invStarts cfg ts (some (m * cfg.dur))).Pairwise (· < ·) ∧
    (∀ x ∈ invStarts cfg ts (some (m * cfg.dur)), m * cfg.dur ≤ x ∧ ∃ t ∈ ts, x = chunkStartOf cfg (t * nsec)) ∧
    (∀ t ∈ ts, chunkStartOf cfg (t * nsec) = m * cfg.dur - cfg.dur ∨
      chunkStartOf cfg (t * nsec) ∈ invStarts cfg ts (some (m * cfg.dur))) := by
  induction ts generalizing m with
  | nil => simp [invStarts]
  | cons t ts ih =>
    have hp := List.pairwise_cons.mp hs
    simp only [invStarts]
    split
    · -- next chunk
      rename_i hle
      have hq : chunkStartOf cfg (t * nsec) + cfg.dur = (t * nsec / cfg.dur + 1) * cfg.dur := by
        unfold chunkStartOf; rw [Int.add_mul, Int.one_mul]
      have hst : m * cfg.dur ≤ chunkStartOf cfg (t * nsec) := cso_aligned_ge cfg hd _ m hle
      have hge' : ∀ u ∈ ts, (t * nsec / cfg.dur + 1) * cfg.dur - cfg.dur ≤ u * nsec := by
        intro u hu
        have h1 := hp.1 u hu
        have h2 := cso_le cfg hd (t * nsec)
        have h3 : t * nsec ≤ u * nsec := Int.mul_le_mul_of_nonneg_right h1 (by decide)
        rw [← hq]; omega
      obtain ⟨r1, r2, r3⟩ := ih (t * nsec / cfg.dur + 1) hp.2 hge'
      rw [← hq] at r1 r2 r3
      refine ⟨List.pairwise_cons.mpr ⟨fun x hx => by have := (r2 x hx).1; omega, r1⟩, ?_, ?_⟩
      · intro x hx
        simp only [List.mem_cons] at hx
        rcases hx with rfl | hx
        · exact ⟨hst, t, List.mem_cons_self .., rfl⟩
        · obtain ⟨a, u, hu, e⟩ := r2 x hx
          exact ⟨by omega, u, List.mem_cons_of_mem _ hu, e⟩
      · intro u hu
        simp only [List.mem_cons] at hu
        rcases hu with rfl | hu
        · right; exact List.mem_cons_self ..
        · rcases r3 u hu with e | e
          · right; rw [e]; simp
          · right; exact List.mem_cons_of_mem _ e
    · -- same chunk
      rename_i hnle
      have hcur : chunkStartOf cfg (t * nsec) = m * cfg.dur - cfg.dur := by
        have := cso_unique cfg hd (t * nsec) (m - 1) (by rw [Int.sub_mul, Int.one_mul]; exact hge t (List.mem_cons_self ..))
          (by rw [Int.sub_mul, Int.one_mul]; omega)
        rw [this, Int.sub_mul, Int.one_mul]
      obtain ⟨r1, r2, r3⟩ := ih m hp.2 (fun u hu => hge u (List.mem_cons_of_mem _ hu))
      refine ⟨r1, ?_, ?_⟩
      · intro x hx
        obtain ⟨a, u, hu, e⟩ := r2 x hx
        exact ⟨a, u, List.mem_cons_of_mem _ hu, e⟩
      · intro u hu
        simp only [List.mem_cons] at hu
        rcases hu with rfl | hu
        · exact Or.inl hcur
        · exact r3 u hu

/-- **invStarts_spec**: for a sorted batch of seconds the chunk starts handed to the shard are strictly increasing and
    are exactly the chunk starts of the seconds of the batch -/
theorem invStarts_spec (cfg : Cfg) (hd : 0 < cfg.dur) (secs : List Int) (hs : secs.Pairwise (· ≤ ·)) :
    (invStarts cfg secs none).Pairwise (· < ·) ∧
    ∀ x, x ∈ invStarts cfg secs none ↔ ∃ t ∈ secs, x = chunkStartOf cfg (t * nsec) := by
  cases secs with
  | nil => simp [invStarts]
  | cons t ts =>
    have hp := List.pairwise_cons.mp hs
    simp only [invStarts]
    have hq : chunkStartOf cfg (t * nsec) + cfg.dur = (t * nsec / cfg.dur + 1) * cfg.dur := by
      unfold chunkStartOf; rw [Int.add_mul, Int.one_mul]
    have hge' : ∀ u ∈ ts, (t * nsec / cfg.dur + 1) * cfg.dur - cfg.dur ≤ u * nsec := by
      intro u hu
      have h1 := hp.1 u hu
      have h2 := cso_le cfg hd (t * nsec)
      have h3 : t * nsec ≤ u * nsec := Int.mul_le_mul_of_nonneg_right h1 (by decide)
      rw [← hq]; omega
    obtain ⟨r1, r2, r3⟩ := invStarts_some_spec cfg hd ts (t * nsec / cfg.dur + 1) hp.2 hge'
    rw [← hq] at r1 r2 r3
    refine ⟨List.pairwise_cons.mpr ⟨fun x hx => by have := (r2 x hx).1; omega, r1⟩, fun x => ⟨?_, ?_⟩⟩
    · intro hx
      simp only [List.mem_cons] at hx
      rcases hx with rfl | hx
      · exact ⟨t, List.mem_cons_self .., rfl⟩
      · obtain ⟨_, u, hu, e⟩ := r2 x hx
        exact ⟨u, List.mem_cons_of_mem _ hu, e⟩
    · intro ⟨u, hu, e⟩
      simp only [List.mem_cons] at hu
      rcases hu with rfl | hu
      · rw [e]; exact List.mem_cons_self ..
      · rcases r3 u hu with e' | e'
        · rw [e, e']; simp
        · rw [e]; exact List.mem_cons_of_mem _ e'


section InvExact2
open SH.TsCache.Place SH.TsCache.Wait SH.TsCache.Fill

theorem run_cfg (ops : List Op) (s : St) : (run s ops).cfg = s.cfg := by
  induction ops generalizing s with
  | nil => rfl
  | cons op ops ih => simp only [run, List.foldl_cons] at ih ⊢; rw [ih, step_cfg]

/-- buckets of a reachable state share no chunk (bucket keys are unique, a chunk carries its bucket's key) -/
theorem buckets_disjoint (s : St) (hp : PInv s) (hw : WInv s) :
    s.buckets.Pairwise (fun a b => ∀ i, i ∈ a.cids → i ∉ b.cids) := by
  have hk : s.buckets.Pairwise (fun a b => a.key ≠ b.key) := by
    have := hw.bkeys
    rw [List.Nodup, List.pairwise_map] at this
    exact this
  refine hk.imp_of_mem ?_
  intro a b ha hb hne i hia hib
  have e1 := (hp.ci.bk (a.key, a.cids) (by simp only [bksOf, List.mem_map]; exact ⟨a, ha, rfl⟩) i hia).2
  have e2 := (hp.ci.bk (b.key, b.cids) (by simp only [bksOf, List.mem_map]; exact ⟨b, hb, rfl⟩) i hib).2
  exact hne (e1.symm.trans e2)

/-- **invalidate_marks_exactly_partial** (for every reachable state and every sorted batch of seconds): a chunk of a
    bucket is marked by `invalidate` iff one of the seconds lies in its half-open interval `[start, start + dur)`, and it
    is otherwise untouched — PROVIDED the bucket chunk lists of that state are sorted by start and aligned to the chunk
    grid.  Discharged here: the batch's chunk starts are strictly increasing and are exactly the chunk starts of the
    seconds (`invStarts_spec`, uniqueness of `t / dur`), buckets are disjoint (`buckets_disjoint`, a trace invariant).
    STILL A HYPOTHESIS (not proved as a trace invariant): `BucketSorted` and grid alignment of the chunk starts through
    `insertCid`, eviction and reset — with it the theorem would be `invalidate_marks_exactly` for all op lists. -/
theorem invalidate_marks_exactly_reachable_partial (cfg : Cfg) (wf : WF cfg) (hd : 0 < cfg.dur) (ops : List Op)
    (hg : GoodOps (init cfg) ops) (secs : List Int) (hsecs : secs.Pairwise (· ≤ ·)) (now : Int)
    (hs : ∀ b ∈ (run (init cfg) ops).buckets, BucketSorted (run (init cfg) ops).chunks b)
    (hal : ∀ b ∈ (run (init cfg) ops).buckets, ∀ i ∈ b.cids, ∃ k : Int, (getChunk (run (init cfg) ops).chunks i).start = k * cfg.dur)
    (j : Nat) (hj : ∃ b ∈ (run (init cfg) ops).buckets, j ∈ b.cids) :
    getChunk (opInv (run (init cfg) ops) secs now).chunks j =
      if ∃ sec ∈ secs, (getChunk (run (init cfg) ops).chunks j).start ≤ sec * nsec ∧
          sec * nsec < (getChunk (run (init cfg) ops).chunks j).start + cfg.dur
      then invalidateChunk now (run (init cfg) ops).tick (getChunk (run (init cfg) ops).chunks j)
      else getChunk (run (init cfg) ops).chunks j := by
  have hT := run_T ops (init cfg) wf hg (Tri_init cfg)
  have hc : (run (init cfg) ops).cfg = cfg := run_cfg ops _
  obtain ⟨hsorted, hmem⟩ := invStarts_spec (run (init cfg) ops).cfg (by rw [hc]; exact hd) secs hsecs
  rw [invalidate_marks_exactly_partial _ secs now hsorted hs (buckets_disjoint _ hT.1.1 hT.1.2) j]
  obtain ⟨b, hb, hjb⟩ := hj
  obtain ⟨k, hk⟩ := hal b hb j hjb
  have hiff : ((∃ b ∈ (run (init cfg) ops).buckets, j ∈ b.cids) ∧
      (getChunk (run (init cfg) ops).chunks j).start ∈ invStarts (run (init cfg) ops).cfg secs none) ↔
      ∃ sec ∈ secs, (getChunk (run (init cfg) ops).chunks j).start ≤ sec * nsec ∧
          sec * nsec < (getChunk (run (init cfg) ops).chunks j).start + cfg.dur := by
    rw [hmem, hc]
    constructor
    · intro ⟨_, sec, hsec, e⟩
      exact ⟨sec, hsec, by rw [e]; exact cso_le cfg hd _, by rw [e]; exact cso_lt cfg hd _⟩
    · intro ⟨sec, hsec, h1, h2⟩
      refine ⟨⟨b, hb, hjb⟩, sec, hsec, ?_⟩
      rw [hk] at h1 h2 ⊢
      exact (cso_unique cfg hd _ k h1 h2).symm
  by_cases h : ∃ sec ∈ secs, (getChunk (run (init cfg) ops).chunks j).start ≤ sec * nsec ∧
      sec * nsec < (getChunk (run (init cfg) ops).chunks j).start + cfg.dur
  · rw [if_pos (hiff.mpr h), if_pos h]
  · rw [if_neg (fun x => h (hiff.mp x)), if_neg h]

end InvExact2


end SH.Props.C23
