/-
  C16 — Replaying the metadata binlog reproduces the primary's state.

  "Reopening the metadata database from its binlog, either into a fresh database file or from an older snapshot, yields exactly
   the same observable state as the primary had for every committed operation: journal entries (names, versions, data,
   namespaces), entity history, tag mappings, flood-limit budgets and the bootstrap mapping set. This holds for every history
   of operations, including renames, deletions of mappings and predefined entities."
  Quantifier: all operation histories and all snapshot points from which replay starts.

  Model: SH.Model.Replay (`emit` = what each primary operation appends, `applyEvent` = binlog_event.go apply*) over the durable
  state of SH.Model.Meta (`Meta.step` = the primary's SaveEntity / GetOrCreateMapping / PutMapping / deleteMappingsByIdBatched /
  ResetFlood; `pstep` adds the bootstrap write).  A history is an arbitrary `List Replay.Op`; a snapshot point is a number `n` of
  operations after which the database file was copied (`snapshotOf`), the replica then applies the binlog from the position the
  snapshot carries, i.e. `binlog.drop (length of what the first n operations appended)`.
  "Observable state" = `view`: the whole durable state except the two things no reader can see (the upper 32 bits of
  metrics_v5.updated_at, which every reader casts away, and the process-local last-created mapping id); `journal_of_view` /
  `readers_of_view` show that JournalEvents, GetEntityVersioned, GetHistoryShort, GetMappingByValue/ByID, GetNewMappings, the
  flood-limit table and the bootstrap are functions of the view.

  FULL STATEMENT (false on the code as it is, see `reset_flood_is_not_replayed`):
      ∀ c ops n, (applyAll .fixed (snapshotOf (prun c ∅ (ops.take n))) ((eventsOf c ∅ ops).drop …)).map view = some (view (prun c ∅ ops))
  PROVED: (1) `replay_from_snapshot_partial` / `replay_into_fresh_db_partial`: the same with the hypothesis
  `noReset (ops.drop n)` — no ResetFlood AFTER the snapshot point (resets before it are in the snapshot); (2) WITHOUT any
  hypothesis, `replay_from_snapshot_all_but_flood` / `replay_into_fresh_db_all_but_flood`: for every history and every snapshot
  point the replay never fails and reproduces everything except the flood-limit table (`viewNF`), i.e. journal, history, tag
  mappings and bootstrap are covered at the full strength of the property; only "flood-limit budgets" carries the hypothesis.  ResetFlood writes flood_limits without appending any event; a fix needs a new TL event type (known finding
  `reset-flood-not-replayed`).  `RVariant.fixed` is applyEditEntityEvent with fixes/C16-replay-rename.diff; the pinned tree
  (`RVariant.old`) loses every rename on replay and can even fail to open (`old_replay_loses_rename`, `old_replay_can_fail`).
-/
import SH.Model.Replay
import SH.Props.C15
import SH.Props.C19

namespace SH.C16
open SH.Meta SH.Replay

/-! ### `view` and list helpers -/

theorem view_eq_iff (s r : State) :
    view s = view r ↔
      s.ents.map normEnt = r.ents.map normEnt ∧ s.entSeq = r.entSeq ∧ s.hist = r.hist ∧ s.maps = r.maps ∧
      s.mapSeq = r.mapSeq ∧ s.flood = r.flood ∧ s.bootstrap = r.bootstrap := by
  cases s; cases r
  simp only [view, State.mk.injEq, true_and]

theorem normEnt_idem (e : Entity) : normEnt (normEnt e) = normEnt e := by
  simp [normEnt]

theorem insertBlocked_norm (l : List Entity) (x : Entity) : insertBlocked (l.map normEnt) x = insertBlocked l x := by
  unfold insertBlocked
  rw [List.any_map]
  rfl

theorem updateBlocked_norm (l : List Entity) (x : Entity) : updateBlocked (l.map normEnt) x = updateBlocked l x := by
  unfold updateBlocked
  rw [List.any_map]
  rfl

theorem rowOf_norm (l : List Entity) (id : Int) : rowOf (l.map normEnt) id = (rowOf l id).map normEnt := by
  unfold rowOf
  rw [List.find?_map]
  rfl

theorem insertById_norm (x : Entity) : ∀ l : List Entity, (insertById x l).map normEnt = insertById (normEnt x) (l.map normEnt) := by
  intro l
  induction l with
  | nil => rfl
  | cons y ys ih =>
    simp only [insertById, List.map_cons]
    by_cases h : x.id < y.id
    · have h' : (normEnt x).id < (normEnt y).id := h
      simp [h, h']
    · have h' : ¬ (normEnt x).id < (normEnt y).id := h
      simp [h, h', ih]

theorem replaceRow_norm (x : Entity) (l : List Entity) : (replaceRow x l).map normEnt = replaceRow (normEnt x) (l.map normEnt) := by
  unfold replaceRow
  simp only [List.map_map]
  apply List.map_congr_left
  intro e _
  simp only [Function.comp]
  by_cases h : e.id = x.id
  · have h' : (normEnt e).id = (normEnt x).id := h
    simp [h, h']
  · have h' : ¬ (normEnt e).id = (normEnt x).id := h
    simp [h, h']

/-- two lists that agree after `normEnt` block the same inserts / updates and hold the same row under an id -/
theorem insertBlocked_congr {l1 l2 : List Entity} (h : l1.map normEnt = l2.map normEnt) (x : Entity) :
    insertBlocked l1 x = insertBlocked l2 x := by
  rw [← insertBlocked_norm l1, ← insertBlocked_norm l2, h]

theorem updateBlocked_congr {l1 l2 : List Entity} (h : l1.map normEnt = l2.map normEnt) (x : Entity) :
    updateBlocked l1 x = updateBlocked l2 x := by
  rw [← updateBlocked_norm l1, ← updateBlocked_norm l2, h]

theorem rowOf_congr {l1 l2 : List Entity} (h : l1.map normEnt = l2.map normEnt) (id : Int) :
    (rowOf l1 id).map normEnt = (rowOf l2 id).map normEnt := by
  rw [← rowOf_norm l1, ← rowOf_norm l2, h]

/-! ### congruence: a replayed event treats two states with the same view alike -/

theorem view_addHistory {r s : State} (h : view r = view s) (ev : Event) :
    (addHistory r ev).map view = (addHistory s ev).map view := by
  have hh := (view_eq_iff r s).mp h
  unfold addHistory
  rw [hh.2.2.1]
  by_cases hb : histBlocked s.hist ev = true
  · simp [hb]
  · simp only [hb, Bool.false_eq_true, if_false, Option.map_some, Option.some.injEq]
    rw [view_eq_iff]
    simp only [hh, and_self]

theorem view_applyCreateEntity {r s : State} (h : view r = view s) (ev : Event) :
    (applyCreateEntity r ev).map view = (applyCreateEntity s ev).map view := by
  have hh := (view_eq_iff r s).mp h
  unfold applyCreateEntity
  rw [insertBlocked_congr hh.1]
  by_cases hb : insertBlocked s.ents (rowOfEvent ev) = true
  · simp [hb]
  · simp only [hb, Bool.false_eq_true, if_false]
    apply view_addHistory
    rw [view_eq_iff]
    simp only [insertById_norm, hh, and_self]

theorem editTarget_congr {r s : State} (h : r.ents.map normEnt = s.ents.map normEnt) (var : RVariant) (ev : Event) (old : Nat) :
    (editTarget var r ev old).map normEnt = (editTarget var s ev old).map normEnt := by
  have hr := rowOf_congr h ev.id
  unfold editTarget
  cases h1 : rowOf r.ents ev.id with
  | none =>
    cases h2 : rowOf s.ents ev.id with
    | none => rfl
    | some y => simp [h1, h2] at hr
  | some x =>
    cases h2 : rowOf s.ents ev.id with
    | none => simp [h1, h2] at hr
    | some y =>
      simp only [h1, h2, Option.map_some, Option.some.injEq] at hr
      have hv : x.version = y.version := by have := congrArg Entity.version hr; exact this
      have hn : x.name = y.name := by have := congrArg Entity.name hr; exact this
      have hm : nameMatches var x ev = nameMatches var y ev := by cases var <;> simp [nameMatches, hn]
      simp only [hv, hm]
      by_cases hc : (y.version == old && nameMatches var y ev) = true
      · simp [hc, hr]
      · simp [hc]

theorem replayedRow_congr {x y : Entity} (h : normEnt x = normEnt y) (var : RVariant) (ev : Event) :
    replayedRow var x ev = replayedRow var y ev := by
  have h1 : x.id = y.id := by have := congrArg Entity.id h; exact this
  have h2 : x.name = y.name := by have := congrArg Entity.name h; exact this
  have h3 : x.typ = y.typ := by have := congrArg Entity.typ h; exact this
  cases x; cases y
  cases var <;> simp_all [replayedRow, replayedName]

theorem view_applyEditEntity {r s : State} (h : view r = view s) (var : RVariant) (ev : Event) (old : Nat) :
    (applyEditEntity var r ev old).map view = (applyEditEntity var s ev old).map view := by
  have hh := (view_eq_iff r s).mp h
  have ht := editTarget_congr hh.1 var ev old
  unfold applyEditEntity
  cases h1 : editTarget var r ev old with
  | none =>
    cases h2 : editTarget var s ev old with
    | none => exact view_addHistory h ev
    | some y => simp [h1, h2] at ht
  | some x =>
    cases h2 : editTarget var s ev old with
    | none => simp [h1, h2] at ht
    | some y =>
      simp only [h1, h2, Option.map_some, Option.some.injEq] at ht
      simp only [replayedRow_congr ht var ev, updateBlocked_congr hh.1]
      by_cases hb : updateBlocked s.ents (replayedRow var y ev) = true
      · simp [hb]
      · simp only [hb, Bool.false_eq_true, if_false]
        apply view_addHistory
        rw [view_eq_iff]
        simp only [replaceRow_norm, hh, and_self]

theorem view_putMany : ∀ (kvs : List (Nat × Int)) {r s : State}, view r = view s → view (putMany r kvs) = view (putMany s kvs) := by
  intro kvs
  induction kvs with
  | nil => intro r s h; exact h
  | cons kv rest ih =>
    intro r s h
    obtain ⟨k, v⟩ := kv
    simp only [putMany]
    apply ih
    have hh := (view_eq_iff r s).mp h
    rw [view_eq_iff]
    simp only [putOne, hh, and_self]

/-- binlog_event.go apply* respect the observable projection: replicas that look alike still look alike after any event -/
theorem view_applyEvent {r s : State} (h : view r = view s) (var : RVariant) (e : BEvent) :
    (applyEvent var r e).map view = (applyEvent var s e).map view := by
  have hh := (view_eq_iff r s).mp h
  cases e with
  | createEntity ev => exact view_applyCreateEntity h ev
  | editEntity ev old => exact view_applyEditEntity h var ev old
  | createMapping id key metric updatedAt budget create =>
    simp only [applyEvent, applyCreateMapping, hh.2.2.2.1]
    by_cases hb : mapBlocked s.maps id key = true
    · simp [hb]
    · simp only [hb, Bool.false_eq_true, if_false, Option.map_some, Option.some.injEq]
      rw [view_eq_iff]
      simp only [hh, and_self]
  | putMapping kvs => simp only [applyEvent, Option.map_some, view_putMany kvs h]
  | deleteMappings ids =>
    simp only [applyEvent, applyDelete, Option.map_some, Option.some.injEq]
    rw [view_eq_iff]
    simp only [hh, and_self]
  | putBootstrap ms =>
    simp only [applyEvent, Option.map_some, Option.some.injEq]
    rw [view_eq_iff]
    simp only [hh, and_self]

theorem view_applyAll (var : RVariant) : ∀ (es : List BEvent) {r s : State}, view r = view s →
    (applyAll var r es).map view = (applyAll var s es).map view := by
  intro es
  induction es with
  | nil => intro r s h; simp [applyAll, h]
  | cons e rest ih =>
    intro r s h
    have he := view_applyEvent h var e
    simp only [applyAll]
    cases h1 : applyEvent var r e with
    | none =>
      cases h2 : applyEvent var s e with
      | none => rfl
      | some y => simp [h1, h2] at he
    | some x =>
      cases h2 : applyEvent var s e with
      | none => simp [h1, h2] at he
      | some y =>
        simp only [h1, h2, Option.map_some, Option.some.injEq] at he
        exact ih he

/-! ### one operation: replaying what it appended reproduces what it did -/

theorem applyAll_append (var : RVariant) : ∀ (a b : List BEvent) (s : State),
    applyAll var s (a ++ b) = (applyAll var s a).bind (fun s' => applyAll var s' b) := by
  intro a
  induction a with
  | nil => intro b s; rfl
  | cons e rest ih =>
    intro b s
    simp only [List.cons_append, applyAll]
    cases applyEvent var s e with
    | none => rfl
    | some s' => exact ih b s'

theorem bumpSeq_newSeq (s : State) (a : SaveReq) : bumpSeq s.entSeq (newId s a) = newSeq s a := by
  unfold bumpSeq newId newSeq
  by_cases h : a.id < 0
  · simp only [h, if_true]
    have : ¬ ((s.entSeq : Int) < a.id) := by omega
    simp [this]
  · simp only [h, if_false]
    have : (s.entSeq : Int) < ((s.entSeq + 1 : Nat) : Int) := by push_cast; omega
    simp only [this, if_true]
    simp

theorem normEnt_created (a : SaveReq) (id : Int) (v : Nat) (nsId : Int) :
    normEnt (rowOfEvent (mkEvent a id v nsId)) = normEnt (createdRow a id v nsId) := by
  simp [normEnt, rowOfEvent, mkEvent, createdRow]

theorem normEnt_edited (r : Entity) (a : SaveReq) (v : Nat) (nsId : Int) :
    normEnt (replayedRow .fixed r (mkEvent a r.id v nsId)) = normEnt (editedRow r a v nsId) := by
  simp [normEnt, replayedRow, replayedName, mkEvent, editedRow]

/-- SaveEntity: the appended Create/EditEntityEvent, applied to the state the request ran in, gives the state it left -/
theorem save_replays (s : State) (a : SaveReq) (hi : SH.C15.Inv s) :
    (applyAll .fixed s (emitSave s a)).map view = some (view (save s a).1) := by
  have hs := SH.C15.save_shape .fixed s a
  unfold emitSave
  show (applyAll .fixed s (match (saveV .fixed s a).2 with
      | .ok ev true => [.createEntity ev] | .ok ev false => [.editEntity ev a.oldVersion] | .err _ => [])).map view =
      some (view (saveV .fixed s a).1)
  generalize saveV .fixed s a = p at hs
  cases hs with
  | err e => rfl
  | created nsId hns hc hb he =>
    have hfresh := SH.C15.newId_fresh s a hi he
    have hnb : insertBlocked s.ents (rowOfEvent (mkEvent a (newId s a) (maxVer s.ents + 1) nsId)) = false := by
      unfold insertBlocked
      apply List.any_eq_false.mpr
      intro e he'
      have h1 := hfresh e he'
      have h2 := SH.C15.le_maxVer s.ents e he'
      have h3 := SH.C15.conflict_false hc e he' h1
      have h2' : ¬ e.version = maxVer s.ents + 1 := by omega
      simp only [rowOfEvent, mkEvent, Bool.or_eq_true, beq_iff_eq, Bool.and_eq_true, not_or, not_and]
      exact ⟨⟨h1, h2'⟩, fun x y => h3 ⟨x.1, x.2, y⟩⟩
    have hnh : histBlocked s.hist (mkEvent a (newId s a) (maxVer s.ents + 1) nsId) = false := by
      unfold histBlocked
      apply List.any_eq_false.mpr
      intro h hh
      have := SH.C15.hist_lt_new hi h hh
      simp only [mkEvent, beq_iff_eq]
      omega
    simp only [applyAll, applyEvent, applyCreateEntity, hnb, Bool.false_eq_true, if_false, addHistory, hnh, Option.map_some,
      Option.some.injEq]
    rw [view_eq_iff]
    simp only [SH.C15.createdState, insertById_norm, normEnt_created]
    simp only [mkEvent, bumpSeq_newSeq, and_self]
  | edited nsId r hns hr hv hc hck hlate hb he =>
    obtain ⟨hrm, hrid⟩ := SH.C15.rowOf_some hr
    have htar : editTarget .fixed s (mkEvent a r.id (maxVer s.ents + 1) nsId) a.oldVersion = some r := by
      unfold editTarget
      simp only [mkEvent, hrid, hr, nameMatches, Bool.and_true, beq_iff_eq, hv, if_true]
    have hnb : updateBlocked s.ents (replayedRow .fixed r (mkEvent a r.id (maxVer s.ents + 1) nsId)) = false := by
      unfold updateBlocked
      apply List.any_eq_false.mpr
      intro e he'
      have h2 := SH.C15.le_maxVer s.ents e he'
      have h2' : ¬ e.version = maxVer s.ents + 1 := by omega
      simp only [replayedRow, replayedName, mkEvent, Bool.and_eq_true, bne_iff_ne, ne_eq, Bool.or_eq_true, beq_iff_eq, not_and, not_or]
      intro h1
      have h3 := SH.C15.conflict_false hc e he' h1
      exact ⟨h2', fun x y => h3 ⟨x.1, x.2, y⟩⟩
    have hnh : histBlocked s.hist (mkEvent a r.id (maxVer s.ents + 1) nsId) = false := by
      unfold histBlocked
      apply List.any_eq_false.mpr
      intro h hh
      have := SH.C15.hist_lt_new hi h hh
      simp only [mkEvent, beq_iff_eq]
      omega
    simp only [applyAll, applyEvent, applyEditEntity, htar, hnb, Bool.false_eq_true, if_false, addHistory, hnh, Option.map_some,
      Option.some.injEq]
    rw [view_eq_iff]
    simp only [SH.C15.editedState, replaceRow_norm, normEnt_edited, and_self]

theorem createMapping_eq (c : Cfg) (s : State) (m k now : Nat) :
    createMapping c s m k now =
      match newFloodRow c s m now with
      | none => (s, .flood)
      | some f => insertMapping s k (setFlood s.flood f) := by
  unfold createMapping newFloodRow
  cases lookupFlood s.flood m with
  | none => rfl
  | some f =>
    simp only
    by_cases h : floodHit c s f (roundTime now c.step) = true
    · simp [h]
    · simp [h]

theorem newFloodRow_metric {c : Cfg} {s : State} {m now : Nat} {f : Flood} (h : newFloodRow c s m now = some f) : f.metric = m := by
  unfold newFloodRow at h
  cases hl : lookupFlood s.flood m with
  | none => simp only [hl, Option.some.injEq] at h; rw [← h]
  | some g =>
    simp only [hl] at h
    by_cases hf : floodHit c s g (roundTime now c.step) = true
    · simp [hf] at h
    · simp only [hf, Bool.false_eq_true, if_false, Option.some.injEq] at h; rw [← h]

/-- GetOrCreateMapping: replaying the CreateMappingEvent (if one was appended) gives the mapping row and the flood-limit row -/
theorem getOrCreate_replays (c : Cfg) (s : State) (m k now : Nat) (hm : SH.C19.MInv s) :
    (applyAll .fixed s (emitGetOrCreate c s m k now)).map view = some (view (getOrCreate c s m k now).1) := by
  unfold emitGetOrCreate getOrCreate
  cases hk : lookupKey s.maps k with
  | some id => rfl
  | none =>
    simp only [createMapping_eq]
    cases hf : newFloodRow c s m now with
    | none => rfl
    | some f =>
      have hnb : mapBlocked s.maps ((s.mapSeq + 1 : Nat) : Int) k = false := by
        unfold mapBlocked
        apply List.any_eq_false.mpr
        intro p hp
        have h1 := hm.seqBound p hp
        have h2 := SH.C19.lookupKey_none hk p hp
        simp only [Bool.or_eq_true, beq_iff_eq, not_or]
        exact ⟨by push_cast; omega, h2⟩
      have hseq : bumpSeq s.mapSeq ((s.mapSeq + 1 : Nat) : Int) = s.mapSeq + 1 := by
        unfold bumpSeq
        have : (s.mapSeq : Int) < ((s.mapSeq + 1 : Nat) : Int) := by push_cast; omega
        simp only [this, if_true]
        simp
      have hrow : ({ metric := m, last := f.last, free := f.free } : Flood) = f := by
        have := newFloodRow_metric hf
        cases f; simp_all
      simp only [applyAll, applyEvent, applyCreateMapping, hnb, Bool.false_eq_true, if_false, Option.map_some, Option.some.injEq,
        insertMapping, hseq, hrow]
      rw [view_eq_iff]
      simp only [and_self]

theorem present_contains (s : State) (ids : List Int) : ∀ p ∈ s.maps, (presentIds s ids).contains p.1 = ids.contains p.1 := by
  intro p hp
  unfold presentIds
  by_cases h : ids.contains p.1 = true
  · rw [h]
    apply List.contains_iff_mem.mpr
    exact List.mem_map.mpr ⟨p, List.mem_filter.mpr ⟨hp, h⟩, rfl⟩
  · have h' : ids.contains p.1 = false := by simpa using h
    rw [h']
    apply Bool.eq_false_iff.mpr
    intro hc
    obtain ⟨q, hq, hqp⟩ := List.mem_map.mp (List.contains_iff_mem.mp hc)
    have := (List.mem_filter.mp hq).2
    rw [hqp] at this
    exact h this

/-- deleteMappingsByIdBatched: the event carries the present ids only (or is not written at all) and deletes the same rows -/
theorem delete_replays (s : State) (ids : List Int) :
    (applyAll .fixed s (emitDelete s ids)).map view = some (view (deleteIds s ids).1) := by
  have hcongr : s.maps.filter (fun p => !(presentIds s ids).contains p.1) = s.maps.filter (fun p => !ids.contains p.1) := by
    apply List.filter_congr
    intro p hp
    rw [present_contains s ids p hp]
  unfold emitDelete deleteIds
  by_cases he : (presentIds s ids).isEmpty = true
  · simp only [he, if_true, applyAll, Option.map_some, Option.some.injEq]
    have hnil : presentIds s ids = [] := List.isEmpty_iff.mp he
    rw [hnil] at hcongr
    rw [view_eq_iff]
    simp only [← hcongr, List.contains_nil, Bool.not_false, true_and, and_true]
    exact (List.filter_eq_self.mpr (fun _ _ => rfl)).symm
  · simp only [he, Bool.false_eq_true, if_false, applyAll, applyEvent, applyDelete, Option.map_some, Option.some.injEq]
    rw [view_eq_iff]
    simp only [hcongr, and_self]

def isReset : Replay.Op → Bool
  | .base (.reset _ _ _) => true
  | _ => false

/-- every operation except ResetFlood: applying the events it appended to the state it ran in yields the state it produced -/
theorem emit_replays (c : Cfg) (s : State) (o : Replay.Op) (hi : SH.C15.Inv s) (hm : SH.C19.MInv s) (hr : isReset o = false) :
    (applyAll .fixed s (emit c s o)).map view = some (view (pstep c s o)) := by
  cases o with
  | bootstrap ms => rfl
  | base b =>
    cases b with
    | save a => exact save_replays s a hi
    | getOrCreate m k now => exact getOrCreate_replays c s m k now hm
    | put kvs => rfl
    | delete ids => exact delete_replays s ids
    | reset m l now => simp [isReset] at hr

/-- the same for a replica that merely LOOKS like the primary did (same view): this is the step of the simulation -/
theorem replay_step (c : Cfg) (s r : State) (o : Replay.Op) (hi : SH.C15.Inv s) (hm : SH.C19.MInv s) (hr : isReset o = false)
    (hv : view r = view s) :
    (applyAll .fixed r (emit c s o)).map view = some (view (pstep c s o)) := by
  rw [view_applyAll .fixed (emit c s o) hv]
  exact emit_replays c s o hi hm hr

theorem pstep_inv (c : Cfg) (s : State) (o : Replay.Op) (hi : SH.C15.Inv s) : SH.C15.Inv (pstep c s o) := by
  cases o with
  | base b => exact SH.C15.step_inv c s b hi
  | bootstrap ms => exact SH.C15.inv_congr (s := s) rfl rfl rfl hi

theorem pstep_minv (c : Cfg) (s : State) (o : Replay.Op) (hm : SH.C19.MInv s) : SH.C19.MInv (pstep c s o) := by
  cases o with
  | base b => exact SH.C19.minv_step c s b hm
  | bootstrap ms => exact ⟨hm.keyUniq, hm.idUniq, hm.seqBound⟩

theorem prun_inv (c : Cfg) : ∀ (ops : List Replay.Op) (s : State), SH.C15.Inv s → SH.C19.MInv s →
    SH.C15.Inv (prun c s ops) ∧ SH.C19.MInv (prun c s ops) := by
  intro ops
  induction ops with
  | nil => intro s hi hm; exact ⟨hi, hm⟩
  | cons o rest ih => intro s hi hm; exact ih _ (pstep_inv c s o hi) (pstep_minv c s o hm)

def noReset (ops : List Replay.Op) : Bool := ops.all (fun o => !isReset o)

/-- a replica that looks like the primary did at some point (same view; e.g. an older replica that has applied a prefix) and
    applies everything the primary appended since ends up looking like the primary: simulation over a whole suffix -/
theorem replay_run (c : Cfg) : ∀ (ops : List Replay.Op) (s r : State), SH.C15.Inv s → SH.C19.MInv s → noReset ops = true →
    view r = view s → (applyAll .fixed r (eventsOf c s ops)).map view = some (view (prun c s ops)) := by
  intro ops
  induction ops with
  | nil => intro s r _ _ _ hv; simp [eventsOf, applyAll, prun, hv]
  | cons o rest ih =>
    intro s r hi hm hn hv
    simp only [noReset, List.all_cons, Bool.and_eq_true, Bool.not_eq_true'] at hn
    have hstep := replay_step c s r o hi hm hn.1 hv
    simp only [eventsOf, applyAll_append]
    cases h1 : applyAll .fixed r (emit c s o) with
    | none => simp [h1] at hstep
    | some r1 =>
      simp only [h1, Option.map_some, Option.some.injEq] at hstep
      simp only [Option.bind_some]
      exact ih (pstep c s o) r1 (pstep_inv c s o hi) (pstep_minv c s o hm) (by simpa [noReset] using hn.2) hstep

theorem prun_append (c : Cfg) (a b : List Replay.Op) (s : State) : prun c s (a ++ b) = prun c (prun c s a) b := by
  simp [prun, List.foldl_append]

theorem eventsOf_append (c : Cfg) : ∀ (a b : List Replay.Op) (s : State),
    eventsOf c s (a ++ b) = eventsOf c s a ++ eventsOf c (prun c s a) b := by
  intro a
  induction a with
  | nil => intro b s; rfl
  | cons o rest ih =>
    intro b s
    simp only [List.cons_append, eventsOf, ih, List.append_assoc]
    rfl

theorem reachable (c : Cfg) (ops : List Replay.Op) :
    SH.C15.Inv (prun c State.empty ops) ∧ SH.C19.MInv (prun c State.empty ops) :=
  prun_inv c ops _ SH.C15.inv_empty SH.C19.minv_empty

/-- C16, snapshot + suffix (PARTIAL: `noReset` on the replayed suffix).  For every history `ops` and every snapshot point `n`:
    a copy of the primary's database taken after the first `n` operations, replaying the binlog from the snapshot's position,
    never fails and ends with exactly the primary's observable state. -/
theorem replay_from_snapshot_partial (c : Cfg) (ops : List Replay.Op) (n : Nat) (h : noReset (ops.drop n) = true) :
    (applyAll .fixed (snapshotOf (prun c State.empty (ops.take n)))
        ((eventsOf c State.empty ops).drop (eventsOf c State.empty (ops.take n)).length)).map view
      = some (view (prun c State.empty ops)) := by
  have hsplit : eventsOf c State.empty ops
      = eventsOf c State.empty (ops.take n) ++ eventsOf c (prun c State.empty (ops.take n)) (ops.drop n) := by
    rw [← eventsOf_append, List.take_append_drop]
  have hrun : prun c State.empty ops = prun c (prun c State.empty (ops.take n)) (ops.drop n) := by
    rw [← prun_append, List.take_append_drop]
  rw [hsplit, List.drop_left, hrun]
  obtain ⟨hi, hm⟩ := reachable c (ops.take n)
  exact replay_run c (ops.drop n) _ _ hi hm h rfl

/-- C16, fresh database file (PARTIAL: no ResetFlood in the history): replaying the whole binlog into an empty database never
    fails and ends with the primary's observable state. -/
theorem replay_into_fresh_db_partial (c : Cfg) (ops : List Replay.Op) (h : noReset ops = true) :
    (applyAll .fixed State.empty (eventsOf c State.empty ops)).map view = some (view (prun c State.empty ops)) :=
  replay_run c ops _ _ SH.C15.inv_empty SH.C19.minv_empty h rfl

/-- error path: a rejected SaveEntity appends nothing and changes nothing -/
theorem failed_save_appends_nothing (s : State) (a : SaveReq) (e : Err) (h : (save s a).2 = .err e) :
    emitSave s a = [] ∧ (save s a).1 = s := by
  refine ⟨?_, SH.C15.failed_save_unchanged s a e h⟩
  unfold emitSave
  rw [h]

/-! ### the readers only see the view -/

theorem insertByVer_norm (x : Entity) : ∀ l : List Entity, (insertByVer x l).map normEnt = insertByVer (normEnt x) (l.map normEnt) := by
  intro l
  induction l with
  | nil => rfl
  | cons y ys ih =>
    simp only [insertByVer, List.map_cons]
    by_cases h : x.version < y.version
    · have h' : (normEnt x).version < (normEnt y).version := h
      simp [h, h']
    · have h' : ¬ (normEnt x).version < (normEnt y).version := h
      simp [h, h', ih]

theorem sortByVer_norm : ∀ l : List Entity, (sortByVer l).map normEnt = sortByVer (l.map normEnt) := by
  intro l
  induction l with
  | nil => rfl
  | cons y ys ih =>
    simp only [sortByVer, List.foldr_cons, List.map_cons] at ih ⊢
    rw [insertByVer_norm, ih]

theorem takeJournal_norm (limit : Int) : ∀ (l : List Entity) (n b : Nat),
    (takeJournal limit n b l).map normEnt = takeJournal limit n b (l.map normEnt) := by
  intro l
  induction l with
  | nil => intro n b; rfl
  | cons y ys ih =>
    intro n b
    simp only [takeJournal, List.map_cons]
    have hd : (normEnt y).dataLen = y.dataLen := rfl
    rw [hd]
    by_cases h1 : metricBytesReadLimit < b + y.dataLen + 20
    · simp [h1]
    · by_cases h2 : limit ≤ (n : Int) + 1
      · simp [h1, h2]
      · simp [h1, h2, ih]

/-- JournalEvents answers from the view (it casts updated_at to uint32 = `normEnt`) -/
theorem journal_of_view (s : State) (since : Nat) (page : Int) :
    (journal s since page).map normEnt = journal (view s) since page := by
  unfold journal journalRows
  rw [takeJournal_norm, sortByVer_norm]
  congr 2
  show _ = List.filter _ (List.map normEnt s.ents)
  rw [List.filter_map]
  rfl

/-- the other readers do not look at anything `view` changes -/
theorem readers_of_view (s : State) :
    (∀ id v, getVersioned (view s) id v = getVersioned s id v) ∧ (∀ id, historyShort (view s) id = historyShort s id) ∧
    (∀ k, lookupKey (view s).maps k = lookupKey s.maps k) ∧ (∀ id, lookupId (view s).maps id = lookupId s.maps id) ∧
    (∀ f p, newMappings (view s) f p = newMappings s f p) ∧ (view s).flood = s.flood ∧ (view s).bootstrap = s.bootstrap :=
  ⟨fun _ _ => rfl, fun _ => rfl, fun _ => rfl, fun _ => rfl, fun _ _ => rfl, rfl, rfl⟩

/-! ### witnesses -/

def c0 : Cfg := { maxBudget := 2, step := 60, bonus := 1, globalBudget := 0 }

def req (loc : Nat) (id : Int) (oldVersion : Nat) (create : Bool) (now : Nat) (typ : Nat := tMetric) (ns : Nat := 0) : SaveReq :=
  { name := ⟨ns, loc⟩, id := id, oldVersion := oldVersion, data := 7, dataLen := 2, create := create, deleteTime := 0, typ := typ,
    mdata := 1, now := now }

/-- create metric w1 · rename it to w2 · create another metric w1 (the freed name) · create mapping · put · delete · bootstrap ·
    builtin entity -3 · rename it; the clock passes 2^32 -/
def h1 : List Replay.Op :=
  [.base (.save (req 1 0 0 true 1000)), .base (.save (req 2 1 1 false 1060)), .base (.save (req 1 0 0 true 4294967400)),
   .base (.getOrCreate 1 5 4294967400), .base (.put [(6, 9), (5, 3)]), .base (.delete [9, 4]), .bootstrap [(5, 3)],
   .base (.save (req 4 (-3) 0 false 4294967500)), .base (.save (req 5 (-3) 4 false 4294967500))]

/-- non-vacuity: the hypotheses of the partial theorems hold for a history with a rename, a reused name, builtin entities, mapping
    creation / put / deletion, bootstrap and a clock beyond 2^32, at a snapshot point in the middle … -/
example : noReset (h1.drop 2) = true ∧ noReset h1 = true := by decide
/-- … and (independently of the theorem) the model really ends in the same view, from the snapshot and from scratch, while the raw
    states differ (updated_at, last created id) -/
example : (applyAll .fixed (snapshotOf (prun c0 State.empty (h1.take 2)))
            ((eventsOf c0 State.empty h1).drop (eventsOf c0 State.empty (h1.take 2)).length)).map view
          = some (view (prun c0 State.empty h1)) := by decide
example : applyAll .fixed State.empty (eventsOf c0 State.empty h1) ≠ some (prun c0 State.empty h1) := by decide

/-- ResetFlood after creating a mapping: the primary holds budget 7 stamped 200, the binlog knows nothing about it -/
def hReset : List Replay.Op := [.base (.getOrCreate 1 5 100), .base (.reset 1 7 200)]

/-- the FULL statement is false on the code as it is: ResetFlood changes flood_limits and appends nothing -/
theorem reset_flood_is_not_replayed :
    (applyAll .fixed State.empty (eventsOf c0 State.empty hReset)).map view ≠ some (view (prun c0 State.empty hReset)) ∧
    (applyAll .fixed State.empty (eventsOf c0 State.empty hReset)).map (·.flood) = some [{ metric := 1, last := 60, free := 1 }] ∧
    (prun c0 State.empty hReset).flood = [{ metric := 1, last := 200, free := 7 }] := by decide

/-- the pinned tree (`RVariant.old`): create w1, rename to w2 — the replica still shows w1 at version 1 (and has a history row
    for version 2 of an entity it lists at version 1) -/
theorem old_replay_loses_rename :
    (applyAll .old State.empty (eventsOf c0 State.empty (h1.take 2))).map (fun r => r.ents.map (fun e => (e.name, e.version)))
      = some [(⟨0, 1⟩, 1)] ∧
    (prun c0 State.empty (h1.take 2)).ents.map (fun e => (e.name, e.version)) = [(⟨0, 2⟩, 2)] ∧
    (applyAll .old State.empty (eventsOf c0 State.empty (h1.take 2))).map view ≠ some (view (prun c0 State.empty (h1.take 2))) := by
  decide

/-- … and once another entity takes the freed name the replayed create hits UNIQUE(namespace_id, type, name): OpenDB fails -/
theorem old_replay_can_fail : applyAll .old State.empty (eventsOf c0 State.empty (h1.take 3)) = none := by decide

/-- with the fix the same histories replay exactly -/
example : (applyAll .fixed State.empty (eventsOf c0 State.empty (h1.take 3))).map view = some (view (prun c0 State.empty (h1.take 3))) := by
  decide


/-! ### with ResetFlood anywhere: everything but the flood-limit table is still reproduced -/

/-- forget the flood-limit table -/
def nf (s : State) : State := { s with flood := [] }

theorem nf_putMany : ∀ (kvs : List (Nat × Int)) (s : State), nf (putMany s kvs) = putMany (nf s) kvs := by
  intro kvs
  induction kvs with
  | nil => intro s; rfl
  | cons kv rest ih => intro s; obtain ⟨k, v⟩ := kv; simp only [putMany]; rw [ih]; rfl

set_option linter.unusedSimpArgs false in
/-- no apply* reads flood_limits: what an event does to the other tables does not depend on it -/
theorem nf_applyEvent (var : RVariant) (s : State) (e : BEvent) :
    (applyEvent var s e).map nf = (applyEvent var (nf s) e).map nf := by
  cases e with
  | createEntity ev =>
    simp only [applyEvent, applyCreateEntity, addHistory, nf]
    by_cases h1 : insertBlocked s.ents (rowOfEvent ev) = true
    · simp [h1, nf]
    · by_cases h2 : histBlocked s.hist ev = true <;> simp [h1, h2, nf]
  | editEntity ev old =>
    simp only [applyEvent, applyEditEntity, editTarget, addHistory, nf]
    by_cases h2 : histBlocked s.hist ev = true
    · cases rowOf s.ents ev.id with
      | none => simp [h2, nf]
      | some r =>
        simp only
        by_cases h3 : (r.version == old && nameMatches var r ev) = true
        · by_cases h4 : updateBlocked s.ents (replayedRow var r ev) = true <;> simp [h2, h3, h4, nf]
        · simp [h2, h3, nf]
    · cases rowOf s.ents ev.id with
      | none => simp [h2, nf]
      | some r =>
        simp only
        by_cases h3 : (r.version == old && nameMatches var r ev) = true
        · by_cases h4 : updateBlocked s.ents (replayedRow var r ev) = true <;> simp [h2, h3, h4, nf]
        · simp [h2, h3, nf]
  | createMapping id key metric updatedAt budget create =>
    simp only [applyEvent, applyCreateMapping, nf]
    by_cases h1 : mapBlocked s.maps id key = true <;> simp [h1, nf]
  | putMapping kvs => simp only [applyEvent, Option.map_some, nf_putMany]; rfl
  | deleteMappings ids => rfl
  | putBootstrap ms => rfl

theorem nf_applyAll (var : RVariant) : ∀ (es : List BEvent) (s : State),
    (applyAll var s es).map nf = (applyAll var (nf s) es).map nf := by
  intro es
  induction es with
  | nil => intro s; rfl
  | cons e rest ih =>
    intro s
    have he := nf_applyEvent var s e
    simp only [applyAll]
    cases h1 : applyEvent var s e with
    | none =>
      cases h2 : applyEvent var (nf s) e with
      | none => rfl
      | some y => simp [h1, h2] at he
    | some x =>
      cases h2 : applyEvent var (nf s) e with
      | none => simp [h1, h2] at he
      | some y =>
        simp only [h1, h2, Option.map_some, Option.some.injEq] at he
        rw [ih x, ih y, he]

/-- the observable projection without the flood-limit table -/
def viewNF (s : State) : State := nf (view s)

theorem viewNF_applyAll (var : RVariant) (es : List BEvent) {r s : State} (h : viewNF r = viewNF s) :
    (applyAll var r es).map viewNF = (applyAll var s es).map viewNF := by
  have hcomm : viewNF = view ∘ nf := rfl
  have hcomm' : view ∘ nf = nf ∘ view := rfl
  have h' : view (nf r) = view (nf s) := h
  calc (applyAll var r es).map viewNF
      = ((applyAll var r es).map nf).map view := by rw [hcomm, Option.map_map]
    _ = ((applyAll var (nf r) es).map nf).map view := by rw [nf_applyAll]
    _ = ((applyAll var (nf r) es).map view).map nf := by rw [Option.map_map, Option.map_map, hcomm']
    _ = ((applyAll var (nf s) es).map view).map nf := by rw [view_applyAll var es h']
    _ = ((applyAll var (nf s) es).map nf).map view := by rw [Option.map_map, Option.map_map, hcomm']
    _ = ((applyAll var s es).map nf).map view := by rw [← nf_applyAll]
    _ = (applyAll var s es).map viewNF := by rw [hcomm, Option.map_map]

/-- EVERY operation (ResetFlood included): replaying what it appended reproduces everything but the flood-limit table -/
theorem emit_replays_nf (c : Cfg) (s : State) (o : Replay.Op) (hi : SH.C15.Inv s) (hm : SH.C19.MInv s) :
    (applyAll .fixed s (emit c s o)).map viewNF = some (viewNF (pstep c s o)) := by
  by_cases hr : isReset o = true
  · cases o with
    | bootstrap ms => simp [isReset] at hr
    | base b =>
      cases b with
      | reset m l now =>
        simp only [emit, applyAll, Option.map_some, Option.some.injEq, pstep, Meta.step, resetFlood]
        by_cases hl : l ≤ 0 <;> simp only [hl, if_true, if_false] <;> rfl
      | save a => simp [isReset] at hr
      | getOrCreate m k now => simp [isReset] at hr
      | put kvs => simp [isReset] at hr
      | delete ids => simp [isReset] at hr
  · have h := emit_replays c s o hi hm (by simpa using hr)
    have : viewNF = nf ∘ view := rfl
    rw [this, ← Option.map_map, h]
    rfl

theorem replay_run_nf (c : Cfg) : ∀ (ops : List Replay.Op) (s r : State), SH.C15.Inv s → SH.C19.MInv s →
    viewNF r = viewNF s → (applyAll .fixed r (eventsOf c s ops)).map viewNF = some (viewNF (prun c s ops)) := by
  intro ops
  induction ops with
  | nil => intro s r _ _ hv; simp [eventsOf, applyAll, prun, hv]
  | cons o rest ih =>
    intro s r hi hm hv
    have hstep : (applyAll .fixed r (emit c s o)).map viewNF = some (viewNF (pstep c s o)) := by
      rw [viewNF_applyAll .fixed (emit c s o) hv]
      exact emit_replays_nf c s o hi hm
    simp only [eventsOf, applyAll_append]
    cases h1 : applyAll .fixed r (emit c s o) with
    | none => simp [h1] at hstep
    | some r1 =>
      simp only [h1, Option.map_some, Option.some.injEq] at hstep
      simp only [Option.bind_some]
      exact ih (pstep c s o) r1 (pstep_inv c s o hi) (pstep_minv c s o hm) hstep

/-- C16 at full strength for everything EXCEPT the flood-limit budgets: for EVERY history (ResetFlood anywhere) and EVERY
    snapshot point the replay never fails and reproduces journal entries, entity history, tag mappings (with both AUTOINCREMENT
    marks) and the bootstrap set exactly. -/
theorem replay_from_snapshot_all_but_flood (c : Cfg) (ops : List Replay.Op) (n : Nat) :
    (applyAll .fixed (snapshotOf (prun c State.empty (ops.take n)))
        ((eventsOf c State.empty ops).drop (eventsOf c State.empty (ops.take n)).length)).map viewNF
      = some (viewNF (prun c State.empty ops)) := by
  have hsplit : eventsOf c State.empty ops
      = eventsOf c State.empty (ops.take n) ++ eventsOf c (prun c State.empty (ops.take n)) (ops.drop n) := by
    rw [← eventsOf_append, List.take_append_drop]
  have hrun : prun c State.empty ops = prun c (prun c State.empty (ops.take n)) (ops.drop n) := by
    rw [← prun_append, List.take_append_drop]
  rw [hsplit, List.drop_left, hrun]
  obtain ⟨hi, hm⟩ := reachable c (ops.take n)
  exact replay_run_nf c (ops.drop n) _ _ hi hm rfl

theorem replay_into_fresh_db_all_but_flood (c : Cfg) (ops : List Replay.Op) :
    (applyAll .fixed State.empty (eventsOf c State.empty ops)).map viewNF = some (viewNF (prun c State.empty ops)) :=
  replay_run_nf c ops _ _ SH.C15.inv_empty SH.C19.minv_empty rfl

/-- the conclusion is not empty: on the history with a ResetFlood the mapping table is reproduced although the flood table is not -/
example : (applyAll .fixed State.empty (eventsOf c0 State.empty hReset)).map (·.maps) = some [(1, 5)] ∧
    (viewNF (prun c0 State.empty hReset)).maps = [(1, 5)] := by decide

end SH.C16
