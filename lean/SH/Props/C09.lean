/-
  C09 — Agent disk cache survives restarts and crashes without corruption.

  "After any sequence of put, get and erase operations and any restart, including a crash that tears the last write at
   any byte, the cache re-reads exactly the seconds that were put and not erased, in write order, with identical bytes;
   it never returns erased seconds or corrupted data, and only a second whose write was torn may be missing. Reported
   total and unsent sizes match the files on disk, and a file whose seconds were all erased is deleted once the cache
   no longer writes to it."

  Model: SH.Model.DiskCache (disk_cache.go, branch for branch; crc32c is the parameter `Cfg.crc`, assumed < 2^32).

  HISTORY LEVEL (this file; all for EVERY `ops : List Op` of put/get/erase/readNext/restart started on an empty directory,
  any number of files and rotations, puts with 32-bit time and body ≤ maxChunkSize):
   * `history_refines`        the reached model state satisfies the refinement invariant `Inv` (SH.Lemmas.DiskCacheInv: every
                              file = encoding of a record list, known buckets ↔ records with ids, ref counts = known seconds +
                              read head + write head, cursors on record boundaries, total/knownSize/waitingSize) and its live
                              sequence is `spec ops` — put appends, erase removes that id, nothing else changes membership
   * `reread_after_restart`   restart + drain returns exactly those seconds, in write order, GetBucket returns identical bytes;
                              `readFuel` always suffices (`mu_le_readFuel`, `readNext_spec`)
   * `torn_tail`              the last put torn at ANY byte: the result equals that of the history without the put
   * `erased_never_returned`  GetBucket / ReadNextTailSecond only ever return live (put, not erased) seconds
   * `size_accounting`        total = Σ file sizes on disk; knownSize / waitingSize / unsent formula
   * `file_removed`           a file is on disk only while a known second, the read head, the write head or the waiting list
                              refers to it; every open file object has a positive ref count
  The step lemmas are in SH/Lemmas/DiskCache{Abs,Inv,Read,Read2,Read3,Loop,Drain,Get,Erase,Erase2,Erase3,Drop,Rotate,NewFile,
  Append,Run,GetLive,Sizes,Torn}.lean; the byte-level theorems of the first round (`reread_after_restart_partial`,
  `torn_tail_partial`, `erase_encAll`, `get_ok_checked`, `readLoop_head`, the torn-erase facts …) are unchanged in
  SH/Lemmas/DiskCacheBytes.lean and still audited.

   * `torn_erase`, `torn_erase_is_erase_or_noop`  (reader with the fix, `tornEraseOk = true`) the 4-byte magic write of an erase
                              torn after k = 0..4 bytes: k ≤ 2 → everything is re-read, k = 3, 4 → everything but that second;
                              never another second lost; `torn_erase3_prefix_loses_later_second_history` = the pre-fix defect
                              as a history-level `decide` witness (SH/Lemmas/DiskCacheTornErase.lean)
   * `getP_eq_get`, `getP_pad_independent` (SH/Lemmas/DiskCachePad.lean) GetBucket reads into the caller's REUSED scratch pad:
                              for every previous contents of the pad the result is the value `get` returns (so every theorem
                              above about `get` holds for the call as the agent makes it); `emptyFastPath_returns_stale_bytes`
                              = the seeded variant returning the previous second's bytes for an empty second (`decide`)
   * `accepted_size_readable`, `accepted_size_readable_P`, `max_chunk_boundary` (SH/Lemmas/DiskCacheLimits.lean) the size check of
                              the writer (`len > maxChunkSize` rejected) implies the size check of the tail reader for ALL sizes,
                              stated also for arbitrary limits maxPut ≤ maxRead; the boundary body of exactly maxChunkSize fills a
                              file to exactly fileRotateSize and is accepted by both; seeded reader (`>=`) as `decide` witness
   * `acct_of_inv`, `acct_vanish`, `acct_skipMissing`, `vanish_then_read_accounts`  fault "a waiting tail file vanishes before the
                              tail reader opens it" (model: `vanish`, `hasFile`, `skipMissing` = the OpenFile-error branch):
                              total = bytes on disk + sizes of vanished files not yet reached; the reader's missing-file iteration
                              subtracts exactly that, so total = bytes on disk again once it has been through the waiting list
   * `writing_file_is_records`, `failed_put_leaves_no_garbage`, `keepFile_resurrects_phantom` (SH/Lemmas/DiskCachePutFail.lean)
                              fault "the body write of a put fails after k bytes" (model: `putFail`): the file that can still be
                              appended to is always exactly the concatenation of its records, and after a failed put NO file can be
                              appended to (the writing file is dropped), so the partial bytes stay a torn tail; seeded variant
                              (keep writing to the same file) brings back a never-put second — `decide` witness.
                              (`putFail` is not an `Op` of the history-level theorems: histories there contain no failed writes.)
  NOTHING of the property statement remains partial in Lean. Outside the theorems (assumptions, see checks/C09.py): I/O error
  branches, crc strength (parameter), prefix-preserving file system, increasing file names, flock, size rotation on real files.
-/
import SH.Lemmas.DiskCacheTornErase
import SH.Lemmas.DiskCachePad
import SH.Lemmas.DiskCacheLimits
import SH.Lemmas.DiskCachePutFail
import SH.Gen.C09

namespace SH.C09
open SH.DiskCache

/-- the constants of the model are the constants of disk_cache.go as the Go compiler evaluates them -/
theorem gen_constants_match :
    Gen.C09.magicGoodBucket = magicGood ∧ Gen.C09.magicDeletedBucket = magicDeleted ∧
    Gen.C09.headerSize = headerSize ∧ Gen.C09.fileRotateSize = fileRotateSize ∧
    Gen.C09.maxChunkSize = maxChunkSize := by decide


/-! ## History level (second round): every `List Op`, several files, rotation, ref counts -/

/-- the model state after a history started on an empty directory, and the history-level specification of what it holds -/
def reach (cfg : Cfg) (ops : List Op) : Shard := run cfg {} ops
def spec (ops : List Op) : AbsH := absRun {} ops

instance (op : Op) : Decidable (OpOk op) := by cases op <;> simp only [OpOk] <;> infer_instance

/-- `history_refines`: for EVERY history the reached model state satisfies the refinement invariant `Inv` (layout of every
    file as records, known buckets ↔ records with ids, ref counts, cursors, sizes) and its live sequence — the seconds on
    disk that are not erased, in write order, with the ids currently handed out — is exactly `spec ops`. -/
theorem history_refines (cfg : Cfg) (hcrc : ∀ b, cfg.crc b < 2 ^ 32) (ops : List Op) (hok : ∀ op ∈ ops, OpOk op) :
    ∃ a, Inv cfg (reach cfg ops) a ∧ a.live cfg = (spec ops).live ∧ a.lastID = (spec ops).lastID := by
  obtain ⟨a, inv, h⟩ := run_refines cfg hcrc ops {} {} (inv_init cfg) hok
  have h0 : (⟨Abs.live cfg {}, ({} : Abs).lastID⟩ : AbsH) = {} := rfl
  rw [h0] at h
  exact ⟨a, inv, congrArg AbsH.live h, congrArg AbsH.lastID h⟩

/-- C09 `reread_after_restart` (full strength, history level): after ANY history of put/get/erase/readNext/restart over any
    number of files and rotations, a restart followed by draining ReadNextTailSecond returns exactly the seconds that were
    put and not erased (`spec ops`), in write order (`outs 0 L` = their times with ids 1,2,…), never runs out of fuel, and
    GetBucket then returns the identical bytes for every one of them. -/
theorem reread_after_restart (cfg : Cfg) (hcrc : ∀ b, cfg.crc b < 2 ^ 32) (ops : List Op) (hok : ∀ op ∈ ops, OpOk op) :
    (drain cfg ((spec ops).live.length + 1) (restart (reach cfg ops))).2 = outs 0 (clearLive (spec ops).live) ∧
    ∀ k t d, (some k, t, d) ∈ stamp 0 (clearLive (spec ops).live) →
      DiskCache.get cfg (drain cfg ((spec ops).live.length + 1) (restart (reach cfg ops))).1 k t =
        ((drain cfg ((spec ops).live.length + 1) (restart (reach cfg ops))).1, .ok d) := by
  obtain ⟨a, inv, hl, _⟩ := history_refines cfg hcrc ops hok
  obtain ⟨a', inv', hl', hi'⟩ := inv_restart cfg _ a inv
  rw [hl] at hl'
  have hnone : ∀ e ∈ a'.live cfg, e.1 = none := by
    intro e he; rw [hl'] at he
    simp only [clearLive, List.mem_map] at he
    obtain ⟨_, _, rfl⟩ := he; rfl
  have hlen : (a'.live cfg).length < (spec ops).live.length + 1 := by rw [hl']; simp [clearLive]
  obtain ⟨h1, a'', inv'', h2, _⟩ := drain_spec cfg (a'.live cfg) [] _ _ a' inv' (by simp) (by simp) hnone hlen
  rw [hi', hl'] at h1 h2
  refine ⟨h1, ?_⟩
  intro k t d hmem
  exact get_live cfg _ a'' inv'' k t d (by rw [h2]; simpa using hmem)

/-- C09 `torn_tail` (full strength, history level): for EVERY history and EVERY cut — the crash tears the last put `n` bytes
    before its end, 1 ≤ n ≤ header+body, i.e. at any byte offset of the final write — restart + drain returns exactly the
    seconds of the history without that put: only the torn second is missing, nothing else, nothing spurious. -/
theorem torn_tail (cfg : Cfg) (hcrc : ∀ b, cfg.crc b < 2 ^ 32) (ops : List Op) (hok : ∀ op ∈ ops, OpOk op)
    (t : Nat) (d : Bytes) (r : Bool) (hput : OpOk (.put t d r)) (n : Nat) (hn0 : 0 < n) (hn : n ≤ headerSize + d.length) :
    (drain cfg ((spec ops).live.length + 1) (restart (tearNewest (reach cfg (ops ++ [.put t d r])) n))).2 =
      (drain cfg ((spec ops).live.length + 1) (restart (reach cfg ops))).2 := by
  rw [(reread_after_restart cfg hcrc ops hok).1]
  exact torn_tail_history cfg hcrc ops hok t d r hput n hn0 hn

example : OpOk (.put 17 [9] false) ∧ 0 < 5 ∧ 5 ≤ headerSize + [9].length := by decide

/-- C09 torn ERASE (full strength, history level, reader with the fix b1b680d2 = `tornEraseOk = true`): for EVERY history, EVERY
    id and EVERY tear of the 4-byte magic write of `EraseBucket id` after k = 0..4 bytes, restart + drain returns
      k = 0, 1, 2  (bytes EC 07 are common to both magics: the magic on disk is still the good one, `torn_erase_magic`)
                   → all live seconds of the history, the one being erased included (the erase did not happen);
      k = 3        (magic 0x590007EC, which the fixed reader skips like a deleted record)
      k = 4        (magic 0x000007EC, the erase is complete)
                   → all live seconds except that one;
    never is any OTHER second lost, never a spurious one returned; an unknown id writes nothing. -/
theorem torn_erase (cfg : Cfg) (hfix : cfg.tornEraseOk = true) (hcrc : ∀ b, cfg.crc b < 2 ^ 32) (ops : List Op)
    (hok : ∀ op ∈ ops, OpOk op) (id k : Nat) (hk : k ≤ 4) :
    (drain cfg ((spec ops).live.length + 1) (restart (tornErase (reach cfg ops) id k))).2 =
      outs 0 (clearLive (if k ≤ 2 then (spec ops).live else liveErase id (spec ops).live)) :=
  torn_erase_history cfg hfix hcrc ops hok id k hk

/-- hence, with the fix, a torn erase is always one of the two legal outcomes of the history: as if the erase had not been
    issued (`ops`), or as if it had completed (`ops ++ [erase id]`) -/
theorem torn_erase_is_erase_or_noop (cfg : Cfg) (hfix : cfg.tornEraseOk = true) (hcrc : ∀ b, cfg.crc b < 2 ^ 32) (ops : List Op)
    (hok : ∀ op ∈ ops, OpOk op) (id k : Nat) (hk : k ≤ 4) :
    (drain cfg ((spec ops).live.length + 1) (restart (tornErase (reach cfg ops) id k))).2 = outs 0 (clearLive (spec ops).live) ∨
    (drain cfg ((spec ops).live.length + 1) (restart (tornErase (reach cfg ops) id k))).2 =
      outs 0 (clearLive (spec (ops ++ [.erase id])).live) := by
  rw [torn_erase cfg hfix hcrc ops hok id k hk]
  by_cases h : k ≤ 2
  · left; rw [if_pos h]
  · right; rw [if_neg h]
    simp [spec, absRun, List.foldl_append, absStep]

/-- THE CODE BEFORE THE FIX (`cfg0.tornEraseOk = false`), at history level, on a concrete history: two puts into one file, the
    erase of the first torn after 3 bytes, restart, drain: NOTHING comes back — the second put (time 17, never erased, its
    write not torn) is lost; the same history with the fixed reader returns it. This is the defect fixed by b1b680d2. -/
def opsT : List Op := [.put 15 [1, 2] false, .put 17 [9] false]
theorem torn_erase3_prefix_loses_later_second_history :
    (spec opsT).live = [(some 1, 15, [1, 2]), (some 2, 17, [9])] ∧
    (drain cfg0 3 (restart (tornErase (reach cfg0 opsT) 1 3))).2 = [] ∧
    (drain cfgFixed 3 (restart (tornErase (reach cfgFixed opsT) 1 3))).2 = [(17, 1)] := by decide

example : cfgFixed.tornEraseOk = true ∧ (∀ op ∈ opsT, OpOk op) ∧ 3 ≤ 4 := by decide
/-- the hypothesis on the checksum parameter is satisfiable (as it is by crc32c): a 32-bit valued function, reader with the fix -/
def cfgB : Cfg := { crc := fun b => b.length % 4294967296, tornEraseOk := true }
example : (∀ b, cfgB.crc b < 2 ^ 32) ∧ cfgB.tornEraseOk = true := ⟨fun b => Nat.mod_lt _ (by decide), rfl⟩
example : outs 0 (clearLive (liveErase 1 (spec opsT).live)) = [(17, 1)] := by decide

/-- C09 `erased_never_returned` (every history): whatever GetBucket returns in any reachable state is a second of the live
    sequence with that id and time (so it was put and not erased, and the bytes are the bytes put); whatever
    ReadNextTailSecond hands out is a live second not handed out before; and an erase removes its id from the live sequence. -/
theorem erased_never_returned (cfg : Cfg) (hcrc : ∀ b, cfg.crc b < 2 ^ 32) (ops : List Op) (hok : ∀ op ∈ ops, OpOk op) :
    (∀ k t d s', DiskCache.get cfg (reach cfg ops) k t = (s', .ok d) → (some k, t, d) ∈ (spec ops).live) ∧
    (∀ t id, (readNext cfg (reach cfg ops)).2 = .got t id → ∃ d, (none, t, d) ∈ (spec ops).live) ∧
    (readNext cfg (reach cfg ops)).2 ≠ .fuel ∧
    (∀ id t d, (some id, t, d) ∉ (spec (ops ++ [.erase id])).live) := by
  obtain ⟨a, inv, hl, _⟩ := history_refines cfg hcrc ops hok
  refine ⟨?_, ?_, ?_, ?_⟩
  · intro k t d s' h
    rw [← hl]; exact get_ok_live cfg _ s' a inv k t d h
  · intro t id h
    obtain ⟨hp, _⟩ := readNext_spec cfg _ a inv
    rw [h] at hp
    obtain ⟨_, l1, b, l2, _, _, _, hsplit, _, _⟩ := hp
    exact ⟨b, by rw [← hl, hsplit]; simp⟩
  · exact (readNext_spec cfg _ a inv).2
  · intro id t d hmem
    simp only [spec, absRun, List.foldl_append, List.foldl_cons, List.foldl_nil, absStep, liveErase, List.mem_filter] at hmem
    simp at hmem

/-- C09 `size_accounting` (every history): TotalFileSize's total is the sum of the file sizes on disk; the unsent parts are
    the header+body bytes of the live seconds that currently have an id, plus the sizes of the files not yet opened (each
    equal to the length of that file on disk); `unsent` is their sum with the unread rest of the reading file, capped by total. -/
theorem size_accounting (cfg : Cfg) (hcrc : ∀ b, cfg.crc b < 2 ^ 32) (ops : List Op) (hok : ∀ op ∈ ops, OpOk op) :
    (reach cfg ops).total = sumSizes (reach cfg ops).disk ∧
    (reach cfg ops).knownSize = knownBytes (spec ops).live ∧
    (reach cfg ops).waitingSize = (((reach cfg ops).waiting.map (fun w => (w.size : Int))).sum) ∧
    (∀ w ∈ (reach cfg ops).waiting, w.size = (DiskCache.fileBytes (reach cfg ops).disk w.name).length) ∧
    unsent (reach cfg ops) = min ((reach cfg ops).knownSize + (reach cfg ops).waitingSize + readingRest (reach cfg ops)) (reach cfg ops).total := by
  obtain ⟨a, inv, hl, _⟩ := history_refines cfg hcrc ops hok
  refine ⟨?_, ?_, ?_, ?_, ?_⟩
  · rw [inv.total, inv.disk, sumSizes_render]
  · rw [inv.knownSize_live, hl]
  · rw [inv.waitingSize, inv.waiting]; simp [sizeSum, List.map_map, Function.comp_def]
  · intro w hw
    rw [inv.waiting] at hw
    obtain ⟨f, hf, rfl⟩ := List.mem_map.mp hw
    have hff : f ∈ a.files := by simp [Abs.files, hf]
    simp only
    rw [inv.fileBytes hff]; rfl
  · unfold unsent
    simp only
    split <;> omega

/-- C09 `file_removed` (every history): a file is on disk only while something refers to it — a known second lives in it,
    or it is the read head, the write head, or still waiting to be re-read; every open file object has a positive ref count
    and its file is on disk; so a file whose seconds were all erased and that is neither read nor written is gone. -/
theorem file_removed (cfg : Cfg) (hcrc : ∀ b, cfg.crc b < 2 ^ 32) (ops : List Op) (hok : ∀ op ∈ ops, OpOk op) :
    (∀ d ∈ (reach cfg ops).disk,
      (∃ b ∈ (reach cfg ops).known, b.file = d.name) ∨ (reach cfg ops).reading = some d.name ∨
      (reach cfg ops).writing = some d.name ∨ (∃ w ∈ (reach cfg ops).waiting, w.name = d.name)) ∧
    (∀ name o, findO (reach cfg ops).ofiles name = some o → 0 < o.refCount ∧ ∃ d ∈ (reach cfg ops).disk, d.name = name) := by
  obtain ⟨a, inv, _, _⟩ := history_refines cfg hcrc ops hok
  constructor
  · intro d hd
    rw [inv.disk] at hd
    obtain ⟨f, hf, rfl⟩ := List.mem_map.mp hd
    have hfn : (f.render cfg).name = f.name := rfl
    rw [hfn]
    have hcase : f ∈ a.pre ++ a.new ∨ f ∈ a.curL ∨ f ∈ a.wait := by
      simp only [Abs.files, List.mem_append] at hf ⊢
      rcases hf with h | h | h | h
      · exact Or.inl (Or.inl h)
      · exact Or.inr (Or.inl h)
      · exact Or.inr (Or.inr h)
      · exact Or.inl (Or.inr h)
    rcases hcase with h | h | h
    · have hp := inv.present f h
      unfold Abs.refs at hp
      by_cases hr : a.rname = some f.name
      · right; left; rw [inv.reading]; exact hr
      · by_cases hw : a.wname = some f.name
        · right; right; left; rw [inv.writing]; exact hw
        · left
          rw [if_neg hr, if_neg hw] at hp
          have hpos : 0 < idc f.recs := by omega
          rw [idc_eq_len cfg f.name 0 f.recs] at hpos
          obtain ⟨b, hb⟩ := List.exists_mem_of_length_pos hpos
          obtain ⟨_, _, _, _, _, hbe⟩ := mem_bucketsAt cfg f.name b 0 f.recs hb
          exact ⟨b, (inv.known b).mpr (List.mem_flatMap.mpr ⟨f, hf, hb⟩), by rw [hbe]⟩
    · right; left
      unfold Abs.curL at h
      split at h
      · rename_i g j hc
        simp at h; subst h
        rw [inv.reading]; simp [Abs.rname, hc]
      · simp at h
    · right; right; right
      exact ⟨⟨f.name, f.size cfg⟩, by rw [inv.waiting]; exact List.mem_map.mpr ⟨f, h, rfl⟩, rfl⟩
  · intro name o ho
    have h0 := inv.ofiles name
    rw [ho] at h0
    obtain ⟨_, f, hf, hfn, hrc, hpos, _, _⟩ := h0
    exact ⟨by omega, f.render cfg, by rw [inv.disk]; exact List.mem_map.mpr ⟨f, hf, rfl⟩, hfn⟩

/-! non-vacuity: a concrete history with rotation, an erase, a restart and a re-read -/
def ops0 : List Op := [.put 15 [1, 2] false, .put 16 [3] true, .erase 1, .restart, .readNext]
example : ∀ op ∈ ops0, OpOk op := by decide
example : spec ops0 = { live := [(some 1, 16, [3])], lastID := 1 } := by decide
example : ∀ b, cfg0.crc b < 2 ^ 32 → True := fun _ _ => trivial
example : outs 0 (clearLive (spec ops0).live) = [(16, 1)] := by decide

end SH.C09
