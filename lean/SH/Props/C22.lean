/-
  C22 — Query time axes are aligned, gap-free and bounded.

  "For every query range, step, current time, time zone, week start and screen width, the returned time points
   strictly increase, consecutive points differ by exactly their level-of-detail step (calendar months for monthly
   steps), every point is aligned to its step in the configured time zone, each level's step is one of the table
   resolutions and levels get finer toward the present, the number of points stays within the limit, and the
   requested range is covered starting at the reported start index. The per-level ranges handed to the storage
   layer are contiguous and match those points."

  Model: SH.Model.Timescale (`getTimescale` = data_model.GetTimescale, `getLODs` = Timescale.GetLODs,
  `mathDiv`/`roundTime` = both copies in data_model/timescale.go and api/lod.go, `calcUTCOffset` = api/lod.go),
  tables from the regenerated SH.Gen.C22. Helper lemmas: SH.Lemmas.Timescale.

  Reading.
  * All theorems are for EVERY argument tuple `a : Args` (start, end, step, now, width, mode, extend, utc offset,
    list of (metric resolution, offset)) and every calendar `cal` with `CalOK cal` where months are involved:
    the hypothesis `getTimescale cal a = .ok ts` only says "the call returned without error".
  * Time zone: the configured zone enters the code as `UTCOffset` (for all non-monthly steps) and as the
    *time.Location used for month arithmetic. "Aligned in the configured time zone" is therefore
    `(t + utcOffset) % step = 0`, and for the monthly step `startOfMonth t = t` (`Aligned`).
    Go's `time` package is data: `Cal.som`/`Cal.next`; `CalOK` lists the six order facts used
    (the harness checks them for the month boundaries of every generated monthly case on the real code).
  * The level of point i is `(expand ts.lods)[i]`: `ts.lods` lists (step, len) per level, `expand` repeats each
    step `len` times.
  * Point queries (mode = point) return a two-element [from, to) range, not an axis; the axis theorems are stated
    for the other modes (`isPoint a = false`), `steps_valid_nonincreasing` for all modes.

  Proved at full strength (∀ inputs): mathDiv_is_floor, roundTime_is_aligned_floor, roundTime_floor (all t : Int, negative included), calcUTCOffset_week_start,
    time_strictly_increasing, axis_length, adjacent_diff_is_lod_step, points_aligned, steps_valid_nonincreasing,
    start_index_covered, lods_contiguous_and_match_points, points_bounded (len Time ≤ maxPoints + 3),
    range_end_covered (last point before End, one more step reaches End, the `extend` point, ViewEndX),
    metric_offset_dvd + lods_with_offset_translated (GetLODs with a metric offset = the offset-0 ranges translated),
    lods_shifted_on_grid (for EVERY time shift: every range on the grid of its step - month starts for monthly -, exactly Len
      grid points inside, LOD.IndexOf defined for each of them), point_single_level, point_range (point queries: [from, to) aligned, from < to, inside the request / covering it with `extend`).
  Explicit exclusion, with `decide` witnesses: monthly step combined with a non-zero metric offset (known finding
    `month-offset-coverage`) — hypothesis `hm` of range_end_covered and lods_with_offset_translated.
  Helper developments: SH.Lemmas.Timescale, SH.Lemmas.TimescaleEnd (what `endOfLOD` computes, its additivity, the point-limit
    invariant and the whole-walk invariant of the level loop, table facts `LevOK` decided on the regenerated tables).
  Also: point_single_level (a point query uses exactly one level). Not in Lean: Go's `time` package (CalOK is assumed, checked on the
    observed month boundaries by the harness).
-/
import SH.Lemmas.Timescale
import SH.Lemmas.TimescaleEnd

namespace SH.C22
open SH.Timescale SH.Gen.C22

/-! ### rounding -/

/-- `mathDiv` is floor division (for every non-zero divisor, either sign). -/
theorem mathDiv_is_floor (a b : Int) (hb : b ≠ 0) : mathDiv a b = Int.fdiv a b := mathDiv_fdiv a b hb

example : mathDiv (-7) 2 = -4 ∧ mathDiv 7 (-2) = -4 ∧ mathDiv (-8) 2 = -4 ∧ mathDiv 7 2 = 3 := by decide

/-- `roundTime t step off` is the largest `r ≤ t` with `(r + off) % step = 0`. -/
theorem roundTime_is_aligned_floor (t step off : Int) (hs : 0 < step) :
    (roundTime t step off + off) % step = 0 ∧ roundTime t step off ≤ t ∧ t < roundTime t step off + step :=
  ⟨roundTime_aligned t step off hs, roundTime_bracket t step off hs⟩

example : roundTime 100 60 0 = 60 ∧ roundTime (-1) 60 10800 = -60 := by decide

/-- rounding goes DOWN, by less than one step, for every `t : Int` — negative `t + utcOffset` (times before 1970, or the first
    days of 1970 under a negative offset) included -/
theorem roundTime_floor (t step off : Int) (hs : 0 < step) :
    roundTime t step off ≤ t ∧ t - roundTime t step off < step := by
  have := roundTime_bracket t step off hs
  omega

/-- the model's `mathDiv` is built from Go's truncating `/` and `%` (Int.tdiv / Int.tmod) plus the correction branch; it is floor
    division, not T-division: for a negative dividend the two differ -/
example : mathDiv (-1) 60 = -1 ∧ Int.tdiv (-1) 60 = 0 ∧ Int.fdiv (-1) 60 = -1 := by decide

/-- seeded variant C22-r5-1 as a counter-example: `t - (t+utcOffset) % step` with the truncating `%` rounds 1969-12-31T23:59:59 UP
    to 1970-01-01T00:00:00 (and, under utcOffset = -5h, the first hours of 1970 up as well), violating `result ≤ t`;
    for `t + utcOffset ≥ 0` it agrees with the code -/
example : roundTimeTrunc (-1) 60 0 = 0 ∧ ¬ (roundTimeTrunc (-1) 60 0 ≤ -1) ∧ roundTime (-1) 60 0 = -60 ∧
    roundTimeTrunc 3601 86400 (-18000) = 18000 ∧ roundTime 3601 86400 (-18000) = -68400 ∧
    roundTimeTrunc 100 60 0 = roundTime 100 60 0 := by decide

/-- week start: with `off = calcUTCOffset ws z`, a time is 7d-aligned iff its local time (zone offset `z`) is a multiple of
    a week after 1970-01-01 shifted to weekday `ws` — local day number ≡ ws - 4 (mod 7), 1970-01-01 being a Thursday (4). -/
theorem calcUTCOffset_week_start (ws z t : Int) :
    (t + calcUTCOffset ws z) % 604800 = 0 ↔ (t + z) % 86400 = 0 ∧ ((t + z) / 86400 + 4 - ws) % 7 = 0 := by
  simp only [calcUTCOffset]
  have : ((4 : Int) == 0) = false := by decide
  simp only [this, Bool.false_and, Bool.false_eq_true, if_false]
  omega

example : calcUTCOffset 1 10800 = 3 * 86400 + 10800 := by decide

/-! ### the axis -/
theorem time_strictly_increasing (cal : Cal) (hc : CalOK cal) (a : Args) (ts : TS)
    (h : getTimescale cal a = .ok ts) (hp : isPoint a = false) :
    List.Pairwise (· < ·) ts.time := by
  by_cases hne : ts.time = []
  · rw [hne]; exact List.Pairwise.nil
  · obtain ⟨hok, _, ht, _, _⟩ := range_facts cal a ts h hp hne
    rw [ht]
    exact walk_increasing cal _ (fwd_of_stepsOK cal hc _ (stepsOK_of_lodsOK a _ hok)) _

theorem axis_length (cal : Cal) (a : Args) (ts : TS)
    (h : getTimescale cal a = .ok ts) (hp : isPoint a = false) :
    ts.time.length = (expand ts.lods).length ∧ (expand ts.lods).length = (ts.lods.map (·.len)).sum := by
  have hsum : ∀ lods : List LOD, (expand lods).length = (lods.map (·.len)).sum := by
    intro lods
    induction lods with
    | nil => simp [expand]
    | cons l ls ih => rw [expand_cons]; simp [ih]
  refine ⟨?_, hsum _⟩
  by_cases hne : ts.time = []
  · unfold getTimescale at h
    split at h
    · simp at h; subst h; simp [TS.empty, expand]
    · split at h
      · cases h
      · split at h
        · simp at h; subst h; simp [TS.empty, expand]
        · split at h
          · cases h
          · simp [hp] at h; subst h
            rename_i lods hl hemp _
            have hne' : lods ≠ [] := by intro e; simp [e] at hemp
            rw [rangeTS_time cal a lods _ hne', walk_length]
  · obtain ⟨_, _, ht, _, _⟩ := range_facts cal a ts h hp hne
    rw [ht, walk_length]

theorem adjacent_diff_is_lod_step (cal : Cal) (a : Args) (ts : TS)
    (h : getTimescale cal a = .ok ts) (hp : isPoint a = false)
    (i : Nat) (x y s : Int) (hx : ts.time[i]? = some x) (hy : ts.time[i + 1]? = some y)
    (hs : (expand ts.lods)[i]? = some s) :
    y = stepForward cal x s := by
  have hne : ts.time ≠ [] := by intro e; simp [e] at hx
  obtain ⟨_, _, ht, _, _⟩ := range_facts cal a ts h hp hne
  rw [ht] at hx hy
  exact walk_chain cal _ _ i x y s hx hy hs

theorem points_aligned (cal : Cal) (hc : CalOK cal) (a : Args) (ts : TS)
    (h : getTimescale cal a = .ok ts) (hp : isPoint a = false)
    (i : Nat) (x s : Int) (hx : ts.time[i]? = some x) (hs : (expand ts.lods)[i]? = some s) :
    Aligned cal a.utcOffset x s := by
  have hne : ts.time ≠ [] := by intro e; simp [e] at hx
  obtain ⟨hok, hlne, ht, _, _⟩ := range_facts cal a ts h hp hne
  rw [ht] at hx
  have hso := stepsOK_of_lodsOK a _ hok
  obtain ⟨rest, hr⟩ := expand_head ts.lods hok hlne
  refine walk_aligned cal hc a.utcOffset _ hso _ ?_ i x s hx hs
  rw [hr] at hso ⊢
  refine aligned_all cal _ _ _ _ hso ?_
  obtain ⟨x0, hx0⟩ := backN_is_start cal (step0Of ts.lods) a.utcOffset
    (leftExtra a (startOfLOD cal a.start (step0Of ts.lods) a.utcOffset)) a.start
  unfold tstart
  rw [hx0]
  exact startOfLOD_aligned cal hc _ _ _ (step0_ok a _ hok hlne)

theorem steps_valid_nonincreasing (cal : Cal) (a : Args) (ts : TS) (h : getTimescale cal a = .ok ts) :
    (∀ l ∈ ts.lods, l.step ∈ tableSteps ∧ 0 < l.len) ∧ List.Pairwise (fun x y => y.step < x.step) ts.lods := by
  have key : LodsOK (allSteps (levelsFor a)) ts.lods := by
    unfold getTimescale at h
    split at h
    · simp at h; subst h; simp [TS.empty, LodsOK]
    · split at h
      · cases h
      · rename_i lods hl
        have hok := genLODs_ok cal a lods hl
        split at h
        · simp at h; subst h; simp [TS.empty, LodsOK]
        · split at h
          · cases h
          · split at h
            · simp at h; subst h
              rcases pointTS_lods cal a lods (step0Of lods) with e | e
              · rw [e]; simp [LodsOK]
              · rw [e]; exact hok
            · simp at h; subst h
              rw [rangeTS_lods]
              by_cases he : a.extend = true
              · simp only [he, if_true]; exact lodsOK_bumpLast _ _ (lodsOK_bumpFirst _ _ hok)
              · simp only [he, Bool.false_eq_true, if_false, id]; exact lodsOK_bumpFirst _ _ hok
  refine ⟨fun l hl => ⟨?_, (key.1 l hl).2⟩, key.2⟩
  have := (key.1 l hl).1
  unfold levelsFor at this
  split at this
  · exact levels_in_table _ (by simp [this])
  · exact levels_in_table _ (by simp [this])

/-! ### the requested range starts at the reported index -/
theorem start_index_covered (cal : Cal) (hc : CalOK cal) (a : Args) (ts : TS)
    (h : getTimescale cal a = .ok ts) (hp : isPoint a = false) (hne : ts.time ≠ []) :
    ts.startX = 1 ∧ ts.viewStartX = (if a.extend then 2 else 1) ∧
    (∀ (i : Nat) (x : Int), i < ts.viewStartX → ts.time[i]? = some x → x < a.start) ∧
    (∀ x : Int, ts.time[ts.viewStartX]? = some x → a.start ≤ x) := by
  obtain ⟨lods, hl, hne', _, rfl, _, _⟩ := getTimescale_range cal a ts h hp hne
  have hok := genLODs_ok cal a lods hl
  have hs0 := step0_ok a lods hok hne'
  cases lods with
  | nil => exact absurd rfl hne'
  | cons l ls =>
  have hlen := (hok.1 l (by simp)).2
  obtain ⟨rest, hr⟩ := rangeTS_prefix cal a l ls l.step hlen
  have ht := rangeTS_time cal a (l :: ls) l.step (by simp)
  simp only [step0Of] at hs0 ⊢
  rw [hr] at ht
  have hsx : (rangeTS cal a (l :: ls) l.step).startX = 1 := by
    unfold rangeTS; by_cases he : a.extend = true <;> simp [he]
  have hvx : (rangeTS cal a (l :: ls) l.step).viewStartX = (if a.extend then 2 else 1) := by
    unfold rangeTS; by_cases he : a.extend = true <;> simp [he, viewStart]
  refine ⟨hsx, hvx, ?_⟩
  rw [hvx, ht]
  have f0 := start_facts cal hc l.step a.utcOffset a.start hs0
  have a0 := startOfLOD_aligned cal hc a.start l.step a.utcOffset hs0
  unfold tstart
  generalize startOfLOD cal a.start l.step a.utcOffset = t0 at *
  have p1 := prev_facts cal hc l.step a.utcOffset t0 hs0 a0
  have p2 := prev_facts cal hc l.step a.utcOffset _ hs0 p1.2.2
  by_cases hlt : t0 < a.start <;> by_cases he : a.extend = true
  · -- k = 1, view starts at 2
    simp only [leftExtra, hlt, he, if_true, backN, List.replicate_succ, List.replicate_zero, List.cons_append,
      List.nil_append, walk, p1.2.1]
    refine ⟨?_, ?_⟩
    · intro i x hi hx
      match i, hi with
      | 0, _ => simp at hx; omega
      | 1, _ => simp at hx; omega
    · intro x hx
      simp only [List.getElem?_cons_succ] at hx
      have := walk_head_eq cal _ _ _ hx; omega
  · -- k = 0, view starts at 1
    simp only [leftExtra, hlt, he, if_true, Bool.false_eq_true, if_false, backN, List.replicate_succ,
      List.replicate_zero, List.cons_append, List.nil_append, walk]
    refine ⟨?_, ?_⟩
    · intro i x hi hx
      match i, hi with
      | 0, _ => simp at hx; omega
    · intro x hx
      simp only [List.getElem?_cons_succ] at hx
      have := walk_head_eq cal _ _ _ hx; omega
  · -- t0 = start, k = 2, view starts at 2
    have heq : t0 = a.start := by omega
    simp only [leftExtra, hlt, he, if_true, if_false, backN, List.replicate_succ, List.replicate_zero, List.cons_append,
      List.nil_append, walk, p1.2.1, p2.2.1]
    refine ⟨?_, ?_⟩
    · intro i x hi hx
      match i, hi with
      | 0, _ => simp at hx; omega
      | 1, _ => simp at hx; omega
    · intro x hx
      simp at hx; omega
  · -- t0 = start, k = 1, view starts at 1
    have heq : t0 = a.start := by omega
    simp only [leftExtra, hlt, he, if_false, Bool.false_eq_true, backN, List.replicate_succ, List.replicate_zero,
      List.cons_append, List.nil_append, walk, p1.2.1]
    refine ⟨?_, ?_⟩
    · intro i x hi hx
      match i, hi with
      | 0, _ => simp at hx; omega
    · intro x hx
      simp at hx; omega

/-! ### per-level ranges handed to the storage layer -/

/-- GetLODs (offset 0): one range per level with the level's step; consecutive ranges are contiguous; the first starts at
    Time[0]; enumerating every range from its FromSec by its step, Len times, gives exactly Time; and every ToSec is one step
    after the last point of its range. -/
theorem lods_contiguous_and_match_points (cal : Cal) (a : Args) (ts : TS)
    (h : getTimescale cal a = .ok ts) (hp : isPoint a = false) (hne : ts.time ≠ []) :
    (getLODs cal a.utcOffset ts 0).map (·.2.2) = ts.lods.map (·.step) ∧
    (∀ (j : Nat) (r r' : Int × Int × Int), (getLODs cal a.utcOffset ts 0)[j]? = some r →
        (getLODs cal a.utcOffset ts 0)[j + 1]? = some r' → r.2.1 = r'.1) ∧
    (∀ r : Int × Int × Int, (getLODs cal a.utcOffset ts 0)[0]? = some r → ts.time[0]? = some r.1) ∧
    ts.time = ((getLODs cal a.utcOffset ts 0).zip ts.lods).flatMap
        (fun p => (walk cal (List.replicate p.2.len p.1.2.2) p.1.1).1) ∧
    (∀ (j : Nat) (r : Int × Int × Int) (l : LOD), (getLODs cal a.utcOffset ts 0)[j]? = some r → ts.lods[j]? = some l →
        r.2.1 = (walk cal (List.replicate l.len r.2.2) r.1).2) := by
  obtain ⟨hok, hlne, ht, _, _⟩ := range_facts cal a ts h hp hne
  obtain ⟨rest, hr⟩ := expand_head ts.lods hok hlne
  have hhead : ts.time = tstart cal a (step0Of ts.lods) :: (walk cal rest (stepForward cal (tstart cal a (step0Of ts.lods)) (step0Of ts.lods))).1 := by
    rw [ht, hr]; simp [walk]
  have hg : getLODs cal a.utcOffset ts 0 = lodRanges cal ts.lods (tstart cal a (step0Of ts.lods)) := by
    unfold getLODs; rw [hhead]; simp
  rw [hg]
  refine ⟨lodRanges_steps cal _ _, lodRanges_contiguous cal _ _, ?_, ?_, lodRanges_to cal _ _⟩
  · intro r hr0
    rw [lodRanges_head cal _ _ r hr0, hhead]; simp
  · rw [← lodRanges_enumerate]; exact ht

/-! ### non-vacuity: concrete argument tuples for which `getTimescale` succeeds with a non-trivial axis -/

/-- a calendar with 30-day months satisfies `CalOK` (so the hypotheses about months are satisfiable) -/
def cal30 : Cal := ⟨fun t => t / 2592000 * 2592000, fun t => t / 2592000 * 2592000 + 2592000⟩

example : CalOK cal30 := by
  constructor <;> intro t <;> simp only [cal30] <;> omega

/-- two levels (1m up to the 52h switch, then 5s = metric resolution), start inside a bucket, extend -/
def exArgs : Args :=
  { start := 80, end_ := 250, step := 0, now := 187398, width := 0, mode := .range, extend := true,
    utcOffset := 0, metrics := [(5, 0)] }

example : (getTimescale cal30 exArgs).toOption =
    some ⟨[0, 60, 120, 180, 240, 245, 250], [⟨60, 4⟩, ⟨5, 3⟩], 1, 2, 6⟩ := by decide
example : getLODs cal30 0 ⟨[0, 60, 120, 180, 240, 245, 250], [⟨60, 4⟩, ⟨5, 3⟩], 1, 2, 6⟩ 0 =
    [(0, 240, 60), (240, 255, 5)] := by decide
example : isPoint exArgs = false := by decide

/-- monthly step on the 30-day calendar -/
def exArgsMonthly : Args :=
  { start := 2592000 * 3 + 5, end_ := 2592000 * 5 + 9, step := 2678400, now := 2592000 * 5, width := 0, mode := .range,
    extend := false, utcOffset := 0, metrics := [] }

example : (getTimescale cal30 exArgsMonthly).toOption =
    some ⟨[7776000, 10368000, 12960000], [⟨2678400, 3⟩], 1, 1, 3⟩ := by decide

/-! ### the point limit -/

/-- the number of points stays within the limit: at most maxPoints points of the LOD list, plus at most two points on the left
    and the `extend` point on the right (the out-of-range error is the other outcome: `getTimescale = .error .outOfRange`) -/
theorem points_bounded (cal : Cal) (hc : CalOK cal) (a : Args) (ts : TS)
    (h : getTimescale cal a = .ok ts) (hp : isPoint a = false) :
    (ts.time.length : Int) ≤ maxPoints + 3 := by
  by_cases hne : ts.time = []
  · rw [hne]; decide
  · obtain ⟨lods, hl, hne', _, rfl, _, _⟩ := getTimescale_range cal a ts h hp hne
    have hb := genLODs_bound cal hc a hp lods hl
    rw [rangeTS_length cal a lods _ hne']
    have := leftExtra_le a (startOfLOD cal a.start (step0Of lods) a.utcOffset)
    split <;> push_cast <;> omega

example : isPoint exArgs = false ∧ ((getTimescale cal30 exArgs).toOption.map (·.time.length)) = some 7 := by decide

/-! ### the end of the requested range -/

/-- "the requested range is covered" at its end, and the view end index: the points up to ViewEndX end with the last point
    before `End`; one more step of the finest level reaches `End`; with `extend` that next point is appended. -/
theorem range_end_covered (cal : Cal) (hc : CalOK cal) (a : Args) (ts : TS)
    (h : getTimescale cal a = .ok ts) (hp : isPoint a = false) (hne : ts.time ≠ [])
    (hm : isMonth a.step = false ∨ maxOffset a = 0) :
    ∃ base L, ts.time = base ++ [L] ++ (if a.extend then [stepForward cal L (lastStepOf ts.lods)] else []) ∧
      L < a.end_ ∧ a.end_ ≤ stepForward cal L (lastStepOf ts.lods) ∧
      ts.viewEndX = max (base.length + 1) ts.viewStartX := by
  obtain ⟨lods, hl, hne', hoff, rfl, _, _⟩ := getTimescale_range cal a ts h hp hne
  have hok := genLODs_ok cal a lods hl
  have hs0 := step0_ok a lods hok hne'
  obtain ⟨pts, L, h1, h2, h3, h4⟩ := cover_unshifted cal hc a hp lods hl hne' (by simpa using hoff) hm
  have hlast : lastStepOf (rangeTS cal a lods (step0Of lods)).lods = lastStepOf lods := by
    rw [rangeTS_lods]
    by_cases he : a.extend = true
    · simp only [he, if_true, lastStepOf_bumpLast, lastStepOf_bumpFirst]
    · simp only [he, Bool.false_eq_true, if_false, id, lastStepOf_bumpFirst]
  obtain ⟨hs1, hs2⟩ := rangeTS_shape cal a lods (step0Of lods)
  cases lods with
  | nil => exact absurd rfl hne'
  | cons l ls =>
    simp only [step0Of] at *
    obtain ⟨left, hleft⟩ := rangeTS_walk_split cal hc a l ls hs0
    rw [hleft] at hs1 hs2
    simp only at hs1 hs2
    rw [h1] at hs1 hs2
    rw [h4] at hs1
    refine ⟨left ++ pts, L, ?_, h2, by rw [hlast]; exact h3, ?_⟩
    · rw [hs1, hlast]; simp
    · rw [hs2]; simp; omega

example : isMonth exArgs.step = false ∨ maxOffset exArgs = 0 := by decide
example : isMonth exArgsMonthly.step = false ∨ maxOffset exArgsMonthly = 0 := by decide

/-! ### GetLODs with a metric time offset: the ranges are the unshifted ones translated by the offset -/

/-- every offset of the query's metrics is a multiple of the coarsest step (the `%` check of GetTimescale) -/
theorem metric_offset_dvd (cal : Cal) (a : Args) (ts : TS) (h : getTimescale cal a = .ok ts) (hp : isPoint a = false)
    (hne : ts.time ≠ []) (p : Int × Int) (hpm : p ∈ a.metrics) : step0Of ts.lods ∣ p.2 := by
  obtain ⟨lods, _, hne', hoff, rfl, _, _⟩ := getTimescale_range cal a ts h hp hne
  have hs0 : step0Of (rangeTS cal a lods (step0Of lods)).lods = step0Of lods := by
    rw [rangeTS_lods]
    cases lods with
    | nil => exact absurd rfl hne'
    | cons l ls =>
      by_cases he : a.extend = true
      · simp only [he, if_true, bumpFirst]
        cases ls <;> simp [bumpLast, step0Of]
      · simp [he, bumpFirst, step0Of]
  rw [hs0]
  simp only [offsetsOK, List.all_eq_true] at hoff
  exact Int.dvd_of_tmod_eq_zero (by simpa using hoff p hpm)

/-- for every offset that is a multiple of the coarsest step (all metric offsets are, see `metric_offset_dvd`) and a non-monthly
    query (or offset 0), `GetLODs(metric, offset)` returns the ranges of offset 0 moved back by `offset`.
    The excluded case — monthly step with a non-zero offset — is the known finding `month-offset-coverage`; witness below. -/
theorem lods_with_offset_translated (cal : Cal) (hc : CalOK cal) (a : Args) (ts : TS)
    (h : getTimescale cal a = .ok ts) (hp : isPoint a = false) (hne : ts.time ≠ [])
    (o : Int) (hd : step0Of ts.lods ∣ o) (hm : isMonth a.step = false ∨ o = 0) :
    getLODs cal a.utcOffset ts o = (getLODs cal a.utcOffset ts 0).map (fun r => (r.1 - o, r.2.1 - o, r.2.2)) := by
  by_cases ho : o = 0
  · subst ho; simp
  · have hnm : isMonth a.step = false := by rcases hm with hm | hm; exact hm; exact absurd hm ho
    obtain ⟨hok, hlne, ht, _, _⟩ := range_facts cal a ts h hp hne
    obtain ⟨rest, hr⟩ := expand_head ts.lods hok hlne
    have hhead : ts.time = tstart cal a (step0Of ts.lods) ::
        (walk cal rest (stepForward cal (tstart cal a (step0Of ts.lods)) (step0Of ts.lods))).1 := by
      rw [ht, hr]; simp [walk]
    have htbl : allSteps (levelsFor a) = allSteps lodLevels := by simp [levelsFor, hnm]
    rw [htbl] at hok
    have hsteps : ∀ l ∈ ts.lods, isMonth l.step = false := fun l hl => (levels_not_month _ (hok.1 l hl).1).1
    obtain ⟨l0, hl0, e0⟩ : ∃ l ∈ ts.lods, l.step = step0Of ts.lods := by
      cases hts : ts.lods with
      | nil => exact absurd hts hlne
      | cons l ls => exact ⟨l, by simp, rfl⟩
    have hs0 := levels_not_month _ (hok.1 l0 hl0).1
    rw [e0] at hs0
    obtain ⟨x0, hx0⟩ := backN_is_start cal (step0Of ts.lods) a.utcOffset
      (leftExtra a (startOfLOD cal a.start (step0Of ts.lods) a.utcOffset)) a.start
    have hal : Aligned cal a.utcOffset (tstart cal a (step0Of ts.lods)) (step0Of ts.lods) := by
      unfold tstart; rw [hx0]; exact startOfLOD_aligned cal hc _ _ _ (Or.inr hs0.2)
    simp only [Aligned, hs0.1, Bool.false_eq_true, if_false] at hal
    generalize tstart cal a (step0Of ts.lods) = t0 at *
    have hstart : startOfLOD cal (t0 - o) (step0Of ts.lods) a.utcOffset = t0 + -o := by
      simp only [startOfLOD, hs0.1, Bool.false_eq_true, if_false]
      have : t0 - o = t0 + -o := by omega
      rw [this, roundTime_translate _ _ _ _ hs0.2 ((Int.dvd_neg).mpr hd), roundTime_fixed _ _ _ hs0.2 hal]
    unfold getLODs
    rw [hhead]
    have hob : (o != 0) = true := by simpa using ho
    simp only [hob, if_true, hstart, lodRanges_translate cal ts.lods hsteps]
    simp
    intro r x b _
    constructor <;> omega


example : (getTimescale cal30 { exArgs with metrics := [(5, 120)] }).toOption =
    some ⟨[0, 60, 120, 180, 240, 300], [⟨60, 6⟩], 1, 2, 5⟩ := by decide
example : getLODs cal30 0 ⟨[0, 60, 120, 180, 240, 300], [⟨60, 6⟩], 1, 2, 5⟩ 120 = [(-120, 240, 60)] ∧
    getLODs cal30 0 ⟨[0, 60, 120, 180, 240, 300], [⟨60, 6⟩], 1, 2, 5⟩ 0 = [(0, 360, 60)] := by decide
/-- witness for the exclusion (known finding month-offset-coverage): monthly axis [3M, 4M, 5M] of the 30-day calendar, offset 31 days
    (a multiple of `_1M`, so it passes the `%` check): GetLODs re-rounds to month 1 and returns [1M, 4M), not [3M - 31d, 6M - 31d) -/
example : getLODs cal30 0 ⟨[7776000, 10368000, 12960000], [⟨2678400, 3⟩], 1, 1, 3⟩ 2678400 = [(2592000, 10368000, 2678400)] ∧
    (getLODs cal30 0 ⟨[7776000, 10368000, 12960000], [⟨2678400, 3⟩], 1, 1, 3⟩ 0).map
      (fun r => (r.1 - 2678400, r.2.1 - 2678400, r.2.2)) = [(5097600, 12873600, 2678400)] := by decide

/-! ### point queries -/

/-- point queries return one [from, to) range on the grid of the (single, coarsest) level: both ends aligned, from < to,
    and the range lies inside the request (or covers it when `extend` is set) -/
theorem point_range (cal : Cal) (hc : CalOK cal) (a : Args) (ts : TS) (h : getTimescale cal a = .ok ts)
    (hp : isPoint a = true) (hne : ts.time ≠ []) :
    ∃ t t1, ts.time = [t, t1] ∧ t < t1 ∧
      Aligned cal a.utcOffset t (step0Of ts.lods) ∧ Aligned cal a.utcOffset t1 (step0Of ts.lods) ∧
      (if a.extend then t ≤ a.start ∧ a.end_ ≤ t1 else a.start ≤ t ∧ t1 ≤ a.end_) := by
  obtain ⟨lods, hl, hlne, rfl⟩ := getTimescale_point cal a ts h hp hne
  have hok := genLODs_ok cal a lods hl
  have hs0 := step0_ok a lods hok hlne
  have hfw : Fwd cal (step0Of lods) := by
    rcases hs0 with h | h
    · exact fwd_month cal hc _ h
    · by_cases hm : isMonth (step0Of lods) = true
      · exact fwd_month cal hc _ hm
      · exact fwd_of_pos cal _ (by simpa using hm) h
  have f0 := start_facts cal hc (step0Of lods) a.utcOffset a.start hs0
  have a0 := startOfLOD_aligned cal hc a.start (step0Of lods) a.utcOffset hs0
  unfold pointTS at hne ⊢
  generalize startOfLOD cal a.start (step0Of lods) a.utcOffset = t0 at *
  dsimp only at hne ⊢
  by_cases he : a.extend = true
  · -- extend: from = startOfLOD(Start), to = first grid point ≥ End
    simp only [he, Bool.not_true, Bool.and_false, Bool.false_eq_true, if_false, if_true] at hne ⊢
    obtain ⟨k, hk, hle⟩ := endOfLOD_spec cal (step0Of lods) hfw t0 a.end_
    rw [hk] at hne ⊢
    have hge := segEnd_ge cal (step0Of lods) hfw k t0
    split at hne
    · exact absurd rfl hne
    · rename_i hneq
      simp only [beq_iff_eq] at hneq
      simp only [beq_iff_eq, hneq, if_false]
      refine ⟨t0, segEnd cal (step0Of lods) k t0, rfl, ?_, a0, aligned_segEnd cal hc _ _ k t0 a0, f0.1, hle.1⟩
      have : (0 : Int) ≤ k := Int.natCast_nonneg k
      omega
  · have he' : a.extend = false := by simpa using he
    simp only [he', Bool.not_false, Bool.and_true, Bool.false_eq_true, if_false] at hne ⊢
    -- no extend: from = first grid point ≥ Start, to = last grid point ≤ End
    have key : ∀ t, a.start ≤ t → Aligned cal a.utcOffset t (step0Of lods) →
        (if (t == (endOfLOD cal t (step0Of lods) a.end_ true).1) = true then TS.empty
          else ({ time := [t, (endOfLOD cal t (step0Of lods) a.end_ true).1], lods := lods, startX := 0, viewStartX := 0, viewEndX := 1 } : TS)).time ≠ [] →
        ∃ t' t1, (if (t == (endOfLOD cal t (step0Of lods) a.end_ true).1) = true then TS.empty
          else ({ time := [t, (endOfLOD cal t (step0Of lods) a.end_ true).1], lods := lods, startX := 0, viewStartX := 0, viewEndX := 1 } : TS)).time = [t', t1] ∧
          t' < t1 ∧ Aligned cal a.utcOffset t' (step0Of (if (t == (endOfLOD cal t (step0Of lods) a.end_ true).1) = true then TS.empty
          else ({ time := [t, (endOfLOD cal t (step0Of lods) a.end_ true).1], lods := lods, startX := 0, viewStartX := 0, viewEndX := 1 } : TS)).lods) ∧
          Aligned cal a.utcOffset t1 (step0Of (if (t == (endOfLOD cal t (step0Of lods) a.end_ true).1) = true then TS.empty
          else ({ time := [t, (endOfLOD cal t (step0Of lods) a.end_ true).1], lods := lods, startX := 0, viewStartX := 0, viewEndX := 1 } : TS)).lods) ∧
          a.start ≤ t' ∧ t1 ≤ a.end_ := by
      intro t hst hat hne2
      split at hne2
      · exact absurd rfl hne2
      · rename_i hneq
        simp only [beq_iff_eq] at hneq
        simp only [beq_iff_eq, hneq, if_false]
        by_cases hte : t ≤ a.end_
        · obtain ⟨k, hk, h1, h2⟩ := endLoop_le_spec cal (step0Of lods) a.end_ hfw (a.end_ - t).toNat t 0 (Nat.le_refl _) hte
          have hk' : (endOfLOD cal t (step0Of lods) a.end_ true).1 = segEnd cal (step0Of lods) k t := hk
          rw [hk'] at hneq ⊢
          exact ⟨t, _, rfl, by omega, hat, aligned_segEnd cal hc _ _ k t hat, hst, h2⟩
        · exfalso
          apply hneq
          have : (a.end_ - t).toNat = 0 := by omega
          simp [endOfLOD, this, endLoop]
    by_cases hlt : t0 < a.start
    · simp only [hlt, decide_true, if_true] at hne ⊢
      exact key _ (by omega) (aligned_step cal hc _ _ _ a0) hne
    · simp only [hlt, decide_false, Bool.false_eq_true, if_false] at hne ⊢
      exact key _ (by omega) a0 hne

/-- a point query is served from exactly one level of detail -/
theorem point_single_level (cal : Cal) (hc : CalOK cal) (a : Args) (ts : TS) (h : getTimescale cal a = .ok ts)
    (hp : isPoint a = true) (hne : ts.time ≠ []) : ts.lods.length = 1 := by
  obtain ⟨lods, hl, hlne, rfl⟩ := getTimescale_point cal a ts h hp hne
  rw [pointTS_time_lods cal a lods _ hne]
  have := genLODs_point_single cal hc a hp lods hl
  cases lods with
  | nil => exact absurd rfl hlne
  | cons l ls => simp at this ⊢; exact this

example : (getTimescale cal30 { exArgs with mode := .point, extend := false }).toOption =
    some ⟨[120, 240], [⟨60, 4⟩], 0, 0, 1⟩ := by decide
example : (getTimescale cal30 { exArgs with mode := .point, extend := true }).toOption =
    some ⟨[60, 300], [⟨60, 4⟩], 0, 0, 1⟩ := by decide

/-! ### time-shifted ranges: alignment, point count, IndexOf -/

/-- the per-level ranges handed to the storage layer, for EVERY time shift `o` (GetLODs(metric, o)): range j has the step of level j,
    its FromSec and ToSec lie on the grid of that step in the configured zone (month starts for the monthly step: the shifted start is
    re-aligned), stepping `Len` times from FromSec reaches ToSec, so the range holds exactly the level's `Len` grid points, each of
    them inside [FromSec, ToSec), aligned, and addressable: LOD.IndexOf returns its position. -/
theorem lods_shifted_on_grid (cal : Cal) (hc : CalOK cal) (a : Args) (ts : TS)
    (h : getTimescale cal a = .ok ts) (hp : isPoint a = false) (hne : ts.time ≠ []) (o : Int)
    (j : Nat) (r : Int × Int × Int) (l : LOD)
    (hr : (getLODs cal a.utcOffset ts o)[j]? = some r) (hl : ts.lods[j]? = some l) :
    r.2.2 = l.step ∧ Aligned cal a.utcOffset r.1 l.step ∧ Aligned cal a.utcOffset r.2.1 l.step ∧
    r.2.1 = segEnd cal l.step l.len r.1 ∧
    ∀ i, i < l.len → r.1 ≤ segEnd cal l.step i r.1 ∧ segEnd cal l.step i r.1 < r.2.1 ∧
      Aligned cal a.utcOffset (segEnd cal l.step i r.1) l.step ∧ indexOf cal r (segEnd cal l.step i r.1) = some (i : Int) := by
  obtain ⟨hok, hlne, ht, _, _⟩ := range_facts cal a ts h hp hne
  obtain ⟨rest, hrest⟩ := expand_head ts.lods hok hlne
  have hhead : ts.time = tstart cal a (step0Of ts.lods) ::
      (walk cal rest (stepForward cal (tstart cal a (step0Of ts.lods)) (step0Of ts.lods))).1 := by
    rw [ht, hrest]; simp [walk]
  have hs0 := step0_ok a _ hok hlne
  obtain ⟨x0, hx0⟩ := backN_is_start cal (step0Of ts.lods) a.utcOffset
    (leftExtra a (startOfLOD cal a.start (step0Of ts.lods) a.utcOffset)) a.start
  have hal : Aligned cal a.utcOffset (tstart cal a (step0Of ts.lods)) (step0Of ts.lods) := by
    unfold tstart; rw [hx0]; exact startOfLOD_aligned cal hc _ _ _ hs0
  have hS : ∃ S, getLODs cal a.utcOffset ts o = lodRanges cal ts.lods S ∧ Aligned cal a.utcOffset S (step0Of ts.lods) := by
    unfold getLODs; rw [hhead]
    by_cases ho : (o != 0) = true
    · exact ⟨startOfLOD cal (tstart cal a (step0Of ts.lods) - o) (step0Of ts.lods) a.utcOffset, by simp only [ho, if_true],
        startOfLOD_aligned cal hc _ _ _ hs0⟩
    · exact ⟨tstart cal a (step0Of ts.lods), by simp only [ho, Bool.false_eq_true, if_false], hal⟩
  obtain ⟨S, hg, hSa⟩ := hS
  rw [hg] at hr
  obtain ⟨g1, g2, g3, g4⟩ := lodRanges_grid cal hc a.utcOffset (tbl_link cal a.utcOffset a) ts.lods hok S hSa j r l hr hl
  have hlm : l ∈ ts.lods := List.mem_of_getElem? hl
  have hstep := (hok.1 l hlm).1
  have hfw := tbl_fwd cal hc a l.step hstep
  have hsp : isMonth l.step = true ∨ 0 < l.step := Or.inr (tbl_pos a l.step hstep)
  refine ⟨g1, g2, g3, g4, ?_⟩
  intro i hi
  refine ⟨?_, ?_, aligned_segEnd cal hc _ _ i _ g2, ?_⟩
  · have := segEnd_ge cal l.step hfw i r.1
    have : (0 : Int) ≤ i := Int.natCast_nonneg i
    omega
  · rw [g4]; exact segEnd_lt cal l.step hfw i l.len hi r.1
  · have hrr : r = (r.1, r.2.1, l.step) := by rw [← g1]
    rw [hrr]; exact indexOf_grid cal l.step hfw hsp _ _ i

/-- the monthly axis [3M, 4M, 5M] of the 30-day calendar, shifted by 31 days (one nominal month, what the API passes) -/
def monthlyTS : TS := ⟨[7776000, 10368000, 12960000], [⟨2678400, 3⟩], 1, 1, 3⟩

/-- the code: the shifted start is re-aligned to the month start (month 1), the range holds months 1, 2, 3 -/
example : getLODs cal30 0 monthlyTS 2678400 = [(2592000, 10368000, 2678400)] ∧ cal30.som 2592000 = 2592000 ∧
    indexOf cal30 (2592000, 10368000, 2678400) 7776000 = some 2 := by decide
/-- seeded variant C22-r3-1 (`start := Time[0] - offset`, no re-alignment) as a counter-example: the range starts at
    3M - 31d = 5097600, inside month 1 (not a month start), and only two month starts (2M, 3M) lie in [5097600, 4M) although the
    axis has three points -/
example : getLODsNoRealign cal30 monthlyTS 2678400 = [(5097600, 10368000, 2678400)] ∧ cal30.som 5097600 ≠ 5097600 ∧
    segEnd cal30 2678400 1 5097600 = 2592000 * 2 ∧ segEnd cal30 2678400 3 5097600 = 10368000 := by decide
/-- fixed steps: IndexOf of a grid point, of an off-grid instant (error), and before the range (negative index, as in Go) -/
example : indexOf cal30 (0, 600, 60) 120 = some 2 ∧ indexOf cal30 (0, 600, 60) 121 = none ∧
    indexOf cal30 (0, 600, 60) (-60) = some (-1) := by decide
/-! ### the two findings on the code as it is, as `decide` witnesses on the model

  (1) fixes/C22-month-start.diff. Before the fix StepForward is `AddDate(0,1,0)`: it adds a month to the previous point instead of
  going to the start of the next month. In a zone where a month starts at 01:00 (summer time switched on at 00:00 of the 1st)
  every later point stays at 01:00. `calGapOld` is such a calendar (30-day months, month 3 starts one hour late) with the old
  `next`; `calGapFixed` has the `next` of the fixed code. With the old one `CalOK.next_aligned` fails and so does the property. -/

def gapSom (t : Int) : Int :=
  if 2592000 * 3 ≤ t ∧ t < 2592000 * 3 + 3600 then 2592000 * 2   -- the missing hour belongs to the previous month
  else if 2592000 * 3 + 3600 ≤ t ∧ t < 2592000 * 4 then 2592000 * 3 + 3600
  else t / 2592000 * 2592000

/-- old code: `AddDate(0,1,0)` keeps the time of day; a result inside the missing hour is normalised to its end -/
def calGapOld : Cal :=
  ⟨gapSom, fun t => if 2592000 * 3 ≤ t + 2592000 ∧ t + 2592000 < 2592000 * 3 + 3600 then 2592000 * 3 + 3600 else t + 2592000⟩
/-- fixed code: start of the next calendar month -/
def calGapFixed : Cal := ⟨gapSom, fun t => gapSom (gapSom t + 2592000 + 3600)⟩

def gapArgs : Args :=
  { start := 2592000 * 2 + 5, end_ := 2592000 * 5 + 9, step := 2678400, now := 2592000 * 5, width := 0, mode := .range,
    extend := false, utcOffset := 0, metrics := [] }

/-- old: the point after the late month start is not a month start (4M+3600 instead of 4M), and month 5, which begins
    (at 5M) before End = 5M+9, is missing because the drifted 5M+3600 is already past End -/
example : (getTimescale calGapOld gapArgs).toOption.map (·.time) = some [5184000, 7779600, 10371600] := by decide
example : calGapOld.som 10371600 ≠ 10371600 := by decide
/-- fixed: every point is the start of its month -/
example : (getTimescale calGapFixed gapArgs).toOption.map (·.time) =
    some [5184000, 7779600, 10368000, 12960000] := by decide
example : ∀ x ∈ [5184000, 7779600, 10368000, 12960000], calGapFixed.som x = x := by decide

/-! (2) known finding `month-offset-coverage` (no small fix): monthly step with a metric offset of 31 days. The months are counted
  on [Start - 31d, End - 31d) — four of them — but laid out from the unshifted start, so the last point (month 6) lies
  beyond End (in month 5) although `extend` is off: `range_end_covered` above is false without its hypothesis `hm`. -/
example : (getTimescale cal30 { exArgsMonthly with end_ := 2592000 * 5 + 100000, metrics := [(1, 2678400)] }).toOption.map (·.time) =
    some [7776000, 10368000, 12960000, 15552000] := by decide
example : (getTimescale cal30 { exArgsMonthly with end_ := 2592000 * 5 + 100000, metrics := [] }).toOption.map (·.time) =
    some [7776000, 10368000, 12960000] := by decide

/-! (3) fixes/C22-indexof-month.diff: before it IndexOf stepped with AddDate(0,1,0) (`calGapOld.next`): after a month that starts at 01:00
    every later month start is missed; with StepForward (`calGapFixed.next`) month 4 of the range starting at month 2 has index 2 -/
example : indexOf calGapOld (5184000, 15552000, 2678400) 10368000 = none ∧
    indexOf calGapFixed (5184000, 15552000, 2678400) 10368000 = some 2 := by decide


end SH.C22
